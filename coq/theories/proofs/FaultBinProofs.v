(* C20 for the BINARY streaming reader (BinReader over BufWin) under read schedules WITH I/O
   failures.  Route: fault erasure, as in FaultProofs.v for the text reader.  A reader state over
   the schedule [sch] and its twin over [clean sch] (same window, same unread data, same
   delivered count) run in lock step through every step of next / read_bytes / skip_container
   until the faulty one reports E_Io.  The C08 theorems (proved under no_fail) are transported to
   arbitrary schedules. *)
From JV Require Import Bytes Tables BinPrim BufWin BinLexer BinReader.
From JV.proofs Require Import BinLexProofs BufWinProofs BinStreamProofs BinRSkipProofs FaultProofs.
From Coq Require Import List NArith Bool Lia Arith.
Import ListNotations.
Open Scope nat_scope.

(* ---------- fault erasure on reader states ---------- *)
Lemma clean_no_fail_b l : BinReader.no_fail (clean l) = true.
Proof. induction l as [|[n|] t IH]; cbn [clean BinReader.no_fail]; auto. Qed.

Lemma clean_id_b l : BinReader.no_fail l = true -> clean l = l.
Proof.
  induction l as [|[n|] t IH]; cbn [clean BinReader.no_fail]; intros H; [reflexivity| |discriminate].
  f_equal. auto.
Qed.

(* s2 is a fault-free twin of s1: same window; same unread data and delivered count; the schedule
   of s2 is the schedule of s1 with the Fail events removed *)
Definition steq (s1 s2 : rstate) : Prop := fst s1 = fst s2 /\ rdeq (snd s1) (snd s2).
Definition twin (s : rstate) : rstate := (fst s, erd (snd s)).

Lemma steq_twin s : steq s (twin s).
Proof. unfold steq, twin. cbn [fst snd]. split; [reflexivity|apply rdeq_erd]. Qed.
Lemma twin_no_fail s : BinReader.no_fail (sched (snd (twin s))) = true.
Proof. unfold twin, erd. cbn [snd sched]. apply clean_no_fail_b. Qed.
Lemma steq_no_fail s1 s2 : steq s1 s2 -> BinReader.no_fail (sched (snd s2)) = true.
Proof. intros (_ & _ & <- & _). apply clean_no_fail_b. Qed.
Lemma steq_mk b d1 d2 : rdeq d1 d2 -> steq (b, d1) (b, d2).
Proof. intros H. split; [reflexivity|exact H]. Qed.
Lemma steq_new capv sch d : steq (rdr_new capv sch d) (rdr_new capv (clean sch) d).
Proof. unfold steq, rdr_new, rdeq. cbn [fst snd rest sched delivered]. auto. Qed.
Lemma steq_fuel s1 s2 : steq s1 s2 -> rdr_fuel s1 = rdr_fuel s2.
Proof. intros (Hb & Hr & _). unfold rdr_fuel. rewrite Hb, Hr. reflexivity. Qed.
Lemma steq_position s1 s2 : steq s1 s2 -> rdr_position s1 = rdr_position s2.
Proof. intros (Hb & _). unfold rdr_position. rewrite Hb. reflexivity. Qed.
Lemma steq_pending s1 s2 : steq s1 s2 -> rdr_pending s1 = rdr_pending s2.
Proof. intros (Hb & Hr & _). unfold rdr_pending. rewrite Hb, Hr. reflexivity. Qed.

(* fill_buf in lock step *)
Lemma rdr_fill_eq s1 s2 : steq s1 s2 ->
  match rdr_fill s1 with
  | FcZero s1' => exists s2', rdr_fill s2 = FcZero s2' /\ steq s1' s2'
  | FcMore s1' => exists s2', rdr_fill s2 = FcMore s2' /\ steq s1' s2'
  | FcErr e s1' => e = E_Io \/ exists s2', rdr_fill s2 = FcErr e s2' /\ steq s1' s2'
  end.
Proof.
  destruct s1 as [b d1], s2 as [b' d2]. intros [Hb Hd]. cbn [fst snd] in Hb, Hd. subst b'.
  unfold rdr_fill. cbn [fst snd]. pose proof (fill_eq b d1 d2 Hd) as Hf.
  destruct (bw_fill_buf b d1) as [n b2 d1'|b2 d1'|b2 d1'].
  - destruct Hf as (d2' & -> & Hd'). destruct (Nat.eqb n 0); eexists; (split; [reflexivity|apply steq_mk; exact Hd']).
  - left. reflexivity.
  - destruct Hf as (d2' & -> & Hd'). right. eexists. split; [reflexivity|apply steq_mk; exact Hd'].
Qed.

(* ---------- generic: a fuelled step loop in lock step ---------- *)
Section Lock.
  Context {St Res : Type}.
  Variable step : St -> St + Res.
  Variable R : St -> St -> Prop.
  Variable Q : Res -> Res -> Prop.
  Variable io : Res -> Prop.

  Definition sumrel (x y : St + Res) : Prop :=
    match x, y with inl a, inl b => R a b | inr a, inr b => Q a b | _, _ => False end.
  Definition optrel (x y : option Res) : Prop :=
    match x, y with Some a, Some b => Q a b | None, None => True | _, _ => False end.
  Definition lockstep (x y : St + Res) : Prop := (exists r, x = inr r /\ io r) \/ sumrel x y.

  Hypothesis Hstep : forall a b, R a b -> lockstep (step a) (step b).

  Lemma run_steps_lock : forall fuel a b, R a b ->
    (exists r, run_steps step fuel a = Some r /\ io r) \/
    optrel (run_steps step fuel a) (run_steps step fuel b).
  Proof.
    induction fuel as [|f IH]; intros a b Hab; [right; exact I|].
    cbn [run_steps]. destruct (Hstep a b Hab) as [(r & -> & Hio)|Hs].
    - left. eauto.
    - destruct (step a) as [a'|ra], (step b) as [b'|rb]; cbn [sumrel] in Hs; try contradiction.
      + apply IH. exact Hs.
      + right. exact Hs.
  Qed.
End Lock.

(* results in lock step: same outcome, twin successor states *)
Definition resq {A} (r1 r2 : outcome A * rstate) : Prop := fst r1 = fst r2 /\ steq (snd r1) (snd r2).
Definition is_io {A} (r : outcome A * rstate) : Prop := fst r = Err E_Io.

Lemma advance_lock {A} (G : A -> A -> Prop) s1 s2 used k1 k2 c1 c2 :
  steq s1 s2 ->
  (forall s1' s2', steq s1' s2' -> G (k1 s1') (k2 s2')) ->
  (forall o, G (c1 o) (c2 o)) ->
  G (rdr_advance s1 used k1 c1) (rdr_advance s2 used k2 c2).
Proof.
  destruct s1 as [b d1], s2 as [b' d2]. intros [Hb Hd] Hk Hc. cbn [fst snd] in Hb, Hd. subst b'.
  unfold rdr_advance. cbn [fst snd]. destruct (bw_advance b used); try apply Hc.
  apply Hk. apply steq_mk. exact Hd.
Qed.

(* ---------- next ---------- *)
Lemma next_step_lock s1 s2 : steq s1 s2 ->
  lockstep steq resq is_io (rdr_next_step s1) (rdr_next_step s2).
Proof.
  intros Heq. pose proof Heq as [Hb _]. unfold rdr_next_step. rewrite <- Hb.
  destruct (read_token (win (fst s1))) as [[t w']|e| | |].
  - apply advance_lock; [exact Heq| |]; intros; right; cbn [sumrel]; split; cbn [fst snd]; auto.
  - destruct (e =? E_LexEof)%N.
    + pose proof (rdr_fill_eq s1 s2 Heq) as Hf.
      destruct (rdr_fill s1) as [s1'|s1'|e' s1'].
      * destruct Hf as (s2' & -> & Heq'). destruct Heq' as [Hb' Hd']. rewrite <- Hb'.
        right. destruct (Nat.eqb _ 0); cbn [sumrel]; split; cbn [fst snd]; auto; split; auto.
      * destruct Hf as (s2' & -> & Heq'). right. exact Heq'.
      * destruct Hf as [->|(s2' & -> & Heq')].
        -- left. eexists. split; reflexivity.
        -- right. split; cbn [fst snd]; auto.
    + right. split; cbn [fst snd]; auto.
  - right. split; cbn [fst snd]; auto.
  - right. split; cbn [fst snd]; auto.
  - right. split; cbn [fst snd]; auto.
Qed.

Theorem rdr_next_lock s1 s2 : steq s1 s2 ->
  is_io (rdr_next s1) \/ resq (rdr_next s1) (rdr_next s2).
Proof.
  intros Heq. unfold rdr_next. rewrite <- (steq_fuel _ _ Heq).
  destruct (run_steps_lock rdr_next_step steq resq is_io next_step_lock (rdr_fuel s1) s1 s2 Heq)
    as [(r & -> & Hio)|Hq].
  - left. exact Hio.
  - right. destruct (run_steps _ _ s1), (run_steps _ _ s2); cbn [optrel] in Hq; try contradiction.
    + exact Hq.
    + split; [reflexivity|exact Heq].
Qed.

Theorem rdr_read_lock s1 s2 : steq s1 s2 ->
  is_io (rdr_read s1) \/ resq (rdr_read s1) (rdr_read s2).
Proof.
  intros Heq. unfold rdr_read. destruct (rdr_next_lock s1 s2 Heq) as [Hio|[Ho Hs]].
  - left. destruct (rdr_next s1) as [o s1']. unfold is_io in *. cbn [fst] in Hio. subst o. reflexivity.
  - right. destruct (rdr_next s1) as [o1 s1'], (rdr_next s2) as [o2 s2']. cbn [fst snd] in Ho, Hs. subst o2.
    destruct o1 as [[t|]|e| | |]; split; cbn [fst snd]; auto.
Qed.

(* ---------- read_bytes ---------- *)
Lemma read_bytes_step_lock n s1 s2 : steq s1 s2 ->
  lockstep steq resq is_io (rdr_read_bytes_step n s1) (rdr_read_bytes_step n s2).
Proof.
  intros Heq. pose proof Heq as [Hb _]. unfold rdr_read_bytes_step. rewrite <- Hb.
  destruct (Nat.ltb _ n).
  - pose proof (rdr_fill_eq s1 s2 Heq) as Hf.
    destruct (rdr_fill s1) as [s1'|s1'|e' s1'].
    + destruct Hf as (s2' & -> & Heq'). right. split; cbn [fst snd]; auto.
    + destruct Hf as (s2' & -> & Heq'). right. exact Heq'.
    + destruct Hf as [->|(s2' & -> & Heq')].
      * left. eexists. split; reflexivity.
      * right. split; cbn [fst snd]; auto.
  - apply advance_lock; [exact Heq| |]; intros; right; cbn [sumrel]; split; cbn [fst snd]; auto.
Qed.

Theorem rdr_read_bytes_lock n s1 s2 : steq s1 s2 ->
  is_io (rdr_read_bytes n s1) \/ resq (rdr_read_bytes n s1) (rdr_read_bytes n s2).
Proof.
  intros Heq. unfold rdr_read_bytes. rewrite <- (steq_fuel _ _ Heq).
  destruct (run_steps_lock (rdr_read_bytes_step n) steq resq is_io (read_bytes_step_lock n) (rdr_fuel s1) s1 s2 Heq)
    as [(r & -> & Hio)|Hq].
  - left. exact Hio.
  - right. destruct (run_steps _ _ s1), (run_steps _ _ s2); cbn [optrel] in Hq; try contradiction.
    + exact Hq.
    + split; [reflexivity|exact Heq].
Qed.

(* ---------- skip_container ---------- *)
Definition skeq (a b : nat * rstate) : Prop := fst a = fst b /\ steq (snd a) (snd b).

Definition sk_fill (depth : nat) (fc : fill_class) : (nat * rstate) + (outcome unit * rstate) :=
  match fc with
  | FcZero s' => inr (Err E_LexEof, s')
  | FcMore s' => inl (depth, s')
  | FcErr e s' => inr (Err e, s')
  end.
Definition sk_adv (s : rstate) (used depth' : nat) : (nat * rstate) + (outcome unit * rstate) :=
  rdr_advance s used (fun s' => inl (depth', s')) (fun o => inr (o, s)).

Lemma skip_step_lock a b : skeq a b -> lockstep skeq resq is_io (rdr_skip_step a) (rdr_skip_step b).
Proof.
  destruct a as [depth s1], b as [depth' s2]. intros [Hdep Heq]. cbn [fst snd] in Hdep, Heq. subst depth'.
  pose proof Heq as [Hb _]. unfold rdr_skip_step. rewrite <- Hb.
  assert (Hfill : lockstep skeq resq is_io (sk_fill depth (rdr_fill s1)) (sk_fill depth (rdr_fill s2))).
  { pose proof (rdr_fill_eq s1 s2 Heq) as Hf. unfold sk_fill.
    destruct (rdr_fill s1) as [s1'|s1'|e' s1'].
    - destruct Hf as (s2' & -> & Heq'). right. split; cbn [fst snd]; auto.
    - destruct Hf as (s2' & -> & Heq'). right. split; cbn [fst snd]; auto.
    - destruct Hf as [->|(s2' & -> & Heq')].
      + left. eexists. split; reflexivity.
      + right. split; cbn [fst snd]; auto. }
  assert (Hadv : forall used depth', lockstep skeq resq is_io (sk_adv s1 used depth') (sk_adv s2 used depth')).
  { intros used depth'. unfold sk_adv. apply advance_lock; [exact Heq| |]; intros; right; cbn [sumrel]; split; cbn [fst snd]; auto. }
  assert (Hfixed : forall n data,
            lockstep skeq resq is_io
              match get_from n data with
              | Some d => sk_adv s1 (length (win (fst s1)) - length d) depth
              | None => sk_fill depth (rdr_fill s1)
              end
              match get_from n data with
              | Some d => sk_adv s2 (length (win (fst s1)) - length d) depth
              | None => sk_fill depth (rdr_fill s2)
              end).
  { intros n data. destruct (get_from n data); [apply Hadv|exact Hfill]. }
  destruct (read_id (win (fst s1))) as [[id data]|e| | |]; try exact Hfill.
  destruct (id =? L_CLOSE)%N.
  { apply advance_lock; [exact Heq| |]; intros; right; [destruct (Nat.eqb depth 1)|]; cbn [sumrel]; split; cbn [fst snd]; auto. }
  destruct (id =? L_OPEN)%N; [apply Hadv|].
  destruct (id =? L_BOOL)%N; [apply Hfixed|].
  destruct ((id =? L_F32) || (id =? L_U32) || (id =? L_I32))%N; [apply Hfixed|].
  destruct ((id =? L_F64) || (id =? L_I64) || (id =? L_U64))%N; [apply Hfixed|].
  destruct ((id =? L_QUOTED) || (id =? L_UNQUOTED))%N; [|apply Hadv].
  destruct (read_string data) as [[x d]|e| | |]; try exact Hfill. apply Hadv.
Qed.

Theorem rdr_skip_container_lock s1 s2 : steq s1 s2 ->
  is_io (rdr_skip_container s1) \/ resq (rdr_skip_container s1) (rdr_skip_container s2).
Proof.
  intros Heq. unfold rdr_skip_container. rewrite <- (steq_fuel _ _ Heq).
  assert (Hk : skeq (1, s1) (1, s2)) by (split; [reflexivity|exact Heq]).
  destruct (run_steps_lock rdr_skip_step skeq resq is_io skip_step_lock (rdr_fuel s1) (1, s1) (1, s2) Hk)
    as [(r & -> & Hio)|Hq].
  - left. exact Hio.
  - right. destruct (run_steps _ _ (1, s1)), (run_steps _ _ (1, s2)); cbn [optrel] in Hq; try contradiction.
    + exact Hq.
    + split; [reflexivity|exact Heq].
Qed.

(* ---------- invariants that survive every call, whatever the schedule does ---------- *)
Lemma run_steps_inv {St Res} (step : St -> St + Res) (Iv : St -> Prop) (J : Res -> Prop) :
  (forall a, Iv a -> match step a with inl a' => Iv a' | inr r => J r end) ->
  forall fuel a, Iv a -> match run_steps step fuel a with Some r => J r | None => True end.
Proof.
  intros Hstep. induction fuel as [|f IH]; intros a Ha; [exact I|]. cbn [run_steps].
  specialize (Hstep a Ha). destruct (step a) as [a'|r]; [apply IH; exact Hstep|exact Hstep].
Qed.

Section Invariant.
  Variable P : bufwin -> rd -> Prop.
  Hypothesis P_adv : forall b d adv, adv <= length (win b) -> P b d ->
    P (mkbw (cap b) (skipn adv (win b)) (consumed b + adv) (prior b)) d.
  Hypothesis P_fill : forall b d, P b d ->
    match bw_fill_buf b d with FillOk _ b' d' | FillIo b' d' | FillFull b' d' => P b' d' end.

  Definition PS (s : rstate) : Prop := P (fst s) (snd s).

  Lemma rdr_fill_inv s : PS s -> match rdr_fill s with FcZero s' | FcMore s' | FcErr _ s' => PS s' end.
  Proof.
    intros H. unfold rdr_fill. pose proof (P_fill _ _ H) as Hf.
    destruct (bw_fill_buf (fst s) (snd s)) as [n b' d'|b' d'|b' d']; [destruct (Nat.eqb n 0)| |]; exact Hf.
  Qed.

  Lemma advance_inv {A} (G : A -> Prop) s used k c :
    PS s -> (forall s', PS s' -> G (k s')) -> (forall o, G (c o)) -> G (rdr_advance s used k c).
  Proof.
    intros H Hk Hc. unfold rdr_advance, bw_advance.
    destruct (Nat.ltb (length (win (fst s))) used) eqn:E; [apply Hc|].
    apply Nat.ltb_ge in E. apply Hk. unfold PS. cbn [fst snd]. apply P_adv; assumption.
  Qed.

  Definition res_inv {A} (r : outcome A * rstate) : Prop := PS (snd r).

  Lemma next_step_inv s : PS s ->
    match rdr_next_step s with inl s' => PS s' | inr r => res_inv r end.
  Proof.
    intros H. unfold rdr_next_step.
    destruct (read_token (win (fst s))) as [[t w']|e| | |]; try exact H.
    - apply (advance_inv (fun x : rstate + (outcome (option btoken) * rstate) =>
                            match x with inl s' => PS s' | inr r => res_inv r end)); auto.
    - destruct (e =? E_LexEof)%N; [|exact H].
      pose proof (rdr_fill_inv s H) as Hf.
      destruct (rdr_fill s) as [s'|s'|e' s']; [destruct (Nat.eqb _ 0)| |]; exact Hf.
  Qed.

  Theorem rdr_next_inv s : PS s -> res_inv (rdr_next s).
  Proof.
    intros H. unfold rdr_next.
    pose proof (run_steps_inv rdr_next_step PS res_inv next_step_inv (rdr_fuel s) s H) as Hr.
    destruct (run_steps rdr_next_step (rdr_fuel s) s); [exact Hr|exact H].
  Qed.

  Theorem rdr_read_inv s : PS s -> res_inv (rdr_read s).
  Proof.
    intros H. pose proof (rdr_next_inv s H) as Hr. unfold rdr_read.
    destruct (rdr_next s) as [[[t|]|e| | |] s']; exact Hr.
  Qed.

  Lemma read_bytes_step_inv n s : PS s ->
    match rdr_read_bytes_step n s with inl s' => PS s' | inr r => res_inv r end.
  Proof.
    intros H. unfold rdr_read_bytes_step. destruct (Nat.ltb _ n).
    - pose proof (rdr_fill_inv s H) as Hf. destruct (rdr_fill s) as [s'|s'|e' s']; exact Hf.
    - apply (advance_inv (fun x : rstate + (outcome bytes * rstate) =>
                            match x with inl s' => PS s' | inr r => res_inv r end)); auto.
  Qed.

  Theorem rdr_read_bytes_inv n s : PS s -> res_inv (rdr_read_bytes n s).
  Proof.
    intros H. unfold rdr_read_bytes.
    pose proof (run_steps_inv (rdr_read_bytes_step n) PS res_inv (read_bytes_step_inv n) (rdr_fuel s) s H) as Hr.
    destruct (run_steps (rdr_read_bytes_step n) (rdr_fuel s) s); [exact Hr|exact H].
  Qed.

  Definition sk_inv (x : (nat * rstate) + (outcome unit * rstate)) : Prop :=
    match x with inl a => PS (snd a) | inr r => res_inv r end.

  Lemma skip_step_inv a : PS (snd a) -> sk_inv (rdr_skip_step a).
  Proof.
    destruct a as [depth s]. cbn [snd]. intros H. unfold rdr_skip_step.
    assert (Hfill : sk_inv (sk_fill depth (rdr_fill s))).
    { pose proof (rdr_fill_inv s H) as Hf. unfold sk_fill. destruct (rdr_fill s) as [s'|s'|e' s']; exact Hf. }
    assert (Hadv : forall used depth', sk_inv (sk_adv s used depth')).
    { intros used depth'. unfold sk_adv. apply advance_inv; [exact H| |]; intros; cbn [sk_inv snd]; auto. }
    assert (Hfixed : forall n data,
              sk_inv match get_from n data with
                     | Some d => sk_adv s (length (win (fst s)) - length d) depth
                     | None => sk_fill depth (rdr_fill s)
                     end).
    { intros n data. destruct (get_from n data); [apply Hadv|exact Hfill]. }
    destruct (read_id (win (fst s))) as [[id data]|e| | |]; try exact Hfill.
    destruct (id =? L_CLOSE)%N.
    { apply advance_inv; [exact H| |]; intros; [destruct (Nat.eqb depth 1)|]; cbn [sk_inv snd]; auto. }
    destruct (id =? L_OPEN)%N; [apply Hadv|].
    destruct (id =? L_BOOL)%N; [apply Hfixed|].
    destruct ((id =? L_F32) || (id =? L_U32) || (id =? L_I32))%N; [apply Hfixed|].
    destruct ((id =? L_F64) || (id =? L_I64) || (id =? L_U64))%N; [apply Hfixed|].
    destruct ((id =? L_QUOTED) || (id =? L_UNQUOTED))%N; [|apply Hadv].
    destruct (read_string data) as [[x d]|e| | |]; try exact Hfill. apply Hadv.
  Qed.

  Theorem rdr_skip_container_inv s : PS s -> res_inv (rdr_skip_container s).
  Proof.
    intros H. unfold rdr_skip_container.
    pose proof (run_steps_inv rdr_skip_step (fun a => PS (snd a)) res_inv skip_step_inv (rdr_fuel s) (1, s) H) as Hr.
    destruct (run_steps rdr_skip_step (rdr_fuel s) (1, s)); [exact Hr|exact H].
  Qed.
End Invariant.

(* instance 1: the stream view input = consumed ++ window ++ unread *)
Definition sinv (input : bytes) (s : rstate) : Prop := stream_inv input (fst s) (snd s).

Lemma sinv_pos input s : sinv input s -> rdr_position s + length (rdr_pending s) = length input.
Proof. intros (pre & Hin & Hlen). unfold rdr_position, rdr_pending. rewrite Hin, !app_length. lia. Qed.

Lemma sinv_new capv sch input : sinv input (rdr_new capv sch input).
Proof. exists []. split; reflexivity. Qed.

Theorem rdr_next_sinv input s : sinv input s -> sinv input (snd (rdr_next s)).
Proof. apply (rdr_next_inv (stream_inv input)); [apply stream_inv_adv|apply stream_inv_fill]. Qed.
Theorem rdr_read_sinv input s : sinv input s -> sinv input (snd (rdr_read s)).
Proof. apply (rdr_read_inv (stream_inv input)); [apply stream_inv_adv|apply stream_inv_fill]. Qed.
Theorem rdr_read_bytes_sinv input n s : sinv input s -> sinv input (snd (rdr_read_bytes n s)).
Proof. apply (rdr_read_bytes_inv (stream_inv input)); [apply stream_inv_adv|apply stream_inv_fill]. Qed.
Theorem rdr_skip_container_sinv input s : sinv input s -> sinv input (snd (rdr_skip_container s)).
Proof. apply (rdr_skip_container_inv (stream_inv input)); [apply stream_inv_adv|apply stream_inv_fill]. Qed.

(* instance 2: position + buffered bytes = bytes delivered by the Read *)
Definition finv (s : rstate) : Prop := fill_inv (fst s) (snd s).

Lemma finv_new capv sch input : finv (rdr_new capv sch input).
Proof. reflexivity. Qed.
Lemma finv_le s : finv s -> rdr_position s <= delivered (snd s).
Proof. unfold finv, fill_inv, rdr_position. lia. Qed.

Theorem rdr_next_finv s : finv s -> finv (snd (rdr_next s)).
Proof. apply (rdr_next_inv fill_inv); [apply fill_inv_adv|apply fill_inv_preserved]. Qed.
Theorem rdr_read_finv s : finv s -> finv (snd (rdr_read s)).
Proof. apply (rdr_read_inv fill_inv); [apply fill_inv_adv|apply fill_inv_preserved]. Qed.
Theorem rdr_read_bytes_finv n s : finv s -> finv (snd (rdr_read_bytes n s)).
Proof. apply (rdr_read_bytes_inv fill_inv); [apply fill_inv_adv|apply fill_inv_preserved]. Qed.
Theorem rdr_skip_container_finv s : finv s -> finv (snd (rdr_skip_container s)).
Proof. apply (rdr_skip_container_inv fill_inv); [apply fill_inv_adv|apply fill_inv_preserved]. Qed.

(* ---------- one call under faults, against the fault-free twin ---------- *)
(* the shape shared by the four operations: E_Io with an intact stream view, or exactly the
   twin's outcome with twin successor states *)
Definition fault_sound {A} (input : bytes) (r1 r2 : outcome A * rstate) : Prop :=
  (fst r1 = Err E_Io /\ sinv input (snd r1) /\ rdr_position (snd r1) <= length input) \/
  (fst r1 = fst r2 /\ steq (snd r1) (snd r2) /\ sinv input (snd r1)).

Lemma fault_sound_intro {A} input (r1 r2 : outcome A * rstate) :
  sinv input (snd r1) -> is_io r1 \/ resq r1 r2 -> fault_sound input r1 r2.
Proof.
  intros Hs [Hio|[Ho Hq]]; [left|right].
  - split; [exact Hio|]. split; [exact Hs|]. pose proof (sinv_pos _ _ Hs). lia.
  - split; [exact Ho|]. split; [exact Hq|exact Hs].
Qed.

Theorem bin_next_fault_sound input s1 s2 : steq s1 s2 -> sinv input s1 ->
  fault_sound input (rdr_next s1) (rdr_next s2).
Proof. intros Heq Hs. apply fault_sound_intro; [apply rdr_next_sinv; exact Hs|apply rdr_next_lock; exact Heq]. Qed.
Theorem bin_read_fault_sound input s1 s2 : steq s1 s2 -> sinv input s1 ->
  fault_sound input (rdr_read s1) (rdr_read s2).
Proof. intros Heq Hs. apply fault_sound_intro; [apply rdr_read_sinv; exact Hs|apply rdr_read_lock; exact Heq]. Qed.
Theorem bin_read_bytes_fault_sound input n s1 s2 : steq s1 s2 -> sinv input s1 ->
  fault_sound input (rdr_read_bytes n s1) (rdr_read_bytes n s2).
Proof. intros Heq Hs. apply fault_sound_intro; [apply rdr_read_bytes_sinv; exact Hs|apply rdr_read_bytes_lock; exact Heq]. Qed.
Theorem bin_skip_container_fault_sound input s1 s2 : steq s1 s2 -> sinv input s1 ->
  fault_sound input (rdr_skip_container s1) (rdr_skip_container s2).
Proof. intros Heq Hs. apply fault_sound_intro; [apply rdr_skip_container_sinv; exact Hs|apply rdr_skip_container_lock; exact Heq]. Qed.

(* ---------- one call under faults, against the slice lexer ---------- *)
(* C08's st_ok without the no_fail clause: pending data, position, capacity *)
Definition st_okf (s : rstate) (d : bytes) (pos c : nat) : Prop :=
  rdr_pending s = d /\ rdr_position s = pos /\ cap (fst s) = c.

Lemma st_ok_okf s d pos c : st_ok s d pos c -> st_okf s d pos c.
Proof. intros (H1 & H2 & H3 & _). repeat split; assumption. Qed.
Lemma st_okf_twin s d pos c : st_okf s d pos c -> st_ok (twin s) d pos c.
Proof.
  intros (H1 & H2 & H3). unfold st_ok. rewrite <- (steq_pending _ _ (steq_twin s)), <- (steq_position _ _ (steq_twin s)).
  repeat split; try assumption. apply twin_no_fail.
Qed.
Lemma st_okf_steq s1 s2 d pos c : steq s1 s2 -> st_ok s2 d pos c -> st_okf s1 d pos c.
Proof.
  intros Heq (H1 & H2 & H3 & _). unfold st_okf. rewrite (steq_pending _ _ Heq), (steq_position _ _ Heq).
  destruct Heq as [-> _]. auto.
Qed.
Lemma st_okf_nofail s d pos c : st_okf s d pos c -> BinReader.no_fail (sched (snd s)) = true -> st_ok s d pos c.
Proof. intros (H1 & H2 & H3) H4. repeat split; assumption. Qed.

(* fill_buf never changes pending data, position or capacity, whatever its answer *)
Definition kept (s0 s : rstate) : Prop :=
  rdr_pending s = rdr_pending s0 /\ rdr_position s = rdr_position s0 /\ cap (fst s) = cap (fst s0).

Lemma kept_refl s : kept s s.
Proof. repeat split. Qed.
Lemma kept_trans s0 s1 s2 : kept s0 s1 -> kept s1 s2 -> kept s0 s2.
Proof. intros (A1 & A2 & A3) (B1 & B2 & B3). unfold kept. rewrite B1, B2, B3. auto. Qed.

Lemma rdr_fill_kept s : match rdr_fill s with FcZero s' | FcMore s' | FcErr _ s' => kept s s' end.
Proof.
  destruct s as [b r]. unfold rdr_fill, bw_fill_buf. cbn [fst snd].
  destruct (Nat.leb (cap b) (length (win b))).
  - destruct (Nat.eqb (cap b) 0); cbn [Nat.eqb]; apply kept_refl.
  - destruct (rd_read r (cap b - length (win b))) as [[bs r']| | | |] eqn:Hrd.
    + destruct (rd_read_split _ _ _ _ Hrd) as (Hsplit & _).
      assert (K : kept (b, r) (mkbw (cap b) (win b ++ bs) 0 (prior b + consumed b), r')).
      { unfold kept, rdr_pending, rdr_position, bw_position. cbn [fst snd win prior consumed cap].
        rewrite Hsplit, <- app_assoc. repeat split; lia. }
      destruct (Nat.eqb (length bs) 0); exact K.
    + unfold kept, rdr_pending, rdr_position, bw_position. cbn. repeat split; lia.
    + unfold kept, rdr_pending, rdr_position, bw_position. cbn. repeat split; lia.
    + unfold kept, rdr_pending, rdr_position, bw_position. cbn. repeat split; lia.
    + unfold kept, rdr_pending, rdr_position, bw_position. cbn. repeat split; lia.
Qed.

Lemma E_Io_not_lex : E_Io <> E_LexEof /\ E_Io <> E_InvalidRgb.
Proof. split; vm_compute; discriminate. Qed.

(* next() advances the window only when it returns a token: an I/O error leaves pending data and
   position where they were at the call (the window has been refilled, nothing was consumed) *)
Lemma next_step_kept s0 s : kept s0 s ->
  match rdr_next_step s with
  | inl s' => kept s0 s'
  | inr r => fst r = Err E_Io -> kept s0 (snd r)
  end.
Proof.
  intros K. unfold rdr_next_step.
  destruct (read_token (win (fst s))) as [[t w']|e| | |]; cbn [fst snd]; auto.
  - unfold rdr_advance. destruct (bw_advance (fst s) _); cbn [fst snd recast]; intros; try discriminate; exact K.
  - destruct (e =? E_LexEof)%N; [|cbn [fst snd]; auto].
    pose proof (rdr_fill_kept s) as Hf.
    destruct (rdr_fill s) as [s'|s'|e' s']; [destruct (Nat.eqb _ 0)| |]; cbn [fst snd]; intros; eapply kept_trans; eauto.
Qed.

Lemma rdr_next_io_kept s s' : rdr_next s = (Err E_Io, s') -> kept s s'.
Proof.
  unfold rdr_next.
  pose proof (run_steps_inv rdr_next_step (kept s) (fun r => fst r = Err E_Io -> kept s (snd r))
                (next_step_kept s) (rdr_fuel s) s (kept_refl s)) as Hr.
  destruct (run_steps rdr_next_step (rdr_fuel s) s) as [r|]; [|discriminate].
  intros ->. apply Hr. reflexivity.
Qed.

Lemma read_bytes_step_kept n s0 s : kept s0 s ->
  match rdr_read_bytes_step n s with
  | inl s' => kept s0 s'
  | inr r => fst r = Err E_Io -> kept s0 (snd r)
  end.
Proof.
  intros K. unfold rdr_read_bytes_step. destruct (Nat.ltb _ n).
  - pose proof (rdr_fill_kept s) as Hf.
    destruct (rdr_fill s) as [s'|s'|e' s']; cbn [fst snd]; intros; eapply kept_trans; eauto.
  - unfold rdr_advance. destruct (bw_advance (fst s) _); cbn [fst snd recast]; intros; try discriminate; exact K.
Qed.

Lemma rdr_read_bytes_io_kept n s s' : rdr_read_bytes n s = (Err E_Io, s') -> kept s s'.
Proof.
  unfold rdr_read_bytes.
  pose proof (run_steps_inv (rdr_read_bytes_step n) (kept s) (fun r => fst r = Err E_Io -> kept s (snd r))
                (read_bytes_step_kept n s) (rdr_fuel s) s (kept_refl s)) as Hr.
  destruct (run_steps (rdr_read_bytes_step n) (rdr_fuel s) s) as [r|]; [|discriminate].
  intros ->. apply Hr. reflexivity.
Qed.

Lemma kept_okf s s' d pos c : kept s s' -> st_okf s d pos c -> st_okf s' d pos c.
Proof. intros (A1 & A2 & A3) (B1 & B2 & B3). unfold st_okf. rewrite A1, A2, A3. auto. Qed.

(* MAIN (one call): under ANY schedule, next() either reports the I/O error -- and then the reader
   stands exactly where it stood (same pending data, same position: the call can be retried) --
   or returns exactly what the slice lexer's next_token returns on the pending data, with the
   successor state on the lexer's remaining data.  No third possibility. *)
Theorem bin_next_fault_lexer s d pos c :
  st_okf s d pos c -> tok_fits c d = true ->
  (exists s', rdr_next s = (Err E_Io, s') /\ st_okf s' d pos c) \/
  (exists s', rdr_next s = (fst (next_res d), s') /\
              st_okf s' (snd (next_res d)) (pos + (length d - length (snd (next_res d)))) c).
Proof.
  intros Hok Hfit.
  destruct (rdr_next_spec (twin s) d pos c (st_okf_twin _ _ _ _ Hok) Hfit) as (s2' & E2 & Hok2).
  destruct (rdr_next_lock s (twin s) (steq_twin s)) as [Hio|[Ho Hq]].
  - left. destruct (rdr_next s) as [o s'] eqn:E. unfold is_io in Hio. cbn [fst] in Hio. subst o.
    exists s'. split; [reflexivity|]. eapply kept_okf; [apply rdr_next_io_kept; exact E|exact Hok].
  - right. rewrite E2 in Ho, Hq. cbn [fst snd] in Ho, Hq. destruct (rdr_next s) as [o s'].
    cbn [fst snd] in Ho, Hq. subst o. exists s'. split; [reflexivity|].
    eapply st_okf_steq; eassumption.
Qed.

(* the same statement in terms of the lexer cursor (cf. next_eq_lexer) *)
Theorem bin_next_fault_cursor s l c :
  st_okf s (lx_data l) (lx_position l) c -> length (lx_data l) <= lx_orig l -> tok_fits c (lx_data l) = true ->
  (exists s', rdr_next s = (Err E_Io, s') /\ st_okf s' (lx_data l) (lx_position l) c) \/
  (exists s', rdr_next s = (fst (lx_next_token l), s') /\
              st_okf s' (lx_data (snd (lx_next_token l))) (lx_position (snd (lx_next_token l))) c).
Proof.
  destruct l as [d orig]. cbn [lx_data lx_orig]. intros Hok Hwf Hfit.
  destruct (bin_next_fault_lexer s d _ c Hok Hfit) as [H|(s' & E & Hok')]; [left; exact H|right].
  exists s'. rewrite next_res_lx. cbn [fst snd lx_data]. split; [exact E|].
  unfold lx_position in *. cbn [lx_data lx_orig] in *.
  assert (L : length (snd (next_res d)) <= length d).
  { destruct (read_token_total d) as [[t [r E']]|[E'|E']].
    - rewrite (next_res_ok _ _ _ E'). cbn. pose proof (read_token_len _ _ _ E'). lia.
    - rewrite (next_res_eof _ E'). cbn. lia.
    - rewrite (next_res_rgb _ E'). cbn. lia. }
  replace (orig - length (snd (next_res d))) with (orig - length d + (length d - length (snd (next_res d)))) by lia.
  exact Hok'.
Qed.

(* ---------- the whole run under faults ---------- *)
(* Any buffer size (BufferFull of a too small buffer is preserved), any input, any schedule, any
   fuel: the run under faults is the run of the twin, or a prefix of the twin's token list (all of
   it when the failing read is the one that would have found the end of the data) followed by the
   terminal event Err E_Io. *)
Theorem stream_run_lock : forall fuel s1 s2, steq s1 s2 ->
  stream_run fuel s1 = stream_run fuel s2 \/
  exists pre suf p, stream_run fuel s1 = (pre, (Err E_Io, p)) /\ fst (stream_run fuel s2) = pre ++ suf.
Proof.
  induction fuel as [|f IH]; intros s1 s2 Heq.
  - left. cbn [stream_run]. rewrite (steq_position _ _ Heq). reflexivity.
  - cbn [stream_run]. destruct (rdr_next_lock s1 s2 Heq) as [Hio|[Ho Hq]].
    + right. destruct (rdr_next s1) as [o s1']. unfold is_io in Hio. cbn [fst] in Hio. subst o.
      exists [], (fst (let (o, s') := rdr_next s2 in
                       match o with
                       | Ok (Some t) => let '(ts, e) := stream_run f s' in (t :: ts, e)
                       | Ok None => ([], (Ok tt, rdr_position s'))
                       | _ => ([], (recast o, rdr_position s'))
                       end)), (rdr_position s1').
      split; reflexivity.
    + destruct (rdr_next s1) as [o1 s1'], (rdr_next s2) as [o2 s2']. cbn [fst snd] in Ho, Hq. subst o2.
      destruct o1 as [[t|]|e| | |]; try (left; rewrite (steq_position _ _ Hq); reflexivity).
      destruct (IH s1' s2' Hq) as [E|(pre & suf & p & E1 & E2)].
      * left. rewrite E. reflexivity.
      * right. rewrite E1. destruct (stream_run f s2') as [ts2 e2]. cbn [fst] in E2. subst ts2.
        exists (t :: pre), suf, p. split; reflexivity.
Qed.

Lemma stream_run_pos input : forall fuel s, sinv input s -> snd (snd (stream_run fuel s)) <= length input.
Proof.
  induction fuel as [|f IH]; intros s Hs.
  - cbn [stream_run snd]. pose proof (sinv_pos _ _ Hs). lia.
  - cbn [stream_run]. pose proof (rdr_next_sinv input s Hs) as Hs'.
    destruct (rdr_next s) as [o s']. cbn [snd] in Hs'. pose proof (sinv_pos _ _ Hs') as Hp.
    destruct o as [[t|]|e| | |]; cbn [snd]; try lia.
    specialize (IH s' Hs'). destruct (stream_run f s') as [ts e]. exact IH.
Qed.

(* the terminal event of a run is never a success other than the clean end, and a run that ends
   with E_Io differs from every fault-free run *)
Theorem stream_run_prefix input fuel s1 s2 : steq s1 s2 -> sinv input s1 ->
  stream_run fuel s1 = stream_run fuel s2 \/
  exists pre suf p, stream_run fuel s1 = (pre, (Err E_Io, p)) /\ fst (stream_run fuel s2) = pre ++ suf /\
                    p <= length input.
Proof.
  intros Heq Hs. destruct (stream_run_lock fuel s1 s2 Heq) as [E|(pre & suf & p & E1 & E2)]; [left; exact E|right].
  exists pre, suf, p. split; [exact E1|]. split; [exact E2|].
  pose proof (stream_run_pos input fuel s1 Hs) as Hp. rewrite E1 in Hp. exact Hp.
Qed.

Corollary run_stream_lock capv sch input :
  run_stream capv sch input = run_stream capv (clean sch) input \/
  exists pre suf p, run_stream capv sch input = (pre, (Err E_Io, p)) /\
                    fst (run_stream capv (clean sch) input) = pre ++ suf /\ p <= length input.
Proof. unfold run_stream. apply stream_run_prefix; [apply steq_new|apply sinv_new]. Qed.

(* run_stream under an ARBITRARY schedule, buffer fitting the input: the slice lexer's result, or a
   prefix of the slice lexer's tokens followed by the I/O error *)
Theorem bin_stream_fault_prefix input sch capv : fits capv input = true ->
  run_stream capv sch input = run_lexer input \/
  exists pre suf p, run_stream capv sch input = (pre, (Err E_Io, p)) /\
                    fst (run_lexer input) = pre ++ suf /\ p <= length input.
Proof.
  intros Hfit. rewrite <- (stream_eq_lexer input (clean sch) capv (clean_no_fail_b sch) Hfit).
  apply run_stream_lock.
Qed.

(* how a slice-lexer run can end *)
Lemma lex_run_end : forall fuel l,
  let o := fst (snd (lex_run fuel l)) in
  o = Ok tt \/ o = Err E_LexEof \/ o = Err E_InvalidRgb \/ o = OutOfFuel.
Proof.
  induction fuel as [|f IH]; intros [d orig]; cbv zeta; [cbn; auto|].
  cbn [lex_run]. rewrite next_res_lx.
  destruct (read_token_total d) as [[t [r E]]|[E|E]].
  - rewrite (next_res_ok _ _ _ E). cbn [fst snd]. specialize (IH (mklx r orig)). cbv zeta in IH.
    destruct (lex_run f (mklx r orig)) as [ts e]. exact IH.
  - rewrite (next_res_eof _ E). cbn [fst snd]. destruct d; cbn; auto.
  - rewrite (next_res_rgb _ E). cbn; auto.
Qed.

Lemma lex_run_never_io fuel l : fst (snd (lex_run fuel l)) <> Err E_Io.
Proof.
  pose proof (lex_run_end fuel l) as H. cbv zeta in H. destruct H as [-> | [-> | [-> | ->]]]; discriminate.
Qed.

(* ---------- a failing Read ---------- *)
(* what next() may return while the next event of the schedule is Fail (cap > 0: a real buffer):
   a token served from the buffer (the Read is not called), the I/O error (the schedule advances
   by that one event), BufferFull or InvalidRgb (the Read is not called, nothing changes) --
   never a clean end, never LexEof, never a crash *)
Definition failing_res (s : rstate) (r : outcome (option btoken) * rstate) : Prop :=
  match fst r with
  | Ok (Some _) => snd (snd r) = snd s /\ cap (fst (snd r)) = cap (fst s)
  | Ok None => False
  | Err e => (e = E_Io /\ snd (snd r) = rd_after_fail (snd s) /\ kept s (snd r)) \/
             (e = E_BufferFull /\ snd r = s) \/ (e = E_InvalidRgb /\ snd r = s)
  | _ => False
  end.

Theorem next_failing s tl : sched (snd s) = Fail :: tl -> 0 < cap (fst s) -> failing_res s (rdr_next s).
Proof.
  destruct s as [b r]. cbn [fst snd]. intros Hs Hcap.
  unfold rdr_next, rdr_fuel. cbn [run_steps]. unfold rdr_next_step. cbn [fst snd].
  destruct (read_token_total (win b)) as [[t [w' E]]|[E|E]]; rewrite E.
  - pose proof (read_token_len _ _ _ E) as L. unfold rdr_advance, bw_advance. cbn [fst snd].
    replace (Nat.ltb (length (win b)) (length (win b) - length w')) with false by (symmetry; apply Nat.ltb_ge; lia).
    unfold failing_res. cbn [fst snd cap]. auto.
  - replace (E_LexEof =? E_LexEof)%N with true by reflexivity.
    pose proof (rdr_fill_kept (b, r)) as K.
    unfold rdr_fill, bw_fill_buf in *. cbn [fst snd] in *.
    destruct (Nat.leb (cap b) (length (win b))).
    + replace (Nat.eqb (cap b) 0) with false by (symmetry; apply Nat.eqb_neq; lia).
      unfold failing_res. cbn [fst snd]. auto.
    + unfold rd_read in *. rewrite Hs in *. unfold failing_res. cbn [fst snd]. left. auto.
  - replace (E_InvalidRgb =? E_LexEof)%N with false by reflexivity.
    unfold failing_res. cbn [fst snd]. auto.
Qed.

(* a run over a failing Read never ends with a clean end or LexEof *)
Theorem stream_run_failing : forall fuel s tl, sched (snd s) = Fail :: tl -> 0 < cap (fst s) ->
  let o := fst (snd (stream_run fuel s)) in
  o = Err E_Io \/ o = Err E_BufferFull \/ o = Err E_InvalidRgb \/ o = OutOfFuel.
Proof.
  induction fuel as [|f IH]; intros s tl Hs Hcap; cbv zeta; [cbn; auto|].
  cbn [stream_run]. pose proof (next_failing s tl Hs Hcap) as Hf. unfold failing_res in Hf.
  destruct (rdr_next s) as [o s']. cbn [fst snd] in Hf.
  destruct o as [[t|]|e| | |]; try contradiction.
  - destruct Hf as [Hd Hc]. specialize (IH s' tl). cbv zeta in IH. rewrite Hd, Hc in IH. specialize (IH Hs Hcap).
    destruct (stream_run f s') as [ts e]. exact IH.
  - cbn [recast fst snd]. destruct Hf as [(-> & _)|[(-> & _)|(-> & _)]]; auto.
Qed.

(* persistent failure, against the twin: the run is the twin's run only if that ends in
   BufferFull / InvalidRgb (reached from buffered bytes alone) or runs out of fuel; otherwise it is a
   prefix of the twin's tokens followed by the I/O error *)
Theorem persistent_run_lock input fuel s1 s2 tl : steq s1 s2 -> sinv input s1 ->
  sched (snd s1) = Fail :: tl -> 0 < cap (fst s1) ->
  (stream_run fuel s1 = stream_run fuel s2 /\
   (fst (snd (stream_run fuel s2)) = Err E_BufferFull \/ fst (snd (stream_run fuel s2)) = Err E_InvalidRgb \/
    fst (snd (stream_run fuel s2)) = OutOfFuel)) \/
  exists pre suf p, stream_run fuel s1 = (pre, (Err E_Io, p)) /\ fst (stream_run fuel s2) = pre ++ suf /\
                    p <= length input.
Proof.
  intros Heq Hsi Hs Hcap.
  destruct (stream_run_prefix input fuel s1 s2 Heq Hsi) as [E|H]; [|right; exact H].
  pose proof (stream_run_failing fuel s1 tl Hs Hcap) as Hf. cbv zeta in Hf. rewrite E in Hf.
  destruct Hf as [Hf|Hf]; [right|left; split; [exact E|exact Hf]].
  pose proof (stream_run_pos input fuel s1 Hsi) as Hp. rewrite E in Hp |- *.
  destruct (stream_run fuel s2) as [ts [o p]]. cbn [fst snd] in *. subst o.
  exists ts, [], p. rewrite app_nil_r. auto.
Qed.

(* persistent failure, against the slice lexer (buffer fitting the pending data): the run yields
   the tokens already buffered and then the I/O error -- unless the buffered bytes hold an invalid
   rgb block, which is reported as by the lexer.  Never a clean end, never LexEof. *)
Theorem persistent_run_lexer : forall fuel s l c tl,
  st_okf s (lx_data l) (lx_position l) c -> length (lx_data l) <= lx_orig l ->
  fits_fuel fuel c (lx_data l) = true -> 0 < c ->
  sched (snd s) = Fail :: tl ->
  (stream_run fuel s = lex_run fuel l /\
   (fst (snd (lex_run fuel l)) = Err E_InvalidRgb \/ fst (snd (lex_run fuel l)) = OutOfFuel)) \/
  exists pre suf p, stream_run fuel s = (pre, (Err E_Io, p)) /\ fst (lex_run fuel l) = pre ++ suf /\
                    p <= lx_orig l.
Proof.
  intros fuel s l c tl Hok Hwf Hfit Hc Hs.
  pose proof (stream_run_eq fuel (twin s) l c (st_okf_twin _ _ _ _ Hok) Hwf Hfit) as Etw.
  destruct Hok as (Hpend & Hpos & Hcap).
  set (input := repeat 0%N (lx_position l) ++ lx_data l).
  assert (Hsi : sinv input s).
  { exists (repeat 0%N (lx_position l)). unfold input, rdr_pending, rdr_position in *. rewrite Hpend.
    split; [reflexivity|]. rewrite repeat_length. symmetry. exact Hpos. }
  assert (Hlen : length input = lx_orig l).
  { unfold input, lx_position. rewrite app_length, repeat_length. lia. }
  destruct (persistent_run_lock input fuel s (twin s) tl (steq_twin s) Hsi Hs ltac:(lia)) as [[E Hend]|H].
  - rewrite Etw in E, Hend. destruct Hend as [Hend|Hend]; [|left; auto].
    exfalso. pose proof (lex_run_end fuel l) as He. cbv zeta in He. rewrite Hend in He.
    destruct He as [He|[He|[He|He]]]; discriminate.
  - right. rewrite Etw, Hlen in H. exact H.
Qed.

(* a Read that fails from the first call on: the run is exactly the I/O error at position 0 *)
Theorem bin_stream_fail_first input capv tl : 0 < capv ->
  run_stream capv (Fail :: tl) input = ([], (Err E_Io, 0)).
Proof.
  intros Hcap. unfold run_stream, rdr_new, bw_new. cbn [stream_run].
  unfold rdr_next, rdr_fuel. cbn [run_steps fst snd win].
  unfold rdr_next_step. cbn [fst snd win].
  replace (read_token []) with (@Err (btoken * bytes) E_LexEof) by reflexivity.
  replace (E_LexEof =? E_LexEof)%N with true by reflexivity.
  unfold rdr_fill, bw_fill_buf. cbn [fst snd cap win length].
  replace (Nat.leb capv 0) with false by (symmetry; apply Nat.leb_gt; exact Hcap).
  unfold rd_read. cbn [sched]. reflexivity.
Qed.

(* ---------- positions and delivered bytes ---------- *)
Definition pos_ok (s : rstate) : Prop := finv s /\ rdr_position s <= delivered (snd s).

Lemma finv_pos_ok s : finv s -> pos_ok s.
Proof. intros H. split; [exact H|apply finv_le; exact H]. Qed.

Theorem bin_position_le_delivered s : finv s ->
  pos_ok (snd (rdr_next s)) /\ pos_ok (snd (rdr_read s)) /\
  (forall n, pos_ok (snd (rdr_read_bytes n s))) /\ pos_ok (snd (rdr_skip_container s)).
Proof.
  intros H. split; [apply finv_pos_ok, rdr_next_finv, H|]. split; [apply finv_pos_ok, rdr_read_finv, H|].
  split; [intros n; apply finv_pos_ok, rdr_read_bytes_finv, H|apply finv_pos_ok, rdr_skip_container_finv, H].
Qed.

(* with the stream view: delivered counts exactly the bytes taken from the data *)
Lemma delivered_exact input s : sinv input s -> finv s -> delivered (snd s) + length (rest (snd s)) = length input.
Proof.
  intros (pre & Hin & Hlen) Hf. unfold finv, fill_inv in Hf. rewrite Hin, !app_length. lia.
Qed.

(* ---------- retry after an I/O error ---------- *)
(* next() advances the window only when it returns a token, so the reader returned with E_Io
   stands on the same pending data at the same position: the retried call fails again or
   returns the slice lexer's answer for the call that failed; when the rest of the schedule is
   fault-free it returns that answer. *)
Theorem bin_next_retry s d pos c s' :
  st_okf s d pos c -> tok_fits c d = true -> rdr_next s = (Err E_Io, s') ->
  st_okf s' d pos c /\
  ((exists s'', rdr_next s' = (Err E_Io, s'') /\ st_okf s'' d pos c) \/
   (exists s'', rdr_next s' = (fst (next_res d), s'') /\
                st_okf s'' (snd (next_res d)) (pos + (length d - length (snd (next_res d)))) c)) /\
  (BinReader.no_fail (sched (snd s')) = true ->
   exists s'', rdr_next s' = (fst (next_res d), s'') /\
               st_ok s'' (snd (next_res d)) (pos + (length d - length (snd (next_res d)))) c).
Proof.
  intros Hok Hfit E.
  assert (Hok' : st_okf s' d pos c) by (eapply kept_okf; [apply rdr_next_io_kept; exact E|exact Hok]).
  split; [exact Hok'|]. split; [apply bin_next_fault_lexer; assumption|].
  intros Hnf. apply rdr_next_spec; [apply st_okf_nofail; assumption|exact Hfit].
Qed.

Theorem bin_next_retry_cursor s l c s' :
  st_okf s (lx_data l) (lx_position l) c -> length (lx_data l) <= lx_orig l -> tok_fits c (lx_data l) = true ->
  rdr_next s = (Err E_Io, s') ->
  st_okf s' (lx_data l) (lx_position l) c /\
  (BinReader.no_fail (sched (snd s')) = true ->
   exists s'', rdr_next s' = (fst (lx_next_token l), s'') /\
               st_ok s'' (lx_data (snd (lx_next_token l))) (lx_position (snd (lx_next_token l))) c).
Proof.
  intros Hok Hwf Hfit E.
  assert (Hok' : st_okf s' (lx_data l) (lx_position l) c) by (eapply kept_okf; [apply rdr_next_io_kept; exact E|exact Hok]).
  split; [exact Hok'|]. intros Hnf. apply next_eq_lexer; [apply st_okf_nofail; assumption|exact Hwf|exact Hfit].
Qed.

(* read_bytes is resumable in the same way: the error state is on the same pending data *)
Theorem bin_read_bytes_io_kept n s s' d pos c :
  st_okf s d pos c -> rdr_read_bytes n s = (Err E_Io, s') -> st_okf s' d pos c.
Proof. intros Hok E. eapply kept_okf; [apply (rdr_read_bytes_io_kept n); exact E|exact Hok]. Qed.

(* ---------- skip_container / read_bytes against their fault-free specifications ---------- *)
(* instance 3: the reader stands inside the data d that was pending at position pos *)
Definition within (d : bytes) (pos c : nat) (b : bufwin) (r : rd) : Prop :=
  exists pre, d = pre ++ win b ++ rest r /\ bw_position b = pos + length pre /\ cap b = c.

Lemma bw_fill_kept b r :
  match bw_fill_buf b r with FillOk _ b' r' | FillIo b' r' | FillFull b' r' => kept (b, r) (b', r') end.
Proof.
  pose proof (rdr_fill_kept (b, r)) as K. unfold rdr_fill in K. cbn [fst snd] in K.
  destruct (bw_fill_buf b r) as [n b' r'|b' r'|b' r']; [destruct (Nat.eqb n 0)| |]; exact K.
Qed.

Lemma within_adv d pos c b r adv : adv <= length (win b) -> within d pos c b r ->
  within d pos c (mkbw (cap b) (skipn adv (win b)) (consumed b + adv) (prior b)) r.
Proof.
  intros Hadv (pre & Hd & Hpos & Hc). exists (pre ++ firstn adv (win b)). cbn [win cap]. split.
  - rewrite <- app_assoc. rewrite (app_assoc (firstn adv (win b))), firstn_skipn. exact Hd.
  - rewrite app_length, firstn_length. unfold bw_position in *. cbn [prior consumed]. split; [lia|exact Hc].
Qed.

Lemma within_fill d pos c b r : within d pos c b r ->
  match bw_fill_buf b r with FillOk _ b' r' | FillIo b' r' | FillFull b' r' => within d pos c b' r' end.
Proof.
  intros (pre & Hd & Hpos & Hc). pose proof (bw_fill_kept b r) as K.
  assert (G : forall b' r', kept (b, r) (b', r') -> within d pos c b' r').
  { intros b' r' (K1 & K2 & K3). unfold rdr_pending, rdr_position in *. cbn [fst snd] in *.
    exists pre. rewrite K1, K2, K3. auto. }
  destruct (bw_fill_buf b r); apply G; exact K.
Qed.

Lemma within_start s d pos c : st_okf s d pos c -> within d pos c (fst s) (snd s).
Proof.
  intros (H1 & H2 & H3). exists []. unfold rdr_pending, rdr_position in *. cbn [app length].
  split; [symmetry; exact H1|]. split; [lia|exact H3].
Qed.

(* skip_container under ANY schedule, called just after an Open, buffer fitting the pending data,
   matching close present: the skip lands exactly where token counting lands, or reports the I/O
   error from a position inside the skipped data (nothing lost or reordered). *)
Theorem bin_skip_container_fault_lands s d pos c r :
  st_okf s d pos c -> fits c d = true -> balanced_read d = Some r ->
  (exists s', rdr_skip_container s = (Err E_Io, s') /\ within d pos c (fst s') (snd s')) \/
  (exists s', rdr_skip_container s = (Ok tt, s') /\ st_okf s' r (pos + (length d - length r)) c).
Proof.
  intros Hok Hfit Hbal.
  destruct (reader_skip_lands (twin s) d pos c r (st_okf_twin _ _ _ _ Hok) Hfit Hbal) as (s2' & E2 & Hok2).
  pose proof (rdr_skip_container_inv (within d pos c) (within_adv d pos c) (within_fill d pos c) s
                (within_start _ _ _ _ Hok)) as Hw. unfold res_inv, PS in Hw.
  destruct (rdr_skip_container_lock s (twin s) (steq_twin s)) as [Hio|[Ho Hq]].
  - left. destruct (rdr_skip_container s) as [o s']. unfold is_io in Hio. cbn [fst snd] in *. subst o.
    exists s'. split; [reflexivity|exact Hw].
  - right. rewrite E2 in Ho, Hq. destruct (rdr_skip_container s) as [o s']. cbn [fst snd] in *. subst o.
    exists s'. split; [reflexivity|]. eapply st_okf_steq; eassumption.
Qed.

(* ---------- the whole run against the slice lexer, with the exact error position ---------- *)
(* Under ANY schedule and a buffer fitting the pending data: the run is the lexer's run, or it
   stops with E_Io exactly at the lexer's cursor after the tokens returned so far: the lexer's run
   is those tokens followed by the lexer's run from that cursor. *)
Theorem stream_run_fault_lexer : forall fuel s l c,
  st_okf s (lx_data l) (lx_position l) c -> length (lx_data l) <= lx_orig l ->
  fits_fuel fuel c (lx_data l) = true ->
  stream_run fuel s = lex_run fuel l \/
  exists pre l', stream_run fuel s = (pre, (Err E_Io, lx_position l')) /\
                 lx_orig l' = lx_orig l /\ length (lx_data l') <= lx_orig l' /\
                 lex_run fuel l = (pre ++ fst (lex_run (fuel - length pre) l'),
                                   snd (lex_run (fuel - length pre) l')).
Proof.
  induction fuel as [|fuel IH]; intros s [d orig] c Hok Hwf Hfit; cbn [lx_data lx_orig] in *.
  - left. cbn [stream_run lex_run]. destruct Hok as (_ & Hpos & _). rewrite Hpos. reflexivity.
  - cbn [fits_fuel] in Hfit. apply andb_prop in Hfit as [Hfit Hrest].
    destruct (bin_next_fault_lexer s d _ c Hok Hfit) as [(s' & En & Hok')|(s' & En & Hok')].
    + right. exists [], (mklx d orig). cbn [stream_run]. rewrite En. cbn [recast length app lx_orig lx_data].
      destruct Hok' as (_ & Hpos' & _). rewrite Hpos'. rewrite Nat.sub_0_r.
      split; [reflexivity|]. split; [reflexivity|]. split; [exact Hwf|].
      destruct (lex_run (S fuel) (mklx d orig)) as [a b]. reflexivity.
    + cbn [stream_run lex_run]. rewrite En, next_res_lx.
      unfold lx_position in *. cbn [lx_data lx_orig] in *.
      destruct (read_token_total d) as [[t [r E]]|[E|E]].
      * rewrite (next_res_ok _ _ _ E) in *. cbn [fst snd] in *. rewrite E in Hrest.
        pose proof (read_token_len _ _ _ E) as L.
        destruct (IH s' (mklx r orig) c) as [Eq|(pre & l' & E1 & Ho & Hl & E2)].
        -- unfold lx_position. cbn [lx_data lx_orig].
           replace (orig - length r) with (orig - length d + (length d - length r)) by lia. exact Hok'.
        -- cbn [lx_data lx_orig]. lia.
        -- exact Hrest.
        -- left. rewrite Eq. reflexivity.
        -- right. exists (t :: pre), l'. rewrite E1, E2. cbn [length Nat.sub app lx_orig] in *.
           split; [reflexivity|]. split; [exact Ho|]. split; [exact Hl|reflexivity].
      * left. rewrite (next_res_eof _ E) in *. cbn [fst snd] in *.
        destruct Hok' as (_ & Hpos' & _). rewrite Hpos'. rewrite Nat.sub_diag, Nat.add_0_r.
        destruct d; reflexivity.
      * left. rewrite (next_res_rgb _ E) in *. cbn [fst snd] in *.
        destruct Hok' as (_ & Hpos' & _). rewrite Hpos'. rewrite Nat.sub_diag, Nat.add_0_r. reflexivity.
Qed.

Corollary run_stream_fault_lexer input sch capv : fits capv input = true ->
  run_stream capv sch input = run_lexer input \/
  exists pre l', run_stream capv sch input = (pre, (Err E_Io, lx_position l')) /\
                 lx_orig l' = length input /\ length (lx_data l') <= length input /\
                 run_lexer input = (pre ++ fst (lex_run (S (length input) - length pre) l'),
                                    snd (lex_run (S (length input) - length pre) l')).
Proof.
  intros Hfit. unfold run_stream, run_lexer, fits in *.
  destruct (stream_run_fault_lexer (S (length input)) (rdr_new capv sch input) (lx_new input) capv)
    as [E|(pre & l' & E1 & Ho & Hl & E2)].
  - unfold st_okf, lx_new, lx_position, rdr_new, rdr_pending, rdr_position, bw_position. cbn. rewrite Nat.sub_diag. auto.
  - cbn. lia.
  - exact Hfit.
  - left. exact E.
  - right. exists pre, l'. cbn [lx_new lx_orig] in Ho. rewrite Ho in Hl. auto.
Qed.
