(* C13: format -> parse round trips for Date, DateHour, UniformDate, RawDate. *)
From JV Require Import Bytes Tables U64Swar Scalar Date.
From JV.proofs Require Import DateProofs DateProofs2 DecimalProofs SwarLanes DateParse DateFast.
From Coq Require Import ZArith NArith Lia List Bool.
Import ListNotations.
Open Scope Z_scope.

Definition wflb (l : bytes) : bool := forallb (fun b => (b <? 256)%N) l.
Lemma wflb_wfl l : wflb l = true -> wfl l.
Proof.
  unfold wflb, wfl. rewrite forallb_forall, Forall_forall. intros H b Hb. apply N.ltb_lt, H, Hb.
Qed.
Lemma wfl_app l1 l2 : wfl l1 -> wfl l2 -> wfl (l1 ++ l2).
Proof. unfold wfl. intros. apply Forall_app. auto. Qed.

(* the printed year of every i16: well-formed bytes, 1..6 of them, starting with '-' or a digit *)
Lemma all_digits_wfl l : all_digits l = true -> wfl l.
Proof.
  unfold all_digits, wfl. rewrite forallb_forall, Forall_forall. intros H b Hb.
  specialize (H b Hb). apply is_digit_range in H. lia.
Qed.

Lemma year_facts y : in_i16 y = true ->
  let l := fmt_int 0 y in wfl l /\ (1 <= length l <= 6)%nat /\ first_ok l = true.
Proof.
  intros Hy. apply in_i16_true in Hy. cbv zeta. unfold fmt_int.
  assert (Hn : (Z.abs_N y < 10 ^ 40)%N) by (change (10 ^ 40)%N with 10000000000000000000000000000000000000000%N; lia).
  pose proof (dec_N_canonical _ Hn) as Hc.
  pose proof (dec_N_length_le (Z.abs_N y) 5 Hn ltac:(discriminate) ltac:(change (10 ^ N.of_nat 5)%N with 100000%N; lia)) as Hl.
  set (ds := dec_N (Z.abs_N y)) in *.
  destruct (canonical_nonempty _ _ Hc) as (c & tl & E & Hd & Htl).
  destruct Hc as (Hall & _).
  replace (0 - 1 - length ds)%nat with 0%nat by lia. replace (0 - length ds)%nat with 0%nat by lia. cbn [pad0].
  destruct (y <? 0).
  - split; [constructor; [lia|apply all_digits_wfl, Hall]|]. split; [cbn [length]; lia|reflexivity].
  - split; [apply all_digits_wfl, Hall|]. split; [lia|]. rewrite E. cbn [first_ok]. rewrite Hd. apply orb_true_r.
Qed.

Definition tailwf_check (wide : bool) (m d h : Z) : bool := wflb (tail_fmt wide m d h).
Lemma tailwf_check_all :
  forallb (fun wide => forallb (fun m => forallb (fun d => forallb (fun h => tailwf_check wide m d h)
    (zrange 0 25)) (zrange 1 31)) (zrange 1 12)) [true; false] = true.
Proof. vm_compute. reflexivity. Qed.
Lemma tailwf_check_ok wide m d h : 1 <= m <= 12 -> 1 <= d <= 31 -> 0 <= h <= 24 -> wfl (tail_fmt wide m d h).
Proof.
  intros Hm Hd Hh. apply wflb_wfl. pose proof tailwf_check_all as Hall.
  rewrite forallb_forall in Hall. specialize (Hall wide ltac:(destruct wide; cbn; auto)).
  rewrite forallb_forall in Hall. specialize (Hall m (zrange_in 1 12 m ltac:(lia))).
  rewrite forallb_forall in Hall. specialize (Hall d (zrange_in 1 31 d ltac:(lia))).
  rewrite forallb_forall in Hall. exact (Hall h (zrange_in 0 25 h ltac:(lia))).
Qed.

Lemma first_ok_app l rest : first_ok l = true -> first_ok (l ++ rest) = true.
Proof. destruct l; [discriminate|auto]. Qed.

(* the rendered string passes the length / first-byte guard of Date::_parse *)
Lemma game_fmt_guard wide r y m d :
  has_fields r y m d 0 -> in_i16 y = true -> 1 <= m <= 12 -> 1 <= d <= 31 ->
  wfl (game_fmt wide r) /\ (5 <= length (game_fmt wide r) <= 12)%nat /\ first_ok (game_fmt wide r) = true.
Proof.
  intros Hf Hy Hm Hd. rewrite (game_fmt_eq wide r y m d 0 Hf Hm Hd ltac:(lia)).
  destruct (year_facts y Hy) as (H1 & [H2 H3] & H4).
  pose proof (tail_check_ok wide m d 0 Hm Hd ltac:(lia)) as Ht. unfold tail_check in Ht.
  replace (wide_ok wide 0) with true in Ht by (destruct wide; reflexivity). cbn [negb orb] in Ht.
  apply andb_prop in Ht as [Ht T2]. apply andb_prop in Ht as [_ T1].
  change (negb (0 =? 0)) with false in T2. cbv iota in T2. apply Nat.leb_le in T1, T2.
  split; [|split].
  - apply wfl_app; [exact H1|apply tailwf_check_ok; lia].
  - rewrite app_length. lia.
  - apply first_ok_app, H4.
Qed.

Lemma date_fields y m d r :
  valid_md m d = true -> date_from_ymd_opt y m d = Ok (Some r) -> has_fields r y m d 0.
Proof.
  intros Hv Hr. pose proof (valid_md_bounds _ _ Hv) as [Hm Hd].
  apply date_from_ymd_raw in Hr.
  destruct (raw_fields' y m d 0 Hm Hd ltac:(lia)) as (r' & Hr' & Hf). congruence.
Qed.

(* ---- Date ---- *)
Theorem fmt_parse_date y m d :
  in_i16 y = true -> valid_md m d = true ->
  exists r, date_from_ymd_opt y m d = Ok (Some r) /\
            date_parse (game_fmt false r) = Ok (Some r) /\ date_parse (game_fmt true r) = Ok (Some r).
Proof.
  intros Hy Hv. pose proof (valid_md_bounds _ _ Hv) as [Hm Hd].
  destruct (date_from_ymd_valid y m d Hv) as (r & Hr & _).
  pose proof (date_fields y m d r Hv Hr) as Hf.
  exists r. split; [exact Hr|].
  assert (forall wide, date_parse (game_fmt wide r) = Ok (Some r)) as H; [|split; apply H].
  intros wide. destruct (game_fmt_guard wide r y m d Hf Hy Hm Hd) as (W & L & F).
  rewrite (date_parse_complete _ W L F). unfold date_fallback.
  rewrite (x_parse_game_fmt wide r y m d 0 Hf Hy Hm Hd ltac:(lia)) by (destruct wide; reflexivity).
  unfold olift. cbn [obind]. unfold date_from_expanded. cbn [xh xy xm xd Z.eqb negb]. exact Hr.
Qed.

(* ---- DateHour (hour 1..24); the zero-padded form only for hours >= 10, see DateParse.wide_ok ---- *)
Theorem fmt_parse_datehour y m d h :
  in_i16 y = true -> valid_md m d = true -> 1 <= h <= 24 ->
  exists r, datehour_from_ymdh_opt y m d h = Ok (Some r) /\
            datehour_parse (game_fmt false r) = Ok (Some r) /\
            (10 <= h -> datehour_parse (game_fmt true r) = Ok (Some r)).
Proof.
  intros Hy Hv Hh. pose proof (valid_md_bounds _ _ Hv) as [Hm Hd].
  destruct (raw_fields' y m d h Hm Hd ltac:(lia)) as (r & Hr & Hf).
  destruct (dpm_valid _ _ Hv) as (v & Hdp & Hle).
  assert (Hmk : datehour_from_ymdh_opt y m d h = Ok (Some r)).
  { unfold datehour_from_ymdh_opt. rewrite Hr. cbn [obind]. rewrite Hdp. cbn [obind].
    replace ((0 <? h) && (d <=? v)) with true by (symmetry; apply andb_true_intro; split; [apply Z.ltb_lt|apply Z.leb_le]; lia).
    reflexivity. }
  exists r. split; [exact Hmk|].
  assert (forall wide, wide_ok wide h = true -> datehour_parse (game_fmt wide r) = Ok (Some r)) as H.
  { intros wide Hw. unfold datehour_parse.
    rewrite (x_parse_game_fmt wide r y m d h Hf Hy Hm Hd ltac:(lia) Hw).
    unfold olift. cbn [obind]. exact Hmk. }
  split; [apply H; reflexivity|]. intros H10. apply H. unfold wide_ok.
  replace (10 <=? h) with true by (symmetry; apply Z.leb_le; lia). apply orb_true_r.
Qed.

(* ---- UniformDate (12 months of 30 days), rendered zero-padded by the crate ---- *)
Theorem fmt_parse_uniform y m d :
  in_i16 y = true -> 1 <= m <= 12 -> 1 <= d <= 30 ->
  exists r, uniform_from_ymd_opt y m d = Some r /\
            uniform_parse (game_fmt true r) = Ok (Some r) /\ uniform_parse (game_fmt false r) = Ok (Some r).
Proof.
  intros Hy Hm Hd.
  destruct (raw_fields' y m d 0 Hm ltac:(lia) ltac:(lia)) as (r & Hr & Hf).
  assert (Hmk : uniform_from_ymd_opt y m d = Some r).
  { unfold uniform_from_ymd_opt. replace (30 <? d) with false by (symmetry; apply Z.ltb_ge; lia). exact Hr. }
  exists r. split; [exact Hmk|].
  assert (forall wide, uniform_parse (game_fmt wide r) = Ok (Some r)) as H; [|split; apply H].
  intros wide. unfold uniform_parse.
  rewrite (x_parse_game_fmt wide r y m d 0 Hf Hy Hm ltac:(lia) ltac:(lia)) by (destruct wide; reflexivity).
  unfold olift. cbn [obind]. unfold uniform_from_expanded. cbn [xh xy xm xd Z.eqb negb]. rewrite Hmk. reflexivity.
Qed.

Example fmt_examples :
  game_fmt false (mkraw 1444 (11 * 4096 + 11 * 128)) = [49; 52; 52; 52; 46; 49; 49; 46; 49; 49]%N /\
  game_fmt true (mkraw (-17) (1 * 4096 + 2 * 128)) = [45; 49; 55; 46; 48; 49; 46; 48; 50]%N /\
  game_fmt false (mkraw 1936 (1 * 4096 + 2 * 128 + 12 * 4)) = [49; 57; 51; 54; 46; 49; 46; 50; 46; 49; 50]%N /\
  (* the zero-padded hour is not read back: *)
  datehour_parse (game_fmt true (mkraw 1936 (1 * 4096 + 2 * 128 + 5 * 4))) = Ok None.
Proof. repeat split; vm_compute; reflexivity. Qed.

(* ---- ISO-8601 rendering: reading the numerals back gives the same components, hour as 0..23 ---- *)
Theorem iso_components r y m d h :
  has_fields r y m d h -> in_i16 y = true -> 1 <= m <= 12 -> 1 <= d <= 31 -> 0 <= h <= 24 ->
  exists r1 r2 T,
    to_i64_t (iso_fmt r) = Ok (y, DASH :: r1) /\ to_i64_t r1 = Ok (m, DASH :: r2) /\ to_i64_t r2 = Ok (d, T) /\
    ((h = 0 /\ T = []) \/ (1 <= h /\ exists T', T = 84%N :: T' /\ to_i64_t T' = Ok (h - 1, []))).
Proof.
  intros (H1 & H2 & H3 & H4 & H5) Hy Hm Hd Hh. apply in_i16_true in Hy.
  pose proof (hh_check_ok m d h Hm Hd Hh) as Hc. unfold hh_check in Hc. apply eqb_prop in Hc.
  unfold raw_has_hour in Hc. cbn [rdata] in Hc.
  unfold iso_fmt, raw_has_hour. rewrite H1, H2, H3, H4, H5, Hc.
  set (T := if negb (h =? 0) then [84%N] ++ fmt_int 2 (h - 1) else []).
  exists (fmt_int 2 m ++ [DASH] ++ fmt_int 2 d ++ T), (fmt_int 2 d ++ T), T.
  assert (HT : stops T = true) by (unfold T; destruct (negb (h =? 0)); reflexivity).
  split; [apply (to_i64_t_fmt_int 4 y); [lia|reflexivity]|].
  split; [apply (to_i64_t_fmt_int 2 m); [lia|reflexivity]|].
  split; [apply (to_i64_t_fmt_int 2 d); [lia|exact HT]|].
  unfold T. destruct (h =? 0) eqn:E; cbn [negb].
  - left. apply Z.eqb_eq in E. auto.
  - right. apply Z.eqb_neq in E. split; [lia|]. exists (fmt_int 2 (h - 1)). split; [reflexivity|].
    rewrite <- (app_nil_r (fmt_int 2 (h - 1))). apply to_i64_t_fmt_int; [lia|reflexivity].
Qed.

(* ---- RawDate::parse reads back both renderings of any raw date with in-range fields ---- *)
Theorem fmt_parse_raw y m d h wide :
  in_i16 y = true -> 1 <= m <= 12 -> 1 <= d <= 31 -> 0 <= h <= 24 -> wide_ok wide h = true ->
  exists r, raw_from_ymdh_opt y m d h = Some r /\ raw_parse (game_fmt wide r) = Ok (Some r).
Proof.
  intros Hy Hm Hd Hh Hw. destruct (raw_fields' y m d h Hm Hd Hh) as (r & Hr & Hf).
  exists r. split; [exact Hr|]. unfold raw_parse.
  rewrite (x_parse_game_fmt wide r y m d h Hf Hy Hm Hd Hh Hw). unfold olift. cbn [obind].
  unfold raw_from_expanded. cbn [xy xm xd xh]. rewrite Hr.
  rewrite (game_fmt_eq wide r y m d h Hf Hm Hd Hh).
  assert (Ht : exists t, tail_fmt wide m d h = DOT :: t) by (unfold tail_fmt; cbn [app]; eauto).
  destruct Ht as (t & ->). apply in_i16_true in Hy.
  rewrite (to_i64_t_fmt_int 0 y (DOT :: t)) by (try reflexivity; lia). reflexivity.
Qed.
