(* C05 for the text TAPE deserializer walk (TextDeTape.de / seq_all / seq_tup / twalk over the
   immutable token list, with the DOM reader operations TextDeTape.v defines itself: tget, next_idx,
   next_idx_values, values_len, fields_next, remainder, read_object, find_mixed, read_array).

   On every tape satisfying TapeWf.tape_wf (what TextTape.parse guarantees: C17, parse_tape_wf), for every
   shape (ShProp included), every decoder returning real bytes, every float parser / casts and EVERY fuel,
   the walk never returns Panic (SITE_TOK 9100 = `tokens[i]` out of range, 9001 / 9002 of finish) or OOB,
   and does not return OutOfFuel when
            2 * (tokens of the range) + shape_size sh + seq_extra t sh + 4 <= fuel,
   seq_extra t sh = the nesting depth of ShSeq / ShTup in sh if the tape contains a Header token, else 0.

   Invariants on the handles (all derived from tape_wf):
     KVal vi / KOpVal _ vi   vi starts a non-empty Dyck range inside the tape          (kbound)
     KArr st en / TVSeq st en   [st, en) is a Dyck range inside the tape                (rng)
     TVMap st en / twalk .. ti en   an object-body suffix `(key [op] value)* [Mixed items]`, a Dyck range, and
                             the remainder FieldsIter::remainder computes at its end is a Dyck range: empty for
                             the root and for Object tokens, the array's items for the degenerate (e, e) range
                             read_object returns for an Array token                     (map_ok)
   Measure: the number of tokens of the range (msz adds the remainder of an array read as an object).

   FINDING (about the MODEL's fuel, not the Rust code; REPAIRED in TextDeTape.v): the original
   tape_fuel = 2 * length t + shape_size sh + 8 was NOT always sufficient.  deserialize_seq on a Header value
   (`rgb { .. }`) yields a sequence whose first element is the header token itself (read_array returns
   (vi, next_idx (S vi))), so a shape ShSeq (ShSeq (.. )) deserialized at a header costs TWO levels of fuel
   (de + seq_all) per level of the shape without advancing in the tape.  Counterexample
   [old_tape_fuel_insufficient] below: the input `a=rgb{{}}` with the shape ShMap (ShSeq^16 ShIgn) gives
   OutOfFuel with the old fuel and Ok with the present one (the Rust code has no fuel: its recursion is bounded
   by the static type; replayed on the implementation: a value, release and debug).
   tape_fuel is now 2 * length t + 2 * shape_size sh + 8, for which [deser_tape_text_ok] holds without any
   side condition ([de_root_text_ok_2size]); the finer bound with seq_extra is kept ([de_root_text_ok]). *)
From JV.proofs Require Import SwarLanes NoCrashWalk NoCrashTextDe DomProofs.
From JV Require Dom TextTape.
From JV.proofs Require TextTapeGrammarProofs.
From JV Require Import Bytes Utf8 Scalar TextTok SerdeShape TextDeCommon TapeWf TextDeTape.
From Coq Require Import List NArith ZArith Bool Lia Arith.
Import ListNotations.
Open Scope nat_scope.

(* ================================================================ the shape measure *)
Fixpoint sdepth (sh : shape) : nat :=
  match sh with
  | ShOpt s | ShMap s | ShProp s => sdepth s
  | ShSeq s => S (sdepth s)
  | ShTup ss => S (fold_right (fun s n => Nat.max (sdepth s) n) 0 ss)
  | ShStruct _ fs => fold_right (fun f n => Nat.max (sdepth (snd f)) n) 0 fs
  | _ => 0
  end.

(* b = "the tape contains a Header token": only then does deserialize_seq cost two levels per shape level *)
Definition mu (b : bool) (sh : shape) : nat := tsize sh + (if b then sdepth sh else 0).

Lemma sdepth_le_tsize : forall sh, sdepth sh <= tsize sh.
Proof.
  fix IH 1. intros sh. destruct sh; cbn [sdepth TextDeCommon.shape_size]; try lia.
  - specialize (IH sh). lia.
  - specialize (IH sh). lia.
  - induction ss as [|x ss IHs]; cbn [fold_right]; [lia|]. specialize (IH x). lia.
  - specialize (IH sh). lia.
  - induction fields as [|x fs IHs]; cbn [fold_right]; [lia|]. specialize (IH (snd x)). lia.
  - specialize (IH sh). lia.
Qed.

Lemma mu_pos b sh : 1 <= mu b sh.
Proof. unfold mu. pose proof (tsize_pos sh). lia. Qed.

Lemma tup_depth_le ss s : In s ss -> sdepth s <= fold_right (fun s n => Nat.max (sdepth s) n) 0 ss.
Proof. induction ss as [|x ss IH]; cbn; [tauto|]. intros [->|H]; [lia|]. specialize (IH H). lia. Qed.
Lemma struct_depth_le (fs : list field) f : In f fs -> sdepth (snd f) <= fold_right (fun f n => Nat.max (sdepth (snd f)) n) 0 fs.
Proof. induction fs as [|x fs IH]; cbn; [tauto|]. intros [->|H]; [lia|]. specialize (IH H). lia. Qed.

Lemma mu_tup b ss s : In s ss -> mu b s + (if b then 2 else 1) <= mu b (ShTup ss).
Proof.
  intros H. unfold mu. cbn [TextDeCommon.shape_size sdepth].
  pose proof (ttup_size_le ss s H). pose proof (tup_depth_le ss s H). destruct b; lia.
Qed.

(* the shapes a visit_map loop deserializes values into *)
Definition wchild (m : wmode) (sh : shape) : Prop :=
  match m with
  | WMap s => sh = s
  | WStruct _ fs => sh = ShIgn \/ exists f, In f fs /\ sh = f_shape f
  | WAny => sh = ShAny
  | WProp s => sh = s \/ sh = ShIgn
  end.

Lemma mu_child b sh m c : wmode_of sh = Some m -> wchild m c -> mu b c <= mu b sh.
Proof.
  destruct sh; cbn [wmode_of]; intros E; inversion E; subst; cbn [wchild].
  - intros ->. unfold mu. cbn. destruct b; lia.
  - intros [->|(f & Hin & ->)].
    + unfold mu. cbn. destruct b; lia.
    + unfold mu, f_shape. cbn [TextDeCommon.shape_size sdepth].
      pose proof (tstruct_size_le fields f Hin). pose proof (struct_depth_le fields f Hin). destruct b; lia.
  - intros [->| ->]; unfold mu; cbn; pose proof (tsize_pos sh); destruct b; lia.
  - intros ->. lia.
Qed.

(* one (key, value) step, for the child relation (NoCrashTextDe.entry_ok is stated for tsize) *)
Section EntryOk2.
  Context {X St : Type}.
  Variable rec : shape -> X -> St -> outcome (dval * St).
  Variable rec_op : X -> St -> outcome (N * St).
  Variable FF : Prop.
  Variable Q : St -> Prop.

  Lemma entry_ok2 m a kb knum x s : acc_ok m a ->
    (forall sh, wchild m sh -> gd2 true FF (fun r => Q (snd r)) (rec sh x s)) ->
    gd2 true FF (fun r => Q (snd r)) (rec_op x s) ->
    gd2 true FF (fun r => acc_ok m (fst r) /\ Q (snd r)) (entry rec rec_op m a kb knum x s).
  Proof.
    intros Ha Hrec Hop. destruct m as [sh|tk fs| |sh]; cbn [entry].
    - eapply gd2_bind; [apply (Hrec sh); reflexivity|]. intros [v s'] H. cbn in *. auto.
    - destruct (tk && knum); [exact I|]. destruct (find_name fs kb 0) as [[i f]|] eqn:E.
      + assert (Hc : wchild (WStruct tk fs) (f_shape f)).
        { apply find_name_in in E. right. exists f. auto. }
        destruct (f_mode f).
        * destruct (slot_full a i); [exact I|]. eapply gd2_bind; [apply (Hrec (f_shape f)); exact Hc|].
          intros [v s'] H. cbn in *. rewrite upd_length. auto.
        * eapply gd2_bind; [apply (Hrec (f_shape f)); exact Hc|].
          intros [v s'] H. cbn in *. rewrite upd_length. auto.
        * eapply gd2_bind; [apply (Hrec (f_shape f)); exact Hc|].
          intros [v s'] H. cbn in *. rewrite upd_length. auto.
      + eapply gd2_bind; [apply (Hrec ShIgn); left; reflexivity|]. intros [v s'] H. cbn in *. auto.
    - eapply gd2_bind; [apply (Hrec ShAny); reflexivity|]. intros [v s'] H. cbn in *. auto.
    - destruct (beqb kb STR_OPERATOR).
      + destruct (slot_full a 0); [exact I|]. eapply gd2_bind; [exact Hop|]. intros [o s'] H. cbn in *. rewrite upd_length. auto.
      + destruct (beqb kb STR_VALUE).
        * destruct (slot_full a 1); [exact I|]. eapply gd2_bind; [apply (Hrec sh); left; reflexivity|].
          intros [v s'] H. cbn in *. rewrite upd_length. auto.
        * eapply gd2_bind; [apply (Hrec ShIgn); right; reflexivity|]. intros [v s'] H. cbn in *. auto.
  Qed.
End EntryOk2.

(* ================================================================ the reader operations on a well-formed tape *)
Section Tape.
  Variable t : ttape.
  Hypothesis WF : tape_wf t.

  Lemma W : conts_ok t.
  Proof. destruct WF as (_ & _ & H & _). exact H. Qed.

  Definition rng (st en : nat) : Prop := dyck t st en /\ en <= length t.

  Lemma tget_strict i : i < length t -> strict (fun k => nth_error t i = Some k) (TextDeTape.tget t i).
  Proof.
    intros H. unfold TextDeTape.tget. destruct (nth_error t i) eqn:E; cbn; auto.
    apply nth_error_None in E. lia.
  Qed.

  Lemma tget_some i k : nth_error t i = Some k -> TextDeTape.tget t i = Ok k.
  Proof. intros H. unfold TextDeTape.tget. rewrite H. reflexivity. Qed.

  Lemma nth_skipn : forall (l : ttape) i k, nth_error l i = Some k -> skipn i l = k :: skipn (S i) l.
  Proof. exact tget_skipn. Qed.

  (* ---------- next_idx ---------- *)
  Lemma next_idx_unfold' idx k : nth_error t idx = Some k ->
    TextDeTape.next_idx t idx =
    match k with
    | TArray e _ | TObject e _ => Ok (S e)
    | TOperator _ => TextDeTape.next_idx t (S idx)
    | THeader _ => next_idx_header_l (skipn (S idx) t) (S idx)
    | _ => Ok (S idx)
    end.
  Proof.
    intros K. unfold TextDeTape.next_idx. rewrite (nth_skipn _ _ _ K). cbn [next_idx_l]. destruct k; reflexivity.
  Qed.

  Lemma value_end_next_idx' v n : value_end t v = Some n -> TextDeTape.next_idx t v = Ok n.
  Proof.
    intros H. unfold value_end, TapeWf.tget in H.
    destruct (nth_error t v) as [k|] eqn:K; try discriminate.
    rewrite (next_idx_unfold' _ _ K).
    destruct k; cbn [is_key] in H; try discriminate; try (inversion H; reflexivity).
    destruct (nth_error t (S v)) as [k'|] eqn:K'; try discriminate.
    rewrite (nth_skipn _ _ _ K'). cbn [next_idx_header_l].
    destruct k'; try discriminate; inversion H; reflexivity.
  Qed.

  Lemma next_idx_key' i k : nth_error t i = Some k -> is_key k = true -> TextDeTape.next_idx t i = Ok (S i).
  Proof. intros K HK. rewrite (next_idx_unfold' _ _ K). destruct k; try discriminate; reflexivity. Qed.

  (* ---------- values ---------- *)
  Lemma value_end_rng v n : value_end t v = Some n -> v < n /\ rng v n.
  Proof.
    intros H. pose proof (value_end_gt _ _ _ W H) as G. split; [exact G|].
    unfold value_end in H. destruct (TapeWf.tget t v) as [k|] eqn:K; try discriminate.
    pose proof (tget_lt _ _ _ K) as L.
    assert (Hleaf : is_key k = true -> n = S v -> rng v n).
    { intros HK ->. split; [|lia]. eapply dyck_leaf; [exact K|apply is_key_leaf; exact HK|constructor]. }
    assert (Hcont : forall i e k0, TapeWf.tget t i = Some k0 -> container_end k0 = Some e -> rng i (S e)).
    { intros i e k0 K0 C0. destruct (cont_lt t i k0 e W K0 C0) as (A & B & E & DD). split; [|lia].
      apply (dyck_cont t i (S e) k0 e K0 C0 A); [lia|rewrite E; cbn; apply Nat.eqb_refl|exact DD|constructor]. }
    destruct k; cbn [is_key] in H; try discriminate;
      try (inversion H; subst; apply Hleaf; reflexivity);
      try (inversion H; subst; eapply Hcont; [exact K|reflexivity]).
    destruct (TapeWf.tget t (S v)) as [k'|] eqn:K'; try discriminate.
    assert (Hh : forall e, container_end k' = Some e -> n = S e -> rng v n).
    { intros e C ->. destruct (Hcont (S v) e k' K' C) as [D1 D2]. split; [|exact D2].
      destruct (cont_lt t (S v) k' e W K' C) as (A & _).
      apply (dyck_header t v (S e) s k' K K'); [destruct k'; try discriminate; reflexivity|lia|exact D1]. }
    destruct k'; try discriminate; inversion H; subst; eapply Hh; reflexivity.
  Qed.

  Lemma nxv_strict i : i < length t -> strict (fun _ => True) (TextDeTape.next_idx_values t i).
  Proof.
    intros H. unfold TextDeTape.next_idx_values. eapply strict_bind; [apply tget_strict; exact H|].
    intros k _. destruct k; exact I.
  Qed.

  (* the first item of a non-empty Dyck range *)
  Lemma nxv_dyck ti en : ti < en -> rng ti en ->
    exists nx, TextDeTape.next_idx_values t ti = Ok nx /\ ti < nx /\ nx <= en /\ rng nx en.
  Proof.
    intros L [D B]. unfold TextDeTape.next_idx_values.
    destruct (nth_error t ti) as [k|] eqn:K; [|apply nth_error_None in K; lia].
    rewrite (tget_some _ _ K). cbn [obind].
    destruct (container_end k) as [e|] eqn:C.
    - destruct (dyck_inv_cont t ti en k e D L K C) as (A1 & A2 & A3 & A4 & A5).
      exists (S e). split; [destruct k; try discriminate; inversion C; reflexivity|]. repeat split; auto; lia.
    - assert (D' : dyck t (S ti) en).
      { destruct k; try discriminate.
        - eapply dyck_inv_leaf; eauto.
        - eapply dyck_inv_leaf; eauto.
        - eapply dyck_inv_leaf; eauto.
        - eapply dyck_inv_leaf; eauto.
        - eapply dyck_inv_leaf; eauto.
        - eapply dyck_inv_leaf; eauto.
        - exfalso. eapply dyck_no_end; eauto.
        - eapply dyck_inv_header; eauto. }
      exists (S ti). split; [destruct k; try discriminate; reflexivity|]. repeat split; auto; lia.
  Qed.

  Lemma values_len_items : forall i e l, items t i e l ->
    forall fuel, length l < fuel -> TextDeTape.values_len t fuel i e = Ok (length l).
  Proof.
    induction 1; intros fuel F; (destruct fuel; [cbn in F; lia|]); cbn [TextDeTape.values_len length].
    - rewrite Nat.ltb_irrefl. reflexivity.
    - replace (i <? e) with true by (symmetry; apply Nat.ltb_lt; lia).
      assert (E : TextDeTape.next_idx_values t i = Ok (S i)).
      { unfold TextDeTape.next_idx_values. rewrite (tget_some _ _ H). cbn [obind]. destruct k; try discriminate; reflexivity. }
      rewrite E. cbn [obind]. rewrite IHitems by (cbn in F; lia). reflexivity.
    - replace (i <? e) with true by (symmetry; apply Nat.ltb_lt; lia).
      assert (E : TextDeTape.next_idx_values t i = Ok (S e')).
      { unfold TextDeTape.next_idx_values. rewrite (tget_some _ _ H). cbn [obind]. destruct k; try discriminate; inversion H0; reflexivity. }
      rewrite E. cbn [obind]. rewrite IHitems by (cbn in F; lia). reflexivity.
  Qed.

  Lemma values_len_strict st en : rng st en -> strict (fun _ => True) (TextDeTape.values_len t (S (length t)) st en).
  Proof.
    intros [D B]. destruct (dyck_items _ _ _ D) as [l I]. pose proof (items_bounds _ _ _ _ I).
    rewrite (values_len_items _ _ _ I) by lia. exact Logic.I.
  Qed.

  (* ---------- object bodies ---------- *)
  Definition remspan (en : nat) : nat := snd (TextDeTape.remainder t en en) - fst (TextDeTape.remainder t en en).
  Definition msz (ti en : nat) : nat := (en - ti) + remspan en.

  (* the range a visit_map loop runs over: an object body suffix (or the degenerate (e, e) of an array read
     as an object), whose remainder at the end is a Dyck range again *)
  Definition map_ok (ti en : nat) : Prop :=
    (exists r, fields_end t ti en r) /\ rng ti en /\
    rng (fst (TextDeTape.remainder t en en)) (snd (TextDeTape.remainder t en en)).

  Lemma map_ok_root : map_ok 0 (length t) /\ msz 0 (length t) = length t.
  Proof.
    destruct WF as (D & F & _ & _).
    assert (E : TextDeTape.remainder t (length t) (length t) = (length t, length t)).
    { unfold TextDeTape.remainder. replace (nth_error t (length t)) with (@None ttok); [reflexivity|].
      symmetry. apply nth_error_None. lia. }
    split.
    - split; [exact F|]. split; [split; [exact D|lia]|]. rewrite E. cbn. split; [constructor|lia].
    - unfold msz, remspan. rewrite E. cbn. lia.
  Qed.

  Lemma map_ok_obj i e m : nth_error t i = Some (TObject e m) ->
    map_ok (S i) e /\ msz (S i) e = e - S i /\ i < e /\ e < length t.
  Proof.
    intros K. pose proof (W i (tget_lt _ _ _ K)) as C. unfold cont_ok, TapeWf.tget in C. rewrite K in C.
    destruct C as (A & B & E & DD & (r & FE & _)). apply is_end_of_spec in E.
    assert (R : TextDeTape.remainder t e e = (e, e)).
    { unfold TextDeTape.remainder. rewrite E, K. reflexivity. }
    split; [|split; [|lia]].
    - split; [exists r; exact FE|]. split; [split; [exact DD|lia]|]. rewrite R. cbn. split; [constructor|lia].
    - unfold msz, remspan. rewrite R. cbn. lia.
  Qed.

  Lemma map_ok_arr i e m : nth_error t i = Some (TArray e m) ->
    map_ok e e /\ msz e e = e - S i /\ i < e /\ e < length t.
  Proof.
    intros K. destruct (cont_lt t i _ e W K eq_refl) as (A & B & E & DD).
    assert (R : TextDeTape.remainder t e e = (S i, e)).
    { unfold TextDeTape.remainder. unfold TapeWf.tget in E. rewrite E, K. reflexivity. }
    split; [|split; [|lia]].
    - split; [exists e; constructor|]. split; [split; [constructor|lia]|]. rewrite R. cbn. split; [exact DD|lia].
    - unfold msz, remspan. rewrite R. cbn. lia.
  Qed.

  (* FieldsIter::next on an object body: either the iterator is exhausted at the end / at the
     MixedContainer marker, or it yields `key [op] value` and the rest is an object body again *)
  Lemma fields_next_cases ti en : map_ok ti en ->
    (TextDeTape.fields_next t ti en = Ok None /\
       (ti = en \/ (ti < en /\ TextDeTape.remainder t ti en = (S ti, en) /\ rng (S ti) en)))
    \/ (exists s op vi n, TextDeTape.fields_next t ti en = Ok (Some (s, op, vi, n)) /\
          ti < vi /\ vi < n /\ n <= en /\ rng vi n /\ map_ok n en).
  Proof.
    intros ((r & FE) & [D B] & R). inversion FE; subst.
    - left. split; [|left; reflexivity]. unfold TextDeTape.fields_next. rewrite Nat.leb_refl. reflexivity.
    - left. unfold TapeWf.tget in H. split.
      + unfold TextDeTape.fields_next. replace (en <=? r) with false by (symmetry; apply Nat.leb_gt; lia).
        rewrite (tget_some _ _ H). reflexivity.
      + right. split; [exact H0|]. split.
        * unfold TextDeTape.remainder. rewrite H. reflexivity.
        * split; [|exact B]. eapply dyck_inv_leaf; eauto.
    - right. rename H into K, H0 into HK, H1 into V, H2 into L, H3 into FE'.
      pose proof (value_end_lt_len _ _ _ V) as VL. pose proof (value_ind_gt t ti) as VG.
      destruct (value_end_rng _ _ V) as [G RV].
      assert (exists k1, nth_error t (S ti) = Some k1) as [k1 K1].
      { destruct (nth_error t (S ti)) eqn:E; eauto. apply nth_error_None in E. lia. }
      pose proof (value_end_next_idx' _ _ V) as NI.
      assert (D1 : dyck t (S ti) en) by (eapply dyck_inv_leaf; eauto using is_key_leaf; lia).
      assert (DV : dyck t (value_ind_of t ti) en).
      { unfold value_ind_of in *. unfold TapeWf.tget in *. rewrite K1 in *.
        destruct k1; auto. eapply dyck_inv_leaf; eauto. lia. }
      assert (Dn : dyck t n en) by (apply (value_dyck t (value_ind_of t ti) en n W DV V L)).
      assert (Hgo : exists s op, TextDeTape.fields_next t ti en = Ok (Some (s, op, value_ind_of t ti, n))).
      { unfold TextDeTape.fields_next. replace (en <=? ti) with false by (symmetry; apply Nat.leb_gt; lia).
        unfold TapeWf.tget in K. rewrite (tget_some _ _ K). cbn [obind].
        unfold value_ind_of, TapeWf.tget in *. rewrite K1 in *.
        destruct k; try discriminate; rewrite (tget_some _ _ K1); cbn [obind];
          destruct k1; cbn [obind];
          try (replace (ti + 2) with (S (S ti)) by lia);
          rewrite NI; cbn [obind]; eauto. }
      destruct Hgo as (s & op & Hgo). exists s, op, (value_ind_of t ti), n.
      split; [exact Hgo|]. repeat split; auto; try lia; try (apply RV); try (apply R).
      exists r. exact FE'.
  Qed.

  (* ---------- read_array: the scan for the MixedContainer marker ---------- *)
  Lemma find_mixed_spec' : forall i e r l, fields_spec t i e r l -> r < e ->
    forall fuel, 2 * length l < fuel -> TextDeTape.find_mixed t fuel i = Ok r.
  Proof.
    intros i e r l H. induction H; intros LT fuel F.
    - lia.
    - destruct fuel; [lia|]. cbn [TextDeTape.find_mixed]. unfold TapeWf.tget in H. rewrite H. reflexivity.
    - cbn [length] in F. destruct fuel as [|[|fuel]]; try lia. unfold TapeWf.tget in *.
      assert (S1 : TextDeTape.find_mixed t (S (S fuel)) i = TextDeTape.find_mixed t (S fuel) (S i)).
      { cbn [TextDeTape.find_mixed]. rewrite H. rewrite (next_idx_key' _ _ H H0). cbn [obind].
        destruct k; try discriminate; reflexivity. }
      rewrite S1. pose proof (value_end_next_idx' _ _ H1) as NI.
      pose proof (value_end_not_mixed _ _ _ H1) as NM.
      unfold value_ind_of, TapeWf.tget in *. destruct (nth_error t (S i)) as [k1|] eqn:K1.
      + assert (G : forall (NOP : match k1 with TOperator _ => False | _ => True end),
                   TextDeTape.find_mixed t (S fuel) (S i) = Ok r).
        { intro NOP. cbn [TextDeTape.find_mixed]. rewrite K1.
          assert (E1 : TextDeTape.next_idx t (S i) = Ok n) by (destruct k1; auto; contradiction).
          assert (NM1 : k1 <> TMixedContainer) by (destruct k1; try congruence; contradiction).
          destruct k1; try congruence; rewrite E1; cbn [obind]; apply IHfields_spec; auto; lia. }
        destruct k1; try (apply G; exact I).
        cbn [TextDeTape.find_mixed]. rewrite K1. rewrite (next_idx_unfold' _ _ K1). rewrite NI. cbn [obind].
        apply IHfields_spec; auto. lia.
      + exfalso. pose proof (value_end_lt_len _ _ _ H1). apply nth_error_None in K1. unfold TapeWf.tget in *. lia.
  Qed.

  (* ---------- a value inside a Dyck range ---------- *)
  Lemma val_cases vi en : vi < en -> rng vi en ->
    exists k, nth_error t vi = Some k /\
      match k with
      | TEnd _ => False
      | THeader _ => S vi < en /\ rng (S vi) en /\
                     exists k' e, nth_error t (S vi) = Some k' /\ container_end k' = Some e /\ e < en
      | TArray e _ | TObject e _ => e < en
      | _ => True
      end.
  Proof.
    intros L [D B]. destruct (nth_error t vi) as [k|] eqn:K; [|apply nth_error_None in K; lia].
    exists k. split; [reflexivity|]. destruct k; auto.
    - destruct (dyck_inv_cont t vi en _ e D L K eq_refl) as (_ & A & _). exact A.
    - destruct (dyck_inv_cont t vi en _ e D L K eq_refl) as (_ & A & _). exact A.
    - eapply dyck_no_end; eauto.
    - destruct (dyck_inv_header t vi en s D L K) as (D1 & L1 & k' & K' & C').
      split; [exact L1|]. split; [split; assumption|].
      destruct (container_end k') as [e|] eqn:C; [|destruct k'; discriminate].
      exists k', e. split; [exact K'|]. split; [exact C|].
      destruct (dyck_inv_cont t (S vi) en k' e D1 L1 K' C) as (_ & A & _). exact A.
  Qed.

  Lemma read_array_ok' vi en tk : vi < en -> rng vi en -> nth_error t vi = Some tk ->
    strict (fun ra => match ra with
                      | Some (st, e) => rng st e /\ e - st <= en - vi /\
                                        match tk with THeader _ => True | _ => e - st + 2 <= en - vi end
                      | None => True
                      end) (TextDeTape.read_array t vi tk).
  Proof.
    intros L R K. destruct (val_cases vi en L R) as (k & K0 & Hk). rewrite K in K0. inversion K0; subst k. clear K0.
    destruct tk; try exact I.
    - destruct (cont_lt t vi _ e W K eq_refl) as (A & B & E & DD).
      cbn [TextDeTape.read_array strict]. split; [split; [exact DD|lia]|]. lia.
    - pose proof (W vi (tget_lt _ _ _ K)) as C. unfold cont_ok, TapeWf.tget in C. rewrite K in C.
      destruct C as (A & B & E & DD & (r & FE & M)).
      assert (Hplain : strict (fun ra => match ra with
                      | Some (st, e0) => rng st e0 /\ e0 - st <= en - vi /\ e0 - st + 2 <= en - vi
                      | None => True end) (Ok (Some (S vi, e)))).
      { cbn [strict]. split; [split; [exact DD|lia]|]. lia. }
      destruct mixed; [|exact Hplain]. specialize (M eq_refl).
      destruct (fields_end_spec t W _ _ _ FE) as [l S0].
      pose proof (fields_spec_bounds _ _ _ _ _ S0) as BB.
      cbn [TextDeTape.read_array]. rewrite (find_mixed_spec' _ _ _ _ S0 M) by lia. cbn [obind strict].
      pose proof (tail_reader_ok _ _ _ _ _ W (Nat.lt_le_incl _ _ B) S0 DD) as T.
      unfold tail_reader in T. replace (Nat.ltb r e) with true in T by (symmetry; apply Nat.ltb_lt; lia).
      destruct T as [T1 T2]. cbn in T1, T2. split; [split; assumption|]. lia.
    - destruct Hk as (L1 & R1 & k' & e & K' & C' & Le).
      assert (V : value_end t vi = Some (S e)).
      { unfold value_end, TapeWf.tget. rewrite K, K'. destruct k'; try discriminate; inversion C'; reflexivity. }
      destruct (value_end_rng _ _ V) as [G RV].
      cbn [TextDeTape.read_array]. rewrite (next_idx_unfold' _ _ K').
      assert (E : match k' with
                  | TArray e0 _ | TObject e0 _ => Ok (S e0)
                  | TOperator _ => TextDeTape.next_idx t (S (S vi))
                  | THeader _ => next_idx_header_l (skipn (S (S vi)) t) (S (S vi))
                  | _ => Ok (S (S vi))
                  end = Ok (S e)) by (destruct k'; try discriminate; inversion C'; reflexivity).
      rewrite E. cbn [obind strict]. split; [exact RV|]. split; [lia|exact Logic.I].
  Qed.

  (* ================================================================ the deserializer side *)
  Section De.
    Variable decode : bytes -> cow.
    Variable parse_f64 : bytes -> outcome N.
    Variable fo : fops.
    Hypothesis Hdec : forall raw, wfl (cow_bytes (decode raw)).

    (* a value handle is valid, and stands for at most n tokens *)
    Definition kbound (k : vkind) (n : nat) : Prop :=
      match k with
      | KVal vi | KOpVal _ vi => exists en, vi < en /\ rng vi en /\ en - vi <= n
      | KArr st en => rng st en /\ en - st + 1 <= n
      | KScalar _ => True
      | KStatic s => wfl s
      end.

    Lemma kbound_mono k n n' : kbound k n -> n <= n' -> kbound k n'.
    Proof.
      destruct k; cbn [kbound]; auto.
      - intros (en & A & B & C) H. exists en. split; [exact A|split; [exact B|lia]].
      - intros (en & A & B & C) H. exists en. split; [exact A|split; [exact B|lia]].
      - intros [A B] H. split; auto; lia.
    Qed.

    (* what a visit hands to the visitor; loose = the range of a TVSeq may be as large as the value
       itself (deserialize_seq on a Header value) *)
    Definition tvb (loose : bool) (n : nat) (v : tvisit) : Prop :=
      match v with
      | TVPrim p => tprim_wf p
      | TVSome k | TVNewtype k => kbound k n
      | TVSeq st en => rng st en /\ en - st + (if loose then 0 else 1) <= n
      | TVMap st en => map_ok st en /\ msz st en + 2 <= n
      | TVPropMap _ vi => kbound (KVal vi) n
      | TVEnum vi rest => (exists n', kbound (KVal vi) n') /\
                          match rest with Some (_, en) => en <= length t | None => True end
      end.

    Lemma tvb_mono b b' n n' v : tvb b n v -> n <= n' -> (b = true -> b' = true) -> tvb b' n' v.
    Proof.
      destruct v; cbn [tvb]; auto.
      - intros H L _. eapply kbound_mono; eauto.
      - intros H L _. eapply kbound_mono; eauto.
      - intros [A B] L Hb. split; auto. destruct b, b'; try lia; specialize (Hb eq_refl); discriminate.
      - intros [A B] L _. split; auto. lia.
      - intros H L _. eapply (kbound_mono (KVal vi)); eauto.
    Qed.

    Definition is_hdr (vi : nat) : bool := match nth_error t vi with Some (THeader _) => true | _ => false end.

    (* hb = false is allowed only for tapes without Header tokens *)
    Variable hb : bool.
    Hypothesis Hhb : forall vi, is_hdr vi = true -> hb = true.

    Lemma pstr_wf s : tprim_wf (pstr (decode s)).
    Proof. unfold pstr. cbn. apply Hdec. Qed.

    Lemma any_leaf_ok b n tk : strict (tvb b n) (any_leaf decode tk).
    Proof. destruct tk; cbn; auto; apply Hdec. Qed.

    Lemma tv_seq_at_ok vi en n : vi < en -> rng vi en -> en - vi <= n ->
      strict (tvb (is_hdr vi) n) (tv_seq_at decode t vi).
    Proof.
      intros L R Hn. destruct (val_cases vi en L R) as (tk & K & Hk). unfold tv_seq_at, is_hdr.
      rewrite (tget_some _ _ K), K. cbn [obind].
      eapply strict_bind; [apply (read_array_ok' vi en tk L R K)|].
      intros [[st e]|] H; [|apply any_leaf_ok].
      destruct H as (H1 & H2 & H3). cbn [strict tvb]. split; [exact H1|]. destruct tk; lia.
    Qed.

    Lemma tv_any_at_ok vi en n : vi < en -> rng vi en -> en - vi <= n ->
      strict (tvb false n) (tv_any_at decode t vi).
    Proof.
      intros L R Hn. destruct (val_cases vi en L R) as (tk & K & Hk). unfold tv_any_at.
      rewrite (tget_some _ _ K). cbn [obind].
      destruct tk; try (apply any_leaf_ok); try contradiction.
      - pose proof (tv_seq_at_ok vi en n L R Hn) as H. unfold is_hdr in H. rewrite K in H. exact H.
      - destruct (map_ok_obj _ _ _ K) as (M1 & M2 & M3 & M4). cbn [strict tvb]. split; [exact M1|]. lia.
      - destruct Hk as (L1 & R1 & k' & e & K' & C' & Le). rewrite K'.
        destruct k'; try discriminate.
        + pose proof (tv_seq_at_ok (S vi) en n L1 R1 ltac:(lia)) as H. unfold is_hdr in H. rewrite K' in H. exact H.
        + destruct (map_ok_obj _ _ _ K') as (M1 & M2 & M3 & M4). cbn [strict tvb]. split; [exact M1|].
          inversion C'; subst. lia.
    Qed.

    Lemma tv_any_ok k n : kbound k n -> strict (tvb false n) (tv_any decode t k).
    Proof.
      destruct k as [op vi|vi|s|s|st en]; cbn [kbound tv_any].
      - intros (en & A & B & C). eapply tv_any_at_ok; eauto.
      - intros (en & A & B & C). eapply tv_any_at_ok; eauto.
      - intros _. cbn. apply Hdec.
      - intros H. exact H.
      - intros [A B]. cbn. split; [exact A|lia].
    Qed.

    Lemma tv_map_ok k n : kbound k n -> strict (tvb false n) (tv_map decode t k).
    Proof.
      intros Hk. pose proof (tv_any_ok k n Hk) as Hany.
      assert (Hv : forall vi, (exists en, vi < en /\ rng vi en /\ en - vi <= n) ->
                strict (tvb false n) (tv_any decode t k) ->
                strict (tvb false n)
                  (do tk <- TextDeTape.tget t vi;
                   match read_object vi tk with
                   | Some (st, en) => Ok (TVMap st en)
                   | None => tv_any decode t k
                   end)).
      { intros vi (en & A & B & C) Ha. destruct (val_cases vi en A B) as (tk & K & Htk).
        rewrite (tget_some _ _ K). cbn [obind].
        destruct tk; cbn [read_object]; try exact Ha.
        - destruct (map_ok_arr _ _ _ K) as (M1 & M2 & M3 & M4). cbn [strict tvb]. split; [exact M1|]. lia.
        - destruct (map_ok_obj _ _ _ K) as (M1 & M2 & M3 & M4). cbn [strict tvb]. split; [exact M1|]. lia. }
      destruct k as [op vi|vi|s|s|st en]; cbn [tv_map]; try exact Hany.
      - apply Hv; [exact Hk|exact Hany].
      - apply Hv; [exact Hk|exact Hany].
    Qed.

    Lemma k_read_scalar_ok k n : kbound k n -> strict (fun _ => True) (k_read_scalar t k).
    Proof.
      destruct k as [op vi|vi|s|s|st en]; cbn [kbound k_read_scalar]; try (intros; exact I).
      - intros (en & A & [B1 B2] & C). eapply strict_bind; [apply tget_strict; lia|]. intros; exact I.
      - intros (en & A & [B1 B2] & C). eapply strict_bind; [apply tget_strict; lia|]. intros; exact I.
    Qed.

    Lemma k_read_str_ok k n : kbound k n ->
      strict (fun c => match c with Some c => wfl (cow_bytes c) | None => True end) (k_read_str decode t k).
    Proof.
      assert (Hv : forall vi, vi < length t ->
                strict (fun c => match c with Some c => wfl (cow_bytes c) | None => True end)
                  (do tk <- TextDeTape.tget t vi;
                   match tk with
                   | TOperator o => Ok (Some (Borrowed (op_symbol o)))
                   | _ => Ok (match tok_scalar tk with Some s => Some (decode s) | None => None end)
                   end)).
      { intros vi L. eapply strict_bind; [apply tget_strict; exact L|]. intros tk _.
        destruct tk; cbn; auto; try apply Hdec. apply op_symbol_wfl. }
      destruct k as [op vi|vi|s|s|st en]; cbn [kbound k_read_str]; try (intros; exact I).
      - intros (en & A & [B1 B2] & C). apply Hv. lia.
      - intros (en & A & [B1 B2] & C). apply Hv. lia.
      - intros _. cbn. apply Hdec.
    Qed.

    Lemma tv_scalar_hint_ok h k n : kbound k n -> strict (tvb false n) (tv_scalar_hint decode parse_f64 t h k).
    Proof.
      intros Hk. unfold tv_scalar_hint. eapply strict_bind; [apply (k_read_scalar_ok k n Hk)|].
      intros [raw|] _; [|apply tv_any_ok; exact Hk].
      destruct (scalar_prim decode parse_f64 true h raw); try exact I. apply tv_any_ok; exact Hk.
    Qed.

    Definition is_seq_hint (h : thint) : bool := match h with THSeq => true | _ => false end.

    Lemma tv_seq_ok vi n : (exists en, vi < en /\ rng vi en /\ en - vi <= n) ->
      strict (tvb hb n) (tv_seq_at decode t vi).
    Proof.
      intros (en & A & B & C). eapply strict_mono; [apply (tv_seq_at_ok _ en n A B C)|].
      intros v Hv. apply (tvb_mono (is_hdr vi) hb n n v Hv); [lia|apply Hhb].
    Qed.

    Lemma tv_enum_ok vi n : (exists en, vi < en /\ rng vi en /\ en - vi <= n) ->
      strict (tvb false n)
        (do tk <- TextDeTape.tget t vi;
         do ra <- read_array t vi tk;
         match ra with
         | Some (st, en) =>
             if st <? en then do nx <- next_idx_values t st; Ok (TVEnum st (Some (nx, en)))
             else Err EC_DE
         | None => Ok (TVEnum vi None)
         end).
    Proof.
      intros (en & A & B & C). destruct (val_cases vi en A B) as (tk & K & Htk).
      rewrite (tget_some _ _ K). cbn [obind].
      eapply strict_bind; [apply (read_array_ok' vi en tk A B K)|].
      intros [[st e]|] H.
      - destruct H as ([H1 H1'] & H2 & H3). destruct (st <? e) eqn:E; [|exact I]. apply Nat.ltb_lt in E.
        eapply strict_bind; [apply nxv_strict; lia|]. intros nx _. cbn [strict tvb]. split; [|exact H1'].
        exists (e - st), e. split; [exact E|]. split; [split; assumption|lia].
      - cbn [strict tvb]. split; [|exact I]. exists n, en. auto.
    Qed.

    Lemma tape_visit_ok h k n : kbound k n ->
      strict (tvb (is_seq_hint h && hb) n) (tape_visit decode parse_f64 t h k).
    Proof.
      intros Hk.
      assert (Hany : forall b, strict (tvb b n) (tv_any decode t k)).
      { intros b. eapply strict_mono; [apply (tv_any_ok k n Hk)|]. intros v Hv. apply (tvb_mono false b n n v Hv); auto. discriminate. }
      assert (Hmap : forall b, strict (tvb b n) (tv_map decode t k)).
      { intros b. eapply strict_mono; [apply (tv_map_ok k n Hk)|]. intros v Hv. apply (tvb_mono false b n n v Hv); auto. discriminate. }
      assert (Hsc : forall b h', strict (tvb b n) (tv_scalar_hint decode parse_f64 t h' k)).
      { intros b h'. eapply strict_mono; [apply (tv_scalar_hint_ok h' k n Hk)|]. intros v Hv. apply (tvb_mono false b n n v Hv); auto. discriminate. }
      assert (Hstatic : forall s, k = KStatic s -> forall b, strict (tvb b n) (Ok (TVPrim (TPStr true s)))).
      { intros s -> b. exact Hk. }
      unfold tape_visit.
      destruct k as [op vi|vi|s|s|st en]; try (eapply Hstatic; reflexivity).
      (* KOpVal, KVal, KScalar, KArr *)
      all: destruct h; try exact I; try (exact (Hany _)); try (exact (Hmap _)); try (exact (Hsc _ _)); try exact Hk.
      all: try (eapply strict_bind; [apply (k_read_str_ok _ n Hk)|]; intros [c|] Hc; [exact Hc|exact (Hany _)]).
      all: try (eapply strict_bind; [apply (k_read_scalar_ok _ n Hk)|]; intros [c|] Hc; [exact I|exact (Hany _)]).
      all: try (destruct prop; [|exact (Hmap _)]); try (exact (Hmap _)); try exact Hk.
      all: try (apply tv_seq_ok; exact Hk).
      all: try (apply tv_enum_ok; exact Hk).
      all: try (cbn [is_seq_hint strict tvb andb]; cbn [kbound] in Hk; destruct Hk; split; auto; destruct hb; lia).
    Qed.

    (* ================================================================ the walk *)
    Notation de := (TextDeTape.de decode parse_f64 fo t).
    Notation seq_all := (TextDeTape.seq_all decode parse_f64 fo t).
    Notation seq_tup := (TextDeTape.seq_tup decode parse_f64 fo t).
    Notation twalk := (TextDeTape.twalk decode parse_f64 fo t).

    Definition PA (f : nat) : Prop := forall sh k n, kbound k n ->
      gd2 true (2 * n + mu hb sh + 1 <= f) (fun _ => True) (de f sh k).
    Definition PB (f : nat) : Prop := forall s ti en, rng ti en ->
      gd2 true (2 * (en - ti) + mu hb s + 2 <= f) (fun _ => True) (seq_all f s ti en).
    Definition PC (f : nat) : Prop := forall ss ti en SZ, (forall s, In s ss -> mu hb s <= SZ) -> rng ti en ->
      gd2 true (2 * (en - ti) + SZ + 2 <= f) (fun _ => True) (seq_tup f ss ti en).
    Definition PD (f : nat) : Prop := forall m a ti en M, acc_ok m a -> map_ok ti en ->
      (forall c, wchild m c -> mu hb c <= M) ->
      gd2 true (2 * msz ti en + M + 4 <= f) (acc_ok m) (twalk f m a ti en).

    Lemma step_B f : PA f -> PB f -> PB (S f).
    Proof.
      intros IA IB s ti en R. cbn [TextDeTape.seq_all].
      destruct (ti <? en) eqn:E; [|exact I]. apply Nat.ltb_lt in E.
      destruct (nxv_dyck ti en E R) as (nx & Hnx & L1 & L2 & R2). rewrite Hnx. cbn [obind].
      eapply gd2_bind.
      { eapply gd2_mono; [apply (IA s (KVal ti) (en - ti))| |intros x H; exact H].
        - exists en. split; [exact E|]. split; [exact R|lia].
        - lia. }
      intros v _. eapply gd2_bind.
      { eapply gd2_mono; [apply (IB s nx en R2)|lia|intros x H; exact H]. }
      intros l _. exact I.
    Qed.

    Lemma step_C f : PA f -> PC f -> PC (S f).
    Proof.
      intros IA IC ss ti en SZ Hss R. cbn [TextDeTape.seq_tup]. destruct ss as [|s ss]; [exact I|].
      destruct (ti <? en) eqn:E; [|exact I]. apply Nat.ltb_lt in E.
      destruct (nxv_dyck ti en E R) as (nx & Hnx & L1 & L2 & R2). rewrite Hnx. cbn [obind].
      pose proof (Hss s (or_introl eq_refl)) as Hs.
      eapply gd2_bind.
      { eapply gd2_mono; [apply (IA s (KVal ti) (en - ti))| |intros x H; exact H].
        - exists en. split; [exact E|]. split; [exact R|lia].
        - lia. }
      intros v _. eapply gd2_bind.
      { eapply gd2_mono; [apply (IC ss nx en SZ)| |intros x H; exact H].
        - intros s' Hin. apply Hss. right. exact Hin.
        - exact R2.
        - lia. }
      intros l _. exact I.
    Qed.

    Lemma tvisit_prim_ok' sh p : tprim_wf p -> gd2 true True (fun _ : dval => True) (tvisit_prim fo sh p).
    Proof. intros Hp. eapply strict_gd2, strict_mono; [apply tvisit_prim_ok; exact Hp|]. intros; exact I. Qed.

    Lemma rec_op_ok (FF : Prop) k n : kbound k n ->
      gd2 true FF (fun _ : N => True)
        (do vo <- tape_visit decode parse_f64 t THStr k;
         match vo with TVPrim p => visit_operator p | _ => Err EC_DE end).
    Proof.
      intros Hk. eapply gd2_bind; [apply strict_gd2, (tape_visit_ok THStr k n Hk)|].
      intros vo _. destruct vo; try exact I. apply strict_gd2, visit_operator_strict.
    Qed.

    Lemma step_A f : PA f -> PB f -> PC f -> PD f -> PA (S f).
    Proof.
      intros IA IB IC ID sh k n Hk. cbn [TextDeTape.de].
      eapply gd2_bind; [apply strict_gd2, (tape_visit_ok (thint_of sh) k n Hk)|]. intros v Hv.
      destruct v as [p|k'|k'|st en|st en|op vi|vi rest].
      - eapply gd2_mono; [apply tvisit_prim_ok'; exact Hv|auto|auto].
      - destruct sh; try exact I. unfold omap.
        eapply gd2_bind; [eapply gd2_mono; [apply (IA sh k' n Hv)|unfold mu; cbn [tsize sdepth]; destruct hb; lia|intros x H; exact H]|].
        intros; exact I.
      - exact I.
      - destruct sh; try exact I; cbn [thint_of is_seq_hint tvb] in Hv; destruct Hv as [R Hn]; unfold omap.
        + eapply gd2_bind; [eapply gd2_mono; [apply (IB sh st en R)|revert Hn; unfold mu; cbn [tsize sdepth andb]; destruct hb; lia|intros x H; exact H]|].
          intros; exact I.
        + eapply gd2_bind.
          { eapply gd2_mono; [apply (IC ss st en (mu hb (ShTup ss) - (if hb then 2 else 1)))| |intros x H; exact H].
            - intros s Hin. pose proof (mu_tup hb ss s Hin). lia.
            - exact R.
            - revert Hn. unfold mu. cbn [tsize sdepth andb]. destruct hb; lia. }
          intros; exact I.
        + (* Property<T> read from a sequence: operator, value *)
          destruct (st <? en) eqn:E; [|exact I]. apply Nat.ltb_lt in E.
          destruct (nxv_dyck st en E R) as (n1 & Hn1 & L1 & L2 & R2). rewrite Hn1. cbn [obind].
          eapply gd2_bind.
          { apply (rec_op_ok _ (KVal st) (en - st)). exists en. split; [exact E|]. split; [exact R|lia]. }
          intros o _. destruct (n1 <? en) eqn:E1; [|exact I]. apply Nat.ltb_lt in E1.
          eapply gd2_bind; [apply strict_gd2, nxv_strict; destruct R; lia|]. intros _ _.
          eapply gd2_bind.
          { eapply gd2_mono; [apply (IA sh (KVal n1) (en - n1))| |intros x H; exact H].
            - exists en. split; [exact E1|]. split; [exact R2|lia].
            - revert Hn. unfold mu; cbn [tsize sdepth andb]; destruct hb; lia. }
          intros; exact I.
        + eapply gd2_bind; [eapply gd2_mono; [apply (IB ShAny st en R)|revert Hn; unfold mu; cbn [tsize sdepth andb]; destruct hb; lia|intros x H; exact H]|].
          intros; exact I.
      - destruct Hv as [Hm Hn]. destruct (wmode_of sh) as [m|] eqn:Em; [|exact I].
        eapply gd2_bind.
        { eapply gd2_mono; [apply (ID m (acc0 m) st en (mu hb sh) (acc0_ok m) Hm)| |intros x H; exact H].
          - intros c Hc. eapply mu_child; eauto.
          - lia. }
        intros a Ha. eapply strict_gd2, strict_mono; [apply finish_strict; exact Ha|]. intros; exact I.
      - destruct sh; try exact I. unfold omap. cbn [tvb] in Hv.
        eapply gd2_bind; [eapply gd2_mono; [apply (IA sh (KVal vi) n Hv)|unfold mu; cbn [tsize sdepth]; destruct hb; lia|intros x H; exact H]|].
        intros; exact I.
      - destruct sh; try exact I. destruct Hv as [(n' & Hk') Hrest].
        eapply gd2_bind; [apply strict_gd2, (tape_visit_ok THStr (KVal vi) n' Hk')|]. intros vv Hvv.
        eapply gd2_bind with (P := fun _ => True).
        { destruct vv; try exact I. apply strict_gd2. unfold tvisit_variant. apply visit_variant_strict. }
        intros name _. destruct rest as [[st en]|]; [|exact I].
        destruct (st <? en) eqn:E; [|exact I]. apply Nat.ltb_lt in E.
        eapply gd2_bind; [apply strict_gd2, nxv_strict; lia|]. intros; exact I.
    Qed.

    Definition rec_f (f : nat) := fun sh k (_ : unit) => omap (fun v => (v, tt)) (de f sh k).
    Definition rec_op_f := fun k (_ : unit) =>
      do vo <- tape_visit decode parse_f64 t THStr k;
      match vo with TVPrim p => omap (fun o => (o, tt)) (visit_operator p) | _ => Err EC_DE end.

    Lemma twalk_S f m a ti en :
      twalk (S f) m a ti en =
      (do fn <- fields_next t ti en;
       match fn with
       | Some (key, op, vi, ti') =>
           let '(kb, knum) := key_info decode (KScalar key) in
           do r <- entry (rec_f f) rec_op_f m a kb knum (KOpVal (match op with Some o => o | None => Equal end) vi) tt;
           twalk f m (fst r) ti' en
       | None =>
           let '(rs, re) := remainder t ti en in
           do n <- values_len t (S (length t)) rs re;
           match n with
           | O => Ok a
           | S _ => do r <- entry (rec_f f) rec_op_f m a STR_REMAINDER false (KArr rs re) tt; Ok (fst r)
           end
       end).
    Proof. reflexivity. Qed.

    Lemma step_D f : PA f -> PD f -> PD (S f).
    Proof.
      intros IA ID m a ti en M Ha Hm HM. rewrite twalk_S.
      assert (Hent : forall kb knum x nx, kbound x nx ->
                (2 * msz ti en + M + 4 <= S f -> 2 * nx + M + 1 <= f) ->
                gd2 true (2 * msz ti en + M + 4 <= S f) (fun r : acc * unit => acc_ok m (fst r) /\ True)
                    (entry (rec_f f) rec_op_f m a kb knum x tt)).
      { intros kb knum x nx Hx Hf.
        apply (entry_ok2 (rec_f f) rec_op_f _ (fun _ => True) m a kb knum x tt Ha).
        - intros c Hc. unfold rec_f, omap.
          eapply gd2_bind; [eapply gd2_mono; [apply (IA c x nx Hx)|intros FFh; specialize (HM c Hc); lia|intros y H; exact H]|].
          intros; exact I.
        - unfold rec_op_f. eapply gd2_bind; [apply strict_gd2, (tape_visit_ok THStr x nx Hx)|].
          intros vo _. destruct vo; try exact I. unfold omap.
          eapply gd2_bind; [apply strict_gd2, visit_operator_strict|]. intros; exact I. }
      destruct (fields_next_cases ti en Hm) as [[E Hc]|(s & op & vi & n & E & L1 & L2 & L3 & Rv & Hm')];
        rewrite E; cbn [obind].
      - assert (Hrem : forall rs re, rng rs re -> re - rs <= msz ti en ->
                  gd2 true (2 * msz ti en + M + 4 <= S f) (acc_ok m)
                    (do n <- values_len t (S (length t)) rs re;
                     match n with
                     | O => Ok a
                     | S _ => do r <- entry (rec_f f) rec_op_f m a STR_REMAINDER false (KArr rs re) tt; Ok (fst r)
                     end)).
        { intros rs re R Hle. eapply gd2_bind; [apply strict_gd2, values_len_strict; exact R|].
          intros [|n'] _; [exact Ha|].
          eapply gd2_bind; [apply (Hent STR_REMAINDER false (KArr rs re) (re - rs + 1)); [split; [exact R|lia]|lia]|].
          intros r [H _]. exact H. }
        destruct Hc as [->|(L & Er & R)].
        + destruct Hm as (_ & _ & R). destruct (remainder t en en) as [rs re] eqn:Er. cbn [fst snd] in R.
          apply Hrem; [exact R|]. unfold msz, remspan. rewrite Er. cbn [fst snd]. lia.
        + rewrite Er. apply Hrem; [exact R|]. unfold msz. lia.
      - destruct (key_info decode (KScalar s)) as [kb knum].
        eapply gd2_bind.
        { apply (Hent kb knum (KOpVal (match op with Some o => o | None => Equal end) vi) (n - vi)).
          - exists n. split; [exact L2|]. split; [exact Rv|lia].
          - unfold msz. lia. }
        intros r [Hr _].
        eapply gd2_mono; [apply (ID m (fst r) n en M Hr Hm' HM)|unfold msz; lia|intros y H; exact H].
    Qed.

    Theorem tape_all : forall f, PA f /\ PB f /\ PC f /\ PD f.
    Proof.
      induction f as [|f (IA & IB & IC & ID)].
      - repeat split.
        + intros sh k n _. cbn. lia.
        + intros s ti en _. cbn. lia.
        + intros ss ti en SZ _ _. cbn. lia.
        + intros m a ti en M _ _ _. cbn. lia.
      - repeat split; [apply step_A|apply step_B|apply step_C|apply step_D]; assumption.
    Qed.

    (* the root MapAccess over st..en: for EVERY fuel *)
    Theorem de_root_ok fuel sh st en : map_ok st en ->
      gd2 true (2 * msz st en + mu hb sh + 4 <= fuel) (fun _ => True)
          (de_root decode parse_f64 fo t fuel sh st en).
    Proof.
      intros Hm. unfold de_root. destruct (wmode_of sh) as [m|] eqn:Em.
      2:{ destruct (thint_of sh); exact I. }
      assert (Hgo : gd2 true (2 * msz st en + mu hb sh + 4 <= fuel) (fun _ : dval => True)
                      (do a <- twalk fuel m (acc0 m) st en; finish m a)).
      { destruct (tape_all fuel) as (_ & _ & _ & ID).
        eapply gd2_bind.
        { eapply gd2_mono; [apply (ID m (acc0 m) st en (mu hb sh) (acc0_ok m) Hm)| |intros x H; exact H].
          - intros c Hc. eapply mu_child; eauto.
          - lia. }
        intros a Ha. eapply strict_gd2, strict_mono; [apply finish_strict; exact Ha|]. intros; exact I. }
      destruct (thint_of sh); try exact I; exact Hgo.
    Qed.
  End De.
End Tape.

(* ================================================================ the entry points *)
Definition tok_is_header (k : ttok) : bool := match k with THeader _ => true | _ => false end.
Definition has_header (t : ttape) : bool := existsb tok_is_header t.

Lemma has_header_hdr t vi : is_hdr t vi = true -> has_header t = true.
Proof.
  unfold is_hdr, has_header. destruct (nth_error t vi) as [k|] eqn:K; [|discriminate].
  intros H. apply existsb_exists. exists k. split; [eapply nth_error_In; eauto|]. destruct k; try discriminate; reflexivity.
Qed.

(* extra fuel a shape needs beyond shape_size: the Seq / Tuple nesting depth, and only on tapes with Header tokens *)
Definition seq_extra (t : ttape) (sh : shape) : nat := if has_header t then sdepth sh else 0.

(* the root MapAccess over any object body st..en of a well-formed tape, EVERY fuel *)
Theorem de_root_range_ok decode parse_f64 fo sh t fuel st en :
  (forall raw, wfl (cow_bytes (decode raw))) -> TapeWf.tape_wf t -> map_ok t st en ->
  gd2 true (2 * msz t st en + tsize sh + seq_extra t sh + 4 <= fuel) (fun _ => True)
      (TextDeTape.de_root decode parse_f64 fo t fuel sh st en).
Proof.
  intros Hdec WF Hm.
  eapply gd2_mono; [apply (de_root_ok t WF decode parse_f64 fo Hdec (has_header t) (has_header_hdr t) fuel sh st en Hm)| |intros; exact I].
  unfold mu, seq_extra. lia.
Qed.

(* the root deserializer on a whole well-formed tape, EVERY fuel *)
Theorem de_root_text_ok decode parse_f64 fo sh t fuel :
  (forall raw, wfl (cow_bytes (decode raw))) -> TapeWf.tape_wf t ->
  gd2 true (2 * length t + tsize sh + seq_extra t sh + 4 <= fuel) (fun _ => True)
      (TextDeTape.de_root decode parse_f64 fo t fuel sh 0 (length t)).
Proof.
  intros Hdec WF. destruct (map_ok_root t WF) as [Hm Hsz].
  eapply gd2_mono; [apply (de_root_range_ok decode parse_f64 fo sh t fuel 0 (length t) Hdec WF Hm)| |intros; exact I].
  rewrite Hsz. lia.
Qed.

Lemma seq_extra_le t sh : seq_extra t sh <= sdepth sh /\ sdepth sh <= tsize sh.
Proof. unfold seq_extra. pose proof (sdepth_le_tsize sh). destruct (has_header t); lia. Qed.

(* a shape-size-only form of the bound: twice the shape size always suffices *)
Corollary de_root_text_ok_2size decode parse_f64 fo sh t fuel :
  (forall raw, wfl (cow_bytes (decode raw))) -> TapeWf.tape_wf t ->
  gd2 true (2 * length t + 2 * tsize sh + 4 <= fuel) (fun _ => True)
      (TextDeTape.de_root decode parse_f64 fo t fuel sh 0 (length t)).
Proof.
  intros Hdec WF. eapply gd2_mono; [apply (de_root_text_ok decode parse_f64 fo sh t fuel Hdec WF)| |intros; exact I].
  pose proof (seq_extra_le t sh). lia.
Qed.

(* (1) deser_tape with its own fuel never panics / leaves memory bounds -- unconditional *)
Theorem deser_tape_text_nopanic decode parse_f64 fo sh t :
  (forall raw, wfl (cow_bytes (decode raw))) -> TapeWf.tape_wf t ->
  gd2 true False (fun _ => True) (TextDeTape.deser_tape decode parse_f64 fo sh t).
Proof.
  intros Hdec WF. unfold deser_tape.
  eapply gd2_mono; [apply (de_root_text_ok decode parse_f64 fo sh t _ Hdec WF)|intros []|intros; exact I].
Qed.

(* (2) ... and never runs out of its own fuel tape_fuel = 2 * length t + 2 * shape_size sh + 8: the full statement *)
Theorem deser_tape_text_ok decode parse_f64 fo sh t :
  (forall raw, wfl (cow_bytes (decode raw))) -> TapeWf.tape_wf t ->
  gd2 true True (fun _ => True) (TextDeTape.deser_tape decode parse_f64 fo sh t).
Proof.
  intros Hdec WF. unfold deser_tape, tape_fuel.
  eapply gd2_mono; [apply (de_root_text_ok_2size decode parse_f64 fo sh t _ Hdec WF)| |intros; exact I].
  intros _. lia.
Qed.

Theorem deser_tape_text_parse_ok decode parse_f64 fo sh input :
  (forall raw, wfl (cow_bytes (decode raw))) ->
  match TextTape.parse input with
  | Ok (t, _) => gd2 true True (fun _ => True) (TextDeTape.deser_tape decode parse_f64 fo sh t)
  | _ => True
  end.
Proof.
  intros Hdec. destruct (TextTape.parse input) as [[t bom]| | | |] eqn:E; try exact I.
  apply deser_tape_text_ok; [exact Hdec|]. exact (JV.proofs.TextTapeGrammarProofs.parse_tape_wf input t bom E).
Qed.

(* the finer bound (kept): the ORIGINAL fuel 2 * length t + shape_size sh + 8 suffices when seq_extra t sh <= 4,
   i.e. when the tape has no Header token or ShSeq / ShTup are nested at most 4 deep; the hypothesis could not be
   dropped for that fuel ([old_tape_fuel_insufficient]) *)
Theorem de_root_old_fuel_ok decode parse_f64 fo sh t :
  (forall raw, wfl (cow_bytes (decode raw))) -> TapeWf.tape_wf t -> seq_extra t sh <= 4 ->
  gd2 true True (fun _ => True)
      (TextDeTape.de_root decode parse_f64 fo t (2 * length t + TextDeCommon.shape_size sh + 8) sh 0 (length t)).
Proof.
  intros Hdec WF Hd.
  eapply gd2_mono; [apply (de_root_text_ok decode parse_f64 fo sh t _ Hdec WF)| |intros; exact I].
  intros _. lia.
Qed.

(* implied by deser_tape_text_ok since the repair of tape_fuel; kept because the objreader theorem is stated with it *)
Theorem deser_tape_text_ok_partial decode parse_f64 fo sh t :
  (forall raw, wfl (cow_bytes (decode raw))) -> TapeWf.tape_wf t -> seq_extra t sh <= 4 ->
  gd2 true True (fun _ => True) (TextDeTape.deser_tape decode parse_f64 fo sh t).
Proof. intros Hdec WF _. apply deser_tape_text_ok; assumption. Qed.

Corollary deser_tape_text_ok_noheader decode parse_f64 fo sh t :
  (forall raw, wfl (cow_bytes (decode raw))) -> TapeWf.tape_wf t -> has_header t = false ->
  gd2 true True (fun _ => True) (TextDeTape.deser_tape decode parse_f64 fo sh t).
Proof.
  intros Hdec WF Hh. apply deser_tape_text_ok_partial; auto. unfold seq_extra. rewrite Hh. lia.
Qed.

Corollary deser_tape_text_ok_depth4 decode parse_f64 fo sh t :
  (forall raw, wfl (cow_bytes (decode raw))) -> TapeWf.tape_wf t -> sdepth sh <= 4 ->
  gd2 true True (fun _ => True) (TextDeTape.deser_tape decode parse_f64 fo sh t).
Proof.
  intros Hdec WF Hd. apply deser_tape_text_ok_partial; auto. pose proof (seq_extra_le t sh). lia.
Qed.

(* for every input of the text parser: never Panic / OOB; OutOfFuel only if seq_extra t sh > 4 *)
Theorem deser_tape_text_parse decode parse_f64 fo sh input :
  (forall raw, wfl (cow_bytes (decode raw))) ->
  match TextTape.parse input with
  | Ok (t, _) =>
      gd2 true (seq_extra t sh <= 4) (fun _ => True) (TextDeTape.deser_tape decode parse_f64 fo sh t)
  | _ => True
  end.
Proof.
  intros Hdec. destruct (TextTape.parse input) as [[t bom]| | | |] eqn:E; try exact I.
  pose proof (JV.proofs.TextTapeGrammarProofs.parse_tape_wf input t bom E) as WF.
  unfold deser_tape, tape_fuel.
  eapply gd2_mono; [apply (de_root_text_ok decode parse_f64 fo sh t _ Hdec WF)| |intros; exact I].
  intros Hd. lia.
Qed.

(* ---------- the counterexample to the model's own fuel ---------- *)
Fixpoint seq_n (k : nat) (s : shape) : shape := match k with O => s | S k' => ShSeq (seq_n k' s) end.
Definition cex_input : bytes := [97; 61; 114; 103; 98; 123; 123; 125; 125]%N.      (* a=rgb{{}} *)
Definition cex_tape : ttape := [TUnquoted [97%N]; THeader [114; 103; 98]%N; TArray 3 false; TEnd 2].
Definition cex_shape : shape := ShMap (seq_n 16 ShIgn).
Definition cex_dec (raw : bytes) : cow := Borrowed raw.
Definition cex_pf (raw : bytes) : outcome N := Err 1%N.
Definition cex_fo : fops := mkfops (fun x => x) (fun x => x) (fun _ => 0%N) (fun _ => 0%N).

Definition old_tape_fuel (sh : shape) (t : ttape) : nat := 2 * length t + TextDeCommon.shape_size sh + 8.
Example old_tape_fuel_insufficient :
  TextTape.parse cex_input = Ok (cex_tape, false) /\
  TextDeTape.de_root cex_dec cex_pf cex_fo cex_tape (old_tape_fuel cex_shape cex_tape) cex_shape 0 (length cex_tape) = OutOfFuel /\
  is_ok (TextDeTape.deser_tape cex_dec cex_pf cex_fo cex_shape cex_tape) = true /\
  seq_extra cex_tape cex_shape = 16.
Proof. repeat split; vm_compute; reflexivity. Qed.

(* ================================================================ ObjectReader::deserialize (harness path objreader@k) *)
Lemma nth_field_total t : TapeWf.tape_wf t -> forall fuel k ti en, map_ok t ti en -> en - ti < fuel ->
  exists o, nth_field t fuel k ti en = Ok o /\
    match o with Some vi => exists n, vi < n /\ rng t vi n | None => True end.
Proof.
  intros WF. induction fuel as [|fuel IH]; intros k ti en Hm Hf; [lia|].
  cbn [nth_field].
  destruct (fields_next_cases t WF ti en Hm) as [[E _]|(s & op & vi & n & E & L1 & L2 & L3 & Rv & Hm')];
    rewrite E; cbn [obind].
  - exists None. split; [reflexivity|exact I].
  - destruct k as [|k'].
    + exists (Some vi). split; [reflexivity|]. exists n. split; assumption.
    + apply IH; [exact Hm'|lia].
Qed.

(* Panic 9101 is the harness's own `expect` on a missing field k: it is returned exactly when the root
   object has no k-th field; otherwise the reader path behaves like the root path *)
Theorem deser_objreader_text_ok decode parse_f64 fo sh t k :
  (forall raw, wfl (cow_bytes (decode raw))) -> TapeWf.tape_wf t ->
  match k with
  | None => gd2 true True (fun _ => True) (TextDeTape.deser_objreader decode parse_f64 fo sh t None)
  | Some k' =>
      exists o, nth_field t (S (length t)) k' 0 (length t) = Ok o /\
        match o with
        | Some _ => gd2 true True (fun _ => True)
                        (TextDeTape.deser_objreader decode parse_f64 fo sh t (Some k'))
        | None => TextDeTape.deser_objreader decode parse_f64 fo sh t (Some k') = Panic 9101%N
        end
  end.
Proof.
  intros Hdec WF. destruct k as [k'|]; cbn [deser_objreader].
  2:{ unfold deser_tape, tape_fuel.
      eapply gd2_mono; [apply (de_root_text_ok decode parse_f64 fo sh t _ Hdec WF)|intros _; pose proof (seq_extra_le t sh); lia|intros; exact I]. }
  destruct (map_ok_root t WF) as [Hm0 _].
  destruct (nth_field_total t WF (S (length t)) k' 0 (length t) Hm0 ltac:(lia)) as (o & E & Ho).
  exists o. split; [exact E|]. rewrite E. cbn [obind]. destruct o as [vi|]; [|reflexivity].
  destruct Ho as (n & L & [D B]).
  destruct (nth_error t vi) as [tk|] eqn:K; [|apply nth_error_None in K; lia].
  rewrite (tget_some t vi tk K). cbn [obind].
  assert (Hgo : forall st en, map_ok t st en -> msz t st en <= length t ->
            gd2 true True (fun _ : dval => True)
                (de_root decode parse_f64 fo t (tape_fuel sh t) sh st en)).
  { intros st en Hm Hsz.
    eapply gd2_mono; [apply (de_root_range_ok decode parse_f64 fo sh t _ st en Hdec WF Hm)| |intros; exact I].
    intros _. unfold tape_fuel. pose proof (seq_extra_le t sh). lia. }
  destruct tk; cbn [read_object]; try exact I.
  - destruct (map_ok_arr t WF _ _ _ K) as (M1 & M2 & M3 & M4). apply Hgo; [exact M1|lia].
  - destruct (map_ok_obj t WF _ _ _ K) as (M1 & M2 & M3 & M4). apply Hgo; [exact M1|lia].
Qed.

Print Assumptions deser_tape_text_parse.
Print Assumptions deser_tape_text_ok_partial.
Print Assumptions deser_objreader_text_ok.
Print Assumptions old_tape_fuel_insufficient.
Print Assumptions deser_tape_text_ok.
