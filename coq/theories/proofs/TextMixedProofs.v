(* C01, wave 5 (w_c01): parse (render d l) = Ok (flatten d, bom l) for the documents of TextDocMixed.v
   (containers inside mixed regions, classes E2 / E3 of audit/C01.md).

   PLAN.  TextParseProofs.v proves the theorem for `wf_doc` by a mutual induction over the document (full_all) whose
   per-construct lemmas are stated as "the machine reaches ..." (Vlemma / Blemma / FRlemma / F1lemma / Flemma / Ilemma).
   Those statements do not mention `wf_doc`; only a handful of their PROOFS do (through value_first / body_first /
   items_first / T_all / KV_all).  So:
   1. re-prove the first-token facts for `wfm_*` (value_first_m, body_first_m, arr_rest_first);
   2. new token step: a scalar directly after `{` in state ParseOpen with mixed_mode = TRUE (writes the parent's
      mixed flag) -- step_open_scalar_mixed;
   3. every container is cut into "first token" + "rest, up to and including the closing brace", the rest being
      parametrised by what `restore` will return at the close (ARlemma for arrays / key-value lists, OEg for the tail of
      an object): the same rest lemma then serves the ordinary contexts (Blemma, restore = (Key | ArrayValue, false))
      and the mixed context (MBlemma, restore = (ArrayValue, true));
   4. members of a mixed region: MVlemma (one value), MIlemma (bare values), MKVlemma (key op value triples), all
      with the parent's token `ctok a gp f` kept abstract in its flag (the close overwrites it);
   5. the mutual induction full_all_m over `wfm_*`, reusing V_scalar, V_of_B, B_array_nil, B_object_gen, OH_field,
      OH_paramV, OH_paramO, F1_field, F1_paramV, F1_paramO, F_cons, I_cons of TextParseProofs unchanged;
   6. parse_render_mixed, and wf_wfm: every wf_doc document is a wf_doc_mixed document (so the new theorem
      subsumes C01_parse_render). *)
From JV Require Import Bytes Tables TextTok TextTape TextDoc TextDocMixed.
From JV.proofs Require Import TextScanProofs TextParseProofs.
From Coq Require Import Lia List Arith.
Import ListNotations.
Open Scope nat_scope.

(* ------------------------------------------------------------------ 1. first tokens under wfm *)
Lemma value_first_m v more : wfm_value v = true -> tok_starts value_start (toks_value v ++ more).
Proof.
  intros H. destruct v; cbn [toks_value app tok_starts lbrace fst].
  - cbn [wfm_value] in H. destruct (scalar_bytes_hd _ _ H) as (c & r & E & Hc). exists c, r. split; [exact E | left; exact Hc].
  - exists 123%N, []. split; [reflexivity | right; reflexivity].
  - exists 123%N, []. split; [reflexivity | right; reflexivity].
  - exists 123%N, []. split; [reflexivity | right; reflexivity].
  - cbn [wfm_value] in H. repeat (apply andb_prop in H; destruct H as [H ?]).
    destruct (scalar_bytes_hd Unq name (wf_word_unq name H)) as (c & r & E & Hc). exists c, r. split; [exact E | left; exact Hc].
Qed.

Lemma field_first_m f more : wfm_field f = true ->
  tok_starts (fun c => scalar_start c = true \/ c = 91%N) (toks_field f ++ more).
Proof.
  destruct f; cbn [toks_field app tok_starts wfm_field fst stok].
  - intros H. repeat (apply andb_prop in H; destruct H as [H ?]).
    destruct (scalar_bytes_hd _ _ H) as (c & r & E & Hc). exists c, r. split; [exact E | left; exact Hc].
  - intros _. eexists _, _. split; [reflexivity | right; reflexivity].
  - intros _. eexists _, _. split; [reflexivity | right; reflexivity].
Qed.

Lemma body_first_m v more : wfm_value v = true -> is_container v = true -> is_empty_array v = false ->
  tok_starts body_start (tl (toks_value v) ++ more).
Proof.
  intros Hwf Hc Hne. destruct v as [| fs tlv | items | items kvs |]; try discriminate; cbn [toks_value tl wfm_value] in *.
  - andb_split. destruct fs as [|f fs]; [discriminate|]. cbn [toks_fields wfm_fields] in *. andb_split.
    rewrite <- !app_assoc. eapply tok_starts_impl; [|apply field_first_m; eassumption].
    intros c [Hx| ->]; [left; exact Hx | right; right; reflexivity].
  - destruct items as [|v vs]; [discriminate|]. cbn [toks_values wfm_items] in *. andb_split.
    rewrite <- !app_assoc. eapply tok_starts_impl; [|apply value_first_m; eassumption].
    intros c [Hx| ->]; [left; exact Hx | right; left; reflexivity].
  - andb_split. destruct items as [|v vs]; [discriminate|]. cbn [toks_values wfm_items] in *. andb_split.
    rewrite <- !app_assoc. eapply tok_starts_impl; [|apply value_first_m; eassumption].
    intros c [Hx| ->]; [left; exact Hx | right; left; reflexivity].
Qed.

(* what follows an item of an array: an item, the key of a key-value triple, or the closing brace *)
Lemma arr_rest_first vs kvs more : wfm_items vs = true -> wfm_kvs kvs = true ->
  tok_starts (fun c => value_start c \/ c = 125%N) (toks_values vs ++ toks_fields kvs ++ rbrace :: more).
Proof.
  intros Hi Hk. destruct vs as [|v vs]; cbn [toks_values app wfm_items] in *.
  - destruct kvs as [|f kvs]; cbn [toks_fields app].
    + exists 125%N, []. split; [reflexivity | right; reflexivity].
    + destruct f as [k key op v| |]; try discriminate. cbn [wfm_kvs toks_field app] in *. andb_split.
      destruct (scalar_bytes_hd k key ltac:(assumption)) as (c & r & E & Hc). exists c, r. split; [exact E | left; left; exact Hc].
  - andb_split. rewrite <- app_assoc. eapply tok_starts_impl; [|apply value_first_m; assumption]. intros c Hc. left. exact Hc.
Qed.

(* operator + value, from the value lemma (FR_of_V with wfm) *)
Lemma FR_of_V_m op v : wfm_value v = true -> (op = None -> is_container v = true) -> Vlemma CObj v -> FRlemma op v.
Proof.
  intros Hwf Hop HV g i more T p Hg Hsep Hctx. destruct op as [o|]; cbn [optok app op_toks] in *.
  - cbn [sep_ok] in Hsep. destruct Hsep as [_ Hsep]. rewrite render_toks_cons. cbn [fst].
    eapply reaches_trans.
    { apply reach_kvs_op; [apply Hg|]. apply render_hdP; [exact Hg | | discriminate |].
      - intros c Hc ->. discriminate.
      - eapply tok_starts_impl; [|apply value_first_m; exact Hwf].
        intros c [Hc| ->]; [|discriminate]. intros ->. discriminate. }
    eapply reaches_eq; [apply (HV g (S i) more (T ++ op_toks false (Some o)) p Hg Hsep); apply ctx_ok_app; exact Hctx|].
    rewrite app_length, <- app_assoc. cbn [length]. f_equal. f_equal. lia.
  - specialize (Hop eq_refl).
    assert (exists body, toks_value v = lbrace :: body) as (body & Ebody) by (destruct v; try discriminate; eexists; reflexivity).
    assert (Hd : render_toks g (toks_value v ++ more) i = g i ++ 123%N :: render_toks g (body ++ more) (S i))
      by (rewrite Ebody; reflexivity).
    eapply reaches_trans.
    { rewrite Hd. apply reach_kvs_brace. apply Hg. }
    rewrite <- Hd.
    eapply reaches_eq; [apply (HV g i more T p Hg Hsep Hctx)|].
    cbn [length app]. rewrite !Nat.add_0_r. reflexivity.
Qed.

Lemma V_header_m name v :
  wf_unq name = true -> wfm_value v = true -> is_container v = true -> is_empty_array v = false ->
  Blemma CObj v -> Vlemma CObj (VHeader name v).
Proof.
  intros Hname Hwf Hcont Hne HB g i more T p Hg Hsep Hctx.
  assert (exists body, toks_value v = lbrace :: body) as (body & Ebody) by (destruct v; try discriminate; eexists; reflexivity).
  unfold Blemma in HB. cbn [toks_value app length] in *. rewrite Ebody in *. cbn [tl app length] in *.
  cbn [sep_ok] in Hsep. destruct Hsep as (Hs & _ & Hsep).
  rewrite !render_toks_cons. cbn [fst lbrace app].
  eapply reaches_trans.
  { apply (reach_objval_scalar (g i) Unq name _ false p T (Hg i) Hname). intros _. apply Hs. reflexivity. }
  destruct (render_skip _ g _ (S (S i)) Hg body_start_sig (body_first_m v more Hwf Hcont Hne)) as (c2 & r2 & Hsk & Hc2).
  rewrite Ebody in Hsk. cbn [tl] in Hsk.
  eapply reaches_trans.
  { apply (reach_key_header (g (S i)) _ false p T name c2 r2 (Hg _) Hsk). apply body_start_not_close. exact Hc2. }
  eapply reaches_eq.
  { replace (T ++ [THeader name; TArray 0 false]) with ((T ++ [THeader name]) ++ [TArray 0 false]) by (rewrite <- app_assoc; reflexivity).
    apply (HB g (S (S i)) more (T ++ [THeader name]) p Hg Hsep). apply ctx_ok_app. exact Hctx. }
  cbn [flat_value post_st]. rewrite app_length. cbn [length]. tape_eq.
Qed.

(* ------------------------------------------------------------------ 2. the first scalar of a container nested in a mixed region *)
(* the token of the enclosing (mixed) container: kind a, grand-parent slot gp, mixed flag f *)
Definition ctok (a : bool) (gp : nat) (f : bool) : ttok := if a then TArray gp f else TObject gp f.

Lemma length_mid {A} (T0 : list A) x y U : length (T0 ++ x :: U) = length (T0 ++ y :: U).
Proof. rewrite !app_length. reflexivity. Qed.

(* ParseOpen with mixed_mode = true: the scalar is pushed, `parent.mixed = true` is written into the tape, then the
   next significant byte decides object / array exactly as in the ordinary case *)
Lemma step_open_scalar_mixed g k s rest T0 a gp f U x c2 r2 :
  gap_ok g -> wf_scalar k s = true -> (k = Unq -> starts_boundary rest) ->
  skip_ws_t rest = Some (c2 :: r2) ->
  step (mkps (g ++ scalar_bytes k s ++ rest) SOpen true (length T0) ((T0 ++ ctok a gp f :: U) ++ [x])) =
  Next (if obj_byte c2
        then mkps (c2 :: r2) SKvs false (length (T0 ++ ctok a gp true :: U))
                  ((T0 ++ ctok a gp true :: U) ++ [TObject (length T0) false; scalar_tok k s])
        else mkps (c2 :: r2) SArrVal false (length (T0 ++ ctok a gp true :: U))
                  ((T0 ++ ctok a gp true :: U) ++ [TArray (length T0) false; scalar_tok k s])).
Proof.
  intros Hg Hwf Hsep Hsk. destruct (scalar_step_ok k s rest Hwf Hsep) as (c & d1 & -> & Hst & Hstep).
  use_start Hst. unfold step. cbn [pdata pst_ pmixed pparent ptape].
  rewrite skip_ws_gap_sig by assumption. rewrite H125, H91, H123, Hstep.
  unfold tpush, tget.
  assert (E1 : ((T0 ++ ctok a gp f :: U) ++ [x]) ++ [scalar_tok k s] = T0 ++ ctok a gp f :: (U ++ [x; scalar_tok k s])).
  { rewrite <- !app_assoc. cbn [app]. rewrite <- ?app_assoc. reflexivity. }
  rewrite E1, nth_error_mid.
  assert (E2 : match ctok a gp f with
               | TArray e _ => match tset (T0 ++ ctok a gp f :: U ++ [x; scalar_tok k s]) (length T0) (TArray e true) with Some y => y | None => T0 ++ ctok a gp f :: U ++ [x; scalar_tok k s] end
               | TObject e _ => match tset (T0 ++ ctok a gp f :: U ++ [x; scalar_tok k s]) (length T0) (TObject e true) with Some y => y | None => T0 ++ ctok a gp f :: U ++ [x; scalar_tok k s] end
               | _ => T0 ++ ctok a gp f :: U ++ [x; scalar_tok k s]
               end = (T0 ++ ctok a gp true :: U) ++ [x; scalar_tok k s]).
  { destruct a; cbn [ctok]; rewrite tset_app, <- app_assoc; reflexivity. }
  rewrite E2, Hsk.
  assert (Hlen : length ((T0 ++ ctok a gp true :: U) ++ [x; scalar_tok k s]) = S (S (length (T0 ++ ctok a gp true :: U))))
    by (rewrite app_length; cbn [length]; lia).
  rewrite Hlen. cbn [Nat.ltb Nat.leb Nat.sub]. rewrite Nat.sub_0_r.
  unfold obj_byte. destruct (beq c2 61 || beq c2 62 || beq c2 60); rewrite tset_app; reflexivity.
Qed.

Lemma reach_open_scalar_mixed g k s rest T0 a gp f U x c2 r2 :
  gap_ok g -> wf_scalar k s = true -> (k = Unq -> starts_boundary rest) ->
  skip_ws_t rest = Some (c2 :: r2) ->
  reaches (mkps (g ++ scalar_bytes k s ++ rest) SOpen true (length T0) ((T0 ++ ctok a gp f :: U) ++ [x]))
          (if obj_byte c2
           then mkps rest SKvs false (length (T0 ++ ctok a gp true :: U))
                     ((T0 ++ ctok a gp true :: U) ++ [TObject (length T0) false; scalar_tok k s])
           else mkps rest SArrVal false (length (T0 ++ ctok a gp true :: U))
                     ((T0 ++ ctok a gp true :: U) ++ [TArray (length T0) false; scalar_tok k s])).
Proof.
  intros Hg Hwf Hsep Hsk. eapply reaches_step; [apply step_open_scalar_mixed; eassumption | |].
  - destruct (obj_byte c2); repeat split; cbn [pdata]; apply skip_ws_idem; exact Hsk.
  - destruct (scalar_bytes_hd _ _ Hwf) as (ck & rk & Ek & _).
    destruct (obj_byte c2); meas_tac; rewrite Ek; cbn [length]; lia.
Qed.

(* what `restore` returns when a container nested in a mixed region (flag written) closes *)
Lemma restore_mixed T0 a gp U X : restore ((T0 ++ ctok a gp true :: U) ++ X) (length T0) = (SArrVal, true).
Proof. unfold restore, tget. rewrite nth_error_mid2. destruct a; reflexivity. Qed.

Lemma mixed_tape_ne {A} (T0 : list A) x U : T0 ++ x :: U <> [].
Proof. intros E. apply app_eq_nil in E. destruct E; discriminate. Qed.

Lemma reaches_start_eq a a' b : a = a' -> reaches a' b -> reaches a b.
Proof. intros ->. exact (fun H => H). Qed.

(* ------------------------------------------------------------------ 3. members of a mixed region *)
(* the flag of the enclosing container's token is existentially quantified: a nested container sets it, the
   closing brace of the mixed container overwrites it with mixed_mode anyway *)
Definition MVlemma (v : value) : Prop :=
  forall g i more T0 a gp f U, (forall j, gap_ok (g j)) -> sep_ok g (toks_value v ++ more) i ->
  exists f',
  reaches (mkps (render_toks g (toks_value v ++ more) i) SArrVal true (length T0) (T0 ++ ctok a gp f :: U))
          (mkps (render_toks g more (i + length (toks_value v))) SArrVal true (length T0)
                (T0 ++ ctok a gp f' :: U ++ flat_value (length T0 + 1 + length U) v)).

(* after the opening brace has been consumed and the placeholder pushed, mixed_mode = true *)
Definition MBlemma (v : value) : Prop :=
  forall g i more T0 a gp f U, (forall j, gap_ok (g j)) -> sep_ok g (tl (toks_value v) ++ more) i ->
  reaches (mkps (render_toks g (tl (toks_value v) ++ more) i) SOpen true (length T0) ((T0 ++ ctok a gp f :: U) ++ [TArray 0 false]))
          (mkps (render_toks g more (i + length (tl (toks_value v)))) SArrVal true (length T0)
                (T0 ++ ctok a gp true :: U ++ flat_value (length T0 + 1 + length U) v)).

Definition MIlemma (vs : values) : Prop :=
  forall g i more T0 a gp f U, (forall j, gap_ok (g j)) -> sep_ok g (toks_values vs ++ more) i ->
  exists f',
  reaches (mkps (render_toks g (toks_values vs ++ more) i) SArrVal true (length T0) (T0 ++ ctok a gp f :: U))
          (mkps (render_toks g more (i + length (toks_values vs))) SArrVal true (length T0)
                (T0 ++ ctok a gp f' :: U ++ flat_values (length T0 + 1 + length U) vs)).

Definition MKVlemma (kvs : fields) : Prop :=
  forall g i more T0 a gp f U, (forall j, gap_ok (g j)) -> sep_ok g (toks_fields kvs ++ more) i ->
  exists f',
  reaches (mkps (render_toks g (toks_fields kvs ++ more) i) SArrVal true (length T0) (T0 ++ ctok a gp f :: U))
          (mkps (render_toks g more (i + length (toks_fields kvs))) SArrVal true (length T0)
                (T0 ++ ctok a gp f' :: U ++ flat_fields true (length T0 + 1 + length U) kvs)).

Lemma MV_scalar k s : wf_scalar k s = true -> MVlemma (VScalar k s).
Proof.
  intros Hwf g i more T0 a gp f U Hg Hsep. exists f. cbn [toks_value app length flat_value] in *.
  cbn [sep_ok] in Hsep. destruct Hsep as [Hs _]. rewrite render_toks_cons. cbn [fst stok].
  eapply reaches_eq.
  { apply (reach_arrval_scalar (g i) k s _ true (length T0) _ (Hg i) Hwf). intros ->. apply Hs. reflexivity. }
  unfold tpush. rewrite Nat.add_1_r. tape_eq.
Qed.

Lemma MV_of_MB v : is_container v = true -> MBlemma v -> MVlemma v.
Proof.
  intros Hc HB g i more T0 a gp f U Hg Hsep. exists true.
  assert (exists body, toks_value v = lbrace :: body) as (body & Ebody) by (destruct v; try discriminate; eexists; reflexivity).
  unfold MBlemma in HB. rewrite Ebody in *. cbn [tl app length] in *.
  cbn [sep_ok] in Hsep. destruct Hsep as [_ Hsep].
  rewrite render_toks_cons. cbn [fst lbrace app].
  eapply reaches_trans; [apply (reach_val_open false (g i) _ true (length T0) _ (Hg i))|].
  unfold tpush.
  eapply reaches_eq; [apply (HB g (S i) more T0 a gp f U Hg Hsep)|].
  f_equal. f_equal. lia.
Qed.

Lemma MI_nil : MIlemma VNil.
Proof.
  intros g i more T0 a gp f U Hg Hsep. exists f. cbn [toks_values app length flat_values]. rewrite Nat.add_0_r, app_nil_r. apply reaches_refl.
Qed.

Lemma MI_cons v vs : MVlemma v -> MIlemma vs -> MIlemma (VCons v vs).
Proof.
  intros HV HI g i more T0 a gp f U Hg Hsep.
  cbn [toks_values] in *. rewrite <- ?app_assoc in *.
  destruct (HV g i (toks_values vs ++ more) T0 a gp f U Hg Hsep) as (f1 & R1).
  apply sep_ok_app in Hsep.
  destruct (HI g _ more T0 a gp f1 (U ++ flat_value (length T0 + 1 + length U) v) Hg Hsep) as (f2 & R2).
  exists f2. eapply reaches_trans; [exact R1|].
  eapply reaches_eq; [exact R2|].
  cbn [flat_values]. rewrite !app_length. tape_eq.
Qed.

Lemma MKV_nil : MKVlemma FNil.
Proof.
  intros g i more T0 a gp f U Hg Hsep. exists f. cbn [toks_fields app length flat_fields]. rewrite Nat.add_0_r, app_nil_r. apply reaches_refl.
Qed.

Lemma value_not_eq_hd g v more i : (forall j, gap_ok (g j)) -> wfm_value v = true ->
  hdP (fun c => c <> 61%N) (render_toks g (toks_value v ++ more) i).
Proof.
  intros Hg Hwf. apply render_hdP; [exact Hg | | discriminate |].
  - intros c Hc ->. discriminate.
  - eapply tok_starts_impl; [|apply value_first_m; exact Hwf].
    intros c [Hc| ->]; [|discriminate]. intros ->. discriminate.
Qed.

Lemma MKV_cons k key o v kvs :
  wf_scalar k key = true -> o <> TextTok.Exists -> wfm_value v = true -> MVlemma v -> MKVlemma kvs ->
  MKVlemma (FCons (Field k key (Some o) v) kvs).
Proof.
  intros Hkey Ho Hwfv HV HK g i more T0 a gp f U Hg Hsep.
  cbn [toks_fields toks_field optok app] in *. rewrite <- ?app_assoc in *. cbn [app] in *.
  cbn [sep_ok] in Hsep. destruct Hsep as (Hs1 & _ & Hsep).
  rewrite !render_toks_cons. cbn [fst stok].
  destruct (HV g (S (S i)) (toks_fields kvs ++ more) T0 a gp f (U ++ [scalar_tok k key; TOperator o]) Hg Hsep) as (f1 & R1).
  pose proof (sep_ok_app _ _ _ _ Hsep) as Hsep2.
  destruct (HK g _ more T0 a gp f1 ((U ++ [scalar_tok k key; TOperator o]) ++
              flat_value (length T0 + 1 + length (U ++ [scalar_tok k key; TOperator o])) v) Hg Hsep2) as (f2 & R2).
  exists f2.
  eapply reaches_trans.
  { apply (reach_arrval_scalar (g i) k key _ true (length T0) _ (Hg i) Hkey). intros ->. apply Hs1. reflexivity. }
  eapply reaches_trans.
  { unfold tpush. apply (reach_arrval_op (g (S i)) o _ true (length T0) _ _ (Hg _) Ho); [|apply is_scalar_tok_scalar].
    apply value_not_eq_hd; assumption. }
  eapply reaches_trans.
  { eapply reaches_start_eq; [|exact R1]. f_equal. rewrite <- !app_assoc. reflexivity. }
  eapply reaches_eq; [exact R2|].
  assert (E : op_toks true (Some o) = [TOperator o]) by (destruct o; reflexivity).
  cbn [flat_fields flat_field length]. rewrite E. rewrite ?app_length. cbn [length app]. rewrite ?app_length. cbn [length]. tape_eq.
Qed.

(* ------------------------------------------------------------------ 4. the rest of an array / key-value list, up to and including `}` *)
Definition kv_toks (off : nat) (kvs : fields) : ttape :=
  match kvs with FNil => [] | FCons _ _ => TMixedContainer :: flat_fields true (S off) kvs end.

(* from inside the array (token `TArray p false` at index |T|, U already read) to after its closing brace;
   (st', m') = what `restore` returns for the grand-parent p *)
Definition ARlemma (items : values) (kvs : fields) : Prop :=
  forall g i more T p U st' m', (forall j, gap_ok (g j)) ->
  sep_ok g (toks_values items ++ toks_fields kvs ++ rbrace :: more) i ->
  T <> [] -> (forall X, restore (T ++ X) p = (st', m')) ->
  reaches (mkps (render_toks g (toks_values items ++ toks_fields kvs ++ rbrace :: more) i) SArrVal false (length T) (T ++ TArray p false :: U))
          (mkps (render_toks g more (i + length (toks_values items) + length (toks_fields kvs) + 1)) st' m' p
                (T ++ TArray (length T + 1 + length U + vslen items + length (kv_toks (length T + 1 + length U + vslen items) kvs)) (kvs_nonempty kvs)
                   :: U ++ flat_values (length T + 1 + length U) items ++ kv_toks (length T + 1 + length U + vslen items) kvs ++ [TEnd (length T)])).

Lemma AR_nil items : Ilemma items -> ARlemma items FNil.
Proof.
  intros HI g i more T p U st' m' Hg Hsep HT Hr.
  cbn [toks_fields app length kv_toks kvs_nonempty] in *.
  eapply reaches_trans.
  { apply (HI g i (rbrace :: more) (T ++ TArray p false :: U) (length T) Hg Hsep). exists p. apply nth_error_mid. }
  apply sep_ok_app in Hsep. rewrite render_toks_cons. cbn [fst rbrace app].
  eapply reaches_eq.
  { rewrite <- app_assoc. cbn [app].
    apply (reach_arrval_close (g (i + length (toks_values items))) _ false T p false _ st' m' true (Hg _) HT). apply Hr. }
  rewrite !app_length. cbn [length app]. rewrite ?flat_values_len. tape_eq.
Qed.

Lemma AR_kv items k key o v kvs :
  Ilemma items -> wf_scalar k key = true -> o <> TextTok.Exists -> wfm_value v = true -> MVlemma v -> MKVlemma kvs ->
  ARlemma items (FCons (Field k key (Some o) v) kvs).
Proof.
  intros HI Hkey Ho Hwfv HV HK g i more T p U st' m' Hg Hsep HT Hr.
  cbn [toks_fields toks_field optok app kv_toks kvs_nonempty] in *. rewrite <- ?app_assoc in *. cbn [app] in *.
  eapply reaches_trans.
  { apply (HI g i _ (T ++ TArray p false :: U) (length T) Hg Hsep). exists p. apply nth_error_mid. }
  apply sep_ok_app in Hsep.
  cbn [sep_ok] in Hsep. destruct Hsep as (Hs1 & _ & Hsep).
  rewrite !render_toks_cons. cbn [fst stok].
  set (j := i + length (toks_values items)) in *.
  set (U1 := U ++ flat_values (length T + 1 + length U) items).
  (* the key, read as an array item *)
  eapply reaches_trans.
  { apply (reach_arrval_scalar (g j) k key _ false (length T) _ (Hg j) Hkey). intros ->. apply Hs1. reflexivity. }
  (* the operator: the array turns into a key-value list, the marker goes before the key *)
  eapply reaches_trans.
  { unfold tpush. apply (reach_arrval_op (g (S j)) o _ false (length T) _ _ (Hg _) Ho); [|apply is_scalar_tok_scalar].
    apply value_not_eq_hd; assumption. }
  cbv iota.
  destruct (HV g (S (S j)) (toks_fields kvs ++ rbrace :: more) T true p false (U1 ++ [TMixedContainer; scalar_tok k key; TOperator o]) Hg Hsep) as (f1 & R1).
  pose proof (sep_ok_app _ _ _ _ Hsep) as Hsep2.
  destruct (HK g _ (rbrace :: more) T true p f1 ((U1 ++ [TMixedContainer; scalar_tok k key; TOperator o]) ++
              flat_value (length T + 1 + length (U1 ++ [TMixedContainer; scalar_tok k key; TOperator o])) v) Hg Hsep2) as (f2 & R2).
  eapply reaches_trans.
  { eapply reaches_start_eq; [|exact R1]. unfold U1, ctok. f_equal. rewrite ?app_length. cbn [length]. tape_eq. }
  eapply reaches_trans; [exact R2|].
  rewrite render_toks_cons. cbn [fst rbrace app].
  eapply reaches_eq.
  { apply (reach_arrval_close (g _) _ true T p f2 _ st' m' true (Hg _) HT). apply Hr. }
  assert (E : op_toks true (Some o) = [TOperator o]) by (destruct o; reflexivity).
  unfold U1, j. cbn [flat_fields flat_field length]. rewrite E.
  rewrite ?app_length. cbn [length app]. rewrite ?app_length. cbn [length app].
  rewrite ?flat_values_len, ?flat_value_len, ?flat_fields_len. tape_eq.
Qed.

(* the tape of an array / key-value list that starts at index off *)
Definition arr_flat (off : nat) (items : values) (kvs : fields) : ttape :=
  TArray (off + 1 + vslen items + length (kv_toks (off + 1 + vslen items) kvs)) (kvs_nonempty kvs)
    :: flat_values (S off) items ++ kv_toks (off + 1 + vslen items) kvs ++ [TEnd off].

Lemma arr_flat_array off items : flat_value off (VArray items) = arr_flat off items FNil.
Proof. unfold arr_flat. cbn [flat_value kv_toks kvs_nonempty length app]. rewrite flat_values_len. f_equal. f_equal. lia. Qed.

Lemma arr_flat_kv off items kvs : kvs_nonempty kvs = true -> flat_value off (VArrayKv items kvs) = arr_flat off items kvs.
Proof.
  intros H. destruct kvs as [|f kvs]; [discriminate|]. unfold arr_flat. cbn [flat_value kv_toks kvs_nonempty length app].
  rewrite !flat_values_len, !flat_fields_len. f_equal; [f_equal; lia|]. f_equal. f_equal. f_equal. f_equal. lia.
Qed.

Definition arr_toks (items : values) (kvs : fields) : list rtok := toks_values items ++ toks_fields kvs ++ [rbrace].

(* after `{` + placeholder, ordinary context *)
Definition ABlemma (c : vctx) (items : values) (kvs : fields) : Prop :=
  forall g i more T p, (forall j, gap_ok (g j)) -> sep_ok g (arr_toks items kvs ++ more) i -> ctx_ok c T p ->
  reaches (mkps (render_toks g (arr_toks items kvs ++ more) i) SOpen false p (T ++ [TArray 0 false]))
          (mkps (render_toks g more (i + length (arr_toks items kvs))) (post_st c) false p (T ++ arr_flat (length T) items kvs)).

(* after `{` + placeholder, inside a mixed region *)
Definition AMBlemma (items : values) (kvs : fields) : Prop :=
  forall g i more T0 a gp f U, (forall j, gap_ok (g j)) -> sep_ok g (arr_toks items kvs ++ more) i ->
  reaches (mkps (render_toks g (arr_toks items kvs ++ more) i) SOpen true (length T0) ((T0 ++ ctok a gp f :: U) ++ [TArray 0 false]))
          (mkps (render_toks g more (i + length (arr_toks items kvs))) SArrVal true (length T0)
                (T0 ++ ctok a gp true :: U ++ arr_flat (length T0 + 1 + length U) items kvs)).

Lemma B_of_AB_array c items : ABlemma c items FNil -> Blemma c (VArray items).
Proof. intros H g i more T p Hg Hsep Hctx. rewrite arr_flat_array. apply (H g i more T p Hg Hsep Hctx). Qed.

Lemma B_of_AB_kv c items kvs : kvs_nonempty kvs = true -> ABlemma c items kvs -> Blemma c (VArrayKv items kvs).
Proof. intros Hne H g i more T p Hg Hsep Hctx. rewrite arr_flat_kv by exact Hne. apply (H g i more T p Hg Hsep Hctx). Qed.

Lemma MB_of_AMB_array items : AMBlemma items FNil -> MBlemma (VArray items).
Proof. intros H g i more T0 a gp f U Hg Hsep. rewrite arr_flat_array. apply (H g i more T0 a gp f U Hg Hsep). Qed.

Lemma MB_of_AMB_kv items kvs : kvs_nonempty kvs = true -> AMBlemma items kvs -> MBlemma (VArrayKv items kvs).
Proof. intros Hne H g i more T0 a gp f U Hg Hsep. rewrite arr_flat_kv by exact Hne. apply (H g i more T0 a gp f U Hg Hsep). Qed.

Lemma ctx_restore_all c T p : ctx_ok c T p -> forall X, restore (T ++ X) p = (post_st c, false).
Proof. intros H X. apply (ctx_ok_restore c), ctx_ok_app, H. Qed.

(* first item a scalar *)
Lemma AB_scalar c k s vs kvs :
  wf_scalar k s = true -> wfm_items vs = true -> wfm_kvs kvs = true -> ARlemma vs kvs ->
  ABlemma c (VCons (VScalar k s) vs) kvs.
Proof.
  intros Hwf Hwfs Hwfk HAR g i more T p Hg Hsep Hctx. unfold arr_toks in *.
  cbn [toks_values toks_value app] in *. rewrite <- ?app_assoc in *. cbn [app] in *.
  cbn [sep_ok] in Hsep. destruct Hsep as [Hs Hsep]. rewrite render_toks_cons. cbn [fst stok].
  assert (Hb : k = Unq -> starts_boundary (render_toks g (toks_values vs ++ toks_fields kvs ++ rbrace :: more) (S i))) by (intros ->; apply Hs; reflexivity).
  destruct (render_skip _ g _ (S i) Hg value_start_or_close_sig (arr_rest_first vs kvs more Hwfs Hwfk)) as (c2 & r2 & Hsk & Hc2).
  eapply reaches_trans.
  { eapply reaches_eq; [apply (reach_open_scalar (g i) k s _ p T (TArray 0 false) c2 r2 (Hg i) Hwf Hb Hsk)|].
    rewrite (value_start_not_obj _ Hc2). reflexivity. }
  eapply reaches_eq.
  { apply (HAR g (S i) more T p [scalar_tok k s] (post_st c) false Hg Hsep); [eapply ctx_ok_ne; eassumption | apply ctx_restore_all; exact Hctx]. }
  unfold arr_flat, vslen. cbn [flat_values flat_value length app]. rewrite ?app_length. cbn [length app].
  rewrite ?flat_values_len. fold (vslen vs). tape_eq.
Qed.

(* first item a non-empty container *)
Lemma AB_cont c v vs kvs :
  wfm_value v = true -> is_container v = true -> is_empty_array v = false -> ARlemma (VCons v vs) kvs ->
  ABlemma c (VCons v vs) kvs.
Proof.
  intros Hwf Hcont Hne HAR g i more T p Hg Hsep Hctx. unfold arr_toks in *.
  rewrite <- ?app_assoc in *. cbn [app] in *.
  assert (exists body, toks_value v = lbrace :: body) as (body & Ebody) by (destruct v; try discriminate; eexists; reflexivity).
  assert (Hd : render_toks g (toks_values (VCons v vs) ++ toks_fields kvs ++ rbrace :: more) i =
               g i ++ 123%N :: render_toks g (body ++ toks_values vs ++ toks_fields kvs ++ rbrace :: more) (S i)).
  { cbn [toks_values]. rewrite Ebody. cbn [app]. rewrite <- app_assoc. reflexivity. }
  destruct (render_skip _ g _ (S i) Hg body_start_sig (body_first_m v (toks_values vs ++ toks_fields kvs ++ rbrace :: more) Hwf Hcont Hne))
    as (c2 & r2 & Hsk & Hc2).
  rewrite Ebody in Hsk. cbn [tl] in Hsk.
  eapply reaches_trans.
  { rewrite Hd. apply (reach_open_brace (g i) _ false p T (TArray 0 false) c2 r2 (Hg i) Hsk). apply body_start_not_close. exact Hc2. }
  rewrite <- Hd.
  eapply reaches_eq.
  { apply (HAR g i more T p [] (post_st c) false Hg Hsep); [eapply ctx_ok_ne; eassumption | apply ctx_restore_all; exact Hctx]. }
  unfold arr_flat. rewrite ?app_length. cbn [length app]. tape_eq.
Qed.

(* first item a scalar, inside a mixed region *)
Lemma AMB_scalar k s vs kvs :
  wf_scalar k s = true -> wfm_items vs = true -> wfm_kvs kvs = true -> ARlemma vs kvs ->
  AMBlemma (VCons (VScalar k s) vs) kvs.
Proof.
  intros Hwf Hwfs Hwfk HAR g i more T0 a gp f U Hg Hsep. unfold arr_toks in *.
  cbn [toks_values toks_value app] in *. rewrite <- ?app_assoc in *. cbn [app] in *.
  cbn [sep_ok] in Hsep. destruct Hsep as [Hs Hsep]. rewrite render_toks_cons. cbn [fst stok].
  assert (Hb : k = Unq -> starts_boundary (render_toks g (toks_values vs ++ toks_fields kvs ++ rbrace :: more) (S i))) by (intros ->; apply Hs; reflexivity).
  destruct (render_skip _ g _ (S i) Hg value_start_or_close_sig (arr_rest_first vs kvs more Hwfs Hwfk)) as (c2 & r2 & Hsk & Hc2).
  eapply reaches_trans.
  { eapply reaches_start_eq; [|eapply reaches_eq; [apply (reach_open_scalar_mixed (g i) k s _ T0 a gp f U (TArray 0 false) c2 r2 (Hg i) Hwf Hb Hsk)|]].
    - f_equal. rewrite <- ?app_assoc. reflexivity.
    - rewrite (value_start_not_obj _ Hc2). reflexivity. }
  eapply reaches_eq.
  { apply (HAR g (S i) more (T0 ++ ctok a gp true :: U) (length T0) [scalar_tok k s] SArrVal true Hg Hsep);
      [apply mixed_tape_ne | intros X; apply restore_mixed]. }
  unfold arr_flat, vslen. cbn [flat_values flat_value length app]. rewrite ?app_length. cbn [length app].
  rewrite ?flat_values_len. fold (vslen vs). tape_eq.
Qed.

(* ------------------------------------------------------------------ 5. the tail of an object, up to and including `}` *)
(* OElemma of TextParseProofs with the result of `restore` as a parameter *)
Definition OEg (tl : values) : Prop :=
  forall g i more T p U st' m', (forall j, gap_ok (g j)) -> sep_ok g (toks_values tl ++ rbrace :: more) i ->
  T <> [] -> (forall X, restore (T ++ X) p = (st', m')) ->
  reaches (mkps (render_toks g (toks_values tl ++ rbrace :: more) i) SKey false (length T) (T ++ TObject p false :: U))
          (mkps (render_toks g more (i + length (toks_values tl) + 1)) st' m' p
                (T ++ TObject (length T + 1 + length U + length (tail_toks (length T + 1 + length U) tl)) (values_nonempty tl)
                   :: U ++ tail_toks (length T + 1 + length U) tl ++ [TEnd (length T)])).

Lemma OE_of_OEg c tl : OEg tl -> OElemma c tl.
Proof.
  intros H g i more T p U Hg Hsep Hctx.
  apply (H g i more T p U (post_st c) false Hg Hsep); [eapply ctx_ok_ne; eassumption | apply ctx_restore_all; exact Hctx].
Qed.

Lemma OEg_nil : OEg VNil.
Proof.
  intros g i more T p U st' m' Hg Hsep HT Hr. cbn [toks_values app length tail_toks values_nonempty] in *.
  rewrite render_toks_cons. cbn [fst rbrace app].
  eapply reaches_eq; [apply (reach_key_close (g i) _ false T p U st' m' (Hg i) HT); apply Hr|].
  tape_eq.
Qed.

(* a scalar followed by something that does not start with '=' is never read as `? =` *)
Lemma scalar_not_exists_op k s rest : wf_scalar k s = true -> hdP (fun x => x <> 61%N) rest ->
  exists c d1, scalar_bytes k s ++ rest = c :: d1 /\ close_or_scalar c /\ ~ (c = 63%N /\ exists r, d1 = 61%N :: r).
Proof.
  intros Hwf Hr. destruct (scalar_bytes_hd k s Hwf) as (c & r & E & Hc).
  exists c, (r ++ rest). split; [rewrite E; reflexivity|]. split; [left; exact Hc|].
  intros (-> & r' & Er).
  destruct k; cbn [scalar_bytes wf_scalar] in *; [|discriminate].
  subst s. pose proof (wf_unq_second _ _ Hwf) as H2.
  destruct r as [|x r]; cbn [app] in Er.
  - rewrite Er in Hr. apply Hr. reflexivity.
  - inversion Er. subst. apply H2. reflexivity.
Qed.

(* one bare value: `.. d }` *)
Lemma OEg_one k s : wf_scalar k s = true -> OEg (VCons (VScalar k s) VNil).
Proof.
  intros Hwf g i more T p U st' m' Hg Hsep HT Hr.
  cbn [toks_values toks_value app length values_nonempty] in *.
  cbn [sep_ok] in Hsep. destruct Hsep as [Hs Hsep]. rewrite !render_toks_cons. cbn [fst stok rbrace app].
  eapply reaches_trans.
  { apply (reach_key_scalar (g i) k s _ false (length T) _ (Hg i) Hwf). intros ->. apply Hs. reflexivity. }
  eapply reaches_trans.
  { unfold tpush. apply (reach_kvs_to_mixed (g (S i)) 125%N _ (length T) _ _ (Hg _)); [right; reflexivity|]. intros [H _]. discriminate. }
  eapply reaches_eq.
  { rewrite <- !app_assoc. cbn [app].
    apply (reach_arrval_close (g (S i)) _ true T p false _ st' m' false (Hg _) HT). apply Hr. }
  cbn [tail_toks flat_values flat_value]. rewrite ?app_length. cbn [length app]. tape_eq.
Qed.

Lemma mitems_first vs more : wfm_mitems vs = true ->
  tok_starts (fun c => value_start c \/ c = 125%N) (toks_values vs ++ rbrace :: more).
Proof.
  destruct vs as [|v vs]; cbn [toks_values app wfm_mitems].
  - intros _. exists 125%N, []. split; [reflexivity | right; reflexivity].
  - intros H. andb_split. rewrite <- app_assoc. eapply tok_starts_impl; [|apply value_first_m; assumption]. intros c Hc. left. exact Hc.
Qed.

(* two scalars open the tail, the rest is a mixed region *)
Lemma OEg_more k1 s1 k2 s2 r2 :
  wf_scalar k1 s1 = true -> wf_scalar k2 s2 = true -> wfm_mitems r2 = true ->
  MIlemma (VCons (VScalar k2 s2) r2) -> OEg (VCons (VScalar k1 s1) (VCons (VScalar k2 s2) r2)).
Proof.
  intros Hwf1 Hwf2 Hwfr HMI g i more T p U st' m' Hg Hsep HT Hr.
  cbn [toks_values toks_value app length values_nonempty] in *. rewrite <- ?app_assoc in *. cbn [app] in *.
  cbn [sep_ok] in Hsep. destruct Hsep as [Hs Hsep]. rewrite (render_toks_cons g (stok k1 s1)). cbn [fst stok].
  eapply reaches_trans.
  { apply (reach_key_scalar (g i) k1 s1 _ false (length T) _ (Hg i) Hwf1). intros ->. apply Hs. reflexivity. }
  assert (Hnq : hdP (fun x => x <> 61%N) (render_toks g (toks_values r2 ++ rbrace :: more) (S (S i)))).
  { apply render_hdP; [exact Hg | | discriminate |].
    - intros c Hc ->. discriminate.
    - eapply tok_starts_impl; [|apply mitems_first; exact Hwfr].
      intros c [[Hc| ->]| ->]; [|discriminate|discriminate]. intros ->. discriminate. }
  destruct (scalar_not_exists_op k2 s2 _ Hwf2 Hnq) as (c2 & d1 & Ed & Hc2 & Hq).
  assert (Hd : render_toks g (stok k2 s2 :: toks_values r2 ++ rbrace :: more) (S i) = g (S i) ++ c2 :: d1).
  { rewrite render_toks_cons. cbn [fst stok]. rewrite Ed. reflexivity. }
  eapply reaches_trans.
  { rewrite Hd. unfold tpush. apply (reach_kvs_to_mixed (g (S i)) c2 d1 (length T) _ _ (Hg _) Hc2 Hq). }
  rewrite <- Hd.
  destruct (HMI g (S i) (rbrace :: more) T false p false (U ++ [TMixedContainer; scalar_tok k1 s1]) Hg) as (f' & R).
  { cbn [toks_values toks_value app]. exact Hsep. }
  eapply reaches_trans.
  { eapply reaches_start_eq; [|exact R]. cbn [toks_values toks_value app ctok]. f_equal. rewrite <- ?app_assoc. reflexivity. }
  rewrite render_toks_cons. cbn [fst rbrace app].
  eapply reaches_eq.
  { apply (reach_arrval_close (g _) _ true T p f' _ st' m' false (Hg _) HT). apply Hr. }
  cbn [tail_toks flat_values flat_value toks_values toks_value]. rewrite ?app_length. cbn [length app]. rewrite ?app_length. cbn [length app].
  rewrite ?flat_values_len. tape_eq.
Qed.

(* object nested in a mixed region: first member `key op value`, op one of = == < <= > >= *)
Lemma MB_object k key o v fs tv :
  wf_scalar k key = true -> obj_first_op (Some o) = true -> FRlemma (Some o) v -> Flemma fs -> OEg tv ->
  MBlemma (VObject (FCons (Field k key (Some o) v) fs) tv).
Proof.
  intros Hkey Hop HFR HF HOE g i more T0 a gp f U Hg Hsep.
  cbn [toks_value tl toks_fields toks_field app] in *.
  rewrite <- ?app_assoc in Hsep. cbn [app] in Hsep. rewrite <- ?app_assoc in Hsep.
  cbn [sep_ok] in Hsep. destruct Hsep as [Hs Hsep].
  set (T1 := T0 ++ ctok a gp true :: U).
  eapply reaches_start_eq.
  { instantiate (1 := mkps (g i ++ scalar_bytes k key ++ render_toks g (optok (Some o) ++ toks_value v ++ toks_fields fs ++ toks_values tv ++ rbrace :: more) (S i))
                           SOpen true (length T0) ((T0 ++ ctok a gp f :: U) ++ [TArray 0 false])).
    f_equal. rewrite <- ?app_assoc. cbn [app]. rewrite <- ?app_assoc. reflexivity. }
  assert (Hb : k = Unq -> starts_boundary (render_toks g (optok (Some o) ++ toks_value v ++ toks_fields fs ++ toks_values tv ++ rbrace :: more) (S i)))
    by (intros ->; apply Hs; reflexivity).
  destruct (op_first_not_eq o Hop) as (c2 & r2 & Eo & Hobj & Hsig).
  assert (Hsk : skip_ws_t (render_toks g (optok (Some o) ++ toks_value v ++ toks_fields fs ++ toks_values tv ++ rbrace :: more) (S i)) =
                Some (c2 :: r2 ++ render_toks g (toks_value v ++ toks_fields fs ++ toks_values tv ++ rbrace :: more) (S (S i)))).
  { cbn [optok app render_toks fst]. rewrite Eo. cbn [app]. apply skip_ws_gap_sig; [apply Hg | exact Hsig]. }
  eapply reaches_trans.
  { eapply reaches_eq; [apply (reach_open_scalar_mixed (g i) k key _ T0 a gp f U (TArray 0 false) _ _ (Hg i) Hkey Hb Hsk)|].
    rewrite Hobj. reflexivity. }
  fold T1.
  eapply reaches_trans.
  { apply (HFR g (S i) (toks_fields fs ++ toks_values tv ++ rbrace :: more) (T1 ++ [TObject (length T0) false; scalar_tok k key]) (length T1) Hg Hsep).
    right. exists (length T0). apply nth_error_mid. }
  apply sep_ok_app in Hsep. apply sep_ok_app in Hsep.
  eapply reaches_trans.
  { apply (HF g _ (toks_values tv ++ rbrace :: more) _ (length T1) Hg Hsep).
    right. right. exists (length T0). rewrite <- app_assoc. cbn [app]. apply nth_error_mid. }
  apply sep_ok_app in Hsep.
  eapply reaches_eq.
  { eapply reaches_start_eq; [|apply (HOE g _ more T1 (length T0)
        (scalar_tok k key :: op_toks false (Some o) ++ flat_value (length T1 + 2 + length (op_toks false (Some o))) v ++
         flat_fields false (length T1 + 2 + length (op_toks false (Some o)) + vlen v) fs) SArrVal true Hg Hsep);
        [unfold T1; apply mixed_tape_ne | intros X; unfold T1; apply restore_mixed]].
    f_equal. rewrite ?app_length. cbn [length app]. rewrite ?app_length. cbn [length app].
    rewrite ?flat_value_len. tape_eq. }
  unfold T1. cbn [flat_value flat_fields flat_field]. rewrite ?app_length. cbn [length app]. rewrite ?app_length. cbn [length app].
  rewrite ?flat_value_len, ?flat_fields_len, ?flat_values_len.
  destruct tv; cbn [tail_toks length toks_values app values_nonempty]; rewrite ?app_length; cbn [length]; rewrite ?flat_values_len; tape_eq.
Qed.

(* ------------------------------------------------------------------ 6. the whole grammar *)
Definition FpartsM (f : field) : Prop :=
  match f with
  | Field _ _ op v => FRlemma op v /\ (mixed_member v = true -> MVlemma v)
  | ParamO _ _ (FCons (Field _ _ op v) pfs') => FRlemma op v /\ Flemma pfs'
  | _ => True
  end.
Definition QMv (v : value) : Prop :=
  wfm_value v = true ->
  (forall c, ((c = CArr -> is_header v = false) -> Vlemma c v) /\ (is_container v = true -> Blemma c v)) /\
  (mixed_member v = true -> MVlemma v).
Definition QMf (f : field) : Prop := wfm_field f = true -> F1lemma f /\ FpartsM f.
Definition QMfs (fs : fields) : Prop :=
  (wfm_fields fs = true ->
   Flemma fs /\ match fs with FCons f fs' => FpartsM f /\ Flemma fs' | FNil => True end) /\
  (wfm_kvs fs = true ->
   MKVlemma fs /\ match fs with FCons (Field _ _ _ v) fs' => MVlemma v /\ MKVlemma fs' | _ => True end).
Definition QMvs (vs : values) : Prop :=
  (wfm_items vs = true -> Ilemma vs /\ match vs with VCons _ vs' => Ilemma vs' | VNil => True end) /\
  (wfm_mitems vs = true -> MIlemma vs) /\
  (wfm_tail vs = true -> OEg vs).

Lemma kv_op_some op : kv_op op = true -> exists o, op = Some o /\ o <> TextTok.Exists.
Proof. destruct op as [o|]; [|discriminate]. intros H. exists o. split; [reflexivity|]. intros ->. discriminate. Qed.

(* the rest lemma of an array / key-value list from the induction hypotheses *)
Lemma AR_of_parts X kvs :
  Ilemma X -> wfm_kvs kvs = true ->
  match kvs with FCons (Field _ _ _ v) fs' => MVlemma v /\ MKVlemma fs' | _ => True end ->
  ARlemma X kvs.
Proof.
  intros HI Hwf Hparts. destruct kvs as [|f kvs']; [apply AR_nil; exact HI|].
  destruct f as [k key op v| |]; try discriminate. cbn [wfm_kvs] in Hwf. andb_split.
  destruct (kv_op_some op ltac:(assumption)) as (o & -> & Ho). destruct Hparts as [HV HK].
  apply AR_kv; assumption.
Qed.

Lemma full_all_m :
  (forall v, QMv v) /\ (forall f, QMf f) /\ (forall fs, QMfs fs) /\ (forall vs, QMvs vs).
Proof.
  apply doc_mutind.
  - (* scalar *)
    intros k s Hwf. split; [intros c; split; [intros _; apply V_scalar; exact Hwf | discriminate] | intros _; apply MV_scalar; exact Hwf].
  - (* object *)
    intros fs IHfs tlv IHtl Hwf. cbn [wfm_value] in Hwf. andb_split.
    destruct IHfs as [IHfs _]. destruct (IHfs ltac:(assumption)) as [_ Hparts].
    destruct IHtl as (_ & _ & IHtl). pose proof (IHtl ltac:(assumption)) as HOE.
    destruct fs as [|f fs']; [discriminate|]. destruct Hparts as [Hparts HF'].
    cbn [wfm_fields] in *. andb_split.
    assert (HB : forall c, Blemma c (VObject (FCons f fs') tlv)).
    { intros c. apply B_object_gen; [|apply OE_of_OEg; exact HOE].
      destruct f as [k key op v|name u s|name u pfs]; cbn [first_field_ok wfm_field FpartsM] in *; andb_split.
      + destruct op as [o|]; [|discriminate]. destruct Hparts as [HFR _]. apply OH_field; assumption.
      + apply OH_paramV; assumption.
      + destruct pfs as [|pf pfs']; [discriminate|]. destruct pf as [k key op v| |]; try discriminate.
        destruct k; [|discriminate]. destruct op as [o|]; [|discriminate].
        destruct Hparts as [HFR HFp]. cbn [wfm_fields wfm_field wf_scalar param_first_word] in *. andb_split.
        apply OH_paramO; assumption. }
    split.
    + intros c. split; [intros _; apply V_of_B; [reflexivity | apply HB] | intros _; apply HB].
    + intros Hm. apply MV_of_MB; [reflexivity|].
      destruct f as [k key op v| |]; try discriminate. cbn [first_field_ok wfm_field FpartsM] in *. andb_split.
      destruct op as [o|]; [|discriminate]. destruct Hparts as [HFR _]. apply MB_object; assumption.
  - (* array *)
    intros items IH Hwf. cbn [wfm_value] in Hwf. andb_split.
    destruct IH as [IH _]. destruct (IH ltac:(assumption)) as [HI Hparts].
    assert (HB : forall c, Blemma c (VArray items)).
    { intros c. destruct items as [|v vs]; [apply B_array_nil|].
      cbn [wfm_items] in *. andb_split. apply B_of_AB_array.
      destruct v as [k s| | | |]; try discriminate.
      - apply AB_scalar; [assumption | assumption | reflexivity | apply AR_nil; exact Hparts].
      - apply AB_cont; try assumption; try reflexivity. apply AR_nil; exact HI.
      - apply AB_cont; try assumption; try reflexivity; [destruct items; [discriminate | reflexivity] | apply AR_nil; exact HI].
      - apply AB_cont; try assumption; try reflexivity. apply AR_nil; exact HI. }
    split.
    + intros c. split; [intros _; apply V_of_B; [reflexivity | apply HB] | intros _; apply HB].
    + intros Hm. apply MV_of_MB; [reflexivity|]. apply MB_of_AMB_array.
      destruct items as [|v vs]; [discriminate|]. destruct v as [k s| | | |]; try discriminate.
      cbn [wfm_items wfm_value] in *. andb_split.
      apply AMB_scalar; [assumption | assumption | reflexivity | apply AR_nil; exact Hparts].
  - (* array -> key-value list *)
    intros items IH kvs IHk Hwf. cbn [wfm_value] in Hwf. andb_split.
    destruct IH as [IH _]. destruct (IH ltac:(assumption)) as [HI Hparts].
    destruct IHk as [_ IHk]. destruct (IHk ltac:(assumption)) as [_ Hkparts].
    assert (HB : forall c, Blemma c (VArrayKv items kvs)).
    { intros c. apply B_of_AB_kv; [assumption|]. destruct items as [|v vs]; [discriminate|].
      cbn [wfm_items] in *. andb_split.
      destruct v as [k s| | | |]; try discriminate.
      - apply AB_scalar; [assumption | assumption | assumption | apply AR_of_parts; assumption].
      - apply AB_cont; try assumption; try reflexivity. apply AR_of_parts; assumption.
      - apply AB_cont; try assumption; try reflexivity; [destruct items; [discriminate | reflexivity] | apply AR_of_parts; assumption].
      - apply AB_cont; try assumption; try reflexivity. apply AR_of_parts; assumption. }
    split.
    + intros c. split; [intros _; apply V_of_B; [reflexivity | apply HB] | intros _; apply HB].
    + intros Hm. apply MV_of_MB; [reflexivity|]. apply MB_of_AMB_kv; [assumption|].
      destruct items as [|v vs]; [discriminate|]. destruct v as [k s| | | |]; try discriminate.
      cbn [wfm_items wfm_value] in *. andb_split.
      apply AMB_scalar; [assumption | assumption | assumption | apply AR_of_parts; assumption].
  - (* header *)
    intros name v IH Hwf. cbn [wfm_value] in Hwf. andb_split.
    split; [|discriminate]. intros c. split; [|discriminate]. intros Hc. destruct c; [|specialize (Hc eq_refl); discriminate].
    apply V_header_m; try assumption.
    + apply wf_word_unq. assumption.
    + match goal with H : negb _ = true |- _ => apply Bool.negb_true_iff in H; exact H end.
    + apply (proj1 (IH ltac:(assumption)) CObj). assumption.
  - (* field *)
    intros k key op v IH Hwf. cbn [wfm_field] in Hwf. andb_split.
    destruct (IH ltac:(assumption)) as [IHv IHm].
    assert (HFR : FRlemma op v).
    { apply FR_of_V_m; [assumption | | apply (IHv CObj); discriminate].
      intros ->. assumption. }
    split; [apply F1_field; assumption | split; assumption].
  - (* [[name] value ] *)
    intros name u s Hwf. cbn [wfm_field] in Hwf. andb_split. split; [apply F1_paramV; assumption | exact I].
  - (* [[name] fields ] *)
    intros name u pfs IH Hwf. cbn [wfm_field] in Hwf. andb_split.
    destruct IH as [IH _]. destruct (IH ltac:(assumption)) as [_ Hparts].
    destruct pfs as [|pf pfs']; [discriminate|]. destruct pf as [k key op v| |]; try discriminate.
    destruct k; [|discriminate]. destruct op as [o|]; [|discriminate].
    destruct Hparts as [[HFR _] HFp]. cbn [wfm_fields wfm_field wf_scalar param_first_word] in *. andb_split.
    split; [apply F1_paramO; assumption | split; assumption].
  - (* no field *)
    split; intros _; (split; [apply F_nil || apply MKV_nil | exact I]).
  - (* fields *)
    intros f IHf fs IHfs. destruct IHfs as [IHfs IHks]. split.
    + intros Hwf. cbn [wfm_fields] in Hwf. andb_split.
      destruct (IHf ltac:(assumption)) as [HF1 Hparts].
      destruct (IHfs ltac:(assumption)) as [HF _].
      split; [|split; assumption].
      apply F_cons; try assumption. destruct f as [k key op v|name u s|name u pfs].
      * exists (scalar_tok k key), (fun off => op_toks false op ++ flat_value (S off + length (op_toks false op)) v).
        intros off. split; [reflexivity | destruct k; reflexivity].
      * exists (param_tok u name), (fun _ => [TUnquoted s]). intros off. split; [reflexivity | apply param_tok_not_cont].
      * eexists (param_tok u name), (fun off => _). intros off. split; [reflexivity | apply param_tok_not_cont].
    + intros Hwf. destruct f as [k key op v| |]; try discriminate. cbn [wfm_kvs] in Hwf. andb_split.
      destruct (kv_op_some op ltac:(assumption)) as (o & -> & Ho).
      assert (Hwff : wfm_field (Field k key (Some o) v) = true).
      { cbn [wfm_field]. repeat (apply andb_true_intro; split); auto. }
      destruct (IHf Hwff) as [_ [_ HMV]]. specialize (HMV ltac:(assumption)).
      destruct (IHks ltac:(assumption)) as [HK _].
      split; [|split; assumption]. apply MKV_cons; assumption.
  - (* no value *)
    split; [intros _; split; [apply I_nil | exact I] | split; intros _; [apply MI_nil | apply OEg_nil]].
  - (* values *)
    intros v IHv vs IHvs. destruct IHvs as (IHi & IHm & IHt). split; [|split].
    + intros Hwf. cbn [wfm_items] in Hwf. andb_split.
      destruct (IHi ltac:(assumption)) as [HI _].
      split; [|exact HI].
      apply I_cons; [|exact HI].
      apply (proj1 (IHv ltac:(assumption)) CArr). intros _.
      match goal with H : negb _ = true |- _ => apply Bool.negb_true_iff in H; exact H end.
    + intros Hwf. cbn [wfm_mitems] in Hwf. andb_split.
      apply MI_cons; [apply (proj2 (IHv ltac:(assumption))); assumption | apply IHm; assumption].
    + intros Hwf. cbn [wfm_tail] in Hwf. andb_split.
      destruct v as [k1 s1| | | |]; try discriminate. cbn [wfm_value] in *.
      destruct vs as [|v2 r2]; [apply OEg_one; assumption|]. andb_split.
      destruct v2 as [k2 s2| | | |]; try discriminate. cbn [wfm_value] in *.
      apply OEg_more; try assumption. apply IHm. cbn [wfm_mitems wfm_value mixed_member is_scalar orb].
      repeat (apply andb_true_intro; split); auto.
Qed.

Theorem parse_render_mixed : forall d l,
  wf_doc_mixed d -> wf_layout d l -> parse (render d l) = Ok (flatten d, bom l).
Proof.
  intros d l Hwf Hl. eapply parse_of_reaches; [exact Hl|].
  destruct Hl as (Hg & Hsep & _).
  destruct (proj1 (proj1 (proj2 (proj2 full_all_m)) d) Hwf) as [HF _].
  specialize (HF (gap l) 0 [] [] 0 Hg). rewrite !app_nil_r in HF.
  apply HF; [exact Hsep | left; split; reflexivity].
Qed.

Corollary layout_independent_mixed : forall d l1 l2,
  wf_doc_mixed d -> wf_layout d l1 -> wf_layout d l2 ->
  omap fst (parse (render d l1)) = omap fst (parse (render d l2)).
Proof. intros d l1 l2 Hwf H1 H2. rewrite !parse_render_mixed by assumption. reflexivity. Qed.

(* ------------------------------------------------------------------ 7. wf_doc documents are wf_doc_mixed documents *)
Lemma wf_wfm_all :
  (forall v, wf_value v = true -> wfm_value v = true) /\
  (forall f, wf_field f = true -> wfm_field f = true) /\
  (forall fs, (wf_fields fs = true -> wfm_fields fs = true) /\ (wf_kvs fs = true -> wfm_kvs fs = true)) /\
  (forall vs, (wf_items vs = true -> wfm_items vs = true) /\
              (wf_tail vs = true -> wfm_tail vs = true /\ wfm_mitems vs = true)).
Proof.
  apply doc_mutind.
  - intros k s H. exact H.
  - intros fs [IHfs _] tlv [_ IHtl] H. cbn [wf_value wfm_value] in *. andb_split.
    rewrite IHfs, (proj1 (IHtl ltac:(assumption))) by assumption.
    match goal with H : first_field_ok _ = true |- _ => rewrite H end. reflexivity.
  - intros items [IH _] H. cbn [wf_value wfm_value] in *. andb_split. rewrite IH by assumption.
    match goal with H : first_item_not_ghost _ = true |- _ => rewrite H end. reflexivity.
  - intros items [IH _] kvs [_ IHk] H. cbn [wf_value wfm_value] in *. andb_split.
    rewrite IH, IHk by assumption.
    match goal with H : kvs_nonempty _ = true |- _ => rewrite H end.
    destruct items as [|v vs]; [discriminate|]. destruct v; try discriminate. reflexivity.
  - intros name v IH H. cbn [wf_value wfm_value] in *. andb_split. rewrite IH by assumption.
    repeat match goal with H : _ = true |- _ => rewrite H; clear H end. reflexivity.
  - intros k key op v IH H. cbn [wf_field wfm_field] in *. andb_split. rewrite IH by assumption.
    repeat match goal with H : _ = true |- _ => rewrite H; clear H end. reflexivity.
  - intros name u s H. exact H.
  - intros name u fs [IH _] H. cbn [wf_field wfm_field] in *. andb_split. rewrite IH by assumption.
    repeat match goal with H : _ = true |- _ => rewrite H; clear H end. reflexivity.
  - split; reflexivity.
  - intros f IHf fs [IHfs IHk]. split.
    + intros H. cbn [wf_fields wfm_fields] in *. andb_split. rewrite IHf, IHfs by assumption. reflexivity.
    + intros H. destruct f as [k key op v| |]; try discriminate. cbn [wf_kvs wfm_kvs] in *. andb_split.
      assert (Hf : wf_field (Field k key op v) = true).
      { cbn [wf_field]. destruct op; [|discriminate].
        repeat match goal with H : _ = true |- _ => rewrite H end. reflexivity. }
      apply IHf in Hf. cbn [wfm_field] in Hf. andb_split. rewrite IHk by assumption.
      unfold mixed_member.
      repeat match goal with H : _ = true |- _ => rewrite H; clear H end. reflexivity.
  - split; [reflexivity | split; reflexivity].
  - intros v IHv vs [IHi IHt]. split.
    + intros H. cbn [wf_items wfm_items] in *. andb_split. rewrite IHv, IHi by assumption.
      match goal with H : negb _ = true |- _ => rewrite H end. reflexivity.
    + intros H. cbn [wf_tail] in H. andb_split. destruct (IHt ltac:(assumption)) as [Ht Hm].
      pose proof (IHv ltac:(assumption)) as Hv.
      split.
      * cbn [wfm_tail]. rewrite Hv.
        match goal with H : is_scalar v = true |- _ => rewrite H end. cbn [andb].
        destruct vs as [|v2 r2]; [reflexivity|].
        cbn [wf_tail wfm_mitems] in *. andb_split.
        repeat match goal with H : _ = true |- _ => rewrite H; clear H end. reflexivity.
      * cbn [wfm_mitems]. unfold mixed_member. rewrite Hv, Hm.
        match goal with H : is_scalar v = true |- _ => rewrite H end. reflexivity.
Qed.

Theorem wf_wfm : forall d, wf_doc d -> wf_doc_mixed d.
Proof. intros d H. apply (proj1 (proj1 (proj2 (proj2 wf_wfm_all)) d)). exact H. Qed.

(* C01_parse_render is the instance of parse_render_mixed for wf_doc *)
Corollary parse_render_from_mixed : forall d l,
  wf_doc d -> wf_layout d l -> parse (render d l) = Ok (flatten d, bom l).
Proof. intros d l H. apply parse_render_mixed. apply wf_wfm. exact H. Qed.
