(* C05, leaf entry points: Scalar::to_u64 / to_i64 / to_bool / to_f64 never reach a crash outcome
   on any byte string (the digit loop's overflow is an Err), Date::days_until never panics on
   two valid dates. *)
From JV.proofs Require Import DateProofs DateProofs2.
From JV Require Import Bytes Tables Scalar ScalarF64 Date.
From Coq Require Import List NArith ZArith Bool Lia.
Import ListNotations.
Open Scope N_scope.

Lemma overflow_mul_add_nc acc d : is_crash (overflow_mul_add acc d) = false.
Proof. unfold overflow_mul_add. destruct (_ || _); reflexivity. Qed.

Lemma to_u64_t2_nc : forall d acc, is_crash (to_u64_t2 d acc) = false.
Proof.
  induction d as [|x r IH]; intros acc; [reflexivity|]. cbn [to_u64_t2].
  destruct (is_digit x); [|reflexivity].
  pose proof (overflow_mul_add_nc acc (x - 48)) as H. destruct (overflow_mul_add acc (x - 48)); try discriminate; auto.
Qed.

Lemma to_u64_t_nc d start : is_crash (to_u64_t d start) = false.
Proof.
  unfold to_u64_t. pose proof (to_u64_t2_nc d start) as H.
  destruct (to_u64_t2 d start) as [[res rest]| | | |]; try discriminate; cbn; auto. destruct (beqb rest d); reflexivity.
Qed.

Theorem to_u64_nc d : is_crash (to_u64 d) = false.
Proof.
  destruct d as [|c data]; [reflexivity|]. cbn [to_u64]. destruct (is_digit c || (c =? 43)); [|reflexivity].
  pose proof (to_u64_t2_nc data (if is_digit c then c - 48 else 0)) as H.
  destruct (to_u64_t2 data _) as [[res rest]| | | |]; try discriminate; cbn; auto. destruct rest; reflexivity.
Qed.

Lemma to_i64_t_nc d : is_crash (to_i64_t d) = false.
Proof.
  destruct d as [|c data]; [reflexivity|]. cbn [to_i64_t]. destruct (is_digit c || (c =? 45) || (c =? 43)); [|reflexivity].
  pose proof (to_u64_t2_nc data (if is_digit c then c - 48 else 0)) as H.
  destruct (to_u64_t2 data _) as [[v rest]| | | |]; try discriminate; cbn; auto. destruct (v <=? I64_MAX); reflexivity.
Qed.

Theorem to_i64_nc d : is_crash (to_i64 d) = false.
Proof.
  unfold to_i64. pose proof (to_i64_t_nc d) as H. destruct (to_i64_t d) as [[res rest]| | | |]; try discriminate; cbn; auto.
  destruct rest; reflexivity.
Qed.

Theorem to_bool_nc d : is_crash (to_bool d) = false.
Proof.
  unfold to_bool. repeat (match goal with |- context [match ?x with _ => _ end] => destruct x; try reflexivity end).
Qed.

Theorem to_f64_nc d : is_crash (to_f64 d) = false.
Proof.
  destruct d as [|c0 data0]; [reflexivity|]. cbn [to_f64].
  destruct (if c0 =? 45 then match data0 with [] => None | c1 :: data1 => Some (c1, data1) end else Some (c0, data0))
    as [[c data]|]; [|reflexivity].
  assert (Hl : is_crash (if is_digit c then to_u64_t2 data (c - 48)
                         else if c =? 46 then Ok (0, c :: data)
                         else if c =? 43 then to_u64_t2 data 0 else Err E_AllDigits) = false).
  { destruct (is_digit c); [apply to_u64_t2_nc|]. destruct (c =? 46); [reflexivity|]. destruct (c =? 43); [apply to_u64_t2_nc|reflexivity]. }
  destruct (if is_digit c then _ else _) as [[lead rest0]| | | |]; try discriminate; cbn [obind]; auto.
  destruct rest0 as [|x rest1].
  - destruct (c0 =? 45).
    + destruct (lead <=? I64_MAX); [|reflexivity]. destruct (_ || _)%bool; reflexivity.
    + destruct (_ <? _)%Z; reflexivity.
  - destruct (x =? 46); [|reflexivity].
    pose proof (to_u64_t_nc rest1 lead) as H. destruct (to_u64_t rest1 lead) as [[i rest2]| | | |]; try discriminate; cbn [obind]; auto.
    destruct rest2; [|reflexivity]. destruct (nth_error power_of_ten_exps (length rest1)); reflexivity.
Qed.

Theorem to_f64_bits_nc d : is_crash (to_f64_bits d) = false.
Proof. unfold to_f64_bits, omap. pose proof (to_f64_nc d). destruct (to_f64 d); cbn; auto. Qed.

(* ---------- Date::days_until on two valid dates ---------- *)
Open Scope Z_scope.
Lemma is_date_year r : is_date r -> in_i16 (ry r) = true.
Proof.
  intros (y & m & d & Hy & Hv & Hr). destruct (date_from_ymd_valid y m d Hv) as (r' & Hr' & Hy' & _).
  rewrite Hr in Hr'. inversion Hr'; subst. exact Hy.
Qed.

Theorem days_until_total r1 r2 : is_date r1 -> is_date r2 -> exists n, days_until r1 r2 = Ok n.
Proof.
  intros H1 H2. pose proof (is_date_year r1 H1) as Y1. pose proof (is_date_year r2 H2) as Y2.
  destruct (is_date_days r1 H1) as (D1 & o1 & E1 & Ho1 & F1). destruct (is_date_days r2 H2) as (D2 & o2 & E2 & Ho2 & F2).
  unfold days_until. rewrite E1, E2. cbn [obind]. unfold in_i16 in *.
  apply andb_true_iff in Y1 as [A1 B1]. apply andb_true_iff in Y2 as [A2 B2].
  apply Z.leb_le in A1, B1, A2, B2.
  replace (in_i32 (D2 - D1)) with true; [eexists; reflexivity|].
  symmetry. unfold in_i32. apply andb_true_iff. split; apply Z.leb_le; lia.
Qed.
