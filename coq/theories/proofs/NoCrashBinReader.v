(* C05 for the binary lexer (BinLexer.v) and the streaming binary TokenReader (BinReader.v):
   no method returns Panic / OOB / OutOfFuel, in ANY state of the cursor / window / underlying
   reader (so: every byte string, every buffer capacity, every read schedule incl. Fail events).
   The fuels the wrappers supply (lx_skip_fuel, rdr_fuel, S |input| of the whole-input runs) are
   proved sufficient: measures are |data| (lexer), |unread| (next / read_bytes),
   |window| + 2 |unread| (reader skip_container), |pending| (whole runs: a token is >= 2 bytes). *)
From JV Require Import Bytes Tables BinPrim BufWin BinLexer BinReader.
From JV.proofs Require Import BufWinProofs BinLexProofs.
From Coq Require Import List NArith Bool Lia Arith.
Import ListNotations.
Open Scope nat_scope.

Definition nc {A} (o : outcome A) : Prop := is_crash o = false.

Lemma nc_ok {A} (a : A) : nc (Ok a). Proof. reflexivity. Qed.
Lemma nc_err {A} e : nc (@Err A e). Proof. reflexivity. Qed.

Lemma lexfn_nc {A} (f : bytes -> outcome (A * bytes)) d : lexfn f -> nc (f d).
Proof. intros Hf. destruct (lf_total _ Hf d) as [[v [r E]]|[E|E]]; rewrite E; reflexivity. Qed.

Lemma omap_nc {A B} (g : A -> B) (o : outcome A) : nc o -> nc (omap g o).
Proof. destruct o; cbn; auto. Qed.

(* ---------- generic: a step function with a decreasing measure terminates within the measure ---------- *)
Lemma run_steps_inv {St Res} (step : St -> St + Res) (mu : St -> nat) (I : St -> Prop) (Q : Res -> Prop) :
  (forall s, I s -> match step s with inl s' => I s' /\ mu s' < mu s | inr r => Q r end) ->
  forall fuel s, I s -> mu s < fuel -> exists r, run_steps step fuel s = Some r /\ Q r.
Proof.
  intros Hstep. induction fuel as [|f IH]; intros s Hi Hm; [lia|].
  cbn [run_steps]. specialize (Hstep s Hi). destruct (step s) as [s'|r].
  - destruct Hstep as [Hi' Hlt]. apply IH; [exact Hi'|lia].
  - exists r. auto.
Qed.

(* ---------- the Lexer cursor ---------- *)
Lemma lx_lift_nc {A} (f : bytes -> outcome (A * bytes)) l : lexfn f -> nc (fst (lx_lift f l)).
Proof.
  intros Hf. unfold lx_lift. destruct (lf_total _ Hf (lx_data l)) as [[v [r E]]|[E|E]]; rewrite E; reflexivity.
Qed.

Lemma lx_next_of_nc {A} (f : bytes -> outcome (A * bytes)) l : lexfn f -> nc (fst (lx_next_of f l)).
Proof.
  intros Hf. unfold lx_next_of. destruct (lf_total _ Hf (lx_data l)) as [[v [r E]]|[E|E]]; rewrite E; try reflexivity.
  destruct ((E_LexEof =? E_LexEof)%N && _); reflexivity.
Qed.

Theorem lx_read_id_nc l : nc (fst (lx_read_id l)). Proof. apply lx_lift_nc, lexfn_read_id. Qed.
Theorem lx_next_id_nc l : nc (fst (lx_next_id l)). Proof. apply lx_next_of_nc, lexfn_read_id. Qed.
Theorem lx_read_token_nc l : nc (fst (lx_read_token l)). Proof. apply lx_lift_nc, lexfn_read_token. Qed.
Theorem lx_next_token_nc l : nc (fst (lx_next_token l)). Proof. apply lx_next_of_nc, lexfn_read_token. Qed.
Theorem lx_read_string_nc l : nc (fst (lx_read_string l)). Proof. apply lx_lift_nc, lexfn_read_string. Qed.
Theorem lx_read_bool_nc l : nc (fst (lx_read_bool l)). Proof. apply lx_lift_nc, lexfn_read_bool. Qed.
Theorem lx_read_u32_nc l : nc (fst (lx_read_u32 l)). Proof. apply lx_lift_nc, lexfn_read_u32. Qed.
Theorem lx_read_u64_nc l : nc (fst (lx_read_u64 l)). Proof. apply lx_lift_nc, lexfn_read_u64. Qed.
Theorem lx_read_i32_nc l : nc (fst (lx_read_i32 l)). Proof. apply lx_lift_nc, lexfn_read_i32. Qed.
Theorem lx_read_i64_nc l : nc (fst (lx_read_i64 l)). Proof. apply lx_lift_nc, lexfn_read_i64. Qed.
Theorem lx_read_f32_nc l : nc (fst (lx_read_f32 l)). Proof. apply lx_lift_nc, lexfn_read_f32. Qed.
Theorem lx_read_f64_nc l : nc (fst (lx_read_f64 l)). Proof. apply lx_lift_nc, lexfn_read_f64. Qed.
Theorem lx_read_rgb_nc l : nc (fst (lx_read_rgb l)). Proof. apply lx_lift_nc, lexfn_read_rgb. Qed.

Theorem lx_read_bytes_nc n l : nc (fst (lx_read_bytes n l)).
Proof.
  unfold lx_read_bytes, lx_lift, read_bytes_prim. destruct (Nat.leb n (length (lx_data l))); reflexivity.
Qed.

(* skip_container *)
Lemma lx_skip_pay_spec {A} (f : bytes -> outcome (A * bytes)) depth d1 : lexfn f ->
  match lx_skip_pay depth d1 (drop_val (f d1)) with
  | inl (_, d2) => length d2 <= length d1
  | inr (o, _) => nc o
  end.
Proof.
  intros Hf. unfold lx_skip_pay, drop_val.
  destruct (lf_total _ Hf d1) as [[v [r E]]|[E|E]]; rewrite E; cbn [omap obind snd]; try reflexivity.
  apply (lexfn_len f d1 v r Hf E).
Qed.

Lemma lx_skip_step_spec st :
  match lx_skip_step st with
  | inl st' => length (snd st') < length (snd st)
  | inr (o, _) => nc o
  end.
Proof.
  destruct st as [depth d]. unfold lx_skip_step.
  destruct (lf_total _ lexfn_read_id d) as [[id [d1 E]]|[E|E]]; rewrite E; cbn [snd]; try reflexivity.
  apply read_id_len in E.
  assert (Hpay : forall A (f : bytes -> outcome (A * bytes)), lexfn f ->
            match lx_skip_pay depth d1 (drop_val (f d1)) with
            | inl st' => length (snd st') < length d
            | inr (o, _) => nc o end).
  { intros A f Hf. pose proof (lx_skip_pay_spec f depth d1 Hf) as H.
    destruct (lx_skip_pay depth d1 (drop_val (f d1))) as [[dp d2]|[o d2]]; cbn [snd]; [lia|exact H]. }
  destruct ((id =? L_QUOTED) || (id =? L_UNQUOTED))%N; [apply Hpay, lexfn_read_string|].
  destruct (id =? L_U32)%N; [apply Hpay, lexfn_read_u32|].
  destruct (id =? L_I32)%N; [apply Hpay, lexfn_read_i32|].
  destruct (id =? L_U64)%N; [apply Hpay, lexfn_read_u64|].
  destruct (id =? L_I64)%N; [apply Hpay, lexfn_read_i64|].
  destruct (id =? L_BOOL)%N; [apply Hpay, lexfn_read_bool|].
  destruct (id =? L_F32)%N; [apply Hpay, lexfn_read_f32|].
  destruct (id =? L_F64)%N; [apply Hpay, lexfn_read_f64|].
  destruct (id =? L_CLOSE)%N. { destruct (Nat.eqb depth 1); [reflexivity|cbn [snd]; lia]. }
  destruct (id =? L_OPEN)%N; cbn [snd]; lia.
Qed.

Theorem skip_container_bytes_nc d : nc (fst (skip_container_bytes d)).
Proof.
  unfold skip_container_bytes, lx_skip_fuel.
  destruct (run_steps_inv lx_skip_step (fun st => length (snd st)) (fun _ => True) (fun r => nc (fst r))) with (fuel := S (length d)) (s := (1, d))
    as (r & -> & Hr); [| exact I | cbn [snd]; lia | exact Hr].
  intros st _. pose proof (lx_skip_step_spec st) as H. destruct (lx_skip_step st) as [st'|[o d']]; [split; [exact I|exact H]|exact H].
Qed.

Theorem lx_skip_container_nc l : nc (fst (lx_skip_container l)).
Proof.
  unfold lx_skip_container. pose proof (skip_container_bytes_nc (lx_data l)) as H.
  destruct (skip_container_bytes (lx_data l)) as [o d']. exact H.
Qed.

Lemma lx_unit_nc {A} (r : outcome A * lexer) : nc (fst r) -> nc (fst (lx_unit r)).
Proof. unfold lx_unit. cbn [fst]. apply omap_nc. Qed.

Theorem lx_skip_value_nc id l : nc (fst (lx_skip_value id l)).
Proof.
  unfold lx_skip_value.
  destruct ((id =? L_QUOTED) || (id =? L_UNQUOTED))%N; [apply lx_unit_nc, lx_read_string_nc|].
  destruct (id =? L_U32)%N; [apply lx_unit_nc, lx_read_u32_nc|].
  destruct (id =? L_I32)%N; [apply lx_unit_nc, lx_read_i32_nc|].
  destruct (id =? L_U64)%N; [apply lx_unit_nc, lx_read_u64_nc|].
  destruct (id =? L_I64)%N; [apply lx_unit_nc, lx_read_i64_nc|].
  destruct (id =? L_BOOL)%N; [apply lx_unit_nc, lx_read_bool_nc|].
  destruct (id =? L_F32)%N; [apply lx_unit_nc, lx_read_f32_nc|].
  destruct (id =? L_F64)%N; [apply lx_unit_nc, lx_read_f64_nc|].
  destruct (id =? L_OPEN)%N; [apply lx_skip_container_nc|].
  destruct (id =? L_RGB)%N; [apply lx_unit_nc, lx_read_rgb_nc|reflexivity].
Qed.

(* whole-input run of the slice lexer *)
Theorem lex_run_nc : forall fuel l, length (lx_data l) < fuel -> nc (fst (snd (lex_run fuel l))).
Proof.
  induction fuel as [|f IH]; intros l Hf; [lia|].
  cbn [lex_run]. unfold lx_next_token, lx_next_of.
  destruct (lf_total _ lexfn_read_token (lx_data l)) as [[t [r E]]|[E|E]]; rewrite E.
  - apply read_token_len in E. specialize (IH (mklx r (lx_orig l)) ltac:(cbn [lx_data]; lia)).
    destruct (lex_run f (mklx r (lx_orig l))) as [ts e]. exact IH.
  - destruct ((E_LexEof =? E_LexEof)%N && _); reflexivity.
  - reflexivity.
Qed.

Theorem run_lexer_nc d : nc (fst (snd (run_lexer d))).
Proof. apply lex_run_nc. cbn. lia. Qed.

(* ---------- the streaming reader ---------- *)
Lemma fill_ok_rest b d n b2 d2 :
  bw_fill_buf b d = FillOk n b2 d2 ->
  length (rest d2) + n = length (rest d) /\ win b2 ++ rest d2 = win b ++ rest d /\ length (win b2) = length (win b) + n.
Proof.
  unfold bw_fill_buf. destruct (Nat.leb (cap b) (length (win b))).
  - destruct (Nat.eqb (cap b) 0); [|discriminate]. intros H. inversion H; subst. repeat split; lia.
  - destruct (rd_read d (cap b - length (win b))) as [[bs d']| | | |] eqn:E; try discriminate.
    intros H. inversion H; subst. destruct (rd_read_split _ _ _ _ E) as (Hs & _). rewrite Hs, !app_length. cbn [win].
    rewrite <- app_assoc, app_length. repeat split; lia.
Qed.

Definition mu_rest (s : rstate) : nat := length (rest (snd s)).
Definition mu_skip (s : rstate) : nat := length (win (fst s)) + 2 * length (rest (snd s)).

(* the three answers of fill_buf as the callers see them *)
Lemma rdr_fill_spec s :
  match rdr_fill s with
  | FcMore s' => mu_rest s' < mu_rest s /\ rdr_pending s' = rdr_pending s /\ mu_skip s' < mu_skip s
  | _ => True
  end.
Proof.
  unfold rdr_fill. destruct (bw_fill_buf (fst s) (snd s)) as [n b' r'|b' r'|b' r'] eqn:E; try exact I.
  destruct (Nat.eqb n 0) eqn:En; [exact I|]. apply Nat.eqb_neq in En.
  apply fill_ok_rest in E as (E1 & E2 & E3). unfold mu_rest, mu_skip, rdr_pending. cbn [fst snd].
  repeat split; [lia|exact E2|lia].
Qed.

Lemma rdr_advance_ok {A} (s : rstate) used (k : rstate -> A) crash : used <= length (win (fst s)) ->
  rdr_advance s used k crash =
  k (mkbw (cap (fst s)) (skipn used (win (fst s))) (consumed (fst s) + used) (prior (fst s)), snd s).
Proof.
  intros H. unfold rdr_advance, bw_advance.
  replace (Nat.ltb (length (win (fst s))) used) with false by (symmetry; apply Nat.ltb_ge; exact H). reflexivity.
Qed.

(* next / refill_next *)
Definition next_post (s0 : rstate) (r : outcome (option btoken) * rstate) : Prop :=
  nc (fst r) /\
  match fst r with
  | Ok (Some _) => length (rdr_pending (snd r)) + 2 <= length (rdr_pending s0)
  | _ => True
  end.

Lemma rdr_next_step_spec s0 s : rdr_pending s = rdr_pending s0 ->
  match rdr_next_step s with
  | inl s' => rdr_pending s' = rdr_pending s0 /\ mu_rest s' < mu_rest s
  | inr r => next_post s0 r
  end.
Proof.
  intros Hp. unfold rdr_next_step.
  destruct (lf_total _ lexfn_read_token (win (fst s))) as [[t [w' E]]|[E|E]]; rewrite E.
  - apply read_token_len in E. rewrite rdr_advance_ok by lia. split; [reflexivity|]. cbn [fst snd].
    rewrite <- Hp. unfold rdr_pending. cbn [fst snd win]. rewrite !app_length, skipn_length. lia.
  - rewrite N.eqb_refl. pose proof (rdr_fill_spec s) as Hf. destruct (rdr_fill s) as [s'|s'|e' s'].
    + destruct (Nat.eqb (bw_window_len (fst s')) 0); split; cbn [fst]; auto; reflexivity.
    + destruct Hf as (H1 & H2 & _). split; [congruence|exact H1].
    + split; cbn [fst]; auto; reflexivity.
  - replace (E_InvalidRgb =? E_LexEof)%N with false by reflexivity. split; cbn [fst]; auto; reflexivity.
Qed.

Theorem rdr_next_spec s : next_post s (rdr_next s).
Proof.
  unfold rdr_next, rdr_fuel.
  destruct (run_steps_inv rdr_next_step mu_rest (fun x => rdr_pending x = rdr_pending s) (next_post s))
    with (fuel := S (length (win (fst s)) + 2 * length (rest (snd s)))) (s := s) as (r & -> & Hr);
    [| reflexivity | unfold mu_rest; lia | exact Hr].
  intros x Hx. exact (rdr_next_step_spec s x Hx).
Qed.

Theorem rdr_next_nc s : nc (fst (rdr_next s)).
Proof. apply rdr_next_spec. Qed.

Theorem rdr_read_nc s : nc (fst (rdr_read s)).
Proof.
  unfold rdr_read. pose proof (rdr_next_nc s) as H. destruct (rdr_next s) as [[[t|]| | | |] s']; cbn in *; auto; discriminate.
Qed.

Lemma rdr_read_shrinks s t s' : rdr_read s = (Ok t, s') -> length (rdr_pending s') + 2 <= length (rdr_pending s).
Proof.
  unfold rdr_read. pose proof (rdr_next_spec s) as [_ H]. destruct (rdr_next s) as [[[t0|]| | | |] s1]; cbn in *; try discriminate.
  intros E. inversion E; subst. exact H.
Qed.

(* read_bytes *)
Theorem rdr_read_bytes_nc n s : nc (fst (rdr_read_bytes n s)).
Proof.
  unfold rdr_read_bytes, rdr_fuel.
  destruct (run_steps_inv (rdr_read_bytes_step n) mu_rest (fun _ => True) (fun r => nc (fst r)))
    with (fuel := S (length (win (fst s)) + 2 * length (rest (snd s)))) (s := s) as (r & -> & Hr);
    [| exact I | unfold mu_rest; lia | exact Hr].
  intros x _. unfold rdr_read_bytes_step, bw_window_len.
  destruct (Nat.ltb (length (win (fst x))) n) eqn:E.
  - pose proof (rdr_fill_spec x) as Hf. destruct (rdr_fill x) as [s'|s'|e' s']; try reflexivity.
    split; [exact I|apply Hf].
  - apply Nat.ltb_ge in E. rewrite rdr_advance_ok by exact E. reflexivity.
Qed.

(* skip_container *)
Lemma get_from_some n d d' : get_from n d = Some d' -> length d' + n = length d.
Proof.
  unfold get_from. destruct (Nat.leb n (length d)) eqn:E; [|discriminate]. apply Nat.leb_le in E.
  intros H. inversion H; subst. rewrite skipn_length. lia.
Qed.

Lemma rdr_skip_step_spec st :
  match rdr_skip_step st with
  | inl st' => mu_skip (snd st') < mu_skip (snd st)
  | inr r => nc (fst r)
  end.
Proof.
  destruct st as [depth s]. unfold rdr_skip_step. cbn [snd].
  pose proof (rdr_fill_spec s) as Hf.
  assert (Hfill : match (match rdr_fill s with
                         | FcZero s' => inr (Err E_LexEof, s')
                         | FcMore s' => inl (depth, s')
                         | FcErr e s' => inr (Err e, s') end : (nat * rstate) + (outcome unit * rstate)) with
                  | inl st' => mu_skip (snd st') < mu_skip s
                  | inr r => nc (fst r) end).
  { destruct (rdr_fill s) as [s'|s'|e' s']; try reflexivity. cbn [snd]. apply Hf. }
  assert (Hadv : forall used depth', 0 < used -> used <= length (win (fst s)) ->
            match (rdr_advance s used (fun s' => inl (depth', s')) (fun o => inr (o, s)) : (nat * rstate) + (outcome unit * rstate)) with
            | inl st' => mu_skip (snd st') < mu_skip s
            | inr r => nc (fst r) end).
  { intros used depth' H0 H1. rewrite rdr_advance_ok by exact H1. cbn [snd]. unfold mu_skip. cbn [fst snd win].
    rewrite skipn_length. lia. }
  destruct (lf_total _ lexfn_read_id (win (fst s))) as [[id [data E]]|[E|E]]; rewrite E; [|exact Hfill|exact Hfill].
  apply read_id_len in E.
  assert (Hfixed : forall n,
            match (match get_from n data with
                   | Some d => rdr_advance s (length (win (fst s)) - length d) (fun s' => inl (depth, s')) (fun o => inr (o, s))
                   | None => match rdr_fill s with
                             | FcZero s' => inr (Err E_LexEof, s')
                             | FcMore s' => inl (depth, s')
                             | FcErr e s' => inr (Err e, s') end
                   end : (nat * rstate) + (outcome unit * rstate)) with
            | inl st' => mu_skip (snd st') < mu_skip s
            | inr r => nc (fst r) end).
  { intros n. destruct (get_from n data) as [d|] eqn:Eg; [|exact Hfill]. apply get_from_some in Eg. apply Hadv; lia. }
  destruct (id =? L_CLOSE)%N.
  { rewrite rdr_advance_ok by lia. destruct (Nat.eqb depth 1); [reflexivity|]. cbn [snd]. unfold mu_skip. cbn [fst snd win].
    rewrite skipn_length. lia. }
  destruct (id =? L_OPEN)%N; [apply Hadv; lia|].
  destruct (id =? L_BOOL)%N; [apply Hfixed|].
  destruct ((id =? L_F32) || (id =? L_U32) || (id =? L_I32))%N; [apply Hfixed|].
  destruct ((id =? L_F64) || (id =? L_I64) || (id =? L_U64))%N; [apply Hfixed|].
  destruct ((id =? L_QUOTED) || (id =? L_UNQUOTED))%N; [|apply Hadv; lia].
  destruct (lf_total _ lexfn_read_string data) as [[v [d E2]]|[E2|E2]]; rewrite E2; [|exact Hfill|exact Hfill].
  apply (lexfn_len read_string data v d lexfn_read_string) in E2. apply Hadv; lia.
Qed.

Theorem rdr_skip_container_nc s : nc (fst (rdr_skip_container s)).
Proof.
  unfold rdr_skip_container, rdr_fuel.
  destruct (run_steps_inv rdr_skip_step (fun st => mu_skip (snd st)) (fun _ => True) (fun r => nc (fst r)))
    with (fuel := S (length (win (fst s)) + 2 * length (rest (snd s)))) (s := (1, s)) as (r & -> & Hr);
    [| exact I | unfold mu_skip; cbn [snd]; lia | exact Hr].
  intros st _. pose proof (rdr_skip_step_spec st) as H. destruct (rdr_skip_step st); [split; [exact I|exact H]|exact H].
Qed.

(* whole-stream run *)
Theorem stream_run_nc : forall fuel s, length (rdr_pending s) < fuel -> nc (fst (snd (stream_run fuel s))).
Proof.
  induction fuel as [|f IH]; intros s Hf; [lia|].
  cbn [stream_run]. pose proof (rdr_next_spec s) as [Hnc Hlen].
  destruct (rdr_next s) as [[[t|]| | | |] s']; cbn [fst snd] in *; try reflexivity; try discriminate.
  specialize (IH s' ltac:(lia)). destruct (stream_run f s') as [ts e]. exact IH.
Qed.

Theorem run_stream_nc cap sched d : nc (fst (snd (run_stream cap sched d))).
Proof. apply stream_run_nc. unfold rdr_new, rdr_pending. cbn. lia. Qed.

Theorem run_slice_reader_nc d : nc (fst (snd (run_slice_reader d))).
Proof. apply stream_run_nc. unfold rdr_from_slice, rdr_pending. cbn. rewrite app_nil_r. lia. Qed.
