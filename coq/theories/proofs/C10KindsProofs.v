(* C10 (wave 4): value kinds that the link theorems of C10LinkProofs / C10ComposeProofs did not reach.
     * DateHour: `Y.M.D.H` through the DateHour visitor's visit_str = the I32 of DateHour::to_binary through visit_i32
       = the same string as a binary string token, for every calendar day of the years the binary format expresses
       and every hour 1..24;
     * any encoding, any binary path: three different encoding choices of one logical document read by the three
       binary entry points (each at its own fuel) and the text rendering all give one value;
     * `any` on a nested object: the witness of finding any-object-ondemand. *)
From JV Require Import Bytes Tables Utf8 Scalar Date TextTok BinPrim BufWin BinLexer BinReader SerdeShape
  TextDeCommon BinDeCommon TextDeSpec TextDeTape TextDeStream BinDeOndemand BinDeReader BinDeTape LogicDoc.
From JV Require TextDoc BinDoc.
From JV.proofs Require Import DateProofs DateFmt C10LinkProofs C10SpecProofs C10FitsProofs C10ComposeProofs C10RgbProofs BinDeSpecProofs.
From Coq Require Import NArith ZArith Lia List Bool.
Import ListNotations.
Open Scope N_scope.

(* ------------------------------------------------------------------ DateHour *)
Definition ldh_raw (y m d h : Z) : rawdate := mkraw y (m * 4096 + d * 128 + h * 4)%Z.
(* the text rendering (hour never zero-padded unless wide, which the parser only reads back for h >= 10) *)
Definition dh_text (y m d h : Z) (wide : bool) : bytes := game_fmt wide (ldh_raw y m d h).
Definition dh_bin (y m d h : Z) : Z := match datehour_to_binary (ldh_raw y m d h) with Ok b => b | _ => 0%Z end.

Lemma datehour_from_ymdh_raw y m d h r : datehour_from_ymdh_opt y m d h = Ok (Some r) -> r = ldh_raw y m d h.
Proof.
  unfold datehour_from_ymdh_opt, raw_from_ymdh_opt.
  destruct (negb (m =? 0)%Z && (m <? 13)%Z && negb (d =? 0)%Z && (d <? 32)%Z && (h <? 25)%Z); [|discriminate].
  destruct (dpm m) as [days| | | |]; cbn [obind]; try discriminate.
  destruct ((0 <? h)%Z && (d <=? days)%Z); [|discriminate]. intros H. injection H as <-. reflexivity.
Qed.

Lemma ldh_raw_fields y m d h : (1 <= m <= 12)%Z -> (1 <= d <= 31)%Z -> (0 <= h <= 24)%Z ->
  ry (ldh_raw y m d h) = y /\ raw_month (ldh_raw y m d h) = m /\ raw_day (ldh_raw y m d h) = d /\ raw_hour (ldh_raw y m d h) = h.
Proof.
  intros Hm Hd Hh. destruct (raw_fields y m d h Hm Hd Hh) as (r & Hr & H1 & H2 & H3 & H4).
  unfold raw_from_ymdh_opt in Hr.
  destruct (negb (m =? 0)%Z && (m <? 13)%Z && negb (d =? 0)%Z && (d <? 32)%Z && (h <? 25)%Z); [|discriminate].
  injection Hr as <-. unfold ldh_raw. auto.
Qed.

(* both codecs on the two renderings of one DateHour *)
Lemma datehour_both y m d h wide :
  (-5000 <= y <= 32767)%Z -> ld_valid_md m d = true -> (1 <= h <= 24)%Z -> (wide = true -> 10 <= h)%Z ->
  datehour_parse (dh_text y m d h wide) = Ok (Some (ldh_raw y m d h)) /\
  datehour_from_binary (dh_bin y m d h) = Ok (Some (ldh_raw y m d h)).
Proof.
  intros Hy Hv Hh Hw. rewrite ld_valid_md_eq in Hv.
  assert (Hi : in_i16 y = true) by (unfold in_i16; apply andb_true_intro; split; apply Z.leb_le; lia).
  destruct (fmt_parse_datehour y m d h Hi Hv Hh) as (r & Hr & Hn & Hwd).
  destruct (datehour_bin_inverse y m d h Hy Hv Hh) as (r' & b & Hr' & Hb & Hfb).
  rewrite Hr in Hr'. injection Hr' as <-.
  pose proof (datehour_from_ymdh_raw _ _ _ _ _ Hr) as ->.
  split.
  - unfold dh_text. destruct wide; [apply Hwd, Hw; reflexivity|exact Hn].
  - unfold dh_bin. rewrite Hb. exact Hfb.
Qed.

Section Kinds.
  Variable decode : bytes -> cow.
  Variable pf : bytes -> outcome N.
  Variable cfg : bcfg.
  Notation F := (c_fops cfg).

  (* `Y.M.D.H` against the I32 of DateHour::to_binary and against the same characters in a binary string token
     (quoted / unquoted / resolvable id): one value, the date itself *)
  Theorem datehour_agree y m d h wide f :
    (-5000 <= y <= 32767)%Z -> ld_valid_md m d = true -> (1 <= h <= 24)%Z -> (wide = true -> 10 <= h)%Z ->
    tdec decode (dh_text y m d h wide) = dh_text y m d h wide ->
    text_visit decode pf cfg ShDateHour (dh_text y m d h wide) = Ok (DDate y m d h) /\
    bin_visit cfg ShDateHour (BinDoc.SI32 (dh_bin y m d h)) = Ok (DDate y m d h) /\
    (str_ok decode cfg f (dh_text y m d h wide) (dh_text y m d h wide) ->
     bin_visit cfg ShDateHour (bin_str f (dh_text y m d h wide)) = Ok (DDate y m d h)).
  Proof.
    intros Hy Hv Hh Hw Hst. destruct (datehour_both y m d h wide Hy Hv Hh Hw) as [Ht Hb].
    pose proof Hv as Hv'. rewrite ld_valid_md_eq in Hv'. pose proof (valid_md_bounds _ _ Hv') as [Hm Hd].
    destruct (ldh_raw_fields y m d h Hm Hd ltac:(lia)) as (E1 & E2 & E3 & E4).
    assert (Hval : date_val true (Ok (Some (ldh_raw y m d h))) = Ok (DDate y m d h)).
    { unfold date_val. cbn [obind]. rewrite E1, E2, E3, E4. reflexivity. }
    split; [|split].
    - rewrite (text_any_str decode pf cfg ShDateHour _ eq_refl). rewrite Hst. cbn [visit_prim]. rewrite Ht. exact Hval.
    - unfold bin_visit. cbn [BinDoc.scalar_prim obind visit_prim]. rewrite Hb. exact Hval.
    - intros Hs. unfold bin_visit. rewrite (str_prim_ok decode cfg _ _ _ Hs). cbn [obind]. rewrite Hst. cbn [visit_prim]. rewrite Ht. exact Hval.
  Qed.

  (* the same for Date with the value spelled out (C10LinkProofs.date_agree states the equality only) *)
  Theorem date_value y m d wide :
    (-5000 <= y <= 32767)%Z -> ld_valid_md m d = true -> tdec decode (date_text y m d wide) = date_text y m d wide ->
    text_visit decode pf cfg ShDate (date_text y m d wide) = Ok (DDate y m d 0) /\
    bin_visit cfg ShDate (BinDoc.SI32 (date_bin y m d)) = Ok (DDate y m d 0).
  Proof.
    intros Hy Hv Hst. destruct (date_both y m d wide Hy Hv) as [Ht Hb].
    pose proof Hv as Hv'. rewrite ld_valid_md_eq in Hv'. pose proof (valid_md_bounds _ _ Hv') as [Hm Hd].
    destruct (ldh_raw_fields y m d 0 Hm Hd ltac:(lia)) as (E1 & E2 & E3 & _).
    assert (Er : ldate_raw y m d = ldh_raw y m d 0) by (unfold ldate_raw, ldh_raw; f_equal; lia).
    assert (Hval : date_val false (Ok (Some (ldate_raw y m d))) = Ok (DDate y m d 0)).
    { unfold date_val. cbn [obind]. rewrite Er, E1, E2, E3. reflexivity. }
    split.
    - rewrite (text_any_str decode pf cfg ShDate _ eq_refl). rewrite Hst. cbn [visit_prim]. rewrite Ht. exact Hval.
    - unfold bin_visit. cbn [BinDoc.scalar_prim obind visit_prim]. rewrite Hb. exact Hval.
  Qed.

  (* ---------------------------------------------------------------- any encoding, any path, at the entry points' own fuel *)
  Theorem any_encoding_any_path sh d e1 e2 e3 cap sched :
    wf_ldoc d = true -> norgb_fields d = true -> shared decode pf cfg sh d ->
    enc_ok decode cfg e1 d -> enc_ok decode cfg e2 d -> enc_ok decode cfg e3 d ->
    no_fail sched = true -> BinLexer.fits cap (BinDoc.enc_doc (fst (to_bin e3 d)) (snd (to_bin e3 d))) = true ->
    let v := TextDeSpec.spec_value decode pf F sh (to_text d) in
    let enc e := BinDoc.enc_doc (fst (to_bin e d)) (snd (to_bin e d)) in
    v <> Err EC_UNFIT /\
    TextDeTape.deser_tape decode pf F sh (TextDoc.flatten (to_text d)) = v /\
    BinDeTape.deser_tape cfg sh (enc e1) = v /\
    BinDeOndemand.deser_ondemand cfg sh (enc e2) = v /\
    BinDeReader.deser_reader cfg cap sched sh (enc e3) = v.
  Proof.
    intros Hw Hn Hs H1 H2 H3 Hnf Hcap v enc.
    (* the capacity hypothesis is only used for the reader; the other two instances take the trivial schedule / any cap of e3 *)
    destruct (text_bin_agree_shared decode pf cfg sh d e3 cap sched Hw Hn Hs H3 Hnf Hcap) as (Hu & Ht & _ & _ & _ & Hr).
    split; [exact Hu|]. split; [exact Ht|].
    assert (forall e, enc_ok decode cfg e d ->
              BinDeTape.deser_tape cfg sh (enc e) = v /\ BinDeOndemand.deser_ondemand cfg sh (enc e) = v) as Hany.
    { intros e He.
      pose proof (C10ComposeProofs.spec_of_agree decode pf cfg sh d e Hs He) as Hag.
      pose proof (C10FitsProofs.shared_fits decode pf cfg sh d Hs) as Hfit.
      pose proof (C10ComposeProofs.bin_wf_doc decode cfg e d Hw He) as Hwf.
      pose proof (C10ComposeProofs.bin_tape_ok_doc e d Hn) as Htp.
      assert (Hfb : BinDoc.fits_shape cfg sh (fst (to_bin e d)) (snd (to_bin e d))).
      { unfold BinDoc.fits_shape. rewrite <- Hag. exact Hfit. }
      split.
      - unfold enc. rewrite (BinDeSpecProofs.tape_eq_spec cfg sh _ _ eq_refl Hwf Htp Hfb). symmetry. exact Hag.
      - unfold enc. rewrite (BinDeSpecProofs.ondemand_eq_spec cfg sh _ _ Hwf Hfb). symmetry. exact Hag. }
    split; [apply (Hany e1 H1)|]. split; [apply (Hany e2 H2)|exact Hr].
  Qed.
End Kinds.

(* ------------------------------------------------------------------ `any` on a nested object: finding any-object-ondemand
   a = { b = c } into map<any>: the text tape path and the binary tape path deliver {a: {b: c}}, the on-demand and the
   stream binary deserializers hand the `{` to visit_seq and fail on the `=` (EC_SYNTAX). *)
Definition any_doc : ldoc := [ (Unq, [97], LObj [ (Unq, [98], LScalar (LStr Unq [99])) ]) ].
Definition any_enc : enc_choice := fun _ => mkchoice WI32 FUnquoted true false FUnquoted false false.
Definition any_shape : shape := ShMap ShAny.
Theorem any_object_refuted :
  let b := BinDoc.enc_doc (fst (to_bin any_enc any_doc)) (snd (to_bin any_enc any_doc)) in
  let v := Ok (DMap [([97], DAMap [(DStr [98], DStr [99])])]) in
  TextDeTape.deser_tape id_dec (fun _ => Err 1) (c_fops cfg_id) any_shape (TextDoc.flatten (to_text any_doc)) = v /\
  BinDeTape.deser_tape cfg_id any_shape b = v /\
  BinDeOndemand.deser_ondemand cfg_id any_shape b = Err EC_SYNTAX /\
  BinDeReader.deser_reader cfg_id 64 [] any_shape b = Err EC_SYNTAX.
Proof. repeat split; vm_compute; reflexivity. Qed.
