(* Lane-wise soundness of the SWAR helpers used by the text reader fast paths:
   leading_whitespace, the quote scanner word (swar_quote_t2 + trailing_zeros) and the
   backslash test (contains_zero_byte).  An 8-byte little-endian word is [pack] of its lanes;
   bitwise operations and carry-free additions act lane by lane, per-lane facts are checked
   over the complete byte domain. *)
From JV Require Import Bytes Tables U64Swar BufWin TextTok TextReader.
From Coq Require Import Lia List Arith NArith.
Import ListNotations.
Local Open Scope N_scope.

(* ---------- packing lanes ---------- *)

Fixpoint pack (l : list N) : N :=
  match l with
  | [] => 0
  | b :: r => b + 256 * pack r
  end.

Lemma le_word_pack : forall n l, le_word n l = pack (firstn n l).
Proof.
  induction n; destruct l; cbn [le_word firstn pack]; auto.
  rewrite IHn; auto.
Qed.

Lemma lane_bits : forall a a' n, a < 256 ->
  N.testbit (a + 256 * a') n = if n <? 8 then N.testbit a n else N.testbit a' (n - 8).
Proof.
  intros a a' n Ha.
  assert (Hm : (a + 256 * a') mod 2 ^ 8 = a).
  { symmetry. apply N.mod_unique with a'; [exact Ha | change (2 ^ 8) with 256; lia]. }
  assert (Hd : (a + 256 * a') / 2 ^ 8 = a').
  { symmetry. apply N.div_unique with a; [exact Ha | change (2 ^ 8) with 256; lia]. }
  destruct (N.ltb_spec n 8) as [Hn | Hn].
  - rewrite <- (N.mod_pow2_bits_low (a + 256 * a') 8 n Hn). rewrite Hm. reflexivity.
  - rewrite <- Hd at 2. rewrite N.div_pow2_bits. f_equal. lia.
Qed.

Lemma small_shiftr : forall a, a < 256 <-> N.shiftr a 8 = 0.
Proof.
  intros a. rewrite N.shiftr_div_pow2. change (2 ^ 8) with 256.
  rewrite N.div_small_iff by lia. tauto.
Qed.

Lemma land_small : forall a b, a < 256 -> b < 256 -> N.land a b < 256.
Proof.
  intros a b Ha Hb. apply small_shiftr. rewrite N.shiftr_land.
  apply small_shiftr in Ha. apply small_shiftr in Hb. rewrite Ha, Hb. reflexivity.
Qed.
Lemma lor_small : forall a b, a < 256 -> b < 256 -> N.lor a b < 256.
Proof.
  intros a b Ha Hb. apply small_shiftr. rewrite N.shiftr_lor.
  apply small_shiftr in Ha. apply small_shiftr in Hb. rewrite Ha, Hb. reflexivity.
Qed.
Lemma lxor_small : forall a b, a < 256 -> b < 256 -> N.lxor a b < 256.
Proof.
  intros a b Ha Hb. apply small_shiftr. rewrite N.shiftr_lxor.
  apply small_shiftr in Ha. apply small_shiftr in Hb. rewrite Ha, Hb. reflexivity.
Qed.

Definition lane_op (op : N -> N -> N) : Prop :=
  forall a a' b b', a < 256 -> b < 256 ->
    op (a + 256 * a') (b + 256 * b') = op a b + 256 * op a' b'.

Lemma lane_op_of_bits : forall (op : N -> N -> N) (bop : bool -> bool -> bool),
  (forall a b n, N.testbit (op a b) n = bop (N.testbit a n) (N.testbit b n)) ->
  (forall a b, a < 256 -> b < 256 -> op a b < 256) ->
  lane_op op.
Proof.
  intros op bop Hbits Hsmall a a' b b' Ha Hb.
  apply N.bits_inj. intros n.
  rewrite Hbits, (lane_bits (op a b)) by (apply Hsmall; assumption).
  rewrite !lane_bits by assumption.
  destruct (n <? 8); rewrite Hbits; reflexivity.
Qed.

Lemma lane_land : lane_op N.land.
Proof. apply (lane_op_of_bits N.land andb); [apply N.land_spec | apply land_small]. Qed.
Lemma lane_lor : lane_op N.lor.
Proof. apply (lane_op_of_bits N.lor orb); [apply N.lor_spec | apply lor_small]. Qed.
Lemma lane_lxor : lane_op N.lxor.
Proof. apply (lane_op_of_bits N.lxor xorb); [apply N.lxor_spec | apply lxor_small]. Qed.

(* ---------- lane-wise maps over a fixed list of lanes ---------- *)

Definition bfun (f : N -> N) : Prop := forall b, b < 256 -> f b < 256.

Lemma L_op : forall op, lane_op op -> op 0 0 = 0 ->
  forall f g l, bfun f -> bfun g -> wf_bytes l ->
  op (pack (map f l)) (pack (map g l)) = pack (map (fun b => op (f b) (g b)) l).
Proof.
  intros op Hop H0 f g l Hf Hg Hl.
  induction Hl as [| a l Ha Hl IH]; cbn [map pack].
  - exact H0.
  - rewrite Hop by (apply Hf || apply Hg; exact Ha). rewrite IH. reflexivity.
Qed.

Lemma L_land : forall f g l, bfun f -> bfun g -> wf_bytes l ->
  N.land (pack (map f l)) (pack (map g l)) = pack (map (fun b => N.land (f b) (g b)) l).
Proof. apply (L_op N.land lane_land). reflexivity. Qed.
Lemma L_lor : forall f g l, bfun f -> bfun g -> wf_bytes l ->
  N.lor (pack (map f l)) (pack (map g l)) = pack (map (fun b => N.lor (f b) (g b)) l).
Proof. apply (L_op N.lor lane_lor). reflexivity. Qed.
Lemma L_lxor : forall f g l, bfun f -> bfun g -> wf_bytes l ->
  N.lxor (pack (map f l)) (pack (map g l)) = pack (map (fun b => N.lxor (f b) (g b)) l).
Proof. apply (L_op N.lxor lane_lxor). reflexivity. Qed.

Lemma L_add : forall f g (l : list N),
  pack (map f l) + pack (map g l) = pack (map (fun b => f b + g b) l).
Proof.
  intros f g l. induction l as [| a l IH]; cbn [map pack]; [reflexivity | lia].
Qed.

Lemma pack_lt : forall f l, bfun f -> wf_bytes l ->
  pack (map f l) < 256 ^ N.of_nat (length l).
Proof.
  intros f l Hf Hl. induction Hl as [| a l Ha Hl IH]; cbn [map pack length].
  - cbn. lia.
  - rewrite Nat2N.inj_succ, N.pow_succ_r'. specialize (Hf a Ha). lia.
Qed.

Lemma L_w64 : forall f l, bfun f -> wf_bytes l -> length l = 8%nat ->
  w64 (pack (map f l)) = pack (map f l).
Proof.
  intros f l Hf Hl Hlen. unfold w64. apply N.mod_small.
  pose proof (pack_lt f l Hf Hl) as H. rewrite Hlen in H. exact H.
Qed.

Lemma rb_const : forall c l, c < 256 -> length l = 8%nat ->
  repeat_byte c = pack (map (fun _ : N => c) l).
Proof.
  intros c l Hc Hlen.
  do 9 (destruct l as [| ? l]; try discriminate).
  cbn [map pack]. unfold repeat_byte, wmul, w64.
  replace (u64_max / 255) with 72340172838076673 by (vm_compute; reflexivity).
  rewrite N.mod_small by (unfold W64; lia). lia.
Qed.

(* ---------- exhaustive checks over the byte domain ---------- *)

Definition all_bytes : list N := map N.of_nat (seq 0 256).

Lemma all_bytes_in : forall b, b < 256 -> In b all_bytes.
Proof.
  intros b Hb. unfold all_bytes. apply in_map_iff. exists (N.to_nat b). split.
  - apply N2Nat.id.
  - apply in_seq. lia.
Qed.

Lemma byte_forall : forall P : N -> bool,
  forallb P all_bytes = true -> forall b, b < 256 -> P b = true.
Proof.
  intros P H b Hb. rewrite forallb_forall in H. apply H, all_bytes_in, Hb.
Qed.

Ltac byte_lt :=
  match goal with
  | |- bfun ?F =>
      let b := fresh "b" in let Hb := fresh "Hb" in
      unfold bfun; intros b Hb; apply N.ltb_lt; revert b Hb;
      apply (byte_forall (fun b => F b <? 256)); vm_compute; reflexivity
  end.

Ltac byte_eq :=
  match goal with
  | |- forall b, b < 256 -> @?F b = @?G b =>
      let b := fresh "b" in let Hb := fresh "Hb" in
      intros b Hb; apply N.eqb_eq; revert b Hb;
      apply (byte_forall (fun b => F b =? G b)); vm_compute; reflexivity
  end.

Lemma pack_map_ext : forall f g l, wf_bytes l ->
  (forall b, b < 256 -> f b = g b) -> pack (map f l) = pack (map g l).
Proof.
  intros f g l Hl H. f_equal. apply map_ext_in. intros a Ha.
  apply H. unfold wf_bytes in Hl. rewrite Forall_forall in Hl. apply Hl, Ha.
Qed.

Ltac side := first [assumption | byte_lt].

(* ---------- the scanner words, lane by lane ---------- *)

Lemma sq_lanes : forall l, wf_bytes l -> length l = 8%nat ->
  swar_quote_t2 (pack l) = pack (map (fun b => if b =? 34 then 128 else 0) l).
Proof.
  intros l Hl Hlen.
  assert (Hid : pack l = pack (map (fun b => b) l)) by (rewrite map_id; reflexivity).
  unfold swar_quote_t2, wadd. rewrite Hid.
  rewrite (rb_const 127 l), (rb_const 34 l), (rb_const 128 l) by (lia || assumption).
  rewrite L_land by side. cbv beta.
  rewrite L_lxor by side. cbv beta.
  rewrite L_add. cbv beta.
  rewrite L_w64 by side.
  rewrite L_lor by side. cbv beta.
  rewrite L_land by side. cbv beta.
  rewrite L_lxor by side. cbv beta.
  apply pack_map_ext; [assumption | byte_eq].
Qed.

Definition not_ws (b : N) : bool := negb (b =? 9) && negb (b =? 10).

Lemma lw_lanes : forall l, wf_bytes l -> length l = 8%nat ->
  N.land (nonzero_lanes (N.lxor (pack l) (repeat_byte lw_byte1)))
         (nonzero_lanes (N.lxor (pack l) (repeat_byte lw_byte2)))
  = pack (map (fun b => if not_ws b then 128 else 0) l).
Proof.
  intros l Hl Hlen.
  assert (Hid : pack l = pack (map (fun b => b) l)) by (rewrite map_id; reflexivity).
  unfold nonzero_lanes, wadd, lw_byte1, lw_byte2. rewrite Hid.
  rewrite (rb_const 127 l), (rb_const 9 l), (rb_const 10 l), (rb_const 128 l)
    by (lia || assumption).
  rewrite !L_lxor by side. cbv beta.
  rewrite !L_land by side. cbv beta.
  rewrite !L_add. cbv beta.
  rewrite !L_w64 by side.
  rewrite !L_lor by side. cbv beta.
  rewrite !L_land by side. cbv beta.
  apply pack_map_ext; [assumption | byte_eq].
Qed.

Lemma xor92_lanes : forall l, wf_bytes l -> length l = 8%nat ->
  N.lxor (pack l) (repeat_byte 92) = pack (map (fun b => N.lxor b 92) l).
Proof.
  intros l Hl Hlen.
  assert (Hid : pack l = pack (map (fun b => b) l)) by (rewrite map_id; reflexivity).
  rewrite Hid at 1. rewrite (rb_const 92 l) by (lia || assumption).
  rewrite L_lxor by side. reflexivity.
Qed.

(* ---------- trailing zeros of a flag word ---------- *)

Lemma tz_even : forall f z, tz_fuel (S f) (2 * z) = 1 + tz_fuel f z.
Proof.
  intros f z. cbn [tz_fuel].
  rewrite N.even_mul. cbn [N.even orb].
  rewrite N.mul_comm, N.div_mul by lia. reflexivity.
Qed.

Lemma tz_odd : forall f z, tz_fuel (S f) (1 + 2 * z) = 0.
Proof.
  intros f z. cbn [tz_fuel]. rewrite N.even_add_mul_2. reflexivity.
Qed.

Lemma tz_256 : forall f y,
  tz_fuel (S (S (S (S (S (S (S (S f)))))))) (256 * y) = 8 + tz_fuel f y.
Proof.
  intros f y.
  replace (256 * y) with (2 * (2 * (2 * (2 * (2 * (2 * (2 * (2 * y)))))))) by lia.
  rewrite !tz_even. lia.
Qed.

Lemma tz_128 : forall f y,
  tz_fuel (S (S (S (S (S (S (S (S f)))))))) (128 + 256 * y) = 7.
Proof.
  intros f y.
  replace (128 + 256 * y) with (2 * (2 * (2 * (2 * (2 * (2 * (2 * (1 + 2 * y)))))))) by lia.
  rewrite !tz_even, tz_odd. reflexivity.
Qed.

Definition flags (P : N -> bool) (l : list N) : N :=
  pack (map (fun b => if P b then 128 else 0) l).

Lemma tz_flags : forall (P : N -> bool) l,
  (flags P l = 0 /\ forall c, In c l -> P c = false) \/
  (flags P l <> 0 /\
   exists i c, tz_fuel (8 * length l) (flags P l) = 8 * N.of_nat i + 7 /\
     nth_error l i = Some c /\ P c = true /\
     forall j d, (j < i)%nat -> nth_error l j = Some d -> P d = false).
Proof.
  intros P l. unfold flags. induction l as [| a l IH]; cbn [map pack].
  - left. split; [reflexivity | intros c []].
  - replace (8 * length (a :: l))%nat
      with (S (S (S (S (S (S (S (S (8 * length l)))))))))%nat by (cbn [length]; lia).
    destruct (P a) eqn:Pa.
    + right. split; [lia |]. exists 0%nat, a. rewrite tz_128.
      repeat split; [exact Pa |]. intros j d Hj; lia.
    + destruct IH as [[H0 Hall] | [Hnz (i & c & Htz & Hnth & Pc & Hlow)]].
      * left. rewrite H0. split; [reflexivity |].
        intros c [<- | Hc]; [exact Pa | apply Hall, Hc].
      * right. split; [lia |]. exists (S i), c.
        rewrite N.add_0_l, tz_256, Htz. repeat split.
        -- lia.
        -- exact Hnth.
        -- exact Pc.
        -- intros [| j] d Hj Hd; cbn [nth_error] in Hd.
           ++ injection Hd as <-. exact Pa.
           ++ apply (Hlow j d); [lia | exact Hd].
Qed.

Lemma shr3 : forall i, N.shiftr (8 * i + 7) 3 = i.
Proof.
  intros i. rewrite N.shiftr_div_pow2. change (2 ^ 3) with 8.
  symmetry. apply N.div_unique with 7; lia.
Qed.

(* the scan index: first flagged lane, or 8 when none *)
Lemma tz_flags8 : forall (P : N -> bool) l, length l = 8%nat ->
  (flags P l = 0 /\ N.shiftr (trailing_zeros (flags P l)) 3 = 8 /\
   forall c, In c l -> P c = false) \/
  (flags P l <> 0 /\
   exists i c, N.shiftr (trailing_zeros (flags P l)) 3 = N.of_nat i /\
     nth_error l i = Some c /\ P c = true /\
     forall j d, (j < i)%nat -> nth_error l j = Some d -> P d = false).
Proof.
  intros P l Hlen. unfold trailing_zeros.
  destruct (tz_flags P l) as [[H0 Hall] | [Hnz (i & c & Htz & Hnth & Pc & Hlow)]].
  - left. rewrite H0. split; [reflexivity | split; [reflexivity | exact Hall]].
  - right. split; [exact Hnz |]. exists i, c.
    apply N.eqb_neq in Hnz. rewrite Hnz.
    rewrite Hlen in Htz. change (8 * 8)%nat with 64%nat in Htz.
    rewrite Htz, shr3. repeat split; assumption.
Qed.

(* ---------- the first eight bytes of a window ---------- *)

Lemma firstn_wf : forall n (l : bytes), wf_bytes l -> wf_bytes (firstn n l).
Proof.
  induction n; intros l Hl; destruct Hl; cbn [firstn]; constructor; auto.
  apply IHn; assumption.
Qed.

Lemma firstn_nth : forall n (l : bytes) j, (j < n)%nat ->
  nth_error (firstn n l) j = nth_error l j.
Proof.
  induction n; intros l j Hj; [lia |].
  destruct l as [| a l]; cbn [firstn]; [reflexivity |].
  destruct j as [| j]; cbn [nth_error]; [reflexivity | apply IHn; lia].
Qed.

Lemma nth_lt_some : forall (l : bytes) j, (j < length l)%nat -> exists c, nth_error l j = Some c.
Proof.
  intros l j Hj. destruct (nth_error l j) as [c |] eqn:E; [eauto |].
  apply nth_error_None in E. lia.
Qed.

Lemma not_ws_false : forall c, not_ws c = false -> c = 9 \/ c = 10.
Proof.
  intros c H. unfold not_ws in H.
  destruct (N.eqb_spec c 9); [auto |]. destruct (N.eqb_spec c 10); [auto | discriminate].
Qed.

Local Open Scope nat_scope.

Theorem leading_whitespace_sound : forall l : bytes,
  wf_bytes l -> 8 <= length l ->
  let p := N.to_nat (leading_whitespace (le_word 8 l)) in
  p <= 8 /\ forall j, j < p -> exists c, nth_error l j = Some c /\ (c = 9%N \/ c = 10%N).
Proof.
  intros l Hl Hlen. cbv zeta. unfold leading_whitespace. cbv zeta.
  rewrite le_word_pack.
  assert (Hl8 : wf_bytes (firstn 8 l)) by (apply firstn_wf; exact Hl).
  assert (Hlen8 : length (firstn 8 l) = 8) by (rewrite firstn_length; lia).
  assert (Hnth : forall j, j < 8 -> nth_error (firstn 8 l) j = nth_error l j)
    by (intros; apply firstn_nth; assumption).
  revert Hl8 Hlen8 Hnth. generalize (firstn 8 l). intros l8 Hl8 Hlen8 Hnth.
  rewrite (lw_lanes l8 Hl8 Hlen8). fold (flags not_ws l8).
  destruct (tz_flags8 not_ws l8 Hlen8)
    as [(_ & Hs & Hall) | (_ & i & c & Hs & Hi & Pc & Hlow)]; rewrite Hs.
  - split; [cbn; lia |]. intros j Hj. change (N.to_nat 8) with 8 in Hj.
    destruct (nth_lt_some l8 j) as [c Hc]; [lia |].
    exists c. rewrite <- Hnth by exact Hj. split; [exact Hc |].
    apply not_ws_false, Hall. eapply nth_error_In; exact Hc.
  - rewrite Nat2N.id.
    assert (Hi8 : i < 8).
    { rewrite <- Hlen8. apply nth_error_Some. rewrite Hi. discriminate. }
    split; [lia |]. intros j Hj.
    destruct (nth_lt_some l8 j) as [d Hd]; [lia |].
    exists d. rewrite <- Hnth by lia. split; [exact Hd |].
    apply not_ws_false. apply (Hlow j d Hj Hd).
Qed.

Definition is_q (b : N) : bool := (b =? 34)%N.

Lemma swar_quote_flags : forall l8, wf_bytes l8 -> length l8 = 8 ->
  swar_quote_t2 (pack l8) = flags is_q l8.
Proof. intros l8 Hl8 Hlen8. rewrite sq_lanes by assumption. reflexivity. Qed.

Theorem swar_quote_zero : forall l : bytes,
  wf_bytes l -> 8 <= length l ->
  swar_quote_t2 (le_word 8 l) = 0%N ->
  forall j, j < 8 -> nth_error l j <> Some 34%N.
Proof.
  intros l Hl Hlen. rewrite le_word_pack.
  assert (Hl8 : wf_bytes (firstn 8 l)) by (apply firstn_wf; exact Hl).
  assert (Hlen8 : length (firstn 8 l) = 8) by (rewrite firstn_length; lia).
  assert (Hnth : forall j, j < 8 -> nth_error (firstn 8 l) j = nth_error l j)
    by (intros; apply firstn_nth; assumption).
  revert Hl8 Hlen8 Hnth. generalize (firstn 8 l). intros l8 Hl8 Hlen8 Hnth.
  rewrite (swar_quote_flags l8 Hl8 Hlen8). intros Hz j Hj Hc.
  destruct (tz_flags8 is_q l8 Hlen8) as [(_ & _ & Hall) | (Hnz & _)]; [| contradiction].
  rewrite <- Hnth in Hc by exact Hj.
  apply nth_error_In in Hc. apply Hall in Hc. discriminate.
Qed.

Theorem swar_quote_hit : forall l : bytes,
  wf_bytes l -> 8 <= length l ->
  swar_quote_t2 (le_word 8 l) <> 0%N ->
  let q := N.to_nat (N.shiftr (trailing_zeros (swar_quote_t2 (le_word 8 l))) 3) in
  q < 8 /\ nth_error l q = Some 34%N /\ forall j, j < q -> nth_error l j <> Some 34%N.
Proof.
  intros l Hl Hlen. cbv zeta. rewrite le_word_pack.
  assert (Hl8 : wf_bytes (firstn 8 l)) by (apply firstn_wf; exact Hl).
  assert (Hlen8 : length (firstn 8 l) = 8) by (rewrite firstn_length; lia).
  assert (Hnth : forall j, j < 8 -> nth_error (firstn 8 l) j = nth_error l j)
    by (intros; apply firstn_nth; assumption).
  revert Hl8 Hlen8 Hnth. generalize (firstn 8 l). intros l8 Hl8 Hlen8 Hnth.
  rewrite (swar_quote_flags l8 Hl8 Hlen8). intros Hnz.
  destruct (tz_flags8 is_q l8 Hlen8)
    as [(Hz & _) | (_ & i & c & Hs & Hi & Pc & Hlow)]; [contradiction |].
  rewrite Hs, Nat2N.id.
  assert (Hi8 : i < 8).
  { rewrite <- Hlen8. apply nth_error_Some. rewrite Hi. discriminate. }
  apply N.eqb_eq in Pc. subst c.
  split; [exact Hi8 |]. split; [rewrite <- Hnth by exact Hi8; exact Hi |].
  intros j Hj Hc. rewrite <- Hnth in Hc by lia.
  specialize (Hlow j _ Hj Hc). discriminate.
Qed.

(* ---------- contains_zero_byte finds every zero lane ---------- *)

Local Open Scope N_scope.

Lemma pack_lt' : forall l, wf_bytes l -> pack l < 256 ^ N.of_nat (length l).
Proof.
  intros l Hl. rewrite <- (map_id l) at 1. apply (pack_lt (fun b => b)); [| exact Hl].
  intros b Hb; exact Hb.
Qed.

Lemma ones_lt : forall l : list N, pack (map (fun _ => 1) l) < 256 ^ N.of_nat (length l).
Proof.
  induction l as [| a l IH]; cbn [map pack length].
  - cbn. lia.
  - rewrite Nat2N.inj_succ, N.pow_succ_r'. lia.
Qed.

Lemma first_zero : forall l : list N, In 0 l ->
  exists pre post, l = pre ++ 0 :: post /\ Forall (fun b => b <> 0) pre.
Proof.
  induction l as [| a l IH]; intros Hin; [destruct Hin |].
  destruct (N.eq_dec a 0) as [-> | Ha].
  - exists [], l. split; [reflexivity | constructor].
  - destruct Hin as [-> | Hin]; [congruence |].
    destruct (IH Hin) as (pre & post & -> & Hpre).
    exists (a :: pre), post. split; [reflexivity | constructor; assumption].
Qed.

Lemma sub_bit : forall pre post, wf_bytes (pre ++ 0 :: post) ->
  Forall (fun b => b <> 0) pre ->
  N.testbit (pack (pre ++ 0 :: post) + 256 ^ N.of_nat (length (pre ++ 0 :: post))
             - pack (map (fun _ => 1) (pre ++ 0 :: post)))
            (8 * N.of_nat (length pre) + 7) = true.
Proof.
  induction pre as [| a pre IH]; intros post Hwf Hpre.
  - cbn [app map pack length]. cbn [app] in Hwf.
    rewrite Nat2N.inj_succ, N.pow_succ_r'.
    pose proof (ones_lt post) as Ho.
    set (K := 256 ^ N.of_nat (length post)) in *.
    set (O := pack (map (fun _ => 1) post)) in *.
    set (Y := pack post).
    replace (0 + 256 * Y + 256 * K - (1 + 256 * O)) with (255 + 256 * (Y + K - 1 - O)) by lia.
    rewrite lane_bits by lia. reflexivity.
  - cbn [app map pack length]. cbn [app] in Hwf.
    inversion Hwf as [| ? ? Ha Hwf']; subst. inversion Hpre as [| ? ? Hnz Hpre']; subst.
    specialize (IH post Hwf' Hpre').
    rewrite Nat2N.inj_succ, N.pow_succ_r'.
    pose proof (ones_lt (pre ++ 0 :: post)) as Ho.
    set (K := 256 ^ N.of_nat (length (pre ++ 0 :: post))) in *.
    set (O := pack (map (fun _ => 1) (pre ++ 0 :: post))) in *.
    set (Y := pack (pre ++ 0 :: post)) in *.
    unfold wf_byte in Ha.
    replace (a + 256 * Y + 256 * K - (1 + 256 * O)) with ((a - 1) + 256 * (Y + K - O)) by lia.
    rewrite lane_bits by lia.
    rewrite Nat2N.inj_succ.
    replace (8 * N.succ (N.of_nat (length pre)) + 7 <? 8) with false
      by (symmetry; apply N.ltb_ge; lia).
    replace (8 * N.succ (N.of_nat (length pre)) + 7 - 8) with (8 * N.of_nat (length pre) + 7) by lia.
    exact IH.
Qed.

Lemma not_bit : forall pre post, wf_bytes (pre ++ 0 :: post) ->
  N.testbit (256 ^ N.of_nat (length (pre ++ 0 :: post)) - 1 - pack (pre ++ 0 :: post))
            (8 * N.of_nat (length pre) + 7) = true.
Proof.
  induction pre as [| a pre IH]; intros post Hwf.
  - cbn [app pack length]. cbn [app] in Hwf.
    inversion Hwf as [| ? ? Ha Hwf']; subst.
    rewrite Nat2N.inj_succ, N.pow_succ_r'.
    pose proof (pack_lt' post Hwf') as Hy.
    set (K := 256 ^ N.of_nat (length post)) in *.
    set (Y := pack post) in *.
    replace (256 * K - 1 - (0 + 256 * Y)) with (255 + 256 * (K - 1 - Y)) by lia.
    rewrite lane_bits by lia. reflexivity.
  - cbn [app pack length]. cbn [app] in Hwf.
    inversion Hwf as [| ? ? Ha Hwf']; subst.
    specialize (IH post Hwf').
    rewrite Nat2N.inj_succ, N.pow_succ_r'.
    pose proof (pack_lt' _ Hwf') as Hy.
    set (K := 256 ^ N.of_nat (length (pre ++ 0 :: post))) in *.
    set (Y := pack (pre ++ 0 :: post)) in *.
    unfold wf_byte in Ha.
    replace (256 * K - 1 - (a + 256 * Y)) with ((255 - a) + 256 * (K - 1 - Y)) by lia.
    rewrite lane_bits by lia.
    rewrite Nat2N.inj_succ.
    replace (8 * N.succ (N.of_nat (length pre)) + 7 <? 8) with false
      by (symmetry; apply N.ltb_ge; lia).
    replace (8 * N.succ (N.of_nat (length pre)) + 7 - 8) with (8 * N.of_nat (length pre) + 7) by lia.
    exact IH.
Qed.

Lemma czb_hi_bit : forall i, (i < 8)%nat -> N.testbit czb_hi (8 * N.of_nat i + 7) = true.
Proof.
  intros i Hi.
  do 8 (destruct i as [| i]; [vm_compute; reflexivity |]). lia.
Qed.

Lemma czb_zero_lane : forall l, wf_bytes l -> length l = 8%nat -> In 0 l ->
  contains_zero_byte (pack l) = true.
Proof.
  intros l Hl Hlen Hin.
  destruct (first_zero l Hin) as (pre & post & -> & Hpre).
  pose proof (sub_bit pre post Hl Hpre) as Hs.
  pose proof (not_bit pre post Hl) as Hn.
  pose proof (pack_lt' _ Hl) as Hlt.
  rewrite Hlen in Hs, Hn, Hlt.
  assert (Hi : (length pre < 8)%nat) by (rewrite app_length in Hlen; cbn [length] in Hlen; lia).
  pose proof (czb_hi_bit _ Hi) as Hh.
  assert (Hlo : czb_lo = pack (map (fun _ => 1) (pre ++ 0 :: post))).
  { rewrite <- (rb_const 1) by (lia || assumption). vm_compute. reflexivity. }
  rewrite <- Hlo in Hs.
  change (256 ^ N.of_nat 8) with W64 in *.
  set (x := pack (pre ++ 0 :: post)) in *.
  set (n := 8 * N.of_nat (length pre) + 7) in *.
  assert (Hn64 : n < 64) by (unfold n; lia).
  unfold contains_zero_byte.
  destruct (N.eqb_spec (N.land (N.land (wsub x czb_lo) (wnot x)) czb_hi) 0) as [E | E];
    [| reflexivity].
  exfalso.
  assert (Hb : N.testbit (N.land (N.land (wsub x czb_lo) (wnot x)) czb_hi) n = true).
  { rewrite !N.land_spec, Hh.
    unfold wsub, wnot, w64.
    rewrite (N.mod_small czb_lo) by (vm_compute; reflexivity).
    rewrite (N.mod_small x) by exact Hlt.
    change W64 with (2 ^ 64) at 2.
    rewrite N.mod_pow2_bits_low by exact Hn64.
    rewrite Hs, Hn. reflexivity. }
  rewrite E, N.bits_0 in Hb. discriminate.
Qed.

Local Open Scope nat_scope.

Theorem czb_no_backslash : forall l : bytes,
  wf_bytes l -> 8 <= length l ->
  contains_zero_byte (N.lxor (le_word 8 l) (repeat_byte 92)) = false ->
  forall j, j < 8 -> nth_error l j <> Some 92%N.
Proof.
  intros l Hl Hlen. rewrite le_word_pack.
  assert (Hl8 : wf_bytes (firstn 8 l)) by (apply firstn_wf; exact Hl).
  assert (Hlen8 : length (firstn 8 l) = 8) by (rewrite firstn_length; lia).
  assert (Hnth : forall j, j < 8 -> nth_error (firstn 8 l) j = nth_error l j)
    by (intros; apply firstn_nth; assumption).
  revert Hl8 Hlen8 Hnth. generalize (firstn 8 l). intros l8 Hl8 Hlen8 Hnth.
  rewrite (xor92_lanes l8 Hl8 Hlen8). intros Hz j Hj Hc.
  rewrite <- Hnth in Hc by exact Hj. apply nth_error_In in Hc.
  rewrite czb_zero_lane in Hz; [discriminate | | |].
  - unfold wf_bytes. apply Forall_forall. intros y Hy.
    apply in_map_iff in Hy. destruct Hy as (b & <- & Hb).
    apply lxor_small; [| lia].
    unfold wf_bytes in Hl8. rewrite Forall_forall in Hl8. apply Hl8, Hb.
  - rewrite map_length. exact Hlen8.
  - apply in_map_iff. exists 92%N. split; [reflexivity | exact Hc].
Qed.
