(* Lane reasoning for the SWAR word tricks of util.rs / date.rs (C13).
   A u64 is written as the little-endian sum of its 8-bit lanes, [lev l]; bitwise operations with
   lane-aligned masks act lane by lane, additions act lane by lane with an explicit carry. *)
From JV Require Import Bytes Tables U64Swar.
From Coq Require Import NArith ZArith Lia List Bool.
Import ListNotations.
Open Scope N_scope.

Fixpoint lev (l : list N) : N :=
  match l with [] => 0 | b :: r => b + 256 * lev r end.

Definition wfl (l : list N) : Prop := Forall (fun b => b < 256) l.

Lemma lanes_le_u64 b0 b1 b2 b3 b4 b5 b6 b7 :
  le_u64 [b0; b1; b2; b3; b4; b5; b6; b7] = lev [b0; b1; b2; b3; b4; b5; b6; b7].
Proof. reflexivity. Qed.

Lemma lanes_lev_bound l : wfl l -> lev l < 256 ^ N.of_nat (length l).
Proof.
  induction 1 as [|b r Hb Hr IH]; [cbn; lia|].
  cbn [lev length]. rewrite Nat2N.inj_succ, N.pow_succ_r'. lia.
Qed.

(* ---- bitwise operations split at any lane boundary 2^k ---- *)
Lemma lanes_split_mod k a a' : a < 2 ^ k -> (a + 2 ^ k * a') mod 2 ^ k = a.
Proof.
  intros Ha. replace (a + 2 ^ k * a') with (a + a' * 2 ^ k) by lia.
  rewrite N.mod_add by (apply N.pow_nonzero; lia). apply N.mod_small; exact Ha.
Qed.
Lemma lanes_split_div k a a' : a < 2 ^ k -> (a + 2 ^ k * a') / 2 ^ k = a'.
Proof.
  intros Ha. replace (a + 2 ^ k * a') with (a + a' * 2 ^ k) by lia.
  rewrite N.div_add by (apply N.pow_nonzero; lia). rewrite (N.div_small a) by exact Ha. lia.
Qed.

Lemma lanes_land_w k a a' m m' :
  a < 2 ^ k -> m < 2 ^ k ->
  N.land (a + 2 ^ k * a') (m + 2 ^ k * m') = N.land a m + 2 ^ k * N.land a' m'.
Proof.
  intros Ha Hm.
  set (A := a + 2 ^ k * a'). set (M := m + 2 ^ k * m').
  rewrite (N.div_mod' (N.land A M) (2 ^ k)). rewrite N.add_comm. f_equal.
  - rewrite <- N.land_ones.
    replace (N.land (N.land A M) (N.ones k)) with (N.land (N.land A (N.ones k)) (N.land M (N.ones k))).
    2:{ apply N.bits_inj; intro n; rewrite !N.land_spec.
        destruct (N.testbit A n), (N.testbit M n), (N.testbit (N.ones k) n); reflexivity. }
    rewrite !N.land_ones. unfold A, M. rewrite !lanes_split_mod by assumption. reflexivity.
  - f_equal. rewrite <- !N.shiftr_div_pow2, N.shiftr_land, !N.shiftr_div_pow2.
    unfold A, M. rewrite !lanes_split_div by assumption. reflexivity.
Qed.

Lemma lanes_lor_w k a a' m m' :
  a < 2 ^ k -> m < 2 ^ k ->
  N.lor (a + 2 ^ k * a') (m + 2 ^ k * m') = N.lor a m + 2 ^ k * N.lor a' m'.
Proof.
  intros Ha Hm.
  set (A := a + 2 ^ k * a'). set (M := m + 2 ^ k * m').
  rewrite (N.div_mod' (N.lor A M) (2 ^ k)). rewrite N.add_comm. f_equal.
  - rewrite <- N.land_ones, N.land_lor_distr_l, !N.land_ones.
    unfold A, M. rewrite !lanes_split_mod by assumption. reflexivity.
  - f_equal. rewrite <- !N.shiftr_div_pow2, N.shiftr_lor, !N.shiftr_div_pow2.
    unfold A, M. rewrite !lanes_split_div by assumption. reflexivity.
Qed.

Lemma lanes_land_8 a a' m m' :
  a < 256 -> m < 256 -> N.land (a + 256 * a') (m + 256 * m') = N.land a m + 256 * N.land a' m'.
Proof. exact (lanes_land_w 8 a a' m m'). Qed.
Lemma lanes_lor_8 a a' m m' :
  a < 256 -> m < 256 -> N.lor (a + 256 * a') (m + 256 * m') = N.lor a m + 256 * N.lor a' m'.
Proof. exact (lanes_lor_w 8 a a' m m'). Qed.

Lemma lanes_land_small a m : a < 256 -> N.land a m < 256.
Proof.
  intros Ha. change 256 with (2 ^ 8). destruct (N.eq_dec (N.land a m) 0) as [->|Hz]; [cbn; lia|].
  apply N.log2_lt_pow2; [lia|].
  eapply N.le_lt_trans; [apply N.log2_land|].
  destruct (N.eq_dec a 0) as [->|Ha0]; [rewrite N.land_0_l in Hz; lia|].
  eapply N.le_lt_trans; [apply N.le_min_l|]. apply N.log2_lt_pow2; lia.
Qed.

Lemma lanes_lor_small a m : a < 256 -> m < 256 -> N.lor a m < 256.
Proof.
  intros Ha Hm. change 256 with (2 ^ 8). destruct (N.eq_dec (N.lor a m) 0) as [->|Hz]; [cbn; lia|].
  apply N.log2_lt_pow2; [lia|]. rewrite N.log2_lor.
  destruct (N.eq_dec a 0) as [->|Ha0]; destruct (N.eq_dec m 0) as [->|Hm0];
    try (apply N.max_lub_lt; try (apply N.log2_lt_pow2; lia); cbn; lia).
Qed.

(* ---- list level ---- *)
Fixpoint map2 (f : N -> N -> N) (l m : list N) : list N :=
  match l, m with a :: l', b :: m' => f a b :: map2 f l' m' | _, _ => [] end.

Lemma lanes_land_lev l : forall m, wfl l -> wfl m -> length l = length m ->
  N.land (lev l) (lev m) = lev (map2 N.land l m).
Proof.
  induction l as [|a l IH]; intros [|b m] Hl Hm Hlen; try discriminate; [reflexivity|].
  inversion Hl; inversion Hm; subst. cbn [lev map2].
  rewrite lanes_land_8 by assumption. rewrite IH by (auto; cbn in Hlen; lia). reflexivity.
Qed.

Lemma lanes_lor_lev l : forall m, wfl l -> wfl m -> length l = length m ->
  N.lor (lev l) (lev m) = lev (map2 N.lor l m).
Proof.
  induction l as [|a l IH]; intros [|b m] Hl Hm Hlen; try discriminate; [reflexivity|].
  inversion Hl; inversion Hm; subst. cbn [lev map2].
  rewrite lanes_lor_8 by assumption. rewrite IH by (auto; cbn in Hlen; lia). reflexivity.
Qed.

Lemma lanes_lev_inj l : forall m, wfl l -> wfl m -> length l = length m -> lev l = lev m -> l = m.
Proof.
  induction l as [|a l IH]; intros [|b m] Hl Hm Hlen E; try discriminate; [reflexivity|].
  inversion Hl; inversion Hm; subst. cbn [lev] in E.
  assert (a = b) by lia. subst b. f_equal. apply IH; auto. lia.
Qed.

(* finite lane domain *)
Definition all_bytes : list N := map N.of_nat (seq 0 256).
Lemma lanes_all_bytes b : b < 256 -> In b all_bytes.
Proof.
  intros Hb. unfold all_bytes. apply in_map_iff. exists (N.to_nat b). split; [lia|]. apply in_seq. lia.
Qed.
Lemma lanes_byte_forall (P : N -> bool) :
  forallb P all_bytes = true -> forall b, b < 256 -> P b = true.
Proof. intros H b Hb. rewrite forallb_forall in H. apply H, lanes_all_bytes, Hb. Qed.

Lemma lanes_land_const l m : wfl l -> m < 256 ->
  N.land (lev l) (lev (repeat m (length l))) = lev (map (fun b => N.land b m) l).
Proof.
  intros Hl Hm. induction Hl as [|b r Hb Hr IH]; [reflexivity|].
  cbn [lev length repeat map]. rewrite lanes_land_8 by assumption. rewrite IH. reflexivity.
Qed.

Lemma lanes_wfl_land l m : wfl l -> wfl (map (fun b => N.land b m) l).
Proof. intros H. induction H; constructor; auto. apply lanes_land_small; assumption. Qed.

(* shifting right by 4 a word whose lanes are all multiples of 16 *)
Lemma lanes_mul16 l : Forall (fun b => b mod 16 = 0) l -> lev l = 16 * lev (map (fun b => b / 16) l).
Proof.
  induction 1 as [|b r Hb Hr IH]; [reflexivity|].
  cbn [lev map]. rewrite IH at 1. pose proof (N.div_mod' b 16). lia.
Qed.
Lemma lanes_div16 l : Forall (fun b => b mod 16 = 0) l -> lev l / 16 = lev (map (fun b => b / 16) l).
Proof. intros H. rewrite (lanes_mul16 l H), N.mul_comm, N.div_mul by lia. reflexivity. Qed.

(* ---- val + 0x0606..06 lane by lane, with the carry made explicit ---- *)
Fixpoint add6_lanes (c : N) (l : list N) : list N :=
  match l with
  | [] => []
  | b :: r => let s := b + 6 + c in (s mod 256) :: add6_lanes (s / 256) r
  end.

Lemma lanes_add6_wfl l : forall c, wfl (add6_lanes c l).
Proof. induction l as [|b r IH]; intros c; constructor; [apply N.mod_lt; lia|apply IH]. Qed.
Lemma lanes_add6_len l : forall c, length (add6_lanes c l) = length l.
Proof. induction l as [|b r IH]; intros c; cbn; auto. Qed.

Lemma lanes_add6 l : forall c, wfl l -> c <= 1 ->
  (lev l + lev (repeat 6 (length l)) + c) mod 256 ^ N.of_nat (length l) = lev (add6_lanes c l).
Proof.
  induction l as [|b r IH]; intros c Hl Hc.
  - cbn. apply N.mod_1_r.
  - inversion Hl as [|? ? Hb Hr]; subst.
    cbn [lev length repeat add6_lanes]. rewrite Nat2N.inj_succ, N.pow_succ_r'.
    set (s := b + 6 + c). set (V := lev r). set (A := lev (repeat 6 (length r))).
    assert (Hs : s / 256 <= 1).
    { unfold s. apply N.lt_succ_r. apply N.div_lt_upper_bound; lia. }
    rewrite <- (IH (s / 256) Hr Hs). fold V A.
    replace (b + 256 * V + (6 + 256 * A) + c) with (s + (V + A) * 256) by (unfold s; lia).
    rewrite N.mod_mul_r by (try apply N.pow_nonzero; lia).
    rewrite N.mod_add, N.div_add by lia. f_equal. f_equal. f_equal. lia.
Qed.

(* ---- per-lane facts, checked over all 256 byte values ---- *)
Definition tlane (b c : N) : N := N.lor (N.land b 240) (N.land ((b + 6 + c) mod 256) 240 / 16).

Lemma lanes_digit_facts :
  forallb (fun b => Bool.eqb (tlane b 0 =? 51) (is_digit b)
                    && (negb (is_digit b) || (((b + 6 + 0) / 256 =? 0) && (N.land b 15 =? b - 48) && (b - 48 <=? 9) && (48 <=? b))))
          all_bytes = true.
Proof. vm_compute. reflexivity. Qed.

Lemma lanes_tlane_digit b : b < 256 -> (tlane b 0 = 51 <-> is_digit b = true).
Proof.
  intros Hb. pose proof (lanes_byte_forall _ lanes_digit_facts b Hb) as H. cbv beta in H.
  apply andb_prop in H as [H _]. apply eqb_prop in H. rewrite <- H. apply iff_sym, N.eqb_eq.
Qed.
Lemma lanes_digit_low b : b < 256 -> is_digit b = true ->
  (b + 6 + 0) / 256 = 0 /\ N.land b 15 = b - 48 /\ b - 48 <= 9 /\ 48 <= b.
Proof.
  intros Hb Hd. pose proof (lanes_byte_forall _ lanes_digit_facts b Hb) as H. cbv beta in H.
  apply andb_prop in H as [_ H]. rewrite Hd in H. cbn [negb orb] in H.
  apply andb_prop in H as [H H4]. apply andb_prop in H as [H H3]. apply andb_prop in H as [H1 H2].
  apply N.eqb_eq in H1, H2. apply N.leb_le in H3, H4. auto.
Qed.

Definition test_lanes (l : list N) : list N :=
  map2 N.lor (map (fun b => N.land b 240) l) (map (fun y => y / 16) (map (fun y => N.land y 240) (add6_lanes 0 l))).

Lemma lanes_test_unfold b r :
  test_lanes (b :: r) =
  tlane b 0 :: map2 N.lor (map (fun b => N.land b 240) r)
                 (map (fun y => y / 16) (map (fun y => N.land y 240) (add6_lanes ((b + 6 + 0) / 256) r))).
Proof. reflexivity. Qed.

Lemma lanes_test_digits l : wfl l -> (test_lanes l = repeat 51 (length l) <-> forallb is_digit l = true).
Proof.
  induction 1 as [|b r Hb Hr IH]; [split; reflexivity|].
  rewrite lanes_test_unfold. cbn [length repeat forallb]. rewrite andb_true_iff. split.
  - intros E. injection E as E1 E2. apply (lanes_tlane_digit b Hb) in E1.
    destruct (lanes_digit_low b Hb E1) as (C & _). rewrite C in E2.
    split; [exact E1|]. apply IH. exact E2.
  - intros [E1 E2]. destruct (lanes_digit_low b Hb E1) as (C & _). rewrite C.
    apply (lanes_tlane_digit b Hb) in E1. rewrite E1. f_equal. apply IH, E2.
Qed.

Lemma lanes_mod16_land240 l : Forall (fun b => b mod 16 = 0) (map (fun y => N.land y 240) l).
Proof.
  induction l as [|b r IH]; constructor; auto.
  change (N.land b 240 mod 2 ^ 4 = 0). rewrite <- N.land_ones, <- N.land_assoc.
  change (N.land 240 (N.ones 4)) with 0. apply N.land_0_r.
Qed.

Lemma lanes_map2_len f l : forall m, length l = length m -> length (map2 f l m) = length l.
Proof. induction l as [|a l IH]; intros [|b m] H; try discriminate; cbn; auto. Qed.
Lemma lanes_map2_lor_wfl l : forall m, wfl l -> wfl m -> wfl (map2 N.lor l m).
Proof.
  induction l as [|a l IH]; intros [|b m] Hl Hm; try constructor.
  - inversion Hl; inversion Hm; subst. apply lanes_lor_small; assumption.
  - inversion Hl; inversion Hm; subst. apply IH; assumption.
Qed.
Lemma lanes_wfl_div16 l : wfl l -> wfl (map (fun y => y / 16) l).
Proof.
  induction 1; constructor; auto. eapply N.le_lt_trans; [apply N.div_le_upper_bound with (q := x); lia|assumption].
Qed.
Lemma lanes_wfl_repeat m n : m < 256 -> wfl (repeat m n).
Proof. intros H. induction n; constructor; auto. Qed.

(* the is_digits test of fast_digit_parse, for any 8 lanes *)
Lemma lanes_digit_test l :
  wfl l -> length l = 8%nat ->
  (N.lor (N.land (lev l) fdp_mask_hi) (wshr (N.land (wadd (lev l) fdp_add6) fdp_mask_hi) 4) =? fdp_threes)
  = forallb is_digit l.
Proof.
  intros Hl Hlen.
  change fdp_mask_hi with (lev (repeat 240 8)). change fdp_add6 with (lev (repeat 6 8)).
  change fdp_threes with (lev (repeat 51 8)). rewrite <- Hlen.
  unfold wadd, w64. change W64 with (256 ^ N.of_nat 8). rewrite <- Hlen.
  replace (lev l + lev (repeat 6 (length l))) with (lev l + lev (repeat 6 (length l)) + 0) by lia.
  rewrite (lanes_add6 l 0 Hl) by lia.
  rewrite (lanes_land_const l 240 Hl) by lia.
  replace (lev (repeat 240 (length l))) with (lev (repeat 240 (length (add6_lanes 0 l))))
    by (rewrite lanes_add6_len; reflexivity).
  rewrite (lanes_land_const _ 240 (lanes_add6_wfl l 0)) by lia.
  unfold wshr. rewrite N.shiftr_div_pow2. change (2 ^ 4) with 16.
  rewrite lanes_div16 by apply lanes_mod16_land240.
  assert (W1 : wfl (map (fun b => N.land b 240) l)) by (apply lanes_wfl_land; assumption).
  assert (W2 : wfl (map (fun y => y / 16) (map (fun y => N.land y 240) (add6_lanes 0 l))))
    by (apply lanes_wfl_div16, lanes_wfl_land, lanes_add6_wfl).
  assert (L2 : length (map (fun b => N.land b 240) l) = length (map (fun y => y / 16) (map (fun y => N.land y 240) (add6_lanes 0 l))))
    by (rewrite !map_length, lanes_add6_len; reflexivity).
  rewrite lanes_lor_lev by assumption. fold (test_lanes l).
  destruct (forallb is_digit l) eqn:E.
  - apply (lanes_test_digits l Hl) in E. rewrite E. apply N.eqb_refl.
  - apply N.eqb_neq. intros Heq. apply lanes_lev_inj in Heq.
    + apply (lanes_test_digits l Hl) in Heq. congruence.
    + apply lanes_map2_lor_wfl; assumption.
    + apply lanes_wfl_repeat; lia.
    + unfold test_lanes. rewrite lanes_map2_len by assumption. rewrite map_length, repeat_length. reflexivity.
Qed.

(* ---- the three multiply-shift steps, for 8 decimal digits ---- *)
Lemma lanes_step1 d0 d1 d2 d3 d4 d5 d6 d7 :
  d0 <= 9 -> d1 <= 9 -> d2 <= 9 -> d3 <= 9 -> d4 <= 9 -> d5 <= 9 -> d6 <= 9 -> d7 <= 9 ->
  wshr (wmul (lev [d0; d1; d2; d3; d4; d5; d6; d7]) fdp_mul1) 8 =
  lev [10 * d0 + d1; 10 * d1 + d2; 10 * d2 + d3; 10 * d3 + d4; 10 * d4 + d5; 10 * d5 + d6; 10 * d6 + d7; 0].
Proof.
  intros. unfold wshr, wmul, w64, fdp_mul1, W64. rewrite N.shiftr_div_pow2. change (2 ^ 8) with 256.
  cbn [lev].
  set (R := 10 * d0 + d1 + 256 * (10 * d1 + d2 + 256 * (10 * d2 + d3 + 256 * (10 * d3 + d4 + 256 *
            (10 * d4 + d5 + 256 * (10 * d5 + d6 + 256 * (10 * d6 + d7 + 256 * (0 + 256 * 0)))))))).
  assert (HR : R < 72057594037927936) by (unfold R; lia).
  rewrite <- (N.mod_unique _ 18446744073709551616 (10 * d7) (d0 + 256 * R)); [| lia | unfold R; lia].
  symmetry. apply (N.div_unique _ 256 R d0); lia.
Qed.

Lemma lanes_land_255 p : p < 256 -> N.land p 255 = p.
Proof. intros H. change 255 with (N.ones 8). rewrite N.land_ones. apply N.mod_small. exact H. Qed.

Lemma lanes_step2 p0 x1 p1 x2 p2 x3 p3 :
  p0 <= 99 -> x1 <= 99 -> p1 <= 99 -> x2 <= 99 -> p2 <= 99 -> x3 <= 99 -> p3 <= 99 ->
  wshr (wmul (N.land (lev [p0; x1; p1; x2; p2; x3; p3; 0]) fdp_mask2) fdp_mul2) 16 =
  (100 * p0 + p1) + 65536 * (100 * p1 + p2) + 4294967296 * (100 * p2 + p3).
Proof.
  intros. change fdp_mask2 with (lev [255; 0; 255; 0; 255; 0; 255; 0]).
  rewrite lanes_land_lev; [| repeat constructor; lia | repeat constructor; lia | reflexivity].
  cbn [map2]. rewrite !N.land_0_r, !lanes_land_255 by lia.
  unfold wshr, wmul, w64, fdp_mul2, W64. rewrite N.shiftr_div_pow2. change (2 ^ 16) with 65536.
  cbn [lev].
  set (R := (100 * p0 + p1) + 65536 * (100 * p1 + p2) + 4294967296 * (100 * p2 + p3)).
  assert (HR : R < 281474976710656) by (unfold R; lia).
  rewrite <- (N.mod_unique _ 18446744073709551616 (100 * p3) (p0 + 65536 * R)); [| lia | unfold R; lia].
  symmetry. apply (N.div_unique _ 65536 R p0); lia.
Qed.

Lemma lanes_step3 q0 x q1 :
  q0 <= 9999 -> x <= 9999 -> q1 <= 9999 ->
  wshr (wmul (N.land (q0 + 65536 * x + 4294967296 * q1) fdp_mask3) fdp_mul3) 32 = 10000 * q0 + q1.
Proof.
  intros. change fdp_mask3 with (65535 + 2 ^ 32 * 65535). change 4294967296 with (2 ^ 32).
  rewrite lanes_land_w by (change (2 ^ 32) with 4294967296; lia).
  change 65535 with (N.ones 16). rewrite !N.land_ones.
  change (2 ^ 16) with 65536.
  replace ((q0 + 65536 * x) mod 65536) with q0
    by (replace (q0 + 65536 * x) with (q0 + x * 65536) by lia; rewrite N.mod_add by lia; symmetry; apply N.mod_small; lia).
  rewrite (N.mod_small q1) by lia.
  unfold wshr, wmul, w64, fdp_mul3, W64. rewrite N.shiftr_div_pow2. change (2 ^ 32) with 4294967296.
  rewrite <- (N.mod_unique _ 18446744073709551616 (10000 * q1) (q0 + 4294967296 * (10000 * q0 + q1))); [| lia | lia].
  symmetry. apply (N.div_unique _ 4294967296 (10000 * q0 + q1) q0); lia.
Qed.

(* decimal value of a digit string, most significant first *)
Definition dec_val (l : list N) : N := fold_left (fun acc b => 10 * acc + (b - 48)) l 0.

Theorem fast_digit_parse_spec b0 b1 b2 b3 b4 b5 b6 b7 :
  wfl [b0; b1; b2; b3; b4; b5; b6; b7] ->
  fast_digit_parse (le_u64 [b0; b1; b2; b3; b4; b5; b6; b7]) =
  if forallb is_digit [b0; b1; b2; b3; b4; b5; b6; b7]
  then Some (dec_val [b0; b1; b2; b3; b4; b5; b6; b7]) else None.
Proof.
  intros Hl. rewrite lanes_le_u64. unfold fast_digit_parse.
  rewrite (lanes_digit_test _ Hl eq_refl).
  destruct (forallb is_digit [b0; b1; b2; b3; b4; b5; b6; b7]) eqn:E; [|reflexivity].
  cbn [negb]. f_equal.
  change fdp_mask_lo with (lev (repeat 15 (length [b0; b1; b2; b3; b4; b5; b6; b7]))).
  rewrite (lanes_land_const _ 15 Hl) by lia. cbn [map].
  cbn [forallb] in E. repeat (apply andb_prop in E as [? E]).
  repeat match goal with
  | H : Forall _ (_ :: _) |- _ => inversion H; clear H; subst
  | H : wfl (_ :: _) |- _ => inversion H; clear H; subst
  end.
  repeat match goal with
  | Hb : ?b < 256, Hd : is_digit ?b = true |- _ =>
      let L := fresh "L" in let B := fresh "B" in let G := fresh "G" in
      destruct (lanes_digit_low b Hb Hd) as (_ & L & B & G); rewrite L; clear Hd
  end.
  rewrite lanes_step1 by assumption.
  rewrite lanes_step2 by lia.
  rewrite lanes_step3 by lia.
  unfold dec_val. cbn [fold_left]. lia.
Qed.

(* non-vacuity / sanity: "14441111" and a near miss *)
Example fast_digit_parse_ex :
  fast_digit_parse (le_u64 [49; 52; 52; 52; 49; 49; 49; 49]) = Some 14441111 /\
  fast_digit_parse (le_u64 [49; 52; 52; 52; 49; 58; 49; 49]) = None.
Proof. split; vm_compute; reflexivity. Qed.
