(* C01, wave 4 (a_c01): statements about `parse` for ALL byte strings (fuel irrelevance, BOM,
   left padding), the unterminated trailing comment, the optional `=` before `{`, and the
   cfg(not(x86_64)) quote scanner. *)
From JV Require Import Bytes Tables U64Swar TextTok TextTape TextTapeWf TextDoc TextTapeMore.
From JV.proofs Require Import TextScanProofs TextParseProofs TextTapeInvProofs SwarProofs.
From Coq Require Import Lia List Arith.
Import ListNotations.
Open Scope nat_scope.

(* ------------------------------------------------------------------ 1. fuel is irrelevant above the measure *)
Lemma ploop_fuel_irrel : forall f1 f2 s, Inv s -> mu s < f1 -> mu s < f2 -> ploop f1 s = ploop f2 s.
Proof.
  induction f1 as [|f1 IH]; intros f2 s HI H1 H2; [lia|].
  destruct f2 as [|f2]; [lia|]. cbn [ploop].
  pose proof (step_post s HI) as P.
  destruct (step s) as [s'|t|e|x]; cbn [post] in P; try reflexivity.
  destruct P as [HI' L']. apply IH; [exact HI' | lia | lia].
Qed.

Lemma ploop_same f s s' : same_upto_ws s s' -> ploop f s = ploop f s'.
Proof. intros E. destruct f as [|f]; [reflexivity|]. cbn [ploop]. rewrite (step_same _ _ E). reflexivity. Qed.

Definition init (d : bytes) : pstate := mkps d SKey false 0 [].

Lemma parse_no_bom d : has_bom d = false ->
  parse d = omap (fun t => (t, false)) (ploop (2 * length d + 8) (init d)).
Proof. intros H. rewrite parse_unfold, H. reflexivity. Qed.

Lemma mu_init d : mu (init d) = 2 * length d.
Proof. unfold mu, init. cbn [pdata pst_]. lia. Qed.

(* ------------------------------------------------------------------ 2. the BOM, for every byte string *)
Theorem bom_transparent : forall d, has_bom d = false ->
  parse (bom_bytes ++ d) = omap (fun p => (fst p, true)) (parse d).
Proof.
  intros d H. rewrite (parse_no_bom d H). rewrite parse_unfold.
  cbn [bom_bytes app has_bom skipn]. fold (init d).
  rewrite (ploop_fuel_irrel (2 * length (239%N :: 187%N :: 191%N :: d) + 8) (2 * length d + 8) (init d));
    [| apply Inv_init | rewrite mu_init; cbn [length]; lia | rewrite mu_init; lia].
  destruct (ploop (2 * length d + 8) (init d)); reflexivity.
Qed.

Theorem parse_bom_flag : forall input t b, parse input = Ok (t, b) -> b = has_bom input.
Proof.
  intros input t b. rewrite parse_unfold.
  destruct (ploop _ _); cbn; intros H; inversion H. reflexivity.
Qed.

(* ------------------------------------------------------------------ 3. left padding, for every byte string *)
Theorem left_padding_all_inputs : forall pad d, gap_ok pad -> has_bom d = false ->
  parse (pad ++ d) = parse d.
Proof.
  intros pad d Hp Hd.
  destruct pad as [|c pad']; [reflexivity|].
  assert (Hb : has_bom ((c :: pad') ++ d) = false) by (apply gap_hd_not_bom; [exact Hp | discriminate]).
  rewrite (parse_no_bom _ Hb), (parse_no_bom _ Hd). f_equal.
  rewrite (ploop_same _ (init ((c :: pad') ++ d)) (init d)).
  - apply ploop_fuel_irrel; [apply Inv_init | rewrite mu_init, app_length; lia | rewrite mu_init; lia].
  - unfold same_upto_ws, init. cbn [pst_ pmixed pparent ptape pdata]. repeat split.
    apply skip_ws_gap. exact Hp.
Qed.

(* ------------------------------------------------------------------ 4. an unterminated comment at the end of the input *)
Lemma skip_ws_open_comment body : Forall (fun b => b <> 10%N) body -> skip_ws_c true body = None.
Proof.
  induction 1 as [|c body Hc _ IH]; cbn [skip_ws_c]; [reflexivity|].
  unfold beq. destruct (N.eqb_spec c 10); [congruence | exact IH].
Qed.

Lemma skip_ws_tail_comment g body : gap_ok g -> Forall (fun b => b <> 10%N) body ->
  skip_ws_t (g ++ 35%N :: body) = None.
Proof.
  intros Hg Hb. rewrite skip_ws_gap by exact Hg. unfold skip_ws_t. cbn [skip_ws_c].
  change (is_ws_t 35) with false. change (beq 35 35) with true. cbn match. apply skip_ws_open_comment, Hb.
Qed.

Lemma render_toks_snoc g ts t : forall i,
  render_toks g (ts ++ [t]) i = render_toks g ts i ++ fst t ++ g (S (i + length ts)).
Proof.
  induction ts as [|a ts IH]; intros i; cbn [app render_toks length].
  - rewrite Nat.add_0_r. reflexivity.
  - rewrite IH. rewrite <- !app_assoc. replace (S (S i + length ts)) with (S (i + S (length ts))) by lia. reflexivity.
Qed.

Lemma render_toks_ext_le g g' ts : forall i,
  (forall j, i <= j <= i + length ts -> g j = g' j) -> render_toks g ts i = render_toks g' ts i.
Proof.
  induction ts as [|t ts IH]; intros i H; cbn [render_toks length] in *.
  - apply H. lia.
  - rewrite (H i) by lia. rewrite (IH (S i)); [reflexivity|]. intros j Hj. apply H. lia.
Qed.

Lemma sep_ok_ext_le g g' ts : forall i,
  (forall j, i < j <= i + length ts -> g j = g' j) -> sep_ok g ts i -> sep_ok g' ts i.
Proof.
  induction ts as [|t ts IH]; intros i H; cbn [sep_ok length] in *; [auto|].
  intros [H1 H2]. split.
  - intros Ht. rewrite <- (render_toks_ext_le g g' ts (S i)); [auto|]. intros j Hj. apply H. lia.
  - apply IH; [|exact H2]. intros j Hj. apply H. lia.
Qed.

Lemma starts_boundary_comment a rest : starts_boundary a -> starts_boundary (a ++ 35%N :: rest).
Proof. destruct a as [|c a]; cbn [app starts_boundary]; [intros _; reflexivity | auto]. Qed.

Lemma sep_ok_snoc_comment g ts body : forall i,
  sep_ok g ts i -> sep_ok g (ts ++ [comment_tok body]) i.
Proof.
  induction ts as [|t ts IH]; intros i H; cbn [app sep_ok].
  - split; [cbn; discriminate | exact I].
  - destruct H as [H1 H2]. split; [|apply IH; exact H2].
    intros Ht. rewrite render_toks_snoc. cbn [comment_tok fst app]. apply starts_boundary_comment. auto.
Qed.

Lemma has_bom_app_comment x rest : has_bom x = false -> has_bom (x ++ 35%N :: rest) = false.
Proof.
  destruct x as [|a [|b [|c x]]]; cbn [app has_bom]; try reflexivity.
  - destruct a as [|p]; [reflexivity|]. repeat (destruct p as [p|p|]; try reflexivity).
  - destruct a as [|p]; [reflexivity|]. repeat (destruct p as [p|p|]; try reflexivity).
    destruct b as [|q]; [reflexivity|]. repeat (destruct q as [q|q|]; try reflexivity).
  - auto.
Qed.

Theorem parse_render_trailing_comment : forall d l body,
  wf_doc d -> wf_layout d l -> Forall (fun b => b <> 10%N) body ->
  parse (render d l ++ 35%N :: body) = Ok (flatten d, bom l).
Proof.
  intros d l body Hwf (Hg & Hsep & Hbom) Hb.
  set (ts := toks_fields d). set (n := length ts).
  set (g' := fun j => if Nat.eqb j (S n) then [] else gap l j).
  assert (Hg' : forall j, gap_ok (g' j)).
  { intros j. unfold g'. destruct (Nat.eqb j (S n)); [constructor | apply Hg]. }
  assert (Hr : render_toks (gap l) ts 0 ++ 35%N :: body = render_toks g' (ts ++ [comment_tok body]) 0).
  { rewrite render_toks_snoc. cbn [comment_tok fst Nat.add]. fold n. unfold g' at 2. rewrite Nat.eqb_refl, app_nil_r.
    f_equal. apply render_toks_ext_le. intros j Hj. unfold g'. fold n in Hj.
    destruct (Nat.eqb_spec j (S n)); [lia | reflexivity]. }
  assert (Hsep' : sep_ok g' (ts ++ [comment_tok body]) 0).
  { apply sep_ok_snoc_comment. eapply sep_ok_ext_le; [|exact Hsep]. intros j Hj. unfold g'. fold ts n in Hj.
    destruct (Nat.eqb_spec j (S n)); [lia | reflexivity]. }
  destruct (proj1 (proj2 (proj2 full_all)) d Hwf) as [HF _].
  specialize (HF g' 0 [comment_tok body] [] 0 Hg' Hsep' (or_introl (conj eq_refl eq_refl))).
  cbn [app Nat.add length] in HF. fold ts n in HF.
  assert (Hend : step (mkps (render_toks g' [comment_tok body] n) SKey false 0 (flat_fields false 0 d)) = Done (flat_fields false 0 d)).
  { unfold step. cbn [pdata pst_ pmixed pparent ptape render_toks comment_tok fst].
    unfold g' at 2. rewrite Nat.eqb_refl, app_nil_r.
    rewrite skip_ws_tail_comment; [reflexivity | apply Hg' | exact Hb]. }
  rewrite parse_unfold. unfold render in *. fold ts in Hbom |- *.
  destruct (bom l) eqn:Eb.
  - rewrite <- app_assoc, Hr. cbn [bom_bytes app has_bom skipn length].
    erewrite ploop_reaches; [reflexivity | exact HF | exact Hend |].
    unfold meas. cbn [pdata pst_ phi]. lia.
  - cbn [app] in *. rewrite (has_bom_app_comment _ _ (Hbom eq_refl)), Hr.
    erewrite ploop_reaches; [reflexivity | exact HF | exact Hend |].
    unfold meas. cbn [pdata pst_ phi]. lia.
Qed.

(* ------------------------------------------------------------------ 5. the optional `=` before `{` *)
Lemma ne_op_toks op : op_toks false (ne_op op) = op_toks false op.
Proof. destruct op as [[]|]; reflexivity. Qed.

Lemma ne_values_nonempty vs : values_nonempty (ne_values vs) = values_nonempty vs.
Proof. destruct vs; reflexivity. Qed.

Lemma ne_flat :
  (forall v off, flat_value off (ne_value v) = flat_value off v) /\
  (forall f off, flat_field false off (ne_field f) = flat_field false off f) /\
  (forall fs off, flat_fields false off (ne_fields fs) = flat_fields false off fs) /\
  (forall vs off, flat_values off (ne_values vs) = flat_values off vs).
Proof.
  apply doc_mutind.
  - reflexivity.
  - intros fs Hfs tl Htl off. cbn [ne_value flat_value]. rewrite Hfs, ne_values_nonempty.
    destruct tl as [|v tl']; [reflexivity|].
    change (ne_values (VCons v tl')) with (VCons (ne_value v) (ne_values tl')).
    change (VCons (ne_value v) (ne_values tl')) with (ne_values (VCons v tl')). rewrite Htl. reflexivity.
  - intros items H off. cbn [ne_value flat_value]. rewrite H. reflexivity.
  - intros items H kvs _ off. cbn [ne_value flat_value]. rewrite H. reflexivity.
  - intros name v H off. cbn [ne_value flat_value]. rewrite H. reflexivity.
  - intros k key op v H off. cbn [ne_field flat_field]. rewrite ne_op_toks, H. reflexivity.
  - reflexivity.
  - intros name u fs H off. cbn [ne_field flat_field]. rewrite H. reflexivity.
  - reflexivity.
  - intros f Hf fs Hfs off. cbn [ne_fields flat_fields]. rewrite Hf, Hfs. reflexivity.
  - reflexivity.
  - intros v Hv vs Hvs off. cbn [ne_values flat_values]. rewrite Hv, Hvs. reflexivity.
Qed.

Theorem flatten_norm_eq : forall d, flatten (norm_eq d) = flatten d.
Proof. intros d. apply (proj1 (proj2 (proj2 ne_flat))). Qed.

Theorem eq_before_brace_optional : forall d1 d2 l1 l2,
  wf_doc d1 -> wf_doc d2 -> norm_eq d1 = norm_eq d2 -> wf_layout d1 l1 -> wf_layout d2 l2 ->
  omap fst (parse (render d1 l1)) = omap fst (parse (render d2 l2)).
Proof.
  intros d1 d2 l1 l2 H1 H2 E L1 L2. rewrite !parse_render by assumption. cbn.
  rewrite <- (flatten_norm_eq d1), <- (flatten_norm_eq d2), E. reflexivity.
Qed.

(* ------------------------------------------------------------------ 6. the quote scanner of the other architectures *)
Lemma has_byte blk c : bytes8 blk -> (c < 256)%N ->
  contains_zero_byte (N.lxor (le_word 8 blk) (repeat_byte c)) = existsb (fun b => beq b c) blk.
Proof. intros Hb Hc. rewrite chunk_has_byte_spec by assumption. reflexivity. Qed.

Lemma find_idx_none_existsb p l : forall k, find_idx p l k = None -> existsb p l = false.
Proof.
  induction l as [|c l IH]; intros k; cbn [find_idx existsb]; [reflexivity|].
  destruct (p c); [discriminate | apply IH].
Qed.

Lemma find_idx_some_existsb p l : forall k i, find_idx p l k = Some i -> existsb p l = true.
Proof.
  induction l as [|c l IH]; intros k i; cbn [find_idx existsb]; [discriminate|].
  destruct (p c); [reflexivity | apply IH].
Qed.

Lemma pq_swar_sound fuel : forall h ptr k,
  Forall (fun b => (b < 256)%N) h -> ptr = 8 * k ->
  existsb (fun x => beq x 92) (firstn ptr h) = false ->
  find_idx (fun x => beq x 34) (firstn ptr h) 0 = None ->
  match pq_swar fuel h ptr with
  | PQFound i => tq_scan h 0 = Some i
  | PQFallback => True
  | PQRunaway => False
  end.
Proof.
  induction fuel as [|f IH]; intros h ptr k Hby Hk Hbs Hq; [exact I|].
  cbn [pq_swar].
  destruct (Nat.ltb ptr (length h / 8 * 8)) eqn:Hlt; [|exact I].
  apply Nat.ltb_lt in Hlt.
  assert (Hle : length h / 8 * 8 <= length h).
  { rewrite Nat.mul_comm. apply Nat.mul_div_le. lia. }
  assert (Hfit : ptr + 8 <= length h) by lia.
  assert (Hsplit : h = firstn ptr h ++ firstn 8 (skipn ptr h) ++ skipn 8 (skipn ptr h)).
  { rewrite (firstn_skipn 8 (skipn ptr h)), firstn_skipn. reflexivity. }
  assert (Hlen : length (firstn ptr h) = ptr) by (rewrite firstn_length; lia).
  assert (Hb8 : bytes8 (firstn 8 (skipn ptr h))).
  { split.
    - rewrite firstn_length, skipn_length. lia.
    - rewrite Hsplit in Hby. apply Forall_app in Hby. destruct Hby as [_ Hby].
      apply Forall_app in Hby. tauto. }
  rewrite !has_byte by (exact Hb8 || reflexivity).
  destruct (existsb (fun b => beq b 92) (firstn 8 (skipn ptr h))) eqn:Hblkbs; [exact I|].
  destruct (existsb (fun b => beq b 34) (firstn 8 (skipn ptr h))) eqn:Hblkq.
  - destruct (find_idx (fun b => beq b 34) (firstn 8 (skipn ptr h)) ptr) as [j|] eqn:Hblk.
    + rewrite Hsplit, tq_scan_app_plain by exact Hbs. rewrite Hq, Hlen. cbn [Nat.add].
      rewrite tq_scan_app_plain by exact Hblkbs. rewrite Hblk. reflexivity.
    + apply find_idx_none_existsb in Hblk. congruence.
  - apply (IH h (ptr + 8) (S k)); [exact Hby | lia | |].
    + rewrite firstn_add, existsb_app, Hbs, Hblkbs. reflexivity.
    + rewrite firstn_add, find_idx_app, Hq, Hlen. cbn [Nat.add].
      destruct (find_idx (fun x => beq x 34) (firstn 8 (skipn ptr h)) ptr) eqn:E; [|reflexivity].
      apply find_idx_some_existsb in E. congruence.
Qed.

Theorem quote_scalar_swar_spec : forall c h, Forall (fun b => (b < 256)%N) h ->
  parse_quote_scalar_swar (c :: h) =
  match tq_scan h 0 with
  | Some i => Ok (firstn i h, skipn (S i) h)
  | None => Err E_TextErr
  end.
Proof.
  intros c h Hby. cbn [parse_quote_scalar_swar].
  pose proof (pq_swar_sound (S (length h)) h 0 0 Hby eq_refl eq_refl eq_refl) as P.
  destruct (pq_swar (S (length h)) h 0) as [i| |]; [rewrite P; reflexivity | reflexivity | destruct P].
Qed.

Corollary quote_scalar_arch_independent : forall c h, Forall (fun b => (b < 256)%N) h ->
  parse_quote_scalar_swar (c :: h) = parse_quote_scalar (c :: h).
Proof. intros c h H. rewrite quote_scalar_swar_spec by exact H. rewrite quote_scalar_spec. reflexivity. Qed.

Theorem split_at_scalar_arch_independent : forall d, split_at_scalar_plain d = split_at_scalar d.
Proof.
  intros d. destruct d as [|c d]; [reflexivity|].
  unfold split_at_scalar_plain, split_at_scalar. rewrite split_idx_spec.
  unfold split_at_scalar_fallback_idx, first_boundary. reflexivity.
Qed.

(* ------------------------------------------------------------------ 7. witnesses (closed terms, by computation) *)
Open Scope N_scope.
Definition sp_layout : layout := mkLayout false (fun _ => [32%N]).
Open Scope nat_scope.
Open Scope N_scope.
Definition amb_obj : doc :=   (* a = { k { x } }  meant as  a = { k = { x } } *)
  FCons (Field Unq [97] (Some Equal)
     (VObject (FCons (Field Unq [107] None (VArray (VCons (VScalar Unq [120]) VNil))) FNil) VNil)) FNil.
Definition amb_arr : doc :=   (* a = { k { x } }  as the array [k, [x]] *)
  FCons (Field Unq [97] (Some Equal)
     (VArray (VCons (VScalar Unq [107]) (VCons (VArray (VCons (VScalar Unq [120]) VNil)) VNil)))) FNil.
Open Scope nat_scope.

Open Scope N_scope.
Definition first_op_doc (o : operator) : doc :=   (* a = { k <o> v } *)
  FCons (Field Unq [97] (Some Equal)
     (VObject (FCons (Field Unq [107] (Some o) (VScalar Unq [118])) FNil) VNil)) FNil.
Definition kv_exists_doc : doc :=                 (* a = { 1 k ?= v } *)
  FCons (Field Unq [97] (Some Equal)
     (VArrayKv (VCons (VScalar Unq [49]) VNil) (FCons (Field Unq [107] (Some TextTok.Exists) (VScalar Unq [118])) FNil))) FNil.
Open Scope nat_scope.


Lemma first_member_no_eq_ambiguous :
  wf_doc amb_arr /\ (forall l, render amb_obj l = render amb_arr l) /\ flatten amb_obj <> flatten amb_arr /\
  parse (render amb_obj sp_layout) = Ok (flatten amb_arr, false).
Proof. repeat split; try reflexivity; try discriminate. Qed.

Lemma first_ne_refuted :
  wf_layout (first_op_doc NotEqual) sp_layout /\
  flatten (first_op_doc NotEqual) = [TUnquoted [97%N]; TObject 5 false; TUnquoted [107%N]; TOperator NotEqual; TUnquoted [118%N]; TEnd 1] /\
  parse (render (first_op_doc NotEqual) sp_layout) =
    Ok ([TUnquoted [97%N]; TArray 6 true; TMixedContainer; TUnquoted [107%N]; TOperator NotEqual; TUnquoted [118%N]; TEnd 1], false).
Proof.
  split; [|split; reflexivity].
  split; [intros i; apply gap_okb_sound; reflexivity|]. split; [cbn; repeat split; intros; reflexivity || exact I | reflexivity].
Qed.

Lemma exists_op_lost_refuted :
  In (TOperator TextTok.Exists) (flatten (first_op_doc TextTok.Exists)) /\
  parse (render (first_op_doc TextTok.Exists) sp_layout) =
    Ok ([TUnquoted [97%N]; TArray 7 true; TUnquoted [107%N]; TMixedContainer; TUnquoted [63%N]; TOperator Equal; TUnquoted [118%N]; TEnd 1], false) /\
  In (TOperator TextTok.Exists) (flatten kv_exists_doc) /\
  parse (render kv_exists_doc sp_layout) =
    Ok ([TUnquoted [97%N]; TArray 8 true; TUnquoted [49%N]; TUnquoted [107%N]; TMixedContainer; TUnquoted [63%N]; TOperator Equal; TUnquoted [118%N]; TEnd 1], false).
Proof. repeat split; try reflexivity; cbn; tauto. Qed.
