(* C09 (text half), part 6: the byte skipper on the rendering of ANY document whose unquoted
   tokens are clean (TextSkipDoc.skp_fields: parameter blocks, interpolated expressions, bare words
   starting with a question mark included), under any layout made of whitespace and comments.
   Direct byte-level argument (no tokenizer): a gap, a clean piece and a quoted scalar each bring
   the skipper back to the None state with the depth unchanged; a brace moves the depth by one. *)
From JV Require Import Bytes Tables U64Swar BufWin TextTok TextReader TextRef TextSkipRef TextTape TextDoc TextSkipDoc.
From JV.proofs Require Import TextReaderProofs TextRefProofs TextFbProofs TextReaderMainProofs
  TextSkipProofs TextSkipStreamProofs TextSkipTokProofs TextSkipEndProofs TextParseProofs TextSkipDocProofs.
From Coq Require Import Lia List Arith ZArith.
Import ListNotations.
Open Scope nat_scope.

(* ------------------------------------------------------------------ runs of the byte reference *)
Lemma comment_body_run body x d k : Forall (fun b => b <> 10%N) body ->
  sref (body ++ 10%N :: x) SkComment d k = sref x SkNone d (k + S (length body)).
Proof.
  intros H. revert k. induction H as [|c body Hc Hb IH]; intros k.
  - cbn [app sref length b_is N.eqb Pos.eqb]. f_equal. lia.
  - cbn [app sref length]. replace (b_is c 10) with false by (symmetry; apply N.eqb_neq; exact Hc).
    rewrite IH. f_equal. lia.
Qed.

Lemma gap_run g : gap_ok g -> forall s d k, sref (g ++ s) SkNone d k = sref s SkNone d (k + length g).
Proof.
  induction 1 as [|c g Hc Hg IH|body g Hb Hg IH]; intros s d k.
  - cbn [app length]. f_equal. lia.
  - rewrite is_ws_t_is_ws in Hc. apply ws_not_special in Hc.
    destruct (special_false c Hc) as (E1 & E2 & E3 & E4).
    cbn [app sref length]. rewrite E1, E2, E3, E4, IH. f_equal. lia.
  - cbn [app]. rewrite <- app_assoc. cbn [app sref b_is N.eqb Pos.eqb].
    rewrite comment_body_run by exact Hb. rewrite IH. f_equal. cbn [length]. rewrite app_length. cbn [length]. lia.
Qed.

Lemma quo_run : forall n s x d k, length s <= n -> wf_quo s = true ->
  sref (s ++ 34%N :: x) SkQuote d k = sref x SkNone d (k + S (length s)).
Proof.
  induction n as [|n IH]; intros s x d k Hl H.
  - destruct s; [|cbn [length] in Hl; lia]. cbn [app sref length b_is N.eqb Pos.eqb]. f_equal. lia.
  - destruct s as [|c s]. { cbn [app sref length b_is N.eqb Pos.eqb]. f_equal. lia. }
    cbn [length] in Hl. cbn [wf_quo] in H. cbn [app sref]. change (N.eqb c 92) with (b_is c 92) in H.
    destruct (b_is c 92).
    + destruct s as [|c2 s2]; [discriminate|]. cbn [app]. cbn [length] in Hl.
      rewrite IH by (exact H || lia). f_equal. cbn [length]. lia.
    + apply andb_true_iff in H. destruct H as [Hq H]. apply negb_true_iff in Hq.
      change (N.eqb c 34) with (b_is c 34) in Hq. rewrite Hq.
      rewrite IH by (exact H || lia). f_equal. cbn [length]. lia.
Qed.

(* ------------------------------------------------------------------ token lists the skipper understands *)
Inductive pieces_ok : list dtok -> Prop :=
| po_nil : pieces_ok []
| po_l ts : pieces_ok ts -> pieces_ok (lbrace :: ts)
| po_r ts : pieces_ok ts -> pieces_ok (rbrace :: ts)
| po_plain u b ts : sk_clean u = true -> pieces_ok ts -> pieces_ok ((u, b) :: ts)
| po_quo s ts : wf_quo s = true -> pieces_ok ts -> pieces_ok ((34%N :: s ++ [34%N], false) :: ts).

Lemma clean_not_brace u b : sk_clean u = true -> is_lb (u, b) = false /\ is_rb (u, b) = false.
Proof.
  unfold sk_clean, is_lb, is_rb. cbn [fst]. intros H. destruct u as [|c [|c2 u]]; auto.
  cbn [forallb] in H. rewrite andb_true_r in H. apply negb_true_iff in H.
  destruct (special_false c H) as (E1 & E2 & _). split; [exact E1|exact E2].
Qed.

(* counting on the bytes of the rendering = brace matching on the token list: the rendering splits
   into a non-empty prefix p (up to and including the matching close) and the rendering of the
   tokens after the matching close; the byte reference consumes exactly p *)
Theorem pieces_count g : (forall j, gap_ok (g j)) -> forall ts, pieces_ok ts ->
  forall i depth post k, 1 <= depth -> match_close depth ts = Some post ->
  exists p, render_toks g ts i = p ++ render_toks g post (i + (length ts - length post)) /\
            0 < length p /\
            sref (render_toks g ts i) SkNone (Z.of_nat depth) k = Some (k + length p).
Proof.
  intros Hg ts Hts. induction Hts as [|ts Hts IH|ts Hts IH|u b ts Hu Hts IH|s ts Hs Hts IH];
    intros i depth post k Hd Hm; [discriminate| | | |];
    rewrite render_toks_cons; rewrite gap_run by apply Hg;
    pose proof (match_close_len _ _ _ Hm) as Hlen; cbn [length] in Hlen.
  - (* Open *)
    cbn [match_close is_lb lbrace fst N.eqb Pos.eqb] in Hm.
    pose proof (match_close_len _ _ _ Hm) as Hl2.
    destruct (IH (S i) (S depth) post (k + length (g i) + 1) ltac:(lia) Hm) as (p & Hp & Hp0 & Hn).
    exists (g i ++ [123%N] ++ p). split; [|split].
    + cbn [length]. replace (i + (S (length ts) - length post)) with (S i + (length ts - length post)) by lia.
      rewrite Hp at 1. cbn [lbrace fst]. rewrite <- !app_assoc. reflexivity.
    + rewrite !app_length. cbn [length]. lia.
    + cbn [lbrace fst app sref b_is N.eqb Pos.eqb].
      replace (Z.of_nat depth + 1)%Z with (Z.of_nat (S depth)) by lia.
      replace (S (k + length (g i))) with (k + length (g i) + 1) by lia.
      rewrite Hn. f_equal. rewrite !app_length. cbn [length]. lia.
  - (* Close *)
    cbn [match_close is_lb is_rb rbrace fst N.eqb Pos.eqb] in Hm.
    destruct (Nat.leb depth 1) eqn:E1.
    + apply Nat.leb_le in E1. inversion Hm; subst post.
      exists (g i ++ [125%N]). split; [|split].
      * cbn [length]. replace (i + (S (length ts) - length ts)) with (S i) by lia.
        cbn [rbrace fst]. rewrite <- !app_assoc. reflexivity.
      * rewrite app_length. cbn [length]. lia.
      * cbn [rbrace fst app sref b_is N.eqb Pos.eqb].
        replace (Z.of_nat depth - 1 =? 0)%Z with true by (symmetry; apply Z.eqb_eq; lia).
        f_equal. rewrite app_length. cbn [length]. lia.
    + apply Nat.leb_gt in E1. pose proof (match_close_len _ _ _ Hm) as Hl2.
      destruct (IH (S i) (depth - 1) post (k + length (g i) + 1) ltac:(lia) Hm) as (p & Hp & Hp0 & Hn).
      exists (g i ++ [125%N] ++ p). split; [|split].
      * cbn [length]. replace (i + (S (length ts) - length post)) with (S i + (length ts - length post)) by lia.
        rewrite Hp at 1. cbn [rbrace fst]. rewrite <- !app_assoc. reflexivity.
      * rewrite !app_length. cbn [length]. lia.
      * cbn [rbrace fst app sref b_is N.eqb Pos.eqb].
        replace (Z.of_nat depth - 1 =? 0)%Z with false by (symmetry; apply Z.eqb_neq; lia).
        replace (Z.of_nat depth - 1)%Z with (Z.of_nat (depth - 1)) by lia.
        replace (S (k + length (g i))) with (k + length (g i) + 1) by lia.
        rewrite Hn. f_equal. rewrite !app_length. cbn [length]. lia.
  - (* clean piece *)
    cbn [match_close] in Hm. destruct (clean_not_brace u b Hu) as [E1 E2]. rewrite E1, E2 in Hm.
    pose proof (match_close_len _ _ _ Hm) as Hl2.
    destruct (IH (S i) depth post (k + length (g i) + length u) Hd Hm) as (p & Hp & Hp0 & Hn).
    exists (g i ++ u ++ p). split; [|split].
    + cbn [length]. replace (i + (S (length ts) - length post)) with (S i + (length ts - length post)) by lia.
      rewrite Hp at 1. cbn [fst]. rewrite <- !app_assoc. reflexivity.
    + rewrite !app_length. lia.
    + cbn [fst]. unfold sk_clean in Hu. rewrite plain_run by exact Hu.
      rewrite Hn. f_equal. rewrite !app_length. lia.
  - (* quoted scalar *)
    cbn [match_close] in Hm. destruct (quo_not_brace s) as [E1 E2]. rewrite E1, E2 in Hm.
    pose proof (match_close_len _ _ _ Hm) as Hl2.
    destruct (IH (S i) depth post (S (k + length (g i)) + S (length s)) Hd Hm) as (p & Hp & Hp0 & Hn).
    exists (g i ++ (34%N :: s ++ [34%N]) ++ p). split; [|split].
    + cbn [length]. replace (i + (S (length ts) - length post)) with (S i + (length ts - length post)) by lia.
      rewrite Hp at 1. cbn [fst]. rewrite <- !app_assoc. reflexivity.
    + rewrite !app_length. cbn [length]. lia.
    + cbn [fst app]. rewrite <- app_assoc. cbn [app sref b_is N.eqb Pos.eqb].
      rewrite (quo_run (length s)) by (exact Hs || lia).
      rewrite Hn. f_equal. rewrite !app_length. cbn [length]. rewrite !app_length. cbn [length]. lia.
Qed.

(* ------------------------------------------------------------------ documents *)
Lemma sk_clean_app a b : sk_clean (a ++ b) = sk_clean a && sk_clean b.
Proof. unfold sk_clean. apply forallb_app. Qed.

Lemma pname_clean u name : sk_clean name = true -> sk_clean (pname_bytes u name) = true.
Proof.
  intros H. unfold pname_bytes. rewrite !sk_clean_app, H. destruct u; reflexivity.
Qed.

Lemma op_clean o : sk_clean (op_symbol o) = true.
Proof. destruct o; reflexivity. Qed.

Lemma scalar_piece k s rest : skp_scalar k s = true -> pieces_ok rest -> pieces_ok (stok k s :: rest).
Proof.
  intros H Hr. destruct k; cbn [stok scalar_bytes skp_scalar] in *; [apply po_plain|apply po_quo]; assumption.
Qed.

Lemma skp_pieces :
  (forall v, skp_value v = true -> forall rest, pieces_ok rest -> pieces_ok (toks_value v ++ rest)) /\
  (forall f, skp_field f = true -> forall rest, pieces_ok rest -> pieces_ok (toks_field f ++ rest)) /\
  (forall fs, skp_fields fs = true -> forall rest, pieces_ok rest -> pieces_ok (toks_fields fs ++ rest)) /\
  (forall vs, skp_values vs = true -> forall rest, pieces_ok rest -> pieces_ok (toks_values vs ++ rest)).
Proof.
  apply doc_mutind.
  - intros k s H rest Hr. cbn [toks_value app]. apply scalar_piece; assumption.
  - intros fs Hfs tl Htl H rest Hr. cbn [skp_value] in H. apply andb_true_iff in H. destruct H as [H1 H2].
    cbn [toks_value]. rewrite app_cons_assoc, <- !app_assoc. cbn [app].
    apply po_l. apply Hfs; [exact H1|]. apply Htl; [exact H2|]. apply po_r. exact Hr.
  - intros items Hi H rest Hr. cbn [skp_value] in H.
    cbn [toks_value]. rewrite app_cons_assoc, <- !app_assoc. cbn [app].
    apply po_l. apply Hi; [exact H|]. apply po_r. exact Hr.
  - intros items Hi kvs Hk H rest Hr. cbn [skp_value] in H. apply andb_true_iff in H. destruct H as [H1 H2].
    cbn [toks_value]. rewrite app_cons_assoc, <- !app_assoc. cbn [app].
    apply po_l. apply Hi; [exact H1|]. apply Hk; [exact H2|]. apply po_r. exact Hr.
  - intros name v Hv H rest Hr. cbn [skp_value] in H. apply andb_true_iff in H. destruct H as [H1 H2].
    cbn [toks_value]. rewrite app_cons_assoc. apply po_plain; [exact H1|]. apply Hv; assumption.
  - intros k key op v Hv H rest Hr. cbn [skp_field] in H. apply andb_true_iff in H. destruct H as [H1 H2].
    cbn [toks_field]. rewrite app_cons_assoc, <- app_assoc. apply scalar_piece; [exact H1|].
    destruct op as [o|]; cbn [optok app]; [apply po_plain; [apply op_clean|]|]; apply Hv; assumption.
  - intros name u s H rest Hr. cbn [skp_field] in H. apply andb_true_iff in H. destruct H as [H1 H2].
    cbn [toks_field app]. apply po_plain; [apply pname_clean; exact H1|].
    apply po_plain; [exact H2|]. apply po_plain; [reflexivity|exact Hr].
  - intros name u fs Hfs H rest Hr. cbn [skp_field] in H. apply andb_true_iff in H. destruct H as [H1 H2].
    cbn [toks_field]. rewrite app_cons_assoc, <- app_assoc. cbn [app].
    apply po_plain; [apply pname_clean; exact H1|]. apply Hfs; [exact H2|].
    apply po_plain; [reflexivity|exact Hr].
  - intros _ rest Hr. exact Hr.
  - intros f Hf fs Hfs H rest Hr. cbn [skp_fields] in H. apply andb_true_iff in H. destruct H as [H1 H2].
    cbn [toks_fields]. rewrite <- app_assoc. apply Hf; [exact H1|]. apply Hfs; assumption.
  - intros _ rest Hr. exact Hr.
  - intros v Hv vs Hvs H rest Hr. cbn [skp_values] in H. apply andb_true_iff in H. destruct H as [H1 H2].
    cbn [toks_values]. rewrite <- app_assoc. apply Hv; [exact H1|]. apply Hvs; assumption.
Qed.

Lemma skp_fields_pieces d : skp_fields d = true -> pieces_ok (toks_fields d).
Proof.
  intros H. rewrite <- (app_nil_r (toks_fields d)). apply (proj1 (proj2 (proj2 skp_pieces))); [exact H|constructor].
Qed.

Lemma pieces_ok_tail t ts : pieces_ok (t :: ts) -> pieces_ok ts.
Proof. intros H. inversion H; subst; assumption. Qed.
Lemma pieces_ok_suffix pre ts : pieces_ok (pre ++ ts) -> pieces_ok ts.
Proof. induction pre as [|t pre IH]; cbn [app]; [auto|]. intros H. apply IH. eapply pieces_ok_tail; eauto. Qed.

(* every Open of such a document has its Close *)
Lemma clean_tok_facts u b : sk_clean u = true -> BP [(u, b)] /\ HM [(u, b)].
Proof.
  intros H. destruct (clean_not_brace u b H) as [H1 H2].
  split; [apply BP_single; assumption|apply HM_single]. intros E. rewrite E in H1. discriminate.
Qed.

Lemma skp_scalar_facts k s : skp_scalar k s = true -> BP [stok k s] /\ HM [stok k s].
Proof.
  intros H. destruct k; cbn [stok scalar_bytes skp_scalar] in *.
  - apply clean_tok_facts. exact H.
  - destruct (quo_not_brace s) as [H1 H2]. split; [apply BP_single; assumption|apply HM_single; discriminate].
Qed.

Lemma BP_cons t a : BP [t] -> BP a -> BP (t :: a).
Proof. intros H1 H2. change (t :: a) with ([t] ++ a). apply BP_app; assumption. Qed.
Lemma HM_cons t a : HM [t] -> HM a -> HM (t :: a).
Proof. intros H1 H2. change (t :: a) with ([t] ++ a). apply HM_app; assumption. Qed.

Lemma skp_balanced :
  (forall v, skp_value v = true -> BP (toks_value v) /\ HM (toks_value v)) /\
  (forall f, skp_field f = true -> BP (toks_field f) /\ HM (toks_field f)) /\
  (forall fs, skp_fields fs = true -> BP (toks_fields fs) /\ HM (toks_fields fs)) /\
  (forall vs, skp_values vs = true -> BP (toks_values vs) /\ HM (toks_values vs)).
Proof.
  apply doc_mutind.
  - intros k s H. cbn [toks_value]. apply skp_scalar_facts. exact H.
  - intros fs Hfs tl Htl H. cbn [skp_value] in H. apply andb_true_iff in H. destruct H as [H1 H2].
    destruct (Hfs H1) as [B1 M1]. destruct (Htl H2) as [B2 M2]. cbn [toks_value]. rewrite app_assoc.
    split; [apply BP_container, BP_app; assumption|apply HM_container; [apply HM_app|apply BP_app]; assumption].
  - intros items Hi H. cbn [skp_value] in H. destruct (Hi H) as [B1 M1]. cbn [toks_value].
    split; [apply BP_container; assumption|apply HM_container; assumption].
  - intros items Hi kvs Hk H. cbn [skp_value] in H. apply andb_true_iff in H. destruct H as [H1 H2].
    destruct (Hi H1) as [B1 M1]. destruct (Hk H2) as [B2 M2]. cbn [toks_value]. rewrite app_assoc.
    split; [apply BP_container, BP_app; assumption|apply HM_container; [apply HM_app|apply BP_app]; assumption].
  - intros name v Hv H. cbn [skp_value] in H. apply andb_true_iff in H. destruct H as [H1 H2].
    destruct (Hv H2) as [B1 M1]. destruct (clean_tok_facts name true H1) as [B0 M0]. cbn [toks_value].
    split; [apply BP_cons|apply HM_cons]; assumption.
  - intros k key op v Hv H. cbn [skp_field] in H. apply andb_true_iff in H. destruct H as [H1 H2].
    destruct (Hv H2) as [B1 M1]. destruct (skp_scalar_facts k key H1) as [B0 M0]. cbn [toks_field].
    assert (Bo : BP (optok op ++ toks_value v) /\ HM (optok op ++ toks_value v)).
    { destruct op as [o|]; cbn [optok app]; [|split; assumption].
      destruct (clean_tok_facts (op_symbol o) false (op_clean o)) as [Bx Mx].
      split; [apply BP_cons|apply HM_cons]; assumption. }
    destruct Bo as [Bo Mo]. split; [apply BP_cons|apply HM_cons]; assumption.
  - intros name u s H. cbn [skp_field] in H. apply andb_true_iff in H. destruct H as [H1 H2].
    cbn [toks_field]. destruct (clean_tok_facts _ false (pname_clean u name H1)) as [B0 M0].
    destruct (clean_tok_facts s true H2) as [B1 M1].
    destruct (clean_tok_facts [93%N] false eq_refl) as [B2 M2].
    unfold rbracket. split; [apply BP_cons; [assumption|apply BP_cons; assumption]|apply HM_cons; [assumption|apply HM_cons; assumption]].
  - intros name u fs Hfs H. cbn [skp_field] in H. apply andb_true_iff in H. destruct H as [H1 H2].
    destruct (Hfs H2) as [B1 M1]. cbn [toks_field].
    destruct (clean_tok_facts _ false (pname_clean u name H1)) as [B0 M0].
    destruct (clean_tok_facts [93%N] false eq_refl) as [B2 M2].
    split; [apply BP_cons; [assumption|apply BP_app; assumption]|apply HM_cons; [assumption|apply HM_app; assumption]].
  - intros _. split; [apply BP_nil|apply HM_nil].
  - intros f Hf fs Hfs H. cbn [skp_fields] in H. apply andb_true_iff in H. destruct H as [H1 H2].
    destruct (Hf H1) as [B1 M1]. destruct (Hfs H2) as [B2 M2]. cbn [toks_fields].
    split; [apply BP_app; assumption|apply HM_app; assumption].
  - intros _. split; [apply BP_nil|apply HM_nil].
  - intros v Hv vs Hvs H. cbn [skp_values] in H. apply andb_true_iff in H. destruct H as [H1 H2].
    destruct (Hv H1) as [B1 M1]. destruct (Hvs H2) as [B2 M2]. cbn [toks_values].
    split; [apply BP_app; assumption|apply HM_app; assumption].
Qed.

Theorem skp_open_has_close d pre post : skp_fields d = true ->
  toks_fields d = pre ++ lbrace :: post -> exists post', match_close 1 post = Some post'.
Proof.
  intros Hd E. destruct (proj1 (proj2 (proj2 skp_balanced)) d Hd) as [_ HMd].
  apply (HMd [] pre post); [rewrite app_nil_r; exact E|]. rewrite E, app_length. cbn [length]. lia.
Qed.

(* ------------------------------------------------------------------ main statements *)
(* every Open of the rendering: the byte reference lands exactly in front of the rendering of the
   tokens that follow the document's matching Close *)
Theorem doc_skip_all : forall d l pre post,
  skp_fields d = true -> gaps_ok l ->
  toks_fields d = pre ++ lbrace :: post ->
  exists post',
    match_close 1 post = Some post' /\
    let s := render_toks (gap l) post (S (length pre)) in
    let r := render_toks (gap l) post' (length (toks_fields d) - length post') in
    (exists p, render d l = p ++ 123%N :: s) /\
    length r < length s /\ skip_ref s = Some (length s - length r) /\
    skipn (length s - length r) s = r.
Proof.
  intros d l pre post Hd Hg E.
  destruct (skp_open_has_close d pre post Hd E) as [post' Hm]. exists post'. split; [exact Hm|].
  intros s r.
  pose proof (skp_fields_pieces d Hd) as Hp. rewrite E in Hp. apply pieces_ok_suffix in Hp.
  apply pieces_ok_tail in Hp.
  pose proof (match_close_len _ _ _ Hm) as Hlen.
  assert (Hr : r = render_toks (gap l) post' (S (length pre) + (length post - length post'))).
  { unfold r. f_equal. rewrite E, app_length. cbn [length]. lia. }
  destruct (pieces_count (gap l) Hg post Hp (S (length pre)) 1 post' 0 ltac:(lia) Hm) as (p & Hsp & Hp0 & Hn).
  fold s in Hsp, Hn. rewrite <- Hr in Hsp. cbn [Nat.add] in Hn.
  assert (Hls : length s = length p + length r) by (rewrite Hsp, app_length; reflexivity).
  split.
  - unfold render. rewrite E. destruct (render_toks_app (gap l) pre (lbrace :: post) 0) as [q Hq].
    rewrite Hq. rewrite render_toks_cons. cbn [fst lbrace Nat.add app].
    exists ((if bom l then bom_bytes else []) ++ q ++ gap l (length pre)). rewrite <- !app_assoc. reflexivity.
  - split; [lia|]. split.
    + unfold skip_ref. change 1%Z with (Z.of_nat 1). rewrite Hn. f_equal. lia.
    + replace (length s - length r) with (length p) by lia. rewrite Hsp.
      rewrite skipn_app, skipn_all, Nat.sub_diag. reflexivity.
Qed.

(* streaming form: a reader that stands just after an Open of the rendering, any schedule, any
   buffer the skip needs (1 byte, 3 with a backslash inside a quoted scalar), or the slice window *)
Theorem doc_stream_skip_all : forall d l pre post input fuel r,
  skp_fields d = true -> gaps_ok l ->
  toks_fields d = pre ++ lbrace :: post ->
  wf_bytes input -> rok input r ->
  stream_of r = render_toks (gap l) post (S (length pre)) ->
  skip_cap_ok r -> length (rest (rrd r)) < fuel ->
  exists post' r',
    match_close 1 post = Some post' /\
    skip_container fuel r = Ok r' /\ rok input r' /\
    stream_of r' = render_toks (gap l) post' (length (toks_fields d) - length post') /\
    reader_position r' + length (stream_of r') = reader_position r + length (stream_of r) /\
    cap (rbw r') = cap (rbw r).
Proof.
  intros d l pre post input fuel r Hd Hl E Hwf Hrok Hs Hcap Hf.
  destruct (doc_skip_all d l pre post Hd Hl E) as (post' & Hm & H). cbv zeta in H.
  destruct H as (_ & Hlt & Hsk & Hrest). rewrite <- Hs in Hsk, Hrest, Hlt.
  pose proof (skip_container_stream input fuel r Hwf Hrok Hcap Hf) as Hst. rewrite Hsk in Hst.
  destruct Hst as (r' & H1 & H2 & H3 & H4 & H5).
  exists post', r'. split; [exact Hm|]. split; [exact H1|]. split; [exact H2|].
  rewrite Hrest in H3. split; [exact H3|]. split; [|exact H5].
  rewrite H4, H3. lia.
Qed.

(* a well-formed document (TextDoc.wf_doc) whose unquoted tokens are clean is skippable *)
Lemma wf_uc_skp :
  (forall v, wf_value v = true -> uc_value v = true -> skp_value v = true) /\
  (forall f, wf_field f = true -> uc_field f = true -> skp_field f = true) /\
  (forall fs, (wf_fields fs = true \/ wf_kvs fs = true) -> uc_fields fs = true -> skp_fields fs = true) /\
  (forall vs, (wf_items vs = true \/ wf_tail vs = true) -> uc_values vs = true -> skp_values vs = true).
Proof.
  apply doc_mutind.
  - intros k s Hw Hu. cbn [wf_value wf_scalar uc_value unq_clean_scalar skp_value skp_scalar] in *.
    destruct k; assumption.
  - intros fs Hfs tl Htl Hw Hu. cbn [wf_value uc_value skp_value] in *.
    apply andb_true_iff in Hw. destruct Hw as [Hw Hw3]. apply andb_true_iff in Hw. destruct Hw as [_ Hw2].
    apply andb_true_iff in Hu. destruct Hu as [Hu1 Hu2].
    rewrite Hfs, Htl; auto.
  - intros items Hi Hw Hu. cbn [wf_value uc_value skp_value] in *.
    apply andb_true_iff in Hw. destruct Hw as [_ Hw]. apply Hi; auto.
  - intros items Hi kvs Hk Hw Hu. cbn [wf_value uc_value skp_value] in *.
    apply andb_true_iff in Hw. destruct Hw as [Hw Hw4]. apply andb_true_iff in Hw. destruct Hw as [Hw _].
    apply andb_true_iff in Hw. destruct Hw as [_ Hw2].
    apply andb_true_iff in Hu. destruct Hu as [Hu1 Hu2].
    rewrite Hi, Hk; auto.
  - intros name v Hv Hw Hu. cbn [wf_value uc_value skp_value] in *.
    apply andb_true_iff in Hw. destruct Hw as [_ Hw]. apply andb_true_iff in Hu. destruct Hu as [Hu1 Hu2].
    rewrite Hu1, Hv; auto.
  - intros k key op v Hv Hw Hu. cbn [wf_field uc_field skp_field] in *.
    apply andb_true_iff in Hw. destruct Hw as [Hw _]. apply andb_true_iff in Hw. destruct Hw as [Hw1 Hw2].
    apply andb_true_iff in Hu. destruct Hu as [Hu1 Hu2].
    rewrite Hv by assumption. rewrite andb_true_r.
    destruct k; cbn [wf_scalar unq_clean_scalar skp_scalar] in *; assumption.
  - intros name u s Hw Hu. exact Hu.
  - intros name u fs Hfs Hw Hu. cbn [wf_field uc_field skp_field] in *.
    apply andb_true_iff in Hw. destruct Hw as [_ Hw]. apply andb_true_iff in Hu. destruct Hu as [Hu1 Hu2].
    rewrite Hu1, Hfs; auto.
  - reflexivity.
  - intros f Hf fs Hfs Hw Hu. cbn [uc_fields skp_fields] in *.
    apply andb_true_iff in Hu. destruct Hu as [Hu1 Hu2].
    destruct Hw as [Hw|Hw].
    + cbn [wf_fields] in Hw. apply andb_true_iff in Hw. destruct Hw as [Hw1 Hw2]. rewrite Hf, Hfs; auto.
    + cbn [wf_kvs] in Hw. destruct f as [k key op v|?|?]; try discriminate.
      repeat (apply andb_true_iff in Hw; destruct Hw as [Hw ?]).
      rewrite Hfs by auto. rewrite andb_true_r. apply Hf; [|exact Hu1].
      cbn [wf_field]. rewrite Hw. replace (wf_value v) with true by auto. cbn [andb].
      destruct op; [reflexivity|discriminate].
  - reflexivity.
  - intros v Hv vs Hvs Hw Hu. cbn [uc_values skp_values] in *.
    apply andb_true_iff in Hu. destruct Hu as [Hu1 Hu2].
    destruct Hw as [Hw|Hw].
    + cbn [wf_items] in Hw. repeat (apply andb_true_iff in Hw; destruct Hw as [Hw ?]). rewrite Hv, Hvs; auto.
    + cbn [wf_tail] in Hw. repeat (apply andb_true_iff in Hw; destruct Hw as [Hw ?]). rewrite Hv, Hvs; auto.
Qed.

Theorem wf_doc_skippable d : wf_doc d -> uc_fields d = true -> skp_fields d = true.
Proof. intros Hw Hu. apply (proj1 (proj2 (proj2 wf_uc_skp))); [left; exact Hw|exact Hu]. Qed.
