(* C20 at the level of the WHOLE reader deserializer (wave 4, a_c20).

   Part 1 (generic): the serde walk [SerdeShape.walk] / [walk_root] over two families of
   deserializer operations whose states are related by [R] and whose every operation, run on related
   states, either fails on the left with EC_IO or returns the same outcome with related successor
   states ([fsim]).  The walk never inspects an error, so the relation lifts from the operations to
   the whole walk: it returns EC_IO or exactly what the right-hand walk returns.

   Part 2 (binary instance): the operations of [BinDeReader.ops_rd] over a reader state with an
   arbitrary schedule and over its fault-free twin (FaultBinProofs.steq) satisfy the hypothesis, by
   the one-call theorems bin_*_fault_sound.  Hence
       deser_reader cfg cap sched sh d = Err EC_IO  \/  = deser_reader cfg cap (clean sched) sh d
   for every configuration, buffer size, schedule, shape and input. *)
From JV Require Import Bytes Tables BinPrim BufWin BinLexer BinReader SerdeShape BinDeCommon BinDeReader.
From JV.proofs Require Import BufWinProofs FaultProofs FaultBinProofs.
From Coq Require Import List NArith Bool Lia Arith.
Import ListNotations.
Open Scope nat_scope.

(* ---------- outcomes related up to an I/O failure on the left ---------- *)
Definition oclass {A} (RA : A -> A -> Prop) (o1 o2 : outcome A) : Prop :=
  match o1, o2 with
  | Ok a, Ok b => RA a b
  | Err e1, Err e2 => e1 = e2
  | Panic s1, Panic s2 => s1 = s2
  | OOB s1, OOB s2 => s1 = s2
  | OutOfFuel, OutOfFuel => True
  | _, _ => False
  end.

Definition fsim {A} (RA : A -> A -> Prop) (o1 o2 : outcome A) : Prop :=
  o1 = Err EC_IO \/ oclass RA o1 o2.

Lemma fsim_bind {A B} (RA : A -> A -> Prop) (RB : B -> B -> Prop) (o1 o2 : outcome A) (f1 f2 : A -> outcome B) :
  fsim RA o1 o2 -> (forall a b, RA a b -> fsim RB (f1 a) (f2 b)) -> fsim RB (obind o1 f1) (obind o2 f2).
Proof.
  intros [->|H] Hf; [left; reflexivity|].
  destruct o1, o2; cbn [oclass] in H; try contradiction; cbn [obind].
  - apply Hf; exact H.
  - subst. right. reflexivity.
  - subst. right. reflexivity.
  - subst. right. reflexivity.
  - right. exact I.
Qed.

Lemma fsim_ok {A} (RA : A -> A -> Prop) a b : RA a b -> fsim RA (Ok a) (Ok b).
Proof. intros H. right. exact H. Qed.

Lemma fsim_refl {A} (RA : A -> A -> Prop) (o : outcome A) : (forall a, RA a a) -> fsim RA o o.
Proof. intros H. right. destruct o; cbn [oclass]; auto. Qed.

Lemma fsim_same_err {A} (RA : A -> A -> Prop) e : fsim RA (Err e) (Err e).
Proof. right. reflexivity. Qed.

Lemma fsim_eq {A} (o1 o2 : outcome A) : fsim eq o1 o2 -> o1 = Err EC_IO \/ o1 = o2.
Proof.
  intros [H|H]; [left; exact H|right].
  destruct o1, o2; cbn [oclass] in H; try contradiction; subst; reflexivity.
Qed.

(* ---------- Part 1: the generic walk ---------- *)
Section WalkSim.
  Context {S T C : Type}.
  Variable F : fops.
  Variable ops1 ops2 : path_ops S T C.
  Variable R : S -> S -> Prop.

  Definition act_rel (a1 a2 : action S C) : Prop :=
    match a1, a2 with
    | APrim p, APrim q => p = q
    | ASeq s1, ASeq s2 => R s1 s2
    | AColor c1, AColor c2 => c1 = c2
    | AMap s1, AMap s2 => R s1 s2
    | _, _ => False
    end.

  Definition pairR {A} (x y : A * S) : Prop := fst x = fst y /\ R (snd x) (snd y).

  Hypothesis H_dispatch : forall k h t s1 s2, R s1 s2 ->
    fsim (fun x y => act_rel (fst x) (fst y) /\ R (snd x) (snd y)) (p_dispatch ops1 k h t s1) (p_dispatch ops2 k h t s2).
  Hypothesis H_next_elem : forall s1 s2, R s1 s2 -> fsim pairR (p_next_elem ops1 s1) (p_next_elem ops2 s2).
  Hypothesis H_seq_exit : forall h a1 a2 b1 b2 d, R a1 a2 -> R b1 b2 ->
    fsim R (p_seq_exit ops1 h a1 b1 d) (p_seq_exit ops2 h a2 b2 d).
  Hypothesis H_map_exit : forall a1 a2 b1 b2, R a1 a2 -> R b1 b2 ->
    fsim R (p_map_exit ops1 a1 b1) (p_map_exit ops2 a2 b2).
  Hypothesis H_next_key : forall root s1 s2, R s1 s2 -> fsim pairR (p_next_key ops1 root s1) (p_next_key ops2 root s2).
  Hypothesis H_next_value : forall s1 s2, R s1 s2 -> fsim pairR (p_next_value ops1 s1) (p_next_value ops2 s2).
  Hypothesis H_color : forall n sh c, p_color ops1 n sh c = p_color ops2 n sh c.

  (* --- visit_seq over related element functions --- *)
  Section SeqSim.
    Variable elem1 elem2 : shape -> S -> outcome (option dval * S).
    Hypothesis H_elem : forall s a1 a2, R a1 a2 -> fsim pairR (elem1 s a1) (elem2 s a2).

    Lemma seq_loop_sim n : forall s a1 a2 acc, R a1 a2 ->
      fsim pairR (seq_loop elem1 n s a1 acc) (seq_loop elem2 n s a2 acc).
    Proof.
      induction n as [|n IH]; intros s a1 a2 acc Hr; cbn [seq_loop]; [right; exact I|].
      eapply fsim_bind; [apply H_elem; exact Hr|].
      intros [o1 b1] [o2 b2] [Ho Hb]. cbn [fst snd] in Ho, Hb. subst o2.
      destruct o1 as [v|]; [apply IH; exact Hb|apply fsim_ok; split; [reflexivity|exact Hb]].
    Qed.

    Lemma tup_loop_sim ss : forall a1 a2 acc, R a1 a2 ->
      fsim pairR (tup_loop elem1 ss a1 acc) (tup_loop elem2 ss a2 acc).
    Proof.
      induction ss as [|s r IH]; intros a1 a2 acc Hr; cbn [tup_loop]; [apply fsim_ok; split; [reflexivity|exact Hr]|].
      eapply fsim_bind; [apply H_elem; exact Hr|].
      intros [o1 b1] [o2 b2] [Ho Hb]. cbn [fst snd] in Ho, Hb. subst o2.
      destruct o1 as [v|]; [apply IH; exact Hb|apply fsim_same_err].
    Qed.

    Definition seqR (x y : dval * S * bool) : Prop :=
      fst (fst x) = fst (fst y) /\ R (snd (fst x)) (snd (fst y)) /\ snd x = snd y.

    Lemma visit_seq_sim n sh a1 a2 : R a1 a2 ->
      fsim seqR (visit_seq elem1 n sh a1) (visit_seq elem2 n sh a2).
    Proof.
      intros Hr. unfold visit_seq. destruct sh; try apply fsim_same_err.
      - eapply fsim_bind; [apply seq_loop_sim; exact Hr|].
        intros [v1 b1] [v2 b2] [Hv Hb]. cbn [fst snd] in Hv, Hb. subst v2. apply fsim_ok. repeat split; auto.
      - eapply fsim_bind; [apply tup_loop_sim; exact Hr|].
        intros [v1 b1] [v2 b2] [Hv Hb]. cbn [fst snd] in Hv, Hb. subst v2. apply fsim_ok. repeat split; auto.
      - eapply fsim_bind; [apply seq_loop_sim; exact Hr|].
        intros [v1 b1] [v2 b2] [Hv Hb]. cbn [fst snd] in Hv, Hb. subst v2. apply fsim_ok. repeat split; auto.
      - eapply fsim_bind; [apply seq_loop_sim; exact Hr|].
        intros [v1 b1] [v2 b2] [Hv Hb]. cbn [fst snd] in Hv, Hb. subst v2. apply fsim_ok. repeat split; auto.
    Qed.
  End SeqSim.

  (* --- visit_map over related key / value functions --- *)
  Section MapSim.
    Variable key1 key2 : kseed -> S -> outcome (option kres * S).
    Variable value1 value2 : shape -> S -> outcome (dval * S).
    Hypothesis H_key : forall ks a1 a2, R a1 a2 -> fsim pairR (key1 ks a1) (key2 ks a2).
    Hypothesis H_value : forall s a1 a2, R a1 a2 -> fsim pairR (value1 s a1) (value2 s a2).

    Lemma map_loop_sim n : forall s a1 a2 acc, R a1 a2 ->
      fsim pairR (map_loop key1 value1 n s a1 acc) (map_loop key2 value2 n s a2 acc).
    Proof.
      induction n as [|n IH]; intros s a1 a2 acc Hr; cbn [map_loop]; [right; exact I|].
      eapply fsim_bind; [apply H_key; exact Hr|].
      intros [k1 b1] [k2 b2] [Hk Hb]. cbn [fst snd] in Hk, Hb. subst k2.
      destruct k1 as [[ks|i|v|]|]; try (right; reflexivity).
      - eapply fsim_bind; [apply H_value; exact Hb|].
        intros [v1 c1] [v2 c2] [Hv Hc]. cbn [fst snd] in Hv, Hc. subst v2. apply IH; exact Hc.
      - apply fsim_ok; split; [reflexivity|exact Hb].
    Qed.

    Lemma amap_loop_sim n : forall a1 a2 acc, R a1 a2 ->
      fsim pairR (amap_loop key1 value1 n a1 acc) (amap_loop key2 value2 n a2 acc).
    Proof.
      induction n as [|n IH]; intros a1 a2 acc Hr; cbn [amap_loop]; [right; exact I|].
      eapply fsim_bind; [apply H_key; exact Hr|].
      intros [k1 b1] [k2 b2] [Hk Hb]. cbn [fst snd] in Hk, Hb. subst k2.
      destruct k1 as [[ks|i|v|]|]; try (right; reflexivity).
      - eapply fsim_bind; [apply H_value; exact Hb|].
        intros [v1 c1] [v2 c2] [Hv Hc]. cbn [fst snd] in Hv, Hc. subst v2. apply IH; exact Hc.
      - apply fsim_ok; split; [reflexivity|exact Hb].
    Qed.

    Lemma ign_loop_sim n : forall a1 a2, R a1 a2 ->
      fsim R (ign_loop key1 value1 n a1) (ign_loop key2 value2 n a2).
    Proof.
      induction n as [|n IH]; intros a1 a2 Hr; cbn [ign_loop]; [right; exact I|].
      eapply fsim_bind; [apply H_key; exact Hr|].
      intros [k1 b1] [k2 b2] [Hk Hb]. cbn [fst snd] in Hk, Hb. subst k2.
      destruct k1 as [k|].
      - eapply fsim_bind; [apply H_value; exact Hb|].
        intros [v1 c1] [v2 c2] [Hv Hc]. cbn [fst snd] in Hv, Hc. apply IH; exact Hc.
      - apply fsim_ok; exact Hb.
    Qed.

    Lemma struct_loop_sim n : forall tk fs a1 a2 sl, R a1 a2 ->
      fsim pairR (struct_loop key1 value1 n tk fs a1 sl) (struct_loop key2 value2 n tk fs a2 sl).
    Proof.
      induction n as [|n IH]; intros tk fs a1 a2 sl Hr; cbn [struct_loop]; [right; exact I|].
      eapply fsim_bind; [apply H_key; exact Hr|].
      intros [k1 b1] [k2 b2] [Hk Hb]. cbn [fst snd] in Hk, Hb. subst k2.
      destruct k1 as [[ks|[i|]|v|]|]; try (right; reflexivity).
      - destruct (nth_error fs i) as [f|]; [|right; reflexivity].
        destruct (slot_pre sl (f_mode f) i); cbn [obind]; try (right; reflexivity).
        eapply fsim_bind; [apply H_value; exact Hb|].
        intros [v1 c1] [v2 c2] [Hv Hc]. cbn [fst snd] in Hv, Hc. subst v2. apply IH; exact Hc.
      - eapply fsim_bind; [apply H_value; exact Hb|].
        intros [v1 c1] [v2 c2] [Hv Hc]. cbn [fst snd] in Hv, Hc. apply IH; exact Hc.
      - apply fsim_ok; split; [reflexivity|exact Hb].
    Qed.

    Lemma visit_map_sim n sh a1 a2 : R a1 a2 ->
      fsim pairR (visit_map key1 value1 n sh a1) (visit_map key2 value2 n sh a2).
    Proof.
      intros Hr. unfold visit_map. destruct sh; try apply fsim_same_err.
      - eapply fsim_bind; [apply map_loop_sim; exact Hr|].
        intros [v1 b1] [v2 b2] [Hv Hb]. cbn [fst snd] in Hv, Hb. subst v2. apply fsim_ok. split; [reflexivity|exact Hb].
      - eapply fsim_bind; [apply struct_loop_sim; exact Hr|].
        intros [v1 b1] [v2 b2] [Hv Hb]. cbn [fst snd] in Hv, Hb. subst v2.
        destruct (slots_finish fields v1); cbn [obind]; try (right; reflexivity).
        apply fsim_ok. split; [reflexivity|exact Hb].
      - eapply fsim_bind; [apply amap_loop_sim; exact Hr|].
        intros [v1 b1] [v2 b2] [Hv Hb]. cbn [fst snd] in Hv, Hb. subst v2. apply fsim_ok. split; [reflexivity|exact Hb].
      - eapply fsim_bind; [apply ign_loop_sim; exact Hr|].
        intros b1 b2 Hb. apply fsim_ok. split; [reflexivity|exact Hb].
    Qed.
  End MapSim.

  Notation recT := (bool -> shape -> T -> S -> outcome (dval * S)).
  Definition rec_sim (rec1 rec2 : recT) : Prop :=
    forall k sh t s1 s2, R s1 s2 -> fsim pairR (rec1 k sh t s1) (rec2 k sh t s2).

  Lemma elem_of_sim rec1 rec2 : rec_sim rec1 rec2 ->
    forall s a1 a2, R a1 a2 -> fsim pairR (elem_of ops1 rec1 s a1) (elem_of ops2 rec2 s a2).
  Proof.
    intros Hrec s a1 a2 Hr. unfold elem_of.
    eapply fsim_bind; [apply H_next_elem; exact Hr|].
    intros [o1 b1] [o2 b2] [Ho Hb]. cbn [fst snd] in Ho, Hb. subst o2.
    destruct o1 as [t|]; [|apply fsim_ok; split; [reflexivity|exact Hb]].
    eapply fsim_bind; [apply Hrec; exact Hb|].
    intros [v1 c1] [v2 c2] [Hv Hc]. cbn [fst snd] in Hv, Hc. subst v2. apply fsim_ok. split; [reflexivity|exact Hc].
  Qed.

  Lemma value_of_sim rec1 rec2 : rec_sim rec1 rec2 ->
    forall s a1 a2, R a1 a2 -> fsim pairR (value_of ops1 rec1 s a1) (value_of ops2 rec2 s a2).
  Proof.
    intros Hrec s a1 a2 Hr. unfold value_of.
    eapply fsim_bind; [apply H_next_value; exact Hr|].
    intros [t1 b1] [t2 b2] [Ht Hb]. cbn [fst snd] in Ht, Hb. subst t2. apply Hrec; exact Hb.
  Qed.

  Lemma key_of_sim rec1 rec2 root : rec_sim rec1 rec2 ->
    forall ks a1 a2, R a1 a2 -> fsim pairR (key_of ops1 rec1 root ks a1) (key_of ops2 rec2 root ks a2).
  Proof.
    intros Hrec ks a1 a2 Hr. unfold key_of.
    eapply fsim_bind; [apply H_next_key; exact Hr|].
    intros [o1 b1] [o2 b2] [Ho Hb]. cbn [fst snd] in Ho, Hb. subst o2.
    destruct o1 as [t|]; [|apply fsim_ok; split; [reflexivity|exact Hb]].
    destruct ks.
    - eapply fsim_bind; [apply Hrec; exact Hb|].
      intros [v1 c1] [v2 c2] [Hv Hc]. cbn [fst snd] in Hv, Hc. subst v2.
      destruct v1; try (right; reflexivity). apply fsim_ok. split; [reflexivity|exact Hc].
    - eapply fsim_bind; [apply H_dispatch; exact Hb|].
      intros [x1 c1] [x2 c2] [Hx Hc]. cbn [fst snd] in Hx, Hc.
      destruct x1, x2; cbn [act_rel] in Hx; try contradiction; try (right; reflexivity).
      subst. destruct (visit_field fs p0); cbn [obind]; try (right; reflexivity).
      apply fsim_ok. split; [reflexivity|exact Hc].
    - eapply fsim_bind; [apply Hrec; exact Hb|].
      intros [v1 c1] [v2 c2] [Hv Hc]. cbn [fst snd] in Hv, Hc. subst v2. apply fsim_ok. split; [reflexivity|exact Hc].
    - eapply fsim_bind; [apply Hrec; exact Hb|].
      intros [v1 c1] [v2 c2] [Hv Hc]. cbn [fst snd] in Hv, Hc. apply fsim_ok. split; [reflexivity|exact Hc].
  Qed.

  Lemma walk_plain_sim rec1 rec2 f k sh : rec_sim rec1 rec2 ->
    forall t s1 s2, R s1 s2 -> fsim pairR (walk_plain F ops1 rec1 f k sh t s1) (walk_plain F ops2 rec2 f k sh t s2).
  Proof.
    intros Hrec t s1 s2 Hr. unfold walk_plain.
    eapply fsim_bind; [apply H_dispatch; exact Hr|].
    intros [x1 c1] [x2 c2] [Hx Hc]. cbn [fst snd] in Hx, Hc.
    destruct x1, x2; cbn [act_rel] in Hx; try contradiction.
    - subst. destruct (visit_prim F sh p0); cbn [obind]; try (right; reflexivity).
      apply fsim_ok. split; [reflexivity|exact Hc].
    - eapply fsim_bind; [apply (visit_seq_sim _ _ (elem_of_sim _ _ Hrec)); exact Hx|].
      intros [[v1 b1] d1] [[v2 b2] d2] (Hv & Hb & Hd). cbn [fst snd] in Hv, Hb, Hd. subst v2 d2. cbn [fst snd].
      eapply fsim_bind; [apply H_seq_exit; [exact Hc|exact Hb]|].
      intros e1 e2 He. apply fsim_ok. split; [reflexivity|exact He].
    - subst. rewrite H_color. destruct (p_color ops2 f sh c0); cbn [obind]; try (right; reflexivity).
      apply fsim_ok. split; [reflexivity|exact Hc].
    - eapply fsim_bind; [apply (visit_map_sim _ _ _ _ (key_of_sim _ _ false Hrec) (value_of_sim _ _ Hrec)); exact Hx|].
      intros [v1 b1] [v2 b2] [Hv Hb]. cbn [fst snd] in Hv, Hb. subst v2.
      eapply fsim_bind; [apply H_map_exit; [exact Hc|exact Hb]|].
      intros e1 e2 He. apply fsim_ok. split; [reflexivity|exact He].
  Qed.

  Lemma walk_enum_sim vs k t s1 s2 : R s1 s2 ->
    fsim pairR (walk_enum ops1 vs k t s1) (walk_enum ops2 vs k t s2).
  Proof.
    intros Hr. unfold walk_enum.
    eapply fsim_bind; [apply H_dispatch; exact Hr|].
    intros [x1 c1] [x2 c2] [Hx Hc]. cbn [fst snd] in Hx, Hc.
    destruct x1, x2; cbn [act_rel] in Hx; try contradiction; try (right; reflexivity).
    subst. destruct (visit_variant vs p0); cbn [obind]; try (right; reflexivity).
    apply fsim_ok. split; [reflexivity|exact Hc].
  Qed.

  Theorem walk_sim fuel : rec_sim (walk F ops1 fuel) (walk F ops2 fuel).
  Proof.
    induction fuel as [|f IH]; intros k sh t s1 s2 Hr; cbn [walk]; [right; exact I|].
    destruct sh; try (apply walk_plain_sim; [exact IH|exact Hr]).
    - eapply fsim_bind; [apply IH; exact Hr|].
      intros [v1 c1] [v2 c2] [Hv Hc]. cbn [fst snd] in Hv, Hc. subst v2. apply fsim_ok. split; [reflexivity|exact Hc].
    - right. reflexivity.
    - apply walk_enum_sim; exact Hr.
  Qed.

  Theorem walk_root_sim fuel sh s1 s2 : R s1 s2 ->
    fsim eq (walk_root F ops1 fuel sh s1) (walk_root F ops2 fuel sh s2).
  Proof.
    intros Hr. unfold walk_root.
    destruct sh; try (right; reflexivity).
    - eapply fsim_bind;
        [apply (visit_map_sim _ _ _ _ (key_of_sim _ _ true (walk_sim fuel)) (value_of_sim _ _ (walk_sim fuel))); exact Hr|].
      intros [v1 b1] [v2 b2] [Hv Hb]. cbn [fst snd] in Hv. subst v2. apply fsim_ok. reflexivity.
    - eapply fsim_bind;
        [apply (visit_map_sim _ _ _ _ (key_of_sim _ _ true (walk_sim fuel)) (value_of_sim _ _ (walk_sim fuel))); exact Hr|].
      intros [v1 b1] [v2 b2] [Hv Hb]. cbn [fst snd] in Hv. subst v2. apply fsim_ok. reflexivity.
  Qed.
End WalkSim.

(* ---------- Part 2: the binary reader deserializer ---------- *)
Section BinReaderDe.
  Variable cfg : bcfg.
  Variable input : bytes.

  (* the faulty state and its fault-free twin, the faulty one with an intact stream view *)
  Definition Rst (s1 s2 : rstate) : Prop := steq s1 s2 /\ sinv input s1.

  Lemma lift_fault_sound {A} (r1 r2 : outcome A * rstate) :
    fault_sound input r1 r2 -> fsim (fun x y => fst x = fst y /\ Rst (snd x) (snd y)) (lift r1) (lift r2).
  Proof.
    intros [(Hio & _)|(Ho & Hq & Hs)]; unfold lift.
    - rewrite Hio. left. reflexivity.
    - rewrite Ho. destruct (fst r2); right; cbn [oclass fst snd]; auto. split; [reflexivity|split; assumption].
  Qed.

  Lemma next_sim s1 s2 : Rst s1 s2 ->
    fsim (fun x y => fst x = fst y /\ Rst (snd x) (snd y)) (lift (rdr_next s1)) (lift (rdr_next s2)).
  Proof. intros [Hq Hs]. apply lift_fault_sound, bin_next_fault_sound; assumption. Qed.
  Lemma read_sim s1 s2 : Rst s1 s2 ->
    fsim (fun x y => fst x = fst y /\ Rst (snd x) (snd y)) (lift (rdr_read s1)) (lift (rdr_read s2)).
  Proof. intros [Hq Hs]. apply lift_fault_sound, bin_read_fault_sound; assumption. Qed.
  Lemma skip_sim s1 s2 : Rst s1 s2 ->
    fsim (fun x y => fst x = fst y /\ Rst (snd x) (snd y)) (lift (rdr_skip_container s1)) (lift (rdr_skip_container s2)).
  Proof. intros [Hq Hs]. apply lift_fault_sound, bin_skip_container_fault_sound; assumption. Qed.

  Lemma rd_deser_sim t s1 s2 : Rst s1 s2 ->
    fsim (fun x y => act_rel Rst (fst x) (fst y) /\ Rst (snd x) (snd y)) (rd_deser cfg t s1) (rd_deser cfg t s2).
  Proof.
    intros Hr. unfold rd_deser.
    destruct t; try (apply fsim_ok; cbn [fst snd act_rel]; split; [reflexivity|exact Hr]); try apply fsim_same_err.
    - apply fsim_ok; cbn [fst snd act_rel]; split; exact Hr.
    - destruct (str_prim cfg s); cbn [obind]; try (right; reflexivity).
      apply fsim_ok; cbn [fst snd act_rel]; split; [reflexivity|exact Hr].
    - destruct (str_prim cfg s); cbn [obind]; try (right; reflexivity).
      apply fsim_ok; cbn [fst snd act_rel]; split; [reflexivity|exact Hr].
    - destruct (id_prim cfg x); cbn [obind]; try (right; reflexivity).
      apply fsim_ok; cbn [fst snd act_rel]; split; [reflexivity|exact Hr].
  Qed.

  Lemma rd_dispatch_sim k h t s1 s2 : Rst s1 s2 ->
    fsim (fun x y => act_rel Rst (fst x) (fst y) /\ Rst (snd x) (snd y)) (rd_dispatch cfg k h t s1) (rd_dispatch cfg k h t s2).
  Proof.
    intros Hr. pose proof (rd_deser_sim t s1 s2 Hr) as Hd.
    assert (Hok : forall a : action rstate rgb, act_rel Rst a a -> fsim (fun x y : action rstate rgb * rstate => act_rel Rst (fst x) (fst y) /\ Rst (snd x) (snd y)) (Ok (a, s1)) (Ok (a, s2))).
    { intros a Ha. apply fsim_ok. cbn [fst snd]. split; [exact Ha|exact Hr]. }
    unfold rd_dispatch.
    destruct h, t; try exact Hd; try (apply Hok; cbn [act_rel]; reflexivity).
    all: try (destruct (str_prim cfg s); cbn [obind]; try (right; reflexivity);
              apply fsim_ok; cbn [fst snd act_rel]; split; [reflexivity|exact Hr]).
    all: try (apply fsim_ok; cbn [fst snd act_rel]; split; exact Hr).
    eapply fsim_bind; [apply skip_sim; exact Hr|].
    intros [u1 c1] [u2 c2] [Hu Hc]. cbn [fst snd] in Hu, Hc. apply fsim_ok. cbn [fst snd act_rel]. split; [reflexivity|exact Hc].
  Qed.

  Lemma rd_next_elem_sim s1 s2 : Rst s1 s2 -> fsim (pairR Rst) (rd_next_elem s1) (rd_next_elem s2).
  Proof.
    intros Hr. unfold rd_next_elem.
    eapply fsim_bind; [apply read_sim; exact Hr|].
    intros [t1 c1] [t2 c2] [Ht Hc]. cbn [fst snd] in Ht, Hc. subst t2.
    destruct t1; apply fsim_ok; split; cbn [fst snd]; auto.
  Qed.

  Lemma rd_seq_exit_sim h a1 a2 b1 b2 d : Rst a1 a2 -> Rst b1 b2 ->
    fsim Rst (rd_seq_exit h a1 b1 d) (rd_seq_exit h a2 b2 d).
  Proof.
    intros Ha Hb. unfold rd_seq_exit.
    destruct h, d; try (apply fsim_ok; exact Hb).
    eapply fsim_bind; [apply read_sim; exact Hb|].
    intros [t1 c1] [t2 c2] [Ht Hc]. cbn [fst snd] in Ht, Hc. subst t2.
    destruct t1; try apply fsim_same_err. apply fsim_ok; exact Hc.
  Qed.

  Lemma rd_key_loop_sim fuel : forall root s1 s2, Rst s1 s2 ->
    fsim (pairR Rst) (rd_key_loop fuel root s1) (rd_key_loop fuel root s2).
  Proof.
    induction fuel as [|f IH]; intros root s1 s2 Hr; cbn [rd_key_loop]; [right; exact I|].
    eapply fsim_bind; [apply next_sim; exact Hr|].
    intros [o1 c1] [o2 c2] [Ho Hc]. cbn [fst snd] in Ho, Hc. subst o2.
    destruct o1 as [t|].
    - destruct t; try (apply fsim_ok; split; cbn [fst snd]; auto).
      eapply fsim_bind; [apply read_sim; exact Hc|].
      intros [t1 e1] [t2 e2] [Ht He]. cbn [fst snd] in Ht, He. apply IH; exact He.
    - destruct root; [apply fsim_ok; split; cbn [fst snd]; auto|apply fsim_same_err].
  Qed.

  Lemma rd_next_key_sim root s1 s2 : Rst s1 s2 -> fsim (pairR Rst) (rd_next_key root s1) (rd_next_key root s2).
  Proof.
    intros Hr. unfold rd_next_key. rewrite (steq_pending _ _ (proj1 Hr)). apply rd_key_loop_sim; exact Hr.
  Qed.

  Lemma rd_next_value_sim s1 s2 : Rst s1 s2 -> fsim (pairR Rst) (rd_next_value s1) (rd_next_value s2).
  Proof.
    intros Hr. unfold rd_next_value.
    eapply fsim_bind; [apply read_sim; exact Hr|].
    intros [t1 c1] [t2 c2] [Ht Hc]. cbn [fst snd] in Ht, Hc. subst t2.
    destruct t1; try (apply fsim_ok; split; cbn [fst snd]; auto).
    apply read_sim; exact Hc.
  Qed.
End BinReaderDe.

(* the whole entry point: BinaryDeserializerBuilder::deserialize_reader under ANY read schedule returns
   the I/O error, or exactly what it returns over the schedule with the failures removed *)
Theorem deser_reader_fault_sound cfg capv sched sh d :
  deser_reader cfg capv sched sh d = Err EC_IO \/
  deser_reader cfg capv sched sh d = deser_reader cfg capv (clean sched) sh d.
Proof.
  apply fsim_eq. unfold deser_reader.
  apply (walk_root_sim (c_fops cfg) (ops_rd cfg) (ops_rd cfg) (Rst d)).
  - intros k h t s1 s2 Hr. apply rd_dispatch_sim; exact Hr.
  - intros s1 s2 Hr. apply rd_next_elem_sim; exact Hr.
  - intros h a1 a2 b1 b2 dr Ha Hb. apply rd_seq_exit_sim; assumption.
  - intros a1 a2 b1 b2 Ha Hb. apply fsim_ok. exact Hb.
  - intros root s1 s2 Hr. apply rd_next_key_sim; exact Hr.
  - intros s1 s2 Hr. apply rd_next_value_sim; exact Hr.
  - reflexivity.
  - split; [apply steq_new|apply sinv_new].
Qed.

(* a schedule without failures is its own twin: the fault-free run is the reference *)
Theorem deser_reader_clean_id cfg capv sched sh d :
  BinReader.no_fail sched = true -> deser_reader cfg capv (clean sched) sh d = deser_reader cfg capv sched sh d.
Proof. intros H. rewrite (clean_id_b _ H). reflexivity. Qed.

(* a Read that fails from the first call on: the first call of the root key loop reports the I/O
   error and the deserializer returns it, whatever the (map / struct) shape and the data *)
Lemma rdr_next_fail_first capv tl d : 0 < capv ->
  fst (rdr_next (rdr_new capv (Fail :: tl) d)) = Err E_Io.
Proof.
  intros Hcap. unfold rdr_new, bw_new.
  unfold rdr_next, rdr_fuel. cbn [run_steps fst snd win].
  unfold rdr_next_step. cbn [fst snd win].
  replace (read_token []) with (@Err (btoken * bytes) E_LexEof) by reflexivity.
  replace (E_LexEof =? E_LexEof)%N with true by reflexivity.
  unfold rdr_fill, bw_fill_buf. cbn [fst snd cap win length].
  replace (Nat.leb capv 0) with false by (symmetry; apply Nat.leb_gt; exact Hcap).
  unfold rd_read. cbn [sched]. reflexivity.
Qed.

Lemma root_key_fail_first cfg capv tl d ks rec : 0 < capv ->
  key_of (ops_rd cfg) rec true ks (rdr_new capv (Fail :: tl) d) = Err EC_IO.
Proof.
  intros Hcap. unfold key_of. cbn [p_next_key ops_rd]. unfold rd_next_key. cbn [rd_key_loop].
  unfold lift. rewrite (rdr_next_fail_first capv tl d Hcap). reflexivity.
Qed.

Theorem deser_reader_fail_first cfg capv tl sh d : 0 < capv ->
  (exists s, sh = ShMap s) \/ (exists tk fs, sh = ShStruct tk fs) ->
  deser_reader cfg capv (Fail :: tl) sh d = Err EC_IO.
Proof.
  intros Hcap Hsh. unfold deser_reader, walk_root, deser_fuel.
  destruct Hsh as [[s ->]|(tk & fs & ->)]; unfold visit_map.
  - replace (length d + shape_size (ShMap s) + 8) with (S (length d + shape_size (ShMap s) + 7)) by lia.
    cbn [map_loop]. rewrite root_key_fail_first by exact Hcap. reflexivity.
  - replace (length d + shape_size (ShStruct tk fs) + 8) with (S (length d + shape_size (ShStruct tk fs) + 7)) by lia.
    cbn [struct_loop]. rewrite root_key_fail_first by exact Hcap. reflexivity.
Qed.
