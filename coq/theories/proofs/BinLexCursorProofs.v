(* C08, wave 4: the Lexer *cursor* (BinLexer.lx_*: data + original length) -- what the property says
   about "the individual read_* primitives and next_token/peek" at the level of the public methods:
   position()/remainder() law kept by every method, next_* vs read_*, peek_* vs read_*, and
   read_token = read_id followed by the matching payload reader, cursors included. *)
From JV Require Import Bytes Tables BinPrim BinLexer.
From JV.proofs Require Import BinLexProofs BinRoundProofs.
From Coq Require Import List NArith ZArith Bool Lia Arith.
Import ListNotations.
Open Scope nat_scope.

(* ---------- the cursor invariant: the data is a suffix of the input the lexer was created on ---------- *)
Definition lx_inv (D : bytes) (l : lexer) : Prop :=
  lx_orig l = length D /\ exists p, D = p ++ lx_data l.

Lemma lx_inv_new D : lx_inv D (lx_new D).
Proof. split; [reflexivity|]. exists []. reflexivity. Qed.

Theorem lexer_position_law D l :
  lx_inv D l ->
  lx_remainder l = skipn (lx_position l) D /\ lx_position l + length (lx_remainder l) = length D.
Proof.
  intros [Ho [p Hp]]. unfold lx_remainder, lx_position. rewrite Ho, Hp, app_length.
  replace (length p + length (lx_data l) - length (lx_data l)) with (length p) by lia.
  rewrite skipn_app, skipn_all, Nat.sub_diag. cbn [skipn app]. split; [reflexivity | lia].
Qed.

Definition suffix_of (d' d : bytes) : Prop := exists p, d = p ++ d'.

Lemma suffix_refl d : suffix_of d d.
Proof. exists []. reflexivity. Qed.
Lemma suffix_trans a b c : suffix_of a b -> suffix_of b c -> suffix_of a c.
Proof. intros [p Hp] [q Hq]. exists (q ++ p). rewrite Hq, Hp, app_assoc. reflexivity. Qed.

Lemma lx_inv_suffix D l d' : lx_inv D l -> suffix_of d' (lx_data l) -> lx_inv D (mklx d' (lx_orig l)).
Proof.
  intros [Ho [p Hp]] [q Hq]. split; [assumption|]. cbn [lx_data]. exists (p ++ q).
  rewrite Hp, Hq, app_assoc. reflexivity.
Qed.

Lemma lexfn_suffix {A} (f : bytes -> outcome (A * bytes)) d v r : lexfn f -> f d = Ok (v, r) -> suffix_of r d.
Proof. intros Hf H. destruct (lf_split _ Hf _ _ _ H) as [c [E _]]. exists c. assumption. Qed.

(* a lifted primitive: on success the cursor is where the primitive stopped, on failure it has not moved *)
Lemma lx_lift_spec {A} (f : bytes -> outcome (A * bytes)) l :
  match f (lx_data l) with
  | Ok (a, r) => lx_lift f l = (Ok a, mklx r (lx_orig l))
  | _ => snd (lx_lift f l) = l
  end.
Proof. unfold lx_lift. destruct (f (lx_data l)) as [[a r]| | | |]; reflexivity. Qed.

Lemma lx_lift_inv {A} (f : bytes -> outcome (A * bytes)) D l :
  lexfn f -> lx_inv D l -> lx_inv D (snd (lx_lift f l)).
Proof.
  intros Hf Hi. pose proof (lx_lift_spec f l) as S.
  destruct (f (lx_data l)) as [[a r]| | | |] eqn:E; try (rewrite S; assumption).
  rewrite S. cbn [snd]. apply lx_inv_suffix; [assumption|]. apply (lexfn_suffix f _ a); assumption.
Qed.

Lemma lx_next_of_inv {A} (f : bytes -> outcome (A * bytes)) D l :
  lexfn f -> lx_inv D l -> lx_inv D (snd (lx_next_of f l)).
Proof.
  intros Hf Hi. unfold lx_next_of.
  destruct (f (lx_data l)) as [[a r]|e| | |] eqn:E; cbn [snd]; try assumption.
  - apply lx_inv_suffix; [assumption|]. apply (lexfn_suffix f _ a); assumption.
  - destruct ((e =? E_LexEof)%N && match lx_data l with [] => true | _ => false end); assumption.
Qed.

Lemma lx_read_bytes_inv n D l : lx_inv D l -> lx_inv D (snd (lx_read_bytes n l)).
Proof.
  intros Hi. unfold lx_read_bytes, lx_lift, read_bytes_prim.
  destruct (Nat.leb n (length (lx_data l))); cbn [snd]; [|assumption].
  apply lx_inv_suffix; [assumption|]. exists (firstn n (lx_data l)). symmetry. apply firstn_skipn.
Qed.

(* skip_container: every iteration leaves a suffix *)
Lemma lx_skip_pay_suffix {A} (f : bytes -> outcome (A * bytes)) depth d d1 :
  lexfn f -> suffix_of d1 d ->
  match lx_skip_pay depth d1 (drop_val (f d1)) with
  | inl (_, d') => suffix_of d' d
  | inr (_, d') => suffix_of d' d
  end.
Proof.
  intros Hf Hs. unfold drop_val.
  destruct (f d1) as [[a r]| | | |] eqn:E; cbn [omap obind lx_skip_pay snd]; try assumption.
  apply (suffix_trans _ d1); [|assumption]. apply (lexfn_suffix f _ a); assumption.
Qed.

Lemma lx_skip_step_suffix depth d :
  match lx_skip_step (depth, d) with
  | inl (_, d') => suffix_of d' d
  | inr (_, d') => suffix_of d' d
  end.
Proof.
  unfold lx_skip_step.
  destruct (read_id d) as [[id d1]| | | |] eqn:E; try apply suffix_refl.
  assert (S1 : suffix_of d1 d) by (apply (lexfn_suffix read_id _ id); [apply lexfn_read_id | assumption]).
  destruct ((id =? L_QUOTED) || (id =? L_UNQUOTED))%N; [apply lx_skip_pay_suffix; [apply lexfn_read_string | assumption]|].
  destruct (id =? L_U32)%N; [apply lx_skip_pay_suffix; [apply lexfn_read_u32 | assumption]|].
  destruct (id =? L_I32)%N; [apply lx_skip_pay_suffix; [apply lexfn_read_i32 | assumption]|].
  destruct (id =? L_U64)%N; [apply lx_skip_pay_suffix; [apply lexfn_read_u64 | assumption]|].
  destruct (id =? L_I64)%N; [apply lx_skip_pay_suffix; [apply lexfn_read_i64 | assumption]|].
  destruct (id =? L_BOOL)%N; [apply lx_skip_pay_suffix; [apply lexfn_read_bool | assumption]|].
  destruct (id =? L_F32)%N; [apply lx_skip_pay_suffix; [apply lexfn_read_f32 | assumption]|].
  destruct (id =? L_F64)%N; [apply lx_skip_pay_suffix; [apply lexfn_read_f64 | assumption]|].
  destruct (id =? L_CLOSE)%N; [destruct (Nat.eqb depth 1); assumption|].
  destruct (id =? L_OPEN)%N; assumption.
Qed.

Lemma lx_skip_run_suffix : forall fuel depth d o d',
  run_steps lx_skip_step fuel (depth, d) = Some (o, d') -> suffix_of d' d.
Proof.
  induction fuel as [|fuel IH]; intros depth d o d' H; [discriminate|].
  cbn [run_steps] in H. pose proof (lx_skip_step_suffix depth d) as S.
  destruct (lx_skip_step (depth, d)) as [[depth1 d1]|[o1 d1]].
  - apply (suffix_trans _ d1); [|assumption]. apply (IH _ _ _ _ H).
  - inversion H; subst. assumption.
Qed.

Lemma lx_skip_container_inv D l : lx_inv D l -> lx_inv D (snd (lx_skip_container l)).
Proof.
  intros Hi. unfold lx_skip_container, skip_container_bytes.
  destruct (run_steps lx_skip_step (lx_skip_fuel (lx_data l)) (1, lx_data l)) as [[o d']|] eqn:E; cbn [snd].
  - apply lx_inv_suffix; [assumption|]. apply (lx_skip_run_suffix _ _ _ _ _ E).
  - destruct l; assumption.
Qed.

Lemma lx_skip_value_inv id D l : lx_inv D l -> lx_inv D (snd (lx_skip_value id l)).
Proof.
  intros Hi. unfold lx_skip_value, lx_unit.
  repeat match goal with
  | |- context [if ?b then _ else _] => destruct b
  end; cbn [snd];
  first [ assumption
        | apply lx_skip_container_inv; assumption
        | apply lx_lift_inv; [|assumption];
          first [apply lexfn_read_string | apply lexfn_read_u32 | apply lexfn_read_i32 | apply lexfn_read_u64
                | apply lexfn_read_i64 | apply lexfn_read_bool | apply lexfn_read_f32 | apply lexfn_read_f64
                | apply lexfn_read_rgb] ].
Qed.

(* every public method of the Lexer keeps the invariant *)
Theorem lexer_methods_keep_position_law D l :
  lx_inv D l ->
  lx_inv D (snd (lx_read_id l)) /\ lx_inv D (snd (lx_next_id l)) /\
  lx_inv D (snd (lx_read_token l)) /\ lx_inv D (snd (lx_next_token l)) /\
  lx_inv D (snd (lx_read_string l)) /\ lx_inv D (snd (lx_read_bool l)) /\
  lx_inv D (snd (lx_read_u32 l)) /\ lx_inv D (snd (lx_read_u64 l)) /\
  lx_inv D (snd (lx_read_i32 l)) /\ lx_inv D (snd (lx_read_i64 l)) /\
  lx_inv D (snd (lx_read_f32 l)) /\ lx_inv D (snd (lx_read_f64 l)) /\
  lx_inv D (snd (lx_read_rgb l)) /\
  (forall n, lx_inv D (snd (lx_read_bytes n l))) /\
  (forall id, lx_inv D (snd (lx_skip_value id l))).
Proof.
  intros Hi.
  repeat split; intros;
  first [ apply lx_read_bytes_inv; assumption
        | apply lx_skip_value_inv; assumption
        | apply lx_lift_inv; [|assumption]
        | apply lx_next_of_inv; [|assumption] ];
  first [apply lexfn_read_id | apply lexfn_read_token | apply lexfn_read_string | apply lexfn_read_bool
        | apply lexfn_read_u32 | apply lexfn_read_u64 | apply lexfn_read_i32 | apply lexfn_read_i64
        | apply lexfn_read_f32 | apply lexfn_read_f64 | apply lexfn_read_rgb].
Qed.

(* a successful method advances position() by exactly the bytes the primitive consumed; a failing one
   leaves position() and remainder() alone *)
Theorem lexer_read_token_advances l t l' :
  lx_read_token l = (Ok t, l') -> length (lx_data l) <= lx_orig l ->
  read_token (lx_remainder l) = Ok (t, lx_remainder l') /\
  lx_position l' = lx_position l + (length (lx_remainder l) - length (lx_remainder l')) /\
  2 <= length (lx_remainder l) - length (lx_remainder l').
Proof.
  destruct l as [d orig]. unfold lx_read_token, lx_lift, lx_remainder, lx_position. cbn [lx_data lx_orig].
  destruct (read_token d) as [[t0 r]| | | |] eqn:E; cbn [recast]; intros H Hwf; inversion H; subst.
  cbn [lx_data lx_orig]. pose proof (read_token_len _ _ _ E). repeat split; lia.
Qed.

Theorem lexer_failure_keeps_cursor l :
  (forall e l', lx_read_token l = (Err e, l') -> l' = l) /\
  (forall e l', lx_next_token l = (Err e, l') -> l' = l) /\
  (forall l', lx_next_token l = (Ok None, l') -> l' = l /\ lx_remainder l = []).
Proof.
  destruct l as [d orig]. unfold lx_read_token, lx_next_token, lx_lift, lx_next_of, lx_remainder. cbn [lx_data lx_orig].
  destruct (read_token d) as [[t0 r]|e0| | |] eqn:E; cbn [recast]; repeat split; intros; try congruence.
  all: try (destruct ((e0 =? E_LexEof)%N && match d with [] => true | _ => false end) eqn:B; congruence).
  destruct ((e0 =? E_LexEof)%N && match d with [] => true | _ => false end) eqn:B; [|congruence].
  apply andb_prop in B as [_ B]. destruct d; [reflexivity | discriminate].
Qed.

(* ---------- next_* vs read_* ---------- *)
Definition is_nil (d : bytes) : bool := match d with [] => true | _ => false end.

Lemma next_of_vs_lift {A} (f : bytes -> outcome (A * bytes)) l :
  (forall d, (exists v r, f d = Ok (v, r)) \/ f d = Err E_LexEof \/ f d = Err E_InvalidRgb) ->
  match lx_lift f l with
  | (Ok t, l') => lx_next_of f l = (Ok (Some t), l')
  | (Err e, l') => l' = l /\ lx_next_of f l = (if (e =? E_LexEof)%N && is_nil (lx_data l) then Ok None else Err e, l)
  | _ => False
  end.
Proof.
  intros T. unfold lx_lift, lx_next_of, is_nil.
  destruct (T (lx_data l)) as [[v [r E]]|[E|E]]; rewrite E; cbn [recast].
  - reflexivity.
  - split; [reflexivity|]. destruct ((E_LexEof =? E_LexEof)%N && match lx_data l with [] => true | _ => false end); reflexivity.
  - split; [reflexivity|]. destruct ((E_InvalidRgb =? E_LexEof)%N && match lx_data l with [] => true | _ => false end); reflexivity.
Qed.

Theorem next_token_vs_read_token l :
  match lx_read_token l with
  | (Ok t, l') => lx_next_token l = (Ok (Some t), l')
  | (Err e, l') => l' = l /\ lx_next_token l = (if (e =? E_LexEof)%N && is_nil (lx_data l) then Ok None else Err e, l)
  | _ => False
  end.
Proof. apply (next_of_vs_lift read_token). apply read_token_total. Qed.

Theorem next_id_vs_read_id l :
  match lx_read_id l with
  | (Ok t, l') => lx_next_id l = (Ok (Some t), l')
  | (Err e, l') => l' = l /\ lx_next_id l = (if (e =? E_LexEof)%N && is_nil (lx_data l) then Ok None else Err e, l)
  | _ => False
  end.
Proof. apply (next_of_vs_lift read_id). apply (lf_total _ lexfn_read_id). Qed.

(* ---------- peek_* vs read_* (peek returns no cursor: it cannot move) ---------- *)
Theorem peek_token_agrees l :
  lx_peek_token l = match fst (lx_read_token l) with Ok t => Some t | _ => None end.
Proof.
  unfold lx_peek_token, lx_read_token, lx_lift.
  destruct (read_token (lx_data l)) as [[t r]| | | |]; reflexivity.
Qed.

Theorem peek_id_agrees l :
  lx_peek_id l = match fst (lx_read_id l) with Ok id => Some id | _ => None end.
Proof.
  unfold lx_peek_id, lx_read_id, lx_lift, read_id, get_split.
  destruct (Nat.leb 2 (length (lx_data l))); reflexivity.
Qed.

(* ---------- read_token = read_id, then the payload reader that id selects (cursors included) ---------- *)
Definition cursor_shape (t : btoken) (id : N) (l1 l' : lexer) : Prop :=
  match t with
  | BOpen => id = L_OPEN /\ l' = l1
  | BClose => id = L_CLOSE /\ l' = l1
  | BEqual => id = L_EQUAL /\ l' = l1
  | BU32 x => id = L_U32 /\ lx_read_u32 l1 = (Ok x, l')
  | BU64 x => id = L_U64 /\ lx_read_u64 l1 = (Ok x, l')
  | BI32 x => id = L_I32 /\ lx_read_i32 l1 = (Ok x, l')
  | BBool x => id = L_BOOL /\ lx_read_bool l1 = (Ok x, l')
  | BQuoted s => id = L_QUOTED /\ lx_read_string l1 = (Ok s, l')
  | BUnquoted s => id = L_UNQUOTED /\ lx_read_string l1 = (Ok s, l')
  | BF32 x => id = L_F32 /\ lx_read_f32 l1 = (Ok x, l')
  | BF64 x => id = L_F64 /\ lx_read_f64 l1 = (Ok x, l')
  | BRgb c => id = L_RGB /\ lx_read_rgb l1 = (Ok c, l')
  | BI64 x => id = L_I64 /\ lx_read_i64 l1 = (Ok x, l')
  | BId x => id = x /\ is_id x = true /\ l' = l1
  end.

Theorem lexer_token_is_id_then_payload l t l' :
  lx_read_token l = (Ok t, l') -> length (lx_data l) <= lx_orig l ->
  exists id l1, lx_read_id l = (Ok id, l1) /\ lx_position l1 = lx_position l + 2 /\ cursor_shape t id l1 l'.
Proof.
  destruct l as [d orig]. unfold lx_read_token, lx_lift. cbn [lx_data lx_orig].
  destruct (read_token d) as [[t0 r]| | | |] eqn:E; cbn [recast]; intros H Hwf; inversion H; subst.
  destruct (read_token_inv _ _ _ E) as [id [d1 [Ei Sh]]].
  exists id, (mklx d1 orig). split; [|split].
  - unfold lx_read_id, lx_lift. cbn [lx_data lx_orig]. rewrite Ei. reflexivity.
  - unfold lx_position. cbn [lx_data lx_orig]. pose proof (read_id_len _ _ _ Ei).
    lia.
  - destruct t; cbn [tok_shape cursor_shape] in *;
    unfold lx_read_u32, lx_read_u64, lx_read_i32, lx_read_i64, lx_read_bool, lx_read_string, lx_read_f32, lx_read_f64,
           lx_read_rgb, lx_lift; cbn [lx_data lx_orig];
    repeat match goal with H : _ /\ _ |- _ => destruct H end; subst;
    repeat split; try reflexivity; try assumption;
    match goal with H : _ = Ok _ |- _ => rewrite H; reflexivity end.
Qed.
