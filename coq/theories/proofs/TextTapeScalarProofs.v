(* C06 (text half), part 3 (I6): every scalar token is a slice of the input, start offsets
   strictly increasing in tape order.  Independent of the structural invariant: overwriting a
   token with a container and inserting the MixedContainer marker cannot disturb the order. *)
From JV Require Import Bytes Tables TextTok TextTape TextTapeWf.
From JV.proofs Require Import TextTapeWfProofs TextTapeInvProofs.
Require Import Lia.
Open Scope nat_scope.

(* ---------- slices ---------- *)
Lemma slice_at_mid : forall (p1 s p2 : bytes), slice_at (p1 ++ s ++ p2) (length p1) s.
Proof.
  intros. split.
  - rewrite !app_length. lia.
  - rewrite skipn_app, Nat.sub_diag, skipn_all. cbn [skipn app].
    rewrite firstn_app, Nat.sub_diag, firstn_all. cbn [firstn]. apply app_nil_r.
Qed.

(* ---------- scalars ---------- *)
Lemma scalars_lo_hi : forall input lo l hi, scalars input lo l hi -> lo <= hi.
Proof. induction 1; lia. Qed.

Lemma scalars_weaken : forall input lo l hi, scalars input lo l hi ->
  forall lo' hi', lo' <= lo -> hi <= hi' -> scalars input lo' l hi'.
Proof.
  induction 1 as [lo hi L|lo hi x s a r Hs La Sl Hr IH|lo hi x r Hs Hr IH]; intros lo' hi' A B.
  - apply sc_nil. lia.
  - apply sc_scalar with (s := s) (a := a); auto; try lia; try (apply IH; lia).
  - apply sc_other; auto.
Qed.

Lemma scalars_app : forall input lo l1 mid, scalars input lo l1 mid ->
  forall l2 hi, scalars input mid l2 hi -> scalars input lo (l1 ++ l2) hi.
Proof.
  induction 1 as [lo mid L|lo mid x s a r Hs La Sl Hr IH|lo mid x r Hs Hr IH]; intros l2 hi H2; cbn [app].
  - eapply scalars_weaken; eauto.
  - apply sc_scalar with (s := s) (a := a); auto.
  - apply sc_other; auto.
Qed.

Lemma scalars_tail : forall input lo x r hi, scalars input lo (x :: r) hi -> scalars input lo r hi.
Proof.
  intros input lo x r hi H. inversion H; subst.
  - eapply scalars_weaken; eauto; lia.
  - assumption.
Qed.

Lemma scalars_map : forall input lo l hi, scalars input lo l hi ->
  forall l', map scalar_bytes l = map scalar_bytes l' -> scalars input lo l' hi.
Proof.
  induction 1 as [lo hi L|lo hi x s a r Hs La Sl Hr IH|lo hi x r Hs Hr IH]; intros l' E.
  - destruct l'; [|discriminate]. apply sc_nil. assumption.
  - destruct l' as [|y r']; [discriminate|]. cbn [map] in E. injection E as E1 E2.
    eapply sc_scalar; eauto. congruence.
  - destruct l' as [|y r']; [discriminate|]. cbn [map] in E. injection E as E1 E2.
    apply sc_other; [congruence|auto].
Qed.

(* tape transformations that keep every [scalars] fact *)
Definition tape_le (t t' : ttape) : Prop :=
  forall input lo hi, scalars input lo t hi -> scalars input lo t' hi.

Lemma tape_le_refl : forall t, tape_le t t.
Proof. intros t input lo hi H. exact H. Qed.

Lemma tape_le_trans : forall a b c, tape_le a b -> tape_le b c -> tape_le a c.
Proof. intros a b c H1 H2 input lo hi H. apply H2, H1, H. Qed.

Lemma tape_le_push_none : forall t x, scalar_bytes x = None -> tape_le t (tpush t x).
Proof.
  intros t x Hx input lo hi H. unfold tpush. eapply scalars_app; [exact H|].
  apply sc_other; [exact Hx|]. apply sc_nil. lia.
Qed.

Lemma tape_le_tset : forall t i x t', tset t i x = Some t' -> scalar_bytes x = None -> tape_le t t'.
Proof.
  induction t as [|a t IH]; intros i x t' E Hx; [destruct i; discriminate|].
  destruct i as [|i]; cbn [tset] in E.
  - injection E as <-. intros input lo hi H. apply sc_other; [exact Hx|]. eapply scalars_tail; eauto.
  - destruct (tset t i x) as [r'|] eqn:Er; [|discriminate]. injection E as <-.
    specialize (IH _ _ _ Er Hx).
    intros input lo hi H. inversion H; subst.
    + eapply sc_scalar; [eassumption|eassumption|eassumption|]. apply IH. assumption.
    + apply sc_other; [assumption|]. apply IH. assumption.
Qed.

Lemma tape_le_insert : forall l1 l2 x, scalar_bytes x = None -> tape_le (l1 ++ l2) (l1 ++ x :: l2).
Proof.
  induction l1 as [|a l1 IH]; intros l2 x Hx input lo hi H; cbn [app] in *.
  - apply sc_other; assumption.
  - inversion H; subst.
    + eapply sc_scalar; [eassumption|eassumption|eassumption|]. eapply IH; eauto.
    + apply sc_other; [assumption|]. eapply IH; eauto.
Qed.

Lemma tape_le_tinsert : forall t x t', tinsert_before_last t x = Some t' -> scalar_bytes x = None -> tape_le t t'.
Proof.
  intros t x t' E Hx. unfold tinsert_before_last in E.
  destruct (length t) as [|n]; [discriminate|]. injection E as <-.
  rewrite <- (firstn_skipn n t) at 1. apply tape_le_insert. exact Hx.
Qed.

Lemma tape_le_header : forall t h t', tlast t = Some (TUnquoted h) ->
  tset t (length t - 1) (THeader h) = Some t' -> tape_le t t'.
Proof.
  intros t h t' Hl E. destruct (tlast_some _ _ Hl) as (t1 & ->).
  rewrite app_length in E. cbn [length] in E.
  replace (length t1 + 1 - 1) with (length t1) in E by lia.
  rewrite tset_last in E. injection E as <-.
  intros input lo hi H. eapply scalars_map; [exact H|].
  rewrite !map_app. reflexivity.
Qed.

Lemma tape_le_flag : forall t1 p (m : bool),
  tape_le t1
    (if m then
       match tget t1 p with
       | Some (TArray e _) => match tset t1 p (TArray e true) with Some x => x | None => t1 end
       | Some (TObject e _) => match tset t1 p (TObject e true) with Some x => x | None => t1 end
       | _ => t1
       end
     else t1).
Proof.
  intros t1 p m. destruct m; [|apply tape_le_refl].
  destruct (tget t1 p) as [[e mm|e mm| | | | | | | |]|]; try apply tape_le_refl.
  - destruct (tset t1 p (TArray e true)) eqn:E; [|apply tape_le_refl].
    eapply tape_le_tset; eauto.
  - destruct (tset t1 p (TObject e true)) eqn:E; [|apply tape_le_refl].
    eapply tape_le_tset; eauto.
Qed.

(* ---------- suffixes ---------- *)
Definition sfx (d d' : bytes) : Prop := exists w, d = w ++ d'.

Lemma sfx_refl : forall d, sfx d d.
Proof. intros d. exists []. reflexivity. Qed.

Lemma sfx_trans : forall a b c, sfx a b -> sfx b c -> sfx a c.
Proof. intros a b c [w1 ->] [w2 ->]. exists (w1 ++ w2). rewrite app_assoc. reflexivity. Qed.

Lemma sfx_cons : forall c d, sfx (c :: d) d.
Proof. intros c d. exists [c]. reflexivity. Qed.

Lemma sfx_skipn : forall n d, sfx d (skipn n d).
Proof. intros n d. exists (firstn n d). symmetry. apply firstn_skipn. Qed.

Lemma sfx_skip_ws : forall d d', skip_ws_t d = Some d' -> sfx d d'.
Proof. intros d d' H. apply skip_ws_t_spec in H. destruct H as (_ & pre & ->). exists pre. reflexivity. Qed.

(* ---------- Inv2 moves ---------- *)
Lemma inv2_sfx : forall input d t d', Inv2 input d t -> sfx d d' -> Inv2 input d' t.
Proof.
  intros input d t d' (pre & E & S) [w ->]. exists (pre ++ w). split.
  - rewrite <- app_assoc. exact E.
  - eapply scalars_weaken; [exact S|lia|]. rewrite app_length. lia.
Qed.

Lemma inv2_tape : forall input d t t', Inv2 input d t -> tape_le t t' -> Inv2 input d t'.
Proof. intros input d t t' (pre & E & S) H. exists pre. split; [exact E|]. apply H. exact S. Qed.

(* a scanner took [s] out of the head of the data: d = skipped ++ s ++ closing ++ d' *)
Definition scanned (d : bytes) (s : bytes) (d' : bytes) : Prop :=
  exists w mid, d = w ++ s ++ mid ++ d' /\ 1 <= length s + length mid.

Lemma inv2_scalar : forall input d t x s d',
  Inv2 input d t -> scalar_bytes x = Some s -> scanned d s d' -> Inv2 input d' (tpush t x).
Proof.
  intros input d t x s d' (pre & E & S) Hx (w & mid & -> & L).
  exists (pre ++ w ++ s ++ mid). split.
  - rewrite E. rewrite <- !app_assoc. reflexivity.
  - unfold tpush. eapply scalars_app; [exact S|].
    eapply sc_scalar with (a := length (pre ++ w)); [exact Hx| | |].
    + rewrite app_length. lia.
    + rewrite E. replace (pre ++ w ++ s ++ mid ++ d') with ((pre ++ w) ++ s ++ (mid ++ d')).
      * apply slice_at_mid.
      * rewrite <- !app_assoc. reflexivity.
    + apply sc_nil. rewrite !app_length. lia.
Qed.

Lemma scanned_sfx : forall d0 d s d', sfx d0 d -> scanned d s d' -> scanned d0 s d'.
Proof.
  intros d0 d s d' [w0 ->] (w & mid & -> & L). exists (w0 ++ w), mid. split; [|exact L].
  rewrite <- app_assoc. reflexivity.
Qed.

Lemma scanned_then_sfx : forall d s d' d'', scanned d s d' -> sfx d' d'' -> scanned d s d''.
Proof.
  intros d s d' d'' (w & mid & -> & L) [w' ->]. exists w, (mid ++ w'). split.
  - rewrite <- !app_assoc. reflexivity.
  - rewrite app_length. lia.
Qed.

(* ---------- the scanners return slices ---------- *)
Lemma find_idx_bound : forall p l k i, find_idx p l k = Some i -> k <= i < k + length l.
Proof.
  induction l as [|c l IH]; intros k i H; cbn [find_idx] in H; [discriminate|].
  cbn [length]. destruct (p c).
  - injection H as <-. lia.
  - apply IH in H. lia.
Qed.

Lemma tq_scan_bound : forall n l k i, length l <= n -> tq_scan l k = Some i -> k <= i < k + length l.
Proof.
  induction n as [|n IH]; intros l k i Ln H.
  - destruct l; [discriminate|cbn in Ln; lia].
  - destruct l as [|c l]; [discriminate|]. cbn [tq_scan] in H. cbn [length] in *.
    destruct (beq c 92).
    + destruct l as [|c' l']; [discriminate|]. cbn [length] in *.
      apply IH in H; [lia|lia].
    + destruct (beq c 34).
      * injection H as <-. lia.
      * apply IH in H; [lia|lia].
Qed.

Lemma pq_simd_bound : forall fuel h ptr i, pq_simd fuel h ptr = Some i -> i < length h.
Proof.
  induction fuel as [|f IH]; intros h ptr i H; cbn [pq_simd] in H; [discriminate|].
  destruct (Nat.ltb_spec ptr (length h / 16 * 16)) as [L|L]; [|discriminate].
  destruct (existsb _ _); [discriminate|].
  destruct (find_idx _ _ ptr) as [j|] eqn:F.
  - injection H as <-. apply find_idx_bound in F.
    rewrite firstn_length, skipn_length in F.
    pose proof (Nat.mul_div_le (length h) 16 ltac:(lia)) as D. lia.
  - eapply IH; eauto.
Qed.

Lemma skipn_S_cons : forall (A : Type) i (l : list A), i < length l -> exists x, skipn i l = x :: skipn (S i) l.
Proof.
  intros A i. induction i as [|i IH]; intros l L.
  - destruct l; [cbn in L; lia|]. eexists. reflexivity.
  - destruct l as [|a l]; [cbn in L; lia|]. cbn [length] in L.
    destruct (IH l ltac:(lia)) as (x & E). exists x. exact E.
Qed.

Lemma quote_scanned : forall c h i, i < length h -> scanned (c :: h) (firstn i h) (skipn (S i) h).
Proof.
  intros c h i L. destruct (skipn_S_cons _ i h L) as (x & E).
  exists [c], [x]. split; [|cbn [length]; lia].
  cbn [app]. f_equal. rewrite <- E. symmetry. apply firstn_skipn.
Qed.

Lemma parse_quote_scalar_scanned : forall d a b, parse_quote_scalar d = Ok (a, b) -> scanned d a b.
Proof.
  intros d a b H. destruct d as [|c h]; [discriminate|]. unfold parse_quote_scalar in H.
  destruct (pq_simd (S (length h)) h 0) as [i|] eqn:P.
  - injection H as <- <-. apply quote_scanned. eapply pq_simd_bound; eauto.
  - destruct (tq_scan h 0) as [i|] eqn:T; [|discriminate].
    injection H as <- <-. apply quote_scanned.
    apply (tq_scan_bound (length h)) in T; lia.
Qed.

Lemma split_scanned : forall d a b, split_at_scalar d = Ok (a, b) -> scanned d a b.
Proof.
  intros d a b H. assert (N : d <> []) by (intros ->; discriminate).
  destruct (split_at_scalar_spec d N) as (a' & b' & E & -> & Na). rewrite E in H. injection H as <- <-.
  exists [], []. split; [reflexivity|]. destruct a'; [congruence|cbn [length]; lia].
Qed.

Lemma parse_variable_scanned : forall d a b, parse_variable d = Ok (a, b) -> scanned d a b.
Proof.
  intros d a b H. unfold parse_variable in H.
  destruct d as [|c0 [|c1 r]]; try (apply split_scanned; assumption).
  destruct (beq c1 91); [|apply split_scanned; assumption].
  destruct (find_idx _ r 2) as [pos|]; [|discriminate]. injection H as <- <-.
  exists [], []. split; [cbn [app]; f_equal; symmetry; apply firstn_skipn|].
  cbn [length]. lia.
Qed.

Lemma scalar_step_scanned : forall d c tok d', scalar_step d c = Ok (tok, d') ->
  exists s, scalar_bytes tok = Some s /\ scanned d s d'.
Proof.
  intros d c tok d' H. unfold scalar_step in H.
  destruct (beq c 34).
  - destruct (parse_quote_scalar d) as [[a b]| | | |] eqn:E; try discriminate.
    cbn in H. injection H as <- <-. exists a. split; [reflexivity|]. apply parse_quote_scalar_scanned. assumption.
  - destruct (beq c 64).
    + destruct (parse_variable d) as [[a b]| | | |] eqn:E; try discriminate.
      cbn in H. injection H as <- <-. exists a. split; [reflexivity|]. apply parse_variable_scanned. assumption.
    + destruct (split_at_scalar d) as [[a b]| | | |] eqn:E; try discriminate.
      cbn in H. injection H as <- <-. exists a. split; [reflexivity|]. apply split_scanned. assumption.
Qed.

(* ---------- step preserves Inv2 ---------- *)
Definition post2 (input : bytes) (r : step_res) : Prop :=
  match r with
  | Next s' => Inv2 input (pdata s') (ptape s')
  | Done t => scalars_in_input input t
  | _ => True
  end.

Lemma post2_keep_mixed : forall input m r, post2 input r -> post2 input (keep_mixed m r).
Proof. intros input m [s'|t|e|x] H; exact H. Qed.

Ltac tle :=
  first
  [ apply tape_le_refl
  | match goal with
    | E : tset ?a _ ?x = Some ?b |- tape_le _ ?b =>
        apply tape_le_trans with a; [tle | apply (tape_le_tset _ _ _ _ E); reflexivity]
    | E : tinsert_before_last ?a ?x = Some ?b |- tape_le _ ?b =>
        apply tape_le_trans with a; [tle | apply (tape_le_tinsert _ _ _ E); reflexivity]
    | |- tape_le _ (tpush ?a ?x) =>
        apply tape_le_trans with a; [tle | apply tape_le_push_none; reflexivity]
    end ].

Lemma inv2_done : forall input d t t', Inv2 input d t -> tape_le t t' -> scalars_in_input input t'.
Proof. intros input d t t' (pre & E & S) H. exists (length pre). apply H. exact S. Qed.

Lemma parse_param_post2 : forall input d p st t (initial : bool),
  Inv2 input d t -> post2 input (parse_param d p st t initial).
Proof.
  intros input d p st t initial I0. unfold parse_param.
  rewrite match_o91. destruct (nth_error d 1) as [c1|]; [|exact I].
  destruct (N.eqb c1 91); [|exact I].
  match goal with |- context [if initial then ?a else ?bb] => set (init := if initial then a else bb) end.
  assert (Hinit : match init with None => True | Some (t2, _) => tape_le t t2 end).
  { subst init. destruct initial; [|apply tape_le_refl].
    destruct (length t) as [|ind]; [exact I|].
    destruct (tset t ind (TObject p false)) as [t2|] eqn:E; [|exact I]. tle. }
  destruct init as [[t2 p2]|]; [|exact I].
  apply (inv2_tape _ _ _ _ I0) in Hinit. clear I0.
  rewrite match_o33.
  set (undefined := match nth_error d 2 with Some c => if N.eqb c 33 then true else false | None => false end).
  set (off := if undefined then 3 else 2).
  destruct (Nat.ltb (length d) off); [exact I|].
  pose proof (sfx_skipn off d) as S0.
  destruct (skipn off d) as [|ca da]; [exact I|].
  destruct (split_at_scalar (ca :: da)) as [[name db]| | | |] eqn:Es; try exact I.
  apply split_scanned in Es.
  rewrite match_b93. destruct db as [|cb dc]; [exact I|].
  destruct (N.eqb cb 93); [|exact I].
  set (ptok := if undefined then TUndefinedParameter name else TParameter name).
  assert (Hp : scalar_bytes ptok = Some name) by (subst ptok; destruct undefined; reflexivity).
  assert (I1 : Inv2 input dc (tpush t2 ptok)).
  { eapply inv2_scalar; [exact Hinit|exact Hp|].
    eapply scanned_sfx; [exact S0|]. eapply scanned_then_sfx; [exact Es|apply sfx_cons]. }
  destruct (skip_ws_t dc) as [de|] eqn:Hws1; [|exact I].
  apply sfx_skip_ws in Hws1. apply (inv2_sfx _ _ _ _ I1) in Hws1.
  destruct (split_at_scalar de) as [[kv df]| | | |] eqn:Es2; try exact I.
  apply split_scanned in Es2.
  destruct (skip_ws_t df) as [dg|] eqn:Hws2; [|exact I].
  apply sfx_skip_ws in Hws2.
  pose proof (scanned_then_sfx _ _ _ _ Es2 Hws2) as Sc.
  assert (G2 : Inv2 input dg (tpush (tpush (tpush t2 ptok) (TObject p2 false)) (TUnquoted kv))).
  { eapply inv2_scalar; [|reflexivity|exact Sc].
    eapply inv2_tape; [exact Hws1|]. tle. }
  rewrite match_b93. destruct dg as [|cg d']; [exact G2|].
  destruct (N.eqb cg 93); [|exact G2]. cbn [post2 pdata ptape].
  eapply inv2_scalar; [exact Hws1|reflexivity|].
  eapply scanned_then_sfx; [exact Sc|apply sfx_cons].
Qed.

Ltac nx I1 := cbn [post2 pdata ptape]; eapply inv2_tape; [eapply inv2_sfx; [exact I1|]|tle].
Ltac sc_arm I1 Crashsite :=
  let Ess := fresh "Ess" in let s := fresh "s" in let Hs := fresh "Hs" in let Sc := fresh "Sc" in
  match goal with |- context [scalar_step ?d ?c] =>
    destruct (scalar_step d c) as [[?tok ?d']| | | |] eqn:Ess; try exact I;
    destruct (scalar_step_scanned _ _ _ _ Ess) as (s & Hs & Sc);
    cbn [post2 pdata ptape]; eapply inv2_scalar; [exact I1|exact Hs|exact Sc]
  end.

Theorem step_post2 : forall input s, Inv2 input (pdata s) (ptape s) -> post2 input (step s).
Proof.
  intros input [d0 st m p t] I0. cbn [pdata ptape] in I0. step_unfold.
  destruct (skip_ws_t d0) as [d|] eqn:Hws.
  2: { destruct st; try exact I.
       destruct (Nat.eqb p 0); [eapply inv2_done; [exact I0|tle]|].
       destruct (Nat.eqb (slot t p) 0); [|exact I].
       destruct (tset (tpush t (TEnd p)) p (TObject (length t) false)) as [t'|] eqn:E; [|exact I].
       eapply inv2_done; [exact I0|tle]. }
  apply sfx_skip_ws in Hws. apply (inv2_sfx _ _ _ _ I0) in Hws. clear I0 d0.
  destruct d as [|c d1]; [exact I|]. rename Hws into I1.
  assert (I2 : Inv2 input d1 t) by (eapply inv2_sfx; [exact I1|apply sfx_cons]).
  destruct st.
  - (* Key *)
    destruct (beq c 125 || beq c 93).
    { destruct (restore t (slot t p)) as [st' m'].
      destruct (Nat.eqb p 0 && Nat.eqb (slot t p) 0).
      - nx I1. apply sfx_cons.
      - destruct (tset (tpush t (TEnd p)) p (TObject (length t) m)) as [t'|] eqn:E; [|exact I].
        nx I1. apply sfx_cons. }
    destruct (beq c 123).
    { destruct (skip_ws_t d1) as [d2|] eqn:Hws2; [|exact I]. apply sfx_skip_ws in Hws2.
      assert (I3 : Inv2 input d2 t) by (eapply inv2_sfx; eauto).
      rewrite match_b125.
      assert (G : post2 input match tlast t with
                  | Some (TUnquoted h) =>
                      match tset t (length t - 1) (THeader h) with
                      | Some t' => Next (mkps d2 SOpen m p (tpush t' (TArray 0 false)))
                      | None => Crash 3023%N
                      end
                  | _ => Fail E_TextErr
                  end).
      { destruct (tlast t) as [x|] eqn:Hl; [|exact I]. destruct x; try exact I.
        destruct (tset t (length t - 1) (THeader s)) as [t'|] eqn:E; [|exact I].
        cbn [post2 pdata ptape]. eapply inv2_tape; [exact I3|].
        eapply tape_le_trans; [eapply tape_le_header; eauto|]. tle. }
      destruct d2 as [|c2 d3]; [exact G|].
      destruct (N.eqb c2 125); [|exact G].
      nx I3. apply sfx_cons. }
    destruct (beq c 91).
    { apply post2_keep_mixed. apply parse_param_post2. exact I1. }
    sc_arm I1 3024%N.
  - (* KeyValueSeparator *)
    destruct (op2 (c :: d1)) as [[o n]|].
    { destruct o; try (nx I1; apply sfx_skipn).
      destruct m; nx I1; apply sfx_skipn. }
    match goal with |- context [if ?cond then _ else _] => destruct cond end.
    { nx I1. apply sfx_skipn. }
    destruct (beq c 123).
    { nx I1. apply sfx_refl. }
    destruct (tinsert_before_last t TMixedContainer) as [t'|] eqn:E; [|exact I].
    nx I1. apply sfx_refl.
  - (* ObjectValue *)
    destruct (beq c 123).
    { nx I1. apply sfx_cons. }
    destruct (beq c 125); [exact I|].
    sc_arm I1 3026%N.
  - (* ArrayValue *)
    destruct (beq c 123).
    { nx I1. apply sfx_cons. }
    destruct (beq c 125).
    { destruct (match tget t p with
                | Some (TArray e _) => (e, true)
                | Some (TObject e _) => (e, false)
                | _ => (0, false)
                end) as [grand is_array].
      destruct (restore t grand) as [st' m'].
      destruct (Nat.eqb p 0 && Nat.eqb grand 0); [exact I|].
      destruct (tset t p (if is_array then TArray (length t) m else TObject (length t) m)) as [t'|] eqn:E; [|exact I].
      cbn [post2 pdata ptape]. eapply inv2_tape; [exact I2|].
      apply tape_le_trans with t'; [|apply tape_le_push_none; reflexivity].
      apply (tape_le_tset _ _ _ _ E). destruct is_array; reflexivity. }
    destruct (beq c 34 || beq c 64).
    { sc_arm I1 3037%N. }
    match goal with |- context [if ?cond then _ else _] => destruct cond end.
    2: { sc_arm I1 3038%N. }
    destruct m.
    + destruct (op2 (c :: d1)) as [[o n]|]; [|exact I]. nx I1. apply sfx_skipn.
    + destruct (tlast t) as [x|]; [|exact I].
      destruct (is_scalar_tok x); [|exact I].
      destruct (tinsert_before_last t TMixedContainer) as [t'|] eqn:E; [|exact I].
      destruct (op2 (c :: d1)) as [[o n]|]; [|exact I]. nx I1. apply sfx_skipn.
  - (* ParseOpen *)
    destruct (beq c 125).
    { destruct (length t) as [|ind]; [exact I|].
      destruct (restore t p) as [st' m'].
      destruct (tset t ind (TArray (S ind) false)) as [t'|] eqn:E; [|exact I].
      nx I1. apply sfx_cons. }
    destruct (beq c 91).
    { destruct m; [exact I|]. apply post2_keep_mixed. apply parse_param_post2. exact I1. }
    destruct (beq c 123).
    { destruct (skip_ws_t d1) as [sc|] eqn:Hws2; [|exact I]. apply sfx_skip_ws in Hws2.
      assert (I3 : Inv2 input sc t) by (eapply inv2_sfx; eauto).
      rewrite match_b125.
      assert (G : post2 input match length t with
                  | 0 => Crash 3029%N
                  | S ind =>
                      match tset t ind (TArray p false) with
                      | Some t' => Next (mkps (c :: d1) SArrVal false ind t')
                      | None => Crash 3030%N
                      end
                  end).
      { destruct (length t) as [|ind]; [exact I|].
        destruct (tset t ind (TArray p false)) as [t'|] eqn:E; [|exact I].
        nx I1. apply sfx_refl. }
      destruct sc as [|c2 d3]; [exact G|].
      destruct (N.eqb c2 125); [|exact G].
      nx I3. apply sfx_cons. }
    destruct (scalar_step (c :: d1) c) as [[tok d']| | | |] eqn:Ess; try exact I.
    destruct (scalar_step_scanned _ _ _ _ Ess) as (s & Hs & Sc).
    assert (I3 : Inv2 input d' (tpush t tok)) by (eapply inv2_scalar; [exact I1|exact Hs|exact Sc]).
    match goal with |- context [Nat.ltb (length ?x) 2] => set (t2 := x) end.
    assert (I4 : Inv2 input d' t2) by (eapply inv2_tape; [exact I3|apply tape_le_flag]).
    clearbody t2.
    destruct (skip_ws_t d') as [d2|] eqn:Hws3; [|exact I]. apply sfx_skip_ws in Hws3.
    destruct d2 as [|c2 d3]; [exact I|].
    destruct (Nat.ltb (length t2) 2); [exact I|].
    destruct (beq c2 61 || beq c2 62 || beq c2 60).
    + destruct (tset t2 (length t2 - 2) (TObject p false)) as [t3|] eqn:E; [|exact I].
      nx I4. exact Hws3.
    + destruct (tset t2 (length t2 - 2) (TArray p false)) as [t3|] eqn:E; [|exact I].
      nx I4. exact Hws3.
Qed.

Lemma ploop_post2 : forall input fuel s, Inv2 input (pdata s) (ptape s) ->
  match ploop fuel s with
  | Ok t => scalars_in_input input t
  | _ => True
  end.
Proof.
  intros input. induction fuel as [|f IH]; intros s H; [exact I|].
  cbn [ploop]. pose proof (step_post2 input s H) as P.
  destruct (step s) as [s'|t|e|x]; cbn [post2] in P; try exact I.
  - apply IH. exact P.
  - exact P.
Qed.

Theorem parse_scalars : forall input t bom, parse input = Ok (t, bom) -> scalars_in_input input t.
Proof.
  intros input t bom E. unfold parse in E.
  set (b := match input with 239%N :: 187%N :: 191%N :: _ => true | _ => false end) in E.
  set (data := if b then skipn 3 input else input) in E.
  assert (I0 : Inv2 input data []).
  { subst data. destruct b.
    - exists (firstn 3 input). split; [symmetry; apply firstn_skipn|]. apply sc_nil. lia.
    - exists []. split; [reflexivity|]. apply sc_nil. cbn. lia. }
  pose proof (ploop_post2 input (2 * length input + 8) (mkps data SKey false 0 []) I0) as P.
  destruct (ploop (2 * length input + 8) (mkps data SKey false 0 [])) as [t0| | | |]; try discriminate.
  cbn in E. injection E as <- _. exact P.
Qed.

(* the predicate is not trivially true: scalars out of input order are rejected *)
Lemma scalars_rejects_swapped : ~ scalars_in_input [97; 98]%N [TUnquoted [98]%N; TUnquoted [97]%N].
Proof.
  intros [hi H]. inversion H as [| ? ? ? s a r Hs La [L1 S1] Hr |]; subst; [|discriminate].
  cbn in Hs. injection Hs as <-.
  inversion Hr as [| ? ? ? s' a' r' Hs' La' [L2 S2] Hr' |]; subst; [|discriminate].
  cbn in Hs'. injection Hs' as <-. cbn [length] in *.
  assert (a = 0 \/ a = 1) as [->| ->] by lia.
  - cbn in S1. discriminate.
  - lia.
Qed.
