(* Proofs about Utf8.v: well-formedness, encode, lossy. *)
From JV Require Import Bytes Utf8.
From Coq Require Import NArith Lia List Bool.
Import ListNotations.
Open Scope N_scope.

(* ---------- complete finite domain of byte values ---------- *)
Definition byte_dom : list N := map N.of_nat (seq 0 256).

Lemma byte_dom_complete b : b < 256 -> In b byte_dom.
Proof.
  intros H. unfold byte_dom. apply in_map_iff. exists (N.to_nat b). split; [apply N2Nat.id|apply in_seq; lia].
Qed.

Lemma byte_all (P : N -> bool) : forallb P byte_dom = true -> forall b, b < 256 -> P b = true.
Proof. intros H b Hb. rewrite forallb_forall in H. apply H, byte_dom_complete, Hb. Qed.

(* is_cont b (b & 0xC0 == 0x80) is the range test 0x80..0xBF, for every byte *)
Lemma is_cont_fact : forallb (fun b => Bool.eqb (is_cont b) (in_range 128 191 b)) byte_dom = true.
Proof. vm_compute. reflexivity. Qed.

Lemma is_cont_range b : b < 256 -> is_cont b = in_range 128 191 b.
Proof. intros H. apply eqb_prop. exact (byte_all _ is_cont_fact b H). Qed.

Lemma in_range_iff lo hi b : in_range lo hi b = true <-> lo <= b <= hi.
Proof. unfold in_range. rewrite andb_true_iff, !N.leb_le. tauto. Qed.

(* ---------- one-step equations of valid_utf8 ---------- *)
Lemma valid_nil : valid_utf8 [] = true.
Proof. reflexivity. Qed.

Lemma valid_ascii b r : b <? 128 = true -> valid_utf8 (b :: r) = valid_utf8 r.
Proof.
  intros H. unfold valid_utf8. cbn [utf8_decode]. rewrite H. destruct (utf8_decode r); reflexivity.
Qed.

Lemma valid_2 b c1 r :
  b <? 128 = false -> utf8_char_width b =? 2 = true ->
  valid_utf8 (b :: c1 :: r) = is_cont c1 && valid_utf8 r.
Proof.
  intros H1 H2. unfold valid_utf8. cbn [utf8_decode]. rewrite H1, H2.
  destruct (is_cont c1); [|reflexivity]. destruct (utf8_decode r); reflexivity.
Qed.

Lemma width_excl b : utf8_char_width b =? 3 = true -> utf8_char_width b =? 2 = false.
Proof. intros H. apply N.eqb_eq in H. rewrite H. reflexivity. Qed.
Lemma width_excl4 b : utf8_char_width b =? 4 = true -> utf8_char_width b =? 2 = false /\ utf8_char_width b =? 3 = false.
Proof. intros H. apply N.eqb_eq in H. rewrite H. split; reflexivity. Qed.

Lemma valid_3 b c1 c2 r :
  b <? 128 = false -> utf8_char_width b =? 3 = true ->
  valid_utf8 (b :: c1 :: c2 :: r) = second3 b c1 && is_cont c2 && valid_utf8 r.
Proof.
  intros H1 H3. unfold valid_utf8. cbn [utf8_decode]. rewrite H1, (width_excl b H3), H3.
  destruct (second3 b c1 && is_cont c2); [|reflexivity]. destruct (utf8_decode r); reflexivity.
Qed.

Lemma valid_4 b c1 c2 c3 r :
  b <? 128 = false -> utf8_char_width b =? 4 = true ->
  valid_utf8 (b :: c1 :: c2 :: c3 :: r) = second4 b c1 && is_cont c2 && is_cont c3 && valid_utf8 r.
Proof.
  intros H1 H4. destruct (width_excl4 b H4) as [E2 E3].
  unfold valid_utf8. cbn [utf8_decode]. rewrite H1, E2, E3, H4.
  destruct (second4 b c1 && is_cont c2 && is_cont c3); [|reflexivity]. destruct (utf8_decode r); reflexivity.
Qed.

(* too short / wrong width: invalid *)
Lemma valid_short2 b : b <? 128 = false -> utf8_char_width b =? 2 = true -> valid_utf8 [b] = false.
Proof. intros H1 H2. unfold valid_utf8. cbn [utf8_decode]. now rewrite H1, H2. Qed.

Lemma valid_short3 b r : b <? 128 = false -> utf8_char_width b =? 3 = true -> (length r < 2)%nat -> valid_utf8 (b :: r) = false.
Proof.
  intros H1 H3 Hl. unfold valid_utf8. cbn [utf8_decode]. rewrite H1, (width_excl b H3), H3.
  destruct r as [|c1 [|c2 r]]; try reflexivity. cbn in Hl. lia.
Qed.

Lemma valid_short4 b r : b <? 128 = false -> utf8_char_width b =? 4 = true -> (length r < 3)%nat -> valid_utf8 (b :: r) = false.
Proof.
  intros H1 H4 Hl. destruct (width_excl4 b H4) as [E2 E3].
  unfold valid_utf8. cbn [utf8_decode]. rewrite H1, E2, E3, H4.
  destruct r as [|c1 [|c2 [|c3 r]]]; try reflexivity. cbn in Hl. lia.
Qed.

Lemma valid_width0 b r :
  b <? 128 = false -> utf8_char_width b =? 2 = false -> utf8_char_width b =? 3 = false ->
  utf8_char_width b =? 4 = false -> valid_utf8 (b :: r) = false.
Proof. intros H1 H2 H3 H4. unfold valid_utf8. cbn [utf8_decode]. now rewrite H1, H2, H3, H4. Qed.

Lemma valid_replacement r : valid_utf8 (REPLACEMENT ++ r) = valid_utf8 r.
Proof.
  unfold REPLACEMENT. cbn [app]. rewrite valid_3 by reflexivity.
  replace (second3 239 191) with true by reflexivity. replace (is_cont 189) with true by reflexivity. reflexivity.
Qed.

(* ---------- lossy always produces well-formed UTF-8, and is the identity on well-formed input ---------- *)
Ltac split_ifs :=
  repeat match goal with
         | |- context [if ?c then _ else _] => let E := fresh "E" in destruct c eqn:E
         | |- context [match ?l with [] => _ | _ :: _ => _ end] => is_var l; destruct l
         end.

Lemma lossy_valid_aux n : forall d, (length d <= n)%nat -> valid_utf8 (lossy d) = true.
Proof.
  induction n as [|n IH]; intros d Hl.
  - destruct d; [reflexivity|cbn in Hl; lia].
  - destruct d as [|b r]; [reflexivity|]. cbn [length] in Hl.
    cbn [lossy]. split_ifs; cbn [length] in Hl;
      repeat first [rewrite valid_replacement | rewrite valid_nil | rewrite app_nil_r];
      try reflexivity;
      try (rewrite valid_ascii by assumption);
      try (rewrite valid_2 by assumption);
      try (rewrite valid_3 by assumption);
      try (rewrite valid_4 by assumption);
      repeat match goal with H : _ = true |- context [_ && _] => rewrite H end;
      cbn [andb];
      try (apply IH; cbn [length]; lia);
      try (change REPLACEMENT with ([239; 191; 189] ++ []); rewrite valid_replacement; reflexivity).
Qed.

Theorem lossy_valid d : valid_utf8 (lossy d) = true.
Proof. apply (lossy_valid_aux (length d)). lia. Qed.

Lemma lossy_id_aux n : forall d, (length d <= n)%nat -> valid_utf8 d = true -> lossy d = d.
Proof.
  induction n as [|n IH]; intros d Hl Hv.
  - destruct d; [reflexivity|cbn in Hl; lia].
  - destruct d as [|b r]; [reflexivity|]. cbn [length] in Hl.
    cbn [lossy].
    destruct (b <? 128) eqn:E1.
    { rewrite valid_ascii in Hv by assumption. f_equal. apply IH; [lia|assumption]. }
    destruct (utf8_char_width b =? 2) eqn:E2.
    { destruct r as [|c1 r1]; [now rewrite valid_short2 in Hv|].
      rewrite valid_2 in Hv by assumption. apply andb_prop in Hv as [Hc Hv]. rewrite Hc.
      do 2 f_equal. apply IH; [cbn [length] in Hl; lia|assumption]. }
    destruct (utf8_char_width b =? 3) eqn:E3.
    { destruct r as [|c1 [|c2 r2]]; try (rewrite valid_short3 in Hv by (auto; cbn; lia); discriminate).
      rewrite valid_3 in Hv by assumption.
      apply andb_prop in Hv as [Hv Hr]. apply andb_prop in Hv as [Hs Hc]. rewrite Hs, Hc.
      do 3 f_equal. apply IH; [cbn [length] in Hl; lia|assumption]. }
    destruct (utf8_char_width b =? 4) eqn:E4.
    { destruct r as [|c1 [|c2 [|c3 r3]]]; try (rewrite valid_short4 in Hv by (auto; cbn; lia); discriminate).
      rewrite valid_4 in Hv by assumption.
      apply andb_prop in Hv as [Hv Hr]. apply andb_prop in Hv as [Hv Hc3]. apply andb_prop in Hv as [Hs Hc2].
      rewrite Hs, Hc2, Hc3. do 4 f_equal. apply IH; [cbn [length] in Hl; lia|assumption]. }
    now rewrite valid_width0 in Hv.
Qed.

Theorem lossy_id d : valid_utf8 d = true -> lossy d = d.
Proof. apply (lossy_id_aux (length d)). lia. Qed.

Corollary lossy_idempotent d : lossy (lossy d) = lossy d.
Proof. apply lossy_id, lossy_valid. Qed.

(* from_utf8_lossy: bytes = lossy, Borrowed iff the input is well formed *)
Theorem from_utf8_lossy_spec d :
  cow_bytes (from_utf8_lossy d) = lossy d /\ is_borrowed (from_utf8_lossy d) = valid_utf8 d.
Proof.
  unfold from_utf8_lossy. destruct (valid_utf8 d) eqn:E; cbn; split; auto. symmetry. now apply lossy_id.
Qed.

(* ---------- ASCII is well formed ---------- *)
Lemma valid_all_ascii d : forallb (fun b => b <? 128) d = true -> valid_utf8 d = true.
Proof.
  induction d as [|b r IH]; [reflexivity|]. cbn [forallb]. intros H. apply andb_prop in H as [Hb Hr].
  rewrite valid_ascii by assumption. auto.
Qed.

(* ---------- the encoding of a scalar value is well formed ---------- *)
Lemma divmod_gen c k : k <> 0 -> c = k * (c / k) + c mod k /\ c mod k < k.
Proof. intros H. split; [apply N.div_mod'|now apply N.mod_lt]. Qed.

Lemma width_of b :
  utf8_char_width b =
  if b <? 128 then 1 else if b <? 194 then 0 else if b <? 224 then 2 else if b <? 240 then 3 else if b <? 245 then 4 else 0.
Proof. reflexivity. Qed.

Ltac ltb_solve :=
  repeat match goal with
         | |- context [?a <? ?b] => first [replace (a <? b) with true by (symmetry; apply N.ltb_lt; lia)
                                          | replace (a <? b) with false by (symmetry; apply N.ltb_ge; lia)]
         | |- context [?a <=? ?b] => first [replace (a <=? b) with true by (symmetry; apply N.leb_le; lia)
                                           | replace (a <=? b) with false by (symmetry; apply N.leb_gt; lia)]
         | |- context [?a =? ?b] => first [replace (a =? b) with true by (symmetry; apply N.eqb_eq; lia)
                                          | replace (a =? b) with false by (symmetry; apply N.eqb_neq; lia)]
         end.

Lemma is_cont_plus m : m < 64 -> is_cont (128 + m) = true.
Proof. intros H. rewrite is_cont_range by lia. unfold in_range. ltb_solve. reflexivity. Qed.

Theorem valid_encode c r : is_scalar_value c = true -> valid_utf8 (encode_utf8 c ++ r) = valid_utf8 r.
Proof.
  intros Hs. unfold is_scalar_value in Hs.
  assert (Hc : c < 55296 \/ 57344 <= c < 1114112).
  { apply orb_prop in Hs as [H|H]; [left; now apply N.ltb_lt|right].
    apply andb_prop in H as [H1 H2]. apply N.leb_le in H1. apply N.ltb_lt in H2. lia. }
  clear Hs. unfold encode_utf8.
  destruct (c <? 128) eqn:E1.
  { cbn [app]. now apply valid_ascii. }
  apply N.ltb_ge in E1.
  destruct (c <? 2048) eqn:E2.
  { apply N.ltb_lt in E2. cbn [app].
    destruct (divmod_gen c 64 ltac:(discriminate)) as [Hd Hm].
    set (q := c / 64) in *. set (m := c mod 64) in *. clearbody q m.
    rewrite valid_2; [rewrite is_cont_plus by assumption; reflexivity| |].
    - apply N.ltb_ge. lia.
    - rewrite width_of. ltb_solve. reflexivity. }
  apply N.ltb_ge in E2.
  destruct (c <? 65536) eqn:E3.
  { apply N.ltb_lt in E3. cbn [app].
    destruct (divmod_gen c 64 ltac:(discriminate)) as [Hd Hm].
    destruct (divmod_gen (c / 64) 64 ltac:(discriminate)) as [Hd2 Hm2].
    assert (Hq : c / 4096 = c / 64 / 64) by (rewrite N.div_div by discriminate; reflexivity).
    rewrite Hq.
    set (q := c / 64) in *. set (m := c mod 64) in *. set (q2 := q / 64) in *. set (m2 := q mod 64) in *.
    clearbody q m q2 m2.
    rewrite valid_3; [rewrite !is_cont_plus by assumption| |].
    - replace (second3 (224 + q2) (128 + m2)) with true; [reflexivity|].
      symmetry. unfold second3, in_range.
      assert (q2 = 0 \/ 1 <= q2 <= 12 \/ q2 = 13 \/ 14 <= q2 <= 15) as [->|[H|[->|H]]] by lia.
      + ltb_solve. reflexivity.
      + ltb_solve. cbn. reflexivity.
      + ltb_solve. reflexivity.
      + ltb_solve. cbn. rewrite ?orb_true_r. reflexivity.
    - apply N.ltb_ge. lia.
    - rewrite width_of. ltb_solve. reflexivity. }
  apply N.ltb_ge in E3. cbn [app].
  destruct (divmod_gen c 64 ltac:(discriminate)) as [Hd Hm].
  destruct (divmod_gen (c / 64) 64 ltac:(discriminate)) as [Hd2 Hm2].
  destruct (divmod_gen (c / 64 / 64) 64 ltac:(discriminate)) as [Hd3 Hm3].
  assert (Hq : c / 4096 = c / 64 / 64) by (rewrite N.div_div by discriminate; reflexivity).
  assert (Hq3 : c / 262144 = c / 64 / 64 / 64) by (rewrite !N.div_div by discriminate; reflexivity).
  rewrite Hq, Hq3.
  set (q := c / 64) in *. set (m := c mod 64) in *. set (q2 := q / 64) in *. set (m2 := q mod 64) in *.
  set (q3 := q2 / 64) in *. set (m3 := q2 mod 64) in *.
  clearbody q m q2 m2 q3 m3.
  rewrite valid_4; [rewrite !is_cont_plus by assumption| |].
  - replace (second4 (240 + q3) (128 + m3)) with true; [reflexivity|].
    symmetry. unfold second4, in_range.
    assert (q3 = 0 \/ 1 <= q3 <= 3 \/ q3 = 4) as [->|[H| ->]] by lia.
    + ltb_solve. reflexivity.
    + ltb_solve. cbn. reflexivity.
    + ltb_solve. cbn. rewrite ?orb_true_r. reflexivity.
  - apply N.ltb_ge. lia.
  - rewrite width_of. ltb_solve. reflexivity.
Qed.

Theorem valid_encode_all cs r :
  forallb is_scalar_value cs = true -> valid_utf8 (encode_all cs ++ r) = valid_utf8 r.
Proof.
  unfold encode_all. induction cs as [|c cs IH]; intros H; [reflexivity|].
  cbn [forallb] in H. apply andb_prop in H as [Hc Hcs].
  cbn [flat_map]. rewrite <- app_assoc, valid_encode by assumption. auto.
Qed.

Lemma valid_flat_map_encode (f : N -> N) (l : bytes) :
  forallb (fun b => is_scalar_value (f b)) l = true ->
  valid_utf8 (flat_map (fun b => encode_utf8 (f b)) l) = true.
Proof.
  induction l as [|b l IH]; intros H; [reflexivity|].
  cbn [forallb] in H. apply andb_prop in H as [Hb Hl].
  cbn [flat_map]. rewrite valid_encode by assumption. auto.
Qed.

(* ---------- decode (encode c) = c : the byte sequences are the encodings of exactly the scalar values ---------- *)
Lemma scalar_range c : is_scalar_value c = true <-> c < 55296 \/ 57344 <= c < 1114112.
Proof.
  unfold is_scalar_value. rewrite orb_true_iff, andb_true_iff, !N.ltb_lt, N.leb_le. tauto.
Qed.

Lemma cont_range c : c < 256 -> is_cont c = true -> 128 <= c <= 191.
Proof. intros H Hc. rewrite is_cont_range in Hc by assumption. now apply in_range_iff. Qed.

Lemma width_cases b : b < 256 -> b <? 128 = false ->
  (utf8_char_width b =? 2 = true -> 194 <= b <= 223) /\
  (utf8_char_width b =? 3 = true -> 224 <= b <= 239) /\
  (utf8_char_width b =? 4 = true -> 240 <= b <= 244).
Proof.
  intros Hb H1. apply N.ltb_ge in H1. rewrite width_of.
  replace (b <? 128) with false by (symmetry; apply N.ltb_ge; lia).
  destruct (b <? 194) eqn:E1; [repeat split; discriminate|apply N.ltb_ge in E1].
  destruct (b <? 224) eqn:E2; [apply N.ltb_lt in E2; repeat split; try discriminate; lia|apply N.ltb_ge in E2].
  destruct (b <? 240) eqn:E3; [apply N.ltb_lt in E3; repeat split; try discriminate; lia|apply N.ltb_ge in E3].
  destruct (b <? 245) eqn:E4; [apply N.ltb_lt in E4; repeat split; try discriminate; lia|repeat split; discriminate].
Qed.

Lemma second3_range b c : second3 b c = true ->
  (b = 224 /\ 160 <= c <= 191) \/ (225 <= b <= 236 /\ 128 <= c <= 191) \/ (b = 237 /\ 128 <= c <= 159) \/ (238 <= b <= 239 /\ 128 <= c <= 191).
Proof.
  unfold second3. rewrite !orb_true_iff, !andb_true_iff, !in_range_iff, !N.eqb_eq. tauto.
Qed.

Lemma second4_range b c : second4 b c = true ->
  (b = 240 /\ 144 <= c <= 191) \/ (241 <= b <= 243 /\ 128 <= c <= 191) \/ (b = 244 /\ 128 <= c <= 143).
Proof.
  unfold second4. rewrite !orb_true_iff, !andb_true_iff, !in_range_iff, !N.eqb_eq. tauto.
Qed.

(* encoding of a value given by its 6-bit groups *)
Lemma encode_2 u w : 2 <= u < 32 -> w < 64 -> encode_utf8 (u * 64 + w) = [192 + u; 128 + w].
Proof.
  intros Hu Hw. unfold encode_utf8.
  replace (u * 64 + w <? 128) with false by (symmetry; apply N.ltb_ge; lia).
  replace (u * 64 + w <? 2048) with true by (symmetry; apply N.ltb_lt; lia).
  replace ((u * 64 + w) / 64) with u by (apply N.div_unique with w; lia).
  replace ((u * 64 + w) mod 64) with w by (apply N.mod_unique with u; lia). reflexivity.
Qed.

Lemma encode_3 u v w : u < 16 -> v < 64 -> w < 64 -> 2048 <= u * 4096 + v * 64 + w ->
  encode_utf8 (u * 4096 + v * 64 + w) = [224 + u; 128 + v; 128 + w].
Proof.
  intros Hu Hv Hw Hlo. unfold encode_utf8.
  replace (u * 4096 + v * 64 + w <? 128) with false by (symmetry; apply N.ltb_ge; lia).
  replace (u * 4096 + v * 64 + w <? 2048) with false by (symmetry; apply N.ltb_ge; lia).
  replace (u * 4096 + v * 64 + w <? 65536) with true by (symmetry; apply N.ltb_lt; lia).
  replace ((u * 4096 + v * 64 + w) / 4096) with u by (apply N.div_unique with (v * 64 + w); lia).
  replace ((u * 4096 + v * 64 + w) / 64) with (u * 64 + v) by (apply N.div_unique with w; lia).
  replace ((u * 64 + v) mod 64) with v by (apply N.mod_unique with u; lia).
  replace ((u * 4096 + v * 64 + w) mod 64) with w by (apply N.mod_unique with (u * 64 + v); lia). reflexivity.
Qed.

Lemma encode_4 t u v w : t < 8 -> u < 64 -> v < 64 -> w < 64 -> 65536 <= t * 262144 + u * 4096 + v * 64 + w ->
  encode_utf8 (t * 262144 + u * 4096 + v * 64 + w) = [240 + t; 128 + u; 128 + v; 128 + w].
Proof.
  intros Ht Hu Hv Hw Hlo. unfold encode_utf8. set (c := t * 262144 + u * 4096 + v * 64 + w) in *.
  replace (c <? 128) with false by (symmetry; apply N.ltb_ge; lia).
  replace (c <? 2048) with false by (symmetry; apply N.ltb_ge; lia).
  replace (c <? 65536) with false by (symmetry; apply N.ltb_ge; lia).
  replace (c / 262144) with t by (apply N.div_unique with (u * 4096 + v * 64 + w); lia).
  replace (c / 4096) with (t * 64 + u) by (apply N.div_unique with (v * 64 + w); lia).
  replace (c / 64) with (t * 4096 + u * 64 + v) by (apply N.div_unique with w; lia).
  replace ((t * 64 + u) mod 64) with u by (apply N.mod_unique with t; lia).
  replace ((t * 4096 + u * 64 + v) mod 64) with v by (apply N.mod_unique with (t * 64 + u); lia).
  replace (c mod 64) with w by (apply N.mod_unique with (t * 4096 + u * 64 + v); lia). reflexivity.
Qed.

(* well-formed bytes decode to scalar values whose encoding is the input: well-formedness in the sense of
   valid_utf8 is exactly "is a concatenation of encodings of Unicode scalar values" *)
Lemma decode_sound_aux n : forall d cs, (length d <= n)%nat -> wf_bytes d -> utf8_decode d = Some cs ->
  forallb is_scalar_value cs = true /\ encode_all cs = d.
Proof.
  induction n as [|n IH]; intros d cs Hl Hw H.
  - destruct d; [|cbn in Hl; lia]. cbn in H. injection H as <-. split; reflexivity.
  - destruct d as [|b r]; [cbn in H; injection H as <-; split; reflexivity|].
    cbn [length] in Hl. unfold wf_bytes in Hw. apply Forall_cons_iff in Hw as [Hb Hr]. unfold wf_byte in Hb.
    cbn [utf8_decode] in H.
    destruct (b <? 128) eqn:E1.
    { destruct (utf8_decode r) as [cs'|] eqn:Er; [|discriminate]. cbn in H. injection H as <-.
      destruct (IH r cs' ltac:(lia) Hr Er) as [Hs He]. apply N.ltb_lt in E1. split.
      - cbn [forallb]. rewrite Hs, andb_true_r. apply scalar_range. lia.
      - unfold encode_all in *. cbn [flat_map]. rewrite He. unfold encode_utf8.
        replace (b <? 128) with true by (symmetry; apply N.ltb_lt; lia). reflexivity. }
    destruct (width_cases b Hb E1) as (W2 & W3 & W4).
    destruct (utf8_char_width b =? 2) eqn:E2.
    { specialize (W2 eq_refl). destruct r as [|c1 r1]; [discriminate|].
      apply Forall_cons_iff in Hr as [Hc1 Hr1]. unfold wf_byte in Hc1.
      destruct (is_cont c1) eqn:Ec1; [|discriminate]. apply cont_range in Ec1; [|assumption].
      destruct (utf8_decode r1) as [cs'|] eqn:Er; [|discriminate]. cbn in H. injection H as <-.
      destruct (IH r1 cs' ltac:(cbn [length] in Hl; lia) Hr1 Er) as [Hs He].
      replace ((b - 192) * 64 + (c1 - 128)) with ((b - 192) * 64 + (c1 - 128)) by reflexivity.
      split.
      - cbn [forallb]. rewrite Hs, andb_true_r. apply scalar_range. lia.
      - unfold encode_all in *. cbn [flat_map]. rewrite He, encode_2 by lia.
        cbn [app]. f_equal; [lia|f_equal; lia]. }
    destruct (utf8_char_width b =? 3) eqn:E3.
    { specialize (W3 eq_refl). destruct r as [|c1 [|c2 r2]]; try discriminate.
      apply Forall_cons_iff in Hr as [Hc1 Hr]. apply Forall_cons_iff in Hr as [Hc2 Hr2]. unfold wf_byte in Hc1, Hc2.
      destruct (second3 b c1) eqn:Es; [|discriminate]. cbn [andb] in H.
      destruct (is_cont c2) eqn:Ec2; [|discriminate]. apply cont_range in Ec2; [|assumption].
      apply second3_range in Es.
      destruct (utf8_decode r2) as [cs'|] eqn:Er; [|discriminate]. cbn in H. injection H as <-.
      destruct (IH r2 cs' ltac:(cbn [length] in Hl; lia) Hr2 Er) as [Hs He].
      split.
      - cbn [forallb]. rewrite Hs, andb_true_r. apply scalar_range. lia.
      - unfold encode_all in *. cbn [flat_map]. rewrite He, encode_3 by lia.
        cbn [app]. f_equal; [lia|f_equal; [lia|f_equal; lia]]. }
    destruct (utf8_char_width b =? 4) eqn:E4; [|discriminate].
    { specialize (W4 eq_refl). destruct r as [|c1 [|c2 [|c3 r3]]]; try discriminate.
      apply Forall_cons_iff in Hr as [Hc1 Hr]. apply Forall_cons_iff in Hr as [Hc2 Hr]. apply Forall_cons_iff in Hr as [Hc3 Hr3].
      unfold wf_byte in Hc1, Hc2, Hc3.
      destruct (second4 b c1) eqn:Es; [|discriminate]. cbn [andb] in H.
      destruct (is_cont c2) eqn:Ec2; [|discriminate]. apply cont_range in Ec2; [|assumption]. cbn [andb] in H.
      destruct (is_cont c3) eqn:Ec3; [|discriminate]. apply cont_range in Ec3; [|assumption].
      apply second4_range in Es.
      destruct (utf8_decode r3) as [cs'|] eqn:Er; [|discriminate]. cbn in H. injection H as <-.
      destruct (IH r3 cs' ltac:(cbn [length] in Hl; lia) Hr3 Er) as [Hs He].
      split.
      - cbn [forallb]. rewrite Hs, andb_true_r. apply scalar_range. lia.
      - unfold encode_all in *. cbn [flat_map]. rewrite He, encode_4 by lia.
        cbn [app]. f_equal; [lia|f_equal; [lia|f_equal; [lia|f_equal; lia]]]. }
Qed.

Theorem valid_utf8_iff_encoding d : wf_bytes d ->
  (valid_utf8 d = true <-> exists cs, forallb is_scalar_value cs = true /\ d = encode_all cs).
Proof.
  intros Hw. split.
  - unfold valid_utf8. destruct (utf8_decode d) as [cs|] eqn:E; [|discriminate]. intros _.
    destruct (decode_sound_aux (length d) d cs (le_n _) Hw E) as [Hs He]. exists cs. auto.
  - intros (cs & Hs & ->). rewrite <- (app_nil_r (encode_all cs)). now rewrite valid_encode_all.
Qed.
