(* C09 (text half), part 5: on the rendering of a document (TextDoc) without parameter blocks whose
   bare words are plain, the reference tokenizer reads exactly the rendering's tokens, so counting
   its Open / Close tokens is counting the braces of the document's token list, and the byte
   skipper lands exactly after the matching close. *)
From JV Require Import Bytes Tables U64Swar BufWin TextTok TextReader TextRef TextSkipRef TextTape TextDoc.
From JV.proofs Require Import TextReaderProofs TextRefProofs TextFbProofs TextReaderMainProofs
  TextSkipProofs TextSkipStreamProofs TextSkipTokProofs TextSkipEndProofs TextParseProofs.
From Coq Require Import Lia List Arith ZArith.
Import ListNotations.
Open Scope nat_scope.

Notation rtk := TextReader.rtok.
Notation dtok := TextDoc.rtok.

(* ------------------------------------------------------------------ the tokenizer on rendered pieces *)
Lemma is_ws_t_is_ws c : is_ws_t c = is_ws c.
Proof. reflexivity. Qed.

Lemma find_lf_body body x k : Forall (fun b => b <> 10%N) body ->
  find_from (fun y => b_is y 10) (body ++ 10%N :: x) k = Some (k + length body).
Proof.
  intros H. revert k. induction H as [|c body Hc Hb IH]; intros k.
  - cbn [app find_from length]. cbn [b_is N.eqb Pos.eqb]. f_equal. lia.
  - cbn [app find_from length]. replace (b_is c 10) with false by (symmetry; apply N.eqb_neq; exact Hc).
    rewrite IH. f_equal. lia.
Qed.

Lemma tk_gap g s : gap_ok g -> fst (tk false (g ++ s)) = fst (tk false s).
Proof.
  induction 1 as [|c g Hc Hg IH|body g Hb Hg IH].
  - reflexivity.
  - cbn [app]. rewrite tk_unfold. rewrite is_ws_t_is_ws in Hc. rewrite item_ws by exact Hc. rewrite fst_bump. exact IH.
  - cbn [app]. rewrite <- app_assoc. cbn [app]. rewrite tk_unfold, item_hash.
    rewrite find_lf_body by exact Hb. cbn [Nat.add].
    rewrite <- (Nat.add_0_r (length body)), skipn_app_pre. cbn [skipn]. rewrite fst_bump.
    rewrite tk_unfold. rewrite item_ws by reflexivity. rewrite fst_bump. exact IH.
Qed.

Lemma nb_not c x : is_boundary c = false -> is_boundary x = true -> b_is c x = false.
Proof.
  intros Hc Hx. destruct (b_is c x) eqn:E; [|reflexivity]. apply b_is_true in E. subst. congruence.
Qed.

Lemma find_boundary_word (u rest : bytes) k :
  forallb (fun b => negb (is_boundary b)) u = true ->
  find_from is_boundary (u ++ rest) k = find_from is_boundary rest (k + length u).
Proof.
  revert k. induction u as [|c u IH]; intros k H.
  - cbn [app length]. f_equal. lia.
  - cbn [forallb] in H. apply andb_true_iff in H. destruct H as [Hc Hu]. apply negb_true_iff in Hc.
    cbn [app find_from length]. rewrite Hc, IH by exact Hu. f_equal. lia.
Qed.

Lemma unq_item_word c u rest :
  forallb (fun b => negb (is_boundary b)) u = true -> starts_boundary rest ->
  match rest with
  | [] => exists n, unq_item (c :: u ++ rest) = ITokEof (RUnq (c :: u)) n
  | _ => exists n, unq_item (c :: u ++ rest) = ITok (RUnq (c :: u)) rest n
  end.
Proof.
  intros Hu Hr. unfold unq_item. cbn [tl]. rewrite find_boundary_word by exact Hu. cbn [Nat.add].
  destruct rest as [|b r].
  - cbn [find_from]. rewrite app_nil_r. eexists. reflexivity.
  - cbn [starts_boundary] in Hr. cbn [find_from]. rewrite Hr. eexists.
    change (c :: u ++ b :: r) with ((c :: u) ++ b :: r).
    replace (S (length u)) with (length (c :: u)) by reflexivity.
    rewrite firstn_app, Nat.sub_diag, firstn_all, skipn_app, Nat.sub_diag, skipn_all. cbn [firstn skipn app].
    rewrite app_nil_r. reflexivity.
Qed.

Lemma tk_word u rest : simple_word u = true -> starts_boundary rest ->
  fst (tk false (u ++ rest)) = RTok (RUnq u) rest.
Proof.
  unfold simple_word, wf_word. intros H Hr.
  destruct u as [|c u]; [cbn in H; discriminate|].
  apply andb_true_iff in H. destruct H as [H H63]. apply andb_true_iff in H. destruct H as [H _].
  apply andb_true_iff in H. destruct H as [H Hnb]. apply andb_true_iff in H. destruct H as [H Hat].
  apply andb_true_iff in H. destruct H as [H34 H59].
  apply negb_true_iff in H34, H59, H63, Hat.
  cbn [forallb] in Hnb. apply andb_true_iff in Hnb. destruct Hnb as [Hc Hu]. apply negb_true_iff in Hc.
  assert (Hws : is_ws c = false).
  { unfold is_ws. rewrite (nb_not c 32), (nb_not c 9), (nb_not c 10), (nb_not c 13) by (exact Hc || reflexivity).
    cbn [orb]. exact H59. }
  pose proof (unq_item_word c u rest Hu Hr) as Hitem.
  assert (Hres : forall it, (match rest with
            | [] => exists n, it = ITokEof (RUnq (c :: u)) n
            | _ => exists n, it = ITok (RUnq (c :: u)) rest n end) ->
       fst (match it with
            | ISkip s' n => bump n (tk false s')
            | ITok t s' n => (RTok t s', n)
            | ITokEof t n => (RTok t [], n)
            | IEnd n => (REnd, n)
            | IEof k n => (REof k, n)
            end) = RTok (RUnq (c :: u)) rest).
  { intros it Hit. destruct rest as [|b0 r0]; destruct Hit as [m ->]; reflexivity. }
  rewrite tk_unfold. cbn [app].
  destruct (b_is c 64) eqn:E64.
  - apply b_is_true in E64. subst c. rewrite item_at.
    destruct u as [|c2 u2]; [cbn in Hat; discriminate|]. cbn [app].
    cbn [forallb] in Hu. apply andb_true_iff in Hu. destruct Hu as [Hc2 Hu2]. apply negb_true_iff in Hc2.
    rewrite (nb_not c2 91) by (exact Hc2 || reflexivity).
    apply Hres. apply Hitem.
  - rewrite item_default; try assumption; try (apply nb_not; [exact Hc|reflexivity]).
    rewrite andb_false_r. apply Hres. apply Hitem.
Qed.

Lemma rq_wf_quo rest : forall n s k, length s <= n -> wf_quo s = true ->
  rq_scan (s ++ 34%N :: rest) k = inl (k + length s).
Proof.
  induction n as [|n IH]; intros s k Hl Hw.
  - destruct s; [|cbn [length] in Hl; lia]. cbn [app rq_scan b_is N.eqb Pos.eqb length]. f_equal. lia.
  - destruct s as [|c s]; [cbn [app rq_scan b_is N.eqb Pos.eqb length]; f_equal; lia|].
    cbn [length] in Hl. cbn [wf_quo] in Hw. cbn [app rq_scan]. change (b_is c 92) with (N.eqb c 92).
    destruct (N.eqb c 92) eqn:E.
    + destruct s as [|c2 s2]; [discriminate|]. cbn [length] in Hl. cbn [app].
      rewrite IH by (lia || exact Hw). cbn [length]. f_equal. lia.
    + apply andb_true_iff in Hw. destruct Hw as [H34 Hw]. apply negb_true_iff in H34.
      change (b_is c 34) with (N.eqb c 34). rewrite H34.
      rewrite IH by (lia || exact Hw). cbn [length]. f_equal. lia.
Qed.

Lemma tk_quo s rest : wf_quo s = true ->
  fst (tk false (34%N :: s ++ 34%N :: rest)) = RTok (RQuo s) rest.
Proof.
  intros Hw. rewrite tk_unfold, item_quote. rewrite (rq_wf_quo rest (length s)) by (lia || exact Hw).
  cbn [Nat.add fst]. rewrite firstn_app, Nat.sub_diag, firstn_all. cbn [firstn]. rewrite app_nil_r.
  replace (S (length s)) with (length (s ++ [34%N])) by (rewrite app_length; cbn [length]; lia).
  replace (s ++ 34%N :: rest) with ((s ++ [34%N]) ++ rest) by (rewrite <- app_assoc; reflexivity).
  rewrite skipn_app, Nat.sub_diag, skipn_all. reflexivity.
Qed.

Lemma tk_op o rest : rest <> [] -> hdP (fun c => c <> 61%N) rest ->
  fst (tk false (op_symbol o ++ rest)) = RTok (ROp o) rest.
Proof.
  intros Hne Hh. destruct rest as [|c r]; [congruence|]. cbn [hdP] in Hh.
  assert (E : b_is c 61 = false) by (apply N.eqb_neq; exact Hh).
  destruct o; cbn [op_symbol app]; rewrite tk_unfold; cbn [item is_ws b_is N.eqb Pos.eqb orb andb op_item fst];
    change (N.eqb c 61) with (b_is c 61); rewrite ?E; reflexivity.
Qed.

(* ------------------------------------------------------------------ flat token lists *)
Definition hd_ne61 (t : dtok) : Prop := match fst t with c :: _ => c <> 61%N | [] => False end.

Inductive flat_ok : list dtok -> Prop :=
| fo_nil : flat_ok []
| fo_l ts : flat_ok ts -> flat_ok (lbrace :: ts)
| fo_r ts : flat_ok ts -> flat_ok (rbrace :: ts)
| fo_word u ts : simple_word u = true -> flat_ok ts -> flat_ok ((u, true) :: ts)
| fo_quo s ts : wf_quo s = true -> flat_ok ts -> flat_ok ((34%N :: s ++ [34%N], false) :: ts)
| fo_op o t ts : hd_ne61 t -> flat_ok (t :: ts) -> flat_ok ((op_symbol o, false) :: t :: ts).

Lemma flat_ok_tail t ts : flat_ok (t :: ts) -> flat_ok ts.
Proof. intros H. inversion H; subst; assumption. Qed.

Lemma flat_ok_suffix pre ts : flat_ok (pre ++ ts) -> flat_ok ts.
Proof. induction pre as [|t pre IH]; cbn [app]; [auto|]. intros H. apply IH. eapply flat_ok_tail; eauto. Qed.

Lemma sep_ok_suffix g pre ts i : sep_ok g (pre ++ ts) i -> sep_ok g ts (i + length pre).
Proof.
  revert i. induction pre as [|t pre IH]; intros i; cbn [app length].
  - rewrite Nat.add_0_r. auto.
  - cbn [sep_ok]. intros [_ H]. apply IH in H. replace (i + S (length pre)) with (S i + length pre) by lia. exact H.
Qed.

Lemma simple_word_facts u : simple_word u = true ->
  exists c r, u = c :: r /\ is_boundary c = false /\ forallb (fun b => negb (is_boundary b)) u = true.
Proof.
  unfold simple_word, wf_word. intros H. destruct u as [|c u]; [cbn in H; discriminate|].
  apply andb_true_iff in H. destruct H as [H _]. apply andb_true_iff in H. destruct H as [H _].
  apply andb_true_iff in H. destruct H as [_ Hnb]. exists c, u. split; [reflexivity|]. split; [|exact Hnb].
  cbn [forallb] in Hnb. apply andb_true_iff in Hnb. destruct Hnb as [Hc _]. apply negb_true_iff in Hc. exact Hc.
Qed.

Lemma word_not_brace u b : simple_word u = true -> is_lb (u, b) = false /\ is_rb (u, b) = false.
Proof.
  intros H. destruct (simple_word_facts u H) as (c & r & -> & Hc & _). unfold is_lb, is_rb. cbn [fst].
  destruct r; [|auto]. split.
  - change (N.eqb c 123) with (b_is c 123). apply nb_not; [exact Hc|reflexivity].
  - change (N.eqb c 125) with (b_is c 125). apply nb_not; [exact Hc|reflexivity].
Qed.

Lemma match_close_len : forall ts depth post, match_close depth ts = Some post -> length post < length ts.
Proof.
  induction ts as [|t ts IH]; intros depth post H; [discriminate|]. cbn [match_close] in H. cbn [length].
  destruct (is_lb t). { apply IH in H. lia. }
  destruct (is_rb t).
  { destruct (Nat.leb depth 1). { inversion H; subst. lia. } apply IH in H. lia. }
  apply IH in H. lia.
Qed.

Lemma render_toks_nonempty g t ts i : fst t <> [] -> render_toks g (t :: ts) i <> [].
Proof.
  intros H E. rewrite render_toks_cons in E. apply app_eq_nil in E. destruct E as [_ E].
  apply app_eq_nil in E. destruct E as [E _]. contradiction.
Qed.

(* token counting on the rendering = brace matching on the token list *)
Theorem flat_count g : (forall j, gap_ok (g j)) -> forall ts, flat_ok ts ->
  forall fuel i depth post, sep_ok g ts i -> 1 <= depth -> length ts < fuel ->
  match_close depth ts = Some post ->
  exists toks, tok_count fuel depth (render_toks g ts i) =
                 Some (toks, render_toks g post (i + (length ts - length post))) /\
               forallb tok_plain toks = true.
Proof.
  intros Hg ts Hts. induction Hts as [|ts Hts IH|ts Hts IH|u ts Hu Hts IH|s ts Hs Hts IH|o t ts Ht Hts IH];
    intros fuel i depth post Hsep Hd Hf Hm; [discriminate| | | | |];
    (destruct fuel as [|f]; [lia|]); cbn [length] in Hf;
    rewrite render_toks_cons; cbn [tok_count]; rewrite tk_gap by apply Hg; cbn [fst];
    cbn [sep_ok] in Hsep; destruct Hsep as [Hs1 Hsep];
    pose proof (match_close_len _ _ _ Hm) as Hlen; cbn [length] in Hlen.
  - (* Open *)
    cbn [lbrace fst app]. rewrite tk_unfold. cbn [item is_ws b_is N.eqb Pos.eqb orb fst].
    cbn [match_close is_lb lbrace fst N.eqb Pos.eqb] in Hm.
    pose proof (match_close_len _ _ _ Hm) as Hl2.
    destruct (IH f (S i) (S depth) post Hsep ltac:(lia) ltac:(lia) Hm) as (toks & Htc & Hp).
    rewrite Htc. exists (ROpen :: toks). split; [|exact Hp].
    f_equal. f_equal. f_equal. cbn [length]. lia.
  - (* Close *)
    cbn [rbrace fst app]. rewrite tk_unfold. cbn [item is_ws b_is N.eqb Pos.eqb orb fst].
    cbn [match_close is_lb is_rb rbrace fst N.eqb Pos.eqb] in Hm.
    destruct (Nat.leb depth 1) eqn:E1.
    + inversion Hm; subst. exists [RClose]. split; [|reflexivity]. f_equal. f_equal. f_equal. cbn [length]. lia.
    + pose proof (match_close_len _ _ _ Hm) as Hl2. apply Nat.leb_gt in E1.
      destruct (IH f (S i) (depth - 1) post Hsep ltac:(lia) ltac:(lia) Hm) as (toks & Htc & Hp).
      rewrite Htc. exists (RClose :: toks). split; [|exact Hp].
      f_equal. f_equal. f_equal. cbn [length]. lia.
  - (* bare word *)
    cbn [fst]. rewrite tk_word by (exact Hu || (apply Hs1; reflexivity)).
    cbn [match_close] in Hm. destruct (word_not_brace u true Hu) as [E1 E2]. rewrite E1, E2 in Hm.
    pose proof (match_close_len _ _ _ Hm) as Hl2.
    destruct (IH f (S i) depth post Hsep Hd ltac:(lia) Hm) as (toks & Htc & Hp).
    rewrite Htc. exists (RUnq u :: toks). split.
    + f_equal. f_equal. f_equal. cbn [length]. lia.
    + cbn [forallb tok_plain]. rewrite Hp, andb_true_r.
      unfold simple_word in Hu. apply andb_true_iff in Hu. destruct Hu as [Hu _].
      apply andb_true_iff in Hu. apply Hu.
  - (* quoted scalar *)
    cbn [fst]. cbn [app]. rewrite <- app_assoc. cbn [app]. rewrite tk_quo by exact Hs.
    cbn [match_close is_lb is_rb fst] in Hm.
    assert (Hm' : match_close depth ts = Some post).
    { destruct (s ++ [34%N]) eqn:E; [destruct s; discriminate|]. exact Hm. }
    pose proof (match_close_len _ _ _ Hm') as Hl2.
    destruct (IH f (S i) depth post Hsep Hd ltac:(lia) Hm') as (toks & Htc & Hp).
    rewrite Htc. exists (RQuo s :: toks). split; [|exact Hp].
    f_equal. f_equal. f_equal. cbn [length]. lia.
  - (* operator *)
    cbn [fst].
    assert (Hne : fst t <> []) by (unfold hd_ne61 in Ht; destruct (fst t); [contradiction|discriminate]).
    rewrite tk_op.
    2:{ apply render_toks_nonempty. exact Hne. }
    2:{ apply hd_render_toks; [exact Hg| |discriminate|].
        - intros c Hc. unfold is_ws_t, beq in Hc.
          repeat (apply orb_true_iff in Hc; destruct Hc as [Hc|Hc]); apply N.eqb_eq in Hc; subst; discriminate.
        - split; [|exact Hne]. unfold hd_ne61 in Ht. destruct (fst t); [exact I|exact Ht]. }
    assert (Hm' : match_close depth (t :: ts) = Some post).
    { cbn [match_close] in Hm. replace (is_lb (op_symbol o, false)) with false in Hm by (destruct o; reflexivity).
      replace (is_rb (op_symbol o, false)) with false in Hm by (destruct o; reflexivity). exact Hm. }
    pose proof (match_close_len _ _ _ Hm') as Hl2. cbn [length] in Hl2.
    destruct (IH f (S i) depth post Hsep Hd ltac:(cbn [length]; lia) Hm') as (toks & Htc & Hp).
    rewrite Htc. exists (ROp o :: toks). split; [|exact Hp].
    f_equal. f_equal. f_equal. cbn [length]. lia.
Qed.

(* ------------------------------------------------------------------ documents give flat lists *)
Lemma word_hd u b : simple_word u = true -> hd_ne61 (u, b).
Proof.
  intros H. destruct (simple_word_facts u H) as (c & r & -> & Hc & _). unfold hd_ne61. cbn [fst].
  intros ->. discriminate.
Qed.

Lemma app_cons_assoc {A} (x : A) (a b : list A) : (x :: a) ++ b = x :: a ++ b.
Proof. reflexivity. Qed.

Lemma simple_flat :
  (forall v, simple_value v = true -> forall rest, flat_ok rest ->
     flat_ok (toks_value v ++ rest) /\ exists t ts, toks_value v ++ rest = t :: ts /\ hd_ne61 t) /\
  (forall f, simple_field f = true -> forall rest, flat_ok rest -> flat_ok (toks_field f ++ rest)) /\
  (forall fs, simple_fields fs = true -> forall rest, flat_ok rest -> flat_ok (toks_fields fs ++ rest)) /\
  (forall vs, simple_values vs = true -> forall rest, flat_ok rest -> flat_ok (toks_values vs ++ rest)).
Proof.
  apply doc_mutind.
  - (* VScalar *)
    intros k s H rest Hr. cbn [simple_value simple_scalar] in H. cbn [toks_value app].
    destruct k; cbn [stok scalar_bytes].
    + split; [apply fo_word; assumption|]. eexists. eexists. split; [reflexivity|]. apply word_hd. exact H.
    + split; [apply fo_quo; assumption|]. eexists. eexists. split; [reflexivity|]. unfold hd_ne61. cbn [fst]. discriminate.
  - (* VObject *)
    intros fs Hfs tl Htl H rest Hr. cbn [simple_value] in H. apply andb_true_iff in H. destruct H as [H1 H2].
    cbn [toks_value]. rewrite app_cons_assoc, <- !app_assoc. cbn [app].
    split; [|eexists; eexists; split; [reflexivity|unfold hd_ne61; cbn [fst lbrace]; discriminate]].
    apply fo_l. apply Hfs; [exact H1|]. apply Htl; [exact H2|]. apply fo_r. exact Hr.
  - (* VArray *)
    intros items Hi H rest Hr. cbn [simple_value] in H.
    cbn [toks_value]. rewrite app_cons_assoc, <- !app_assoc. cbn [app].
    split; [|eexists; eexists; split; [reflexivity|unfold hd_ne61; cbn [fst lbrace]; discriminate]].
    apply fo_l. apply Hi; [exact H|]. apply fo_r. exact Hr.
  - (* VArrayKv *)
    intros items Hi kvs Hk H rest Hr. cbn [simple_value] in H. apply andb_true_iff in H. destruct H as [H1 H2].
    cbn [toks_value]. rewrite app_cons_assoc, <- !app_assoc. cbn [app].
    split; [|eexists; eexists; split; [reflexivity|unfold hd_ne61; cbn [fst lbrace]; discriminate]].
    apply fo_l. apply Hi; [exact H1|]. apply Hk; [exact H2|]. apply fo_r. exact Hr.
  - (* VHeader *)
    intros name v Hv H rest Hr. cbn [simple_value] in H. apply andb_true_iff in H. destruct H as [H1 H2].
    cbn [toks_value]. rewrite app_cons_assoc.
    split; [|eexists; eexists; split; [reflexivity|apply word_hd; exact H1]].
    apply fo_word; [exact H1|]. apply Hv; assumption.
  - (* Field *)
    intros k key op v Hv H rest Hr. cbn [simple_field] in H. apply andb_true_iff in H. destruct H as [H1 H2].
    destruct (Hv H2 rest Hr) as [Hfl (t & ts & Et & Ht)].
    cbn [toks_field]. rewrite app_cons_assoc, <- app_assoc.
    assert (Hin : flat_ok (optok op ++ toks_value v ++ rest)).
    { destruct op as [o|]; cbn [optok app]; [|exact Hfl]. rewrite Et. apply fo_op; [exact Ht|]. rewrite <- Et. exact Hfl. }
    destruct k; cbn [stok scalar_bytes simple_scalar] in *; [apply fo_word|apply fo_quo]; assumption.
  - intros name u s H. discriminate.
  - intros name u fs _ H. discriminate.
  - intros _ rest Hr. exact Hr.
  - intros f Hf fs Hfs H rest Hr. cbn [simple_fields] in H. apply andb_true_iff in H. destruct H as [H1 H2].
    cbn [toks_fields]. rewrite <- app_assoc. apply Hf; [exact H1|]. apply Hfs; assumption.
  - intros _ rest Hr. exact Hr.
  - intros v Hv vs Hvs H rest Hr. cbn [simple_values] in H. apply andb_true_iff in H. destruct H as [H1 H2].
    cbn [toks_values]. rewrite <- app_assoc. apply Hv; [exact H1|]. apply Hvs; assumption.
Qed.

Lemma simple_fields_flat d : simple_fields d = true -> flat_ok (toks_fields d).
Proof.
  intros H. rewrite <- (app_nil_r (toks_fields d)). apply (proj1 (proj2 (proj2 simple_flat))); [exact H|constructor].
Qed.

Lemma render_toks_app g pre ts i :
  exists p, render_toks g (pre ++ ts) i = p ++ render_toks g ts (i + length pre).
Proof.
  revert i. induction pre as [|t pre IH]; intros i; cbn [app length].
  - exists []. rewrite Nat.add_0_r. reflexivity.
  - destruct (IH (S i)) as [p Hp]. exists (g i ++ fst t ++ p). rewrite render_toks_cons, Hp, <- !app_assoc.
    replace (i + S (length pre)) with (S i + length pre) by lia. reflexivity.
Qed.

Lemma flat_tok_nonempty ts : flat_ok ts -> Forall (fun t : dtok => fst t <> []) ts.
Proof.
  induction 1; constructor; try assumption; cbn [fst lbrace rbrace]; try discriminate.
  - destruct (simple_word_facts u H) as (c & r & -> & _). discriminate.
  - destruct o; discriminate.
Qed.

Lemma render_toks_len g ts i : Forall (fun t : dtok => fst t <> []) ts -> length ts <= length (render_toks g ts i).
Proof.
  intros H. revert i. induction H as [|t ts Ht Hts IH]; intros i; cbn [length]; [lia|].
  rewrite render_toks_cons, !app_length. specialize (IH (S i)). destruct (fst t); [congruence|]. cbn [length]. lia.
Qed.

(* Theorem 4 on documents *)
Theorem doc_skip_is_token_counting : forall d l pre post post',
  simple_fields d = true ->
  (forall j, gap_ok (gap l j)) -> sep_ok (gap l) (toks_fields d) 0 ->
  toks_fields d = pre ++ lbrace :: post ->
  match_close 1 post = Some post' ->
  let s := render_toks (gap l) post (S (length pre)) in
  let r := render_toks (gap l) post' (length (toks_fields d) - length post') in
  (exists p, render d l = p ++ 123%N :: s) /\
  (exists toks, token_skip s = Some (toks, r) /\ forallb tok_plain toks = true) /\
  length r <= length s /\ skip_ref s = Some (length s - length r).
Proof.
  intros d l pre post post' Hd Hg Hsep Hsplit Hm s r.
  pose proof (simple_fields_flat d Hd) as Hflat. rewrite Hsplit in Hflat, Hsep.
  apply flat_ok_suffix in Hflat. pose proof (flat_ok_tail _ _ Hflat) as Hfp.
  apply sep_ok_suffix in Hsep. cbn [Nat.add sep_ok] in Hsep. destruct Hsep as [_ Hsep].
  pose proof (match_close_len _ _ _ Hm) as Hlen.
  assert (Hr : r = render_toks (gap l) post' (S (length pre) + (length post - length post'))).
  { unfold r. f_equal. rewrite Hsplit, app_length. cbn [length]. lia. }
  split.
  - unfold render. rewrite Hsplit. destruct (render_toks_app (gap l) pre (lbrace :: post) 0) as [p Hp].
    rewrite Hp. rewrite render_toks_cons. cbn [fst lbrace Nat.add app].
    exists ((if bom l then bom_bytes else []) ++ p ++ gap l (length pre)). rewrite <- !app_assoc. reflexivity.
  - assert (Hfuel : length post < S (length s)).
    { unfold s. pose proof (render_toks_len (gap l) post (S (length pre)) (flat_tok_nonempty _ Hfp)). lia. }
    destruct (flat_count (gap l) Hg post Hfp (S (length s)) (S (length pre)) 1 post' Hsep ltac:(lia) Hfuel Hm)
      as (toks & Htc & Hp).
    fold s in Htc. rewrite <- Hr in Htc.
    assert (Hts : token_skip s = Some (toks, r)) by exact Htc.
    split; [exists toks; auto|]. apply (token_skip_is_skip_ref s toks r Hts Hp).
Qed.

(* ------------------------------------------------------------------ every Open of a document has its Close *)
Definition BP (a : list dtok) : Prop :=
  forall depth rest, 1 <= depth -> match_close depth (a ++ rest) = match_close depth rest.
Definition HM (a : list dtok) : Prop :=
  forall rest pre post, a ++ rest = pre ++ lbrace :: post -> length pre < length a ->
  exists post', match_close 1 post = Some post'.

Lemma BP_nil : BP [].
Proof. intros d r _. reflexivity. Qed.
Lemma BP_app a b : BP a -> BP b -> BP (a ++ b).
Proof. intros Ha Hb d r Hd. rewrite <- app_assoc, Ha, Hb by exact Hd. reflexivity. Qed.
Lemma BP_single t : is_lb t = false -> is_rb t = false -> BP [t].
Proof. intros H1 H2 d r _. cbn [app match_close]. rewrite H1, H2. reflexivity. Qed.
Lemma BP_container inner : BP inner -> BP (lbrace :: inner ++ [rbrace]).
Proof.
  intros Hi d r Hd. cbn [app]. rewrite <- app_assoc. cbn [app match_close is_lb lbrace fst N.eqb Pos.eqb].
  rewrite Hi by lia. cbn [match_close is_lb is_rb rbrace fst N.eqb Pos.eqb].
  replace (Nat.leb (S d) 1) with false by (symmetry; apply Nat.leb_gt; lia).
  replace (S d - 1) with d by lia. reflexivity.
Qed.

Lemma app_split {A} (a b pre : list A) x post : a ++ b = pre ++ x :: post ->
  (length pre < length a /\ exists a2, a = pre ++ x :: a2 /\ post = a2 ++ b) \/
  (length a <= length pre /\ exists pre2, pre = a ++ pre2 /\ b = pre2 ++ x :: post).
Proof.
  revert pre. induction a as [|y a IH]; intros pre H.
  - right. split; [cbn; lia|]. exists pre. auto.
  - destruct pre as [|z pre].
    + left. cbn [app] in H. inversion H; subst. split; [cbn; lia|]. exists a. auto.
    + cbn [app] in H. inversion H as [[Hz H']]. subst z. destruct (IH pre H') as [[Hl (a2 & -> & ->)]|[Hl (pre2 & -> & ->)]].
      * left. split; [cbn [length]; rewrite app_length in *; cbn [length] in *; lia|]. exists a2. auto.
      * right. split; [cbn [length]; rewrite app_length; lia|]. exists pre2. auto.
Qed.

Lemma HM_nil : HM [].
Proof. intros r pre post _ H. cbn in H. lia. Qed.
Lemma HM_app a b : HM a -> HM b -> HM (a ++ b).
Proof.
  intros Ha Hb rest pre post E Hl. rewrite <- app_assoc in E.
  destruct (app_split _ _ _ _ _ E) as [[Hl1 _]|[Hl1 (pre2 & -> & E2)]].
  - apply (Ha _ _ _ E Hl1).
  - apply (Hb _ _ _ E2). rewrite !app_length in Hl. lia.
Qed.
Lemma HM_single t : t <> lbrace -> HM [t].
Proof.
  intros Ht rest pre post E Hl. cbn [length] in Hl. destruct pre; [|cbn [length] in Hl; lia].
  cbn [app] in E. inversion E. congruence.
Qed.
Lemma HM_container inner : HM inner -> BP inner -> HM (lbrace :: inner ++ [rbrace]).
Proof.
  intros Hi Hb rest pre post E Hl. destruct pre as [|t pre].
  - cbn [app] in E. inversion E as [E']. rewrite <- app_assoc. cbn [app]. rewrite Hb by lia.
    exists rest. reflexivity.
  - cbn [app] in E. inversion E as [[Et E']]. rewrite <- app_assoc in E'. cbn [app] in E'.
    cbn [length] in Hl. rewrite app_length in Hl. cbn [length] in Hl.
    destruct (app_split _ _ _ _ _ E') as [[Hl1 _]|[Hl1 (pre2 & -> & E2)]].
    + apply (Hi _ _ _ E' Hl1).
    + rewrite app_length in Hl. destruct pre2; [|cbn [length] in Hl; lia]. cbn [app] in E2. inversion E2.
Qed.

Lemma quo_not_brace s : is_lb (34%N :: s ++ [34%N], false) = false /\ is_rb (34%N :: s ++ [34%N], false) = false.
Proof. unfold is_lb, is_rb. cbn [fst]. destruct (s ++ [34%N]) eqn:E; [destruct s; discriminate|]. auto. Qed.

Lemma scalar_tok_facts k s : simple_scalar k s = true -> BP [stok k s] /\ HM [stok k s].
Proof.
  intros H. destruct k; cbn [stok scalar_bytes simple_scalar] in *.
  - destruct (word_not_brace s true H) as [H1 H2]. split; [apply BP_single; assumption|apply HM_single; discriminate].
  - destruct (quo_not_brace s) as [H1 H2]. split; [apply BP_single; assumption|apply HM_single; discriminate].
Qed.

Lemma simple_balanced :
  (forall v, simple_value v = true -> BP (toks_value v) /\ HM (toks_value v)) /\
  (forall f, simple_field f = true -> BP (toks_field f) /\ HM (toks_field f)) /\
  (forall fs, simple_fields fs = true -> BP (toks_fields fs) /\ HM (toks_fields fs)) /\
  (forall vs, simple_values vs = true -> BP (toks_values vs) /\ HM (toks_values vs)).
Proof.
  apply doc_mutind.
  - intros k s H. cbn [toks_value]. apply scalar_tok_facts. exact H.
  - intros fs Hfs tl Htl H. cbn [simple_value] in H. apply andb_true_iff in H. destruct H as [H1 H2].
    destruct (Hfs H1) as [B1 M1]. destruct (Htl H2) as [B2 M2]. cbn [toks_value]. rewrite app_assoc.
    split; [apply BP_container, BP_app; assumption|apply HM_container; [apply HM_app|apply BP_app]; assumption].
  - intros items Hi H. cbn [simple_value] in H. destruct (Hi H) as [B1 M1]. cbn [toks_value].
    split; [apply BP_container; assumption|apply HM_container; assumption].
  - intros items Hi kvs Hk H. cbn [simple_value] in H. apply andb_true_iff in H. destruct H as [H1 H2].
    destruct (Hi H1) as [B1 M1]. destruct (Hk H2) as [B2 M2]. cbn [toks_value]. rewrite app_assoc.
    split; [apply BP_container, BP_app; assumption|apply HM_container; [apply HM_app|apply BP_app]; assumption].
  - intros name v Hv H. cbn [simple_value] in H. apply andb_true_iff in H. destruct H as [H1 H2].
    destruct (Hv H2) as [B1 M1]. destruct (word_not_brace name true H1) as [N1 N2]. cbn [toks_value].
    change ((name, true) :: toks_value v) with ([(name, true)] ++ toks_value v).
    split; [apply BP_app; [apply BP_single|]; assumption|apply HM_app; [apply HM_single; discriminate|assumption]].
  - intros k key op v Hv H. cbn [simple_field] in H. apply andb_true_iff in H. destruct H as [H1 H2].
    destruct (Hv H2) as [B1 M1]. destruct (scalar_tok_facts k key H1) as [B0 M0]. cbn [toks_field].
    change (stok k key :: optok op ++ toks_value v) with ([stok k key] ++ optok op ++ toks_value v).
    assert (Bo : BP (optok op) /\ HM (optok op)).
    { destruct op as [o|]; cbn [optok]; [|split; [apply BP_nil|apply HM_nil]].
      split; [apply BP_single; destruct o; reflexivity|apply HM_single; destruct o; discriminate]. }
    destruct Bo as [Bo Mo].
    split; [repeat apply BP_app; assumption|repeat apply HM_app; assumption].
  - intros name u s H. discriminate.
  - intros name u fs _ H. discriminate.
  - intros _. split; [apply BP_nil|apply HM_nil].
  - intros f Hf fs Hfs H. cbn [simple_fields] in H. apply andb_true_iff in H. destruct H as [H1 H2].
    destruct (Hf H1) as [B1 M1]. destruct (Hfs H2) as [B2 M2]. cbn [toks_fields].
    split; [apply BP_app; assumption|apply HM_app; assumption].
  - intros _. split; [apply BP_nil|apply HM_nil].
  - intros v Hv vs Hvs H. cbn [simple_values] in H. apply andb_true_iff in H. destruct H as [H1 H2].
    destruct (Hv H1) as [B1 M1]. destruct (Hvs H2) as [B2 M2]. cbn [toks_values].
    split; [apply BP_app; assumption|apply HM_app; assumption].
Qed.

Theorem doc_open_has_close d pre post : simple_fields d = true ->
  toks_fields d = pre ++ lbrace :: post -> exists post', match_close 1 post = Some post'.
Proof.
  intros Hd E. destruct (proj1 (proj2 (proj2 simple_balanced)) d Hd) as [_ HMd].
  apply (HMd [] pre post); [rewrite app_nil_r; exact E|]. rewrite E, app_length. cbn [length]. lia.
Qed.

(* every Open of a simple document: unconditional form *)
Theorem doc_skip_every_open : forall d l pre post,
  simple_fields d = true -> wf_layout d l ->
  toks_fields d = pre ++ lbrace :: post ->
  exists post',
    match_close 1 post = Some post' /\
    let s := render_toks (gap l) post (S (length pre)) in
    let r := render_toks (gap l) post' (length (toks_fields d) - length post') in
    (exists p, render d l = p ++ 123%N :: s) /\
    (exists toks, token_skip s = Some (toks, r) /\ forallb tok_plain toks = true) /\
    length r <= length s /\ skip_ref s = Some (length s - length r).
Proof.
  intros d l pre post Hd (Hg & Hsep & _) E.
  destruct (doc_open_has_close d pre post Hd E) as [post' Hm]. exists post'. split; [exact Hm|].
  apply doc_skip_is_token_counting; assumption.
Qed.

(* streaming form: a reader that stands just after an Open of the rendering *)
Theorem doc_stream_skip : forall d l pre post input fuel r,
  simple_fields d = true -> wf_layout d l ->
  toks_fields d = pre ++ lbrace :: post ->
  wf_bytes input -> rok input r ->
  stream_of r = render_toks (gap l) post (S (length pre)) ->
  skip_cap_ok r -> length (rest (rrd r)) < fuel ->
  exists post' r',
    match_close 1 post = Some post' /\
    skip_container fuel r = Ok r' /\ rok input r' /\
    stream_of r' = render_toks (gap l) post' (length (toks_fields d) - length post') /\
    cap (rbw r') = cap (rbw r).
Proof.
  intros d l pre post input fuel r Hd Hl E Hwf Hrok Hs Hcap Hf.
  destruct (doc_skip_every_open d l pre post Hd Hl E) as (post' & Hm & H). cbv zeta in H.
  destruct H as (_ & (toks & Ht & Hp) & _). rewrite <- Hs in Ht.
  destruct (skip_container_lands_on_token input fuel r toks _ Hwf Hrok Hcap Hf Ht Hp) as (r' & H1 & H2 & H3 & _ & H5).
  exists post', r'. auto.
Qed.
