(* C10, colours: text `key = rgb { r g b [a] }` (tape: Header + array, read through the two-element view of
   dom.rs) against the binary rgb block (ColorSequence), for the typed target (String, Vec<uN>); and the
   dynamically typed target on which the two sides differ in STRUCTURE. *)
From JV Require Import Bytes Tables Utf8 Scalar Date TextTok BinPrim BufWin BinLexer BinReader SerdeShape
  TextDeCommon BinDeCommon TextDeSpec TextDeTape TextDeStream BinDeOndemand BinDeReader BinDeTape LogicDoc.
From JV Require TextDoc BinDoc.
From JV.proofs Require Import C10LinkProofs C10SpecProofs C10ComposeProofs BinDeSpecProofs DecimalProofs.
From Coq Require Import NArith ZArith Lia List Bool.
Import ListNotations.
Open Scope N_scope.

Definition id_dec (d : bytes) : cow := Borrowed d.
Definition b_color : bytes := [99; 111; 108; 111; 114].
Definition rgb_doc (c : rgb) : ldoc := [ (Unq, b_color, LRgb c) ].
Definition rgb_shape (bits : N) : shape := ShStruct false [ (b_color, None, MOnce, ShTup [ShStr; ShSeq (ShU bits)]) ].
Definition rgb_enc : enc_choice := fun _ => mkchoice WI32 FQuoted true false FUnquoted false false.
(* any resolver, strategy, float decoders and casts; the string decoder is the identity (ASCII) *)
Definition rgb_cfg res strat f32 f64 F : bcfg := mkcfg res strat (fun d => Ok d) f32 f64 F.

Lemma to_u64_dec_N n : n < 2 ^ 64 -> to_u64 (dec_N n) = Ok n.
Proof.
  intros H. pose proof (to_u64_fmt_nonneg (Z.of_N n) ltac:(lia)) as E.
  unfold fmt_int in E. replace (Z.of_N n <? 0)%Z with false in E by (symmetry; apply Z.ltb_ge; lia).
  cbn [Nat.sub pad0] in E. rewrite N2Z.id in E. rewrite Zabs2N.id in E. exact E.
Qed.

(* what both sides deliver: the channels checked in order by serde's uN visitor *)
Fixpoint chan_vals (bits : N) (l : list N) : outcome (list dval) :=
  match l with
  | [] => Ok []
  | x :: r => if in_u bits (Z.of_N x) then (do rest <- chan_vals bits r; Ok (DU x :: rest)) else Err EC_DE
  end.
Definition rgb_value (bits : N) (c : rgb) : outcome dval :=
  do vs <- chan_vals bits (rgb_channels c); Ok (DStruct [ (b_color, DSeq [DStr RGB_NAME; DSeq vs]) ]).

Section Rgb.
  Variable res : N -> option bytes.
  Variable strat : strategy.
  Variables f32 f64 : bytes -> N.
  Variable F : fops.
  Variable pf : bytes -> outcome N.
  Notation cfg := (rgb_cfg res strat f32 f64 F).

  Ltac crunch := cbv -[to_u64 dec_N in_u Z.of_N Z.to_N].

  Lemma rgb_text_tape bits c : rgb_ok c ->
    TextDeTape.deser_tape id_dec pf F (rgb_shape bits) (TextDoc.flatten (to_text (rgb_doc c))) = rgb_value bits c.
  Proof.
    destruct c as [r g b oa]. unfold rgb_ok, rgb_channels. cbn [rgb_r rgb_g rgb_b rgb_a]. intros H.
    inversion H as [|? ? Hr H1]; subst. inversion H1 as [|? ? Hg H2]; subst. inversion H2 as [|? ? Hb H3]; subst.
    pose proof (to_u64_dec_N r ltac:(lia)) as Er. pose proof (to_u64_dec_N g ltac:(lia)) as Eg. pose proof (to_u64_dec_N b ltac:(lia)) as Eb.
    destruct oa as [a|].
    - inversion H3 as [|? ? Ha H4]; subst. pose proof (to_u64_dec_N a ltac:(lia)) as Ea.
      crunch. rewrite Er. crunch. rewrite !N2Z.id.
      destruct (in_u bits (Z.of_N r)); [|reflexivity]. rewrite Eg. crunch. rewrite !N2Z.id.
      destruct (in_u bits (Z.of_N g)); [|reflexivity]. rewrite Eb. crunch. rewrite !N2Z.id.
      destruct (in_u bits (Z.of_N b)); [|reflexivity]. rewrite Ea. crunch. rewrite !N2Z.id.
      destruct (in_u bits (Z.of_N a)); reflexivity.
    - crunch. rewrite Er. crunch. rewrite !N2Z.id.
      destruct (in_u bits (Z.of_N r)); [|reflexivity]. rewrite Eg. crunch. rewrite !N2Z.id.
      destruct (in_u bits (Z.of_N g)); [|reflexivity]. rewrite Eb. crunch. rewrite !N2Z.id.
      destruct (in_u bits (Z.of_N b)); reflexivity.
  Qed.

  Lemma color_typed n bits c :
    color_visit cfg n (ShTup [ShStr; ShSeq (ShU bits)]) c = (do vs <- chan_vals bits (rgb_channels c); Ok (DSeq [DStr RGB_NAME; DSeq vs])).
  Proof.
    destruct c as [r g b [a|]]; crunch; rewrite ?N2Z.id;
      (destruct (in_u bits (Z.of_N r)); [|reflexivity]); crunch; rewrite ?N2Z.id; (destruct (in_u bits (Z.of_N g)); [|reflexivity]);
      crunch; rewrite ?N2Z.id; (destruct (in_u bits (Z.of_N b)); [|reflexivity]); crunch; rewrite ?N2Z.id; try reflexivity.
    destruct (in_u bits (Z.of_N a)); reflexivity.
  Qed.

  Lemma walk_rgb f ss c st :
    walk F (BinDoc.ops_doc cfg) (S f) false (ShTup ss) (BinDoc.VRgb c) st = (do v <- color_visit cfg f (ShTup ss) c; Ok (v, st)).
  Proof. reflexivity. Qed.

  Lemma rgb_bin_spec bits c fuel : (2 <= fuel)%nat ->
    BinDoc.spec_value cfg fuel (rgb_shape bits) (fst (to_bin rgb_enc (rgb_doc c))) (snd (to_bin rgb_enc (rgb_doc c))) = rgb_value bits c.
  Proof.
    intros Hf. destruct fuel as [|[|f]]; try lia.
    cbn -[walk color_visit in_u Z.of_N Z.to_N].
    rewrite walk_rgb, color_typed. unfold rgb_value.
    destruct (chan_vals bits (rgb_channels c)) as [vs| | | |]; try reflexivity.
  Qed.

  (* hence the text tape path and the three binary paths return the same value, errors included *)
  Theorem rgb_typed_agree bits c cap sched :
    rgb_ok c -> no_fail sched = true ->
    BinLexer.fits cap (BinDoc.enc_doc (fst (to_bin rgb_enc (rgb_doc c))) (snd (to_bin rgb_enc (rgb_doc c)))) = true ->
    let b := BinDoc.enc_doc (fst (to_bin rgb_enc (rgb_doc c))) (snd (to_bin rgb_enc (rgb_doc c))) in
    TextDeTape.deser_tape id_dec pf F (rgb_shape bits) (TextDoc.flatten (to_text (rgb_doc c))) = rgb_value bits c /\
    BinDeTape.deser_tape cfg (rgb_shape bits) b = rgb_value bits c /\
    BinDeOndemand.deser_ondemand cfg (rgb_shape bits) b = rgb_value bits c /\
    BinDeReader.deser_reader cfg cap sched (rgb_shape bits) b = rgb_value bits c.
  Proof.
    intros Hc Hnf Hcap b.
    assert (Hspec : BinDoc.spec_of cfg (rgb_shape bits) (fst (to_bin rgb_enc (rgb_doc c))) (snd (to_bin rgb_enc (rgb_doc c))) = rgb_value bits c).
    { unfold BinDoc.spec_of. apply rgb_bin_spec. unfold deser_fuel. lia. }
    assert (Hwf : BinDoc.wf_doc (fst (to_bin rgb_enc (rgb_doc c))) (snd (to_bin rgb_enc (rgb_doc c))) = true).
    { apply (bin_wf_doc id_dec cfg); [reflexivity|]. split; [reflexivity|]. split; [discriminate|].
      cbn [enc_ok_fields rgb_doc]. split; [|exact I]. split; [|exact Hc].
      unfold key_ok, str_ok. cbn. split; [reflexivity|reflexivity]. }
    assert (Htp : BinDoc.tape_ok_doc (fst (to_bin rgb_enc (rgb_doc c))) = true) by reflexivity.
    assert (Hfit : BinDoc.fits_shape cfg (rgb_shape bits) (fst (to_bin rgb_enc (rgb_doc c))) (snd (to_bin rgb_enc (rgb_doc c)))).
    { unfold BinDoc.fits_shape. rewrite Hspec. unfold rgb_value.
      assert (Hn : forall l, chan_vals bits l <> Err EC_UNFIT /\ (forall vs, chan_vals bits l = Ok vs -> True)).
      { induction l as [|x l [IH _]]; cbn [chan_vals]; split; try discriminate; auto.
        destruct (in_u bits (Z.of_N x)); [|discriminate]. destruct (chan_vals bits l); cbn [obind]; try discriminate. exact IH. }
      destruct (chan_vals bits (rgb_channels c)) eqn:E; cbn [obind]; try discriminate.
      intros H. injection H as ->. exact (proj1 (Hn _) E). }
    split; [apply rgb_text_tape; exact Hc|].
    split; [unfold b; rewrite (tape_eq_spec cfg _ _ _ eq_refl Hwf Htp Hfit); exact Hspec|].
    split; [unfold b; rewrite (ondemand_eq_spec cfg _ _ _ Hwf Hfit); exact Hspec|].
    unfold b. rewrite (reader_eq_spec cfg cap sched _ _ _ Hwf Hnf Hcap Hfit). exact Hspec.
  Qed.
End Rgb.

(* the dynamically typed target: the text tape path skips the header and delivers the channel list (as
   strings), the binary paths deliver the tagged pair -- a difference in STRUCTURE, on top of the by-design
   difference string / number of `any` on scalars *)
Definition rgb_any_shape : shape := ShStruct false [ (b_color, None, MOnce, ShAny) ].
Definition cfg_id : bcfg := rgb_cfg (fun _ => None) SError (fun _ => 0) (fun _ => 0) (mkfops (fun x => x) (fun x => x) (fun _ => 0) (fun _ => 0)).
Theorem rgb_any_refuted :
  let c := mkrgb 1 2 3 None in
  let b := BinDoc.enc_doc (fst (to_bin rgb_enc (rgb_doc c))) (snd (to_bin rgb_enc (rgb_doc c))) in
  TextDeTape.deser_tape id_dec (fun _ => Err 1) (c_fops cfg_id) rgb_any_shape (TextDoc.flatten (to_text (rgb_doc c)))
    = Ok (DStruct [ (b_color, DSeq [DStr [49]; DStr [50]; DStr [51]]) ]) /\
  BinDeTape.deser_tape cfg_id rgb_any_shape b = Ok (DStruct [ (b_color, DSeq [DStr RGB_NAME; DSeq [DU 1; DU 2; DU 3]]) ]) /\
  BinDeOndemand.deser_ondemand cfg_id rgb_any_shape b = BinDeTape.deser_tape cfg_id rgb_any_shape b /\
  BinDeReader.deser_reader cfg_id 64 [] rgb_any_shape b = BinDeTape.deser_tape cfg_id rgb_any_shape b.
Proof. vm_compute. repeat split; reflexivity. Qed.
