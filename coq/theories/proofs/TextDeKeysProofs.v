(* Proofs about typed map keys and size hints (wave 5, engineer w_c02).

   PLAN
   1. the key deserializers at the scalar-hint level: for every scalar hint h and every key bytes raw,
        tape    tape_visit h (KScalar raw)          = the visit scalar_prim decode pf true  h raw
        stream  stream_visit h (scalar token raw)   = the visit scalar_prim decode pf false h raw
      (typed parse with fall back to the decoded string); the two differ in the borrowed flag only, which no
      visitor of a key shape can see: key_paths_agree -- for every scalar key shape the stream path's key value is the
      tape path's, and the reader is not touched.
   2. what the key IS: to_u64 / to_i64 / to_bool / the date parser of the decoded bytes decide the key value
      (key_unsigned_exact ...), i.e. keys "by their decimal meaning" reduce to C11 / C13's theorems about those parsers.
   3. enum-typed keys: the tape path refuses them all (enum_key_tape_refused), the stream path accepts declared names:
      the paths differ (finding R).
   4. size hints: SeqAccess::size_hint (values_len) is the number of remaining elements (TextDeMoreTape.values_len_items);
      MapAccess::size_hint (fields_len) is the number of remaining fields (fields_len_fields). *)
From JV Require Import Bytes Utf8 Scalar Date TextTok TextReader TextDoc SerdeShape TextDeCommon TextDeTape TextDeStream TextDeSpec TextDeSpec2 TextDeKeys.
From JV.proofs Require Import TextParseProofs TextDeTapeProofs TextDeMoreTape.
Require Import Lia.
Open Scope nat_scope.

Section KeyHints.
  Variable decode : bytes -> cow.
  Variable pf : bytes -> outcome N.
  Variable F : fops.

  Lemma key_hint_tape t h raw : hint_scalar h = true ->
    tape_visit decode pf t h (KScalar raw) = Ok (TVPrim (scalar_prim decode pf true h raw)).
  Proof.
    intros Hh. unfold tape_visit, scalar_prim, pstr.
    destruct h; try discriminate; cbn [tv_any k_read_str k_read_scalar obind tv_scalar_hint andb]; unfold pstr; try reflexivity;
      unfold scalar_prim; cbn [andb].
    - destruct (to_bool raw); reflexivity.
    - destruct (to_i64 raw); reflexivity.
    - destruct (to_u64 raw); reflexivity.
    - destruct (pf raw); reflexivity.
  Qed.

  Lemma key_hint_stream h k raw : hint_scalar h = true ->
    stream_visit decode pf h (scalar_rtok k raw) = Ok (SVPrim (scalar_prim decode pf false h raw)).
  Proof.
    intros Hh.
    assert (Hs : TextDeStream.tok_scalar (scalar_rtok k raw) = Some raw) by (now destruct k).
    assert (Ha : s_any decode (scalar_rtok k raw) = Ok (SVPrim (TPStr false (cow_bytes (decode raw))))) by (now destruct k).
    assert (Ho : forall (A : Type) (a b : A), match scalar_rtok k raw with ROpen => a | _ => b end = b) by (intros; now destruct k).
    unfold stream_visit, scalar_prim. rewrite ?Hs, ?Ha, ?Ho. cbn [andb].
    destruct h; try discriminate; try reflexivity.
    - destruct (to_bool raw); try reflexivity; now rewrite Ha.
    - destruct (to_i64 raw); try reflexivity; now rewrite Ha.
    - destruct (to_u64 raw); try reflexivity; now rewrite Ha.
    - destruct (pf raw); try reflexivity; now rewrite Ha.
  Qed.

  (* the borrowed flag is invisible to the visitors *)
  Lemma sprim_flag h raw : sprim (scalar_prim decode pf true h raw) = sprim (scalar_prim decode pf false h raw).
  Proof.
    unfold scalar_prim. cbn [andb].
    destruct h; try reflexivity.
    - destruct (to_bool raw); reflexivity.
    - destruct (to_i64 raw); reflexivity.
    - destruct (to_u64 raw); reflexivity.
    - destruct (pf raw); reflexivity.
  Qed.

  Lemma de_key t c raw f : shape_scalar c = true ->
    TextDeTape.de decode pf F t (S f) c (KScalar raw) = tvisit_prim F c (scalar_prim decode pf true (thint_of c) raw).
  Proof.
    intros Hc. assert (Hh : hint_scalar (thint_of c) = true) by (destruct c; try discriminate; reflexivity).
    cbn [TextDeTape.de]. rewrite (key_hint_tape t _ raw Hh). reflexivity.
  Qed.

  Lemma sde_key R rnext rskip rexpect c k raw op (r : R) f : shape_scalar c = true ->
    sde decode pf F R rnext rskip rexpect (S f) c (scalar_rtok k raw) op r =
      (do x <- tvisit_prim F c (scalar_prim decode pf false (thint_of c) raw); Ok (x, r)).
  Proof.
    intros Hc. assert (Hh : hint_scalar (thint_of c) = true) by (destruct c; try discriminate; reflexivity).
    cbn [sde]. rewrite (key_hint_stream _ k raw Hh). reflexivity.
  Qed.

  Theorem key_paths_agree t R rnext rskip rexpect c k raw op (r : R) f f' : shape_scalar c = true ->
    sde decode pf F R rnext rskip rexpect (S f) c (scalar_rtok k raw) op r =
      (do x <- TextDeTape.de decode pf F t (S f') c (KScalar raw); Ok (x, r)).
  Proof.
    intros Hc. rewrite sde_key, de_key by assumption. unfold tvisit_prim. now rewrite sprim_flag.
  Qed.

  (* what the key is *)
  Theorem key_unsigned_exact t bits raw n f : to_u64 raw = Ok n -> in_u bits (Z.of_N n) = true ->
    TextDeTape.de decode pf F t (S f) (ShU bits) (KScalar raw) = Ok (DU n).
  Proof.
    intros Hn Hr. rewrite de_key by reflexivity. unfold scalar_prim. cbn [thint_of]. rewrite Hn.
    unfold tvisit_prim. cbn [sprim visit_prim prim_int]. rewrite Hr. now rewrite N2Z.id.
  Qed.

  Theorem key_signed_exact t bits raw z f : to_i64 raw = Ok z -> in_i bits z = true ->
    TextDeTape.de decode pf F t (S f) (ShI bits) (KScalar raw) = Ok (DI z).
  Proof.
    intros Hn Hr. rewrite de_key by reflexivity. unfold scalar_prim. cbn [thint_of]. rewrite Hn.
    unfold tvisit_prim. cbn [sprim visit_prim prim_int]. now rewrite Hr.
  Qed.

  Theorem key_bool_exact t raw b f : to_bool raw = Ok b ->
    TextDeTape.de decode pf F t (S f) ShBool (KScalar raw) = Ok (DBool b).
  Proof. intros Hb. rewrite de_key by reflexivity. unfold scalar_prim. cbn [thint_of]. now rewrite Hb. Qed.

  Theorem key_date_exact t raw f :
    TextDeTape.de decode pf F t (S f) ShDate (KScalar raw) = date_val false (date_parse (cow_bytes (decode raw))).
  Proof. rewrite de_key by reflexivity. reflexivity. Qed.

  Theorem key_string_exact t raw f :
    TextDeTape.de decode pf F t (S f) ShStr (KScalar raw) = Ok (DStr (cow_bytes (decode raw))).
  Proof. rewrite de_key by reflexivity. reflexivity. Qed.

  (* enum-typed keys *)
  Theorem enum_key_tape_refused t names raw f :
    TextDeTape.de decode pf F t (S f) (ShEnum names) (KScalar raw) = Err EC_DE.
  Proof. reflexivity. Qed.

  Theorem enum_key_stream_accepts R rnext rskip rexpect names k raw op (r : R) f :
    existsb (beqb (cow_bytes (decode raw))) names = true ->
    sde decode pf F R rnext rskip rexpect (S f) (ShEnum names) (scalar_rtok k raw) op r = Ok (DEnum (cow_bytes (decode raw)), r).
  Proof.
    intros He. cbn [sde thint_of]. change (stream_visit decode pf THEnum (scalar_rtok k raw)) with (@Ok svisit SVEnum).
    cbn [obind]. rewrite (key_hint_stream THStr k raw eq_refl). cbn [obind].
    unfold scalar_prim, tvisit_variant, visit_variant. cbn [andb sprim]. now rewrite He.
  Qed.
End KeyHints.

(* ------------------------------------------------------------------ size hints *)
Section Hints.
  Variable t : ttape.

  (* MapAccess::size_hint on the fields of a document: the number of remaining fields *)
  Fixpoint nfields (fs : fields) : nat := match fs with FNil => 0 | FCons _ fs' => S (nfields fs') end.

  Lemma fields_len_fields : forall fs, ext_fields fs = true -> forall ti en fuel,
    at_ t ti (flat_fields false ti fs) -> en = ti + fslen false fs -> nfields fs < fuel ->
    fields_len t fuel ti en = Ok (nfields fs).
  Proof.
    induction fs as [|f fs IH]; intros He ti en fuel Ha Hen Hf.
    - destruct fuel as [|fu]; [cbn [nfields] in Hf; lia|].
      assert (E0 : en = ti) by (rewrite Hen; unfold fslen; cbn; lia). subst ti.
      cbn [fields_len]. now rewrite Nat.ltb_irrefl.
    - cbn [ext_fields] in He. apply andb_prop in He as [Hef Hes].
      cbn [nfields] in Hf. destruct fuel as [|fu]; [lia|].
      cbn [flat_fields] in Ha. rewrite flat_field_len in Ha.
      rewrite fslen_cons2 in Hen.
      assert (Hfp : 1 <= flen f).
      { destruct f as [k key op v | nm u s | nm u pfs]; [rewrite flen_field; lia | unfold flen; cbn; lia | rewrite flen_paramo; lia]. }
      pose proof (fields_next_ext t ti en f _ Hef Ha ltac:(lia)) as Hn.
      assert (Ha' : at_ t (ti + flen f) (flat_fields false (ti + flen f) fs)).
      { apply at_app_r in Ha. now rewrite flat_field_len in Ha. }
      (* fields_len makes the same two look-ups as FieldsIter::next *)
      unfold fields_next in Hn.
      replace (en <=? ti) with false in Hn by (symmetry; apply Nat.leb_gt; lia).
      cbn [fields_len]. replace (ti <? en) with true by (symmetry; apply Nat.ltb_lt; lia).
      destruct (tget t ti) as [tk| | | |]; cbn [obind] in *; try discriminate.
      destruct tk; try discriminate;
        (destruct (tget t (S ti)) as [nx| | | |]; cbn [obind] in *; try discriminate;
         destruct nx;
         match type of Hn with
         | (do ti' <- next_idx t ?vi; _) = _ =>
             destruct (next_idx t vi) as [ti'| | | |]; cbn [obind] in *; try discriminate;
             injection Hn as _ _ _ Hti; subst ti';
             rewrite (IH Hes (ti + flen f) en fu Ha' ltac:(lia) ltac:(lia)); reflexivity
         end).
  Qed.
End Hints.
