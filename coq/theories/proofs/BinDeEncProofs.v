(* C10, binary half: the specified value does not depend on the encoding choices -- which integer
   token carries a number, whether a string is quoted, unquoted or a token id that resolves to it,
   where ghosts are -- for every target that is not dynamically typed on integers.  Another instance
   of the generic simulation theorem (BinDeSim.v): the specification walk against itself. *)
From JV Require Import Bytes Tables BinPrim SerdeShape BinDeCommon BinDoc.
From JV.proofs Require Import BinDeSim BinDocProofs.
Open Scope N_scope.

Definition prim_z (p : prim) : option Z :=
  match p with PI32 z | PI64 z => Some z | PU n => Some (Z.of_N n) | _ => None end.
Definition PR_enc (h : hint) (p1 p2 : prim) : Prop :=
  p1 = p2 \/ (h <> HAny /\ exists z, prim_z p1 = Some z /\ prim_z p2 = Some z).

Lemma prim_z_int p z : prim_z p = Some z -> prim_int p = Some z.
Proof. destruct p; cbn; intros H; inversion H; reflexivity. Qed.

Lemma enc_H_prim F sh p1 p2 : PR_enc (hint_of sh) p1 p2 -> visit_prim F sh p1 = visit_prim F sh p2.
Proof.
  intros [->|(NH & z & E1 & E2)]; [reflexivity|].
  pose proof (prim_z_int _ _ E1) as I1. pose proof (prim_z_int _ _ E2) as I2.
  destruct sh; cbn [hint_of] in NH; try congruence; cbn [visit_prim]; rewrite ?I1, ?I2; try reflexivity.
  all: destruct p1; try discriminate E1; destruct p2; try discriminate E2; cbn [prim_int] in *; try reflexivity;
       inversion I1; inversion I2; subst; try reflexivity; congruence.
Qed.

Lemma enc_H_variant vs p1 p2 : PR_enc HIdent p1 p2 -> visit_variant vs p1 = visit_variant vs p2.
Proof.
  intros [->|(_ & z & E1 & E2)]; [reflexivity|].
  destruct p1; try discriminate E1; destruct p2; try discriminate E2; reflexivity.
Qed.

Lemma enc_H_field (tk : bool) fs p1 p2 : PR_enc (if tk then HU16 else HIdent) p1 p2 -> visit_field fs p1 = visit_field fs p2.
Proof.
  intros [->|(_ & z & E1 & E2)]; [reflexivity|].
  destruct p1; try discriminate E1; destruct p2; try discriminate E2; reflexivity.
Qed.

Section Enc.
  Variable cfg : bcfg.

  Lemma leq_arr l1 l2 : leq_val cfg (VArr l1) (VArr l2) <-> leq_vals cfg l1 l2.
  Proof.
    cbn [leq_val]. revert l2. induction l1 as [|x r IH]; intros [|y r']; cbn [leq_vals]; try tauto; rewrite IH; tauto.
  Qed.
  Lemma leq_obj f1 g1 f2 g2 : leq_val cfg (VObj f1 g1) (VObj f2 g2) <-> leq_fields cfg f1 f2.
  Proof.
    cbn [leq_val]. revert f2. induction f1 as [|x r IH]; intros [|y r']; cbn [leq_fields]; try tauto; rewrite IH; tauto.
  Qed.

  Definition leq_cur (c1 c2 : dcur) : Prop :=
    match c1, c2 with
    | CSeq l1, CSeq l2 => leq_vals cfg l1 l2
    | CMap f1 _ p1, CMap f2 _ p2 =>
      leq_fields cfg f1 f2 /\ match p1, p2 with Some v1, Some v2 => leq_val cfg v1 v2 | None, None => True | _, _ => False end
    | CDone, CDone => True
    | _, _ => False
    end.
  Definition R_e (_ : unit) (c1 c2 : dcur) : Prop := leq_cur c1 c2.
  Definition RT_e (_ : unit) (v1 : bval) (c1 : dcur) (v2 : bval) (c2 : dcur) : Prop := leq_val cfg v1 v2 /\ leq_cur c1 c2.
  Notation AR := (act_rel (ops_doc cfg) (ops_shared cfg) R_e (fun _ => True) (fun _ _ => True) PR_enc).

  Lemma scalar_prim_int s z : scalar_int s = Some z -> exists p, scalar_prim cfg s = Ok p /\ prim_z p = Some z.
  Proof. destruct s; cbn; intros H; inversion H; eexists; split; reflexivity. Qed.

  Lemma hint_ign_dec (h : hint) : {h = HIgnored} + {h <> HIgnored}.
  Proof. destruct h; (left; reflexivity) || (right; discriminate). Qed.
  Lemma hint_u16_dec (h : hint) : {h = HU16} + {h <> HU16}.
  Proof. destruct h; (left; reflexivity) || (right; discriminate). Qed.
  Lemma hint_any_dec (h : hint) : {h = HAny} + {h <> HAny}.
  Proof. destruct h; (left; reflexivity) || (right; discriminate). Qed.

  Lemma doc_dispatch_scalar iskey h sc c : h <> HIgnored -> (h = HU16 -> string_like sc = false) ->
    doc_dispatch cfg iskey h (VScalar sc) c = do p <- scalar_prim cfg sc; Ok (APrim p, c).
  Proof.
    intros NI NU. destruct h; try congruence; destruct sc; try reflexivity.
    specialize (NU eq_refl). discriminate.
  Qed.

  Lemma leq_scalar_not_string s1 s2 : leq_scalar cfg s1 s2 -> string_like s2 = false -> string_like s1 = false.
  Proof.
    intros [E|(z & E1 & E2)] N.
    - destruct s2; try discriminate N; destruct s1; try reflexivity; cbn [scalar_prim] in E;
        unfold id_prim, str_prim in E.
      all: try (destruct (c_resolve cfg id); [discriminate|destruct (c_strategy cfg); discriminate]).
      all: try (destruct (c_decode cfg s); discriminate).
    - destruct s1; try discriminate E1; reflexivity.
  Qed.

  Lemma exit_e h c1 c2 s1 s2 dr : leq_cur c1 c2 -> leq_cur s1 s2 ->
    sim (R_e tt) (doc_seq_exit h c1 s1 dr) (doc_seq_exit h c2 s2 dr).
  Proof.
    intros Hc Hs. destruct h, dr; cbn [doc_seq_exit]; try (apply sim_ok; exact Hc).
    destruct s1 as [[|x xs]|? ? ?|], s2 as [[|y ys]|? ? ?|]; cbn [leq_cur leq_vals] in Hs; try contradiction;
      cbn [doc_seq_exit]; try (left; reflexivity). apply sim_ok. exact Hc.
  Qed.

  Lemma enc_H_disp u iskey h v1 c1 v2 c2 : RT_e u v1 c1 v2 c2 ->
    sim (AR u h) (doc_dispatch cfg iskey h v1 c1) (shared_dispatch cfg iskey h v2 c2).
  Proof.
    intros [Hv Hc]. destruct u.
    destruct v1 as [s1|r1|l1|f1 g1], v2 as [s2|r2|l2|f2 g2]; try (cbn [leq_val] in Hv; contradiction).
    - (* scalars *)
      cbn [leq_val] in Hv.
      destruct (hint_ign_dec h) as [->|NI].
      { replace (shared_dispatch cfg iskey HIgnored (VScalar s2) c2) with (doc_dispatch cfg iskey HIgnored (VScalar s2) c2) by reflexivity.
        destruct iskey; [left; destruct s2; reflexivity|].
        replace (doc_dispatch cfg false HIgnored (VScalar s1) c1) with (Ok (APrim (S:=dcur) (C:=rgb) PUnit, c1)) by (destruct s1; reflexivity).
        replace (doc_dispatch cfg false HIgnored (VScalar s2) c2) with (Ok (APrim (S:=dcur) (C:=rgb) PUnit, c2)) by (destruct s2; reflexivity).
        apply sim_ok. split; [left; reflexivity|exact Hc]. }
      destruct (hint_u16_dec h) as [->|NU].
      { cbn [shared_dispatch]. destruct (string_like s2) eqn:S2; [left; reflexivity|].
        pose proof (leq_scalar_not_string _ _ Hv S2) as S1.
        rewrite !doc_dispatch_scalar by (try discriminate; intros; assumption).
        destruct Hv as [E|(z & E1 & E2)].
        - rewrite E. destruct (scalar_prim cfg s2); cbn [obind]; try (right; reflexivity); try (right; exact I).
          apply sim_ok. split; [left; reflexivity|exact Hc].
        - destruct (scalar_prim_int _ _ E1) as (p1 & P1 & Z1). destruct (scalar_prim_int _ _ E2) as (p2 & P2 & Z2).
          rewrite P1, P2. cbn [obind]. apply sim_ok. split; [|exact Hc].
          right. split; [discriminate|]. exists z. split; assumption. }
      destruct (hint_any_dec h) as [->|NA].
      { cbn [shared_dispatch]. destruct (scalar_int s2) as [z2|] eqn:I2; [left; reflexivity|].
        rewrite !doc_dispatch_scalar by (try discriminate; intros; discriminate).
        destruct Hv as [E|(z & E1 & E2)]; [|congruence].
        rewrite E. destruct (scalar_prim cfg s2); cbn [obind]; try (right; reflexivity); try (right; exact I).
        apply sim_ok. split; [left; reflexivity|exact Hc]. }
      replace (shared_dispatch cfg iskey h (VScalar s2) c2) with (doc_dispatch cfg iskey h (VScalar s2) c2)
        by (destruct h; try reflexivity; congruence).
      rewrite !doc_dispatch_scalar by (try assumption; intros; congruence).
      destruct Hv as [E|(z & E1 & E2)].
      + rewrite E. destruct (scalar_prim cfg s2); cbn [obind]; try (right; reflexivity); try (right; exact I).
        apply sim_ok. split; [left; reflexivity|exact Hc].
      + destruct (scalar_prim_int _ _ E1) as (p1 & P1 & Z1). destruct (scalar_prim_int _ _ E2) as (p2 & P2 & Z2).
        rewrite P1, P2. cbn [obind]. apply sim_ok. split; [|exact Hc].
        right. split; [exact NA|]. exists z. split; assumption.
    - (* rgb *)
      cbn [leq_val] in Hv. subst r2.
      replace (shared_dispatch cfg iskey h (VRgb r1) c2) with (doc_dispatch cfg iskey h (VRgb r1) c2) by (destruct h; reflexivity).
      destruct iskey; [left; reflexivity|].
      destruct h; cbn [doc_dispatch]; try (left; reflexivity); apply sim_ok; split; try reflexivity; try (left; reflexivity); exact Hc.
    - (* arrays *)
      apply leq_arr in Hv.
      replace (shared_dispatch cfg iskey h (VArr l2) c2) with (doc_dispatch cfg iskey h (VArr l2) c2) by (destruct h; reflexivity).
      destruct iskey; [left; reflexivity|].
      assert (HS : sim (AR tt h) (Ok (ASeq (C:=rgb) (CSeq l1), c1)) (Ok (ASeq (C:=rgb) (CSeq l2), c2))).
      { apply sim_ok. exists tt. split; [exact Hv|]. intros sub1' sub2' dr HR _ _. cbn [snd p_seq_exit ops_doc ops_shared].
        apply exit_e; assumption. }
      destruct h; cbn [doc_dispatch]; try exact HS; try (apply sim_ok; split; [left; reflexivity|exact Hc]).
      destruct l1 as [|x1 l1], l2 as [|x2 l2]; cbn [leq_vals] in Hv; try contradiction; [|left; reflexivity].
      apply sim_ok. exists tt. split; [exact I|]. split; [cbn; auto|].
      intros sub1' sub2' _ _. cbn [snd p_map_exit ops_doc ops_shared]. apply sim_ok. exact Hc.
    - (* objects *)
      apply leq_obj in Hv.
      replace (shared_dispatch cfg iskey h (VObj f2 g2) c2) with (doc_dispatch cfg iskey h (VObj f2 g2) c2) by (destruct h; reflexivity).
      destruct iskey; [left; reflexivity|].
      destruct h; cbn [doc_dispatch]; try (left; reflexivity); try (apply sim_ok; split; [left; reflexivity|exact Hc]).
      apply sim_ok. exists tt. split; [exact I|]. split; [cbn; auto|].
      intros sub1' sub2' _ _. cbn [snd p_map_exit ops_doc ops_shared]. apply sim_ok. exact Hc.
  Qed.

  Theorem enc_ops_sim : ops_sim (c_fops cfg) (ops_doc cfg) (ops_shared cfg) R_e RT_e (fun _ => True) (fun _ _ => True) PR_enc.
  Proof.
    constructor.
    - intros. apply enc_H_disp. assumption.
    - intros u c1 c2 H. red in H.
      destruct c1 as [[|x1 l1]|? ? ?|], c2 as [[|x2 l2]|? ? ?|]; cbn [leq_cur leq_vals] in H; try contradiction;
        cbn [p_next_elem ops_doc ops_shared doc_next_elem]; try (left; reflexivity).
      + apply sim_ok. split; exact I.
      + destruct H as [Hx Hl]. apply sim_ok. unfold tok_rel. cbn [fst snd]. split; assumption.
    - intros u root c1 c2 _ H. red in H.
      destruct c1 as [?|[|x1 l1] g1 [p1|]|], c2 as [?|[|x2 l2] g2 [p2|]|]; cbn [leq_cur leq_fields] in H;
        try (destruct H; contradiction); try contradiction;
        cbn [p_next_key ops_doc ops_shared doc_next_key]; try (left; reflexivity).
      + apply sim_ok. split; exact I.
      + destruct H as [[[Hk Hv] Hl] _]. apply sim_ok. unfold tok_rel. cbn [fst snd]. split; [exact Hk|].
        cbn [leq_cur]. split; assumption.
    - intros u c1 c2 H. red in H.
      destruct c1 as [?|f1 g1 [p1|]|], c2 as [?|f2 g2 [p2|]|]; cbn [leq_cur] in H;
        try (destruct H; contradiction); try contradiction;
        cbn [p_next_value ops_doc ops_shared doc_next_value]; try (left; reflexivity).
      destruct H as [Hf Hp]. apply sim_ok. cbn [fst snd]. split; [exact Hp|]. cbn [leq_cur]. split; [exact Hf|exact I].
    - reflexivity.
    - intros. apply enc_H_prim. assumption.
    - intros. apply enc_H_variant. assumption.
    - intros tk fs p1 p2 H. exact (enc_H_field tk fs p1 p2 H).
  Qed.

  Lemma leq_scalar_refl s : leq_scalar cfg s s.
  Proof. left. reflexivity. Qed.
  Lemma leq_val_refl v : leq_val cfg v v.
  Proof.
    induction v as [s|c|vs IH|fs g IH] using bval_ind'.
    - apply leq_scalar_refl.
    - reflexivity.
    - apply leq_arr. induction IH; cbn [leq_vals]; auto.
    - apply leq_obj. induction IH as [|f r Hf _ IHr]; cbn [leq_fields]; auto. split; [split; [apply leq_scalar_refl|exact Hf]|exact IHr].
  Qed.
  Lemma leq_fields_refl fs : leq_fields cfg fs fs.
  Proof. induction fs as [|f r IH]; cbn; auto. split; [split; [apply leq_scalar_refl|apply leq_val_refl]|exact IH]. Qed.

  Theorem shared_refines fuel sh fs g : spec_shared cfg fuel sh fs g <> Err EC_UNFIT ->
    spec_value cfg fuel sh fs g = spec_shared cfg fuel sh fs g.
  Proof.
    intros N. apply sim_eq_result; [|exact N]. unfold spec_value, spec_shared.
    apply (walk_root_sim (c_fops cfg) (ops_doc cfg) (ops_shared cfg) R_e RT_e (fun _ => True) (fun _ _ => True) PR_enc enc_ops_sim fuel tt);
      [exact I|]. cbn. split; [apply leq_fields_refl|exact I].
  Qed.

  Theorem encoding_independent fuel sh fs1 g1 fs2 g2 :
    leq_fields cfg fs1 fs2 -> spec_shared cfg fuel sh fs2 g2 <> Err EC_UNFIT ->
    spec_value cfg fuel sh fs1 g1 = spec_value cfg fuel sh fs2 g2.
  Proof.
    intros L N. rewrite (shared_refines fuel sh fs2 g2 N).
    apply sim_eq_result; [|exact N]. unfold spec_value, spec_shared.
    apply (walk_root_sim (c_fops cfg) (ops_doc cfg) (ops_shared cfg) R_e RT_e (fun _ => True) (fun _ _ => True) PR_enc enc_ops_sim fuel tt);
      [exact I|]. cbn. split; [exact L|exact I].
  Qed.
End Enc.
