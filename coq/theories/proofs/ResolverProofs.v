(* Proofs about Resolver.v: BasicTokenResolver::from_text_lines / resolve. *)
From JV Require Import Bytes Utf8 Resolver.
From JV Require BinDeCommon.
From JV.proofs Require Import Utf8Proofs.
From Coq Require Import NArith Lia List Bool.
Import ListNotations.
Open Scope N_scope.

(* ------------------------------------------------------------------ read_line splitting *)
Lemma split_lines_nil_iff d : split_lines d = [] <-> d = [].
Proof.
  split; [|intros ->; reflexivity].
  destruct d as [|b r]; [reflexivity|]. cbn [split_lines].
  destruct (b =? LF); [discriminate|]. destruct (split_lines r); discriminate.
Qed.

Lemma split_lines_line l rest : ~ In LF l -> split_lines (l ++ LF :: rest) = (l ++ [LF]) :: split_lines rest.
Proof.
  induction l as [|b l IH]; intros H.
  - cbn [app split_lines]. rewrite N.eqb_refl. reflexivity.
  - cbn [app split_lines]. destruct (N.eqb_spec b LF) as [->|Hb]; [exfalso; apply H; left; reflexivity|].
    rewrite IH by (intros Hin; apply H; right; exact Hin). reflexivity.
Qed.

Lemma split_lines_last l : l <> [] -> ~ In LF l -> split_lines l = [l].
Proof.
  induction l as [|b l IH]; intros Hn H; [congruence|].
  cbn [split_lines]. destruct (N.eqb_spec b LF) as [->|Hb]; [exfalso; apply H; left; reflexivity|].
  destruct l as [|c l']; [reflexivity|].
  rewrite IH; [reflexivity|discriminate|intros Hin; apply H; right; exact Hin].
Qed.

(* the pieces are a partition of the input *)
Lemma split_lines_concat d : concat (split_lines d) = d.
Proof.
  induction d as [|b r IH]; [reflexivity|]. cbn [split_lines].
  destruct (b =? LF).
  - cbn [concat app]. now rewrite IH.
  - destruct (split_lines r) as [|l ls] eqn:E.
    + apply split_lines_nil_iff in E. subst r. reflexivity.
    + cbn [concat app] in *. now rewrite IH.
Qed.

(* shape of a piece: body ++ [LF] with no LF in the body, or a non-empty LF-free tail *)
Definition line_shape (l : bytes) : Prop :=
  (exists body, l = body ++ [LF] /\ ~ In LF body) \/ (l <> [] /\ ~ In LF l).

Lemma split_lines_shape d : Forall line_shape (split_lines d).
Proof.
  induction d as [|b r IH]; [constructor|]. cbn [split_lines].
  destruct (N.eqb_spec b LF) as [->|Hb].
  - constructor; [|exact IH]. left. exists []. split; [reflexivity|intros []].
  - destruct (split_lines r) as [|l ls] eqn:E.
    + constructor; [|constructor]. right. split; [discriminate|]. intros [H|[]]. congruence.
    + inversion IH as [|x y Hl Hls]; subst. constructor; [|exact Hls].
      destruct Hl as [(body & -> & Hnb)|[Hne Hnl]].
      * left. exists (b :: body). split; [reflexivity|]. intros [H|H]; [congruence|auto].
      * right. split; [discriminate|]. intros [H|H]; [congruence|auto].
Qed.

(* only the last piece may lack its LF *)
Lemma split_lines_inner d ls l : split_lines d = ls ++ [l] ->
  Forall (fun x => exists body, x = body ++ [LF] /\ ~ In LF body) ls.
Proof.
  revert ls l. induction d as [|b r IH]; intros ls l H.
  - destruct ls; discriminate.
  - cbn [split_lines] in H. destruct (N.eqb_spec b LF) as [->|Hb].
    + destruct ls as [|x ls']; [constructor|]. cbn [app] in H. injection H as <- H.
      constructor; [exists []; split; [reflexivity|intros []]|]. eapply IH; eauto.
    + destruct (split_lines r) as [|l0 ls0] eqn:E.
      * destruct ls as [|x [|y ls']]; [constructor|discriminate|discriminate].
      * destruct ls as [|x ls'].
        -- constructor.
        -- cbn [app] in H. injection H as <- H.
           specialize (IH (l0 :: ls') l). cbn [app] in IH. rewrite H in IH. specialize (IH eq_refl).
           inversion IH as [|x0 y0 (body & -> & Hnb) Hls]; subst. constructor; [|exact Hls].
           exists (b :: body). split; [reflexivity|]. intros [Hx|Hx]; [congruence|auto].
Qed.

(* a file that is empty or ends with LF, followed by more text: the pieces are those of both *)
Lemma split_lines_app_lf a b : split_lines ((a ++ [LF]) ++ b) = split_lines (a ++ [LF]) ++ split_lines b.
Proof.
  induction a as [|x a IH].
  - cbn [app split_lines]. rewrite N.eqb_refl. reflexivity.
  - cbn [app split_lines] in *. destruct (x =? LF).
    + now rewrite IH.
    + rewrite IH. destruct (split_lines (a ++ [LF])) as [|l ls] eqn:E; [|reflexivity].
      apply split_lines_nil_iff in E. destruct a; discriminate.
Qed.

(* ------------------------------------------------------------------ split_once(' ') *)
Lemma split_once_app a t : ~ In SP a -> split_once_sp (a ++ SP :: t) = Some (a, t).
Proof.
  induction a as [|b a IH]; intros H.
  - cbn [app split_once_sp]. now rewrite N.eqb_refl.
  - cbn [app split_once_sp]. destruct (N.eqb_spec b SP) as [->|Hb]; [exfalso; apply H; left; reflexivity|].
    rewrite IH by (intros Hin; apply H; right; exact Hin). reflexivity.
Qed.

Lemma split_once_none l : ~ In SP l -> split_once_sp l = None.
Proof.
  induction l as [|b l IH]; intros H; [reflexivity|].
  cbn [split_once_sp]. destruct (N.eqb_spec b SP) as [->|Hb]; [exfalso; apply H; left; reflexivity|].
  rewrite IH by (intros Hin; apply H; right; exact Hin). reflexivity.
Qed.

Lemma split_once_some l a t : split_once_sp l = Some (a, t) -> l = a ++ SP :: t /\ ~ In SP a.
Proof.
  revert a t. induction l as [|b l IH]; intros a t H; [discriminate|].
  cbn [split_once_sp] in H. destruct (N.eqb_spec b SP) as [->|Hb].
  - injection H as <- <-. split; [reflexivity|intros []].
  - destruct (split_once_sp l) as [[a' t']|]; [|discriminate]. injection H as <- <-.
    destruct (IH a' t' eq_refl) as [-> Hn]. split; [reflexivity|]. intros [Hx|Hx]; [congruence|auto].
Qed.

(* ------------------------------------------------------------------ hex digits *)
Lemma hexchar_digit up d : d < 16 -> hex_digit (hexchar up d) = Some d.
Proof.
  intros H. rewrite <- (N2Nat.id d). assert (Hk : (N.to_nat d < 16)%nat) by lia.
  set (k := N.to_nat d) in *. clearbody k.
  do 16 (destruct k as [|k]; [destruct up; reflexivity|]). lia.
Qed.

Lemma hex_digit_bounds b : hex_digit b <> None -> 48 <= b <= 102.
Proof.
  unfold hex_digit.
  destruct (48 <=? b) eqn:A; destruct (b <=? 57) eqn:B; cbn [andb];
  destruct (97 <=? b) eqn:C; destruct (b <=? 102) eqn:D; cbn [andb];
  destruct (65 <=? b) eqn:E; destruct (b <=? 70) eqn:F; cbn [andb]; intros H; try congruence;
  rewrite ?N.leb_le, ?N.leb_gt in *; lia.
Qed.

Lemma hex_digit_lt16 b d : hex_digit b = Some d -> d < 16.
Proof.
  unfold hex_digit.
  destruct (48 <=? b) eqn:A; destruct (b <=? 57) eqn:B; cbn [andb];
  destruct (97 <=? b) eqn:C; destruct (b <=? 102) eqn:D; cbn [andb];
  destruct (65 <=? b) eqn:E; destruct (b <=? 70) eqn:F; cbn [andb]; intros H; try congruence;
  injection H as <-; rewrite ?N.leb_le, ?N.leb_gt in *; lia.
Qed.

Definition all_hex (s : bytes) : Prop := forall b, In b s -> hex_digit b <> None.

Lemma hexw_all_hex up w n : all_hex (hexw up w n).
Proof.
  revert n. induction w as [|w IH]; intros n b Hin; [destruct Hin|].
  cbn [hexw] in Hin. apply in_app_or in Hin as [Hin|[<-|[]]]; [eapply IH; eauto|].
  rewrite hexchar_digit; [discriminate|]. apply N.mod_lt. lia.
Qed.

Lemma all_hex_not s c : all_hex s -> hex_digit c = None -> ~ In c s.
Proof. intros H Hc Hin. exact (H c Hin Hc). Qed.

Lemma all_hex_ascii s : all_hex s -> forallb (fun b => b <? 128) s = true.
Proof.
  intros H. apply forallb_forall. intros b Hin. apply N.ltb_lt.
  pose proof (hex_digit_bounds b (H b Hin)). lia.
Qed.

Lemma hexw_length up w n : length (hexw up w n) = w.
Proof. revert n. induction w as [|w IH]; intros n; [reflexivity|]. cbn [hexw]. rewrite app_length, IH. cbn. lia. Qed.

(* ------------------------------------------------------------------ trim_start_matches("0x") *)
Lemma trim_0x_pfx s : trim_0x (48 :: 120 :: s) = trim_0x s.
Proof. reflexivity. Qed.

Lemma trim_0x_hex s : all_hex s -> trim_0x s = s.
Proof.
  intros H. destruct s as [|a [|b r]]; try reflexivity. cbn [trim_0x].
  destruct (N.eqb_spec b 120) as [->|Hb].
  - exfalso. apply (H 120); [right; left; reflexivity|reflexivity].
  - now rewrite andb_false_r.
Qed.

(* a byte other than '0' and 'x' is never trimmed away *)
Lemma trim_0x_keeps_aux b n : forall l, (length l <= n)%nat -> b <> 48 -> b <> 120 -> In b l -> In b (trim_0x l).
Proof.
  induction n as [|n IH]; intros l Hl H0 Hx Hin.
  - destruct l; [destruct Hin|cbn in Hl; lia].
  - destruct l as [|a [|c r]]; try exact Hin. cbn [trim_0x].
    destruct ((a =? 48) && (c =? 120)) eqn:E; [|exact Hin].
    apply andb_prop in E as [Ea Ec]. apply N.eqb_eq in Ea, Ec. subst a c.
    destruct Hin as [Hin|[Hin|Hin]]; try congruence.
    apply IH; auto. cbn [length] in Hl. lia.
Qed.

Lemma trim_0x_keeps b l : b <> 48 -> b <> 120 -> In b l -> In b (trim_0x l).
Proof. intros. eapply trim_0x_keeps_aux; eauto. Qed.

(* ------------------------------------------------------------------ u16::from_str_radix(_, 16) *)
Lemma hex_acc_app acc a b :
  hex_acc acc (a ++ b) = match hex_acc acc a with Some x => hex_acc x b | None => None end.
Proof.
  revert acc. induction a as [|c a IH]; intros acc; [reflexivity|].
  cbn [app hex_acc]. destruct (hex_digit c) as [d|]; [|reflexivity].
  destruct (65535 <? acc * 16 + d); [reflexivity|apply IH].
Qed.

Lemma hex_acc_bad b s : In b s -> hex_digit b = None -> forall acc, hex_acc acc s = None.
Proof.
  intros Hin Hb. induction s as [|c s IH]; intros acc; [destruct Hin|].
  cbn [hex_acc]. destruct Hin as [->|Hin].
  - now rewrite Hb.
  - destruct (hex_digit c); [|reflexivity]. destruct (65535 <? acc * 16 + n); [reflexivity|auto].
Qed.

Lemma hex_acc_hexw up w : forall n, n < 16 ^ N.of_nat w ->
  hex_acc 0 (hexw up w n) = if n <=? 65535 then Some n else None.
Proof.
  induction w as [|w IH]; intros n Hn.
  - cbn in Hn. assert (n = 0) by lia. subst. reflexivity.
  - rewrite Nnat.Nat2N.inj_succ, N.pow_succ_r' in Hn.
    destruct (divmod_gen n 16 ltac:(lia)) as [Hdm Hmod].
    assert (Hq : n / 16 < 16 ^ N.of_nat w) by (apply N.div_lt_upper_bound; lia).
    cbn [hexw]. rewrite hex_acc_app, (IH _ Hq).
    destruct (N.leb_spec (n / 16) 65535) as [Hle|Hgt].
    + cbn [hex_acc]. rewrite hexchar_digit by exact Hmod.
      replace (n / 16 * 16 + n mod 16) with n by lia.
      destruct (N.leb_spec n 65535); destruct (N.ltb_spec 65535 n); try reflexivity; lia.
    + destruct (N.leb_spec n 65535) as [Hs|Hs]; [exfalso; clear -Hdm Hgt Hs; generalize dependent (n / 16); generalize dependent (n mod 16); intros; lia|reflexivity].
Qed.

Lemma u16_hex_nosign s : s <> [] -> all_hex s -> u16_from_hex s = hex_acc 0 s.
Proof.
  intros Hn H. destruct s as [|a r]; [congruence|].
  assert (Ha : hex_digit a <> None) by (apply H; left; reflexivity).
  assert (a <> 43) by (intros ->; apply Ha; reflexivity).
  assert (a <> 45) by (intros ->; apply Ha; reflexivity).
  unfold u16_from_hex. destruct r as [|b r].
  - destruct (N.eqb_spec a 43); [congruence|]. destruct (N.eqb_spec a 45); [congruence|]. reflexivity.
  - destruct (N.eqb_spec a 43); [congruence|]. reflexivity.
Qed.

Lemma u16_hex_bad b s : In b s -> hex_digit b = None -> b <> 43 -> u16_from_hex s = None.
Proof.
  intros Hin Hb Hp. unfold u16_from_hex. destruct s as [|a [|c r]]; [reflexivity| |].
  - destruct ((a =? 43) || (a =? 45)); [reflexivity|]. eapply hex_acc_bad; eauto.
  - destruct (N.eqb_spec a 43) as [->|Ha].
    + destruct Hin as [Hin|Hin]; [congruence|]. eapply hex_acc_bad; eauto.
    + eapply hex_acc_bad; eauto.
Qed.

Lemma u16_hexw up w n : (0 < w)%nat -> n < 16 ^ N.of_nat w ->
  u16_from_hex (hexw up w n) = if n <=? 65535 then Some n else None.
Proof.
  intros Hw Hn. rewrite u16_hex_nosign; [apply hex_acc_hexw; exact Hn| |apply hexw_all_hex].
  intros E. apply (f_equal (@length _)) in E. rewrite hexw_length in E. cbn in E. lia.
Qed.

(* ------------------------------------------------------------------ trim_ascii_end *)
Lemma trim_end_ws l c : is_ascii_ws c = true -> trim_ascii_end (l ++ [c]) = trim_ascii_end l.
Proof.
  intros Hc. induction l as [|b l IH].
  - cbn [app trim_ascii_end]. now rewrite Hc.
  - cbn [app trim_ascii_end]. now rewrite IH.
Qed.

Lemma trim_end_nonws l c : is_ascii_ws c = false -> trim_ascii_end (l ++ [c]) = l ++ [c].
Proof.
  intros Hc. induction l as [|b l IH].
  - cbn [app trim_ascii_end]. now rewrite Hc.
  - cbn [app trim_ascii_end]. rewrite IH. destruct (l ++ [c]) eqn:E; [destruct l; discriminate|reflexivity].
Qed.

(* a name that is empty or whose last byte is not ASCII whitespace *)
Definition no_trailing_ws (name : bytes) : Prop := forall l c, name = l ++ [c] -> is_ascii_ws c = false.

Lemma trim_end_id name : no_trailing_ws name -> trim_ascii_end name = name.
Proof.
  intros H. destruct name as [|b r]; [reflexivity|].
  destruct (@exists_last _ (b :: r)) as (l & c & E); [discriminate|].
  rewrite E. apply trim_end_nonws. eapply H. exact E.
Qed.

(* the result of trim_ascii_end never ends in whitespace, and only whitespace was removed *)
Lemma trim_end_no_trailing l : no_trailing_ws (trim_ascii_end l).
Proof.
  induction l as [|b l IH]; intros p c E.
  - destruct p; discriminate.
  - cbn [trim_ascii_end] in E. destruct (trim_ascii_end l) as [|t ts] eqn:T.
    + destruct (is_ascii_ws b) eqn:W; [destruct p; discriminate|].
      destruct p as [|x [|y p']]; try discriminate. injection E as ->. exact W.
    + destruct p as [|x p']; [discriminate|]. injection E as -> E. eapply IH. exact E.
Qed.

(* ------------------------------------------------------------------ well-formed UTF-8 of a rendered line *)
Lemma valid_ascii_app a r : forallb (fun b => b <? 128) a = true -> valid_utf8 (a ++ r) = valid_utf8 r.
Proof.
  induction a as [|b a IH]; intros H; [reflexivity|].
  cbn [forallb] in H. apply andb_prop in H as [Hb Ha]. cbn [app]. rewrite valid_ascii by exact Hb. auto.
Qed.

Lemma valid_snoc_lf name : wf_bytes name -> valid_utf8 name = true -> valid_utf8 (name ++ [LF]) = true.
Proof.
  intros Hw Hv. apply valid_utf8_iff_encoding in Hv as (cs & Hs & ->); [|exact Hw].
  rewrite valid_encode_all by exact Hs. reflexivity.
Qed.

(* ------------------------------------------------------------------ a rendered line parses back *)
Definition name_ok (name : bytes) : Prop :=
  wf_bytes name /\ valid_utf8 name = true /\ ~ In LF name /\ no_trailing_ws name.

Definition entry_ok (w : nat) (kv : N * bytes) : Prop :=
  fst kv < 16 ^ N.of_nat w /\ fst kv <= 65535 /\ name_ok (snd kv).

Definition pfx0x (pfx : bool) : bytes := if pfx then [48; 120] else [].

Lemma render_line_eq pfx up w kv :
  render_line pfx up w kv = (pfx0x pfx ++ hexw up w (fst kv)) ++ SP :: snd kv ++ [LF].
Proof. unfold render_line, pfx0x. now rewrite <- app_assoc. Qed.

Lemma num_no_sp pfx up w n : ~ In SP (pfx0x pfx ++ hexw up w n).
Proof.
  intros Hin. apply in_app_or in Hin as [Hin|Hin].
  - destruct pfx; cbn in Hin; unfold SP in Hin; intuition discriminate.
  - revert Hin. apply all_hex_not; [apply hexw_all_hex|reflexivity].
Qed.

Lemma num_no_lf pfx up w n : ~ In LF (pfx0x pfx ++ hexw up w n).
Proof.
  intros Hin. apply in_app_or in Hin as [Hin|Hin].
  - destruct pfx; cbn in Hin; unfold LF in Hin; intuition discriminate.
  - revert Hin. apply all_hex_not; [apply hexw_all_hex|reflexivity].
Qed.

Lemma num_ascii pfx up w n : forallb (fun b => b <? 128) (pfx0x pfx ++ hexw up w n) = true.
Proof.
  rewrite forallb_app, (all_hex_ascii _ (hexw_all_hex up w n)), andb_true_r. destruct pfx; reflexivity.
Qed.

Lemma trim_num pfx up w n : trim_0x (pfx0x pfx ++ hexw up w n) = hexw up w n.
Proof.
  destruct pfx; cbn [pfx0x app]; [rewrite trim_0x_pfx|]; apply trim_0x_hex, hexw_all_hex.
Qed.

Lemma parse_rendered_line pfx up w kv : (0 < w)%nat -> entry_ok w kv ->
  parse_line (render_line pfx up w kv) = Ok kv.
Proof.
  intros Hw (Hn & H16 & Hwf & Hv & Hlf & Hws). destruct kv as [k name]. cbn [fst snd] in *.
  rewrite render_line_eq. cbn [fst snd]. unfold parse_line.
  rewrite valid_ascii_app by apply num_ascii.
  rewrite (valid_ascii SP) by reflexivity. rewrite valid_snoc_lf by assumption.
  rewrite split_once_app by apply num_no_sp.
  rewrite trim_num, u16_hexw by assumption.
  destruct (N.leb_spec k 65535); [|lia].
  rewrite trim_end_ws by reflexivity. rewrite trim_end_id by exact Hws. reflexivity.
Qed.

(* ------------------------------------------------------------------ the loop *)
Lemma load_map (f : N * bytes -> bytes) m : (forall kv, In kv m -> parse_line (f kv) = Ok kv) ->
  forall acc, load_lines (map f m) acc = Ok (rev m ++ acc).
Proof.
  induction m as [|kv m IH]; intros H acc; [reflexivity|].
  cbn [map load_lines]. rewrite H by (left; reflexivity). cbn [obind].
  rewrite IH by (intros; apply H; right; assumption). cbn [rev]. now rewrite <- app_assoc.
Qed.

Lemma load_app ls1 ls2 acc :
  load_lines (ls1 ++ ls2) acc = do m <- load_lines ls1 acc; load_lines ls2 m.
Proof.
  revert acc. induction ls1 as [|l ls1 IH]; intros acc; [reflexivity|].
  cbn [app load_lines]. destruct (parse_line l); cbn [obind]; auto.
Qed.

Lemma split_rendered pfx up w m : Forall (entry_ok w) m ->
  split_lines (render_lines pfx up w m) = map (render_line pfx up w) m.
Proof.
  unfold render_lines. induction m as [|kv m IH]; intros H; [reflexivity|].
  inversion H as [|x y (Hn & H16 & Hwf & Hv & Hlf & Hws) Hm]; subst.
  cbn [flat_map map]. rewrite render_line_eq.
  replace (((pfx0x pfx ++ hexw up w (fst kv)) ++ SP :: snd kv ++ [LF]) ++ flat_map (render_line pfx up w) m)
    with (((pfx0x pfx ++ hexw up w (fst kv)) ++ SP :: snd kv) ++ LF :: flat_map (render_line pfx up w) m).
  2: { rewrite <- ?app_assoc; cbn [app]; rewrite <- ?app_assoc; reflexivity. }
  rewrite split_lines_line.
  - rewrite IH by exact Hm. f_equal. rewrite <- ?app_assoc; cbn [app]; rewrite <- ?app_assoc; reflexivity.
  - intros Hin. apply in_app_or in Hin as [Hin|[Hin|Hin]].
    + exact (num_no_lf _ _ _ _ Hin).
    + discriminate.
    + exact (Hlf Hin).
Qed.

Theorem load_rendered pfx up w m : (0 < w)%nat -> Forall (entry_ok w) m ->
  from_text_lines (render_lines pfx up w m) = Ok (rev m).
Proof.
  intros Hw H. unfold from_text_lines. rewrite split_rendered by exact H.
  rewrite load_map; [now rewrite app_nil_r|].
  intros kv Hin. apply parse_rendered_line; [exact Hw|]. rewrite Forall_forall in H. auto.
Qed.

(* ------------------------------------------------------------------ resolve *)
Lemma resolve_app a b id :
  resolve (a ++ b) id = match resolve a id with Some v => Some v | None => resolve b id end.
Proof.
  induction a as [|[k v] a IH]; [reflexivity|]. cbn [app resolve]. destruct (k =? id); auto.
Qed.

Lemma resolve_none m id : ~ In id (map fst m) -> resolve m id = None.
Proof.
  induction m as [|[k v] m IH]; intros H; [reflexivity|]. cbn [resolve].
  destruct (N.eqb_spec k id) as [->|Hk]; [exfalso; apply H; left; reflexivity|].
  apply IH. intros Hin. apply H. right. exact Hin.
Qed.

Lemma resolve_some_in m id v : resolve m id = Some v -> In (id, v) m.
Proof.
  induction m as [|[k x] m IH]; [discriminate|]. cbn [resolve].
  destruct (N.eqb_spec k id) as [->|Hk]; [intros [= ->]; left; reflexivity|intros H; right; auto].
Qed.

Lemma in_resolve m id v : NoDup (map fst m) -> In (id, v) m -> resolve m id = Some v.
Proof.
  induction m as [|[k x] m IH]; intros Hnd Hin; [destruct Hin|].
  cbn [map fst] in Hnd. inversion Hnd as [|a b Hk Hm]; subst. cbn [resolve].
  destruct Hin as [[= -> ->]|Hin]; [now rewrite N.eqb_refl|].
  destruct (N.eqb_spec k id) as [->|Hne]; [|auto].
  exfalso. apply Hk. change id with (fst (id, v)). apply in_map. exact Hin.
Qed.

Lemma resolve_rev m id : NoDup (map fst m) -> resolve (rev m) id = resolve m id.
Proof.
  intros Hnd. assert (Hnd' : NoDup (map fst (rev m))) by (rewrite map_rev; apply NoDup_rev; exact Hnd).
  destruct (resolve m id) as [v|] eqn:E.
  - apply in_resolve; [exact Hnd'|]. apply in_rev. rewrite rev_involutive. apply resolve_some_in. exact E.
  - destruct (resolve (rev m) id) as [v|] eqn:E'; [|reflexivity].
    apply resolve_some_in, in_rev in E'. rewrite (in_resolve _ _ _ Hnd E') in E. discriminate.
Qed.

Lemma resolve_is_assoc m id : resolve m id = BinDeCommon.assoc_resolve m id.
Proof. induction m as [|[k v] m IH]; [reflexivity|]. cbn [resolve BinDeCommon.assoc_resolve]. now rewrite IH. Qed.

(* ------------------------------------------------------------------ round trip *)
Theorem resolver_roundtrip pfx up w m : (0 < w)%nat -> Forall (entry_ok w) m -> NoDup (map fst m) ->
  exists m', from_text_lines (render_lines pfx up w m) = Ok m' /\
             (forall id, resolve m' id = resolve m id) /\ is_empty m' = is_empty m.
Proof.
  intros Hw H Hnd. exists (rev m). split; [apply load_rendered; assumption|]. split.
  - intros id. apply resolve_rev. exact Hnd.
  - destruct m as [|kv m]; [reflexivity|]. cbn [rev is_empty]. destruct (rev m); reflexivity.
Qed.

(* ------------------------------------------------------------------ last binding wins *)
Theorem resolver_last_wins_rendered pfx up w m1 k v m2 : (0 < w)%nat ->
  Forall (entry_ok w) (m1 ++ (k, v) :: m2) -> ~ In k (map fst m2) ->
  exists t, from_text_lines (render_lines pfx up w (m1 ++ (k, v) :: m2)) = Ok t /\ resolve t k = Some v.
Proof.
  intros Hw H Hk. eexists. split; [apply load_rendered; assumption|].
  rewrite rev_app_distr. cbn [rev]. rewrite <- !app_assoc. cbn [app].
  rewrite resolve_app, resolve_none by (rewrite map_rev, <- in_rev; exact Hk).
  cbn [resolve]. now rewrite N.eqb_refl.
Qed.

(* on raw text: a file that is empty or ends with LF and loads, followed by one more line that
   parses to (k, v): the result binds k to v whatever the file said about k *)
Theorem resolver_last_wins_raw d l k v t0 :
  (d = [] \/ exists d', d = d' ++ [LF]) -> from_text_lines d = Ok t0 ->
  line_shape l -> parse_line l = Ok (k, v) ->
  exists t, from_text_lines (d ++ l) = Ok t /\ resolve t k = Some v /\
            (forall id, id <> k -> resolve t id = resolve t0 id).
Proof.
  intros Hd H0 Hl Hp.
  assert (Hs : split_lines l = [l]).
  { destruct Hl as [(body & -> & Hb)|[Hne Hnl]].
    - change (body ++ [LF]) with (body ++ LF :: []). rewrite split_lines_line by exact Hb. reflexivity.
    - apply split_lines_last; assumption. }
  assert (Hsp : split_lines (d ++ l) = split_lines d ++ [l]).
  { destruct Hd as [->|(d' & ->)]; [cbn [app]; exact Hs|]. rewrite split_lines_app_lf, Hs. reflexivity. }
  exists ((k, v) :: t0). unfold from_text_lines in *. rewrite Hsp, load_app, H0. cbn [obind load_lines].
  rewrite Hp. cbn [obind]. split; [reflexivity|]. cbn [resolve]. rewrite N.eqb_refl. split; [reflexivity|].
  intros id Hid. destruct (N.eqb_spec k id); [congruence|reflexivity].
Qed.

(* ------------------------------------------------------------------ rejection *)
Lemma parse_line_cases l :
  (exists kv, parse_line l = Ok kv) \/ parse_line l = Err E_Syntax \/ parse_line l = Err E_Io.
Proof.
  unfold parse_line. destruct (valid_utf8 l); [|auto].
  destruct (split_once_sp l) as [[num text]|]; [|auto].
  destruct (u16_from_hex (trim_0x num)); eauto.
Qed.

Definition rejected {A} (o : outcome A) : Prop := o = Err E_Syntax \/ o = Err E_Io.

Lemma load_err l ls : In l ls -> rejected (parse_line l) -> forall acc, rejected (load_lines ls acc).
Proof.
  intros Hin Hr. induction ls as [|x ls IH]; intros acc; [destruct Hin|].
  cbn [load_lines]. destruct Hin as [->|Hin].
  - destruct Hr as [-> | ->]; [left|right]; reflexivity.
  - destruct (parse_line_cases x) as [(kv & ->)|[-> | ->]]; cbn [obind]; [auto|left; reflexivity|right; reflexivity].
Qed.

Lemma reject_no_space l : ~ In SP l -> rejected (parse_line l).
Proof.
  intros H. unfold parse_line. destruct (valid_utf8 l); [|right; reflexivity].
  rewrite split_once_none by exact H. left; reflexivity.
Qed.

Lemma reject_num num text : ~ In SP num -> u16_from_hex (trim_0x num) = None ->
  rejected (parse_line (num ++ SP :: text)).
Proof.
  intros Hs Hu. unfold parse_line. destruct (valid_utf8 _); [|right; reflexivity].
  rewrite split_once_app by exact Hs. rewrite Hu. left; reflexivity.
Qed.

(* an id that contains a byte which is neither a hex digit nor 'x' nor '+' *)
Lemma reject_nonhex num text b : ~ In SP num -> In b num -> hex_digit b = None -> b <> 120 -> b <> 43 ->
  rejected (parse_line (num ++ SP :: text)).
Proof.
  intros Hs Hin Hb Hx Hp. apply reject_num; [exact Hs|].
  eapply u16_hex_bad; [|exact Hb|exact Hp]. apply trim_0x_keeps; [|exact Hx|exact Hin].
  intros ->. discriminate.
Qed.

(* an empty id, possibly after 0x *)
Lemma reject_empty_id pfx text : rejected (parse_line (pfx0x pfx ++ SP :: text)).
Proof. apply reject_num; destruct pfx; cbn; unfold SP; intuition discriminate. Qed.

(* an id in hex, any width, either case, with or without 0x, whose value exceeds u16 *)
Lemma reject_overflow pfx up w n text : n < 16 ^ N.of_nat w -> 65535 < n ->
  rejected (parse_line ((pfx0x pfx ++ hexw up w n) ++ SP :: text)).
Proof.
  intros Hn Hbig. apply reject_num; [apply num_no_sp|]. rewrite trim_num.
  assert (Hw : (0 < w)%nat). { destruct w; [cbn in Hn; lia|lia]. }
  rewrite u16_hexw by assumption. destruct (N.leb_spec n 65535); [lia|reflexivity].
Qed.

Inductive bad_line : bytes -> Prop :=
| bad_no_space l : ~ In SP l -> bad_line l
| bad_nonhex num text b : ~ In SP num -> In b num -> hex_digit b = None -> b <> 120 -> b <> 43 ->
    bad_line (num ++ SP :: text)
| bad_empty pfx text : bad_line (pfx0x pfx ++ SP :: text)
| bad_overflow pfx up w n text : n < 16 ^ N.of_nat w -> 65535 < n ->
    bad_line ((pfx0x pfx ++ hexw up w n) ++ SP :: text).

Theorem resolver_rejects d l : In l (split_lines d) -> bad_line l -> rejected (from_text_lines d).
Proof.
  intros Hin Hb. apply load_err with (l := l); [exact Hin|].
  destruct Hb.
  - apply reject_no_space; assumption.
  - eapply reject_nonhex; eassumption.
  - apply reject_empty_id.
  - apply reject_overflow; assumption.
Qed.

(* ------------------------------------------------------------------ totality *)
Lemma load_total ls : forall acc, (exists t, load_lines ls acc = Ok t) \/ rejected (load_lines ls acc).
Proof.
  induction ls as [|x ls IH]; intros acc; [left; eexists; reflexivity|].
  cbn [load_lines]. destruct (parse_line_cases x) as [(kv & ->)|[-> | ->]]; cbn [obind];
    [apply IH|right; left; reflexivity|right; right; reflexivity].
Qed.

Theorem resolver_total d :
  is_crash (from_text_lines d) = false /\
  ((exists t, from_text_lines d = Ok t) \/ from_text_lines d = Err E_Syntax \/ from_text_lines d = Err E_Io).
Proof.
  destruct (load_total (split_lines d) []) as [(t & H)|[H|H]]; unfold from_text_lines; rewrite H; split; eauto.
Qed.

(* what an accepted file means, line by line: every piece is valid UTF-8, has a space, the text
   before it is (0x)*[+]hex digits of value <= 0xFFFF, and the table lists, latest first, that value
   with the rest of the line minus trailing ASCII whitespace *)
Lemma load_ok_inv ls : forall acc t, load_lines ls acc = Ok t ->
  exists kvs, Forall2 (fun l kv => parse_line l = Ok kv) ls kvs /\ t = rev kvs ++ acc.
Proof.
  induction ls as [|x ls IH]; intros acc t H.
  - injection H as <-. exists []. split; [constructor|reflexivity].
  - cbn [load_lines] in H. destruct (parse_line x) as [kv| | | |] eqn:E; try discriminate. cbn [obind] in H.
    destruct (IH _ _ H) as (kvs & HF & ->). exists (kv :: kvs). split; [constructor; assumption|].
    cbn [rev]. now rewrite <- app_assoc.
Qed.

Lemma parse_line_ok_inv l k v : parse_line l = Ok (k, v) ->
  valid_utf8 l = true /\ exists num text, l = num ++ SP :: text /\ ~ In SP num /\
    u16_from_hex (trim_0x num) = Some k /\ v = trim_ascii_end text /\ no_trailing_ws v.
Proof.
  unfold parse_line. destruct (valid_utf8 l); [|discriminate].
  destruct (split_once_sp l) as [[num text]|] eqn:S; [|discriminate].
  destruct (u16_from_hex (trim_0x num)) as [z|] eqn:U; [|discriminate].
  intros [= <- <-]. split; [reflexivity|]. apply split_once_some in S as [-> Hn].
  exists num, text. repeat split; auto. apply trim_end_no_trailing.
Qed.

Lemma hex_acc_le acc s z : hex_acc acc s = Some z -> z <= 65535 \/ (s = [] /\ z = acc).
Proof.
  revert acc. induction s as [|c s IH]; intros acc H.
  - injection H as <-. right. auto.
  - left. cbn [hex_acc] in H. destruct (hex_digit c) as [d|]; [|discriminate].
    destruct (N.ltb_spec 65535 (acc * 16 + d)); [discriminate|].
    destruct (IH _ H) as [?|[-> ->]]; lia.
Qed.

Lemma u16_from_hex_range s z : u16_from_hex s = Some z -> z <= 65535.
Proof.
  unfold u16_from_hex. destruct s as [|a [|b r]]; [discriminate| |].
  - destruct ((a =? 43) || (a =? 45)); [discriminate|]. intros H. apply hex_acc_le in H as [?|[[=] _]]. assumption.
  - destruct (a =? 43); intros H; apply hex_acc_le in H as [?|[[=] _]]; assumption.
Qed.

Theorem resolver_ok_sound d t : from_text_lines d = Ok t ->
  exists kvs, Forall2 (fun l kv => parse_line l = Ok kv) (split_lines d) kvs /\ t = rev kvs /\
    Forall (fun kv => fst kv <= 65535 /\ no_trailing_ws (snd kv)) kvs.
Proof.
  intros H. apply load_ok_inv in H as (kvs & HF & ->). exists kvs. rewrite app_nil_r. repeat split; auto.
  clear -HF. induction HF as [|l [k v] ls kvs Hp HF IH]; constructor; auto.
  apply parse_line_ok_inv in Hp as (_ & num & text & _ & _ & Hu & _ & Hw). cbn [fst snd].
  split; [eapply u16_from_hex_range; eauto|exact Hw].
Qed.

(* the harness's `lines:` rendering ("0x{:04x} {}\n"): any u16 id fits 4 digits *)
Theorem resolver_roundtrip_std m :
  Forall (fun kv => fst kv <= 65535 /\ name_ok (snd kv)) m -> NoDup (map fst m) ->
  exists m', from_text_lines (render_std m) = Ok m' /\
             (forall id, resolve m' id = resolve m id) /\ is_empty m' = is_empty m.
Proof.
  intros H Hnd. apply resolver_roundtrip; [lia| |exact Hnd].
  eapply Forall_impl; [|exact H]. intros kv [Hk Hn]. split; [|split; assumption].
  change (16 ^ N.of_nat 4) with 65536. lia.
Qed.
