(* C08, wave 4: the clauses of the property that BinStreamProofs.v did not state.
   1. the from_slice reader (no buffer) = the slice lexer, for every input;
   2. a reader whose buffer has no bytes (cap 0) drops everything (definitional witness);
   3. streaming reader vs slice lexer under the property's *literal* hypothesis "the buffer holds the
      largest token" (max_token input <= cap): same tokens, same final position, same way of ending
      or BufferFull where the lexer errs (the part of the input the lexer cannot lex may be longer
      than the buffer);
   4. TokenReader::read = Lexer::read_token and TokenReader::read_bytes = Lexer::read_bytes per call. *)
From JV Require Import Bytes Tables BinPrim BufWin BinLexer BinReader.
From JV.proofs Require Import BinLexProofs BinStreamProofs.
From Coq Require Import List NArith ZArith Bool Lia Arith.
Import ListNotations.
Open Scope nat_scope.

(* ====================================================================== 1. bufferless window *)
(* cap 0: fill_buf answers Ok(0) without touching the underlying reader *)
Definition sl_ok (s : rstate) (d : bytes) (pos : nat) : Prop :=
  cap (fst s) = 0 /\ win (fst s) = d /\ rdr_position s = pos.

Lemma slice_fill s : cap (fst s) = 0 -> rdr_fill s = FcZero s.
Proof.
  destruct s as [b r]. cbn [fst]. intros H. unfold rdr_fill, bw_fill_buf. cbn [fst snd].
  rewrite H. cbn. reflexivity.
Qed.

Lemma slice_next_step s d pos :
  sl_ok s d pos ->
  exists s', rdr_next_step s = inr (fst (next_res d), s') /\
             sl_ok s' (snd (next_res d)) (pos + (length d - length (snd (next_res d)))).
Proof.
  destruct s as [b r]. intros (Hc & Hw & Hp). cbn [fst snd] in *.
  unfold rdr_position, bw_position in Hp. cbn [fst] in Hp.
  unfold rdr_next_step. cbn [fst snd]. rewrite Hw.
  destruct (read_token_total d) as [[t [w' E]]|[E|E]].
  - rewrite E, (next_res_ok _ _ _ E). cbn [fst snd].
    destruct (read_token_consumed _ _ _ E) as [c0 [Ed _]].
    unfold rdr_advance, bw_advance. cbn [fst snd]. rewrite Hw.
    replace (Nat.ltb (length d) (length d - length w')) with false by (symmetry; apply Nat.ltb_ge; lia).
    eexists. split; [reflexivity|].
    unfold sl_ok, rdr_position, bw_position. cbn [fst snd cap win consumed prior].
    repeat split; [assumption | | lia].
    rewrite Ed at 1 2. rewrite app_length, Nat.add_sub, skipn_app, skipn_all, Nat.sub_diag. reflexivity.
  - rewrite E, (next_res_eof _ E). cbn [fst snd].
    replace (E_LexEof =? E_LexEof)%N with true by reflexivity.
    rewrite (slice_fill (b, r) Hc). unfold bw_window_len. cbn [fst]. rewrite Hw.
    exists (b, r). rewrite Nat.sub_diag, Nat.add_0_r.
    split; [destruct d; reflexivity|].
    unfold sl_ok, rdr_position, bw_position. cbn [fst]. auto.
  - rewrite E, (next_res_rgb _ E). cbn [fst snd].
    replace (E_InvalidRgb =? E_LexEof)%N with false by reflexivity.
    exists (b, r). rewrite Nat.sub_diag, Nat.add_0_r. split; [reflexivity|].
    unfold sl_ok, rdr_position, bw_position. cbn [fst]. auto.
Qed.

Lemma slice_next s d pos :
  sl_ok s d pos ->
  exists s', rdr_next s = (fst (next_res d), s') /\
             sl_ok s' (snd (next_res d)) (pos + (length d - length (snd (next_res d)))).
Proof.
  intros H. destruct (slice_next_step s d pos H) as [s' [E H']].
  exists s'. split; [|assumption]. unfold rdr_next, rdr_fuel.
  rewrite (run_steps_inr _ _ _ _ E). reflexivity.
Qed.

Lemma slice_run_eq : forall fuel s l,
  sl_ok s (lx_data l) (lx_position l) -> length (lx_data l) <= lx_orig l ->
  stream_run fuel s = lex_run fuel l.
Proof.
  induction fuel as [|fuel IH]; intros s [d orig] Hok Hwf; cbn [lx_data lx_orig] in *.
  - cbn [stream_run lex_run]. destruct Hok as (_ & _ & Hpos). rewrite Hpos. reflexivity.
  - destruct (slice_next s d _ Hok) as [s' [En Hok']].
    cbn [stream_run lex_run]. rewrite En, next_res_lx.
    unfold lx_position in *. cbn [lx_data lx_orig] in *.
    destruct (read_token_total d) as [[t [r E]]|[E|E]].
    + rewrite (next_res_ok _ _ _ E) in *. cbn [fst snd] in *.
      pose proof (read_token_len _ _ _ E) as L.
      rewrite (IH s' (mklx r orig)); [reflexivity | | cbn [lx_data lx_orig]; lia].
      unfold lx_position. cbn [lx_data lx_orig].
      replace (orig - length r) with (orig - length d + (length d - length r)) by lia. assumption.
    + rewrite (next_res_eof _ E) in *. cbn [fst snd] in *.
      destruct Hok' as (_ & _ & Hpos'). rewrite Hpos'. rewrite Nat.sub_diag, Nat.add_0_r.
      destruct d; reflexivity.
    + rewrite (next_res_rgb _ E) in *. cbn [fst snd] in *.
      destruct Hok' as (_ & _ & Hpos'). rewrite Hpos'. rewrite Nat.sub_diag, Nat.add_0_r. reflexivity.
Qed.

Theorem slice_reader_eq_lexer d : run_slice_reader d = run_lexer d.
Proof.
  unfold run_slice_reader, run_lexer. apply slice_run_eq.
  - unfold sl_ok, rdr_from_slice, bw_from_slice, rdr_position, bw_position, lx_new, lx_position.
    cbn [fst snd cap win prior consumed lx_data lx_orig]. rewrite Nat.sub_diag. auto.
  - cbn. lia.
Qed.

(* ====================================================================== 2. a buffer of no bytes *)
Theorem stream_cap0_drops_everything input sched : run_stream 0 sched input = ([], (Ok tt, 0)).
Proof.
  unfold run_stream.
  assert (H : sl_ok (rdr_new 0 sched input) [] 0).
  { unfold sl_ok, rdr_new, bw_new, rdr_position, bw_position. cbn. auto. }
  destruct (slice_next _ _ _ H) as [s' [En Hok']].
  cbn [stream_run]. rewrite En.
  change (next_res []) with (@Ok (option btoken) None, @nil N) in *. cbn [fst snd] in *.
  destruct Hok' as (_ & _ & Hp). rewrite Hp. reflexivity.
Qed.

(* ====================================================================== 3. the largest token fits *)
Definition tok_holds (c : nat) (d : bytes) : Prop :=
  match read_token d with Ok (_, r) => length d - length r <= c | _ => True end.

Definition lex_errs (d : bytes) : Prop := exists e, next_res d = (Err e, d).

(* a window that fills the buffer without holding a token: the lexer cannot succeed on the pending data *)
Lemma full_window_errs c w r :
  0 < c -> c <= length w -> read_token w = Err E_LexEof -> tok_holds c (w ++ r) -> lex_errs (w ++ r).
Proof.
  intros Hc L E H. unfold tok_holds in H. unfold lex_errs.
  destruct (read_token_total (w ++ r)) as [[t [r' E']]|[E'|E']].
  - exfalso. rewrite E' in H.
    destruct (read_token_consumed _ _ _ E') as [c0 [Ed Ec]].
    assert (Lc : length c0 <= length w).
    { rewrite Ed in H at 1. rewrite app_length in H. lia. }
    assert (Ew : w = c0 ++ skipn (length c0) w).
    { rewrite <- (firstn_skipn (length c0) w) at 1. f_equal.
      assert (F : firstn (length c0) (w ++ r) = firstn (length c0) (c0 ++ r')) by (rewrite <- Ed; reflexivity).
      rewrite firstn_app in F. replace (length c0 - length w) with 0 in F by lia.
      cbn [firstn] in F. rewrite app_nil_r in F. rewrite F.
      rewrite firstn_app, Nat.sub_diag, firstn_all. cbn [firstn]. apply app_nil_r. }
    rewrite Ew in E. rewrite (prefix_stable _ _ _ (skipn (length c0) w) Ec) in E. discriminate.
  - exists E_LexEof. rewrite (next_res_eof _ E'). destruct (w ++ r) eqn:D; [|reflexivity].
    exfalso. apply (f_equal (@length N)) in D. rewrite app_length in D. cbn in D. lia.
  - exists E_InvalidRgb. apply next_res_rgb. assumption.
Qed.

(* outcome of one next(): what the lexer says, or BufferFull where the lexer errs (position kept) *)
Definition weak_post (d : bytes) (pos c : nat) (res : outcome (option btoken) * rstate) : Prop :=
  (fst res = fst (next_res d) /\ next_post d pos c (snd res)) \/
  (fst res = Err E_BufferFull /\ lex_errs d /\ rdr_position (snd res) = pos).

Lemma weak_steps_spec : forall n s d pos c fuel,
  st_ok s d pos c -> 0 < c -> tok_holds c d -> length (rest (snd s)) <= n -> n < fuel ->
  exists res, run_steps rdr_next_step fuel s = Some res /\ weak_post d pos c res.
Proof.
  induction n as [|n IH]; intros s d pos c fuel Hok Hc0 Hh Hn Hf;
    (destruct fuel as [|fuel]; [lia|]).
  all: pose proof Hok as (Hp & Hpos & Hc & Hnf).
  all: destruct (read_token_total (win (fst s))) as [[t [w' E]]|[E|E]].
  all: try (destruct (next_step_tok _ _ _ _ _ _ Hok E) as [s' [Es Hs]];
            exists (fst (next_res d), s'); split; [apply run_steps_inr; assumption | left; cbn [fst snd]; auto]).
  all: try (destruct (next_step_rgb _ _ _ _ Hok E) as [s' [Es Hs]];
            exists (fst (next_res d), s'); split; [apply run_steps_inr; assumption | left; cbn [fst snd]; auto]).
  all: pose proof (next_step_eof s E) as Es.
  all: destruct (rdr_fill_spec s d pos c Hok Hc0) as [Hfull | s' Hlt Hr Hok' Hw Hr' | s' k Hlt Hk Hok' Hw Hr' Hkl].
  all: try (exists (Err E_BufferFull, s); split; [apply run_steps_inr; assumption|];
            right; cbn [fst snd]; repeat split; [|assumption];
            rewrite <- Hp in Hh |- *; unfold rdr_pending in *;
            exact (full_window_errs _ _ _ Hc0 Hfull E Hh)).
  - assert (Ed : d = win (fst s)) by (rewrite <- Hp; unfold rdr_pending; rewrite Hr; apply app_nil_r).
    rewrite <- Ed in E. unfold bw_window_len in Es. rewrite Hw, <- Ed in Es.
    exists (fst (next_res d), s'). split.
    + apply run_steps_inr. rewrite Es, (next_res_eof _ E). destruct d; reflexivity.
    + left. cbn [fst snd]. split; [reflexivity|]. unfold next_post. rewrite (next_res_eof _ E). cbn [fst snd].
      rewrite Nat.sub_diag, Nat.add_0_r. assumption.
  - lia.
  - assert (Ed : d = win (fst s)) by (rewrite <- Hp; unfold rdr_pending; rewrite Hr; apply app_nil_r).
    rewrite <- Ed in E. unfold bw_window_len in Es. rewrite Hw, <- Ed in Es.
    exists (fst (next_res d), s'). split.
    + apply run_steps_inr. rewrite Es, (next_res_eof _ E). destruct d; reflexivity.
    + left. cbn [fst snd]. split; [reflexivity|]. unfold next_post. rewrite (next_res_eof _ E). cbn [fst snd].
      rewrite Nat.sub_diag, Nat.add_0_r. assumption.
  - rewrite (run_steps_inl _ _ _ _ Es).
    apply IH; try assumption.
    + rewrite Hr', skipn_length. lia.
    + lia.
Qed.

Lemma rdr_next_weak s d pos c :
  st_ok s d pos c -> 0 < c -> tok_holds c d -> weak_post d pos c (rdr_next s).
Proof.
  intros Hok Hc Hh.
  destruct (weak_steps_spec (length (rest (snd s))) s d pos c (rdr_fuel s) Hok Hc Hh (le_n _)) as [res [E H]].
  { unfold rdr_fuel. lia. }
  unfold rdr_next. rewrite E. assumption.
Qed.

(* how two runs compare under the literal hypothesis *)
Definition end_agrees (es el : outcome unit) : Prop :=
  es = el \/ (es = Err E_BufferFull /\ exists e, el = Err e).
Definition run_agrees (rs rl : run_res) : Prop :=
  fst rs = fst rl /\ snd (snd rs) = snd (snd rl) /\ end_agrees (fst (snd rs)) (fst (snd rl)).

Lemma run_agrees_cons t (rs rl : run_res) :
  run_agrees rs rl ->
  run_agrees (let '(ts, e) := rs in (t :: ts, e)) (let '(ts, e) := rl in (t :: ts, e)).
Proof.
  destruct rs as [ts1 e1], rl as [ts2 e2]. unfold run_agrees. cbn [fst snd].
  intros (A & B & C). subst. auto.
Qed.

Lemma weak_run : forall fuel s l c,
  st_ok s (lx_data l) (lx_position l) c -> length (lx_data l) <= lx_orig l -> 0 < c ->
  max_token_fuel fuel (lx_data l) <= c -> run_agrees (stream_run fuel s) (lex_run fuel l).
Proof.
  induction fuel as [|fuel IH]; intros s [d orig] c Hok Hwf Hc Hm; cbn [lx_data lx_orig] in *.
  - cbn [stream_run lex_run]. destruct Hok as (_ & Hpos & _). rewrite Hpos.
    unfold run_agrees, end_agrees. cbn [fst snd]. auto.
  - cbn [max_token_fuel] in Hm.
    assert (Hh : tok_holds c d).
    { unfold tok_holds. destruct (read_token d) as [[t r]| | | |]; auto. lia. }
    pose proof (rdr_next_weak s d _ c Hok Hc Hh) as W.
    cbn [stream_run lex_run]. rewrite next_res_lx.
    unfold lx_position in *. cbn [lx_data lx_orig] in *.
    destruct (rdr_next s) as [o s'] eqn:En. unfold weak_post in W. cbn [fst snd] in W.
    destruct W as [[Eo Hok'] | (Eo & [e He] & Hp')].
    + subst o. unfold next_post in Hok'.
      destruct (read_token_total d) as [[t [r E]]|[E|E]].
      * rewrite (next_res_ok _ _ _ E) in *. cbn [fst snd] in *. rewrite E in Hm.
        pose proof (read_token_len _ _ _ E) as L.
        apply run_agrees_cons.
        apply (IH s' (mklx r orig) c); cbn [lx_data lx_orig]; try lia; try assumption.
        unfold lx_position. cbn [lx_data lx_orig].
        replace (orig - length r) with (orig - length d + (length d - length r)) by lia. assumption.
      * rewrite (next_res_eof _ E) in *. cbn [fst snd] in *.
        destruct Hok' as (_ & Hpos' & _). rewrite Hpos'. rewrite Nat.sub_diag, Nat.add_0_r.
        unfold run_agrees, end_agrees. destruct d; cbn [fst snd]; auto.
      * rewrite (next_res_rgb _ E) in *. cbn [fst snd] in *.
        destruct Hok' as (_ & Hpos' & _). rewrite Hpos'. rewrite Nat.sub_diag, Nat.add_0_r.
        unfold run_agrees, end_agrees. cbn [fst snd]. auto.
    + subst o. rewrite He. cbn [fst snd recast]. rewrite Hp'.
      unfold run_agrees, end_agrees. cbn [fst snd]. repeat split; eauto.
Qed.

Theorem stream_holds_largest_token input sched cap :
  no_fail sched = true -> 0 < cap -> max_token input <= cap ->
  run_agrees (run_stream cap sched input) (run_lexer input).
Proof.
  intros Hnf Hc Hm. unfold run_stream, run_lexer, max_token in *.
  apply (weak_run _ _ (lx_new input) cap); try assumption.
  - unfold lx_new, lx_position. cbn [lx_data lx_orig]. rewrite Nat.sub_diag. apply st_ok_new. assumption.
  - cbn. lia.
Qed.

(* ====================================================================== 4. read() and read_bytes() *)
Theorem read_eq_lexer s l c :
  st_ok s (lx_data l) (lx_position l) c -> length (lx_data l) <= lx_orig l -> tok_fits c (lx_data l) = true ->
  exists s', rdr_read s = (fst (lx_read_token l), s') /\
             st_ok s' (lx_data (snd (lx_read_token l))) (lx_position (snd (lx_read_token l))) c.
Proof.
  intros Hok Hwf Hfit.
  destruct (next_eq_lexer s l c Hok Hwf Hfit) as [s' [En Hok']].
  exists s'. unfold rdr_read. rewrite En.
  destruct l as [d orig]. unfold lx_next_token, lx_next_of, lx_read_token, lx_lift in *. cbn [lx_data lx_orig] in *.
  destruct (read_token_total d) as [[t [r E]]|[E|E]]; rewrite E in *; cbn [fst snd] in *.
  - auto.
  - replace (E_LexEof =? E_LexEof)%N with true in * by reflexivity. cbn [andb] in *.
    destruct d; cbn [fst snd recast] in *; auto.
  - replace (E_InvalidRgb =? E_LexEof)%N with false in * by reflexivity. cbn [andb fst snd recast] in *. auto.
Qed.

(* Lexer::read_bytes on data d *)
Definition rb_res (n : nat) (d : bytes) : outcome bytes * bytes :=
  if Nat.leb n (length d) then (Ok (firstn n d), skipn n d) else (Err E_LexEof, d).

Lemma rb_res_lx n d orig :
  lx_read_bytes n (mklx d orig) = (fst (rb_res n d), mklx (snd (rb_res n d)) orig).
Proof.
  unfold lx_read_bytes, lx_lift, read_bytes_prim, rb_res. cbn [lx_data lx_orig].
  destruct (Nat.leb n (length d)); reflexivity.
Qed.

Lemma rb_steps_spec n : forall k s d pos c fuel,
  st_ok s d pos c -> (n <= length d -> n <= c) -> (length d < n -> length d < c) ->
  length (rest (snd s)) <= k -> k < fuel ->
  exists s', run_steps (rdr_read_bytes_step n) fuel s = Some (fst (rb_res n d), s') /\
             st_ok s' (snd (rb_res n d)) (pos + (length d - length (snd (rb_res n d)))) c.
Proof.
  induction k as [|k IH]; intros s d pos c fuel Hok H1 H2 Hk Hf;
    (destruct fuel as [|fuel]; [lia|]).
  all: pose proof Hok as (Hp & Hpos & Hc & Hnf).
  all: assert (Ld : length d = length (win (fst s)) + length (rest (snd s)))
         by (rewrite <- Hp; unfold rdr_pending; apply app_length).
  all: destruct (Nat.ltb (bw_window_len (fst s)) n) eqn:Lt.
  all: try (
    (* enough bytes in the window *)
    apply Nat.ltb_ge in Lt; unfold bw_window_len in Lt;
    destruct s as [b r]; cbn [fst snd] in *;
    assert (Es : rdr_read_bytes_step n (b, r) =
                 inr (Ok (firstn n (win b)), (mkbw (cap b) (skipn n (win b)) (consumed b + n) (prior b), r)));
    [ unfold rdr_read_bytes_step, bw_window_len, rdr_advance, bw_advance; cbn [fst snd];
      replace (Nat.ltb (length (win b)) n) with false by (symmetry; apply Nat.ltb_ge; lia); reflexivity |];
    eexists; split; [apply run_steps_inr; rewrite Es; unfold rb_res;
      replace (Nat.leb n (length d)) with true by (symmetry; apply Nat.leb_le; lia);
      cbn [fst]; rewrite <- Hp; unfold rdr_pending; cbn [fst snd];
      rewrite firstn_app; replace (n - length (win b)) with 0 by lia; cbn [firstn]; rewrite app_nil_r; reflexivity |];
    unfold rb_res; replace (Nat.leb n (length d)) with true by (symmetry; apply Nat.leb_le; lia); cbn [snd];
    apply st_ok_intro; cbn [win rest cap prior consumed sched]; try assumption;
    [ rewrite <- Hp; unfold rdr_pending; cbn [fst snd]; rewrite skipn_app;
      replace (n - length (win b)) with 0 by lia; reflexivity
    | unfold rdr_position, bw_position in Hpos; cbn [fst] in Hpos; rewrite skipn_length; lia ]).
  all: apply Nat.ltb_lt in Lt; unfold bw_window_len in Lt.
  all: assert (Hc0 : 0 < c) by lia.
  all: assert (Es : rdr_read_bytes_step n s =
         match rdr_fill s with
         | FcZero s' => inr (Err E_LexEof, s')
         | FcMore s' => inl s'
         | FcErr e s' => inr (Err e, s')
         end)
       by (unfold rdr_read_bytes_step, bw_window_len;
           replace (Nat.ltb (length (win (fst s))) n) with true by (symmetry; apply Nat.ltb_lt; lia); reflexivity).
  all: destruct (rdr_fill_spec s d pos c Hok Hc0) as [Hfull | s' Hlt Hr Hok' Hw Hr' | s' j Hlt Hj Hok' Hw Hr' Hjl].
  all: try (exfalso; lia).
  - (* end of data: fewer than n bytes in all *)
    rewrite Hr in Ld. cbn [length] in Ld.
    exists s'. unfold rb_res. replace (Nat.leb n (length d)) with false by (symmetry; apply Nat.leb_gt; lia).
    cbn [fst snd]. split; [apply run_steps_inr; assumption|].
    rewrite Nat.sub_diag, Nat.add_0_r. assumption.
  - rewrite Hr in Ld. cbn [length] in Ld.
    exists s'. unfold rb_res. replace (Nat.leb n (length d)) with false by (symmetry; apply Nat.leb_gt; lia).
    cbn [fst snd]. split; [apply run_steps_inr; assumption|].
    rewrite Nat.sub_diag, Nat.add_0_r. assumption.
  - rewrite (run_steps_inl _ _ _ _ Es).
    apply IH; try assumption.
    + rewrite Hr', skipn_length. lia.
    + lia.
Qed.

Theorem read_bytes_eq_lexer n s l c :
  st_ok s (lx_data l) (lx_position l) c -> length (lx_data l) <= lx_orig l ->
  (n <= length (lx_data l) -> n <= c) -> (length (lx_data l) < n -> length (lx_data l) < c) ->
  exists s', rdr_read_bytes n s = (fst (lx_read_bytes n l), s') /\
             st_ok s' (lx_data (snd (lx_read_bytes n l))) (lx_position (snd (lx_read_bytes n l))) c.
Proof.
  destruct l as [d orig]. cbn [lx_data lx_orig]. intros Hok Hwf H1 H2.
  destruct (rb_steps_spec n (length (rest (snd s))) s d _ c (rdr_fuel s) Hok H1 H2 (le_n _)) as [s' [E H]].
  { unfold rdr_fuel. lia. }
  exists s'. rewrite rb_res_lx. cbn [fst snd lx_data]. split.
  - unfold rdr_read_bytes. rewrite E. reflexivity.
  - unfold lx_position in *. cbn [lx_data lx_orig] in *.
    assert (L : length (snd (rb_res n d)) <= length d).
    { unfold rb_res. destruct (Nat.leb n (length d)); cbn [snd]; [rewrite skipn_length|]; lia. }
    replace (orig - length (snd (rb_res n d))) with (orig - length d + (length d - length (snd (rb_res n d)))) by lia.
    assumption.
Qed.
