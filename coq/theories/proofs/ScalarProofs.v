(* Proofs about scalar.rs integer / bool conversions (C11). *)
From JV Require Import Bytes Tables Scalar.
From Coq Require Import NArith ZArith Lia List Bool.
Import ListNotations.
Open Scope N_scope.

(* ---------- specification vocabulary ---------- *)
Definition all_digits (ds : bytes) : bool := forallb is_digit ds.
(* decimal value of a digit string read left to right on top of an accumulator *)
Definition dec_acc (ds : bytes) (acc : N) : N := fold_left (fun a x => a * 10 + (x - 48)) ds acc.
Definition dec (ds : bytes) : N := dec_acc ds 0.
(* contribution of the first byte: a digit counts, a sign does not *)
Definition lead_val (c : N) : N := if is_digit c then c - 48 else 0.

Lemma is_digit_range x : is_digit x = true <-> 48 <= x <= 57.
Proof. unfold is_digit. rewrite andb_true_iff, !N.leb_le. tauto. Qed.

Lemma dec_acc_app a b acc : dec_acc (a ++ b) acc = dec_acc b (dec_acc a acc).
Proof. unfold dec_acc. apply fold_left_app. Qed.

Lemma dec_acc_ge ds : forall acc, acc <= dec_acc ds acc.
Proof.
  induction ds as [|x ds IH]; intros acc; cbn [dec_acc fold_left]; [lia|].
  specialize (IH (acc * 10 + (x - 48))). unfold dec_acc in IH. lia.
Qed.

Lemma dec_acc_mono ds : forall a b, a <= b -> dec_acc ds a <= dec_acc ds b.
Proof.
  induction ds as [|x ds IH]; intros a b H; cbn [dec_acc fold_left]; [lia|].
  apply IH. lia.
Qed.

(* a digit string in front of an accumulator: dec_acc ds acc = acc * 10^|ds| + dec ds *)
Lemma dec_acc_split ds : forall acc, dec_acc ds acc = acc * 10 ^ lenN ds + dec ds.
Proof.
  unfold dec, lenN. induction ds as [|x ds IH]; intros acc.
  - cbn. lia.
  - cbn [dec_acc fold_left length]. fold (dec_acc ds (acc * 10 + (x - 48))). fold (dec_acc ds (0 * 10 + (x - 48))).
    rewrite (IH (acc * 10 + (x - 48))), (IH (0 * 10 + (x - 48))).
    rewrite Nat2N.inj_succ, N.pow_succ_r'. lia.
Qed.

(* ---------- overflow_mul_add is an exact checked accumulate ---------- *)
Lemma overflow_mul_add_spec acc dg :
  acc < U64_LIM -> dg < 10 ->
  overflow_mul_add acc dg = if acc * 10 + dg <? U64_LIM then Ok (acc * 10 + dg) else Err E_Overflow.
Proof.
  intros Ha Hd. unfold overflow_mul_add.
  destruct (U64_LIM <=? acc * 10) eqn:E1.
  - apply N.leb_le in E1. cbn [orb].
    destruct (acc * 10 + dg <? U64_LIM) eqn:E2; [apply N.ltb_lt in E2; lia|reflexivity].
  - apply N.leb_gt in E1. rewrite (N.mod_small _ _ E1). cbn [orb].
    destruct (U64_LIM <=? acc * 10 + dg) eqn:E3.
    + apply N.leb_le in E3. destruct (acc * 10 + dg <? U64_LIM) eqn:E2; [apply N.ltb_lt in E2; lia|reflexivity].
    + apply N.leb_gt in E3. destruct (acc * 10 + dg <? U64_LIM) eqn:E2; [reflexivity|apply N.ltb_ge in E2; lia].
Qed.

Lemma all_digits_cons x ds : all_digits (x :: ds) = is_digit x && all_digits ds.
Proof. reflexivity. Qed.

(* what can follow the digits: nothing, or a non-digit *)
Definition stops (rest : bytes) : Prop := rest = [] \/ exists x r, rest = x :: r /\ is_digit x = false.

Lemma span_digits (d : bytes) : exists ds rest, d = ds ++ rest /\ all_digits ds = true /\ stops rest.
Proof.
  induction d as [|x d IH].
  - exists [], []. repeat split. now left.
  - destruct (is_digit x) eqn:E.
    + destruct IH as (ds & rest & -> & Hd & Hs). exists (x :: ds), rest. repeat split; [|exact Hs].
      now rewrite all_digits_cons, E, Hd.
    + exists [], (x :: d). repeat split. right. now exists x, d.
Qed.

(* the loop of to_u64_t2 over a maximal digit prefix *)
Lemma to_u64_t2_digits ds : forall acc rest,
  all_digits ds = true -> acc < U64_LIM -> stops rest ->
  to_u64_t2 (ds ++ rest) acc = if dec_acc ds acc <? U64_LIM then Ok (dec_acc ds acc, rest) else Err E_Overflow.
Proof.
  induction ds as [|x ds IH]; intros acc rest Hd Ha Hs.
  - cbn [app dec_acc fold_left]. apply N.ltb_lt in Ha. rewrite Ha.
    destruct Hs as [->|(y & r & -> & Hy)]; cbn [to_u64_t2]; [reflexivity|now rewrite Hy].
  - rewrite all_digits_cons in Hd. apply andb_prop in Hd as [Hx Hd].
    cbn [app to_u64_t2]. rewrite Hx.
    pose proof (proj1 (is_digit_range x) Hx) as Hr.
    rewrite overflow_mul_add_spec by lia.
    cbn [dec_acc fold_left]. fold (dec_acc ds (acc * 10 + (x - 48))).
    destruct (acc * 10 + (x - 48) <? U64_LIM) eqn:E.
    + apply N.ltb_lt in E. now apply IH.
    + apply N.ltb_ge in E. pose proof (dec_acc_ge ds (acc * 10 + (x - 48))).
      destruct (dec_acc ds (acc * 10 + (x - 48)) <? U64_LIM) eqn:E2; [apply N.ltb_lt in E2; lia|reflexivity].
Qed.

Lemma lead_val_lt c : lead_val c < U64_LIM.
Proof.
  unfold lead_val. destruct (is_digit c) eqn:E; [|reflexivity].
  apply is_digit_range in E. unfold U64_LIM. lia.
Qed.

(* ---------- to_u64 ---------- *)
(* exact characterisation, including the quirk "+" -> 0 (ds may be empty after '+') *)
Theorem to_u64_ok d v :
  to_u64 d = Ok v <->
  exists c ds, d = c :: ds /\ (is_digit c = true \/ c = 43) /\ all_digits ds = true /\
               v = dec_acc ds (lead_val c) /\ v < U64_LIM.
Proof.
  split.
  - destruct d as [|c data]; [discriminate|]. unfold to_u64.
    destruct (is_digit c || (c =? 43)) eqn:Ec; [|discriminate].
    intros H. destruct (span_digits data) as (ds & rest & -> & Hd & Hs).
    fold (lead_val c) in H.
    rewrite to_u64_t2_digits in H by (auto using lead_val_lt).
    destruct (dec_acc ds (lead_val c) <? U64_LIM) eqn:El; [|discriminate].
    cbn [obind] in H. destruct rest as [|y r]; [|discriminate].
    injection H as <-. exists c, ds. rewrite app_nil_r. repeat split; auto.
    + apply orb_prop in Ec as [Ec|Ec]; [now left|right; now apply N.eqb_eq].
    + now apply N.ltb_lt.
  - intros (c & ds & -> & Hc & Hd & -> & Hv). unfold to_u64.
    assert (Ec : is_digit c || (c =? 43) = true).
    { destruct Hc as [Hc| ->]; [now rewrite Hc|apply orb_true_r]. }
    rewrite Ec. fold (lead_val c).
    rewrite <- (app_nil_r ds) at 1.
    rewrite to_u64_t2_digits by (auto using lead_val_lt; now left).
    apply N.ltb_lt in Hv. now rewrite Hv.
Qed.

(* error classes: overflow iff the shape is right but the value does not fit *)
Theorem to_u64_overflow c ds :
  (is_digit c = true \/ c = 43) -> all_digits ds = true -> U64_LIM <= dec_acc ds (lead_val c) ->
  to_u64 (c :: ds) = Err E_Overflow.
Proof.
  intros Hc Hd Hv. unfold to_u64.
  assert (Ec : is_digit c || (c =? 43) = true).
  { destruct Hc as [Hc| ->]; [now rewrite Hc|apply orb_true_r]. }
  rewrite Ec. fold (lead_val c). rewrite <- (app_nil_r ds) at 1.
  rewrite to_u64_t2_digits by (auto using lead_val_lt; now left).
  apply N.ltb_ge in Hv. now rewrite Hv.
Qed.

(* value of a digit string = dec *)
Lemma dec_cons_digit c ds : is_digit c = true -> dec_acc ds (lead_val c) = dec (c :: ds).
Proof. intros H. unfold lead_val, dec. rewrite H. reflexivity. Qed.

Lemma dec_plus ds : dec_acc ds (lead_val 43) = dec ds.
Proof. reflexivity. Qed.

(* every rendering [+]digits (leading zeros included) of a value < 2^64 converts to it *)
Theorem to_u64_complete ds :
  all_digits ds = true -> dec ds < U64_LIM ->
  (ds <> [] -> to_u64 ds = Ok (dec ds)) /\ to_u64 (43 :: ds) = Ok (dec ds).
Proof.
  intros Hd Hv. split.
  - intros Hne. destruct ds as [|c ds]; [congruence|].
    rewrite all_digits_cons in Hd. apply andb_prop in Hd as [Hc Hd].
    apply to_u64_ok. exists c, ds. repeat split; auto; now rewrite dec_cons_digit.
  - apply to_u64_ok. exists 43, ds. repeat split; auto.
Qed.

(* canonical decimal rendering: every value has one, so the completeness theorem is about all of 0..=u64::MAX *)
Fixpoint render_fuel (fuel : nat) (v : N) (acc : bytes) : bytes :=
  match fuel with
  | O => acc
  | S f => let acc' := (48 + v mod 10) :: acc in
           if v / 10 =? 0 then acc' else render_fuel f (v / 10) acc'
  end.
Definition render_dec (v : N) : bytes := render_fuel (S (N.to_nat (N.log2 v))) v [].

Lemma render_fuel_spec fuel : forall v acc,
  all_digits acc = true -> v < 2 ^ N.of_nat fuel -> (fuel > 0)%nat ->
  all_digits (render_fuel fuel v acc) = true /\
  render_fuel fuel v acc <> [] /\
  dec (render_fuel fuel v acc) = v * 10 ^ lenN acc + dec acc.
Proof.
  induction fuel as [|f IH]; intros v acc Ha Hv Hf; [lia|].
  cbn [render_fuel].
  pose proof (N.div_mod' v 10) as Hdm.
  assert (Hm : v mod 10 < 10) by (apply N.mod_lt; discriminate).
  set (q := v / 10) in *. set (m := v mod 10) in *. clearbody q m.
  assert (Hdg : is_digit (48 + m) = true) by (apply is_digit_range; lia).
  assert (Hacc' : all_digits ((48 + m) :: acc) = true) by (now rewrite all_digits_cons, Hdg, Ha).
  assert (Hdec' : dec ((48 + m) :: acc) = m * 10 ^ lenN acc + dec acc).
  { unfold dec at 1. cbn [dec_acc fold_left]. fold (dec_acc acc (0 * 10 + (48 + m - 48))).
    rewrite dec_acc_split. replace (0 * 10 + (48 + m - 48)) with m by lia. reflexivity. }
  destruct (q =? 0) eqn:E.
  - apply N.eqb_eq in E. repeat split; [exact Hacc'|discriminate|].
    rewrite Hdec'. replace m with v by lia. reflexivity.
  - apply N.eqb_neq in E.
    assert (Hf' : (f > 0)%nat).
    { destruct f; [|lia]. cbn in Hv. lia. }
    assert (Hv' : q < 2 ^ N.of_nat f).
    { rewrite Nat2N.inj_succ, N.pow_succ_r' in Hv. lia. }
    destruct (IH q _ Hacc' Hv' Hf') as (H1 & H2 & H3).
    repeat split; auto. rewrite H3, Hdec'.
    unfold lenN. cbn [length]. rewrite Nat2N.inj_succ, N.pow_succ_r'.
    nia.
Qed.

Theorem render_dec_spec v :
  all_digits (render_dec v) = true /\ render_dec v <> [] /\ dec (render_dec v) = v.
Proof.
  unfold render_dec.
  destruct (render_fuel_spec (S (N.to_nat (N.log2 v))) v []) as (H1 & H2 & H3); [reflexivity| |lia|].
  - rewrite Nat2N.inj_succ, N2Nat.id. destruct (N.eq_dec v 0) as [->|Hn]; [reflexivity|].
    apply N.log2_spec. lia.
  - repeat split; auto. rewrite H3. cbn. lia.
Qed.

(* leading zeros do not change the value *)
Lemma dec_leading_zeros n ds : dec (repeat 48 n ++ ds) = dec ds.
Proof.
  unfold dec. rewrite dec_acc_app. f_equal.
  induction n as [|n IH]; [reflexivity|]. cbn [repeat dec_acc fold_left]. exact IH.
Qed.

Lemma all_digits_app a b : all_digits (a ++ b) = all_digits a && all_digits b.
Proof. apply forallb_app. Qed.

Lemma all_digits_zeros n : all_digits (repeat 48 n) = true.
Proof. induction n; [reflexivity|exact IHn]. Qed.

(* the property's wording: optional '+', any number of leading zeros, then the decimal rendering of v *)
Theorem to_u64_renderings v n :
  v < U64_LIM ->
  to_u64 (repeat 48 n ++ render_dec v) = Ok v /\ to_u64 (43 :: repeat 48 n ++ render_dec v) = Ok v.
Proof.
  intros Hv. destruct (render_dec_spec v) as (H1 & H2 & H3).
  assert (Hd : all_digits (repeat 48 n ++ render_dec v) = true) by (now rewrite all_digits_app, all_digits_zeros, H1).
  assert (Hval : dec (repeat 48 n ++ render_dec v) = v) by (now rewrite dec_leading_zeros).
  destruct (to_u64_complete _ Hd) as [Ha Hb]; [now rewrite Hval|].
  rewrite Hval in *. split; [apply Ha|exact Hb].
  destruct (render_dec v); [congruence|]. destruct n; discriminate.
Qed.

(* ---------- to_i64 ---------- *)
Theorem to_i64_ok d z :
  to_i64 d = Ok z <->
  exists c ds, d = c :: ds /\ (is_digit c = true \/ c = 43 \/ c = 45) /\ all_digits ds = true /\
               dec_acc ds (lead_val c) <= I64_MAX /\
               z = (if (c =? 45)%N then - Z.of_N (dec_acc ds (lead_val c)) else Z.of_N (dec_acc ds (lead_val c)))%Z.
Proof.
  assert (HI : I64_MAX < U64_LIM) by reflexivity.
  split.
  - destruct d as [|c data]; [discriminate|]. unfold to_i64, to_i64_t.
    destruct (is_digit c || (c =? 45) || (c =? 43)) eqn:Ec; [|discriminate].
    intros H. destruct (span_digits data) as (ds & rest & -> & Hd & Hs).
    fold (lead_val c) in H.
    rewrite to_u64_t2_digits in H by (auto using lead_val_lt).
    destruct (dec_acc ds (lead_val c) <? U64_LIM) eqn:El; [|discriminate].
    cbn [obind] in H.
    destruct (dec_acc ds (lead_val c) <=? I64_MAX) eqn:Em; [|discriminate].
    cbn [obind] in H. destruct rest as [|y r]; [|discriminate].
    injection H as <-. exists c, ds. rewrite app_nil_r. repeat split; auto.
    + apply orb_prop in Ec as [Ec|Ec]; [apply orb_prop in Ec as [Ec|Ec]|].
      * now left.
      * right; right. now apply N.eqb_eq.
      * right; left. now apply N.eqb_eq.
    + now apply N.leb_le.
    + destruct (c =? 45); lia.
  - intros (c & ds & -> & Hc & Hd & Hm & ->). unfold to_i64, to_i64_t.
    assert (Ec : is_digit c || (c =? 45) || (c =? 43) = true).
    { destruct Hc as [Hc|[->| ->]]; [now rewrite Hc|reflexivity|reflexivity]. }
    rewrite Ec. fold (lead_val c).
    rewrite <- (app_nil_r ds) at 1.
    rewrite to_u64_t2_digits by (auto using lead_val_lt; now left).
    assert (Hl : dec_acc ds (lead_val c) <? U64_LIM = true) by (apply N.ltb_lt; lia).
    rewrite Hl. cbn [obind]. apply N.leb_le in Hm. rewrite Hm. cbn [obind].
    f_equal. destruct (c =? 45); lia.
Qed.

(* range of accepted values: i64::MIN is NOT reachable *)
Corollary to_i64_range d z : to_i64 d = Ok z -> (- Z.of_N I64_MAX <= z <= Z.of_N I64_MAX)%Z.
Proof.
  intros H. apply to_i64_ok in H as (c & ds & _ & _ & _ & Hm & ->). destruct (c =? 45); lia.
Qed.

(* "-9223372036854775808" *)
Example to_i64_min_refused :
  to_i64 [45; 57; 50; 50; 51; 51; 55; 50; 48; 51; 54; 56; 53; 52; 55; 55; 53; 56; 48; 56] = Err E_Overflow.
Proof. vm_compute. reflexivity. Qed.

Theorem to_i64_complete ds :
  all_digits ds = true -> dec ds <= I64_MAX ->
  (ds <> [] -> to_i64 ds = Ok (Z.of_N (dec ds))) /\
  to_i64 (43 :: ds) = Ok (Z.of_N (dec ds)) /\
  to_i64 (45 :: ds) = Ok (- Z.of_N (dec ds))%Z.
Proof.
  intros Hd Hv. repeat split.
  - intros Hne. destruct ds as [|c ds]; [congruence|].
    rewrite all_digits_cons in Hd. apply andb_prop in Hd as [Hc Hd].
    apply to_i64_ok. exists c, ds.
    assert (c =? 45 = false) as E45 by (apply N.eqb_neq; apply is_digit_range in Hc; lia).
    rewrite E45, (dec_cons_digit c ds Hc). repeat split; auto.
  - apply to_i64_ok. exists 43, ds. repeat split; auto.
  - apply to_i64_ok. exists 45, ds. repeat split; auto.
Qed.

Theorem to_i64_renderings v n :
  v <= I64_MAX ->
  to_i64 (repeat 48 n ++ render_dec v) = Ok (Z.of_N v) /\
  to_i64 (43 :: repeat 48 n ++ render_dec v) = Ok (Z.of_N v) /\
  to_i64 (45 :: repeat 48 n ++ render_dec v) = Ok (- Z.of_N v)%Z.
Proof.
  intros Hv. destruct (render_dec_spec v) as (H1 & H2 & H3).
  assert (Hd : all_digits (repeat 48 n ++ render_dec v) = true) by (now rewrite all_digits_app, all_digits_zeros, H1).
  assert (Hval : dec (repeat 48 n ++ render_dec v) = v) by (now rewrite dec_leading_zeros).
  destruct (to_i64_complete _ Hd) as (Ha & Hb & Hc); [now rewrite Hval|].
  rewrite Hval in *. repeat split; auto. apply Ha.
  destruct (render_dec v); [congruence|]. destruct n; discriminate.
Qed.

(* ---------- foreign bytes ---------- *)
Lemma all_digits_nth ds i x : all_digits ds = true -> nth_error ds i = Some x -> is_digit x = true.
Proof.
  intros H Hn. unfold all_digits in H. rewrite forallb_forall in H. apply H. eapply nth_error_In; eauto.
Qed.

Theorem to_u64_foreign_refused d v :
  to_u64 d = Ok v -> forall i x, nth_error d i = Some x -> is_digit x = true \/ (i = 0%nat /\ x = 43).
Proof.
  intros H i x Hn. apply to_u64_ok in H as (c & ds & -> & Hc & Hd & _).
  destruct i as [|i]; cbn in Hn.
  - injection Hn as <-. destruct Hc; auto.
  - left. eapply all_digits_nth; eauto.
Qed.

Theorem to_i64_foreign_refused d z :
  to_i64 d = Ok z -> forall i x, nth_error d i = Some x -> is_digit x = true \/ (i = 0%nat /\ (x = 43 \/ x = 45)).
Proof.
  intros H i x Hn. apply to_i64_ok in H as (c & ds & -> & Hc & Hd & _).
  destruct i as [|i]; cbn in Hn.
  - injection Hn as <-. destruct Hc as [|[|]]; auto.
  - left. eapply all_digits_nth; eauto.
Qed.

(* ---------- to_bool ---------- *)
Ltac bust H :=
  repeat match type of H with
         | context [match ?x with _ => _ end] => is_var x; destruct x; cbn in H; try discriminate H
         end.

Theorem to_bool_exact d b :
  to_bool d = Ok b <-> (d = [121; 101; 115] /\ b = true) \/ (d = [110; 111] /\ b = false).
Proof.
  split.
  - intros H. unfold to_bool in H. bust H; injection H as <-; auto.
  - intros [[-> ->]|[-> ->]]; reflexivity.
Qed.
