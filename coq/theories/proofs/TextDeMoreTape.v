(* C02, TAPE path beyond the core grammar: TextDeTape.deser_tape against TextDeSpec2.spec_value2 over
   every construct of TextDoc (object tails / "remainder", arrays where a map is asked for, headers,
   parameter blocks; key-value arrays where ignored).  Generic in the flag [tp] of the specification:
   what holds for the common part (tp = false) holds for the tape path too. *)
From JV Require Import Bytes Utf8 Scalar TextTok TextDoc SerdeShape TextDeCommon TextDeTape TextDeSpec TextDeSpec2.
From JV.proofs Require Import TextParseProofs TextDeTapeProofs.
Require Import Lia.
Open Scope nat_scope.

(* ------------------------------------------------------------------ heads and lengths *)
Lemma vlen_object2 fs tl :
  vlen (VObject fs tl) = 2 + fslen false fs + match tl with VNil => 0 | _ => 1 + vslen tl end.
Proof.
  unfold vlen. cbn [flat_value length]. rewrite !app_length. cbn [length]. rewrite flat_fields_len.
  destruct tl; cbn [length]; rewrite ?flat_values_len; lia.
Qed.
Lemma vlen_arraykv items kvs : vlen (VArrayKv items kvs) = 3 + vslen items + fslen true kvs.
Proof.
  unfold vlen. cbn [flat_value length]. rewrite !app_length. cbn [length]. rewrite !app_length. cbn [length].
  rewrite flat_values_len, flat_fields_len. lia.
Qed.
Lemma vlen_header name v : vlen (VHeader name v) = 1 + vlen v.
Proof. unfold vlen at 1. cbn [flat_value length]. now rewrite flat_value_len. Qed.

Lemma ext_head off v : is_header v = false ->
  exists x r, flat_value off v = x :: r /\
    (forall o, x <> TOperator o) /\ x <> TMixedContainer /\ (forall s, x <> THeader s) /\
    match x with
    | TArray e _ | TObject e _ => S e = off + vlen v
    | _ => vlen v = 1
    end.
Proof.
  destruct v as [k s | fs tl | items | items kvs | name v']; try discriminate; intros _.
  - exists (scalar_tok k s), []. unfold vlen. cbn. destruct k; cbn; repeat split; congruence.
  - rewrite vlen_object2. cbn [flat_value]. eexists _, _. split; [reflexivity|]. repeat split; try congruence.
    rewrite flat_fields_len. destruct tl; cbn [length]; rewrite ?flat_values_len; lia.
  - rewrite vlen_array. cbn [flat_value]. eexists _, _. split; [reflexivity|]. repeat split; try congruence.
    rewrite flat_values_len. lia.
  - rewrite vlen_arraykv. cbn [flat_value]. eexists _, _. split; [reflexivity|]. repeat split; try congruence.
    rewrite flat_values_len, flat_fields_len. lia.
Qed.

Lemma container_head off v : is_container v = true ->
  exists x r, flat_value off v = x :: r /\
    ((exists e m, x = TObject e m /\ S e = off + vlen v) \/ (exists e m, x = TArray e m /\ S e = off + vlen v)).
Proof.
  intros Hc. assert (Hh : is_header v = false) by (destruct v; try discriminate; reflexivity).
  destruct (ext_head off v Hh) as (x & r & E & _ & _ & _ & Hx). exists x, r. split; [exact E|].
  destruct v as [k s | fs tl | items | items kvs | name v']; try discriminate; cbn [flat_value] in E;
    injection E as <- _; [left|right|right]; eexists _, _; split; try reflexivity; exact Hx.
Qed.

Lemma any_head off v : exists x r, flat_value off v = x :: r /\ (forall o, x <> TOperator o).
Proof.
  destruct v as [k s | fs tl | items | items kvs | name v']; cbn [flat_value]; eexists _, _; (split; [reflexivity|]);
    try congruence. destruct k; cbn; congruence.
Qed.

Lemma vlen_pos2 v : 1 <= vlen v.
Proof. destruct (any_head 0 v) as (x & r & E & _). unfold vlen. rewrite E. cbn. lia. Qed.

Lemma next_idx_ext t off v : ext_value v = true -> at_ t off (flat_value off v) ->
  next_idx t off = Ok (off + vlen v).
Proof.
  intros He Ha. destruct (is_header v) eqn:Hh.
  - destruct v as [| | | | name v']; try discriminate. cbn [ext_value] in He. apply andb_prop in He as [Hc _].
    rewrite vlen_header. cbn [flat_value] in Ha.
    destruct (container_head (S off) v' Hc) as (x & r & E & Hx). rewrite E in Ha.
    destruct (at_skipn _ _ _ Ha) as (post & Hs). unfold next_idx. rewrite Hs. cbn [app next_idx_l next_idx_header_l].
    destruct Hx as [(e & m & -> & Hx) | (e & m & -> & Hx)]; rewrite Hx; f_equal; lia.
  - destruct (ext_head off v Hh) as (x & r & E & Hop & Hm & Hhd & Hx).
    rewrite E in Ha. destruct (at_skipn _ _ _ Ha) as (post & Hs).
    unfold next_idx. rewrite Hs. cbn [app next_idx_l].
    destruct x; try (rewrite Hx; f_equal; lia); try (f_equal; lia).
    + now destruct (Hop o).
    + now destruct (Hhd s).
Qed.

Lemma next_idx_values_ext t off v : is_header v = false -> at_ t off (flat_value off v) ->
  next_idx_values t off = Ok (off + vlen v).
Proof.
  intros Hh Ha. destruct (ext_head off v Hh) as (x & r & E & Hop & Hm & Hhd & Hx).
  rewrite E in Ha. unfold next_idx_values. rewrite (tget_at _ _ _ _ Ha). cbn [obind].
  destruct x; try (rewrite Hx; f_equal; lia); try (f_equal; lia).
Qed.

(* ------------------------------------------------------------------ fields of every kind *)
Definition fkey (f : TextDoc.field) : bytes :=
  match f with Field _ key _ _ => key | ParamV name _ _ | ParamO name _ _ => name end.
Definition fopo (f : TextDoc.field) : option operator :=
  match f with Field _ _ op _ => fop op | _ => None end.
Definition fvoff (f : TextDoc.field) : nat :=
  match f with Field _ _ op _ => S (length (op_toks false op)) | _ => 1 end.
Definition flen (f : TextDoc.field) : nat := length (flat_field false 0 f).
Definition fopk (f : TextDoc.field) : operator :=
  match f with Field _ _ op _ => op_or_equal op | _ => Equal end.
Definition is_param (f : TextDoc.field) : bool := match f with Field _ _ _ _ => false | _ => true end.

Lemma flat_field_len a f : length (flat_field false a f) = flen f.
Proof. apply (proj1 (proj2 flat_len_indep)). Qed.

Lemma flen_field k key op v : flen (Field k key op v) = S (length (op_toks false op)) + vlen v.
Proof. unfold flen. cbn [flat_field length]. rewrite app_length, flat_value_len. lia. Qed.
Lemma flen_paramo name u fs : flen (ParamO name u fs) = 1 + vlen (VObject fs VNil).
Proof.
  unfold flen. cbn [flat_field length]. rewrite app_length. cbn [length]. rewrite flat_fields_len, vlen_object2. lia.
Qed.
Lemma fslen_cons2 f fs : fslen false (FCons f fs) = flen f + fslen false fs.
Proof. unfold fslen at 1. cbn [flat_fields]. now rewrite app_length, flat_field_len, flat_fields_len. Qed.

Lemma paramo_flat off name u fs :
  flat_field false off (ParamO name u fs) = param_tok u name :: flat_value (S off) (VObject fs VNil).
Proof. cbn [flat_field flat_value app length values_nonempty]. now rewrite Nat.add_0_r. Qed.

Lemma fn_eq (key : bytes) (op : option operator) a b a' b' : a = a' -> b = b' ->
  @Ok (option (bytes * option operator * nat * nat)) (Some (key, op, a, b)) = Ok (Some (key, op, a', b')).
Proof. intros -> ->; reflexivity. Qed.

Lemma fields_next_ext t ti en f rest :
  ext_field f = true -> at_ t ti (flat_field false ti f ++ rest) -> ti < en ->
  fields_next t ti en = Ok (Some (fkey f, fopo f, ti + fvoff f, ti + flen f)).
Proof.
  intros He Ha Hlt. unfold fields_next.
  replace (en <=? ti) with false by (symmetry; apply Nat.leb_gt; lia).
  destruct f as [k key op v | name u s | name u fs].
  - cbn [ext_field] in He. cbn [flat_field] in Ha. rewrite <- app_comm_cons in Ha.
    rewrite (tget_at _ _ _ _ Ha).
    apply at_cons in Ha. rewrite <- app_assoc in Ha.
    assert (Hv : at_ t (S ti + length (op_toks false op)) (flat_value (S ti + length (op_toks false op)) v)).
    { apply at_app_r in Ha. now apply at_app_l in Ha. }
    pose proof (next_idx_ext _ _ _ He Hv) as Hn.
    destruct (any_head (S ti + length (op_toks false op)) v) as (x & r & E & Hop).
    assert (Hk : forall (P : bytes -> outcome (option (bytes * option operator * nat * nat))),
              match scalar_tok k key with
              | TQuoted s | TUnquoted s | TParameter s | TUndefinedParameter s => P s
              | _ => Ok None end = P key) by (intros P; destruct k; reflexivity).
    cbn [obind]. rewrite Hk. clear Hk. rewrite flen_field. cbn [fkey fopo fvoff].
    destruct op as [[]|]; cbn [op_toks app length fop] in *;
      try (rewrite (tget_at _ _ _ _ Ha); cbn [obind]; replace (ti + 2) with (S ti + 1) by lia; rewrite Hn; cbn [obind];
           apply fn_eq; lia).
    + rewrite Nat.add_0_r in *. rewrite E in Ha. rewrite (tget_at _ _ _ _ Ha). cbn [obind].
      destruct x; try (rewrite Hn; cbn [obind]; apply fn_eq; lia). now destruct (Hop o).
    + rewrite Nat.add_0_r in *. rewrite E in Ha. rewrite (tget_at _ _ _ _ Ha). cbn [obind].
      destruct x; try (rewrite Hn; cbn [obind]; apply fn_eq; lia). now destruct (Hop o).
  - cbn [flat_field app] in Ha. rewrite (tget_at _ _ _ _ Ha). apply at_cons in Ha.
    rewrite (tget_at _ _ _ _ Ha).
    assert (Hn : next_idx t (S ti) = Ok (S (S ti))).
    { destruct (at_skipn _ _ _ Ha) as (post & Hs). unfold next_idx. rewrite Hs. reflexivity. }
    unfold flen. cbn [fkey fopo fvoff flat_field length].
    destruct u; cbn [param_tok obind]; rewrite Hn; cbn [obind]; apply fn_eq; lia.
  - cbn [ext_field] in He. rewrite paramo_flat in Ha. rewrite <- app_comm_cons in Ha.
    rewrite (tget_at _ _ _ _ Ha). apply at_cons in Ha.
    assert (Hv : at_ t (S ti) (flat_value (S ti) (VObject fs VNil))) by now apply at_app_l in Ha.
    assert (Hn : next_idx t (S ti) = Ok (S ti + vlen (VObject fs VNil))).
    { apply next_idx_ext; [|exact Hv]. cbn [ext_value ext_items]. now rewrite He. }
    cbn [flat_value] in Ha. rewrite <- app_comm_cons in Ha. rewrite (tget_at _ _ _ _ Ha).
    rewrite flen_paramo. cbn [fkey fopo fvoff].
    destruct u; cbn [param_tok obind]; rewrite Hn; cbn [obind]; apply fn_eq; lia.
Qed.

(* ------------------------------------------------------------------ counting the values of a remainder *)
Fixpoint nvals (vs : values) : nat := match vs with VNil => 0 | VCons _ vs' => S (nvals vs') end.

Lemma values_len_items t : forall vs, ext_items vs = true -> forall ti fuel,
  at_ t ti (flat_values ti vs) -> nvals vs < fuel ->
  values_len t fuel ti (ti + vslen vs) = Ok (nvals vs).
Proof.
  induction vs as [|v vs IH]; intros He ti fuel Ha Hf; (destruct fuel as [|f]; [lia|]); cbn [values_len nvals].
  - unfold vslen. cbn [flat_values length]. rewrite Nat.add_0_r, Nat.ltb_irrefl. reflexivity.
  - cbn [ext_items] in He. apply andb_prop in He as [He He3]. apply andb_prop in He as [He1 He2].
    apply Bool.negb_true_iff in He1. rewrite vslen_cons. pose proof (vlen_pos2 v).
    replace (ti <? ti + (vlen v + vslen vs)) with true by (symmetry; apply Nat.ltb_lt; lia).
    cbn [flat_values] in Ha.
    rewrite (next_idx_values_ext t ti v He1) by now apply at_app_l in Ha. cbn [obind].
    replace (ti + (vlen v + vslen vs)) with (ti + vlen v + vslen vs) by lia.
    rewrite IH; [reflexivity | exact He3 | | cbn [nvals] in Hf; lia].
    apply at_app_r in Ha. now rewrite flat_value_len in Ha.
Qed.

Lemma nvals_le vs : nvals vs <= vslen vs.
Proof. induction vs as [|v vs IH]; [cbn; lia|]. rewrite vslen_cons. pose proof (vlen_pos2 v). cbn [nvals]. lia. Qed.

(* ------------------------------------------------------------------ fuel *)
Fixpoint cv2 (v : value) : nat :=
  match v with
  | VScalar _ _ => 1
  | VObject fs tl => 1 + cfs2 fs + cvs2 tl
  | VArray items => 1 + cvs2 items
  | VArrayKv _ _ => 1
  | VHeader _ v' => 2 + cv2 v'
  end
with cf2 (f : TextDoc.field) : nat :=
  match f with Field _ _ _ v => cv2 v | ParamV _ _ _ => 1 | ParamO _ _ fs => 2 + cfs2 fs end
with cfs2 (fs : fields) : nat := match fs with FNil => 1 | FCons f fs' => 1 + cf2 f + cfs2 fs' end
with cvs2 (vs : values) : nat := match vs with VNil => 1 | VCons v vs' => 1 + cv2 v + cvs2 vs' end.

Definition tsize (ss : list shape) : nat := fold_right (fun s n => shape_size s + n) 0 ss.
Lemma shape_size_tup ss : shape_size (ShTup ss) = S (tsize ss).
Proof. reflexivity. Qed.

Lemma cvs2_pos vs : 1 <= cvs2 vs.
Proof. destruct vs; cbn [cvs2]; lia. Qed.

Definition arr_core (si : shape -> outcome (list dval)) (st : list shape -> outcome (list dval)) (c : shape) : outcome dval :=
  match c with
  | ShIgn => Ok DIgn
  | ShSeq s => omap DSeq (si s)
  | ShTup ss => omap DSeq (st ss)
  | _ => Err EC_UNFIT
  end.
Lemma arr_into_eq si st sh : arr_into si st sh = rewrap (fst (unwrap sh)) None (arr_core si st (snd (unwrap sh))).
Proof. unfold arr_into. destruct (unwrap sh). reflexivity. Qed.

Local Opaque tget.

Section Main2.
  Variable tp : bool.
  Variable decode : bytes -> cow.
  Variable pf : bytes -> outcome N.
  Variable F : fops.
  Variable t : ttape.

  Notation de := (TextDeTape.de decode pf F t).
  Notation twalk := (TextDeTape.twalk decode pf F t).
  Notation seq_all := (TextDeTape.seq_all decode pf F t).
  Notation seq_tup := (TextDeTape.seq_tup decode pf F t).
  Notation spec_v2 := (TextDeSpec2.spec_v2 tp decode pf F).
  Notation spec_items2 := (TextDeSpec2.spec_items2 tp decode pf F).
  Notation spec_tuple2 := (TextDeSpec2.spec_tuple2 tp decode pf F).
  Notation spec_fields2 := (TextDeSpec2.spec_fields2 tp decode pf F).
  Notation spec_scalar := (TextDeSpec.spec_scalar decode pf F).
  Notation hname := (TextDeSpec2.hname decode pf F).
  Notation hname_core := (TextDeSpec2.hname_core decode pf F).
  Notation trec := (TextDeTapeProofs.trec decode pf F t).
  Notation trec_op := (TextDeTapeProofs.trec_op decode pf t).

  Definition tail_step (tl : values) (m : wmode) (a : acc) : outcome acc :=
    match tl with
    | VNil => Ok a
    | VCons _ _ => if tp then rem_entry (arr_into (spec_items2 tl) (spec_tuple2 tl)) m a else Err EC_UNFIT
    end.

  Definition spec_core2 (v : value) (core : shape) : outcome dval :=
    match core with
    | ShIgn => Ok DIgn
    | _ =>
      match v with
      | VScalar _ raw => spec_scalar core raw
      | VArray items =>
          match core with
          | ShSeq s => omap DSeq (spec_items2 items s)
          | ShTup ss => omap DSeq (spec_tuple2 items ss)
          | _ =>
            match wmode_core core with
            | Some m => do a <- tail_step items m (acc0 m); finish m a
            | None => Err EC_UNFIT
            end
          end
      | VObject fs tl =>
          match wmode_core core with
          | Some m => do a <- spec_fields2 fs m (acc0 m); do a' <- tail_step tl m a; finish m a'
          | None => Err EC_UNFIT
          end
      | VHeader name v' =>
          match core with
          | ShSeq s =>
              if tp then do x <- hname s name; do y <- spec_v2 v' s None; Ok (DSeq [x; y])
              else Err EC_UNFIT
          | ShTup (s1 :: s2 :: rest) =>
              if tp then
                do x <- hname s1 name; do y <- spec_v2 v' s2 None;
                match rest with [] => Ok (DSeq [x; y]) | _ :: _ => Err EC_DE end
              else Err EC_UNFIT
          | _ => hname_core core name
          end
      | VArrayKv _ _ => Err EC_UNFIT
      end
    end.

  Lemma tp_case {A} (X : outcome A) :
    (if tp then X else Err EC_UNFIT) <> Err EC_UNFIT -> (if tp then X else Err EC_UNFIT) = X.
  Proof. destruct tp; [reflexivity|]. intros H. now destruct H. Qed.

  (* [a_c02] the body of spec_v2 with the recursive calls folded: spec_v2_eq goes through it so that its proof term
     stays small (the former proof, by case analysis under the unfolded mutual fixpoint, made every
     `Print Assumptions` of a theorem that depends on it take ~25 s) *)
  Definition spec_body2 (v : value) (core : shape) : outcome dval :=
    match core with
    | ShIgn => Ok DIgn
    | _ =>
      match v with
      | VScalar _ raw => spec_scalar core raw
      | VArray items =>
          match core with
          | ShSeq s => omap DSeq (spec_items2 items s)
          | ShTup ss => omap DSeq (spec_tuple2 items ss)
          | _ =>
            match wmode_core core with
            | Some m =>
                match items with
                | VNil => finish m (acc0 m)
                | VCons _ _ =>
                    if tp then
                      do a <- rem_entry (arr_into (spec_items2 items) (spec_tuple2 items)) m (acc0 m);
                      finish m a
                    else Err EC_UNFIT
                end
            | None => Err EC_UNFIT
            end
          end
      | VObject fs tl =>
          match wmode_core core with
          | Some m =>
              do a <- spec_fields2 fs m (acc0 m);
              do a' <- match tl with
                       | VNil => Ok a
                       | VCons _ _ =>
                           if tp then rem_entry (arr_into (spec_items2 tl) (spec_tuple2 tl)) m a
                           else Err EC_UNFIT
                       end;
              finish m a'
          | None => Err EC_UNFIT
          end
      | VHeader name v' =>
          match core with
          | ShSeq s =>
              if tp then do x <- hname s name; do y <- spec_v2 v' s None; Ok (DSeq [x; y])
              else Err EC_UNFIT
          | ShTup (s1 :: s2 :: rest) =>
              if tp then
                do x <- hname s1 name; do y <- spec_v2 v' s2 None;
                match rest with [] => Ok (DSeq [x; y]) | _ :: _ => Err EC_DE end
              else Err EC_UNFIT
          | _ => hname_core core name
          end
      | VArrayKv _ _ => Err EC_UNFIT
      end
    end.

  Lemma spec_v2_unfold v sh o :
    spec_v2 v sh o = let (w, core) := unwrap sh in rewrap w o (spec_body2 v core).
  Proof. destruct v; reflexivity. Qed.

  Lemma spec_body2_core v c : spec_body2 v c = spec_core2 v c.
  Proof.
    destruct v as [k s | fs tl | items | items kvs | name v']; unfold spec_body2, spec_core2; try reflexivity.
    destruct c; try reflexivity; (destruct items; [reflexivity|]); unfold tail_step; destruct tp; reflexivity.
  Qed.

  Lemma spec_v2_eq v sh o : spec_v2 v sh o = rewrap (fst (unwrap sh)) o (spec_core2 v (snd (unwrap sh))).
  Proof. rewrite spec_v2_unfold. destruct (unwrap sh) as [w c]. cbn [fst snd]. now rewrite spec_body2_core. Qed.

  Definition fval (f : TextDoc.field) (sh' : shape) : outcome dval :=
    match f with
    | Field _ _ op v => spec_v2 v sh' (Some (op_or_equal op))
    | ParamV _ _ s => spec_sc2 decode pf F s sh' (Some Equal)
    | ParamO _ _ pfs => obj_into (spec_fields2 pfs) sh'
    end.

  Lemma spec_fields2_cons f fs m a :
    spec_fields2 (FCons f fs) m a =
      do r <- (if is_param f && negb tp then Err EC_UNFIT
               else entry (fun sh' (_ _ : unit) => omap (fun d => (d, tt)) (fval f sh')) no_op m a
                          (cow_bytes (decode (fkey f))) (is_ok (to_u64 (fkey f))) tt tt);
      spec_fields2 fs m (fst r).
  Proof. destruct f; cbn [TextDeSpec2.spec_fields2 is_param andb fval fkey]; try reflexivity; destruct tp; reflexivity. Qed.

  Lemma spec_items2_cons v vs s :
    spec_items2 (VCons v vs) s = do x <- spec_v2 v s None; do r <- spec_items2 vs s; Ok (x :: r).
  Proof. reflexivity. Qed.
  Lemma spec_tuple2_cons v vs ss :
    spec_tuple2 (VCons v vs) ss =
      match ss with
      | [] => Err EC_UNFIT
      | s :: ss' => do x <- spec_v2 v s None; do r <- spec_tuple2 vs ss'; Ok (x :: r)
      end.
  Proof. reflexivity. Qed.

  (* ---------------------------------------------------------------- the statements *)
  Definition full_v2 (v : value) : Prop :=
    forall off, at_ t off (flat_value off v) -> forall sh o fuel,
      cv2 v + shape_size sh <= fuel -> spec_v2 v sh o <> Err EC_UNFIT -> de fuel sh (kind o off) = spec_v2 v sh o.
  Definition Pv2 (v : value) : Prop := ext_value v = true -> full_v2 v.
  Definition Pf2 (f : TextDoc.field) : Prop :=
    ext_field f = true -> forall ti, at_ t ti (flat_field false ti f) -> forall sh' fuel,
      cf2 f + shape_size sh' <= fuel -> fval f sh' <> Err EC_UNFIT ->
      de fuel sh' (KOpVal (fopk f) (ti + fvoff f)) = fval f sh'.
  (* continuation style: [K] = what the loop does once the fields are exhausted *)
  Definition Pfs2 (fs : fields) : Prop :=
    ext_fields fs = true -> forall ti en, at_ t ti (flat_fields false ti fs) -> ti + fslen false fs <= en ->
    forall m (K : acc -> outcome acc) B, m_core m = true ->
    (forall a fuel, B + wm_size m <= fuel -> K a <> Err EC_UNFIT -> twalk fuel m a (ti + fslen false fs) en = K a) ->
    forall a fuel, cfs2 fs + B + wm_size m <= fuel ->
    (do a' <- spec_fields2 fs m a; K a') <> Err EC_UNFIT ->
    twalk fuel m a ti en = (do a' <- spec_fields2 fs m a; K a').
  Definition seq_ok (vs : values) (ti en : nat) : Prop :=
    (forall s fuel, cvs2 vs + shape_size s <= fuel -> spec_items2 vs s <> Err EC_UNFIT ->
       seq_all fuel s ti en = spec_items2 vs s) /\
    (forall ss fuel, cvs2 vs + tsize ss <= fuel -> spec_tuple2 vs ss <> Err EC_UNFIT ->
       seq_tup fuel ss ti en = spec_tuple2 vs ss).
  Definition Pvs2 (vs : values) : Prop :=
    ext_items vs = true -> forall ti en, at_ t ti (flat_values ti vs) -> en = ti + vslen vs -> seq_ok vs ti en.

  Lemma wrap_core2 v B :
    (forall off, at_ t off (flat_value off v) -> forall c o fuel, is_wrapper c = false -> B + shape_size c <= fuel ->
       spec_core2 v c <> Err EC_UNFIT -> de fuel c (kind o off) = spec_core2 v c) ->
    B = cv2 v -> full_v2 v.
  Proof.
    intros H -> off Ha sh o fuel Hf Hne. rewrite spec_v2_eq in *.
    apply (de_wrappers decode pf F t off (spec_core2 v) (cv2 v)); auto.
  Qed.

  (* ---------------------------------------------------------------- a remainder array *)
  Lemma de_karr_wrappers rs re (sc : shape -> outcome dval) B :
    (forall c fuel, is_wrapper c = false -> B + shape_size c <= fuel -> sc c <> Err EC_UNFIT ->
       de fuel c (KArr rs re) = sc c) ->
    forall sh fuel, B + shape_size sh <= fuel ->
      rewrap (fst (unwrap sh)) None (sc (snd (unwrap sh))) <> Err EC_UNFIT ->
      de fuel sh (KArr rs re) = rewrap (fst (unwrap sh)) None (sc (snd (unwrap sh))).
  Proof.
    intros Hc. induction sh; intros fuel Hf Hne; try (apply Hc; auto; fail).
    - cbn [unwrap] in *. destruct (unwrap sh) as [w c] eqn:E. cbn [fst snd rewrap] in *.
      destruct fuel as [|f]; [cbn [shape_size] in Hf; lia|]. cbn [shape_size] in Hf.
      cbn [TextDeTape.de thint_of tape_visit obind].
      rewrite IHsh; [reflexivity | lia | now apply omap_unfit in Hne].
    - cbn [unwrap] in *. destruct (unwrap sh) as [w c] eqn:E. cbn [fst snd rewrap] in *. now destruct Hne.
  Qed.

  Lemma de_arr vs ti en : seq_ok vs ti en -> forall sh fuel, cvs2 vs + shape_size sh <= fuel ->
    arr_into (spec_items2 vs) (spec_tuple2 vs) sh <> Err EC_UNFIT ->
    de fuel sh (KArr ti en) = arr_into (spec_items2 vs) (spec_tuple2 vs) sh.
  Proof.
    intros [Hall Htup] sh fuel Hf Hne. rewrite arr_into_eq in *.
    apply (de_karr_wrappers ti en (arr_core (spec_items2 vs) (spec_tuple2 vs)) (cvs2 vs)); auto.
    clear sh fuel Hf Hne. intros c fuel Hw Hf Hne.
    destruct fuel as [|f]; [pose proof (cvs2_pos vs); lia|].
    unfold arr_core in *. destruct c; try discriminate Hw; try (now destruct Hne).
    - rewrite (de_seq decode pf F t f c (KArr ti en) ti en eq_refl).
      rewrite Hall; [reflexivity | cbn [shape_size] in Hf; lia | now apply omap_unfit in Hne].
    - rewrite (de_tup decode pf F t f ss (KArr ti en) ti en eq_refl).
      rewrite Htup; [reflexivity | rewrite shape_size_tup in Hf; lia | now apply omap_unfit in Hne].
    - reflexivity.
  Qed.

  (* the loop's last step when a remainder follows: rs..re holds the values [vs] *)
  Lemma twalk_remainder vs ti rs en m a fuel :
    ext_items vs = true -> vs <> VNil -> seq_ok vs rs en -> at_ t rs (flat_values rs vs) -> en = rs + vslen vs ->
    fields_next t ti en = Ok None -> remainder t ti en = (rs, en) ->
    m_core m = true -> cvs2 vs + wm_size m <= fuel -> tail_step vs m a <> Err EC_UNFIT ->
    twalk fuel m a ti en = tail_step vs m a.
  Proof.
    intros He Hnn Hseq Ha -> Hfn Hrem Hm Hf Hne.
    destruct fuel as [|f]; [pose proof (cvs2_pos vs); lia|].
    rewrite twalk_eq, Hfn. cbn [obind]. rewrite Hrem.
    pose proof (at_len _ _ _ Ha) as Hlen. rewrite flat_values_len in Hlen. pose proof (nvals_le vs) as Hnv.
    rewrite (values_len_items t vs He rs (S (length t)) Ha) by lia. cbn [obind].
    destruct vs as [|v vs']; [congruence|]. cbn [nvals]. unfold tail_step in *.
    pose proof (tp_case _ Hne) as Etp. rewrite Etp in *. clear Etp. unfold rem_entry in *.
    set (into := arr_into (spec_items2 (VCons v vs')) (spec_tuple2 (VCons v vs'))) in *.
    assert (Hent : entry (trec f) trec_op m a STR_REMAINDER false (KArr rs (rs + vslen (VCons v vs'))) tt
                 = entry (fun sh' (_ _ : unit) => omap (fun d => (d, tt)) (into sh')) no_op m a STR_REMAINDER false tt tt).
    { apply entry_ext; auto.
      - intros sh' Hs Hn. unfold TextDeTapeProofs.trec. f_equal. apply omap_unfit in Hn.
        destruct Hs as [-> | Hs].
        + destruct f as [|f']; [pose proof (cvs2_pos (VCons v vs')); pose proof (wm_size_pos m); cbn [cvs2] in *; lia|].
          unfold into. rewrite arr_into_eq. reflexivity.
        + apply (de_arr _ _ _ Hseq); [lia | exact Hn].
      - intros E. rewrite E in Hne. now apply Hne. }
    rewrite Hent. reflexivity.
  Qed.

  (* ---------------------------------------------------------------- scalars *)
  Lemma case_scalar2 k s : Pv2 (VScalar k s).
  Proof.
    intros _. apply (wrap_core2 _ 1); [|reflexivity].
    intros off Ha c o fuel Hw Hf Hne. cbn [flat_value] in Ha.
    destruct fuel as [|f]; [lia|].
    assert (Hs : spec_scalar c s <> Err EC_UNFIT).
    { unfold spec_core2 in Hne. destruct c; try exact Hne; discriminate. }
    rewrite (de_scalar decode pf F t _ _ _ _ _ o f Ha Hw Hs). unfold spec_core2. now destruct c.
  Qed.

  (* ---------------------------------------------------------------- ends of a map loop *)
  Lemma twalk_end en m a f : rem_empty t en -> twalk (S f) m a en en = Ok a.
  Proof.
    intros Hrem. rewrite twalk_eq, fields_next_end by lia. cbn [obind].
    pose proof (remainder_empty _ _ Hrem) as Hr. destruct (remainder t en en) as [rs re]. rewrite Hr. reflexivity.
  Qed.

  Lemma remainder_arr off e e' m' : nth_error t e = Some (TEnd off) -> nth_error t off = Some (TArray e' m') ->
    remainder t e e = (S off, e).
  Proof. intros H1 H2. unfold remainder. rewrite H1, H2. reflexivity. Qed.

  Lemma obind_assoc {A B C} (x : outcome A) (g : A -> outcome B) (h : B -> outcome C) :
    (do b <- (do a <- x; g a); h b) = (do a <- x; do b <- g a; h b).
  Proof. destruct x; reflexivity. Qed.

  Lemma bind_unfit {A B} (x : outcome A) (g : A -> outcome B) :
    (do a <- x; g a) <> Err EC_UNFIT -> x <> Err EC_UNFIT.
  Proof. intros H E. apply H. now rewrite E. Qed.

  (* ---------------------------------------------------------------- objects, with or without a tail *)
  Lemma case_object2 fs tl : Pfs2 fs -> Pvs2 tl -> Pv2 (VObject fs tl).
  Proof.
    intros Hfs Htl He. cbn [ext_value] in He. apply andb_prop in He as [He1 He2].
    apply (wrap_core2 _ (cv2 (VObject fs tl))); [|reflexivity].
    intros off Ha c o fuel Hw Hf Hne.
    destruct fuel as [|f]; [cbn [cv2] in Hf; lia|].
    cbn [flat_value] in Ha.
    set (body := flat_fields false (S off) fs) in *.
    assert (Hbl : length body = fslen false fs) by (subst body; apply flat_fields_len).
    assert (Hbody : at_ t (S off) body) by (apply at_cons in Ha; now apply at_app_l in Ha).
    assert (Hend : exists e mx, nth_error t off = Some (TObject e mx) /\ S off + fslen false fs <= e /\
              tget t off = Ok (TObject e mx) /\
              forall m, m_core m = true -> forall a fuel, cvs2 tl + wm_size m <= fuel -> tail_step tl m a <> Err EC_UNFIT ->
                twalk fuel m a (S off + fslen false fs) e = tail_step tl m a).
    { destruct tl as [|v tl'].
      - cbn [app length values_nonempty] in Ha. eexists _, _. split; [apply (at_nth _ _ _ _ Ha)|].
        split; [lia|]. split; [apply (tget_at _ _ _ _ Ha)|].
        intros m Hm a fuel' Hf' _. cbn [tail_step].
        destruct fuel' as [|f']; [pose proof (wm_size_pos m); lia|].
        rewrite Nat.add_0_r, Hbl. apply twalk_end.
        right. exists off, (S off + fslen false fs + 0), false. split.
        + pose proof Ha as Ha2. apply at_cons in Ha2. apply at_app_r in Ha2. rewrite Hbl in Ha2. apply (at_nth _ _ _ _ Ha2).
        + rewrite <- Hbl. apply (at_nth _ _ _ _ Ha).
      - set (vals := flat_values (S (S off + length body)) (VCons v tl')) in *.
        assert (Hvl : length vals = vslen (VCons v tl')) by (subst vals; apply flat_values_len).
        eexists _, _. split; [apply (at_nth _ _ _ _ Ha)|]. split; [cbn [length]; lia|].
        split; [apply (tget_at _ _ _ _ Ha)|].
        intros m Hm a fuel' Hf' Hne'.
        pose proof Ha as Ha2. apply at_cons in Ha2. apply at_app_r in Ha2. apply at_app_l in Ha2.
        set (p := S off + length body) in *.
        assert (Hvals : at_ t (S p) vals) by (apply at_cons in Ha2; exact Ha2).
        cbn [length]. rewrite Hvl, <- Hbl. fold p.
        replace (p + S (vslen (VCons v tl'))) with (S p + vslen (VCons v tl')) by lia.
        assert (Hseq : seq_ok (VCons v tl') (S p) (S p + vslen (VCons v tl'))) by (apply Htl; auto).
        assert (Hfn : fields_next t p (S p + vslen (VCons v tl')) = Ok None).
        { unfold fields_next. replace (S p + vslen (VCons v tl') <=? p) with false by (symmetry; apply Nat.leb_gt; lia).
          rewrite (tget_at _ _ _ _ Ha2). reflexivity. }
        assert (Hrem : remainder t p (S p + vslen (VCons v tl')) = (S p, S p + vslen (VCons v tl'))).
        { unfold remainder. rewrite (at_nth _ _ _ _ Ha2). reflexivity. }
        apply (twalk_remainder (VCons v tl') p (S p) _ m a fuel' He2 ltac:(discriminate) Hseq Hvals eq_refl Hfn Hrem Hm Hf' Hne'). }
    destruct Hend as (e & mx & Hnth & Hle & Hg & HK).
    assert (Hvis : forall h, h = THMap \/ h = THStruct false ->
              tape_visit decode pf t h (kind o off) = Ok (TVMap (S off) e)).
    { intros h [-> | ->]; destruct o; cbn [kind tape_visit tv_map]; rewrite Hg; reflexivity. }
    unfold spec_core2 in *.
    destruct c; try discriminate Hw; try (now destruct Hne); try (apply de_ign).
    - (* ShMap *)
      cbn [wmode_core] in *. rewrite (de_map decode pf F t f _ _ (S off) e (WMap c)); [|apply Hvis; auto|reflexivity].
      rewrite <- obind_assoc in Hne |- *. apply bind_unfit in Hne.
      rewrite (Hfs He1 (S off) e Hbody Hle (WMap c) (tail_step tl (WMap c)) (cvs2 tl) eq_refl (HK (WMap c) eq_refl) (acc0 (WMap c)) f);
        [reflexivity | cbn [cv2 shape_size wm_size] in *; lia | exact Hne].
    - (* ShStruct *)
      cbn [wmode_core] in *.
      rewrite (de_map decode pf F t f _ _ (S off) e (WStruct token fields)); [|apply Hvis; auto|reflexivity].
      rewrite <- obind_assoc in Hne |- *. apply bind_unfit in Hne.
      rewrite (Hfs He1 (S off) e Hbody Hle (WStruct token fields) (tail_step tl (WStruct token fields)) (cvs2 tl) eq_refl
                 (HK (WStruct token fields) eq_refl) (acc0 (WStruct token fields)) f);
        [reflexivity | cbn [cv2 wm_size] in *; lia | exact Hne].
  Qed.

  (* ---------------------------------------------------------------- arrays, also where a map is asked for *)
  Lemma case_array2 items : Pvs2 items -> Pv2 (VArray items).
  Proof.
    intros Hvs He. cbn [ext_value] in He.
    apply (wrap_core2 _ (cv2 (VArray items))); [|reflexivity].
    intros off Ha c o fuel Hw Hf Hne.
    destruct fuel as [|f]; [cbn [cv2] in Hf; lia|].
    cbn [flat_value] in Ha.
    set (body := flat_values (S off) items) in *.
    set (e := S off + length body) in *.
    pose proof (tget_at _ _ _ _ Ha) as Hg.
    assert (Hbody : at_ t (S off) body) by (apply at_cons in Ha; now apply at_app_l in Ha).
    assert (He' : e = S off + vslen items) by (subst e body; rewrite flat_values_len; lia).
    assert (Hvis : tape_visit decode pf t THSeq (kind o off) = Ok (TVSeq (S off) e)).
    { destruct o; cbn [kind tape_visit]; unfold tv_seq_at; rewrite Hg; reflexivity. }
    assert (Hvm : forall h, h = THMap \/ h = THStruct false ->
              tape_visit decode pf t h (kind o off) = Ok (TVMap e e)).
    { intros h [-> | ->]; destruct o; cbn [kind tape_visit tv_map]; rewrite Hg; reflexivity. }
    pose proof (Hvs He (S off) e Hbody He') as Hseq.
    assert (Hte : nth_error t e = Some (TEnd off)).
    { pose proof Ha as Ha2. apply at_cons in Ha2. apply at_app_r in Ha2. apply (at_nth _ _ _ _ Ha2). }
    assert (HK : forall m, m_core m = true -> forall a f', cvs2 items + wm_size m <= S f' -> tail_step items m a <> Err EC_UNFIT ->
              twalk (S f') m a e e = tail_step items m a).
    { intros m Hm a f' Hf' Hne'. destruct items as [|v items'].
      - cbn [tail_step]. rewrite twalk_eq, fields_next_end by lia. cbn [obind].
        rewrite (remainder_arr off e _ _ Hte (at_nth _ _ _ _ Ha)).
        unfold vslen in He'. cbn [flat_values length] in He'. rewrite Nat.add_0_r in He'. rewrite He'.
        cbn [values_len]. rewrite Nat.ltb_irrefl. reflexivity.
      - assert (Hfn : fields_next t e e = Ok None) by (apply fields_next_end; lia).
        pose proof (remainder_arr off e _ _ Hte (at_nth _ _ _ _ Ha)) as Hrem.
        apply (twalk_remainder (VCons v items') e (S off) e m a (S f') He ltac:(discriminate) Hseq Hbody He' Hfn Hrem Hm Hf' Hne'). }
    destruct Hseq as [Hall Htup].
    unfold spec_core2 in *.
    destruct c; try discriminate Hw; try (now destruct Hne); try (apply de_ign).
    - rewrite (de_seq decode pf F t f c _ _ _ Hvis).
      rewrite Hall; [reflexivity | cbn [cv2 shape_size] in *; lia | now apply omap_unfit in Hne].
    - rewrite (de_tup decode pf F t f ss _ _ _ Hvis).
      rewrite Htup; [reflexivity | rewrite shape_size_tup in Hf; cbn [cv2] in *; lia | now apply omap_unfit in Hne].
    - cbn [wmode_core] in *. rewrite (de_map decode pf F t f _ _ e e (WMap c)); [|apply Hvm; auto|reflexivity].
      apply bind_unfit in Hne as Hne'.
      destruct f as [|f']; [cbn [cv2 shape_size] in Hf; pose proof (cvs2_pos items); lia|].
      rewrite HK; [reflexivity | reflexivity | cbn [cv2 shape_size wm_size] in *; lia | exact Hne'].
    - cbn [wmode_core] in *. rewrite (de_map decode pf F t f _ _ e e (WStruct token fields)); [|apply Hvm; auto|reflexivity].
      apply bind_unfit in Hne as Hne'.
      destruct f as [|f']; [cbn [cv2 shape_size] in Hf; pose proof (cvs2_pos items); lia|].
      rewrite HK; [reflexivity | reflexivity | cbn [cv2 wm_size] in *; lia | exact Hne'].
  Qed.

  Lemma case_arraykv2 items kvs : Pv2 (VArrayKv items kvs).
  Proof.
    intros _. apply (wrap_core2 _ 1); [|reflexivity].
    intros off Ha c o fuel Hw Hf Hne. destruct fuel as [|f]; [lia|].
    unfold spec_core2 in *. destruct c; try (now destruct Hne). apply de_ign.
  Qed.

  (* ---------------------------------------------------------------- headers *)
  Definition is_cont_tok (x : ttok) : Prop := (exists e m, x = TObject e m) \/ (exists e m, x = TArray e m).

  Lemma tv_any_header off name x r o :
    at_ t off (THeader name :: x :: r) -> is_cont_tok x ->
    (exists st en, tv_any decode t (kind o off) = Ok (TVMap st en)) \/
    (exists st en, tv_any decode t (kind o off) = Ok (TVSeq st en)).
  Proof.
    intros Ha Hx. pose proof (tget_at _ _ _ _ Ha) as Hg. pose proof Ha as Ha2. apply at_cons in Ha2.
    assert (Hgo : tv_any decode t (kind o off) = tv_any_at decode t off) by (destruct o; reflexivity).
    rewrite Hgo. unfold tv_any_at. rewrite Hg. cbn [obind]. rewrite (at_nth _ _ _ _ Ha2).
    destruct Hx as [(e & m & ->) | (e & m & ->)].
    - left. eexists _, _. reflexivity.
    - right. unfold tv_seq_at. rewrite (tget_at _ _ _ _ Ha2). cbn [obind read_array]. eexists _, _. reflexivity.
  Qed.

  Lemma typed_str_de c b s : (c = ShBool \/ (exists n, c = ShU n) \/ (exists n, c = ShI n) \/ c = ShF32 \/ c = ShF64) ->
    tvisit_prim F c (TPStr b s) = Err EC_DE.
  Proof. intros [-> | [(n & ->) | [(n & ->) | [-> | ->]]]]; reflexivity. Qed.

  Lemma de_hname_core off name x r c o f en :
    at_ t off (THeader name :: x :: r) -> is_cont_tok x -> next_idx t (S off) = Ok en -> S off < en ->
    is_wrapper c = false -> hname_core c name <> Err EC_UNFIT ->
    de (S f) c (kind o off) = hname_core c name.
  Proof.
    intros Ha Hx Hnx Hlt Hw Hne. pose proof (tget_at _ _ _ _ Ha) as Hg.
    pose proof Ha as Ha2. apply at_cons in Ha2. pose proof (tget_at _ _ _ _ Ha2) as Hg2.
    assert (Hk : forall (A : Type) (a : bytes -> A) (b : A),
               match kind o off with KStatic s => a s | _ => b end = b) by (intros; now destruct o).
    assert (Hsc : k_read_scalar t (kind o off) = Ok (Some name)).
    { destruct o; cbn [kind k_read_scalar]; rewrite Hg; reflexivity. }
    assert (Hst : k_read_str decode t (kind o off) = Ok (Some (decode name))).
    { destruct o; cbn [kind k_read_str]; rewrite Hg; reflexivity. }
    assert (Htyped : forall h, (h = THBool \/ h = THI64 \/ h = THU64 \/ h = THF64) -> thint_of c = h ->
              tvisit_prim F c (TPStr true (cow_bytes (decode name))) = Err EC_DE ->
              (forall b s, tvisit_prim F c (TPStr b s) = Err EC_DE) ->
              wmode_of c = None -> match c with ShSeq _ | ShAny | ShTup _ | ShProp _ => False | _ => True end ->
              de (S f) c (kind o off) = tvisit_prim F c (scalar_prim decode pf true h name)).
    { intros h Hh Hth _ Hstr Hwm Hcs. cbn [TextDeTape.de]. rewrite Hth. unfold tape_visit. rewrite Hk.
      assert (Hv : tape_visit decode pf t h (kind o off) = tv_scalar_hint decode pf t h (kind o off)).
      { unfold tape_visit. rewrite Hk. destruct Hh as [-> | [-> | [-> | ->]]]; reflexivity. }
      unfold tape_visit in Hv. rewrite Hk in Hv. rewrite Hv. unfold tv_scalar_hint. rewrite Hsc. cbn [obind].
      destruct (scalar_prim decode pf true h name) eqn:Esp; cbn [obind]; try reflexivity.
      rewrite Hstr.
      destruct (tv_any_header off name x r o Ha Hx) as [(st & en' & ->) | (st & en' & ->)]; cbn [obind].
      - rewrite Hwm. reflexivity.
      - destruct c; try reflexivity; now destruct Hcs. }
    unfold hname_core in *. destruct c; try discriminate Hw; try (now destruct Hne).
    - (* ShStr *)
      cbn [TextDeTape.de thint_of]. unfold tape_visit. rewrite Hk, Hst. reflexivity.
    - apply (Htyped THBool); auto; reflexivity.
    - apply (Htyped THU64); auto; reflexivity.
    - apply (Htyped THI64); auto; reflexivity.
    - apply (Htyped THF64); auto; reflexivity.
    - apply (Htyped THF64); auto; reflexivity.
    - (* ShEnum *)
      assert (Hnv : next_idx_values t off = Ok (S off)) by (unfold next_idx_values; rewrite Hg; reflexivity).
      assert (Hnv2 : exists n2, next_idx_values t (S off) = Ok n2).
      { unfold next_idx_values. rewrite Hg2. cbn [obind]. destruct x; eexists; reflexivity. }
      destruct Hnv2 as [n2 Hnv2].
      assert (Hv : tape_visit decode pf t THEnum (kind o off) = Ok (TVEnum off (Some (S off, en)))).
      { unfold tape_visit. rewrite Hk.
        assert (Hin : forall vi, vi = off ->
          (do tk <- tget t vi; do ra <- read_array t vi tk;
           match ra with
           | Some (st, en0) => if st <? en0 then do nx <- next_idx_values t st; Ok (TVEnum st (Some (nx, en0))) else Err EC_DE
           | None => Ok (TVEnum vi None)
           end) = Ok (TVEnum off (Some (S off, en)))).
        { intros vi ->. rewrite Hg. cbn [obind read_array]. rewrite Hnx. cbn [obind].
          replace (off <? en) with true by (symmetry; apply Nat.ltb_lt; lia). rewrite Hnv. reflexivity. }
        destruct o; cbn [kind]; apply Hin; reflexivity. }
      cbn [TextDeTape.de thint_of]. rewrite Hv. cbn [obind].
      assert (Hs2 : tape_visit decode pf t THStr (KVal off) = Ok (TVPrim (pstr (decode name)))).
      { cbn [tape_visit k_read_str]. rewrite Hg. reflexivity. }
      rewrite Hs2. cbn [obind].
      replace (S off <? en) with true by (symmetry; apply Nat.ltb_lt; lia). rewrite Hnv2. cbn [obind].
      unfold spec_scalar. destruct (tvisit_variant variants (pstr (decode name))); reflexivity.
    - (* ShIgn *) apply de_ign.
  Qed.

  Lemma hname_eq s name : hname s name = rewrap (fst (unwrap s)) None (hname_core (snd (unwrap s)) name).
  Proof. unfold TextDeSpec2.hname. destruct (unwrap s). reflexivity. Qed.

  Lemma de_hname off name x r s fuel en :
    at_ t off (THeader name :: x :: r) -> is_cont_tok x -> next_idx t (S off) = Ok en -> S off < en ->
    shape_size s <= fuel -> hname s name <> Err EC_UNFIT ->
    de fuel s (KVal off) = hname s name.
  Proof.
    intros Ha Hx Hnx Hlt Hf Hne. rewrite hname_eq in *.
    apply (de_wrappers decode pf F t off (fun c => hname_core c name) 0 ) with (o := None); auto.
    intros c o fuel' Hw Hf' Hne'. destruct fuel' as [|f']; [destruct c; cbn [shape_size] in Hf'; lia|].
    apply (de_hname_core off name x r c o f' en); auto.
  Qed.

  Lemma case_header2 name v : Pv2 v -> Pv2 (VHeader name v).
  Proof.
    intros Hv He. cbn [ext_value] in He. apply andb_prop in He as [Hc He].
    specialize (Hv He).
    apply (wrap_core2 _ (cv2 (VHeader name v))); [|reflexivity].
    intros off Ha c o fuel Hw Hf Hne.
    destruct fuel as [|f]; [cbn [cv2] in Hf; lia|].
    cbn [flat_value] in Ha.
    destruct (container_head (S off) v Hc) as (x & r & E & Hx0).
    assert (Hx : is_cont_tok x).
    { destruct Hx0 as [(e & m & -> & _) | (e & m & -> & _)]; [left|right]; eexists _, _; reflexivity. }
    assert (Hv1 : at_ t (S off) (flat_value (S off) v)) by now apply at_cons in Ha.
    assert (Hnh : is_header v = false) by (destruct v; try discriminate; reflexivity).
    pose proof (next_idx_ext t (S off) v He Hv1) as Hnx.
    pose proof (next_idx_values_ext t (S off) v Hnh Hv1) as Hnv2.
    pose proof (vlen_pos2 v) as Hvp.
    set (en := S off + vlen v) in *.
    rewrite E in Ha.
    pose proof (tget_at _ _ _ _ Ha) as Hg.
    assert (Hnv : next_idx_values t off = Ok (S off)) by (unfold next_idx_values; rewrite Hg; reflexivity).
    assert (Hvis : tape_visit decode pf t THSeq (kind o off) = Ok (TVSeq off en)).
    { destruct o; cbn [kind tape_visit]; unfold tv_seq_at; rewrite Hg; cbn [obind read_array]; rewrite Hnx; reflexivity. }
    assert (Hlt1 : (off <? en) = true) by (apply Nat.ltb_lt; lia).
    assert (Hlt2 : (S off <? en) = true) by (apply Nat.ltb_lt; lia).
    assert (Hdirect : hname_core c name <> Err EC_UNFIT -> de (S f) c (kind o off) = hname_core c name).
    { intros Hn. apply (de_hname_core off name x r c o f en); auto. lia. }
    unfold spec_core2 in *.
    destruct c; try discriminate Hw; try (now destruct Hne); try (apply Hdirect; exact Hne).
    - (* ShSeq *)
      pose proof (tp_case _ Hne) as Etp. rewrite Etp in *. clear Etp.
      rewrite (de_seq decode pf F t f c _ _ _ Hvis). cbn [cv2 shape_size] in Hf.
      destruct f as [|f1]; [lia|]. rewrite seq_all_eq, Hlt1, Hnv. cbn [obind].
      rewrite (de_hname off name x r c f1 en Ha Hx Hnx) by (lia || now apply bind_unfit in Hne).
      destruct (hname c name) as [hx| | | |] eqn:Ehn; cbn [obind omap] in *; try reflexivity.
      destruct f1 as [|f2]; [lia|]. rewrite seq_all_eq, Hlt2, Hnv2. cbn [obind].
      pose proof (Hv (S off) Hv1 c None f2) as Hd. cbn [kind] in Hd.
      rewrite Hd by (lia || now apply bind_unfit in Hne).
      destruct (spec_v2 v c None) as [hy| | | |]; cbn [obind omap] in *; try reflexivity.
      destruct f2 as [|f3]; [pose proof (vlen_pos2 v); destruct v; cbn [cv2] in Hf; lia|].
      fold en. rewrite seq_all_eq, Nat.ltb_irrefl. reflexivity.
    - (* ShTup *)
      destruct ss as [|s1 [|s2 rest]]; try (now destruct Hne).
      pose proof (tp_case _ Hne) as Etp. rewrite Etp in *. clear Etp.
      rewrite (de_tup decode pf F t f _ _ _ _ Hvis). rewrite shape_size_tup in Hf. cbn [cv2 tsize fold_right] in Hf.
      destruct f as [|f1]; [lia|]. rewrite seq_tup_eq, Hlt1, Hnv. cbn [obind].
      rewrite (de_hname off name x r s1 f1 en Ha Hx Hnx) by (lia || now apply bind_unfit in Hne).
      destruct (hname s1 name) as [hx| | | |] eqn:Ehn; cbn [obind omap] in *; try reflexivity.
      destruct f1 as [|f2]; [lia|]. rewrite seq_tup_eq, Hlt2, Hnv2. cbn [obind].
      pose proof (Hv (S off) Hv1 s2 None f2) as Hd. cbn [kind] in Hd.
      rewrite Hd by (lia || now apply bind_unfit in Hne).
      destruct (spec_v2 v s2 None) as [hy| | | |]; cbn [obind omap] in *; try reflexivity.
      destruct f2 as [|f3]; [destruct v; cbn [cv2] in Hf; lia|].
      fold en. rewrite seq_tup_eq. destruct rest; [reflexivity|]. rewrite Nat.ltb_irrefl. reflexivity.
  Qed.

  (* ---------------------------------------------------------------- fields: key-value, parameter blocks *)
  Lemma case_field2 k key op v : Pv2 v -> Pf2 (Field k key op v).
  Proof.
    intros Hv He ti Ha sh' fuel Hf Hne. cbn [ext_field] in He. cbn [fval fopk fvoff cf2] in *.
    cbn [flat_field] in Ha. apply at_cons in Ha. apply at_app_r in Ha.
    replace (ti + S (length (op_toks false op))) with (S ti + length (op_toks false op)) by lia.
    apply (Hv He _ Ha sh' (Some (op_or_equal op)) fuel Hf Hne).
  Qed.

  Lemma case_paramv2 name u s : Pf2 (ParamV name u s).
  Proof.
    intros _ ti Ha sh' fuel Hf Hne. cbn [fval fopk fvoff cf2] in *.
    cbn [flat_field] in Ha. apply at_cons in Ha. replace (ti + 1) with (S ti) by lia.
    assert (E : spec_sc2 decode pf F s sh' (Some Equal) = spec_v2 (VScalar Unq s) sh' (Some Equal)).
    { unfold spec_sc2. cbn [TextDeSpec2.spec_v2]. destruct (unwrap sh'). reflexivity. }
    rewrite E in *.
    apply (case_scalar2 Unq s eq_refl (S ti) Ha sh' (Some Equal) fuel); [cbn [cv2]; lia | exact Hne].
  Qed.

  Lemma case_paramo2 name u fs : Pfs2 fs -> Pf2 (ParamO name u fs).
  Proof.
    intros Hfs He ti Ha sh' fuel Hf Hne. cbn [ext_field] in He. cbn [fval fopk fvoff cf2] in *.
    rewrite paramo_flat in Ha. apply at_cons in Ha. replace (ti + 1) with (S ti) by lia.
    assert (E : obj_into (spec_fields2 fs) sh' = spec_v2 (VObject fs VNil) sh' (Some Equal)).
    { unfold obj_into. cbn [TextDeSpec2.spec_v2]. destruct (unwrap sh') as [w c]. reflexivity. }
    rewrite E in *.
    assert (Hobj : Pv2 (VObject fs VNil)).
    { apply case_object2; [exact Hfs|]. intros _ ti' en' _ ->. unfold vslen. cbn [flat_values length]. rewrite Nat.add_0_r. split.
      - intros s0 fuel0 Hf0 _. destruct fuel0 as [|f0]; [cbn [cvs2] in Hf0; lia|].
        rewrite seq_all_eq, Nat.ltb_irrefl. reflexivity.
      - intros ss fuel0 Hf0 _. destruct fuel0 as [|f0]; [cbn [cvs2] in Hf0; lia|].
        rewrite seq_tup_eq, Nat.ltb_irrefl. destruct ss; reflexivity. }
    apply (Hobj ltac:(cbn [ext_value ext_items]; now rewrite He) (S ti) Ha sh' (Some Equal) fuel); [cbn [cv2 cvs2]; lia | exact Hne].
  Qed.

  Lemma case_fnil2 : Pfs2 FNil.
  Proof.
    intros _ ti en Ha Hle m K B Hm HK a fuel Hf Hne.
    cbn [TextDeSpec2.spec_fields2 obind] in *. unfold fslen in *. cbn [flat_fields length] in *. rewrite Nat.add_0_r in *.
    apply HK; [cbn [cfs2] in Hf; lia | exact Hne].
  Qed.

  Lemma param_case {A} f (E : outcome A) :
    (if is_param f && negb tp then Err EC_UNFIT else E) <> Err EC_UNFIT ->
    (if is_param f && negb tp then Err EC_UNFIT else E) = E.
  Proof. destruct (is_param f && negb tp); [|reflexivity]. intros H. now destruct H. Qed.

  Lemma case_fcons2 f fs : Pf2 f -> Pfs2 fs -> Pfs2 (FCons f fs).
  Proof.
    intros Hf Hfs He ti en Ha Hle m K B Hm HK a fuel Hfu Hne.
    cbn [ext_fields] in He. apply andb_prop in He as [He1 He2].
    specialize (Hf He1).
    destruct fuel as [|fu]; [cbn [cfs2] in Hfu; lia|].
    cbn [flat_fields] in Ha. rewrite flat_field_len in Ha. rewrite fslen_cons2 in *.
    assert (Hfp : 1 <= flen f).
    { unfold flen. destruct f; cbn [flat_field length]; lia. }
    rewrite twalk_eq.
    rewrite (fields_next_ext t ti en f _ He1 Ha) by lia. cbn [obind key_info].
    assert (Hopk : match fopo f with Some o => o | None => Equal end = fopk f).
    { destruct f; cbn [fopo fopk]; [apply fop_equal|reflexivity|reflexivity]. }
    rewrite Hopk.
    rewrite spec_fields2_cons in *. rewrite obind_assoc in Hne |- *.
    pose proof (param_case f _ (bind_unfit _ _ Hne)) as Ep. rewrite Ep in *. clear Ep.
    set (rec2 := fun sh' (_ _ : unit) => omap (fun d => (d, tt)) (fval f sh')) in *.
    assert (Hent : entry (trec fu) trec_op m a (cow_bytes (decode (fkey f))) (is_ok (to_u64 (fkey f))) (KOpVal (fopk f) (ti + fvoff f)) tt
                 = entry rec2 no_op m a (cow_bytes (decode (fkey f))) (is_ok (to_u64 (fkey f))) tt tt).
    { apply entry_ext; auto.
      - intros sh' Hs Hn. unfold TextDeTapeProofs.trec, rec2 in *. f_equal.
        apply (Hf ti (at_app_l _ _ _ _ Ha) sh' fu).
        + pose proof (wm_size_pos m). cbn [cfs2] in Hfu. destruct Hs as [-> | Hs]; cbn [shape_size]; lia.
        + now apply omap_unfit in Hn.
      - now apply bind_unfit in Hne. }
    rewrite Hent.
    destruct (entry rec2 _ m a _ _ tt tt) as [r| | | |] eqn:Er; cbn [obind] in *; try reflexivity.
    cbn [cfs2] in Hfu.
    replace (ti + (flen f + fslen false fs)) with (ti + flen f + fslen false fs) in * by lia.
    assert (Ha' : at_ t (ti + flen f) (flat_fields false (ti + flen f) fs)).
    { apply at_app_r in Ha. now rewrite flat_field_len in Ha. }
    apply (Hfs He2 (ti + flen f) en Ha' ltac:(lia) m K B Hm HK (fst r) fu); [lia | exact Hne].
  Qed.

  Lemma case_vnil2 : Pvs2 VNil.
  Proof.
    intros _ ti en _ ->. unfold vslen. cbn [flat_values length]. rewrite Nat.add_0_r. split.
    - intros s fuel Hf _. destruct fuel as [|f]; [cbn [cvs2] in Hf; lia|].
      rewrite seq_all_eq, Nat.ltb_irrefl. reflexivity.
    - intros ss fuel Hf _. destruct fuel as [|f]; [cbn [cvs2] in Hf; lia|].
      rewrite seq_tup_eq, Nat.ltb_irrefl. destruct ss; reflexivity.
  Qed.

  Lemma case_vcons2 v vs : Pv2 v -> Pvs2 vs -> Pvs2 (VCons v vs).
  Proof.
    intros Hv Hvs He ti en Ha ->.
    cbn [ext_items] in He. apply andb_prop in He as [He He3]. apply andb_prop in He as [He1 He2].
    apply Bool.negb_true_iff in He1.
    specialize (Hv He2).
    cbn [flat_values] in Ha. rewrite vslen_cons.
    pose proof (vlen_pos2 v) as Hvp.
    assert (Ha1 : at_ t ti (flat_value ti v)) by now apply at_app_l in Ha.
    assert (Ha2 : at_ t (ti + vlen v) (flat_values (ti + vlen v) vs)).
    { apply at_app_r in Ha. now rewrite flat_value_len in Ha. }
    destruct (Hvs He3 (ti + vlen v) (ti + (vlen v + vslen vs)) Ha2 ltac:(lia)) as [Hall Htup].
    pose proof (next_idx_values_ext t ti v He1 Ha1) as Hn.
    assert (Hlt : (ti <? ti + (vlen v + vslen vs)) = true) by (apply Nat.ltb_lt; lia).
    split.
    - intros s fuel Hf Hne. destruct fuel as [|f]; [cbn [cvs2] in Hf; lia|].
      rewrite seq_all_eq, Hlt, Hn. rewrite spec_items2_cons in *. cbn [obind] in *.
      pose proof (Hv ti Ha1 s None f) as Hd. cbn [kind] in Hd.
      rewrite Hd; [|cbn [cvs2] in Hf; lia|now apply bind_unfit in Hne].
      destruct (spec_v2 v s None) as [x| | | |]; cbn [obind] in *; try reflexivity.
      rewrite Hall; [reflexivity | cbn [cvs2] in Hf; lia | now apply bind_unfit in Hne].
    - intros ss fuel Hf Hne. destruct fuel as [|f]; [cbn [cvs2] in Hf; lia|].
      rewrite seq_tup_eq. rewrite spec_tuple2_cons in *.
      destruct ss as [|s ss']; [now destruct Hne|].
      rewrite Hlt, Hn. cbn [obind].
      pose proof (Hv ti Ha1 s None f) as Hd. cbn [kind] in Hd.
      cbn [tsize fold_right] in Hf. fold (tsize ss') in Hf.
      rewrite Hd; [|cbn [cvs2] in Hf; lia|now apply bind_unfit in Hne].
      destruct (spec_v2 v s None) as [x| | | |]; cbn [obind] in *; try reflexivity.
      rewrite Htup; [reflexivity | cbn [cvs2] in *; lia | now apply bind_unfit in Hne].
  Qed.

  Lemma walk_all2 : (forall v, Pv2 v) /\ (forall f, Pf2 f) /\ (forall fs, Pfs2 fs) /\ (forall vs, Pvs2 vs).
  Proof.
    apply doc_mutind.
    - apply case_scalar2.
    - intros fs Hfs tl Htl. now apply case_object2.
    - apply case_array2.
    - intros items _ kvs _. apply case_arraykv2.
    - apply case_header2.
    - intros k key op v H. now apply case_field2.
    - apply case_paramv2.
    - intros name u fs H. now apply case_paramo2.
    - apply case_fnil2.
    - intros f Hf fs Hfs. now apply case_fcons2.
    - apply case_vnil2.
    - intros v Hv vs Hvs. now apply case_vcons2.
  Qed.
End Main2.

(* ------------------------------------------------------------------ root and default fuel *)
Lemma cost_bound2 :
  (forall v, cv2 v + 1 <= 2 * vlen v) /\
  (forall f, 1 + cf2 f <= 2 * flen f) /\
  (forall fs, cfs2 fs <= 2 * fslen false fs + 1) /\
  (forall vs, cvs2 vs <= 2 * vslen vs + 1).
Proof.
  apply doc_mutind.
  - intros k s. unfold vlen. cbn. lia.
  - intros fs Hfs tl Htl. rewrite vlen_object2. cbn [cv2]. destruct tl; [cbn [cvs2]|]; lia.
  - intros items Hvs. rewrite vlen_array. cbn [cv2]. lia.
  - intros items _ kvs _. rewrite vlen_arraykv. cbn [cv2]. lia.
  - intros name v Hv. rewrite vlen_header. cbn [cv2]. lia.
  - intros k key op v Hv. rewrite flen_field. cbn [cf2]. lia.
  - intros name u s. unfold flen. cbn. lia.
  - intros name u fs Hfs. rewrite flen_paramo, vlen_object2. cbn [cf2]. lia.
  - unfold fslen. cbn. lia.
  - intros f Hf fs Hfs. rewrite fslen_cons2. cbn [cfs2]. lia.
  - unfold vslen. cbn. lia.
  - intros v Hv vs Hvs. rewrite vslen_cons. cbn [cvs2]. lia.
Qed.

Theorem tape_root_spec2 tp decode pf F sh d fuel :
  ext_fields d = true -> cfs2 d + shape_size sh <= fuel ->
  spec_value2 tp decode pf F sh d <> Err EC_UNFIT ->
  de_root decode pf F (flatten d) fuel sh 0 (length (flatten d)) = spec_value2 tp decode pf F sh d.
Proof.
  intros He Hf Hne.
  pose proof (proj1 (proj2 (proj2 (walk_all2 tp decode pf F (flatten d)))) d He 0 (length (flatten d))) as H.
  assert (Hrem : rem_empty (flatten d) (length (flatten d))) by (left; apply nth_error_None; lia).
  specialize (H (at_root _)).
  assert (Hl0 : 0 + fslen false d <= length (flatten d)) by (change (length (flatten d)) with (fslen false d); lia).
  specialize (H Hl0).
  assert (HK : forall m a fuel', 0 + wm_size m <= fuel' -> Ok a <> Err EC_UNFIT ->
            twalk decode pf F (flatten d) fuel' m a (0 + fslen false d) (length (flatten d)) = Ok a).
  { intros m a fuel' Hf' _. destruct fuel' as [|f']; [pose proof (wm_size_pos m); lia|].
    cbn [Nat.add]. change (fslen false d) with (length (flatten d)). apply twalk_end. exact Hrem. }
  unfold spec_value2, de_root in *.
  destruct sh; try (now destruct Hne); cbn [thint_of wmode_of wmode_core] in *.
  - rewrite (H (WMap sh) (fun a => Ok a) 0 eq_refl (HK (WMap sh)) (acc0 (WMap sh)) fuel).
    + rewrite obind_ret. reflexivity.
    + cbn [wm_size shape_size] in *. lia.
    + rewrite obind_ret. intros E. rewrite E in Hne. now apply Hne.
  - rewrite (H (WStruct token fields) (fun a => Ok a) 0 eq_refl (HK (WStruct token fields)) (acc0 (WStruct token fields)) fuel).
    + rewrite obind_ret. reflexivity.
    + cbn [wm_size] in *. lia.
    + rewrite obind_ret. intros E. rewrite E in Hne. now apply Hne.
Qed.

Theorem tape_path_spec2 tp decode pf F sh d :
  ext_fields d = true -> fits2 tp decode pf F sh d ->
  deser_tape decode pf F sh (flatten d) = spec_value2 tp decode pf F sh d.
Proof.
  intros He Hfit. unfold deser_tape. apply tape_root_spec2; auto.
  pose proof (proj1 (proj2 (proj2 cost_bound2)) d) as Hb.
  unfold tape_fuel. change (length (flatten d)) with (fslen false d). lia.
Qed.

(* well-formed documents are in the grammar *)
Lemma wf_ext_all :
  (forall v, wf_value v = true -> ext_value v = true) /\
  (forall f, wf_field f = true -> ext_field f = true) /\
  (forall fs, wf_fields fs = true -> ext_fields fs = true) /\
  (forall vs, (wf_items vs = true -> ext_items vs = true) /\ (wf_tail vs = true -> ext_items vs = true)).
Proof.
  apply doc_mutind.
  - reflexivity.
  - intros fs Hfs tl [_ Htl] H. cbn [wf_value ext_value] in *. andb_split. rewrite Hfs, Htl by assumption. reflexivity.
  - intros items [Hi _] H. cbn [wf_value ext_value] in *. andb_split. now apply Hi.
  - reflexivity.
  - intros name v Hv H. cbn [wf_value ext_value] in *. andb_split. rewrite Hv by assumption.
    match goal with H : is_container v = true |- _ => rewrite H end. reflexivity.
  - intros k key op v Hv H. cbn [wf_field ext_field] in *. andb_split. now apply Hv.
  - reflexivity.
  - intros name u fs Hfs H. cbn [wf_field ext_field] in *. andb_split. now apply Hfs.
  - reflexivity.
  - intros f Hf fs Hfs H. cbn [wf_fields ext_fields] in *. andb_split. rewrite Hf, Hfs by assumption. reflexivity.
  - split; reflexivity.
  - intros v Hv vs [Hi Ht]. split; intros H.
    + cbn [wf_items ext_items] in *. andb_split. rewrite Hv, Hi by assumption.
      match goal with H : negb (is_header v) = true |- _ => rewrite H end. reflexivity.
    + cbn [wf_tail ext_items] in *. andb_split. rewrite Hv, Ht by assumption.
      destruct v; try discriminate. reflexivity.
Qed.

Lemma wf_ext d : wf_doc d -> ext_fields d = true.
Proof. apply (proj1 (proj2 (proj2 wf_ext_all))). Qed.

