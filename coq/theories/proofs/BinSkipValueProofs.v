(* C09 (binary): Lexer::skip_value(id), called after read_id, ends where reading the value as a
   token (and, for an Open, balanced token reading) ends. *)
From JV Require Import Bytes Tables BinPrim BufWin BinLexer BinReader.
From JV.proofs Require Import BinLexProofs BinRoundProofs BinStreamProofs BinSkipProofs.
From Coq Require Import List NArith ZArith Bool Lia Arith.
Import ListNotations.
Open Scope nat_scope.

Lemma lift_ok {A} (f : bytes -> outcome (A * bytes)) d orig v r :
  f d = Ok (v, r) -> lx_unit (lx_lift f (mklx d orig)) = (Ok tt, mklx r orig).
Proof. intros H. unfold lx_unit, lx_lift. cbn [lx_data lx_orig]. rewrite H. reflexivity. Qed.

Theorem lexer_skip_value_lands d id d1 r orig :
  read_id d = Ok (id, d1) -> value_read d = Some r ->
  lx_skip_value id (mklx d1 orig) = (Ok tt, mklx r orig).
Proof.
  intros Ei Hv. unfold value_read in Hv.
  destruct (read_token d) as [[t r1]| | | |] eqn:E; try discriminate.
  destruct (read_token_inv _ _ _ E) as [id' [d1' [Ei' Hs]]]. rewrite Ei in Ei'. inversion Ei'; subst id' d1'.
  unfold lx_skip_value.
  destruct t; cbn [tok_shape] in Hs.
  all: try (destruct Hs as [-> Hs]; inversion Hv; subst; eval_ids;
            first [ eapply lift_ok; eassumption | subst; reflexivity ]).
  - (* Open: skip_container *)
    destruct Hs as [-> ->]. eval_ids. unfold lx_skip_container. cbn [lx_data lx_orig].
    rewrite (lexer_skip_lands _ _ Hv). reflexivity.
  - (* a true id *)
    destruct Hs as [-> [Hi ->]]. inversion Hv; subst. apply is_id_false_all in Hi.
    destruct Hi as (E1&E2&E3&E4&E5&E6&E7&E8&E9&E10&E11&E12&E13).
    rewrite E8, E9, E4, E6, E5, E13, E7, E10, E11, E1, E12. reflexivity.
Qed.
