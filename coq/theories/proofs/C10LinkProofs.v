(* C10, the text <-> binary link: per-scalar agreement of the two deserializer specifications on the two
   renderings of a logical scalar (LogicDoc).  The document level is C10SpecProofs.v. *)
From JV Require Import Bytes Tables Utf8 Scalar Date TextTok BinPrim SerdeShape TextDeCommon BinDeCommon TextDeSpec LogicDoc.
From JV Require TextDoc BinDoc.
From JV.proofs Require Import DecimalProofs DateProofs DateFmt.
From Coq Require Import NArith ZArith Lia List Bool.
Import ListNotations.
Open Scope N_scope.

(* ------------------------------------------------------------------ decimal numerals *)
Lemma abs_lt_pow40 z : (Z.abs z < 2 ^ 64)%Z -> Z.abs_N z < 10 ^ 40.
Proof. intros H. change (10 ^ 40) with 10000000000000000000000000000000000000000. lia. Qed.

(* the numeral of a non-negative integer: a digit, then digits, Horner value = the integer *)
Lemma fmt_nonneg z : (0 <= z < 2 ^ 64)%Z ->
  exists c tl, fmt_int 0 z = c :: tl /\ is_digit c = true /\ all_digits tl = true /\ dacc (c - 48) tl = Z.to_N z.
Proof.
  intros Hz. unfold fmt_int. replace (z <? 0)%Z with false by (symmetry; apply Z.ltb_ge; lia).
  cbn [Nat.sub pad0].
  pose proof (dec_N_canonical (Z.abs_N z) (abs_lt_pow40 z ltac:(lia))) as Hc.
  destruct (canonical_nonempty _ _ Hc) as (c & tl & E & Hd & Htl).
  destruct Hc as (_ & Hval & _). rewrite E in *.
  exists c, tl. repeat split; auto.
  cbn [dacc fold_left] in Hval. fold (dacc (10 * 0 + (c - 48)) tl) in Hval.
  replace (10 * 0 + (c - 48)) with (c - 48) in Hval by lia. rewrite Hval. lia.
Qed.

Lemma fmt_neg z : (z < 0)%Z -> exists tl, fmt_int 0 z = 45 :: tl.
Proof.
  intros Hz. unfold fmt_int. replace (z <? 0)%Z with true by (symmetry; apply Z.ltb_lt; lia). eauto.
Qed.

Lemma to_u64_fmt_nonneg z : (0 <= z < 2 ^ 64)%Z -> to_u64 (fmt_int 0 z) = Ok (Z.to_N z).
Proof.
  intros Hz. destruct (fmt_nonneg z Hz) as (c & tl & -> & Hc & Htl & Hv).
  unfold to_u64. rewrite Hc. cbn [orb].
  rewrite <- (app_nil_r tl).
  rewrite (to_u64_t2_digits tl [] (c - 48) Htl eq_refl) by (rewrite Hv; unfold U64_LIM; lia).
  cbn [obind]. rewrite Hv. reflexivity.
Qed.

Lemma to_u64_fmt_neg z : (z < 0)%Z -> to_u64 (fmt_int 0 z) = Err E_AllDigits.
Proof. intros Hz. destruct (fmt_neg z Hz) as (tl & ->). reflexivity. Qed.

Lemma to_i64_fmt z : (Z.abs z < 2 ^ 63)%Z -> to_i64 (fmt_int 0 z) = Ok z.
Proof.
  intros Hz. unfold to_i64. pose proof (to_i64_t_fmt_int 0 z [] Hz eq_refl) as H.
  rewrite app_nil_r in H. rewrite H. reflexivity.
Qed.

Lemma to_i64_fmt_big z : (2 ^ 63 <= z < 2 ^ 64)%Z -> to_i64 (fmt_int 0 z) = Err E_Overflow.
Proof.
  intros Hz. destruct (fmt_nonneg z ltac:(lia)) as (c & tl & -> & Hc & Htl & Hv).
  unfold to_i64, to_i64_t. rewrite Hc. cbn [orb].
  rewrite <- (app_nil_r tl).
  rewrite (to_u64_t2_digits tl [] (c - 48) Htl eq_refl) by (rewrite Hv; unfold U64_LIM; lia).
  cbn [obind]. rewrite Hv.
  replace (Z.to_N z <=? I64_MAX) with false by (symmetry; apply N.leb_gt; unfold I64_MAX; lia).
  reflexivity.
Qed.

Lemma to_bool_fmt z : (Z.abs z < 2 ^ 64)%Z -> to_bool (fmt_int 0 z) = Err E_InvalidBool.
Proof.
  intros Hz. destruct (Z.ltb_spec z 0) as [Hn|Hp].
  - destruct (fmt_neg z Hn) as (tl & ->). reflexivity.
  - destruct (fmt_nonneg z ltac:(lia)) as (c & tl & -> & Hc & _).
    apply is_digit_range in Hc. unfold to_bool.
    destruct c as [|p]; [lia|].
    destruct (N.eq_dec (N.pos p) 121) as [E|E]; [lia|]. destruct (N.eq_dec (N.pos p) 110) as [E2|E2]; [lia|].
    repeat (destruct p as [p|p|]; try reflexivity; try (exfalso; lia)).
Qed.

(* ------------------------------------------------------------------ dates *)
Lemma ld_valid_md_eq m d : ld_valid_md m d = valid_md m d.
Proof. reflexivity. Qed.

Lemma date_from_ymd_raw y m d r : date_from_ymd_opt y m d = Ok (Some r) -> r = ldate_raw y m d.
Proof.
  unfold date_from_ymd_opt, raw_from_ymdh_opt.
  destruct (negb (m =? 0)%Z && (m <? 13)%Z && negb (d =? 0)%Z && (d <? 32)%Z && (0 <? 25)%Z); [|discriminate].
  destruct (dpm m) as [days| | | |]; cbn [obind]; try discriminate.
  destruct (d <=? days)%Z; [|discriminate]. intros H. injection H as <-. unfold ldate_raw. f_equal. lia.
Qed.

(* the text rendering parses to the date, the I32 rendering decodes to the same date *)
Lemma date_both y m d wide :
  (-5000 <= y <= 32767)%Z -> ld_valid_md m d = true ->
  date_parse (date_text y m d wide) = Ok (Some (ldate_raw y m d)) /\
  date_from_binary (date_bin y m d) = Ok (Some (ldate_raw y m d)).
Proof.
  intros Hy Hv. rewrite ld_valid_md_eq in Hv.
  assert (Hi : in_i16 y = true) by (unfold in_i16; apply andb_true_intro; split; apply Z.leb_le; lia).
  destruct (fmt_parse_date y m d Hi Hv) as (r & Hr & Hn & Hw).
  destruct (date_bin_inverse y m d Hy Hv) as (r' & b & Hr' & Hb & Hfb).
  rewrite Hr in Hr'. injection Hr' as <-.
  pose proof (date_from_ymd_raw _ _ _ _ Hr) as ->.
  split.
  - unfold date_text. destruct wide; assumption.
  - unfold date_bin. rewrite Hb. exact Hfb.
Qed.

(* ------------------------------------------------------------------ serde's integer range checks *)
Lemma in_u_neg bits z : (z < 0)%Z -> in_u bits z = false.
Proof. intros H. unfold in_u. replace (0 <=? z)%Z with false by (symmetry; apply Z.leb_gt; lia). reflexivity. Qed.

Lemma u_width_cases bits : u_width bits = 8 \/ u_width bits = 16 \/ u_width bits = 32 \/ u_width bits = 64.
Proof.
  unfold u_width. destruct (bits =? 8) eqn:E1; [apply N.eqb_eq in E1; auto|].
  destruct (bits =? 16) eqn:E2; [apply N.eqb_eq in E2; auto|].
  destruct (bits =? 32) eqn:E3; [apply N.eqb_eq in E3; auto|]. auto.
Qed.

Lemma in_i_big bits z : (2 ^ 63 <= z)%Z -> in_i bits z = false.
Proof.
  intros H. unfold in_i.
  assert (Z.of_N (2 ^ (u_width bits - 1)) <= 2 ^ 63)%Z.
  { destruct (u_width_cases bits) as [-> | [-> | [-> | ->]]]; vm_compute; discriminate. }
  replace (z <? Z.of_N (2 ^ (u_width bits - 1)))%Z with false by (symmetry; apply Z.ltb_ge; lia).
  apply andb_false_r.
Qed.

(* ------------------------------------------------------------------ the two sides on one scalar *)
Section Scalars.
  Variable decode : bytes -> cow.
  Variable pf : bytes -> outcome N.
  Variable cfg : bcfg.
  Notation F := (c_fops cfg).

  (* text: the typed hint of the shape on the raw bytes (parse or fall back to the decoded string),
     then the shape's visitor -- what TextDeSpec.spec_scalar does for every shape but an enum *)
  Definition text_visit (sh : shape) (raw : bytes) : outcome dval :=
    tvisit_prim F sh (scalar_prim decode pf true (thint_of sh) raw).
  (* binary: the primitive the token carries (BinDoc.scalar_prim: resolver / decoder / flavor), then
     the same visitor *)
  Definition bin_visit (sh : shape) (s : BinDoc.bscalar) : outcome dval :=
    do p <- BinDoc.scalar_prim cfg s; visit_prim F sh p.

  Lemma str_prim_ok f raw s : str_ok decode cfg f raw s -> BinDoc.scalar_prim cfg (bin_str f s) = Ok (PStr (tdec decode raw)).
  Proof.
    destruct f as [| |id]; cbn [str_ok bin_str BinDoc.scalar_prim].
    - intros [_ H]. unfold str_prim. rewrite H. reflexivity.
    - intros [_ H]. unfold str_prim. rewrite H. reflexivity.
    - intros (_ & _ & H). unfold id_prim. rewrite H. reflexivity.
  Qed.

  Lemma text_any_str sh raw : thint_of sh = THAny ->
    text_visit sh raw = visit_prim F sh (PStr (tdec decode raw)).
  Proof. intros H. unfold text_visit. rewrite H. reflexivity. Qed.

  (* ---- integers ---- *)
  Definition int_tok (w : iwidth) (z : Z) : BinDoc.bscalar :=
    match w with
    | WI32 => BinDoc.SI32 z | WU32 => BinDoc.SU32 (Z.to_N z)
    | WI64 => BinDoc.SI64 z | WU64 => BinDoc.SU64 (Z.to_N z)
    end.

  Lemma int_tok_prim w z : int_fits w z ->
    exists p, BinDoc.scalar_prim cfg (int_tok w z) = Ok p /\ prim_int p = Some z /\
              (forall sh, match sh with ShU _ | ShI _ | ShF32 | ShF64 | ShBool => True | _ => False end ->
                          visit_prim F sh p = visit_prim F sh (PI64 z)).
  Proof.
    destruct w; cbn [int_fits int_tok BinDoc.scalar_prim]; intros H.
    - exists (PI32 z). repeat split. intros sh Hs. destruct sh; try contradiction; reflexivity.
    - exists (PU (Z.to_N z)). cbn [prim_int]. rewrite Z2N.id by lia. repeat split.
      intros sh Hs. destruct sh; try contradiction; cbn [visit_prim prim_int]; rewrite ?Z2N.id by lia; reflexivity.
    - exists (PI64 z). repeat split.
    - exists (PU (Z.to_N z)). cbn [prim_int]. rewrite Z2N.id by lia. repeat split.
      intros sh Hs. destruct sh; try contradiction; cbn [visit_prim prim_int]; rewrite ?Z2N.id by lia; reflexivity.
  Qed.

  Lemma int_fits_range w z : int_fits w z -> (- 2 ^ 63 <= z < 2 ^ 64)%Z.
  Proof. destruct w; cbn [int_fits]; lia. Qed.

  (* unsigned targets of every width: the value when it is in range, the same refusal otherwise *)
  Lemma int_agree_u bits w z : int_fits w z -> (- 2 ^ 63 < z)%Z ->
    text_visit (ShU bits) (fmt_int 0 z) = bin_visit (ShU bits) (int_tok w z).
  Proof.
    intros Hf Hm. pose proof (int_fits_range w z Hf) as Hr.
    destruct (int_tok_prim w z Hf) as (p & Hp & Hi & Hv).
    unfold bin_visit. rewrite Hp. cbn [obind]. rewrite (Hv (ShU bits) I).
    unfold text_visit. cbn [thint_of scalar_prim].
    destruct (Z.ltb_spec z 0) as [Hn|Hn].
    - rewrite (to_u64_fmt_neg z Hn). cbn [tvisit_prim sprim visit_prim prim_int]. rewrite in_u_neg by exact Hn. reflexivity.
    - rewrite (to_u64_fmt_nonneg z ltac:(lia)). unfold tvisit_prim. cbn [sprim visit_prim prim_int].
      rewrite Z2N.id by lia. reflexivity.
  Qed.

  Lemma int_agree_i bits w z : int_fits w z -> (- 2 ^ 63 < z)%Z ->
    text_visit (ShI bits) (fmt_int 0 z) = bin_visit (ShI bits) (int_tok w z).
  Proof.
    intros Hf Hm. pose proof (int_fits_range w z Hf) as Hr.
    destruct (int_tok_prim w z Hf) as (p & Hp & Hi & Hv).
    unfold bin_visit. rewrite Hp. cbn [obind]. rewrite (Hv (ShI bits) I).
    unfold text_visit. cbn [thint_of scalar_prim].
    destruct (Z.ltb_spec z (2 ^ 63)) as [Hn|Hn].
    - rewrite (to_i64_fmt z ltac:(lia)). reflexivity.
    - rewrite (to_i64_fmt_big z ltac:(lia)). cbn [tvisit_prim sprim visit_prim prim_int]. rewrite in_i_big by exact Hn. reflexivity.
  Qed.

  Lemma int_agree_bool w z : int_fits w z ->
    text_visit ShBool (fmt_int 0 z) = bin_visit ShBool (int_tok w z).
  Proof.
    intros Hf. pose proof (int_fits_range w z Hf) as Hr.
    destruct (int_tok_prim w z Hf) as (p & Hp & Hi & Hv).
    unfold bin_visit. rewrite Hp. cbn [obind]. rewrite (Hv ShBool I).
    unfold text_visit. cbn [thint_of scalar_prim]. rewrite (to_bool_fmt z ltac:(lia)). reflexivity.
  Qed.

  Lemma int_agree_float sh w z : sh = ShF32 \/ sh = ShF64 -> int_fits w z -> int_float_ok pf cfg z ->
    text_visit sh (fmt_int 0 z) = bin_visit sh (int_tok w z).
  Proof.
    intros Hs Hf (b & Hb & H64 & H32).
    destruct (int_tok_prim w z Hf) as (p & Hp & Hi & Hv).
    unfold bin_visit. rewrite Hp. cbn [obind].
    destruct Hs as [-> | ->]; [rewrite (Hv ShF32 I)|rewrite (Hv ShF64 I)]; unfold text_visit; cbn [thint_of scalar_prim]; rewrite Hb;
      unfold tvisit_prim; cbn [sprim visit_prim prim_int]; congruence.
  Qed.

  (* ---- booleans ---- *)
  Lemma bool_agree sh (b : bool) : match sh return Prop with ShBool | ShU _ | ShI _ => True | _ => False end ->
    text_visit sh (if b then STR_YES else STR_NO) = bin_visit sh (BinDoc.SBool b).
  Proof. intros Hs. destruct sh; try contradiction; destruct b; reflexivity. Qed.

  (* ---- strings: quoted / unquoted literal, or a token id the resolver knows ---- *)
  Definition str_inert (sh : shape) (raw : bytes) : Prop :=
    match sh with
    | ShStr | ShAny | ShDate | ShDateHour => True
    | ShBool => is_ok (to_bool raw) = false
    | ShU bits => is_ok (to_u64 raw) = false
    | ShI _ => is_ok (to_i64 raw) = false
    | ShF32 | ShF64 => is_ok (pf raw) = false
    | _ => False
    end.

  Lemma str_agree sh f raw s : str_inert sh raw -> str_ok decode cfg f raw s ->
    text_visit sh raw = bin_visit sh (bin_str f s).
  Proof.
    intros Hi Hs. unfold bin_visit. rewrite (str_prim_ok f raw s Hs). cbn [obind].
    unfold text_visit, tvisit_prim.
    destruct sh; cbn [str_inert] in Hi; try contradiction; cbn [thint_of scalar_prim]; try reflexivity.
    - destruct (to_bool raw); try discriminate; reflexivity.
    - destruct (to_u64 raw); try discriminate; reflexivity.
    - destruct (to_i64 raw); try discriminate; reflexivity.
    - destruct (pf raw); try discriminate; reflexivity.
    - destruct (pf raw); try discriminate; reflexivity.
  Qed.

  Lemma str_agree_enum names f raw s : str_ok decode cfg f raw s ->
    tvisit_variant names (pstr (decode raw)) = (do p <- BinDoc.scalar_prim cfg (bin_str f s); visit_variant names p).
  Proof. intros Hs. rewrite (str_prim_ok f raw s Hs). reflexivity. Qed.

  (* ---- dates: `Y.M.D` against the I32 of Date::to_binary, or against the same string ---- *)
  Lemma date_agree c y m d wide q : date_ok decode y m d wide -> scalar_enc_ok decode cfg c (LDate y m d wide q) ->
    text_visit ShDate (date_text y m d wide) = bin_visit ShDate (bin_scalar c (LDate y m d wide q)).
  Proof.
    intros (Hy & Hv & Hst) He. destruct (date_both y m d wide Hy Hv) as [Ht Hb].
    rewrite (text_any_str ShDate _ eq_refl). rewrite Hst.
    cbn [bin_scalar scalar_enc_ok] in *. destruct (ch_date_i32 c).
    - unfold bin_visit. cbn [BinDoc.scalar_prim obind visit_prim]. rewrite Ht, Hb. reflexivity.
    - unfold bin_visit. rewrite (str_prim_ok _ _ _ He). cbn [obind]. rewrite Hst. reflexivity.
  Qed.

  (* ---- floats, under float_shared ---- *)
  Lemma float_agree sh c raw p32 p64 : sh = ShF32 \/ sh = ShF64 -> float_ok pf cfg raw p32 p64 ->
    text_visit sh raw = bin_visit sh (bin_scalar c (LFloat raw p32 p64)).
  Proof.
    intros Hs (b & Hb & H64 & H3264 & H32). unfold text_visit, bin_visit, tvisit_prim. cbn [bin_scalar].
    destruct Hs as [-> | ->]; cbn [thint_of scalar_prim]; rewrite Hb; destruct (ch_f32 c);
      cbn [BinDoc.scalar_prim obind sprim visit_prim]; congruence.
  Qed.

  (* ---- all of it: the table of LogicDoc.scalar_shared ---- *)
  Theorem scalar_agree core c l : (forall names, core <> ShEnum names) ->
    scalar_shared decode pf cfg core l -> scalar_enc_ok decode cfg c l ->
    text_visit core (snd (text_scalar l)) = bin_visit core (bin_scalar c l).
  Proof.
    intros Hne Hs He. destruct l as [z|b|k s|y m d wide q|raw p32 p64]; cbn [text_scalar snd scalar_shared scalar_enc_ok] in *.
    - destruct Hs as [Hr Hs]. change (bin_scalar c (LInt z)) with (int_tok (ch_int c) z).
      destruct core; try contradiction.
      + apply int_agree_bool; assumption.
      + apply int_agree_u; [assumption|lia].
      + apply int_agree_i; [assumption|lia].
      + apply int_agree_float; auto.
      + apply int_agree_float; auto.
    - apply bool_agree. destruct core; try contradiction; exact I.
    - cbn [bin_scalar]. destruct core; try contradiction;
        try (apply str_agree; [cbn [str_inert]; tauto|assumption]).
      exfalso. eapply Hne. reflexivity.
    - destruct core; try contradiction. apply date_agree; assumption.
    - destruct core; try contradiction; apply float_agree; auto.
  Qed.
End Scalars.
