(* C06 (text half), part 2: scanners consume, tape-operation lemmas on [chainrep], the loop
   invariant is preserved by every arm of [step], no Crash, measure decreases. *)
From JV Require Import Bytes Tables TextTok TextTape TextTapeWf.
From JV.proofs Require Import TextTapeWfProofs.
Require Import Lia.
Open Scope nat_scope.

(* ---------- byte-literal matches as tests (higher-order rewrite lemmas) ---------- *)
Ltac brute_pos p := do 8 (try destruct p as [p|p|]; auto).

Lemma match_b125 : forall (A : Type) (l : bytes) (f : bytes -> A) (g : A),
  match l with 125%N :: r => f r | _ => g end =
  match l with c :: r => if N.eqb c 125 then f r else g | [] => g end.
Proof. intros A l f g. destruct l as [|c r]; auto. destruct c as [|p]; auto. brute_pos p. Qed.

Lemma match_b93 : forall (A : Type) (l : bytes) (f : bytes -> A) (g : A),
  match l with 93%N :: r => f r | _ => g end =
  match l with c :: r => if N.eqb c 93 then f r else g | [] => g end.
Proof. intros A l f g. destruct l as [|c r]; auto. destruct c as [|p]; auto. brute_pos p. Qed.

Lemma match_b61 : forall (A : Type) (l : bytes) (f : bytes -> A) (g : A),
  match l with 61%N :: r => f r | _ => g end =
  match l with c :: r => if N.eqb c 61 then f r else g | [] => g end.
Proof. intros A l f g. destruct l as [|c r]; auto. destruct c as [|p]; auto. brute_pos p. Qed.

Lemma match_o91 : forall (A : Type) (o : option N) (f g : A),
  match o with Some 91%N => f | _ => g end =
  match o with Some c => if N.eqb c 91 then f else g | None => g end.
Proof. intros A o f g. destruct o as [c|]; auto. destruct c as [|p]; auto. brute_pos p. Qed.

Lemma match_o33 : forall (A : Type) (o : option N) (f g : A),
  match o with Some 33%N => f | _ => g end =
  match o with Some c => if N.eqb c 33 then f else g | None => g end.
Proof. intros A o f g. destruct o as [c|]; auto. destruct c as [|p]; auto. brute_pos p. Qed.

(* ---------- scanners ---------- *)
Lemma skip_ws_c_spec : forall d b d', skip_ws_c b d = Some d' -> d' <> [] /\ exists pre, d = pre ++ d'.
Proof.
  induction d as [|c r IH]; intros b d' H; cbn [skip_ws_c] in H; [discriminate|].
  assert (K : forall b', skip_ws_c b' r = Some d' -> d' <> [] /\ exists pre, c :: r = pre ++ d').
  { intros b' H'. apply IH in H'. destruct H' as (A & pre & ->). split; [exact A|].
    exists (c :: pre). reflexivity. }
  destruct b.
  - destruct (beq c 10); eapply K; eauto.
  - destruct (is_ws_t c); [eapply K; eauto|].
    destruct (beq c 35); [eapply K; eauto|].
    injection H as <-. split; [discriminate|]. exists []. reflexivity.
Qed.

Lemma skip_ws_t_spec : forall d d', skip_ws_t d = Some d' -> d' <> [] /\ exists pre, d = pre ++ d'.
Proof. intros d d'. apply skip_ws_c_spec. Qed.

Lemma skip_ws_t_len : forall d d', skip_ws_t d = Some d' -> d' <> [] /\ length d' <= length d.
Proof.
  intros d d' H. apply skip_ws_t_spec in H. destruct H as (A & pre & ->). split; [exact A|].
  rewrite app_length. lia.
Qed.

Lemma split_idx_pos : forall d, 1 <= split_idx d.
Proof.
  intros d. unfold split_idx, split_at_scalar_fallback_idx.
  destruct (simd_scan (S (length d)) d 0); lia.
Qed.

Lemma split_at_scalar_spec : forall d, d <> [] ->
  exists a b, split_at_scalar d = Ok (a, b) /\ d = a ++ b /\ a <> [].
Proof.
  intros d Hd. destruct d as [|c r]; [congruence|].
  unfold split_at_scalar. eexists _, _. split; [reflexivity|].
  split; [symmetry; apply firstn_skipn|].
  pose proof (split_idx_pos (c :: r)) as P.
  destruct (split_idx (c :: r)); [lia|]. cbn. discriminate.
Qed.

Lemma split_at_scalar_len : forall d, d <> [] ->
  exists a b, split_at_scalar d = Ok (a, b) /\ length b < length d.
Proof.
  intros d Hd. destruct (split_at_scalar_spec d Hd) as (a & b & E & -> & Ha).
  exists a, b. split; [exact E|]. rewrite app_length. destruct a; [congruence|]. cbn. lia.
Qed.

Lemma skipn_len_le : forall (A : Type) n (l : list A), length (skipn n l) <= length l.
Proof. intros. rewrite skipn_length. lia. Qed.

Definition consumes {A : Type} (d : bytes) (r : outcome (A * bytes)) : Prop :=
  match r with
  | Ok (_, d') => length d' < length d
  | Err _ => True
  | _ => False
  end.

Lemma parse_quote_scalar_spec : forall d, d <> [] -> consumes d (parse_quote_scalar d).
Proof.
  intros d Hd. destruct d as [|c h]; [congruence|]. unfold parse_quote_scalar.
  destruct (pq_simd (S (length h)) h 0) as [i|].
  - unfold consumes. cbn [length]. pose proof (skipn_len_le _ (S i) h). lia.
  - destruct (tq_scan h 0) as [i|]; unfold consumes; [|exact I].
    cbn [length]. pose proof (skipn_len_le _ (S i) h). lia.
Qed.

Lemma split_at_scalar_consumes : forall d, d <> [] -> consumes d (split_at_scalar d).
Proof.
  intros d Hd. destruct (split_at_scalar_len d Hd) as (a & b & -> & L). exact L.
Qed.

Lemma parse_variable_spec : forall d, d <> [] -> consumes d (parse_variable d).
Proof.
  intros d Hd. unfold parse_variable.
  destruct d as [|c0 [|c1 r]]; try (apply split_at_scalar_consumes; assumption).
  destruct (beq c1 91); [|apply split_at_scalar_consumes; assumption].
  destruct (find_idx _ r 2) as [pos|]; unfold consumes; [|exact I].
  rewrite skipn_length. cbn [length]. lia.
Qed.

Lemma scalar_step_spec : forall d c, d <> [] ->
  match scalar_step d c with
  | Ok (tok, d') => plainb tok = true /\ length d' < length d
  | Err _ => True
  | _ => False
  end.
Proof.
  intros d c Hd. unfold scalar_step.
  destruct (beq c 34).
  - pose proof (parse_quote_scalar_spec d Hd) as P.
    destruct (parse_quote_scalar d) as [[a b]| | | |]; cbn in *; auto.
  - destruct (beq c 64).
    + pose proof (parse_variable_spec d Hd) as P.
      destruct (parse_variable d) as [[a b]| | | |]; cbn in *; auto.
    + pose proof (split_at_scalar_consumes d Hd) as P.
      destruct (split_at_scalar d) as [[a b]| | | |]; cbn in *; auto.
Qed.

Lemma op2_spec : forall d o n, op2 d = Some (o, n) -> 1 <= n /\ n <= length d.
Proof.
  intros d o n H. destruct d as [|c r]; [discriminate|].
  assert (G : forall (x : option (operator * nat)), x = Some (o, n) ->
              (x = None \/ (exists o', x = Some (o', 1)) \/ (exists o', x = Some (o', 2) /\ r <> [])) ->
              1 <= n /\ n <= length (c :: r)).
  { intros x E [->|[(o' & ->)|(o' & -> & Hr)]]; try discriminate; injection E as <- <-; cbn [length].
    - lia.
    - destruct r; [congruence|]. cbn [length]. lia. }
  apply (G _ H). clear G H.
  unfold op2.
  destruct c as [|p]; [left; reflexivity|].
  assert (D : forall (o1 o2 : operator),
     (match r with 61%N :: _ => Some (o1, 2) | _ => Some (o2, 1) end = None) \/
     (exists o', match r with 61%N :: _ => Some (o1, 2) | _ => Some (o2, 1) end = Some (o', 1)) \/
     (exists o', match r with 61%N :: _ => Some (o1, 2) | _ => Some (o2, 1) end = Some (o', 2) /\ r <> [])).
  { intros o1 o2. rewrite (match_b61 _ r (fun _ => Some (o1, 2)) (Some (o2, 1))).
    destruct r as [|c' r']; [right; left; eauto|].
    destruct (N.eqb c' 61); [right; right; eexists; split; [reflexivity|discriminate]|right; left; eauto]. }
  assert (D' : forall (o1 : operator),
     (match r with 61%N :: _ => Some (o1, 2) | _ => @None (operator * nat) end = None) \/
     (exists o', match r with 61%N :: _ => Some (o1, 2) | _ => None end = Some (o', 1)) \/
     (exists o', match r with 61%N :: _ => Some (o1, 2) | _ => None end = Some (o', 2) /\ r <> [])).
  { intros o1. rewrite (match_b61 _ r (fun _ => Some (o1, 2)) None).
    destruct r as [|c' r']; [left; reflexivity|].
    destruct (N.eqb c' 61); [right; right; eexists; split; [reflexivity|discriminate]|left; reflexivity]. }
  do 8 (try destruct p as [p|p|]; try (left; reflexivity); try apply D; try apply D').
Qed.

(* ---------- tape operations ---------- *)
Lemma tset_mid : forall t0 c V x, tset (t0 ++ c :: V) (length t0) x = Some (t0 ++ x :: V).
Proof.
  induction t0 as [|a t0 IH]; intros c V x; cbn [app length tset]; [reflexivity|].
  rewrite IH. reflexivity.
Qed.

Lemma tset_last : forall t0 c x, tset (t0 ++ [c]) (length t0) x = Some (t0 ++ [x]).
Proof. intros. apply tset_mid. Qed.

Lemma tlast_snoc : forall t x, tlast (t ++ [x]) = Some x.
Proof.
  intros. unfold tlast. rewrite app_length. cbn [length].
  replace (length t + 1 - 1) with (length t) by lia. apply nth_error_snoc_len.
Qed.

Lemma tlast_some : forall t x, tlast t = Some x -> exists t1, t = t1 ++ [x].
Proof.
  intros t x H. destruct (list_last_cases _ t) as [->|(t1 & y & ->)]; [discriminate|].
  rewrite tlast_snoc in H. injection H as ->. eauto.
Qed.

Lemma tinsert_snoc : forall t1 x y, tinsert_before_last (t1 ++ [x]) y = Some (t1 ++ [y; x]).
Proof.
  intros. unfold tinsert_before_last. rewrite app_length. cbn [length].
  replace (length t1 + 1) with (S (length t1)) by lia.
  rewrite firstn_app, Nat.sub_diag, firstn_all. cbn [firstn]. rewrite app_nil_r.
  rewrite skipn_app, Nat.sub_diag, skipn_all. reflexivity.
Qed.

Lemma slot_def : forall t i,
  slot t i = match nth_error t i with
             | Some x => match cont_end x with Some e => e | None => 0 end
             | None => 0
             end.
Proof. intros. unfold slot, tget. destruct (nth_error t i) as [[]|]; reflexivity. Qed.

(* ---------- chainrep ---------- *)
Lemma chainrep_inv : forall t p, chainrep t p ->
  (p = 0 /\ closed 0 t) \/
  (exists t0 p0 c V, t = t0 ++ c :: V /\ p = length t0 /\ chainrep t0 p0 /\ t0 <> [] /\
                     cont_end c = Some p0 /\ closed (S (length t0)) V).
Proof. intros t p H. destruct H; [left; auto|right; eauto 12]. Qed.

Lemma length_nonnil : forall (A : Type) (l : list A), l <> [] -> length l <> 0.
Proof. intros A l H. destruct l; [congruence|cbn; lia]. Qed.

Lemma chainrep_top : forall t, chainrep t 0 -> closed 0 t.
Proof.
  intros t H. destruct (chainrep_inv _ _ H) as [[_ C]|(t0 & p0 & c & V & _ & E & _ & N & _)]; [exact C|].
  apply length_nonnil in N. lia.
Qed.

Lemma closed0_head : forall V x, closed 0 V -> nth_error V 0 = Some x -> cont_end x = None.
Proof.
  intros V x H Hx. inversion H; subst.
  - discriminate.
  - cbn in Hx. injection Hx as <-. apply plain_not_cont. assumption.
  - congruence.
Qed.

Lemma chainrep_head : forall t p x, chainrep t p -> nth_error t 0 = Some x -> cont_end x = None.
Proof.
  intros t p x H. revert x. induction H as [V HV|t0 p0 c V H0 IH N Hc HV]; intros x Hx.
  - eapply closed0_head; eauto.
  - apply IH. destruct t0; [congruence|]. exact Hx.
Qed.

Lemma chainrep_slot0 : forall t p, chainrep t p -> slot t 0 = 0.
Proof.
  intros t p H. rewrite slot_def. destruct (nth_error t 0) as [x|] eqn:E; [|reflexivity].
  rewrite (chainrep_head _ _ _ H E). reflexivity.
Qed.

Lemma chainrep_app_closed : forall t p W, chainrep t p -> closed (length t) W -> chainrep (t ++ W) p.
Proof.
  intros t p W H HW. destruct H as [V HV|t0 p0 c V H0 N Hc HV].
  - apply cr_top. apply closed_app; assumption.
  - rewrite <- app_assoc. cbn [app]. apply cr_open with (p0 := p0); try assumption.
    apply closed_app; [assumption|].
    rewrite app_length in HW. cbn [length] in HW.
    replace (S (length t0) + length V) with (length t0 + S (length V)) by lia. exact HW.
Qed.

Lemma chainrep_push_plain : forall t p x, chainrep t p -> plainb x = true -> chainrep (tpush t x) p.
Proof. intros. apply chainrep_app_closed; [assumption|]. apply closed_one_plain. assumption. Qed.

Lemma chainrep_snoc_inv : forall t p x, chainrep (t ++ [x]) p -> plainb x = true -> chainrep t p.
Proof.
  intros t p x H Hx.
  destruct (chainrep_inv _ _ H) as [[-> C]|(t0 & p0 & c & V & E & -> & H0 & N & Hc & HV)].
  - apply cr_top. eapply closed_snoc_inv; eauto.
  - destruct (list_last_cases _ V) as [->|(V' & y & ->)].
    + apply app_inj_tail in E. destruct E as [_ <-].
      rewrite (cont_not_plain _ _ Hc) in Hx. discriminate.
    + assert (E' : t ++ [x] = (t0 ++ c :: V') ++ [y]).
      { rewrite E, <- app_assoc. reflexivity. }
      apply app_inj_tail in E'. destruct E' as [-> ->].
      apply cr_open with (p0 := p0); try assumption. eapply closed_snoc_inv; eauto.
Qed.

Lemma chainrep_close : forall t0 p0 V c',
  chainrep t0 p0 -> t0 <> [] -> closed (S (length t0)) V ->
  cont_end c' = Some (length t0 + 1 + length V) ->
  chainrep (t0 ++ c' :: V ++ [TEnd (length t0)]) p0.
Proof.
  intros t0 p0 V c' H0 N HV Hc. apply chainrep_app_closed; [assumption|].
  apply cl_cont; try assumption.
  - apply length_nonnil. assumption.
  - apply cl_nil.
Qed.

Lemma chainrep_nonnil_lt : forall t p, chainrep t p -> t <> [] -> p < length t.
Proof.
  intros t p H N. destruct (chainrep_inv _ _ H) as [[-> C]|(t0 & p0 & c & V & -> & -> & _)].
  - apply length_nonnil in N. lia.
  - rewrite app_length. cbn [length]. lia.
Qed.

(* ---------- the step postcondition ---------- *)
Definition post (bound : nat) (r : step_res) : Prop :=
  match r with
  | Next s' => Inv s' /\ mu s' < bound
  | Done t => closed 0 t
  | Fail _ => True
  | Crash _ => False
  end.

Definition st_bonus (st : pst) : nat := match st with SKvs | SOpen => 1 | _ => 0 end.

Lemma post_next : forall b d st m p t,
  inv st p t -> 2 * length d + st_bonus st < b -> post b (Next (mkps d st m p t)).
Proof. intros. split; assumption. Qed.

Lemma post_keep_mixed : forall b m r, post b r -> post b (keep_mixed m r).
Proof. intros b m [s'|t|e|x] H; exact H. Qed.

Lemma restore_cases : forall t g st m, restore t g = (st, m) -> st = SKey \/ (st = SArrVal /\ t <> []).
Proof.
  intros t g st m H. unfold restore, tget in H.
  destruct (nth_error t g) as [x|] eqn:E.
  - assert (N : t <> []) by (intros ->; destruct g; discriminate).
    destruct x; try (injection H as <- <-; tauto).
    destruct mixed; injection H as <- <-; tauto.
  - injection H as <- <-; tauto.
Qed.

Lemma inv_restore : forall t g st m t' p,
  restore t g = (st, m) -> chainrep t' p -> t' <> [] -> inv st p t'.
Proof.
  intros t g st m t' p H C N. destruct (restore_cases _ _ _ _ H) as [->|[-> _]]; cbn [inv]; auto.
Qed.

Lemma slot_mid : forall t0 c V p0, cont_end c = Some p0 -> slot (t0 ++ c :: V) (length t0) = p0.
Proof.
  intros. rewrite slot_def, nth_error_mid, Nat.ltb_irrefl, Nat.eqb_refl, H. reflexivity.
Qed.

(* closing the current container from Key state (its token becomes Object{end}) *)
Lemma close_key : forall t p m, chainrep t p -> ~ (p = 0 /\ slot t p = 0) ->
  exists t', tset (tpush t (TEnd p)) p (TObject (length t) m) = Some t' /\
             chainrep t' (slot t p) /\ t' <> [].
Proof.
  intros t p m H Hn.
  destruct (chainrep_inv _ _ H) as [[-> C]|(t0 & p0 & c & V & -> & -> & H0 & N & Hc & HV)].
  - exfalso. apply Hn. split; [reflexivity|]. eapply chainrep_slot0; eauto.
  - unfold tpush. rewrite <- app_assoc. cbn [app]. rewrite tset_mid.
    eexists. split; [reflexivity|]. split.
    + rewrite (slot_mid _ _ _ _ Hc). apply chainrep_close; try assumption.
      cbn [cont_end]. rewrite app_length. cbn [length]. f_equal. lia.
    + destruct t0; discriminate.
Qed.

(* closing from ArrayValue state (the token keeps its kind) *)
Lemma close_arr : forall t p, chainrep t p -> ~ (p = 0 /\ slot t p = 0) ->
  exists c, tget t p = Some c /\ cont_end c = Some (slot t p) /\
  forall c', cont_end c' = Some (length t) ->
  exists t', tset t p c' = Some t' /\ chainrep (tpush t' (TEnd p)) (slot t p).
Proof.
  intros t p H Hn.
  destruct (chainrep_inv _ _ H) as [[-> C]|(t0 & p0 & c & V & -> & -> & H0 & N & Hc & HV)].
  - exfalso. apply Hn. split; [reflexivity|]. eapply chainrep_slot0; eauto.
  - exists c. rewrite (slot_mid _ _ _ _ Hc). unfold tget.
    rewrite nth_error_mid, Nat.ltb_irrefl, Nat.eqb_refl. split; [reflexivity|]. split; [exact Hc|].
    intros c' Hc'. rewrite tset_mid. eexists. split; [reflexivity|].
    unfold tpush. rewrite <- app_assoc. cbn [app]. apply chainrep_close; try assumption.
    rewrite Hc'. rewrite app_length. cbn [length]. f_equal. lia.
Qed.

(* ---------- parse_parameter_definition ---------- *)
Lemma parse_param_post : forall b d p st t (initial : bool),
  2 * length d <= b ->
  (if initial then exists t', t = t' ++ [TArray 0 false] /\ t' <> [] /\ chainrep t' p
   else chainrep t p) ->
  post b (parse_param d p st t initial).
Proof.
  intros b d p st t initial Hb Hpre. unfold parse_param.
  rewrite match_o91. destruct (nth_error d 1) as [c1|]; [|exact I].
  destruct (N.eqb c1 91); [|exact I].
  match goal with |- context [if initial then ?a else ?bb] => set (init := if initial then a else bb) end.
  assert (Hinit : exists t2 p2, init = Some (t2, p2) /\ chainrep t2 p2).
  { subst init. destruct initial.
    - destruct Hpre as (t' & -> & N & C).
      rewrite app_length. cbn [length]. replace (length t' + 1) with (S (length t')) by lia.
      rewrite tset_last. eexists _, _. split; [reflexivity|].
      apply cr_open with (p0 := p) (V := []); try assumption; [reflexivity|apply cl_nil].
    - eexists _, _. split; [reflexivity|exact Hpre]. }
  destruct Hinit as (t2 & p2 & Einit & C2). rewrite Einit. clear Hpre Einit init.
  rewrite match_o33.
  set (undefined := match nth_error d 2 with Some c => if N.eqb c 33 then true else false | None => false end).
  set (off := if undefined then 3 else 2).
  assert (Hoff : 2 <= off) by (subst off; destruct undefined; lia).
  destruct (Nat.ltb_spec (length d) off) as [|Hlen]; [exact I|].
  destruct (skipn off d) as [|ca da] eqn:Hsk; [exact I|].
  assert (Lsk : length (ca :: da) + off = length d).
  { rewrite <- Hsk, skipn_length. lia. }
  destruct (split_at_scalar_len (ca :: da) ltac:(discriminate)) as (name & db & -> & Ldb).
  rewrite match_b93. destruct db as [|cb dc]; [exact I|].
  destruct (N.eqb cb 93); [|exact I].
  destruct (skip_ws_t dc) as [de|] eqn:Hws1; [|exact I].
  destruct (skip_ws_t_len _ _ Hws1) as [Nde Lde].
  destruct (split_at_scalar_len de Nde) as (kv & df & -> & Ldf).
  destruct (skip_ws_t df) as [dg|] eqn:Hws2; [|exact I].
  destruct (skip_ws_t_len _ _ Hws2) as [Ndg Ldg].
  set (ptok := if undefined then TUndefinedParameter name else TParameter name).
  assert (Hp : plainb ptok = true) by (subst ptok; destruct undefined; reflexivity).
  assert (C3 : chainrep (tpush t2 ptok) p2) by (apply chainrep_push_plain; assumption).
  cbn [length] in *.
  rewrite match_b93. destruct dg as [|cg d']; [congruence|]. cbn [length] in *.
  destruct (N.eqb cg 93).
  - apply post_next.
    + cbn [inv]. apply chainrep_push_plain; [assumption|reflexivity].
    + cbn [st_bonus]. lia.
  - apply post_next.
    + cbn [inv]. split.
      * unfold tpush at 1 2. rewrite <- app_assoc. cbn [app].
        apply cr_open with (p0 := p2); try assumption.
        { unfold tpush. destruct t2; discriminate. }
        { reflexivity. }
        { apply closed_one_plain. reflexivity. }
      * eexists _, _. split; [reflexivity|reflexivity].
    + cbn [st_bonus length]. lia.
Qed.

(* ---------- the arms of step, state by state ---------- *)
Ltac step_unfold := unfold step; cbv zeta; cbn [pdata pst_ pmixed pparent ptape].

Lemma step_SKey : forall d m p t, chainrep t p -> post (2 * length d) (step (mkps d SKey m p t)).
Proof.
  intros d m p t C. step_unfold.
  destruct (skip_ws_t d) as [d0|] eqn:Hws.
  2: { destruct (Nat.eqb_spec p 0) as [->|Np].
       - cbn [post]. apply chainrep_top; assumption.
       - destruct (Nat.eqb_spec (slot t p) 0) as [Es|Ns]; [|exact I].
         destruct (close_key t p false C ltac:(tauto)) as (t' & -> & C' & _).
         cbn [post]. apply chainrep_top. rewrite <- Es. exact C'. }
  destruct (skip_ws_t_len _ _ Hws) as [Nd0 Ld0].
  destruct d0 as [|c d1]; [congruence|]. cbn [length] in Ld0.
  destruct (beq c 125 || beq c 93).
  - destruct (restore t (slot t p)) as [st' m'] eqn:Hr.
    destruct (Nat.eqb_spec p 0) as [->|Np]; cbn [andb].
    + destruct (Nat.eqb_spec (slot t 0) 0) as [Es|Ns].
      * apply post_next.
        -- destruct (restore_cases _ _ _ _ Hr) as [->|[-> N]]; cbn [inv]; auto.
        -- destruct (restore_cases _ _ _ _ Hr) as [->|[-> N]]; cbn [st_bonus]; lia.
      * exfalso. apply Ns. eapply chainrep_slot0; eauto.
    + destruct (close_key t p m C ltac:(tauto)) as (t' & -> & C' & N').
      apply post_next; [eapply inv_restore; eauto|].
      destruct (restore_cases _ _ _ _ Hr) as [->|[-> _]]; cbn [st_bonus]; lia.
  - destruct (beq c 123).
    + destruct (skip_ws_t d1) as [d2|] eqn:Hws2; [|exact I].
      destruct (skip_ws_t_len _ _ Hws2) as [Nd2 Ld2].
      rewrite match_b125. destruct d2 as [|c2 d3]; [congruence|]. cbn [length] in Ld2.
      destruct (N.eqb c2 125).
      * apply post_next; [exact C|cbn [st_bonus]; lia].
      * destruct (tlast t) as [x|] eqn:Hl; [|exact I].
        destruct x; try exact I.
        destruct (tlast_some _ _ Hl) as (t1 & ->).
        rewrite app_length. cbn [length]. replace (length t1 + 1 - 1) with (length t1) by lia.
        rewrite tset_last.
        apply post_next.
        -- cbn [inv]. exists (t1 ++ [THeader s]). split; [reflexivity|]. split; [destruct t1; discriminate|].
           apply chainrep_push_plain; [|reflexivity]. eapply chainrep_snoc_inv; eauto.
        -- cbn [st_bonus length]. lia.
    + destruct (beq c 91).
      * apply post_keep_mixed. apply parse_param_post; [cbn [length]; lia|exact C].
      * pose proof (scalar_step_spec (c :: d1) c ltac:(discriminate)) as P.
        destruct (scalar_step (c :: d1) c) as [[tok d']| | | |]; try exact I; try contradiction.
        destruct P as [Pt Pl]. cbn [length] in Pl.
        apply post_next.
        -- cbn [inv]. split; [apply chainrep_push_plain; assumption|].
           eexists _, _. split; [reflexivity|assumption].
        -- cbn [st_bonus]. lia.
Qed.

Lemma snoc_nonnil : forall (A : Type) (l : list A) x, l ++ [x] <> [].
Proof. intros A l x. destruct l; discriminate. Qed.

Lemma chainrep_insert_mixed : forall t1 x p,
  chainrep (t1 ++ [x]) p -> plainb x = true -> chainrep (t1 ++ [TMixedContainer; x]) p.
Proof.
  intros t1 x p C Px. apply chainrep_app_closed.
  - eapply chainrep_snoc_inv; eauto.
  - apply cl_plain; [reflexivity|]. apply closed_one_plain. assumption.
Qed.

Lemma step_SKvs : forall d m p t, inv SKvs p t -> post (2 * length d + 1) (step (mkps d SKvs m p t)).
Proof.
  intros d m p t [C (t1 & x & -> & Px)]. step_unfold.
  destruct (skip_ws_t d) as [d0|] eqn:Hws; [|exact I].
  destruct (skip_ws_t_len _ _ Hws) as [Nd0 Ld0].
  destruct d0 as [|c d1]; [congruence|].
  pose proof (snoc_nonnil _ t1 x) as Nt.
  destruct (op2 (c :: d1)) as [[o n]|] eqn:Hop.
  - destruct (op2_spec _ _ _ Hop) as [n1 n2].
    assert (L : length (skipn n (c :: d1)) < length (c :: d1)) by (rewrite skipn_length; lia).
    assert (G1 : forall o', post (2 * length d + 1)
              (Next (mkps (skipn n (c :: d1)) SObjVal m p (tpush (t1 ++ [x]) (TOperator o'))))).
    { intros o'. apply post_next; [|cbn [st_bonus]; lia].
      cbn [inv]. split; [apply chainrep_push_plain; [assumption|reflexivity]|apply snoc_nonnil]. }
    destruct o; try apply G1.
    destruct m.
    + apply post_next; [|cbn [st_bonus]; lia].
      cbn [inv]. split; [apply chainrep_push_plain; [assumption|reflexivity]|].
      eexists _, _. split; reflexivity.
    + apply post_next; [|cbn [st_bonus]; lia]. cbn [inv]. auto.
  - match goal with |- context [if ?cond then _ else _] => destruct cond end.
    + apply post_next; [|cbn [st_bonus]; rewrite skipn_length; cbn [length] in *; lia].
      cbn [inv]. split; [apply chainrep_push_plain; [assumption|reflexivity]|apply snoc_nonnil].
    + destruct (beq c 123).
      * apply post_next; [|cbn [st_bonus]; lia]. cbn [inv]. auto.
      * rewrite tinsert_snoc. apply post_next; [|cbn [st_bonus]; lia].
        cbn [inv]. split; [apply chainrep_insert_mixed; assumption|].
        destruct t1; discriminate.
Qed.

Lemma step_SObjVal : forall d m p t, inv SObjVal p t -> post (2 * length d) (step (mkps d SObjVal m p t)).
Proof.
  intros d m p t [C Nt]. step_unfold.
  destruct (skip_ws_t d) as [d0|] eqn:Hws; [|exact I].
  destruct (skip_ws_t_len _ _ Hws) as [Nd0 Ld0].
  destruct d0 as [|c d1]; [congruence|]. cbn [length] in Ld0.
  destruct (beq c 123).
  - apply post_next; [|cbn [st_bonus]; lia]. cbn [inv]. exists t. auto.
  - destruct (beq c 125); [exact I|].
    pose proof (scalar_step_spec (c :: d1) c ltac:(discriminate)) as P.
    destruct (scalar_step (c :: d1) c) as [[tok d']| | | |]; try exact I; try contradiction.
    destruct P as [Pt Pl]. cbn [length] in Pl.
    apply post_next; [|cbn [st_bonus]; lia].
    cbn [inv]. apply chainrep_push_plain; assumption.
Qed.

Lemma scalar_tok_plain : forall x, is_scalar_tok x = true -> plainb x = true.
Proof. destruct x; cbn; congruence. Qed.

Lemma step_SArrVal : forall d m p t, inv SArrVal p t -> post (2 * length d) (step (mkps d SArrVal m p t)).
Proof.
  intros d m p t [C Nt]. step_unfold.
  destruct (skip_ws_t d) as [d0|] eqn:Hws; [|exact I].
  destruct (skip_ws_t_len _ _ Hws) as [Nd0 Ld0].
  destruct d0 as [|c d1]; [congruence|].
  assert (GS : post (2 * length d)
     match scalar_step (c :: d1) c with
     | Ok (tok, d') => Next (mkps d' SArrVal m p (tpush t tok))
     | Err e => Fail e
     | _ => Crash 3037%N
     end /\ post (2 * length d)
     match scalar_step (c :: d1) c with
     | Ok (tok, d') => Next (mkps d' SArrVal m p (tpush t tok))
     | Err e => Fail e
     | _ => Crash 3038%N
     end).
  { pose proof (scalar_step_spec (c :: d1) c ltac:(discriminate)) as P.
    destruct (scalar_step (c :: d1) c) as [[tok d']| | | |]; try contradiction; try (split; exact I).
    destruct P as [Pt Pl].
    assert (G : post (2 * length d) (Next (mkps d' SArrVal m p (tpush t tok)))).
    { apply post_next; [|cbn [st_bonus]; lia].
      cbn [inv]. split; [apply chainrep_push_plain; assumption|apply snoc_nonnil]. }
    split; exact G. }
  destruct GS as [GS1 GS2].
  cbn [length] in Ld0.
  destruct (beq c 123).
  { apply post_next; [|cbn [st_bonus]; lia]. cbn [inv]. exists t. auto. }
  destruct (beq c 125).
  { destruct (Nat.eq_dec p 0) as [->|Np].
    - destruct (tget t 0) as [x|] eqn:E.
      + pose proof (chainrep_head _ _ _ C E) as Hx.
        destruct x; cbn in Hx; try discriminate; cbv beta match;
          destruct (restore t 0); cbn [Nat.eqb andb]; exact I.
      + cbv beta match. destruct (restore t 0); cbn [Nat.eqb andb]; exact I.
    - destruct (close_arr t p C ltac:(tauto)) as (c0 & E & Hc & K). rewrite E.
      assert (Nt' : forall t', tpush t' (TEnd p) <> []) by (intros; apply snoc_nonnil).
      destruct c0; cbn in Hc; try discriminate; injection Hc as Hc; subst e; cbv beta match;
        destruct (restore t (slot t p)) as [st' m'] eqn:Hr;
        (destruct (Nat.eqb_spec p 0); [contradiction|]); cbn [andb].
      + destruct (K (TArray (length t) m) eq_refl) as (t' & -> & C').
        apply post_next; [eapply inv_restore; eauto|].
        destruct (restore_cases _ _ _ _ Hr) as [->|[-> _]]; cbn [st_bonus]; lia.
      + destruct (K (TObject (length t) m) eq_refl) as (t' & -> & C').
        apply post_next; [eapply inv_restore; eauto|].
        destruct (restore_cases _ _ _ _ Hr) as [->|[-> _]]; cbn [st_bonus]; lia. }
  destruct (beq c 34 || beq c 64); [exact GS1|].
  match goal with |- context [if ?cond then _ else _] => destruct cond end; [|exact GS2].
  destruct m.
  - destruct (op2 (c :: d1)) as [[o n]|] eqn:Hop; [|exact I].
    destruct (op2_spec _ _ _ Hop) as [n1 n2].
    apply post_next; [|cbn [st_bonus]; rewrite skipn_length; cbn [length] in *; lia].
    cbn [inv]. split; [apply chainrep_push_plain; [assumption|reflexivity]|apply snoc_nonnil].
  - destruct (tlast t) as [x|] eqn:Hl; [|exact I].
    destruct (is_scalar_tok x) eqn:Hs; [|exact I].
    destruct (tlast_some _ _ Hl) as (t1 & ->). rewrite tinsert_snoc.
    destruct (op2 (c :: d1)) as [[o n]|] eqn:Hop; [|exact I].
    destruct (op2_spec _ _ _ Hop) as [n1 n2].
    apply post_next; [|cbn [st_bonus]; rewrite skipn_length; cbn [length] in *; lia].
    cbn [inv]. split; [|apply snoc_nonnil].
    apply chainrep_push_plain; [|reflexivity].
    apply chainrep_insert_mixed; [assumption|]. apply scalar_tok_plain. assumption.
Qed.

(* `if mixed_mode { parent.mixed = true }` only rewrites the flag of the open container *)
Lemma flag_update : forall t' p W (m : bool), chainrep t' p -> t' <> [] ->
  exists t'',
    (if m then
       match tget (t' ++ W) p with
       | Some (TArray e _) => match tset (t' ++ W) p (TArray e true) with Some x => x | None => t' ++ W end
       | Some (TObject e _) => match tset (t' ++ W) p (TObject e true) with Some x => x | None => t' ++ W end
       | _ => t' ++ W
       end
     else t' ++ W) = t'' ++ W /\ length t'' = length t' /\ chainrep t'' p /\ t'' <> [].
Proof.
  intros t' p W m C N. destruct m; [|exists t'; auto].
  destruct (chainrep_inv _ _ C) as [[-> Cl]|(t0 & p0 & c & V & -> & -> & H0 & N0 & Hc & HV)].
  - exists t'. split; [|auto]. unfold tget.
    destruct t' as [|x r]; [congruence|]. cbn [app nth_error].
    pose proof (closed0_head _ x Cl eq_refl) as Hx.
    destruct x; cbn in Hx; try discriminate; reflexivity.
  - rewrite <- app_assoc. cbn [app]. unfold tget.
    rewrite nth_error_mid, Nat.ltb_irrefl, Nat.eqb_refl.
    destruct c; cbn in Hc; try discriminate; injection Hc as ->; rewrite tset_mid.
    + exists (t0 ++ TArray p0 true :: V). split; [rewrite <- app_assoc; reflexivity|].
      split; [rewrite !app_length; reflexivity|].
      split; [apply cr_open with (p0 := p0); auto|destruct t0; discriminate].
    + exists (t0 ++ TObject p0 true :: V). split; [rewrite <- app_assoc; reflexivity|].
      split; [rewrite !app_length; reflexivity|].
      split; [apply cr_open with (p0 := p0); auto|destruct t0; discriminate].
Qed.

Lemma step_SOpen : forall d m p t, inv SOpen p t -> post (2 * length d + 1) (step (mkps d SOpen m p t)).
Proof.
  intros d m p t (t' & -> & N & C). step_unfold.
  destruct (skip_ws_t d) as [d0|] eqn:Hws; [|exact I].
  destruct (skip_ws_t_len _ _ Hws) as [Nd0 Ld0].
  destruct d0 as [|c d1]; [congruence|]. cbn [length] in Ld0.
  assert (Hlen : length (t' ++ [TArray 0 false]) = S (length t')) by (rewrite app_length; cbn [length]; lia).
  rewrite Hlen.
  destruct (beq c 125).
  { destruct (restore (t' ++ [TArray 0 false]) p) as [st' m'] eqn:Hr. rewrite tset_last.
    assert (C' : chainrep (tpush (t' ++ [TArray (S (length t')) false]) (TEnd (length t'))) p).
    { unfold tpush. rewrite <- app_assoc. cbn [app]. apply chainrep_app_closed; [exact C|].
      apply (cl_cont (length t') (TArray (S (length t')) false) [] []).
      - apply length_nonnil; assumption.
      - cbn [cont_end length]. f_equal. lia.
      - apply cl_nil.
      - apply cl_nil. }
    apply post_next; [eapply inv_restore; eauto; apply snoc_nonnil|].
    destruct (restore_cases _ _ _ _ Hr) as [->|[-> _]]; cbn [st_bonus]; lia. }
  destruct (beq c 91).
  { destruct m; [exact I|]. apply post_keep_mixed. apply parse_param_post; [cbn [length]; lia|].
    exists t'. auto. }
  destruct (beq c 123).
  { destruct (skip_ws_t d1) as [sc|] eqn:Hws2; [|exact I].
    destruct (skip_ws_t_len _ _ Hws2) as [Nsc Lsc].
    rewrite match_b125. destruct sc as [|c2 d3]; [congruence|]. cbn [length] in Lsc.
    destruct (N.eqb c2 125).
    - apply post_next; [|cbn [st_bonus]; lia]. cbn [inv]. exists t'. auto.
    - rewrite tset_last. apply post_next; [|cbn [st_bonus length]; lia].
      cbn [inv]. split; [|apply snoc_nonnil].
      apply cr_open with (p0 := p) (V := []); auto. apply cl_nil. }
  pose proof (scalar_step_spec (c :: d1) c ltac:(discriminate)) as P.
  destruct (scalar_step (c :: d1) c) as [[tok d']| | | |]; try exact I; try contradiction.
  destruct P as [Pt Pl]. cbn [length] in Pl.
  unfold tpush. rewrite <- app_assoc. cbn [app].
  destruct (flag_update t' p [TArray 0 false; tok] m C N) as (t'' & E & L & C'' & N'').
  rewrite E. clear E.
  destruct (skip_ws_t d') as [d2|] eqn:Hws3; [|exact I].
  destruct (skip_ws_t_len _ _ Hws3) as [Nd2 Ld2].
  destruct d2 as [|c2 d3]; [congruence|].
  assert (Hl2 : length (t'' ++ [TArray 0 false; tok]) = S (S (length t''))) by (rewrite app_length; cbn [length]; lia).
  rewrite Hl2.
  destruct (Nat.ltb_spec (S (S (length t''))) 2) as [|_]; [lia|].
  replace (S (S (length t'')) - 2) with (length t'') by lia.
  rewrite !tset_mid.
  assert (G : forall X, cont_end X = Some p ->
     chainrep (t'' ++ [X; tok]) (length t'') /\ exists t1 x, t'' ++ [X; tok] = t1 ++ [x] /\ plainb x = true).
  { intros X HX. split.
    - apply cr_open with (p0 := p); auto. apply closed_one_plain. assumption.
    - exists (t'' ++ [X]), tok. split; [rewrite <- app_assoc; reflexivity|assumption]. }
  destruct (beq c2 61 || beq c2 62 || beq c2 60).
  - apply post_next; [|cbn [st_bonus length] in *; lia].
    cbn [inv]. apply G. reflexivity.
  - apply post_next; [|cbn [st_bonus length] in *; lia].
    cbn [inv]. split; [apply G; reflexivity|apply snoc_nonnil || (destruct t''; discriminate)].
Qed.

(* ---------- all arms together ---------- *)
Theorem step_post : forall s, Inv s -> post (mu s) (step s).
Proof.
  intros [d st m p t] H. unfold Inv in H. cbn [pst_ pparent ptape] in H.
  unfold mu. cbn [pdata pst_].
  destruct st.
  - rewrite Nat.add_0_r. apply step_SKey; assumption.
  - apply step_SKvs; assumption.
  - rewrite Nat.add_0_r. apply step_SObjVal; assumption.
  - rewrite Nat.add_0_r. apply step_SArrVal; assumption.
  - apply step_SOpen; assumption.
Qed.

Corollary step_preserves_inv : forall s s', Inv s -> step s = Next s' -> Inv s' /\ mu s' < mu s.
Proof. intros s s' H E. pose proof (step_post s H) as P. rewrite E in P. exact P. Qed.

Corollary step_done_closed : forall s t, Inv s -> step s = Done t -> closed 0 t.
Proof. intros s t H E. pose proof (step_post s H) as P. rewrite E in P. exact P. Qed.

Corollary step_no_crash : forall s site, Inv s -> step s <> Crash site.
Proof. intros s site H E. pose proof (step_post s H) as P. rewrite E in P. exact P. Qed.

Lemma ploop_post : forall fuel s, Inv s -> mu s < fuel ->
  match ploop fuel s with
  | Ok t => closed 0 t
  | Err _ => True
  | _ => False
  end.
Proof.
  induction fuel as [|f IH]; intros s H L; [lia|].
  cbn [ploop]. pose proof (step_post s H) as P.
  destruct (step s) as [s'|t|e|x]; cbn [post] in P.
  - destruct P as [H' L']. apply IH; [assumption|lia].
  - exact P.
  - exact I.
  - exact P.
Qed.

(* without the fuel bound: whatever the fuel, no Panic / OOB, and Ok tapes are closed *)
Lemma ploop_post_anyfuel : forall fuel s, Inv s ->
  match ploop fuel s with
  | Ok t => closed 0 t
  | Err _ | OutOfFuel => True
  | _ => False
  end.
Proof.
  induction fuel as [|f IH]; intros s H; [exact I|].
  cbn [ploop]. pose proof (step_post s H) as P.
  destruct (step s) as [s'|t|e|x]; cbn [post] in P.
  - destruct P as [H' L']. apply IH; assumption.
  - exact P.
  - exact I.
  - exact P.
Qed.

Lemma Inv_init : forall data, Inv (mkps data SKey false 0 []).
Proof. intros. unfold Inv. cbn. apply cr_top. apply cl_nil. Qed.

Lemma parse_post : forall input,
  match parse input with
  | Ok (t, _) => closed 0 t
  | Err _ => True
  | _ => False
  end.
Proof.
  intros input. unfold parse.
  set (bom := match input with 239%N :: 187%N :: 191%N :: _ => true | _ => false end).
  set (data := if bom then skipn 3 input else input).
  assert (Ld : length data <= length input).
  { subst data. destruct bom; [apply skipn_len_le|lia]. }
  pose proof (ploop_post (2 * length input + 8) (mkps data SKey false 0 []) (Inv_init data)) as P.
  unfold mu in P. cbn [pdata pst_] in P. specialize (P ltac:(lia)).
  destruct (ploop (2 * length input + 8) (mkps data SKey false 0 [])); cbn; exact P.
Qed.

Theorem parse_closed : forall input t bom, parse input = Ok (t, bom) -> closed 0 t.
Proof. intros input t bom E. pose proof (parse_post input) as P. rewrite E in P. exact P. Qed.

Theorem parse_wf : forall input t bom, parse input = Ok (t, bom) -> tape_wf t.
Proof. intros. apply closed_tape_wf. eapply parse_closed; eauto. Qed.

Theorem parse_no_crash : forall input,
  match parse input with Panic _ | OOB _ | OutOfFuel => False | _ => True end.
Proof.
  intros input. pose proof (parse_post input) as P.
  destruct (parse input) as [[t b]| | | |]; auto.
Qed.
