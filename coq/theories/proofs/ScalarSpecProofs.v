(* C11 (wave 4): the models of scalar.rs equal the grammar-level specification functions of ScalarSpec.v on
   EVERY byte string (value, refusal and refusal class); payload of PrecisionLoss; cross-scale monotonicity
   of to_f64 refuted; the value of the fractional branch on strings; Display / Debug / is_ascii. *)
From Coq Require Import ZArith NArith Reals Lia Lra List Bool.
From Flocq Require Import Core.Core IEEE754.BinarySingleNaN IEEE754.Binary IEEE754.Bits.
From JV Require Import Bytes Tables Utf8 Encoding Scalar ScalarF64 ScalarSpec Date.
From JV.proofs Require Import ScalarProofs ScalarF64Proofs ScalarUlpProofs EncodingProofs.
Import ListNotations.
Open Scope N_scope.

(* ---------- vocabulary bridge ---------- *)
Lemma dec_on_eq acc ds : dec_on acc ds = dec_acc ds acc.
Proof. reflexivity. Qed.
Lemma dec_value_eq ds : dec_value ds = dec ds.
Proof. reflexivity. Qed.
Lemma f64_scaled_eq neg i k : f64_scaled neg i k = frac_value neg i k.
Proof. reflexivity. Qed.

Lemma digit_span_spec d :
  d = fst (digit_span d) ++ snd (digit_span d) /\ all_digits (fst (digit_span d)) = true /\ stops (snd (digit_span d)).
Proof.
  induction d as [|x d IH]; cbn [digit_span].
  - cbn. repeat split. now left.
  - destruct (is_digit x) eqn:E.
    + destruct (digit_span d) as [ds rest]. cbn [fst snd] in *. destruct IH as (H1 & H2 & H3).
      repeat split; [cbn [app]; now rewrite <- H1|now rewrite all_digits_cons, E, H2|exact H3].
    + cbn [fst snd app]. repeat split. right. now exists x, d.
Qed.

Lemma digit_span_app ds rest : all_digits ds = true -> stops rest -> digit_span (ds ++ rest) = (ds, rest).
Proof.
  intros Hd Hs. induction ds as [|x ds IH]; cbn [app].
  - destruct Hs as [->|(x & r & -> & Hx)]; [reflexivity|]. cbn [digit_span]. now rewrite Hx.
  - rewrite all_digits_cons in Hd. apply andb_prop in Hd as [Hx Hd]. cbn [digit_span]. rewrite Hx, (IH Hd). reflexivity.
Qed.

Lemma digit_span_digit c d : is_digit c = true ->
  digit_span (c :: d) = (c :: fst (digit_span d), snd (digit_span d)).
Proof. intros H. cbn [digit_span]. rewrite H. now destruct (digit_span d). Qed.

Lemma digit_span_nondigit c d : is_digit c = false -> digit_span (c :: d) = ([], c :: d).
Proof. intros H. cbn [digit_span]. now rewrite H. Qed.

(* the accumulate loop over any string = the value of the maximal digit run *)
Lemma to_u64_t2_span d acc : acc < U64_LIM ->
  to_u64_t2 d acc =
  if dec_acc (fst (digit_span d)) acc <? U64_LIM then Ok (dec_acc (fst (digit_span d)) acc, snd (digit_span d))
  else Err E_Overflow.
Proof.
  intros Ha. destruct (digit_span_spec d) as (H1 & H2 & H3).
  rewrite H1 at 1. now apply to_u64_t2_digits.
Qed.

Lemma leb_ltb_neg a b : (a <=? b) = negb (b <? a).
Proof. destruct (N.leb_spec a b), (N.ltb_spec b a); try reflexivity; lia. Qed.

Lemma digit_not_sign c : is_digit c = true -> c =? 43 = false /\ c =? 45 = false /\ c =? 46 = false.
Proof. intros H. apply is_digit_range in H. repeat split; apply N.eqb_neq; lia. Qed.

Lemma digit_lt c : is_digit c = true -> c - 48 < U64_LIM.
Proof. intros H. apply is_digit_range in H. unfold U64_LIM. lia. Qed.

Lemma dec_digit_cons c ds : is_digit c = true -> dec_acc ds (c - 48) = dec (c :: ds).
Proof. intros H. rewrite <- (dec_cons_digit c ds H). unfold lead_val. now rewrite H. Qed.

(* ================================================================== *)
(* to_u64 = u64_spec                                                    *)
(* ================================================================== *)
Theorem to_u64_eq_spec d : to_u64 d = u64_spec d.
Proof.
  destruct d as [|c data]; [reflexivity|]. unfold to_u64, u64_spec.
  destruct (is_digit c) eqn:Ed.
  - destruct (digit_not_sign c Ed) as (E43 & _ & _). rewrite E43. cbn [orb negb andb].
    rewrite (digit_span_digit c data Ed).
    rewrite (to_u64_t2_span data (c - 48) (digit_lt c Ed)).
    destruct (digit_span data) as [ds rest]. cbn [fst snd is_nil].
    rewrite dec_value_eq, (dec_digit_cons c ds Ed), leb_ltb_neg.
    destruct (dec (c :: ds) <? U64_LIM); cbn [negb obind]; [|reflexivity].
    destruct rest; reflexivity.
  - cbn [orb]. destruct (c =? 43) eqn:E43.
    + cbn [negb andb]. rewrite (to_u64_t2_span data 0 ltac:(reflexivity)).
      destruct (digit_span data) as [ds rest]. cbn [fst snd].
      rewrite dec_value_eq, leb_ltb_neg. fold (dec ds).
      destruct (dec ds <? U64_LIM); cbn [negb obind]; [|reflexivity].
      destruct rest; reflexivity.
    + rewrite (digit_span_nondigit c data Ed). reflexivity.
Qed.

(* ================================================================== *)
(* to_i64 = i64_spec                                                    *)
(* ================================================================== *)
Lemma i64_tail (neg : bool) (ds rest : bytes) (acc : N) :
  (do (res, rest0) <- (do (val, rest1) <- (if dec_acc ds acc <? U64_LIM then Ok (dec_acc ds acc, rest) else Err E_Overflow);
                       if val <=? I64_MAX then Ok (((if neg then (-1) else 1) * Z.of_N val)%Z, rest1) else Err E_Overflow);
   match rest0 with [] => Ok res | _ => Err E_AllDigits end) =
  if I64_MAX <? dec_acc ds acc then Err E_Overflow
  else if is_nil rest then Ok (if neg then - Z.of_N (dec_acc ds acc) else Z.of_N (dec_acc ds acc))%Z
  else Err E_AllDigits.
Proof.
  destruct (N.ltb_spec (dec_acc ds acc) U64_LIM) as [Hl|Hl]; cbn [obind].
  - rewrite leb_ltb_neg. destruct (I64_MAX <? dec_acc ds acc); cbn [negb obind]; [reflexivity|].
    destruct rest; cbn [is_nil]; [|reflexivity]. destruct neg; f_equal; lia.
  - replace (I64_MAX <? dec_acc ds acc) with true; [reflexivity|].
    symmetry. apply N.ltb_lt. unfold I64_MAX, U64_LIM in *. lia.
Qed.

Theorem to_i64_eq_spec d : to_i64 d = i64_spec d.
Proof.
  destruct d as [|c data]; [reflexivity|]. unfold to_i64, to_i64_t, i64_spec.
  destruct (is_digit c) eqn:Ed.
  - destruct (digit_not_sign c Ed) as (E43 & E45 & _). rewrite E43, E45. cbn [orb negb andb].
    rewrite (digit_span_digit c data Ed).
    rewrite (to_u64_t2_span data (c - 48) (digit_lt c Ed)).
    destruct (digit_span data) as [ds rest]. cbn [fst snd is_nil].
    rewrite dec_value_eq, <- (dec_digit_cons c ds Ed).
    exact (i64_tail false ds rest (c - 48)).
  - cbn [orb]. destruct (c =? 45) eqn:E45.
    + cbn [orb negb andb]. rewrite (to_u64_t2_span data 0 ltac:(reflexivity)).
      destruct (digit_span data) as [ds rest]. cbn [fst snd]. rewrite dec_value_eq. unfold dec.
      exact (i64_tail true ds rest 0).
    + cbn [orb]. destruct (c =? 43) eqn:E43.
      * cbn [negb andb]. rewrite (to_u64_t2_span data 0 ltac:(reflexivity)).
        destruct (digit_span data) as [ds rest]. cbn [fst snd]. rewrite dec_value_eq. unfold dec.
        exact (i64_tail false ds rest 0).
      * rewrite (digit_span_nondigit c data Ed). reflexivity.
Qed.

(* the prefix parsers *)
Lemma i64t_tail (neg : bool) (ds rest : bytes) (acc : N) :
  (do (val, rest1) <- (if dec_acc ds acc <? U64_LIM then Ok (dec_acc ds acc, rest) else Err E_Overflow);
   if val <=? I64_MAX then Ok (((if neg then (-1) else 1) * Z.of_N val)%Z, rest1) else Err E_Overflow) =
  if I64_MAX <? dec_acc ds acc then Err E_Overflow
  else Ok ((if neg then - Z.of_N (dec_acc ds acc) else Z.of_N (dec_acc ds acc))%Z, rest).
Proof.
  destruct (N.ltb_spec (dec_acc ds acc) U64_LIM) as [Hl|Hl]; cbn [obind].
  - rewrite leb_ltb_neg. destruct (I64_MAX <? dec_acc ds acc); cbn [negb]; [reflexivity|].
    destruct neg; do 2 f_equal; lia.
  - replace (I64_MAX <? dec_acc ds acc) with true; [reflexivity|].
    symmetry. apply N.ltb_lt. unfold I64_MAX, U64_LIM in *. lia.
Qed.

Theorem to_i64_t_eq_spec d : to_i64_t d = i64t_spec d.
Proof.
  destruct d as [|c data]; [reflexivity|]. unfold to_i64_t, i64t_spec.
  destruct (is_digit c) eqn:Ed.
  - destruct (digit_not_sign c Ed) as (E43 & E45 & _). rewrite E43, E45. cbn [orb negb andb].
    rewrite (digit_span_digit c data Ed).
    rewrite (to_u64_t2_span data (c - 48) (digit_lt c Ed)).
    destruct (digit_span data) as [ds rest]. cbn [fst snd is_nil].
    rewrite dec_value_eq, <- (dec_digit_cons c ds Ed).
    exact (i64t_tail false ds rest (c - 48)).
  - cbn [orb]. destruct (c =? 45) eqn:E45.
    + cbn [orb negb andb]. rewrite (to_u64_t2_span data 0 ltac:(reflexivity)).
      destruct (digit_span data) as [ds rest]. cbn [fst snd]. rewrite dec_value_eq. unfold dec.
      exact (i64t_tail true ds rest 0).
    + cbn [orb]. destruct (c =? 43) eqn:E43.
      * cbn [negb andb]. rewrite (to_u64_t2_span data 0 ltac:(reflexivity)).
        destruct (digit_span data) as [ds rest]. cbn [fst snd]. rewrite dec_value_eq. unfold dec.
        exact (i64t_tail false ds rest 0).
      * rewrite (digit_span_nondigit c data Ed). reflexivity.
Qed.

Lemma beqb_suffix_false' fs rest : fs <> [] -> beqb rest (fs ++ rest) = false.
Proof.
  intros Hne. destruct (beqb rest (fs ++ rest)) eqn:E; [|reflexivity].
  assert (Hl : forall a b, beqb a b = true -> length a = length b).
  { induction a as [|x a IH]; intros [|y b]; cbn [beqb]; try discriminate; [reflexivity|].
    intros H. apply andb_prop in H as [_ H]. cbn [length]. now rewrite (IH b H). }
  apply Hl in E. rewrite app_length in E. destruct fs; [congruence|cbn [length] in E; lia].
Qed.

Theorem to_u64_t_eq_spec d start : start < U64_LIM -> to_u64_t d start = u64t_spec d start.
Proof.
  intros Hs. unfold to_u64_t, u64t_spec. rewrite (to_u64_t2_span d start Hs).
  destruct (digit_span_spec d) as (H1 & _ & _).
  destruct (digit_span d) as [ds rest]. cbn [fst snd] in *.
  rewrite dec_on_eq, leb_ltb_neg.
  destruct (dec_acc ds start <? U64_LIM); cbn [negb obind]; [|reflexivity].
  destruct ds as [|x ds].
  - cbn [app] in H1. subst rest. cbn [is_nil].
    replace (beqb d d) with true; [reflexivity|].
    symmetry. clear. induction d as [|x d IH]; cbn [beqb]; [reflexivity|]. now rewrite N.eqb_refl, IH.
  - cbn [is_nil]. rewrite H1 at 1. now rewrite beqb_suffix_false' by discriminate.
Qed.

(* ================================================================== *)
(* to_bool = bool_spec                                                  *)
(* ================================================================== *)
Lemma beqb_eq a b : beqb a b = true <-> a = b.
Proof.
  revert b. induction a as [|x a IH]; intros [|y b]; cbn [beqb]; try (split; [discriminate|discriminate]); [tauto|].
  rewrite andb_true_iff, N.eqb_eq, IH. split; [intros [-> ->]; reflexivity|intros H; injection H; auto].
Qed.

Lemma to_bool_cases d : (exists b, to_bool d = Ok b) \/ to_bool d = Err E_InvalidBool.
Proof.
  unfold to_bool.
  repeat match goal with
         | |- context [match ?x with _ => _ end] => is_var x; destruct x; try (right; reflexivity)
         end; left; eexists; reflexivity.
Qed.

Theorem to_bool_eq_spec d : to_bool d = bool_spec d.
Proof.
  unfold bool_spec.
  destruct (beqb d [121; 101; 115]) eqn:E1; [apply beqb_eq in E1; subst; reflexivity|].
  destruct (beqb d [110; 111]) eqn:E2; [apply beqb_eq in E2; subst; reflexivity|].
  destruct (to_bool_cases d) as [[b E]|E]; [|exact E].
  apply to_bool_exact in E. destruct E as [[-> _]|[-> _]]; [rewrite beqb_refl in E1|rewrite beqb_refl in E2]; discriminate.
Qed.

(* ================================================================== *)
(* to_f64 = f64_spec                                                    *)
(* ================================================================== *)
Lemma int_result_eq_spec neg v : int_result neg v = f64_forget (f64_int_spec neg v).
Proof.
  unfold int_result, f64_int_spec, F64_GUARD. destruct neg; cbn [andb].
  - rewrite leb_ltb_neg. destruct (I64_MAX <? v); cbn [negb f64_forget]; [reflexivity|].
    replace ((- Z.of_N v <? - Z.of_N f64_int_guard)%Z || (Z.of_N f64_int_guard <? - Z.of_N v)%Z)%bool with (f64_int_guard <? v).
    + destruct (f64_int_guard <? v); reflexivity.
    + destruct (N.ltb_spec f64_int_guard v), (Z.ltb_spec (- Z.of_N v) (- Z.of_N f64_int_guard)),
        (Z.ltb_spec (Z.of_N f64_int_guard) (- Z.of_N v)); cbn [orb]; try reflexivity; lia.
  - replace (Z.of_N f64_int_guard <? Z.of_N v)%Z with (f64_int_guard <? v).
    + destruct (f64_int_guard <? v); reflexivity.
    + destruct (N.ltb_spec f64_int_guard v), (Z.ltb_spec (Z.of_N f64_int_guard) (Z.of_N v)); try reflexivity; lia.
Qed.

Lemma beqb_suffix_false fs rest : fs <> [] -> beqb rest (fs ++ rest) = false.
Proof.
  intros Hne. destruct (beqb rest (fs ++ rest)) eqn:E; [|reflexivity].
  apply beqb_length in E. rewrite app_length in E. destruct fs; [congruence|cbn [length] in E; lia].
Qed.

Lemma frac_result_eq_spec neg lead rest1 : lead < U64_LIM ->
  frac_result neg lead rest1 = f64_forget (f64_frac_spec neg lead rest1).
Proof.
  intros Hl. unfold frac_result, f64_frac_spec, to_u64_t.
  rewrite (to_u64_t2_span rest1 lead Hl).
  destruct (digit_span_spec rest1) as (H1 & H2 & H3).
  destruct (digit_span rest1) as [fs rest2]. cbn [fst snd] in *.
  rewrite dec_on_eq, leb_ltb_neg.
  destruct (dec_acc fs lead <? U64_LIM); cbn [negb obind f64_forget]; [|reflexivity].
  destruct fs as [|f fs].
  - cbn [app] in H1. subst rest2. rewrite beqb_refl. reflexivity.
  - rewrite H1 at 1. rewrite beqb_suffix_false by discriminate. cbn [obind is_nil].
    destruct rest2 as [|y rest2]; cbn [is_nil negb f64_forget]; [|reflexivity].
    rewrite H1, app_nil_r, pow_table_nth.
    replace (22 <? length (f :: fs))%nat with (negb (length (f :: fs) <? 23)%nat).
    + destruct (length (f :: fs) <? 23)%nat; reflexivity.
    + destruct (Nat.ltb_spec (length (f :: fs)) 23), (Nat.ltb_spec 22 (length (f :: fs))); try reflexivity; lia.
Qed.

Lemma f64_body_eq_spec neg c data : f64_body neg c data = f64_forget (f64_body_spec neg (c :: data)).
Proof.
  unfold f64_body, f64_body_spec.
  destruct (is_digit c) eqn:Ed.
  - destruct (digit_not_sign c Ed) as (E43 & _ & E46). rewrite E46, E43. cbn [negb andb].
    rewrite (digit_span_digit c data Ed), (to_u64_t2_span data (c - 48) (digit_lt c Ed)).
    destruct (digit_span data) as [ds rest]. cbn [fst snd is_nil].
    rewrite dec_value_eq, (dec_digit_cons c ds Ed), leb_ltb_neg.
    destruct (N.ltb_spec (dec (c :: ds)) U64_LIM) as [Hl|Hl]; cbn [negb after_lead obind f64_forget]; [|reflexivity].
    destruct rest as [|x rest1]; [apply int_result_eq_spec|].
    destruct (x =? 46); [now apply frac_result_eq_spec|reflexivity].
  - destruct (c =? 46) eqn:E46.
    + apply N.eqb_eq in E46. subst c. cbn [after_lead obind N.eqb Pos.eqb].
      apply frac_result_eq_spec. reflexivity.
    + destruct (c =? 43) eqn:E43.
      * cbn [negb andb]. rewrite (to_u64_t2_span data 0 ltac:(reflexivity)).
        destruct (digit_span data) as [ds rest]. cbn [fst snd].
        rewrite dec_value_eq, leb_ltb_neg. fold (dec ds).
        destruct (N.ltb_spec (dec ds) U64_LIM) as [Hl|Hl]; cbn [negb after_lead obind f64_forget]; [|reflexivity].
        destruct rest as [|x rest1]; [apply int_result_eq_spec|].
        destruct (x =? 46); [now apply frac_result_eq_spec|reflexivity].
      * rewrite (digit_span_nondigit c data Ed). reflexivity.
Qed.

Theorem to_f64_eq_spec d : to_f64 d = f64_spec d.
Proof.
  destruct d as [|c0 data0]; [reflexivity|]. rewrite to_f64_unfold. unfold f64_spec, f64_spec_x.
  destruct (c0 =? 45).
  - destruct data0 as [|c1 data1]; [reflexivity|]. apply f64_body_eq_spec.
  - apply f64_body_eq_spec.
Qed.

(* ---------- the payload of PrecisionLoss ---------- *)
(* what the spec gives on an integer rendering  [-](digit|'+')digit*  *)
Lemma lead_ok_dot c : lead_ok c -> c =? 46 = false.
Proof. exact (lead_ok_not_dot c). Qed.

Lemma f64_body_spec_int neg c ds : lead_ok c -> all_digits ds = true ->
  f64_body_spec neg (c :: ds) =
  if U64_LIM <=? dec_acc ds (lead_val c) then FErr E_Overflow else f64_int_spec neg (dec_acc ds (lead_val c)).
Proof.
  intros Hc Hd. unfold f64_body_spec. rewrite (lead_ok_dot c Hc).
  destruct Hc as [Hc| ->].
  - destruct (digit_not_sign c Hc) as (E43 & _ & _). rewrite E43. cbn [negb andb].
    replace (c :: ds) with ((c :: ds) ++ []) at 1 by apply app_nil_r.
    rewrite digit_span_app; [|now rewrite all_digits_cons, Hc, Hd|now left]. cbn [is_nil].
    rewrite dec_value_eq, (dec_cons_digit c ds Hc). destruct (U64_LIM <=? dec (c :: ds)); reflexivity.
  - cbn [N.eqb Pos.eqb negb andb]. rewrite <- (app_nil_r ds) at 1.
    rewrite digit_span_app; [|exact Hd|now left].
    rewrite dec_value_eq, dec_plus. destruct (U64_LIM <=? dec ds); reflexivity.
Qed.

Lemma f64_spec_x_sgn neg c data : c <> 45 -> f64_spec_x (sgn neg ++ c :: data) = f64_body_spec neg (c :: data).
Proof.
  intros Hc. destruct neg; cbn [sgn app f64_spec_x]; [reflexivity|].
  apply N.eqb_neq in Hc. now rewrite Hc.
Qed.

(* an integer rendering beyond the guard is refused with PrecisionLoss carrying the NEAREST double of the integer *)
Theorem f64_loss_payload (neg : bool) c ds :
  lead_ok c -> all_digits ds = true ->
  let v := dec_acc ds (lead_val c) in
  let z := (if neg then - Z.of_N v else Z.of_N v)%Z in
  f64_int_guard < v -> v < U64_LIM -> (neg = true -> v <= I64_MAX) ->
  f64_spec_x (sgn neg ++ c :: ds) = FLoss (f64_of_Z z) /\
  to_f64 (sgn neg ++ c :: ds) = Err E_PrecisionLoss /\
  B2R 53 1024 (f64_of_Z z) = round radix2 (FLT_exp (3 - 1024 - 53) 53) (round_mode mode_NE) (IZR z) /\
  is_finite 53 1024 (f64_of_Z z) = true.
Proof.
  intros Hc Hd v z Hg Hl Hn.
  assert (Hx : f64_spec_x (sgn neg ++ c :: ds) = FLoss (f64_of_Z z)).
  { rewrite f64_spec_x_sgn by (now apply lead_ok_not_minus). rewrite f64_body_spec_int by assumption.
    fold v. replace (U64_LIM <=? v) with false by (symmetry; apply N.leb_gt; exact Hl).
    unfold f64_int_spec. replace (neg && (I64_MAX <? v))%bool with false.
    - fold z. replace (f64_int_guard <? v) with true by (symmetry; now apply N.ltb_lt). reflexivity.
    - destruct neg; [|reflexivity]. cbn [andb]. symmetry. apply N.ltb_ge. now apply Hn. }
  split; [exact Hx|]. split; [rewrite to_f64_eq_spec; unfold f64_spec; now rewrite Hx|].
  assert (Hz : (Z.abs z <= 2 ^ 64)%Z) by (unfold z, U64_LIM in *; destruct neg; lia).
  destruct (f64_of_Z_round z Hz) as (H1 & H2 & _). split; assumption.
Qed.

(* and PrecisionLoss arises only so: the spec never attaches a payload to anything but an integer rendering *)
Theorem f64_loss_only_int d p : f64_spec_x d = FLoss p ->
  exists (neg : bool) v, v < U64_LIM /\ f64_int_guard < v /\ p = f64_of_Z (if neg then - Z.of_N v else Z.of_N v)%Z.
Proof.
  assert (Hint : forall neg v, v < U64_LIM -> f64_int_spec neg v = FLoss p ->
            exists (neg : bool) v, v < U64_LIM /\ f64_int_guard < v /\ p = f64_of_Z (if neg then - Z.of_N v else Z.of_N v)%Z).
  { intros neg v Hv H. unfold f64_int_spec in H. destruct (neg && (I64_MAX <? v))%bool; [discriminate|].
    destruct (f64_int_guard <? v) eqn:E; [|discriminate]. injection H as <-. exists neg, v.
    apply N.ltb_lt in E. auto. }
  assert (Hfrac : forall neg lead r, f64_frac_spec neg lead r <> FLoss p).
  { intros neg lead r. unfold f64_frac_spec. destruct (digit_span r) as [fs rest].
    destruct (U64_LIM <=? dec_on lead fs); [discriminate|]. destruct (is_nil fs); [discriminate|].
    destruct (negb (is_nil rest)); [discriminate|]. destruct (22 <? length fs)%nat; discriminate. }
  assert (Hbody : forall neg body, f64_body_spec neg body = FLoss p ->
            exists (neg : bool) v, v < U64_LIM /\ f64_int_guard < v /\ p = f64_of_Z (if neg then - Z.of_N v else Z.of_N v)%Z).
  { intros neg body H. unfold f64_body_spec in H. destruct body as [|c r]; [discriminate|].
    destruct (c =? 46); [now apply Hfrac in H|].
    destruct (digit_span (if c =? 43 then r else c :: r)) as [ds rest].
    destruct (negb (c =? 43) && is_nil ds)%bool; [discriminate|].
    destruct (U64_LIM <=? dec_value ds) eqn:E; [discriminate|]. apply N.leb_gt in E.
    destruct rest as [|x fr]; [now apply (Hint neg (dec_value ds))|].
    destruct (x =? 46); [now apply Hfrac in H|discriminate]. }
  intros H. unfold f64_spec_x in H. destruct d as [|c r]; [discriminate|].
  destruct (c =? 45); now apply Hbody in H.
Qed.

(* ---------- the fractional branch on strings: exactly sign * RNE(RNE(i) / 10^k) ---------- *)
Theorem to_f64_two_roundings d neg i k r :
  f64_decimal d neg i k -> k <> 0 -> to_f64 d = Ok r ->
  i < U64_LIM /\ k <= 22 /\
  B2R 53 1024 r =
    ((if neg then -1 else 1) *
     round radix2 (FLT_exp (3 - 1024 - 53) 53) (round_mode mode_NE)
       (round radix2 (FLT_exp (3 - 1024 - 53) 53) (round_mode mode_NE) (IZR (Z.of_N i)) / IZR (10 ^ Z.of_N k)))%R.
Proof.
  intros Hdec Hk H. destruct (to_f64_decimal d neg i k r Hdec H) as [Ha Hr].
  unfold f64_accepts in Ha. apply N.eqb_neq in Hk. rewrite Hk in Ha, Hr. destruct Ha as [Hi Hk22].
  split; [exact Hi|]. split; [exact Hk22|]. subst r. exact (proj2 (frac_value_spec neg i k Hi Hk22)).
Qed.

(* ---------- monotonicity across DIFFERENT numbers of fractional digits is false above 2^53 ----------
   "9007199254740995.0"  (digit integer 90071992547409950, k = 1)  converts to 2^53+4,
   "9007199254740995.01" (digit integer 900719925474099501, k = 2) converts to 2^53+2:
   a strictly larger decimal value, a strictly smaller double.  (Both are within 2 ulp, as the property says;
   monotonicity is not promised by the property.) *)
Definition w_mono_a : bytes := [57;48;48;55;49;57;57;50;53;52;55;52;48;57;57;53;46;48].
Definition w_mono_b : bytes := [57;48;48;55;49;57;57;50;53;52;55;52;48;57;57;53;46;48;49].

Theorem to_f64_monotone_cross_scale_refuted :
  exists r r', f64_decimal w_mono_a false 90071992547409950 1 /\ f64_decimal w_mono_b false 900719925474099501 2 /\
    to_f64 w_mono_a = Ok r /\ to_f64 w_mono_b = Ok r' /\
    (decimal_value false 90071992547409950 1 < decimal_value false 900719925474099501 2)%R /\
    (B2R 53 1024 r' < B2R 53 1024 r)%R.
Proof.
  assert (Hda : f64_decimal w_mono_a false 90071992547409950 1).
  { exact (DecFrac false 57 [48;48;55;49;57;57;50;53;52;55;52;48;57;57;53] [48]
             (or_introl eq_refl) eq_refl eq_refl ltac:(discriminate)). }
  assert (Hdb : f64_decimal w_mono_b false 900719925474099501 2).
  { exact (DecFrac false 57 [48;48;55;49;57;57;50;53;52;55;52;48;57;57;53] [48;49]
             (or_introl eq_refl) eq_refl eq_refl ltac:(discriminate)). }
  assert (Haa : f64_accepts 90071992547409950 1) by (split; vm_compute; [reflexivity|discriminate]).
  assert (Hab : f64_accepts 900719925474099501 2) by (split; vm_compute; [reflexivity|discriminate]).
  destruct (to_f64_decimal_conv _ _ _ _ Hda Haa) as [r H]. destruct (to_f64_decimal_conv _ _ _ _ Hdb Hab) as [r' H'].
  exists r, r'. repeat (split; [assumption|]).
  destruct (to_f64_decimal _ _ _ _ _ Hda H) as [_ Hr]. destruct (to_f64_decimal _ _ _ _ _ Hdb H') as [_ Hr'].
  cbn [N.eqb Pos.eqb] in Hr, Hr'. subst r r'.
  split.
  - unfold decimal_value. change (10 ^ Z.of_N 1)%Z with 10%Z. change (10 ^ Z.of_N 2)%Z with 100%Z.
    change (Z.of_N 90071992547409950) with 90071992547409950%Z.
    change (Z.of_N 900719925474099501) with 900719925474099501%Z. lra.
  - assert (Hi : 90071992547409950 < U64_LIM) by reflexivity. assert (Hk : 1 <= 22) by discriminate.
    assert (Hi' : 900719925474099501 < U64_LIM) by reflexivity. assert (Hk' : 2 <= 22) by discriminate.
    rewrite (B2R_pair _ 4503599627370498 1 (frac_value_finite false _ _ Hi Hk)) by (vm_compute; reflexivity).
    rewrite (B2R_pair _ 4503599627370497 1 (frac_value_finite false _ _ Hi' Hk')) by (vm_compute; reflexivity).
    change (bpow radix2 1) with 2%R. lra.
Qed.

(* ================================================================== *)
(* the rest of the public surface of Scalar                             *)
(* ================================================================== *)
Lemma ascii_trim_unescape_plain d :
  scalar_is_ascii d = true -> forallb plain (unescape (trim_ascii_end d)) = true.
Proof.
  intros H. unfold scalar_is_ascii in H. rewrite forallb_forall in *. intros x Hx.
  unfold unescape in Hx. apply filter_In in Hx as [Hin Hb].
  destruct (trim_spec d) as (ws & Hd & _). unfold plain. rewrite Hb, andb_true_r.
  apply H. rewrite Hd. apply in_or_app. now left.
Qed.

(* Display never fails; for an all-ASCII scalar it is the bytes without the trailing blanks (\t \n \f \r ' ')
   and without any backslash, otherwise the fixed message with the length *)
Theorem scalar_display_spec d :
  scalar_display d = Ok (if scalar_is_ascii d then unescape (trim_ascii_end d)
                         else NON_ASCII_PRE ++ dec_N (lenN d) ++ NON_ASCII_POST).
Proof.
  unfold scalar_display. destruct (scalar_is_ascii d) eqn:E; [|reflexivity].
  destruct (w1252_spec d) as (c & Hc & Hb & _). rewrite Hc. unfold omap. cbn [obind]. rewrite Hb.
  unfold w1252_reference. now rewrite (w1252_plain_id _ (ascii_trim_unescape_plain d E)).
Qed.

Theorem scalar_debug_spec d :
  exists s, scalar_display d = Ok s /\ scalar_debug d = Ok ([83;99;97;108;97;114;32;123;32] ++ s ++ [32;125]).
Proof. unfold scalar_debug. rewrite scalar_display_spec. eexists. split; reflexivity. Qed.

Theorem scalar_eq_spec a b : scalar_eq a b = true <-> a = b.
Proof. apply beqb_eq. Qed.
