(* text/reader.rs model: the fast paths of next_opt (taken when >= 9 bytes are buffered) are
   unobservable.  next_opt is next_opt_fallback, except that after an unquoted scalar that is
   ended by a space the fast path may consume that space as well. *)
From JV Require Import Bytes Tables U64Swar BufWin TextTok TextReader.
From JV.proofs Require Import BufWinProofs TextReaderProofs SwarLaneProofs TextFbProofs.
From Coq Require Import Lia List Arith NArith.
Import ListNotations.
Open Scope nat_scope.

(* ---------- list helpers ---------- *)
Lemma nth_error_skipn_add (w : bytes) : forall o j, nth_error (skipn o w) j = nth_error w (o + j).
Proof.
  induction w as [|a w IH]; intros o j.
  - rewrite skipn_nil. destruct j, o; reflexivity.
  - destruct o; [reflexivity|]. cbn [skipn Nat.add nth_error]. apply IH.
Qed.

Lemma skipn_nth_cons (w : bytes) : forall p c, nth_error w p = Some c -> skipn p w = c :: skipn (S p) w.
Proof.
  induction w as [|a w IH]; intros p c H.
  - destruct p; discriminate.
  - destruct p.
    + cbn in H. inversion H. reflexivity.
    + cbn [nth_error] in H. apply IH in H. cbn [skipn] in *. exact H.
Qed.

Lemma wf_skipn (w : bytes) : forall o, wf_bytes w -> wf_bytes (skipn o w).
Proof.
  induction w as [|a w IH]; intros o H.
  - rewrite skipn_nil. constructor.
  - destruct o; [exact H|]. cbn [skipn]. apply IH. inversion H. assumption.
Qed.

Lemma match32_eq {A} (o : option N) (x y : A) :
  o = Some 32%N -> match o with Some 32%N => x | _ => y end = x.
Proof. intros ->. reflexivity. Qed.

Lemma match32_ne {A} (o : option N) (x y : A) :
  o <> Some 32%N -> match o with Some 32%N => x | _ => y end = y.
Proof.
  intros H. destruct o as [b|]; [|reflexivity].
  destruct b as [|q]; [reflexivity|].
  do 5 (destruct q as [q|q|]; try reflexivity).
  destruct q; try reflexivity. exfalso. apply H. reflexivity.
Qed.

(* ---------- first match of a scan, from pointwise facts ---------- *)
Lemma find_from_first (P : N -> bool) : forall k l n,
  (forall j, j < k -> exists b, nth_error l j = Some b /\ P b = false) ->
  (exists b, nth_error l k = Some b /\ P b = true) ->
  find_from P l n = Some (n + k).
Proof.
  induction k as [|k IH]; intros l n Hlt [b [Hb Pb]].
  - destruct l as [|a l]; [discriminate|]. cbn in Hb. inversion Hb; subst a.
    cbn [find_from]. rewrite Pb. f_equal. lia.
  - destruct l as [|a l]; [discriminate|]. cbn [nth_error] in Hb.
    destruct (Hlt 0 ltac:(lia)) as [a' [Ha Pa]]. cbn in Ha. inversion Ha; subst a'.
    cbn [find_from]. rewrite Pa. rewrite (IH l (S n)).
    + f_equal. lia.
    + intros j Hj. destruct (Hlt (S j) ltac:(lia)) as [x [Hx Px]]. exists x. split; assumption.
    + exists b. split; assumption.
Qed.

Lemma qscan_first : forall k l n,
  (forall j, j < k -> nth_error l j <> Some 34%N /\ nth_error l j <> Some 92%N) ->
  nth_error l k = Some 34%N ->
  qscan l n = QFound (n + k).
Proof.
  induction k as [|k IH]; intros l n Hlt Hk.
  - destruct l as [|a l]; [discriminate|]. cbn in Hk. inversion Hk; subst a.
    cbn. f_equal. lia.
  - destruct l as [|a l]; [discriminate|]. cbn [nth_error] in Hk.
    destruct (Hlt 0 ltac:(lia)) as [H34 H92]. cbn in H34, H92.
    assert (E92 : b_is a 92 = false).
    { unfold b_is. apply N.eqb_neq. intros ->. apply H92. reflexivity. }
    assert (E34 : b_is a 34 = false).
    { unfold b_is. apply N.eqb_neq. intros ->. apply H34. reflexivity. }
    cbn [qscan]. rewrite E92, E34. rewrite (IH l (S n)).
    + f_equal. lia.
    + intros j Hj. apply (Hlt (S j)). lia.
    + exact Hk.
Qed.

(* ---------- the unrolled boundary scan ---------- *)
Definition nonb (w : bytes) (a b : nat) : Prop :=
  forall j, a <= j < b -> exists c, nth_error w j = Some c /\ is_boundary c = false.
Definition isb (w : bytes) (i : nat) : Prop :=
  exists c, nth_error w i = Some c /\ is_boundary c = true.

Lemma fu_inner_spec : forall n w opt,
  match fu_inner n w opt with
  | None => length w < opt + n
  | Some (inl i) => opt <= i < opt + n /\ isb w i /\ nonb w opt i
  | Some (inr o') => o' = opt + n /\ nonb w opt o'
  end.
Proof.
  induction n as [|n IH]; intros w opt; cbn [fu_inner].
  - split; [lia|]. intros j Hj. lia.
  - destruct (nth_error w opt) as [c|] eqn:E.
    + destruct (is_boundary c) eqn:B.
      * split; [lia|]. split; [exists c; split; assumption|]. intros j Hj. lia.
      * specialize (IH w (S opt)). destruct (fu_inner n w (S opt)) as [[i|o']|].
        -- destruct IH as [Hi [Hb Hn]]. split; [lia|]. split; [exact Hb|].
           intros j Hj. destruct (Nat.eq_dec j opt) as [->|Hne].
           ++ exists c. split; assumption.
           ++ apply Hn. lia.
        -- destruct IH as [Ho Hn]. split; [lia|].
           intros j Hj. destruct (Nat.eq_dec j opt) as [->|Hne].
           ++ exists c. split; assumption.
           ++ apply Hn. lia.
        -- lia.
    + apply nth_error_None in E. lia.
Qed.

Lemma fu_outer_spec : forall fuel w o,
  match fu_outer fuel w o with
  | FHit i => o <= i < length w /\ isb w i /\ nonb w o i
  | FMiss => True
  | FOob => False
  end.
Proof.
  induction fuel as [|fuel IH]; intros w o; cbn [fu_outer]; [exact I|].
  destruct (Nat.ltb 8 (length w - o)) eqn:L; [|exact I].
  apply Nat.ltb_lt in L.
  pose proof (fu_inner_spec 8 w o) as H.
  destruct (fu_inner 8 w o) as [[i|o']|].
  - destruct H as [Hi [Hb Hn]]. split; [|split; assumption].
    destruct Hb as [c [Hc _]]. assert (nth_error w i <> None) by congruence.
    apply nth_error_Some in H. lia.
  - destruct H as [Ho Hn]. specialize (IH w o').
    destruct (fu_outer fuel w o') as [i| |]; [|exact I|exact IH].
    destruct IH as [Hi [Hb Hn2]]. split; [lia|]. split; [exact Hb|].
    intros j Hj. destruct (Nat.lt_ge_cases j o').
    + apply Hn. lia.
    + apply Hn2. lia.
  - lia.
Qed.

(* ---------- the SWAR quote scan ---------- *)
Lemma fq_outer_spec : forall fuel w o esc i,
  wf_bytes w ->
  fq_outer fuel w o esc = FHit i ->
  esc = false /\ o <= i < length w /\ nth_error w i = Some 34%N /\
  forall j, o <= j < i -> nth_error w j <> Some 34%N /\ nth_error w j <> Some 92%N.
Proof.
  induction fuel as [|fuel IH]; intros w o esc i Hwf; cbn [fq_outer]; [discriminate|].
  destruct (Nat.ltb 8 (length w - o)) eqn:L; [|discriminate].
  apply Nat.ltb_lt in L.
  set (l := skipn o w).
  assert (Hl : wf_bytes l) by (apply wf_skipn; exact Hwf).
  assert (Hlen : 8 <= length l) by (unfold l; rewrite skipn_length; lia).
  destruct (N.eqb (swar_quote_t2 (le_word 8 l)) 0) eqn:T; cbn [negb].
  - (* no quote in this chunk *)
    apply N.eqb_eq in T. intros H. apply IH in H; [|exact Hwf].
    destruct H as [He [Hi [Hq Hn]]].
    apply orb_false_iff in He. destruct He as [He Hz].
    split; [exact He|]. split; [lia|]. split; [exact Hq|].
    intros j Hj. destruct (Nat.lt_ge_cases j (o + 8)) as [Hlt|Hge].
    + replace j with (o + (j - o)) by lia. rewrite <- nth_error_skipn_add. fold l. split.
      * apply (swar_quote_zero l Hl Hlen T). lia.
      * apply (czb_no_backslash l Hl Hlen Hz). lia.
    + apply Hn. lia.
  - apply N.eqb_neq in T.
    destruct (esc || contains_zero_byte (N.lxor (le_word 8 l) (repeat_byte 92))) eqn:He;
      cbn [negb]; [discriminate|].
    apply orb_false_iff in He. destruct He as [He Hz].
    destruct (swar_quote_hit l Hl Hlen T) as [Hq8 [Hq Hnq]].
    set (q := N.to_nat (N.shiftr (trailing_zeros (swar_quote_t2 (le_word 8 l))) 3)) in *.
    intros H. assert (Hi : i = o + q) by congruence. subst i. clear H.
    split; [exact He|]. split; [lia|]. split.
    + rewrite <- nth_error_skipn_add. exact Hq.
    + intros j Hj. replace j with (o + (j - o)) by lia. rewrite <- nth_error_skipn_add. fold l. split.
      * apply Hnq. lia.
      * apply (czb_no_backslash l Hl Hlen Hz). lia.
Qed.

Lemma fq_outer_no_oob : forall fuel w o esc, fq_outer fuel w o esc <> FOob.
Proof.
  induction fuel as [|fuel IH]; intros w o esc; cbn [fq_outer]; [discriminate|].
  destruct (Nat.ltb 8 (length w - o)); [|discriminate].
  destruct (negb _); [|apply IH].
  destruct (negb _); discriminate.
Qed.

(* ---------- fb skips leading whitespace ---------- *)
Lemma fb_skip_ws pos0 w bom : forall k f l ptr,
  (forall j, j < k -> exists c, nth_error l j = Some c /\ is_ws c = true) ->
  fb (k + f) pos0 w l ptr bom = fb f pos0 w (skipn k l) (ptr + k) bom.
Proof.
  induction k as [|k IH]; intros f l ptr H.
  - cbn [Nat.add skipn]. rewrite Nat.add_0_r. reflexivity.
  - destruct (H 0 ltac:(lia)) as [c [Hc Hw]].
    destruct l as [|a l]; [discriminate|]. cbn in Hc. inversion Hc; subst a.
    cbn [Nat.add fb skipn]. rewrite Hw. rewrite IH.
    + f_equal. lia.
    + intros j Hj. apply (H (S j)). lia.
Qed.

Lemma fb_prefix pos0 w bom p c :
  p < length w ->
  (forall j, j < p -> exists c, nth_error w j = Some c /\ is_ws c = true) ->
  nth_error w p = Some c ->
  exists f, fb (S (S (length w))) pos0 w w 0 bom = fb (S f) pos0 w (c :: skipn (S p) w) p bom.
Proof.
  intros Hp Hws Hc. exists (S (length w) - p).
  replace (S (S (length w))) with (p + S (S (length w) - p)) by lia.
  rewrite (fb_skip_ws pos0 w bom p _ w 0 Hws). cbn [Nat.add].
  rewrite (skipn_nth_cons w p c Hc). reflexivity.
Qed.

(* ---------- bytes that start an unquoted scalar on the fast path ---------- *)
Lemma alnum_facts c : is_alnum_dash c = true ->
  is_ws c = false /\ b_is c 35 = false /\ b_is c 123 = false /\ b_is c 125 = false /\
  b_is c 34 = false /\ b_is c 64 = false /\ b_is c 61 = false /\ b_is c 60 = false /\
  b_is c 33 = false /\ b_is c 63 = false /\ b_is c 62 = false /\ b_is c 239 = false.
Proof.
  unfold is_alnum_dash, is_ws, b_is. intros H.
  rewrite !orb_true_iff, !andb_true_iff, !N.leb_le, N.eqb_eq in H.
  rewrite !orb_false_iff.
  repeat split; apply N.eqb_neq; lia.
Qed.

(* ---------- main theorem ---------- *)
Theorem next_opt_fast_eq_fallback : forall fuel r,
  wf_bytes (win (rbw r)) ->
  next_opt fuel r = fallback fuel r \/
  exists t i,
    nth_error (win (rbw r)) i = Some 32%N /\
    fallback fuel r = emit r t i /\ next_opt fuel r = emit r t (S i).
Proof.
  intros fuel r Hwf. destruct r as [bw rd0 bom]. cbn [rbw] in Hwf.
  unfold next_opt. cbn [rbw rrd rbom].
  set (w := win bw) in *.
  destruct (Nat.ltb (length w) 9) eqn:Hlen; [left; reflexivity|].
  apply Nat.ltb_ge in Hlen.
  destruct (leading_whitespace_sound w Hwf ltac:(lia)) as [Hp Hws0].
  set (p := N.to_nat (leading_whitespace (le_word 8 w))) in *.
  assert (Hws : forall j, j < p -> exists c, nth_error w j = Some c /\ is_ws c = true).
  { intros j Hj. destruct (Hws0 j Hj) as [c [Hc [->| ->]]]; eexists; (split; [exact Hc|reflexivity]). }
  destruct (nth_error w p) as [c|] eqn:Hc.
  2:{ apply nth_error_None in Hc. lia. }
  set (pos0 := Nat.eqb (bw_position bw) 0).
  destruct (fb_prefix pos0 w bom p c ltac:(lia) Hws Hc) as [f Hfb].
  assert (Hfall : forall t adv,
            fb (S f) pos0 w (c :: skipn (S p) w) p bom = (ATok t adv, bom) ->
            fallback fuel (mkreader bw rd0 bom) = emit (mkreader bw rd0 bom) t adv).
  { intros t adv H. unfold fallback. cbn [rbw rrd rbom]. fold w. fold pos0.
    rewrite Hfb, H. reflexivity. }
  destruct (b_is c 123) eqn:E123.
  { left. symmetry. apply Hfall. apply b_is_eq in E123. subst c. reflexivity. }
  destruct (b_is c 125) eqn:E125.
  { left. symmetry. apply Hfall. apply b_is_eq in E125. subst c. reflexivity. }
  destruct (is_alnum_dash c) eqn:Ealn.
  { (* unquoted scalar *)
    pose proof (fu_outer_spec (S (length w)) w (S p)) as Hsp.
    destruct (fu_outer (S (length w)) w (S p)) as [i| |]; [|left; reflexivity|contradiction].
    destruct Hsp as [Hi [Hb Hn]].
    assert (Hff : find_from is_boundary (skipn (S p) w) 0 = Some (i - S p)).
    { rewrite (find_from_first is_boundary (i - S p) (skipn (S p) w) 0); [reflexivity| |].
      - intros j Hj. rewrite nth_error_skipn_add. apply Hn. lia.
      - rewrite nth_error_skipn_add. replace (S p + (i - S p)) with i by lia. exact Hb. }
    assert (Htok : fb (S f) pos0 w (c :: skipn (S p) w) p bom =
                   (ATok (RUnq (slice w p i)) i, bom)).
    { destruct (alnum_facts c Ealn) as (A0 & A1 & A2 & A3 & A4 & A5 & A6 & A7 & A8 & A9 & A10 & A11).
      cbn [fb]. rewrite A0, A1, A2, A3, A4, A5, A6, A7, A8, A9, A10, A11. cbn [andb].
      rewrite Hff. unfold slice. rewrite (skipn_nth_cons w p c Hc).
      replace (i - p) with (S (i - S p)) by lia.
      replace (p + S (i - S p)) with i by lia. reflexivity. }
    apply Hfall in Htok.
    destruct (N.eq_dec (match nth_error w i with Some b => b | None => 0%N end) 32%N) as [E32|N32].
    - right. exists (RUnq (slice w p i)), i.
      assert (H32 : nth_error w i = Some 32%N).
      { destruct Hb as [b [Hb _]]. rewrite Hb in E32 |- *. congruence. }
      split; [exact H32|]. split; [exact Htok|].
      rewrite (match32_eq _ _ _ H32). reflexivity.
    - left. rewrite match32_ne; [symmetry; exact Htok|].
      intros H32. rewrite H32 in N32. apply N32. reflexivity. }
  destruct (b_is c 34) eqn:E34; [|left; reflexivity].
  (* quoted scalar *)
  apply b_is_eq in E34. subst c.
  destruct (fq_outer (S (length w)) w (S p) false) as [i| |] eqn:Hfq;
    [|left; reflexivity|exfalso; exact (fq_outer_no_oob _ _ _ _ Hfq)].
  apply fq_outer_spec in Hfq; [|exact Hwf].
  destruct Hfq as [_ [Hi [Hq Hn]]].
  assert (Hqs : qscan (skipn (S p) w) 0 = QFound (i - S p)).
  { rewrite (qscan_first (i - S p) (skipn (S p) w) 0); [reflexivity| |].
    - intros j Hj. rewrite nth_error_skipn_add. apply Hn. lia.
    - rewrite nth_error_skipn_add. replace (S p + (i - S p)) with i by lia. exact Hq. }
  left. symmetry. apply Hfall.
  cbn [fb]. cbn [is_ws b_is N.eqb Pos.eqb orb]. rewrite Hqs.
  unfold slice. replace (S p + (i - S p) + 1) with (S i) by lia. reflexivity.
Qed.
