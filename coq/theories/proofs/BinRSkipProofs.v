(* C09 (binary): TokenReader::skip_container lands where balanced token reading lands, for every
   fault-free schedule and every capacity that fits the input. *)
From JV Require Import Bytes Tables BinPrim BufWin BinLexer BinReader.
From JV.proofs Require Import BinLexProofs BinRoundProofs BinStreamProofs BinSkipProofs.
From Coq Require Import List NArith ZArith Bool Lia Arith.
Import ListNotations.
Open Scope nat_scope.

Lemma gs_get_from n d :
  get_from n d = match get_split n d with Some (_, r) => Some r | None => None end.
Proof. unfold get_from, get_split. destruct (Nat.leb n (length d)); reflexivity. Qed.

Definition fill_branch (depth : nat) (s : rstate) : (nat * rstate) + (outcome unit * rstate) :=
  match rdr_fill s with
  | FcZero s' => inr (Err E_LexEof, s')
  | FcMore s' => inl (depth, s')
  | FcErr e s' => inr (Err e, s')
  end.

Definition item_cont (depth : nat) (id : N) (s' : rstate) : (nat * rstate) + (outcome unit * rstate) :=
  match item_next depth id with Some depth' => inl (depth', s') | None => inr (Ok tt, s') end.

(* the reader's step = skip_item on the window, or fill_buf when the window holds no complete item *)
Lemma rdr_step_item depth s :
  rdr_skip_step (depth, s) =
    match skip_item (win (fst s)) with
    | Ok (id, w') => rdr_advance s (length (win (fst s)) - length w') (item_cont depth id) (fun o => inr (o, s))
    | _ => fill_branch depth s
    end.
Proof.
  unfold rdr_skip_step, skip_item, fill_branch, item_cont, item_next. cbv zeta.
  destruct (read_id (win (fst s))) as [[i data]| | | |]; cbn [obind]; try reflexivity.
  split_ids i; eval_ids; cbn [orb];
    repeat match goal with H : (_ =? _)%N = false |- _ => rewrite H; clear H end; cbn [orb].
  all: unfold keep_id, omap; rewrite ?gs_get_from.
  all: try (unfold read_u32, read_i32, read_u64, read_i64, read_f32, read_f64;
            match goal with |- context [get_split ?n ?x] => destruct (get_split n x) as [[? ?]|] end;
            cbn [obind fst snd]; reflexivity).
  all: try (match goal with |- context [read_string ?x] => destruct (read_string x) as [[? ?]| | | |] end;
            cbn [obind fst snd]; reflexivity).
  all: try (match goal with |- context [read_bool ?x] => destruct x end;
            cbn [read_bool get_split obind fst snd length Nat.leb skipn]; reflexivity).
  all: try reflexivity.
  all: unfold rdr_advance; destruct (bw_advance (fst s) _); try reflexivity.
  all: destruct (Nat.eqb depth 1); reflexivity.
Qed.

(* measure that every reader step decreases *)
Definition msr (s : rstate) : nat := length (win (fst s)) + 2 * length (rest (snd s)).

(* the item is complete in the window: one step *)
Lemma rdr_item_now b r d pos c depth id d2 w' i :
  st_ok (b, r) d pos c -> skip_item d = Ok (id, d2) -> skip_item (win b) = Ok (i, w') ->
  exists s', 1 + msr s' <= msr (b, r) /\ st_ok s' d2 (pos + (length d - length d2)) c /\
             rdr_skip_step (depth, (b, r)) = item_cont depth id s'.
Proof.
  intros Hok Hi E. pose proof (st_ok_elim _ _ _ _ _ Hok) as (Hp & Hpos & Hc & Hnf).
  pose proof (lf_app _ lexfn_skip_item _ _ _ (rest r) E) as E2. rewrite Hp, Hi in E2. inversion E2; subst i d2.
  destruct (lf_split _ lexfn_skip_item _ _ _ E) as [c0 [Ew _]].
  pose proof (skip_item_len _ _ _ E) as Hl2.
  exists (mkbw (cap b) w' (consumed b + (length (win b) - length w')) (prior b), r).
  split; [|split].
  - unfold msr. cbn [fst snd win rest]. lia.
  - apply st_ok_intro; cbn [win rest cap prior consumed sched]; try assumption; try reflexivity.
    rewrite <- Hp, !app_length. lia.
  - rewrite rdr_step_item. cbn [fst snd]. rewrite E. unfold rdr_advance, bw_advance. cbn [fst snd].
    replace (Nat.ltb (length (win b)) (length (win b) - length w')) with false by (symmetry; apply Nat.ltb_ge; lia).
    assert (Sk : skipn (length (win b) - length w') (win b) = w').
    { rewrite Ew. rewrite app_length, Nat.add_sub, skipn_app, skipn_all, Nat.sub_diag. reflexivity. }
    rewrite Sk. reflexivity.
Qed.

(* if the window is at least as long as the item, the item is complete in the window *)
Lemma item_in_window w x id d2 :
  skip_item (w ++ x) = Ok (id, d2) -> length (w ++ x) - length d2 <= length w ->
  exists w', skip_item w = Ok (id, w').
Proof.
  intros Hi Hsz. destruct (lf_split _ lexfn_skip_item _ _ _ Hi) as [c0 [Ed Ec]].
  assert (Lc : length c0 <= length w) by (rewrite Ed, app_length in Hsz; lia).
  assert (Ew : w = c0 ++ skipn (length c0) w).
  { rewrite <- (firstn_skipn (length c0) w) at 1. f_equal.
    apply (f_equal (firstn (length c0))) in Ed.
    rewrite !firstn_app, firstn_all, Nat.sub_diag in Ed. cbn [firstn] in Ed.
    replace (length c0 - length w) with 0 in Ed by lia. cbn [firstn] in Ed.
    rewrite !app_nil_r in Ed. exact Ed. }
  exists ([] ++ skipn (length c0) w). rewrite Ew at 1. apply (lf_app _ lexfn_skip_item). exact Ec.
Qed.

(* one item of the pending data, however it is cut by the schedule *)
Lemma rdr_item : forall n s d pos c depth id d2,
  st_ok s d pos c -> skip_item d = Ok (id, d2) -> length d - length d2 <= c -> 0 < c ->
  length (rest (snd s)) <= n ->
  exists k s', 1 <= k /\ k + msr s' <= msr s /\
    st_ok s' d2 (pos + (length d - length d2)) c /\
    forall f, run_steps rdr_skip_step (k + f) (depth, s) =
              match item_next depth id with
              | Some depth' => run_steps rdr_skip_step f (depth', s')
              | None => Some (Ok tt, s')
              end.
Proof.
  induction n as [|n IH]; intros [b r] d pos c depth id d2 Hok Hi Hsz Hc0 Hn.
  all: pose proof (st_ok_elim _ _ _ _ _ Hok) as (Hp & Hpos & Hc & Hnf).
  all: cbn [fst snd] in *.
  all: destruct (lf_total _ lexfn_skip_item (win b)) as [[i [w' E]]|[E|E]];
       [ | | exfalso; exact (skip_item_no_rgb_err _ E)].
  1, 3: destruct (rdr_item_now b r d pos c depth id d2 w' i Hok Hi E) as (s' & M & Hok' & St);
        exists 1, s'; split; [lia|]; split; [lia|]; split; [assumption|];
        intros f; change (1 + f) with (S f); unfold item_cont in St;
        destruct (item_next depth id) eqn:Nx; [apply run_steps_inl | apply run_steps_inr]; exact St.
  (* the window holds no complete item: fill_buf *)
  all: assert (St : rdr_skip_step (depth, (b, r)) = fill_branch depth (b, r))
         by (rewrite rdr_step_item; cbn [fst snd]; rewrite E; reflexivity).
  all: unfold fill_branch in St.
  all: destruct (rdr_fill_spec (b, r) d pos c Hok Hc0) as [Hfull | s' Hlt Hr Hok' Hw Hr' | s' k Hlt Hk Hok' Hw Hr' Hkl];
       cbn [fst snd] in *.
  all: try (
    (* full buffer: the item fits, so it would be complete in the window *)
    exfalso; rewrite <- Hp in Hi, Hsz;
    destruct (item_in_window _ _ _ _ Hi ltac:(lia)) as [w'' Ew]; rewrite Ew in E; discriminate).
  all: try (
    (* end of the stream: the pending data is the window *)
    exfalso; rewrite Hr, app_nil_r in Hp; rewrite Hp, Hi in E; discriminate).
  (* more bytes: one fill step, then the induction hypothesis *)
  destruct (IH s' d pos c depth id d2 Hok' Hi Hsz Hc0) as (k' & s'' & K1 & K2 & K3 & K4).
  { rewrite Hr', skipn_length. lia. }
  exists (S k'), s''. split; [lia|]. split.
  - unfold msr in *. cbn [fst snd] in *. rewrite Hw, Hr', app_length, skipn_length, firstn_length_le in K2 by lia. lia.
  - split; [assumption|]. intros f. cbn [Nat.add]. rewrite (run_steps_inl _ _ _ (depth, s') St). apply K4.
Qed.

Lemma isteps_rdr c depth d depth' d' :
  isteps c depth d depth' d' -> forall s pos, st_ok s d pos c -> 0 < c ->
  exists k s', k + msr s' <= msr s /\ st_ok s' d' (pos + (length d - length d')) c /\
    forall f, run_steps rdr_skip_step (k + f) (depth, s) = run_steps rdr_skip_step f (depth', s').
Proof.
  induction 1; intros s pos Hok Hc0.
  - exists 0, s. rewrite Nat.sub_diag, Nat.add_0_r. split; [lia|]. split; [assumption|]. intros f. reflexivity.
  - destruct (rdr_item _ s d pos c depth id d2 Hok H H1 Hc0 (le_n _)) as (k1 & s1 & K1 & K2 & K3 & K4).
    rewrite H0 in K4.
    destruct (IHisteps s1 _ K3 Hc0) as (k2 & s2 & J1 & J2 & J3).
    exists (k1 + k2), s2. pose proof (skip_item_len _ _ _ H) as L1. pose proof (isteps_len _ _ _ _ _ H2) as L2.
    split; [lia|]. split.
    + replace (pos + (length d - length d'')) with (pos + (length d - length d2) + (length d2 - length d'')) by lia.
      assumption.
    + intros f. rewrite <- Nat.add_assoc, K4. apply J3.
Qed.

Theorem reader_skip_lands_depth c : forall fb depth d r f s pos,
  balanced_fuel fb depth d = Some r -> 1 <= depth -> fits_fuel f c d = true -> length d < f ->
  st_ok s d pos c ->
  exists s', run_steps rdr_skip_step (rdr_fuel s) (depth, s) = Some (Ok tt, s') /\
             st_ok s' r (pos + (length d - length r)) c.
Proof.
  intros fb depth d r f s pos Hb Hd Hf Hl Hok.
  assert (Hc0 : 0 < c).
  { destruct f as [|f]; [lia|]. cbn [fits_fuel] in Hf. apply andb_prop in Hf as [Hf _]. exact (tok_fits_pos _ _ Hf). }
  destruct (balanced_items c fb depth d r f Hb Hd Hf Hl) as [dl [St [Hi Hsz]]].
  destruct (isteps_rdr _ _ _ _ _ St s pos Hok Hc0) as (k1 & s1 & K1 & K2 & K3).
  destruct (rdr_item _ s1 dl _ c 1 L_CLOSE r K2 Hi Hsz Hc0 (le_n _)) as (k2 & s2 & J1 & J2 & J3 & J4).
  assert (N : item_next 1 L_CLOSE = None) by (unfold item_next; eval_ids; reflexivity).
  rewrite N in J4.
  exists s2. pose proof (isteps_len _ _ _ _ _ St) as L1. pose proof (skip_item_len _ _ _ Hi) as L2. split.
  - unfold rdr_fuel. fold (msr s).
    replace (S (msr s)) with (k1 + (k2 + (S (msr s) - k1 - k2))) by lia.
    rewrite K3. apply J4.
  - replace (pos + (length d - length r)) with (pos + (length d - length dl) + (length dl - length r)) by lia.
    assumption.
Qed.

(* TokenReader::skip_container, called just after an Open was read *)
Theorem reader_skip_lands s d pos c r :
  st_ok s d pos c -> fits c d = true -> balanced_read d = Some r ->
  exists s', rdr_skip_container s = (Ok tt, s') /\ st_ok s' r (pos + (length d - length r)) c.
Proof.
  unfold fits, balanced_read. intros Hok Hf Hb.
  destruct (reader_skip_lands_depth c _ 1 d r _ s pos Hb (le_n 1) Hf (Nat.lt_succ_diag_r _) Hok) as [s' [E H]].
  exists s'. split; [|assumption]. unfold rdr_skip_container. rewrite E. reflexivity.
Qed.
