(* C09 (text half), part 1: the 8-byte SWAR step of skip_container is unobservable
   (sk_scan = sk_scan_bytes), and the window scan is the byte-level reference [sref] on the bytes
   it can see. *)
From JV Require Import Bytes Tables U64Swar BufWin TextTok TextReader TextRef TextSkipRef.
From JV.proofs Require Import SwarProofs SwarArith.
From Coq Require Import Lia List Arith ZArith.
Import ListNotations.
Open Scope nat_scope.

(* ------------------------------------------------------------------ small list facts *)
Lemma le_word_firstn n : forall l, le_word n l = le_word n (firstn n l).
Proof. induction n; intros [|c l]; cbn [le_word firstn]; auto. now rewrite <- IHn. Qed.

Lemma nth_error_skipn_hd {A} (w : list A) ptr c l : skipn ptr w = c :: l -> nth_error w ptr = Some c /\ skipn (S ptr) w = l.
Proof.
  revert w. induction ptr; intros [|a w]; cbn [skipn nth_error]; try discriminate.
  - intros H. inversion H. auto.
  - intros H. apply IHptr in H. exact H.
Qed.

Lemma skipn_nth_cons {A} (w : list A) ptr c : nth_error w ptr = Some c -> skipn ptr w = c :: skipn (S ptr) w.
Proof.
  revert w. induction ptr; intros [|a w]; cbn [skipn nth_error]; try discriminate.
  - intros H. inversion H. reflexivity.
  - intros H. apply IHptr in H. exact H.
Qed.

Lemma skipn_nth_none {A} (w : list A) ptr : nth_error w ptr = None -> skipn ptr w = [].
Proof. intros H. apply nth_error_None in H. apply skipn_all2. exact H. Qed.

Lemma wf_skipn n (w : bytes) : wf_bytes w -> wf_bytes (skipn n w).
Proof.
  unfold wf_bytes. intros H. rewrite Forall_forall in *. intros x Hx. apply H.
  rewrite <- (firstn_skipn n w). apply in_or_app. right. exact Hx.
Qed.
Lemma wf_firstn n (w : bytes) : wf_bytes w -> wf_bytes (firstn n w).
Proof.
  unfold wf_bytes. intros H. rewrite Forall_forall in *. intros x Hx. apply H.
  rewrite <- (firstn_skipn n w). apply in_or_app. left. exact Hx.
Qed.

Lemma b_is_true c x : b_is c x = true -> c = x.
Proof. unfold b_is. apply N.eqb_eq. Qed.

(* ------------------------------------------------------------------ the byte walk over a plain chunk *)
Definition cnt (x : N) (l : bytes) : Z := Z.of_nat (length (filter (fun b => (b =? x)%N) l)).

Lemma cnt_cons x c l : cnt x (c :: l) = ((if (c =? x)%N then 1 else 0) + cnt x l)%Z.
Proof. unfold cnt. cbn [filter]. destruct (c =? x)%N; cbn [length]; lia. Qed.

Lemma cnt_nonneg x l : (0 <= cnt x l)%Z.
Proof. unfold cnt. lia. Qed.

(* l = the next |l| bytes of the window, none of them a quote or a hash, and the closes in l do
   not bring the depth below 1: the byte loop walks over l and only updates the depth *)
Lemma bytes_walk_chunk : forall l f w ptr d,
  firstn (length l) (skipn ptr w) = l ->
  existsb (fun b => (b =? 34)%N) l = false -> existsb (fun b => (b =? 35)%N) l = false ->
  (1 <= d - cnt 125 l)%Z ->
  sk_scan_bytes (length l + f) w ptr SkNone d = sk_scan_bytes f w (ptr + length l) SkNone (d - cnt 125 l + cnt 123 l)%Z.
Proof.
  induction l as [|c l IH]; intros f w ptr d Hl Hq Hh Hd.
  - cbn [length]. rewrite Nat.add_0_r. unfold cnt. cbn [filter length Nat.add]. f_equal. lia.
  - cbn [length] in *. cbn [existsb] in Hq, Hh.
    apply orb_false_iff in Hq. destruct Hq as [Hq1 Hq]. apply orb_false_iff in Hh. destruct Hh as [Hh1 Hh].
    destruct (skipn ptr w) as [|c0 t] eqn:Es; [cbn [firstn] in Hl; discriminate|].
    cbn [firstn] in Hl. inversion Hl as [[Hc Ht]]. subst c0.
    destruct (nth_error_skipn_hd _ _ _ _ Es) as [Hn Es'].
    rewrite Ht.
    change (S (length l) + f) with (S (length l + f)). cbn [sk_scan_bytes]. rewrite Hn.
    rewrite !cnt_cons in *. unfold b_is.
    assert (Hl' : firstn (length l) (skipn (S ptr) w) = l) by (rewrite Es'; exact Ht).
    assert (IH' := fun d' => IH f w (S ptr) d' Hl' Hq Hh).
    replace (ptr + S (length l)) with (S ptr + length l) by lia.
    pose proof (cnt_nonneg 125 l) as Hnn.
    destruct (c =? 123)%N eqn:E1.
    + apply N.eqb_eq in E1. subst c. cbn [N.eqb Pos.eqb] in *.
      rewrite IH' by lia. f_equal. lia.
    + destruct (c =? 125)%N eqn:E2.
      * replace (d - 1 =? 0)%Z with false by (symmetry; apply Z.eqb_neq; lia).
        rewrite IH' by lia. f_equal. lia.
      * rewrite Hq1, Hh1. rewrite IH' by lia. f_equal; lia.
Qed.

(* ------------------------------------------------------------------ the lane specs, as used by the wide step *)
Lemma existsb_false_filter (p : N -> bool) l : existsb p l = false -> filter p l = [].
Proof.
  induction l as [|c l IH]; cbn [existsb filter]; [reflexivity|].
  intros H. apply orb_false_iff in H. destruct H as [H1 H2]. rewrite H1. auto.
Qed.

Lemma chunk8 w ptr : wf_bytes w -> 8 < length w - ptr ->
  bytes8 (firstn 8 (skipn ptr w)) /\ length (firstn 8 (skipn ptr w)) = 8.
Proof.
  intros Hw Hlen. assert (L : length (firstn 8 (skipn ptr w)) = 8) by (rewrite firstn_length, skipn_length; lia).
  split; [|exact L]. split; [exact L|]. apply wf_firstn, wf_skipn, Hw.
Qed.

Lemma czb_eq_spec bs c : bytes8 bs -> (c < 256)%N -> czb_eq (le_word 8 bs) c = existsb (fun b => (b =? c)%N) bs.
Proof. intros. unfold czb_eq. apply chunk_has_byte_spec; assumption. Qed.

Lemma wide_count bs c : bytes8 bs -> (c < 256)%N ->
  (if czb_eq (le_word 8 bs) c then Z.of_N (count_chunk (le_word 8 bs) c) else 0%Z) = cnt c bs.
Proof.
  intros Hb Hc. rewrite czb_eq_spec by assumption. unfold cnt.
  destruct (existsb (fun b => (b =? c)%N) bs) eqn:E.
  - rewrite count_chunk_spec by assumption. lia.
  - rewrite existsb_false_filter by exact E. reflexivity.
Qed.

(* ------------------------------------------------------------------ Theorem 1 *)
Ltac byte_step IH :=
  cbn [sk_scan_bytes];
  match goal with |- context [nth_error ?w ?ptr] =>
    let En := fresh "En" in
    destruct (nth_error w ptr) as [?c|] eqn:En; [|reflexivity];
    assert (ptr < length w) by (apply nth_error_Some; congruence)
  end;
  repeat match goal with |- context [if ?b then _ else _] => destruct b end;
  try reflexivity; apply IH; try assumption; lia.

Theorem sk_scan_wide_eq_bytes : forall f1 f2 w ptr st depth,
  wf_bytes w -> length w - ptr < f1 -> length w - ptr < f2 ->
  sk_scan f1 w ptr st depth = sk_scan_bytes f2 w ptr st depth.
Proof.
  induction f1 as [|f IH]; intros f2 w ptr st depth Hw H1 H2; [lia|].
  destruct f2 as [|g]; [lia|].
  destruct st.
  - (* SkNone *)
    cbn [sk_scan].
    destruct (Nat.ltb 8 (length w - ptr)) eqn:Hwide.
    + apply Nat.ltb_lt in Hwide.
      destruct (chunk8 w ptr Hw Hwide) as [Hb8 Hl8].
      rewrite (le_word_firstn 8 (skipn ptr w)).
      set (bs := firstn 8 (skipn ptr w)) in *.
      rewrite !wide_count by (try exact Hb8; reflexivity).
      rewrite !czb_eq_spec by (try exact Hb8; reflexivity).
      destruct (existsb (fun b => (b =? 34)%N) bs) eqn:Eq; cbn [orb].
      { (* a quote in the chunk: byte step *)
        byte_step IH. }
      destruct (existsb (fun b => (b =? 35)%N) bs) eqn:Eh.
      { byte_step IH. }
      destruct (depth - cnt 125 bs <? 1)%Z eqn:Ed.
      { byte_step IH. }
      (* the wide step *)
      apply Z.ltb_ge in Ed.
      assert (Hg : S g = length bs + (S g - 8)) by lia.
      rewrite Hg. rewrite (bytes_walk_chunk bs (S g - 8) w ptr depth); try assumption.
      * rewrite Hl8. apply IH; try assumption; lia.
      * rewrite Hl8. reflexivity.
    + byte_step IH.
  - cbn [sk_scan sk_scan_bytes]. destruct (nth_error w ptr) as [c|] eqn:En; [|reflexivity].
    assert (ptr < length w) by (apply nth_error_Some; congruence).
    destruct (b_is c 92).
    + destruct (Nat.leb (length w - ptr) 2) eqn:E2; [reflexivity|]. apply Nat.leb_gt in E2.
      apply IH; try assumption; lia.
    + destruct (b_is c 34); apply IH; try assumption; lia.
  - cbn [sk_scan sk_scan_bytes]. destruct (nth_error w ptr) as [c|] eqn:En; [|reflexivity].
    assert (ptr < length w) by (apply nth_error_Some; congruence).
    destruct (b_is c 10); apply IH; try assumption; lia.
Qed.

(* ------------------------------------------------------------------ the window scan and the reference *)
(* w = the window, x = whatever follows it in the stream (not visible to the scan) *)
Definition wpost (w x : bytes) (ptr : nat) (st : skst) (d : Z) (res : skres) : Prop :=
  match res with
  | SkDone adv => ptr < adv <= length w /\ forall k, sref (skipn ptr (w ++ x)) st d k = Some (k + (adv - ptr))
  | SkRefill p st' d' =>
      ptr <= p <= length w /\
      (forall k, sref (skipn ptr (w ++ x)) st d k = sref (skipn p (w ++ x)) st' d' (k + (p - ptr))) /\
      (p = length w \/ (st' = SkQuote /\ (exists c, nth_error w p = Some c /\ b_is c 92 = true) /\ length w - p <= 2)) /\
      (sesc (skipn p (w ++ x)) st' d' = true -> sesc (skipn ptr (w ++ x)) st d = true)
  | SkCrash _ => False
  end.

Lemma wpost_step w x ptr st d ptr' st' d' res :
  ptr < ptr' <= length w ->
  (forall k, sref (skipn ptr (w ++ x)) st d k = sref (skipn ptr' (w ++ x)) st' d' (k + (ptr' - ptr))) ->
  (sesc (skipn ptr' (w ++ x)) st' d' = true -> sesc (skipn ptr (w ++ x)) st d = true) ->
  wpost w x ptr' st' d' res -> wpost w x ptr st d res.
Proof.
  intros Hp Hs He. destruct res as [adv|p st2 d2|s]; cbn [wpost]; [| |auto].
  - intros [Ha Hk]. split; [lia|]. intros k. rewrite Hs, Hk. f_equal. lia.
  - intros (Ha & Hk & Hc & Hes). split; [lia|]. split; [|split; [exact Hc|auto]].
    intros k. rewrite Hs, Hk. f_equal. lia.
Qed.

Lemma skipn_app_cons (w x : bytes) ptr c :
  nth_error w ptr = Some c -> skipn ptr (w ++ x) = c :: skipn (S ptr) (w ++ x).
Proof.
  intros H. apply skipn_nth_cons. rewrite nth_error_app1; [exact H|]. apply nth_error_Some. congruence.
Qed.

Theorem scan_window : forall fuel w x ptr st d,
  ptr <= length w -> length w - ptr < fuel ->
  wpost w x ptr st d (sk_scan_bytes fuel w ptr st d).
Proof.
  induction fuel as [|f IH]; intros w x ptr st d Hp Hf; [lia|].
  cbn [sk_scan_bytes].
  destruct (nth_error w ptr) as [c|] eqn:En.
  2:{ (* end of the window *)
    apply nth_error_None in En. assert (ptr = length w) by lia. subst ptr.
    destruct st; cbn [wpost]; (split; [lia|]); (split; [intros k; f_equal; lia|]); (split; [left; reflexivity|auto]). }
  assert (Hlt : ptr < length w) by (apply nth_error_Some; congruence).
  pose proof (skipn_app_cons w x ptr c En) as Hsk.
  assert (Hone : forall st' d', 
     (forall k, sref (skipn ptr (w ++ x)) st d k = sref (skipn (S ptr) (w ++ x)) st' d' (k + (S ptr - ptr))) ->
     (sesc (skipn (S ptr) (w ++ x)) st' d' = true -> sesc (skipn ptr (w ++ x)) st d = true) ->
     wpost w x ptr st d (sk_scan_bytes f w (S ptr) st' d')).
  { intros st' d' H1 H2. apply (wpost_step w x ptr st d (S ptr) st' d'); [lia|exact H1|exact H2|].
    apply IH; lia. }
  replace (S ptr - ptr) with 1 in Hone by lia.
  destruct st.
  - (* SkNone *)
    destruct (b_is c 123) eqn:E1.
    { apply Hone; rewrite Hsk; cbn [sref sesc]; rewrite E1; [intros k; f_equal; lia|auto]. }
    destruct (b_is c 125) eqn:E2.
    { destruct (d - 1 =? 0)%Z eqn:Ez.
      - cbn [wpost]. split; [lia|]. intros k. rewrite Hsk. cbn [sref]. rewrite E1, E2, Ez. f_equal. lia.
      - apply Hone; rewrite Hsk; cbn [sref sesc]; rewrite E1, E2, Ez; [intros k; f_equal; lia|auto]. }
    destruct (b_is c 34) eqn:E3.
    { apply Hone; rewrite Hsk; cbn [sref sesc]; rewrite E1, E2, E3; [intros k; f_equal; lia|auto]. }
    destruct (b_is c 35) eqn:E4.
    { apply Hone; rewrite Hsk; cbn [sref sesc]; rewrite E1, E2, E3, E4; [intros k; f_equal; lia|auto]. }
    apply Hone; rewrite Hsk; cbn [sref sesc]; rewrite E1, E2, E3, E4; [intros k; f_equal; lia|auto].
  - (* SkQuote *)
    destruct (b_is c 92) eqn:E1.
    { destruct (Nat.leb (length w - ptr) 2) eqn:E2.
      - apply Nat.leb_le in E2. cbn [wpost]. split; [lia|]. split; [intros k; f_equal; lia|].
        split; [|auto]. right. split; [reflexivity|]. split; [exists c; auto|exact E2].
      - apply Nat.leb_gt in E2.
        destruct (nth_error w (S ptr)) as [c2|] eqn:En2; [|apply nth_error_None in En2; lia].
        pose proof (skipn_app_cons w x (S ptr) c2 En2) as Hsk2.
        apply (wpost_step w x ptr SkQuote d (ptr + 2) SkQuote d); [lia| | |apply IH; lia].
        + intros k. rewrite Hsk, Hsk2. cbn [sref]. rewrite E1. replace (S (S ptr)) with (ptr + 2) by lia.
          f_equal. lia.
        + intros _. rewrite Hsk. cbn [sesc]. rewrite E1. reflexivity. }
    destruct (b_is c 34) eqn:E2.
    { apply Hone; rewrite Hsk; cbn [sref sesc]; rewrite E1, E2; [intros k; f_equal; lia|auto]. }
    apply Hone; rewrite Hsk; cbn [sref sesc]; rewrite E1, E2; [intros k; f_equal; lia|auto].
  - (* SkComment *)
    destruct (b_is c 10) eqn:E1.
    { apply Hone; rewrite Hsk; cbn [sref sesc]; rewrite E1; [intros k; f_equal; lia|auto]. }
    apply Hone; rewrite Hsk; cbn [sref sesc]; rewrite E1; [intros k; f_equal; lia|auto].
Qed.

(* a scan that stands on a backslash with at most one byte behind it, or at the end, fails *)
Lemma sref_nil st d k : sref [] st d k = None.
Proof. reflexivity. Qed.

Lemma sref_esc_short (s : bytes) c d k :
  nth_error s 0 = Some c -> b_is c 92 = true -> length s <= 2 -> sref s SkQuote d k = None.
Proof.
  destruct s as [|c0 [|c1 [|c2 s]]]; cbn [nth_error length sref]; try discriminate; try lia;
    intros H; inversion H; subst; intros ->; reflexivity.
Qed.

(* Theorem 2: the window holds the whole remaining input *)
Theorem scan_ref_whole : forall fuel w ptr st d,
  ptr <= length w -> length w - ptr < fuel ->
  match sk_scan_bytes fuel w ptr st d with
  | SkDone adv => ptr < adv <= length w /\ sref (skipn ptr w) st d 0 = Some (adv - ptr)
  | SkRefill _ _ _ => sref (skipn ptr w) st d 0 = None
  | SkCrash _ => False
  end.
Proof.
  intros fuel w ptr st d Hp Hf. pose proof (scan_window fuel w [] ptr st d Hp Hf) as H.
  destruct (sk_scan_bytes fuel w ptr st d) as [adv|p st' d'|s]; cbn [wpost] in H; [| |exact H];
    rewrite !app_nil_r in H.
  - destruct H as [Ha Hk]. split; [exact Ha|]. rewrite Hk. reflexivity.
  - destruct H as (Ha & Hk & Hc & _). rewrite Hk. destruct Hc as [->|(-> & (c & Hn & Hb) & Hl)].
    + rewrite skipn_all. reflexivity.
    + apply (sref_esc_short _ c); [|exact Hb|rewrite skipn_length; exact Hl].
      rewrite (skipn_nth_cons _ _ _ Hn). reflexivity.
Qed.

Corollary scan_whole_skip_ref : forall fuel w, length w < fuel ->
  match sk_scan_bytes fuel w 0 SkNone 1%Z with
  | SkDone adv => skip_ref w = Some adv /\ 0 < adv <= length w
  | SkRefill _ _ _ => skip_ref w = None
  | SkCrash _ => False
  end.
Proof.
  intros fuel w Hf. pose proof (scan_ref_whole fuel w 0 SkNone 1%Z ltac:(lia) ltac:(lia)) as H.
  unfold skip_ref. cbn [skipn] in H.
  destruct (sk_scan_bytes fuel w 0 SkNone 1%Z); [|exact H|exact H].
  destruct H as [Ha Hs]. rewrite Nat.sub_0_r in Hs. auto.
Qed.
