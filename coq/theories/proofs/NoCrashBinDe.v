(* C05 for the binary serde deserializer walks: instances of the generic theorem of NoCrashWalk.v.

   on-demand path (BinDeOndemand.ops_od over the Lexer cursor) and streaming path (BinDeReader.ops_rd
   over the TokenReader, any capacity, any schedule incl. Fail events): for EVERY byte string (bytes
   < 256), EVERY shape and EVERY configuration whose decoder is total on real bytes and returns real
   bytes ([cfg_ok]: true of both decoders of Encoding.v), the entry points deser_ondemand /
   deser_reader -- which run the walk with their own fuel BinDeCommon.deser_fuel -- never return
   OOB or OutOfFuel, and Panic only as the ShProp marker 9001 (never for a shape without ShProp). *)
From JV.proofs Require Import SwarLanes BufWinProofs BinLexProofs NoCrashBinReader NoCrashWalk.
From JV.proofs Require BinRoundProofs.
From JV Require Import Bytes Tables Date BinPrim BufWin BinLexer BinReader SerdeShape BinDeCommon BinDeOndemand BinDeReader.
From Coq Require Import List NArith ZArith Bool Lia Arith.
Import ListNotations.
Open Scope nat_scope.

(* ---------- suffixes and real bytes ---------- *)
Definition suffix (d' d : bytes) : Prop := exists c, d = c ++ d'.
Lemma suffix_refl d : suffix d d. Proof. exists []. reflexivity. Qed.
Lemma suffix_trans a b c : suffix a b -> suffix b c -> suffix a c.
Proof. intros [x ->] [y ->]. exists (y ++ x). rewrite app_assoc. reflexivity. Qed.
Lemma suffix_wf d' d : suffix d' d -> wfl d -> wfl d'.
Proof. intros [c ->] H. apply Forall_app in H. apply H. Qed.
Lemma suffix_len d' d : suffix d' d -> length d' <= length d.
Proof. intros [c ->]. rewrite app_length. lia. Qed.
Lemma lexfn_suffix {A} (f : bytes -> outcome (A * bytes)) d v r : lexfn f -> f d = Ok (v, r) -> suffix r d.
Proof. intros Hf H. destruct (lf_split _ Hf _ _ _ H) as [c [E _]]. exists c. exact E. Qed.
Lemma wfl_firstn n d : wfl d -> wfl (firstn n d).
Proof. intros H. rewrite <- (firstn_skipn n d) in H. apply Forall_app in H. apply H. Qed.
Lemma wfl_skipn n d : wfl d -> wfl (skipn n d).
Proof. intros H. rewrite <- (firstn_skipn n d) in H. apply Forall_app in H. apply H. Qed.

Lemma le_word_bound : forall n h, wfl h -> (le_word n h < 256 ^ N.of_nat n)%N.
Proof.
  induction n as [|n IH]; intros h Hh; [cbn; lia|].
  rewrite Nat2N.inj_succ, N.pow_succ_r'. cbn [le_word].
  assert (Hpos : (0 < 256 ^ N.of_nat n)%N) by (apply N.neq_0_lt_0, N.pow_nonzero; lia).
  destruct h as [|x r]; [lia|].
  inversion Hh; subst. specialize (IH r H2). lia.
Qed.

Lemma to_signed32_in_i32 w : (w < 2 ^ 32)%N -> in_i32 (to_signed 32 w) = true.
Proof.
  intros Hw. unfold to_signed, in_i32. change (2 ^ (32 - 1))%N with 2147483648%N. change (2 ^ 32)%N with 4294967296%N in *.
  destruct (w <? 2147483648)%N eqn:E.
  - apply N.ltb_lt in E. apply andb_true_intro. split; apply Z.leb_le; lia.
  - apply N.ltb_ge in E. apply andb_true_intro. split; apply Z.leb_le; lia.
Qed.

Lemma read_i32_ok d z r : wfl d -> read_i32 d = Ok (z, r) -> in_i32 z = true.
Proof.
  unfold read_i32. intros Hd. destruct (get_split 4 d) as [[h r']|] eqn:E; [|discriminate].
  intros H. inversion H; subst. apply get_split_some in E as (_ & _ & -> & _).
  apply to_signed32_in_i32. apply (le_word_bound 4). apply wfl_firstn. exact Hd.
Qed.

Lemma read_string_ok d s r : wfl d -> read_string d = Ok (s, r) -> wfl s.
Proof.
  unfold read_string. intros Hd. destruct (get_split 2 d) as [[h r']|] eqn:E; [|discriminate].
  apply get_split_some in E as (_ & _ & _ & Er).
  assert (Hr : wfl r') by (subst r'; apply wfl_skipn; exact Hd). clear Er.
  destruct (Nat.leb _ _); [|discriminate]. intros H.
  assert (Es : s = firstn (N.to_nat (le_word 2 h)) r') by congruence. subst s. apply wfl_firstn; exact Hr.
Qed.

(* ---------- configuration ---------- *)
Definition cfg_ok (cfg : bcfg) : Prop :=
  (forall s, wfl s -> strict wfl (c_decode cfg s)) /\
  (forall id name, c_resolve cfg id = Some name -> wfl name).

Lemma hex_fuel_wfl : forall fuel n acc, wfl acc -> wfl (hex_fuel fuel n acc).
Proof.
  induction fuel as [|f IH]; intros n acc Ha; [exact Ha|]. cbn [hex_fuel].
  assert (Hd : wfl (hex_digit (n mod 16) :: acc)).
  { constructor; [|exact Ha]. unfold hex_digit. pose proof (N.mod_upper_bound n 16 ltac:(lia)).
    destruct (n mod 16 <? 10)%N; lia. }
  destruct (n / 16 =? 0)%N; [exact Hd|apply IH; exact Hd].
Qed.

Lemma id_prim_ok cfg id : cfg_ok cfg -> strict prim_ok (id_prim cfg id).
Proof.
  intros [_ Hr]. unfold id_prim. destruct (c_resolve cfg id) as [name|] eqn:E; [cbn; eauto|].
  destruct (c_strategy cfg); cbn [strict prim_ok]; auto.
  - unfold stringify_id. cbn [app]. constructor; [lia|]. constructor; [lia|]. apply hex_fuel_wfl. constructor.
  - unfold IGNORE_ID. repeat constructor.
Qed.

Lemma str_prim_ok cfg s : cfg_ok cfg -> wfl s -> strict prim_ok (str_prim cfg s).
Proof.
  intros [Hd _] Hs. unfold str_prim. eapply strict_bind; [apply (Hd s Hs)|]. intros s' Hs'. exact Hs'.
Qed.

(* ================================================================== on-demand *)
Section Ondemand.
  Variable cfg : bcfg.
  Hypothesis Hcfg : cfg_ok cfg.

  Definition IS_od (l : lexer) : Prop := wfl (lx_data l).
  Definition mu_od (l : lexer) : nat := length (lx_data l).

  Lemma lift_lx_lift {A} (f : bytes -> outcome (A * bytes)) l : lexfn f ->
    strict (fun r => f (lx_data l) = Ok (fst r, lx_data (snd r))) (lift (lx_lift f l)).
  Proof.
    intros Hf. unfold lift, lx_lift. destruct (lf_total _ Hf (lx_data l)) as [[v [r E]]|[E|E]]; rewrite E; cbn; auto.
  Qed.

  Definition post_od (l : lexer) (r : action lexer rgb * lexer) : Prop :=
    IS_od (snd r) /\ mu_od (snd r) <= mu_od l + 0 /\ mu_od (snd r) <= mu_od l + 0 /\
    act_ok IS_od mu_od (mu_od l + 0) (fst r).

  Lemma od_prim_ok {A} (g : A -> prim) (f : bytes -> outcome (A * bytes)) l : lexfn f -> IS_od l ->
    (forall v r, f (lx_data l) = Ok (v, r) -> prim_ok (g v)) ->
    strict (post_od l) (od_prim g (lx_lift f l)).
  Proof.
    intros Hf Hl Hg. unfold od_prim. eapply strict_bind; [apply (lift_lx_lift f l Hf)|].
    intros [a l'] E. cbn [fst snd] in *. pose proof (lexfn_suffix f _ _ _ Hf E) as Hsuf. cbn. unfold post_od, IS_od, mu_od. cbn [fst snd act_ok].
    pose proof (suffix_len _ _ Hsuf). repeat split; try lia; [eapply suffix_wf; eauto|eapply Hg; eauto].
  Qed.

  Lemma od_string_ok l : IS_od l -> strict (post_od l) (od_string cfg l).
  Proof.
    intros Hl. unfold od_string. eapply strict_bind; [apply (lift_lx_lift read_string l lexfn_read_string)|].
    intros [s l'] E. cbn [fst snd] in *. pose proof (lexfn_suffix read_string _ _ _ lexfn_read_string E) as Hsuf.
    eapply strict_bind; [apply (str_prim_ok cfg s Hcfg (read_string_ok _ _ _ Hl E))|]. intros p Hp. cbn.
    unfold post_od, IS_od, mu_od. cbn [fst snd act_ok]. pose proof (suffix_len _ _ Hsuf).
    repeat split; try lia; [eapply suffix_wf; eauto|exact Hp].
  Qed.

  Lemma od_rgb_ok l : IS_od l -> strict (post_od l) (od_rgb l).
  Proof.
    intros Hl. unfold od_rgb. eapply strict_bind; [apply (lift_lx_lift read_rgb l lexfn_read_rgb)|].
    intros [c l'] E. cbn [fst snd] in *. pose proof (lexfn_suffix read_rgb _ _ _ lexfn_read_rgb E) as Hsuf. cbn.
    unfold post_od, IS_od, mu_od. cbn [fst snd act_ok]. pose proof (suffix_len _ _ Hsuf).
    repeat split; try lia. eapply suffix_wf; eauto.
  Qed.

  Lemma post_od_same l (a : action lexer rgb) : IS_od l -> act_ok IS_od mu_od (mu_od l + 0) a -> post_od l (a, l).
  Proof. intros Hl Ha. unfold post_od. cbn [fst snd]. repeat split; auto; lia. Qed.

  Ltac od_simple :=
    first [ apply od_string_ok; assumption
          | apply od_rgb_ok; assumption
          | apply od_prim_ok; [first [apply lexfn_read_u32|apply lexfn_read_i32|apply lexfn_read_u64|apply lexfn_read_i64
                                      |apply lexfn_read_bool|apply lexfn_read_f32|apply lexfn_read_f64]
                              |assumption
                              |intros; cbn [prim_ok]; try exact I; eapply read_i32_ok; eauto] ].

  Lemma od_deser_ok tok l : IS_od l -> strict (post_od l) (od_deser cfg tok l).
  Proof.
    intros Hl. unfold od_deser.
    destruct ((tok =? L_QUOTED) || (tok =? L_UNQUOTED))%N; [od_simple|].
    destruct (tok =? L_U32)%N; [od_simple|]. destruct (tok =? L_I32)%N; [od_simple|].
    destruct (tok =? L_U64)%N; [od_simple|]. destruct (tok =? L_I64)%N; [od_simple|].
    destruct (tok =? L_BOOL)%N; [od_simple|]. destruct (tok =? L_F32)%N; [od_simple|].
    destruct (tok =? L_F64)%N; [od_simple|]. destruct (tok =? L_RGB)%N; [od_simple|].
    destruct (tok =? L_OPEN)%N. { cbn. apply post_od_same; [exact Hl|]. cbn. split; [exact Hl|lia]. }
    destruct ((tok =? L_CLOSE) || (tok =? L_EQUAL))%N; [exact I|].
    eapply strict_bind; [apply (id_prim_ok cfg tok Hcfg)|]. intros p Hp. cbn. apply post_od_same; [exact Hl|exact Hp].
  Qed.

  (* skip_container leaves the cursor on a suffix *)
  Lemma lx_skip_pay_suffix {A} (f : bytes -> outcome (A * bytes)) depth d1 : lexfn f ->
    match lx_skip_pay depth d1 (drop_val (f d1)) with
    | inl (_, d2) => suffix d2 d1
    | inr (_, d2) => suffix d2 d1
    end.
  Proof.
    intros Hf. unfold lx_skip_pay, drop_val.
    destruct (lf_total _ Hf d1) as [[v [r E]]|[E|E]]; rewrite E; cbn [omap obind snd]; try apply suffix_refl.
    apply (lexfn_suffix f d1 v r Hf E).
  Qed.

  Lemma lx_skip_step_suffix st :
    match lx_skip_step st with
    | inl st' => suffix (snd st') (snd st)
    | inr r => suffix (snd r) (snd st)
    end.
  Proof.
    destruct st as [depth d]. unfold lx_skip_step.
    destruct (lf_total _ lexfn_read_id d) as [[id [d1 E]]|[E|E]]; rewrite E; cbn [snd]; try apply suffix_refl.
    pose proof (lexfn_suffix read_id d id d1 lexfn_read_id E) as Hs1.
    assert (Hpay : forall A (f : bytes -> outcome (A * bytes)), lexfn f ->
              match lx_skip_pay depth d1 (drop_val (f d1)) with
              | inl st' => suffix (snd st') d
              | inr r => suffix (snd r) d end).
    { intros A f Hf. pose proof (lx_skip_pay_suffix f depth d1 Hf) as H.
      destruct (lx_skip_pay depth d1 (drop_val (f d1))) as [[dp d2]|[o d2]]; cbn [snd]; eapply suffix_trans; eauto. }
    destruct ((id =? L_QUOTED) || (id =? L_UNQUOTED))%N; [apply Hpay, lexfn_read_string|].
    destruct (id =? L_U32)%N; [apply Hpay, lexfn_read_u32|].
    destruct (id =? L_I32)%N; [apply Hpay, lexfn_read_i32|].
    destruct (id =? L_U64)%N; [apply Hpay, lexfn_read_u64|].
    destruct (id =? L_I64)%N; [apply Hpay, lexfn_read_i64|].
    destruct (id =? L_BOOL)%N; [apply Hpay, lexfn_read_bool|].
    destruct (id =? L_F32)%N; [apply Hpay, lexfn_read_f32|].
    destruct (id =? L_F64)%N; [apply Hpay, lexfn_read_f64|].
    destruct (id =? L_CLOSE)%N. { destruct (Nat.eqb depth 1); cbn [snd]; exact Hs1. }
    destruct (id =? L_OPEN)%N; cbn [snd]; exact Hs1.
  Qed.

  Lemma skip_container_bytes_spec d : nc (fst (skip_container_bytes d)) /\ suffix (snd (skip_container_bytes d)) d.
  Proof.
    unfold skip_container_bytes, lx_skip_fuel.
    destruct (run_steps_inv lx_skip_step (fun st => length (snd st)) (fun st => suffix (snd st) d)
                (fun r => nc (fst r) /\ suffix (snd r) d)) with (fuel := S (length d)) (s := (1, d))
      as (r & -> & Hr); [| apply suffix_refl | cbn [snd]; lia | exact Hr].
    intros st Hst. pose proof (lx_skip_step_spec st) as H1. pose proof (lx_skip_step_suffix st) as H2.
    destruct (lx_skip_step st) as [st'|[o d']]; cbn [fst snd] in *.
    - split; [eapply suffix_trans; eauto|exact H1].
    - split; [exact H1|eapply suffix_trans; eauto].
  Qed.

  Lemma lift_strict {A St} (r : outcome A * St) : nc (fst r) -> strict (fun x => fst r = Ok (fst x) /\ snd x = snd r) (lift r).
  Proof. unfold lift, nc. destruct r as [[a| | | |] s]; cbn; auto; discriminate. Qed.

  Lemma lx_unit_suffix {A} (f : bytes -> outcome (A * bytes)) l : lexfn f ->
    nc (fst (lx_unit (lx_lift f l))) /\ suffix (lx_data (snd (lx_unit (lx_lift f l)))) (lx_data l).
  Proof.
    intros Hf. unfold lx_unit, lx_lift. destruct (lf_total _ Hf (lx_data l)) as [[v [r E]]|[E|E]]; rewrite E; cbn; repeat split;
      try apply suffix_refl. apply (lexfn_suffix f _ _ _ Hf E).
  Qed.

  Lemma lx_skip_value_spec id l :
    nc (fst (lx_skip_value id l)) /\ suffix (lx_data (snd (lx_skip_value id l))) (lx_data l).
  Proof.
    unfold lx_skip_value.
    destruct ((id =? L_QUOTED) || (id =? L_UNQUOTED))%N; [apply lx_unit_suffix, lexfn_read_string|].
    destruct (id =? L_U32)%N; [apply lx_unit_suffix, lexfn_read_u32|].
    destruct (id =? L_I32)%N; [apply lx_unit_suffix, lexfn_read_i32|].
    destruct (id =? L_U64)%N; [apply lx_unit_suffix, lexfn_read_u64|].
    destruct (id =? L_I64)%N; [apply lx_unit_suffix, lexfn_read_i64|].
    destruct (id =? L_BOOL)%N; [apply lx_unit_suffix, lexfn_read_bool|].
    destruct (id =? L_F32)%N; [apply lx_unit_suffix, lexfn_read_f32|].
    destruct (id =? L_F64)%N; [apply lx_unit_suffix, lexfn_read_f64|].
    destruct (id =? L_OPEN)%N.
    { unfold lx_skip_container. pose proof (skip_container_bytes_spec (lx_data l)) as [H1 H2].
      destruct (skip_container_bytes (lx_data l)) as [o d']. cbn [fst snd lx_data] in *. auto. }
    destruct (id =? L_RGB)%N; [apply lx_unit_suffix, lexfn_read_rgb|].
    split; [reflexivity|apply suffix_refl].
  Qed.

  Lemma od_dispatch_ok k h tok l : IS_od l -> True ->
    strict (post_od l) (od_dispatch cfg k h tok l).
  Proof.
    intros Hl _. pose proof (od_deser_ok tok l Hl) as Hd. destruct h; cbn [od_dispatch]; try exact Hd.
    - destruct (tok =? L_BOOL)%N; [od_simple|exact Hd].
    - destruct (is_id tok); [|exact Hd]. cbn. apply post_od_same; [exact Hl|exact I].
    - destruct (tok =? L_I32)%N; [od_simple|exact Hd].
    - destruct (tok =? L_U32)%N; [od_simple|exact Hd].
    - destruct (tok =? L_U64)%N; [od_simple|exact Hd].
    - destruct (tok =? L_I64)%N; [od_simple|exact Hd].
    - destruct (tok =? L_F32)%N; [od_simple|exact Hd].
    - destruct (tok =? L_F64)%N; [od_simple|exact Hd].
    - destruct ((tok =? L_QUOTED) || (tok =? L_UNQUOTED))%N; [od_simple|exact Hd].
    - destruct (tok =? L_OPEN)%N. { cbn. apply post_od_same; [exact Hl|]. cbn. split; [exact Hl|lia]. }
      destruct (tok =? L_RGB)%N; [od_simple|exact Hd].
    - destruct (tok =? L_OPEN)%N; [|exact Hd]. cbn. apply post_od_same; [exact Hl|]. cbn. split; [exact Hl|lia].
    - pose proof (lx_skip_value_spec tok l) as [H1 H2].
      eapply strict_bind; [apply (lift_strict _ H1)|]. intros [u l'] [_ E]. cbn [fst snd] in *. subst l'. cbn.
      unfold post_od, IS_od, mu_od. cbn [fst snd act_ok]. pose proof (suffix_len _ _ H2).
      repeat split; try lia. eapply suffix_wf; eauto.
  Qed.

  Lemma read_id_step l : IS_od l ->
    strict (fun r => IS_od (snd r) /\ mu_od (snd r) + 2 = mu_od l) (lift (lx_read_id l)).
  Proof.
    intros Hl. eapply strict_mono; [apply (lift_lx_lift read_id l lexfn_read_id)|].
    intros [id l'] E. cbn [fst snd] in *. unfold IS_od, mu_od.
    pose proof (lexfn_suffix read_id _ _ _ lexfn_read_id E) as Hs. apply read_id_len in E.
    split; [eapply suffix_wf; eauto|lia].
  Qed.

  Lemma od_next_elem_ok l : IS_od l ->
    strict (fun r => IS_od (snd r) /\
                     match fst r with None => mu_od (snd r) <= mu_od l | Some t => True /\ mu_od (snd r) + 0 + 1 <= mu_od l end)
           (od_next_elem l).
  Proof.
    intros Hl. unfold od_next_elem. eapply strict_bind; [apply (read_id_step l Hl)|].
    intros [tok l'] [H1 H2]. cbn [fst snd] in *. destruct (tok =? L_CLOSE)%N; cbn; repeat split; auto; lia.
  Qed.

  Lemma od_seq_exit_ok h (s1 sub : lexer) d : IS_od s1 -> IS_od sub ->
    strict (fun s => IS_od s /\ (forall M, mu_od s1 <= M -> mu_od sub <= M -> mu_od s <= M) /\
                     (forall M, mu_od s1 <= M -> mu_od sub <= M -> mu_od s <= M)) (od_seq_exit h s1 sub d).
  Proof.
    intros _ Hsub. assert (Hsame : strict (fun s => IS_od s /\ (forall M, mu_od s1 <= M -> mu_od sub <= M -> mu_od s <= M) /\
                     (forall M, mu_od s1 <= M -> mu_od sub <= M -> mu_od s <= M)) (Ok sub)) by (cbn; auto).
    destruct h; cbn [od_seq_exit]; try exact Hsame. destruct d; [exact Hsame|].
    eapply strict_bind; [apply (read_id_step sub Hsub)|]. intros [e l'] [H1 H2]. cbn [fst snd] in *.
    destruct (e =? L_CLOSE)%N; [|exact I]. cbn. repeat split; auto; intros; lia.
  Qed.

  Lemma od_key_loop_ok root : forall fuel l, IS_od l -> mu_od l < fuel ->
    strict (fun r => IS_od (snd r) /\
                     match fst r with None => mu_od (snd r) <= mu_od l | Some t => True /\ mu_od (snd r) + 0 + 1 <= mu_od l end)
           (od_key_loop fuel root l).
  Proof.
    induction fuel as [|f IH]; intros l Hl Hf; [lia|].
    cbn [od_key_loop]. unfold lx_read_id, lx_lift.
    destruct (lf_total _ lexfn_read_id (lx_data l)) as [[tok [r E]]|[E|E]]; rewrite E.
    - pose proof (lexfn_suffix read_id _ _ _ lexfn_read_id E) as Hs. apply read_id_len in E.
      assert (H1 : IS_od (mklx r (lx_orig l))) by (unfold IS_od; cbn [lx_data]; eapply suffix_wf; eauto).
      destruct (tok =? L_CLOSE)%N. { cbn. unfold mu_od. cbn [lx_data]. split; [exact H1|lia]. }
      destruct (tok =? L_OPEN)%N; [|cbn; unfold mu_od; cbn [lx_data]; repeat split; auto; lia].
      eapply strict_bind; [apply (read_id_step _ H1)|]. intros [x l2] [H2 H3]. cbn [fst snd] in *.
      unfold mu_od in *. cbn [lx_data] in *.
      eapply strict_mono; [apply (IH l2 H2); unfold mu_od; lia|].
      intros [o l3] [R1 R2]. cbn [fst snd] in *. split; [exact R1|]. destruct o; unfold mu_od in *; lia.
    - cbn [recast]. destruct ((E_LexEof =? E_LexEof)%N && root); cbn; auto; try (split; [exact Hl|lia]).
    - cbn [recast]. destruct ((E_InvalidRgb =? E_LexEof)%N && root); cbn; auto; try (split; [exact Hl|lia]).
  Qed.

  Lemma od_next_key_ok root l : IS_od l ->
    strict (fun r => IS_od (snd r) /\
                     match fst r with None => mu_od (snd r) <= mu_od l | Some t => True /\ mu_od (snd r) + 0 + 1 <= mu_od l end)
           (od_next_key root l).
  Proof. intros Hl. unfold od_next_key. apply od_key_loop_ok; [exact Hl|unfold mu_od; lia]. Qed.

  Lemma od_next_value_ok l : IS_od l ->
    strict (fun r => True /\ IS_od (snd r) /\ mu_od (snd r) + 0 <= mu_od l) (od_next_value l).
  Proof.
    intros Hl. unfold od_next_value. eapply strict_bind; [apply (read_id_step l Hl)|].
    intros [tok l1] [H1 H2]. cbn [fst snd] in *. destruct (tok =? L_EQUAL)%N.
    - eapply strict_mono; [apply (read_id_step l1 H1)|]. intros [t l2] [H3 H4]. cbn [fst snd] in *. repeat split; auto; lia.
    - cbn. repeat split; auto; lia.
  Qed.

  Theorem deser_ondemand_ok (b : bool) sh d : wfl d -> (b = true -> noprop sh = true) ->
    gd2 b True (fun _ => True) (deser_ondemand cfg sh d).
  Proof.
    intros Hd Hs. unfold deser_ondemand.
    eapply gd2_mono;
      [apply (walk_root_ok (c_fops cfg) (ops_od cfg) b IS_od (fun _ => True) mu_od mu_od (fun _ _ => 0))| |intros; exact I].
    - intros; lia.
    - intros k h t s H1 H2. apply (od_dispatch_ok k h t s H1 H2).
    - apply od_next_elem_ok.
    - apply od_seq_exit_ok.
    - intros s1 sub _ Hsub. cbn. repeat split; auto.
    - apply od_next_key_ok.
    - apply od_next_value_ok.
    - intros n sh0 c. apply color_visit_strict.
    - exact Hd.
    - exact Hs.
    - intros _. unfold deser_fuel, mu_od, lx_new. cbn [lx_data]. lia.
  Qed.
End Ondemand.

(* ================================================================== streaming reader *)
Definition tok_ok (t : btoken) : Prop :=
  match t with
  | BI32 x => in_i32 x = true
  | BQuoted s | BUnquoted s => wfl s
  | _ => True
  end.

Lemma read_token_tok_ok w t w' : wfl w -> read_token w = Ok (t, w') -> tok_ok t.
Proof.
  intros Hw H. destruct (BinRoundProofs.read_token_inv w t w' H) as (id & d1 & E1 & E2).
  pose proof (suffix_wf _ _ (lexfn_suffix read_id _ _ _ lexfn_read_id E1) Hw) as H1.
  destruct t; cbn [tok_ok BinRoundProofs.tok_shape] in *; try exact I; destruct E2 as [_ E2].
  - eapply read_i32_ok; eauto.
  - eapply read_string_ok; eauto.
  - eapply read_string_ok; eauto.
Qed.

Lemma rdr_fill_pending s :
  match rdr_fill s with FcZero s' | FcMore s' | FcErr _ s' => rdr_pending s' = rdr_pending s end.
Proof.
  unfold rdr_fill. destruct (bw_fill_buf (fst s) (snd s)) as [n b' r'|b' r'|b' r'] eqn:E.
  - apply fill_ok_rest in E as (_ & E2 & _). unfold rdr_pending. destruct (Nat.eqb n 0); cbn [fst snd]; exact E2.
  - unfold bw_fill_buf in E. destruct (Nat.leb (cap (fst s)) (length (win (fst s)))); [destruct (Nat.eqb (cap (fst s)) 0); discriminate|].
    destruct (rd_read (snd s) _) as [[bs d']| | | |]; inversion E; subst; reflexivity.
  - unfold bw_fill_buf in E. destruct (Nat.leb (cap (fst s)) (length (win (fst s)))).
    + destruct (Nat.eqb (cap (fst s)) 0); inversion E; subst. destruct s; reflexivity.
    + destruct (rd_read (snd s) _) as [[bs d']| | | |]; inversion E.
Qed.

Lemma advance_pending (s : rstate) used : used <= length (win (fst s)) ->
  suffix (rdr_pending (mkbw (cap (fst s)) (skipn used (win (fst s))) (consumed (fst s) + used) (prior (fst s)), snd s)) (rdr_pending s).
Proof.
  intros _. unfold rdr_pending. cbn [fst snd win]. exists (firstn used (win (fst s))).
  rewrite app_assoc, firstn_skipn. reflexivity.
Qed.

Definition next_post2 (s0 : rstate) (r : outcome (option btoken) * rstate) : Prop :=
  nc (fst r) /\ suffix (rdr_pending (snd r)) (rdr_pending s0) /\
  match fst r with
  | Ok (Some t) => length (rdr_pending (snd r)) + 2 <= length (rdr_pending s0) /\
                   exists w w' x, read_token w = Ok (t, w') /\ rdr_pending s0 = w ++ x
  | _ => True
  end.

Lemma rdr_next_step_spec2 s0 s : rdr_pending s = rdr_pending s0 ->
  match rdr_next_step s with
  | inl s' => rdr_pending s' = rdr_pending s0 /\ mu_rest s' < mu_rest s
  | inr r => next_post2 s0 r
  end.
Proof.
  intros Hp. pose proof (rdr_next_step_spec s0 s Hp) as Hold. unfold rdr_next_step in *.
  destruct (lf_total _ lexfn_read_token (win (fst s))) as [[t [w' E]]|[E|E]]; rewrite E in *.
  - pose proof (read_token_len _ _ _ E) as Hlen. rewrite rdr_advance_ok in * by lia. destruct Hold as [H1 H2]. cbn [fst snd] in *.
    split; [exact H1|]. split; [rewrite <- Hp; apply advance_pending; lia|]. split; [exact H2|].
    exists (win (fst s)), w', (rest (snd s)). split; [exact E|]. rewrite <- Hp. reflexivity.
  - rewrite N.eqb_refl in *. pose proof (rdr_fill_pending s) as Hf. destruct (rdr_fill s) as [s'|s'|e' s'].
    + destruct (Nat.eqb (bw_window_len (fst s')) 0); (split; [reflexivity|]); (split; [|exact I]); cbn [snd]; rewrite Hf, Hp; apply suffix_refl.
    + exact Hold.
    + split; [reflexivity|]. split; [|exact I]. cbn [snd]. rewrite Hf, Hp. apply suffix_refl.
  - replace (E_InvalidRgb =? E_LexEof)%N with false in * by reflexivity.
    split; [reflexivity|]. split; [|exact I]. cbn [snd]. rewrite Hp. apply suffix_refl.
Qed.

Theorem rdr_next_spec2 s : next_post2 s (rdr_next s).
Proof.
  unfold rdr_next, rdr_fuel.
  destruct (run_steps_inv rdr_next_step mu_rest (fun x => rdr_pending x = rdr_pending s) (next_post2 s))
    with (fuel := S (length (win (fst s)) + 2 * length (rest (snd s)))) (s := s) as (r & -> & Hr);
    [| reflexivity | unfold mu_rest; lia | exact Hr].
  intros x Hx. exact (rdr_next_step_spec2 s x Hx).
Qed.

Definition IS_rd (s : rstate) : Prop := wfl (rdr_pending s).
Definition mu_rd (s : rstate) : nat := length (rdr_pending s).

Lemma rdr_next_full s : IS_rd s ->
  strict (fun r => IS_rd (snd r) /\
                   match fst r with Some t => tok_ok t /\ mu_rd (snd r) + 2 <= mu_rd s | None => mu_rd (snd r) <= mu_rd s end)
         (lift (rdr_next s)).
Proof.
  intros Hs. pose proof (rdr_next_spec2 s) as (H1 & H2 & H3). unfold lift.
  destruct (rdr_next s) as [[[t|]| | | |] s']; cbn [fst snd] in *; try discriminate; try exact I.
  - destruct H3 as [H3 (w & w' & x & E & Ep)]. unfold IS_rd, mu_rd. split; [eapply suffix_wf; eauto|]. split; [|exact H3].
    apply (read_token_tok_ok w t w'); [|exact E]. unfold IS_rd in Hs. rewrite Ep in Hs. apply Forall_app in Hs. apply Hs.
  - unfold IS_rd, mu_rd. split; [eapply suffix_wf; eauto|apply suffix_len; exact H2].
Qed.

Lemma rdr_read_full s : IS_rd s ->
  strict (fun r => tok_ok (fst r) /\ IS_rd (snd r) /\ mu_rd (snd r) + 2 <= mu_rd s) (lift (rdr_read s)).
Proof.
  intros Hs. pose proof (rdr_next_full s Hs) as H. unfold lift, rdr_read in *.
  destruct (rdr_next s) as [[[t|]| | | |] s']; cbn [fst snd strict] in *; try contradiction; try exact I.
  tauto.
Qed.

(* skip_container of the reader leaves a suffix of the pending data *)
Lemma rdr_skip_step_suffix st :
  match rdr_skip_step st with
  | inl st' => suffix (rdr_pending (snd st')) (rdr_pending (snd st))
  | inr r => suffix (rdr_pending (snd r)) (rdr_pending (snd st))
  end.
Proof.
  destruct st as [depth s]. unfold rdr_skip_step. cbn [snd].
  pose proof (rdr_fill_pending s) as Hf.
  assert (Hfill : match (match rdr_fill s with
                         | FcZero s' => inr (Err E_LexEof, s')
                         | FcMore s' => inl (depth, s')
                         | FcErr e s' => inr (Err e, s') end : (nat * rstate) + (outcome unit * rstate)) with
                  | inl st' => suffix (rdr_pending (snd st')) (rdr_pending s)
                  | inr r => suffix (rdr_pending (snd r)) (rdr_pending s) end).
  { destruct (rdr_fill s) as [s'|s'|e' s']; cbn [snd]; rewrite Hf; apply suffix_refl. }
  assert (Hadv : forall used depth', used <= length (win (fst s)) ->
            match (rdr_advance s used (fun s' => inl (depth', s')) (fun o => inr (o, s)) : (nat * rstate) + (outcome unit * rstate)) with
            | inl st' => suffix (rdr_pending (snd st')) (rdr_pending s)
            | inr r => suffix (rdr_pending (snd r)) (rdr_pending s) end).
  { intros used depth' H1. rewrite rdr_advance_ok by exact H1. cbn [snd]. apply advance_pending. exact H1. }
  destruct (lf_total _ lexfn_read_id (win (fst s))) as [[id [data E]]|[E|E]]; rewrite E; [|exact Hfill|exact Hfill].
  apply read_id_len in E.
  assert (Hfixed : forall n,
            match (match get_from n data with
                   | Some d => rdr_advance s (length (win (fst s)) - length d) (fun s' => inl (depth, s')) (fun o => inr (o, s))
                   | None => match rdr_fill s with
                             | FcZero s' => inr (Err E_LexEof, s')
                             | FcMore s' => inl (depth, s')
                             | FcErr e s' => inr (Err e, s') end
                   end : (nat * rstate) + (outcome unit * rstate)) with
            | inl st' => suffix (rdr_pending (snd st')) (rdr_pending s)
            | inr r => suffix (rdr_pending (snd r)) (rdr_pending s) end).
  { intros n. destruct (get_from n data) as [d|] eqn:Eg; [|exact Hfill]. apply Hadv; lia. }
  destruct (id =? L_CLOSE)%N.
  { rewrite rdr_advance_ok by lia. destruct (Nat.eqb depth 1); cbn [snd]; apply advance_pending; lia. }
  destruct (id =? L_OPEN)%N; [apply Hadv; lia|].
  destruct (id =? L_BOOL)%N; [apply Hfixed|].
  destruct ((id =? L_F32) || (id =? L_U32) || (id =? L_I32))%N; [apply Hfixed|].
  destruct ((id =? L_F64) || (id =? L_I64) || (id =? L_U64))%N; [apply Hfixed|].
  destruct ((id =? L_QUOTED) || (id =? L_UNQUOTED))%N; [|apply Hadv; lia].
  destruct (lf_total _ lexfn_read_string data) as [[v [d E2]]|[E2|E2]]; rewrite E2; [|exact Hfill|exact Hfill].
  apply Hadv; lia.
Qed.

Lemma rdr_skip_container_spec s :
  nc (fst (rdr_skip_container s)) /\ suffix (rdr_pending (snd (rdr_skip_container s))) (rdr_pending s).
Proof.
  unfold rdr_skip_container, rdr_fuel.
  destruct (run_steps_inv rdr_skip_step (fun st => mu_skip (snd st)) (fun st => suffix (rdr_pending (snd st)) (rdr_pending s))
              (fun r => nc (fst r) /\ suffix (rdr_pending (snd r)) (rdr_pending s)))
    with (fuel := S (length (win (fst s)) + 2 * length (rest (snd s)))) (s := (1, s)) as (r & -> & Hr);
    [| apply suffix_refl | unfold mu_skip; cbn [snd]; lia | exact Hr].
  intros st Hst. pose proof (rdr_skip_step_spec st) as H1. pose proof (rdr_skip_step_suffix st) as H2.
  destruct (rdr_skip_step st) as [st'|r0].
  - split; [eapply suffix_trans; eauto|exact H1].
  - split; [exact H1|eapply suffix_trans; eauto].
Qed.

Section Reader.
  Variable cfg : bcfg.
  Hypothesis Hcfg : cfg_ok cfg.

  Definition post_rd (s : rstate) (r : action rstate rgb * rstate) : Prop :=
    IS_rd (snd r) /\ mu_rd (snd r) <= mu_rd s + 0 /\ mu_rd (snd r) <= mu_rd s + 0 /\
    act_ok IS_rd mu_rd (mu_rd s + 0) (fst r).

  Lemma post_rd_same s (a : action rstate rgb) : IS_rd s -> act_ok IS_rd mu_rd (mu_rd s + 0) a -> post_rd s (a, s).
  Proof. intros Hl Ha. unfold post_rd. cbn [fst snd]. repeat split; auto; lia. Qed.

  Lemma rd_deser_ok tok s : IS_rd s -> tok_ok tok -> strict (post_rd s) (rd_deser cfg tok s).
  Proof.
    intros Hs Ht. destruct tok; cbn [rd_deser tok_ok] in *; try exact I;
      try (cbn; apply post_rd_same; [exact Hs|cbn; repeat split; auto; lia]).
    - eapply strict_bind; [apply (str_prim_ok cfg s0 Hcfg Ht)|]. intros p Hp. cbn. apply post_rd_same; auto.
    - eapply strict_bind; [apply (str_prim_ok cfg s0 Hcfg Ht)|]. intros p Hp. cbn. apply post_rd_same; auto.
    - eapply strict_bind; [apply (id_prim_ok cfg x Hcfg)|]. intros p Hp. cbn. apply post_rd_same; auto.
  Qed.

  Lemma rd_dispatch_ok k h tok s : IS_rd s -> tok_ok tok -> strict (post_rd s) (rd_dispatch cfg k h tok s).
  Proof.
    intros Hs Ht. pose proof (rd_deser_ok tok s Hs Ht) as Hd.
    assert (Hsame : forall a, act_ok IS_rd mu_rd (mu_rd s + 0) a -> strict (post_rd s) (Ok (a, s)))
      by (intros a Ha; cbn; apply post_rd_same; auto).
    assert (Hsub : act_ok IS_rd mu_rd (mu_rd s + 0) (ASeq s : action rstate rgb) /\ act_ok IS_rd mu_rd (mu_rd s + 0) (AMap s : action rstate rgb))
      by (cbn; repeat split; auto; lia).
    destruct h, tok; cbn [rd_dispatch]; try exact Hd; try (apply Hsame; cbn; auto; tauto).
    - pose proof (rdr_skip_container_spec s) as [H1 H2].
      eapply strict_bind; [apply (lift_strict _ H1)|]. intros [u s'] [_ E]. cbn [fst snd] in *. subst s'. cbn.
      unfold post_rd, IS_rd, mu_rd. cbn [fst snd act_ok]. pose proof (suffix_len _ _ H2).
      repeat split; try lia. eapply suffix_wf; eauto.
  Qed.

  Lemma rd_next_elem_ok s : IS_rd s ->
    strict (fun r => IS_rd (snd r) /\
                     match fst r with None => mu_rd (snd r) <= mu_rd s | Some t => tok_ok t /\ mu_rd (snd r) + 0 + 1 <= mu_rd s end)
           (rd_next_elem s).
  Proof.
    intros Hs. unfold rd_next_elem. eapply strict_bind; [apply (rdr_read_full s Hs)|].
    intros [tok s'] (H1 & H2 & H3). cbn [fst snd] in *. destruct tok; cbn; repeat split; auto; lia.
  Qed.

  Lemma rd_seq_exit_ok h (s1 sub : rstate) d : IS_rd s1 -> IS_rd sub ->
    strict (fun s => IS_rd s /\ (forall M, mu_rd s1 <= M -> mu_rd sub <= M -> mu_rd s <= M) /\
                     (forall M, mu_rd s1 <= M -> mu_rd sub <= M -> mu_rd s <= M)) (rd_seq_exit h s1 sub d).
  Proof.
    intros _ Hsub. assert (Hsame : strict (fun s => IS_rd s /\ (forall M, mu_rd s1 <= M -> mu_rd sub <= M -> mu_rd s <= M) /\
                     (forall M, mu_rd s1 <= M -> mu_rd sub <= M -> mu_rd s <= M)) (Ok sub)) by (cbn; auto).
    destruct h; cbn [rd_seq_exit]; try exact Hsame. destruct d; [exact Hsame|].
    eapply strict_bind; [apply (rdr_read_full sub Hsub)|]. intros [e s'] (H1 & H2 & H3). cbn [fst snd] in *.
    destruct e; try exact I. cbn. repeat split; auto; intros; lia.
  Qed.

  Lemma rd_key_loop_ok root : forall fuel s, IS_rd s -> mu_rd s < fuel ->
    strict (fun r => IS_rd (snd r) /\
                     match fst r with None => mu_rd (snd r) <= mu_rd s | Some t => tok_ok t /\ mu_rd (snd r) + 0 + 1 <= mu_rd s end)
           (rd_key_loop fuel root s).
  Proof.
    induction fuel as [|f IH]; intros s Hs Hf; [lia|].
    cbn [rd_key_loop]. eapply strict_bind; [apply (rdr_next_full s Hs)|].
    intros [ot s1] [H1 H2]. cbn [fst snd] in *. destruct ot as [tok|].
    - destruct H2 as [Ht Hm].
      assert (Hdef : strict (fun r : option btoken * rstate => IS_rd (snd r) /\
                     match fst r with None => mu_rd (snd r) <= mu_rd s | Some t => tok_ok t /\ mu_rd (snd r) + 0 + 1 <= mu_rd s end)
                     (Ok (Some tok, s1))) by (cbn; repeat split; auto; lia).
      destruct tok; try exact Hdef.
      + eapply strict_bind; [apply (rdr_read_full s1 H1)|]. intros [x s2] (A1 & A2 & A3). cbn [fst snd] in *.
        eapply strict_mono; [apply (IH s2 A2); lia|].
        intros [o s3] [R1 R2]. cbn [fst snd] in *. split; [exact R1|]. destruct o; [destruct R2; split; [assumption|lia]|lia].
      + cbn. split; [exact H1|lia].
    - destruct root; cbn; auto.
  Qed.

  Lemma rd_next_key_ok root s : IS_rd s ->
    strict (fun r => IS_rd (snd r) /\
                     match fst r with None => mu_rd (snd r) <= mu_rd s | Some t => tok_ok t /\ mu_rd (snd r) + 0 + 1 <= mu_rd s end)
           (rd_next_key root s).
  Proof. intros Hs. unfold rd_next_key. apply rd_key_loop_ok; [exact Hs|unfold mu_rd; lia]. Qed.

  Lemma rd_next_value_ok s : IS_rd s ->
    strict (fun r => tok_ok (fst r) /\ IS_rd (snd r) /\ mu_rd (snd r) + 0 <= mu_rd s) (rd_next_value s).
  Proof.
    intros Hs. unfold rd_next_value. eapply strict_bind; [apply (rdr_read_full s Hs)|].
    intros [tok s1] (H1 & H2 & H3). cbn [fst snd] in *.
    assert (Hdef : strict (fun r : btoken * rstate => tok_ok (fst r) /\ IS_rd (snd r) /\ mu_rd (snd r) + 0 <= mu_rd s) (Ok (tok, s1)))
      by (cbn; repeat split; auto; lia).
    destruct tok; try exact Hdef.
    eapply strict_mono; [apply (rdr_read_full s1 H2)|]. intros [t s2] (A1 & A2 & A3). cbn [fst snd] in *. repeat split; auto; lia.
  Qed.

  Theorem deser_reader_ok (b : bool) capv sched sh d : wfl d -> (b = true -> noprop sh = true) ->
    gd2 b True (fun _ => True) (deser_reader cfg capv sched sh d).
  Proof.
    intros Hd Hs. unfold deser_reader.
    eapply gd2_mono;
      [apply (walk_root_ok (c_fops cfg) (ops_rd cfg) b IS_rd tok_ok mu_rd mu_rd (fun _ _ => 0))| |intros; exact I].
    - intros; lia.
    - intros k h t s H1 H2. apply (rd_dispatch_ok k h t s H1 H2).
    - apply rd_next_elem_ok.
    - apply rd_seq_exit_ok.
    - intros s1 sub _ Hsub. cbn. repeat split; auto.
    - apply rd_next_key_ok.
    - apply rd_next_value_ok.
    - intros n sh0 c. apply color_visit_strict.
    - unfold IS_rd, rdr_new, rdr_pending. cbn. exact Hd.
    - exact Hs.
    - intros _. unfold deser_fuel, mu_rd, rdr_new, rdr_pending. cbn. lia.
  Qed.
End Reader.
