(* C16, wave 5: two DECLARATIVE READINGS of a tape, used as specifications of json/mod.rs.

   1. [win_read]: the reading of the items of an array node (what ValuesIter yields: the token list
      after the MixedContainer marker of a mixed container, or the content of an array) that
      InnerSerArray's sliding window implements: markers disappear, `k op v` becomes ONE element
      (a single-entry object), every other item stands for itself.  [elem_tree] is the JSON of one
      element, built from the JSON [rec] of the values with the node's own options.

   2. [doc_atoms]: a single left-to-right walk over the token list of the whole document (no
      reader, no iterator, no window: only the tape grammar of TapeWf) that says, for every token
      position in turn, which object keys and which leaves that token contributes to the JSON text.
      [jatoms] flattens a JSON tree into the same alphabet (keys and leaves in text order).
      proofs/JsonDocProofs.v proves  flat_map snd (doc_atoms ..) = jatoms (json of the root)  for
      every well-formed tape (Preserve and KeyValuePairs), and  map fst (doc_atoms ..) = 0, 1, 2, ..
      (every token consumed exactly once, in document order) for every [doc_clean] tape.
      Both are executable and run against the real json() output (stream `atoms` of props/C16_doc.py).

   No proofs here. *)
From JV Require Import Bytes Tables Scalar TextTok TapeWf Dom Json.
Open Scope nat_scope.

(* ================================================================ 1. the window reading *)
Inductive welem :=
| WPlain (v : nat)                                   (* the item at [v] stands for itself *)
| WTriple (k ob : nat) (op : operator) (v : nat).    (* items k, ob (an operator token), v *)

Definition is_marker (t : ttape) (a : nat) : bool :=
  match tget t a with Some TMixedContainer => true | _ => false end.

Fixpoint win_read (t : ttape) (l : list nat) : list welem :=
  match l with
  | [] => []
  | a :: rest =>
      if is_marker t a then win_read t rest
      else
        match rest with
        | ob :: v :: rest' =>
            match tget t ob with
            | Some (TOperator op) => WTriple a ob op v :: win_read t rest'
            | _ => WPlain a :: win_read t rest
            end
        | _ => WPlain a :: win_read t rest
        end
  end.

(* the items an element stands for *)
Definition welem_items (e : welem) : list nat :=
  match e with WPlain v => [v] | WTriple k ob _ v => [k; ob; v] end.

(* the key of a triple: the decoded scalar (any token read_str accepts), else "__invalid_key" *)
Definition triple_key (dec : bytes -> bytes) (k : option ttok) : bytes :=
  match k with
  | Some (THeader s) | Some (TUnquoted s) | Some (TQuoted s) | Some (TParameter s) | Some (TUndefinedParameter s) => dec s
  | Some (TOperator o) => op_symbol o
  | _ => s_invalid_key
  end.

(* {k: v} for `k = v`, {k: {OP: v}} for every other operator *)
Definition triple_tree (key : bytes) (op : operator) (j : json) : json :=
  JObj [(key, if op_is_equal op then j else JObj [(op_name op, j)])].

Definition elem_tree (dec : bytes -> bytes) (t : ttape) (rec : nat -> outcome json) (e : welem) : outcome json :=
  match e with
  | WPlain v => rec v
  | WTriple k _ op v => do j <- rec v; Ok (triple_tree (triple_key dec (tget t k)) op j)
  end.

(* ================================================================ 2. the document walk *)
(* the alphabet: object keys and leaves (null / bool / number / string), in text order *)
Inductive eatom := EK (k : bytes) | EV (leaf : json).

Fixpoint jatoms (j : json) : list eatom :=
  match j with
  | JArr l => flat_map jatoms l
  | JObj l => flat_map (fun kv => match kv with (k, v) => EK k :: jatoms v end) l
  | leaf => [EV leaf]
  end.

(* serialize_scalar as a function of the scalar's bytes *)
Definition narrow_scalar (dec : bytes -> bytes) (s : bytes) : json :=
  match to_bool s with
  | Ok b => JBool b
  | _ =>
      match to_i64 s, to_u64 s, to_f64 s with
      | Ok x, _, Ok _ => JI64 x
      | _, Ok x, Ok _ => JU64 x
      | _, _, Ok f => JF64 f
      | _, _, _ => JStr (dec s)
      end
  end.

(* the leaf a token becomes in value position *)
Definition value_leaf (dec : bytes -> bytes) (na : narrowing) (k : ttok) : json :=
  match k with
  | TUnquoted s => match na with NarrowNone => JStr (dec s) | _ => narrow_scalar dec s end
  | TQuoted s => match na with NarrowAll => narrow_scalar dec s | _ => JStr (dec s) end
  | _ => JNull
  end.

(* the operator token between a key and its value *)
Definition op_at (t : ttape) (i : nat) : option operator :=
  match tget t (S i) with Some (TOperator o) => Some o | _ => None end.

Section Doc.
  Variable dec : bytes -> bytes.
  Variable na : narrowing.
  Variable kv : bool.            (* true: DuplicateKeyMode::KeyValuePairs, false: Preserve *)
  Variable t : ttape.

  (* one token position and what it contributes *)
  Definition ratom := (nat * list eatom)%type.

  (* where the next item starts (ValuesIter) / where the value grammar ends *)
  Definition item_next (i : nat) : nat :=
    match tget t i with Some (TArray e _) | Some (TObject e _) => S e | _ => S i end.
  Definition value_next (v : nat) : nat :=
    match value_end t v with Some n => n | None => S v end.

  Definition open_atoms (kind : bytes) : list eatom :=
    if kv then [EK s_type; EV (JStr kind); EK s_val] else [].
  Definition key_atoms (k : ttok) : list eatom :=
    if kv then [EV (JStr (key_string dec k))] else [EK (key_string dec k)].

  Fixpoint d_value (fuel : nat) (v : nat) : list ratom :=
    match fuel with
    | O => []
    | S f =>
        match tget t v with
        | Some (TArray e _) => (v, open_atoms s_array) :: d_items f (S v) e ++ [(e, [])]
        | Some (TObject e _) => (v, open_atoms s_obj) :: d_fields f (S v) e ++ [(e, [])]
        | Some (THeader s) => (v, [EK (dec s)]) :: d_value f (S v)
        | Some k => [(v, [EV (value_leaf dec na k)])]
        | None => []
        end
    end
  (* `(key [op] value)*`, then either the end or the marker and the array part *)
  with d_fields (fuel : nat) (i e : nat) : list ratom :=
    match fuel with
    | O => []
    | S f =>
        if Nat.leb e i then []
        else
          match tget t i with
          | Some TMixedContainer =>
              (i, if Nat.ltb (S i) e then (if kv then [] else [EK s_remainder]) else []) :: d_items f (S i) e
          | Some k =>
              let v := value_ind_of t i in
              (i, key_atoms k)
                :: (match op_at t i with Some op => [(S i, [EK (op_name op)])] | None => [] end)
                ++ d_value f v ++ d_fields f (value_next v) e
          | None => []
          end
    end
  (* items: markers vanish, `k op v` is one single-entry object, anything else is a value *)
  with d_items (fuel : nat) (i e : nat) : list ratom :=
    match fuel with
    | O => []
    | S f =>
        if Nat.leb e i then []
        else
          match tget t i with
          | Some TMixedContainer => (i, []) :: d_items f (S i) e
          | k0 =>
              (* (no `let` for the plain reading: extraction is strict and would evaluate both readings) *)
              let n1 := item_next i in
              match (if Nat.ltb n1 e then tget t n1 else None) with
              | Some (TOperator op) =>
                  let n2 := S n1 in
                  if Nat.ltb n2 e then
                    (i, [EK (triple_key dec k0)])
                      :: (n1, if op_is_equal op then [] else [EK (op_name op)])
                      :: d_value f n2 ++ d_items f (item_next n2) e
                  else d_value f i ++ d_items f n1 e
              | _ => d_value f i ++ d_items f n1 e
              end
          end
    end.

  (* the places where the walk does NOT consume every token exactly once:
     a header among the items of an array (ValuesIter yields the header and then its container
     once more: known finding header-dup), also as the value of a triple; a container as the key
     of a triple (its content is replaced by "__invalid_key") *)
  Definition is_header (k : option ttok) : bool := match k with Some (THeader _) => true | _ => false end.
  Definition is_cont (k : option ttok) : bool := match k with Some (TArray _ _) | Some (TObject _ _) => true | _ => false end.

  Fixpoint c_value (fuel : nat) (v : nat) : bool :=
    match fuel with
    | O => true
    | S f =>
        match tget t v with
        | Some (TArray e _) => c_items f (S v) e
        | Some (TObject e _) => c_fields f (S v) e
        | Some (THeader s) => c_value f (S v)
        | _ => true
        end
    end
  with c_fields (fuel : nat) (i e : nat) : bool :=
    match fuel with
    | O => true
    | S f =>
        if Nat.leb e i then true
        else
          match tget t i with
          | Some TMixedContainer => c_items f (S i) e
          | Some _ => let v := value_ind_of t i in c_value f v && c_fields f (value_next v) e
          | None => true
          end
    end
  with c_items (fuel : nat) (i e : nat) : bool :=
    match fuel with
    | O => true
    | S f =>
        if Nat.leb e i then true
        else
          match tget t i with
          | Some TMixedContainer => c_items f (S i) e
          | k0 =>
              let n1 := item_next i in
              match (if Nat.ltb n1 e then tget t n1 else None) with
              | Some (TOperator op) =>
                  let n2 := S n1 in
                  if Nat.ltb n2 e then
                    negb (is_cont k0) && negb (is_header (tget t n2)) && c_value f n2 && c_items f (item_next n2) e
                  else negb (is_header k0) && c_value f i && c_items f n1 e
              | _ => negb (is_header k0) && c_value f i && c_items f n1 e
              end
          end
    end.

  Definition doc_fuel : nat := S (length t).

  (* the whole document: the root object spans the whole tape *)
  Definition doc_atoms : list ratom := d_fields doc_fuel 0 (length t).
  Definition doc_clean : bool := c_fields doc_fuel 0 (length t).
  (* the text order of the root's JSON: the KeyValuePairs wrapper of the root has no token *)
  Definition doc_eatoms : list eatom := open_atoms s_obj ++ flat_map snd doc_atoms.
End Doc.

Definition mode_kv (m : dupmode) : bool := match m with KeyValuePairs => true | _ => false end.
