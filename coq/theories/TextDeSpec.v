(* The SPECIFICATION side of C02's walk theorems: the value a shape denotes on an abstract document
   (TextDoc), by structural recursion on the document -- no tape, no indices, no token protocol.

     spec_value sh d     the document's top-level fields into a struct / map shape
     spec_v v sh o       a value into a shape; o = the field's operator when v is a field's value
                         (what Property<T> captures), None for sequence elements
     [Err EC_UNFIT]      "the shape does not fit the document": a sequence shape on something that is
                         not an array, a map / struct shape on something that is not an object, `any`
                         on a container, a tuple shorter than the array, Property anywhere but on a
                         field's value, and the constructs outside the core grammar (object tails,
                         key-value arrays, headers, parameters) unless they are ignored.  [fits] = the
                         specification does not say UNFIT.
   Scalars: the typed hint parses the scalar or falls back to its decoded string, which the shape's
   visitor accepts or refuses (TextDeCommon.scalar_prim / SerdeShape.visit_prim -- characterised by
   Props/C02.v and C11/C12/C13).  Structs: TextDeCommon.entry / finish (unknown fields dropped,
   Once / Last / Collect, missing Option = None).  [rtoks_*]: the token sequence of the document as
   the streaming reader lexes it.  Definitions only. *)
From JV Require Import Bytes Utf8 Scalar TextTok TextReader TextDoc SerdeShape TextDeCommon.
Open Scope nat_scope.

Inductive wrap := WrOpt | WrProp.

Fixpoint unwrap (sh : shape) : list wrap * shape :=
  match sh with
  | ShOpt s => let (w, c) := unwrap s in (WrOpt :: w, c)
  | ShProp s => let (w, c) := unwrap s in (WrProp :: w, c)
  | _ => ([], sh)
  end.

(* Option<T>: Some; Property<T>: the operator of the field, once *)
Fixpoint rewrap (w : list wrap) (o : option operator) (core : outcome dval) : outcome dval :=
  match w with
  | [] => core
  | WrOpt :: w' => omap DSome (rewrap w' o core)
  | WrProp :: w' =>
      match o with
      | Some op => omap (DProp (op_code op)) (rewrap w' None core)
      | None => Err EC_UNFIT
      end
  end.

Definition wmode_core (sh : shape) : option wmode :=
  match sh with
  | ShMap s => Some (WMap s)
  | ShStruct t fs => Some (WStruct t fs)
  | _ => None
  end.

Definition op_or_equal (op : option operator) : operator := match op with Some o => o | None => Equal end.

Section Spec.
  Variable decode : bytes -> cow.
  Variable parse_f64 : bytes -> outcome N.
  Variable F : fops.

  Definition spec_scalar (sh : shape) (raw : bytes) : outcome dval :=
    match sh with
    | ShEnum names => tvisit_variant names (pstr (decode raw))
    | ShSeq _ | ShTup _ | ShMap _ | ShStruct _ _ | ShOpt _ | ShProp _ => Err EC_UNFIT
    | _ => tvisit_prim F sh (scalar_prim decode parse_f64 true (thint_of sh) raw)
    end.

  Fixpoint spec_v (v : value) (sh : shape) (o : option operator) {struct v} : outcome dval :=
    let (w, core) := unwrap sh in
    rewrap w o
      (match core with
       | ShIgn => Ok DIgn
       | _ =>
         match v with
         | VScalar _ raw => spec_scalar core raw
         | VArray items =>
             match core with
             | ShSeq s => omap DSeq (spec_items items s)
             | ShTup ss => omap DSeq (spec_tuple items ss)
             | _ => Err EC_UNFIT
             end
         | VObject fs VNil =>
             match wmode_core core with
             | Some m => do a <- spec_fields fs m (acc0 m); finish m a
             | None => Err EC_UNFIT
             end
         | _ => Err EC_UNFIT
         end
       end)
  with spec_items (vs : values) (s : shape) {struct vs} : outcome (list dval) :=
    match vs with
    | VNil => Ok []
    | VCons v vs' => do x <- spec_v v s None; do r <- spec_items vs' s; Ok (x :: r)
    end
  with spec_tuple (vs : values) (ss : list shape) {struct vs} : outcome (list dval) :=
    match vs with
    | VNil => match ss with [] => Ok [] | _ :: _ => Err EC_DE end          (* invalid_length *)
    | VCons v vs' =>
        match ss with
        | [] => Err EC_UNFIT
        | s :: ss' => do x <- spec_v v s None; do r <- spec_tuple vs' ss'; Ok (x :: r)
        end
    end
  with spec_fields (fs : fields) (m : wmode) (a : acc) {struct fs} : outcome acc :=
    match fs with
    | FNil => Ok a
    | FCons (Field _ key op v) fs' =>
        do r <- entry (fun sh' (_ : unit) (_ : unit) => omap (fun d => (d, tt)) (spec_v v sh' (Some (op_or_equal op))))
                      (fun _ _ => Err EC_UNFIT)
                      m a (cow_bytes (decode key)) (is_ok (to_u64 key)) tt tt;
        spec_fields fs' m (fst r)
    | FCons _ _ => Err EC_UNFIT
    end.

  Definition spec_value (sh : shape) (d : doc) : outcome dval :=
    match wmode_core sh with
    | Some m => do a <- spec_fields d m (acc0 m); finish m a
    | None => Err EC_UNFIT
    end.

  Definition fits (sh : shape) (d : doc) : Prop := spec_value sh d <> Err EC_UNFIT.
End Spec.

(* ------------------------------------------------------------------ the reader's tokens of a document *)
Definition scalar_rtok (k : skind) (s : bytes) : TextReader.rtok := match k with Unq => RUnq s | Quo => RQuo s end.

Fixpoint rtoks_value (v : value) : list TextReader.rtok :=
  match v with
  | VScalar k s => [scalar_rtok k s]
  | VObject fs tl => ROpen :: rtoks_fields fs ++ rtoks_values tl ++ [RClose]
  | VArray items => ROpen :: rtoks_values items ++ [RClose]
  | VArrayKv items kvs => ROpen :: rtoks_values items ++ rtoks_fields kvs ++ [RClose]
  | VHeader name v => RUnq name :: rtoks_value v
  end
with rtoks_field (f : TextDoc.field) : list TextReader.rtok :=
  match f with
  | Field k key op v => scalar_rtok k key :: match op with Some o => [ROp o] | None => [] end ++ rtoks_value v
  | ParamV _ _ _ | ParamO _ _ _ => []      (* the token reader has no parameter syntax: outside the core grammar *)
  end
with rtoks_fields (fs : fields) : list TextReader.rtok :=
  match fs with FNil => [] | FCons f fs' => rtoks_field f ++ rtoks_fields fs' end
with rtoks_values (vs : values) : list TextReader.rtok :=
  match vs with VNil => [] | VCons v vs' => rtoks_value v ++ rtoks_values vs' end.

Definition tokens (d : doc) : list TextReader.rtok * option N := (rtoks_fields d, None).

(* the core grammar of the walk theorems: scalars, objects of `key op value` fields, arrays *)
Fixpoint core_value (v : value) : bool :=
  match v with
  | VScalar _ _ => true
  | VObject fs VNil => core_fields fs
  | VArray items => core_values items
  | _ => false
  end
with core_field (f : TextDoc.field) : bool :=
  match f with Field _ _ _ v => core_value v | _ => false end
with core_fields (fs : fields) : bool :=
  match fs with FNil => true | FCons f fs' => core_field f && core_fields fs' end
with core_values (vs : values) : bool :=
  match vs with VNil => true | VCons v vs' => core_value v && core_values vs' end.
