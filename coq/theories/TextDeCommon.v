(* What the two text serde deserializers (src/text/de.rs) and the specification have in common:

   prim        the primitive visit a jomini text deserializer issues (visit_bool / visit_i64 / visit_u64 /
               visit_f64 / visit_str|visit_string|visit_borrowed_str / visit_borrowed_bytes / visit_unit;
               the text deserializers never issue i32/u32/f32 visits)
   hint        which `deserialize_*` method the visitor side calls; [hint_of] = what the runtime-shape
               interpreter of the harness (fam_de.rs `Seed::deserialize`) calls for each shape
   visit_prim  the VISITOR side for a primitive visit: serde's own visitors for String / bool / uN / iN /
               f32 / f64 / IgnoredAny, jomini's DateVisitor / DateHourVisitor, and the harness's OptV / AnyV
               (trusted library behaviour, exercised by the correspondence runs)
   scalar_prim the typed hints of BOTH text deserializers on a scalar: parse with Scalar.to_bool / to_i64 /
               to_u64 / to_f64 and FALL BACK to deserialize_any (= a str visit of the decoded bytes)
   entry       one (key, value) step of a visit_map loop for the four map visitors that exist: MapV
               (ShMap), StructV (ShStruct), AnyV (ShAny), and the serde-derived visitor of
               jomini::text::Property<T> (ShProp); generic in how the value is deserialized, so that the
               tape walk, the stream walk and the specification share it.
   Floats are kept abstract ([fops]): the IEEE parsing and casts are parameters (instantiated in the
   OCaml glue with ScalarF64.to_f64_bits and the machine casts); the theorems hold for every choice. *)
From JV Require Import Bytes Utf8 Scalar Date TextTok SerdeShape.
Open Scope N_scope.

Definition E_DE : N := 1.        (* serde::de::Error::custom / invalid_type / invalid_length, DeserializeErrorKind::Unsupported *)
Definition E_IO : N := 3.
Definition E_EOF : N := 4.
Definition E_SYNTAX : N := 5.    (* ErrorKind::InvalidSyntax *)
Definition E_FULL : N := 6.
Definition E_DUP : N := 101.     (* duplicate_field (= Derive.E_DUP) *)
Definition E_MISSING : N := 102. (* missing_field  (= Derive.E_MISSING) *)

Inductive prim :=
| PBool (b : bool)
| PI64 (z : Z)
| PU64 (n : N)
| PF64 (bits : N)
| PStr (borrowed : bool) (s : bytes)    (* borrowed = visit_borrowed_str; otherwise visit_str / visit_string *)
| PBytes (s : bytes)
| PUnit.

Inductive hint :=
| HAny | HBool | HI64 | HU64 | HF64
| HStr            (* deserialize_str / identifier (tape: also char) *)
| HString
| HBytes          (* bytes / byte_buf *)
| HOption | HUnit (* unit / unit_struct *) | HNewtype
| HSeq            (* seq / tuple / tuple_struct *)
| HMap
| HStruct (prop : bool)   (* deserialize_struct; prop = the name is "_internal_jomini_property" *)
| HEnum | HIgnored.

Definition hint_of (sh : shape) : hint :=
  match sh with
  | ShStr => HString
  | ShBool => HBool
  | ShU _ => HU64
  | ShI _ => HI64
  | ShF32 | ShF64 => HF64
  | ShDate | ShDateHour => HAny
  | ShOpt _ => HOption
  | ShSeq _ | ShTup _ => HSeq
  | ShMap _ => HMap
  | ShStruct _ _ => HStruct false
  | ShProp _ => HStruct true
  | ShEnum _ => HEnum
  | ShAny => HAny
  | ShIgn => HIgnored
  end.

Record fops := mkfops {
  fo_parse : bytes -> outcome N;   (* Scalar::to_f64, as bits *)
  fo_f64_f32 : N -> N;             (* `v as f32` of an f64, bits to bits *)
  fo_z_f64 : Z -> N;               (* `v as f64` of an i64/u64 *)
  fo_z_f32 : Z -> N }.             (* `v as f32` of an i64/u64 *)

Definition date_val (hour : bool) (r : outcome (option rawdate)) : outcome dval :=
  match r with
  | Ok (Some d) => Ok (DDate (ry d) (Z.to_N (raw_month d)) (Z.to_N (raw_day d)) (if hour then Z.to_N (raw_hour d) else 0))
  | Ok None => Err E_DE
  | Err _ => Err E_DE
  | Panic s => Panic s
  | OOB s => OOB s
  | OutOfFuel => OutOfFuel
  end.

Section Visit.
  Variable fo : fops.

  Definition visit_prim (sh : shape) (p : prim) : outcome dval :=
    match sh, p with
    | ShIgn, _ => Ok DIgn
    | ShAny, PBool b => Ok (DBool b)
    | ShAny, PI64 z => Ok (DI z)
    | ShAny, PU64 n => Ok (DU n)
    | ShAny, PF64 b => Ok (DF64 b)
    | ShAny, PStr _ s => Ok (DStr s)
    | ShAny, PBytes s => Ok (DBytes s)
    | ShAny, PUnit => Ok DUnit
    | ShStr, PStr _ s => Ok (DStr s)
    | ShStr, PBytes s => if valid_utf8 s then Ok (DStr s) else Err E_DE
    | ShBool, PBool b => Ok (DBool b)
    | ShU bits, PU64 n => if n <? 2 ^ bits then Ok (DU n) else Err E_DE
    | ShU bits, PI64 z => if (0 <=? z)%Z && (Z.to_N z <? 2 ^ bits) then Ok (DU (Z.to_N z)) else Err E_DE
    | ShI bits, PI64 z => if ((- Z.of_N (2 ^ (bits - 1)) <=? z) && (z <? Z.of_N (2 ^ (bits - 1))))%Z then Ok (DI z) else Err E_DE
    | ShI bits, PU64 n => if n <? 2 ^ (bits - 1) then Ok (DI (Z.of_N n)) else Err E_DE
    | ShF64, PF64 b => Ok (DF64 b)
    | ShF64, PI64 z => Ok (DF64 (fo_z_f64 fo z))
    | ShF64, PU64 n => Ok (DF64 (fo_z_f64 fo (Z.of_N n)))
    | ShF32, PF64 b => Ok (DF32 (fo_f64_f32 fo b))
    | ShF32, PI64 z => Ok (DF32 (fo_z_f32 fo z))
    | ShF32, PU64 n => Ok (DF32 (fo_z_f32 fo (Z.of_N n)))
    | ShDate, PStr _ s => date_val false (date_parse s)
    | ShDateHour, PStr _ s => date_val true (datehour_parse s)
    | ShOpt _, PUnit => Ok DNone
    | _, _ => Err E_DE
    end.
End Visit.

(* Operator::deserialize's visitor: only visit_borrowed_str of a known symbol *)
Definition op_of_symbol (s : bytes) : option operator :=
  if beqb s [60] then Some LessThan else if beqb s [60; 61] then Some LessThanEqual
  else if beqb s [62] then Some GreaterThan else if beqb s [62; 61] then Some GreaterThanEqual
  else if beqb s [61; 61] then Some Exact else if beqb s [61] then Some Equal
  else if beqb s [33; 61] then Some NotEqual else if beqb s [63; 61] then Some Exists else None.

Definition visit_operator (p : prim) : outcome N :=
  match p with
  | PStr true s => match op_of_symbol s with Some o => Ok (op_code o) | None => Err E_DE end
  | _ => Err E_DE
  end.

(* VariantSeed.visit_str *)
Definition visit_variant (names : list bytes) (p : prim) : outcome dval :=
  match p with
  | PStr _ s => if existsb (beqb s) names then Ok (DEnum s) else Err E_DE
  | _ => Err E_DE
  end.

Section Scalar.
  Variable decode : bytes -> cow.
  Variable fo : fops.

  Definition pstr (c : cow) : prim := PStr (is_borrowed c) (cow_bytes c).

  (* the typed hints on a scalar (both deserializers; they differ in the borrowed flag only:
     [tape] = the tape path's visit_str! macro, otherwise every str visit is visit_str/visit_string) *)
  Definition scalar_prim (tape : bool) (h : hint) (raw : bytes) : prim :=
    let c := decode raw in
    let any := PStr (tape && is_borrowed c) (cow_bytes c) in
    match h with
    | HBool => match to_bool raw with Ok b => PBool b | _ => any end
    | HI64 => match to_i64 raw with Ok z => PI64 z | _ => any end
    | HU64 => match to_u64 raw with Ok n => PU64 n | _ => any end
    | HF64 => match fo_parse fo raw with Ok b => PF64 b | _ => any end
    | HString => PStr false (cow_bytes c)
    | HBytes => PBytes raw
    | HUnit | HIgnored => PUnit
    | _ => any
    end.
End Scalar.

(* ------------------------------------------------------------------ visit_map loops *)
Inductive wmode :=
| WMap (s : shape)                       (* MapV: next_key::<String>, next_value_seed(Seed s) *)
| WStruct (token : bool) (fs : list field)   (* StructV + FieldSeed *)
| WAny                                   (* AnyV.visit_map *)
| WProp (s : shape).                     (* serde-derive's visitor of Property<T>: fields operator, value *)

Record acc := mkacc {
  a_map : list (bytes * dval);                 (* reversed *)
  a_amap : list (dval * dval);                 (* reversed *)
  a_slots : list (option dval * list dval) }.  (* per declared field: the slot, the collected values (reversed) *)

Definition acc0 (m : wmode) : acc :=
  mkacc [] [] (match m with
               | WStruct _ fs => map (fun _ => (None, [])) fs
               | WProp _ => [(None, []); (None, [])]
               | _ => []
               end).

Fixpoint find_name (fs : list field) (s : bytes) (i : nat) : option (nat * field) :=
  match fs with
  | [] => None
  | f :: fs' => if beqb (f_name f) s then Some (i, f) else find_name fs' s (S i)
  end.

Definition slot_full (a : acc) (i : nat) : bool :=
  match nth_error (a_slots a) i with Some (Some _, _) => true | _ => false end.

Fixpoint upd {A} (l : list A) (i : nat) (f : A -> A) : list A :=
  match l, i with
  | [], _ => []
  | x :: l', O => f x :: l'
  | x :: l', S i' => x :: upd l' i' f
  end.

Definition slot_set (a : acc) (i : nat) (v : dval) : acc :=
  mkacc (a_map a) (a_amap a) (upd (a_slots a) i (fun s => (Some v, snd s))).
Definition slot_push (a : acc) (i : nat) (v : dval) : acc :=
  mkacc (a_map a) (a_amap a) (upd (a_slots a) i (fun s => (fst s, v :: snd s))).

Definition STR_OPERATOR : bytes := [111; 112; 101; 114; 97; 116; 111; 114].
Definition STR_VALUE : bytes := [118; 97; 108; 117; 101].
Definition STR_REMAINDER : bytes := [114; 101; 109; 97; 105; 110; 100; 101; 114].

Section Entry.
  Variable X : Type.       (* handle of the pending value *)
  Variable S : Type.       (* deserializer state threaded through (unit on the tape path) *)
  Variable rec : shape -> X -> S -> outcome (dval * S).     (* next_value_seed(Seed sh) *)
  Variable rec_op : X -> S -> outcome (N * S).               (* next_value::<Operator>() *)

  (* kb = the decoded key string that the key visitor receives; knum = a u16 hint would see visit_u64 *)
  Definition entry (m : wmode) (a : acc) (kb : bytes) (knum : bool) (x : X) (s : S) : outcome (acc * S) :=
    match m with
    | WMap sh =>
        do (v, s') <- rec sh x s;
        Ok (mkacc ((kb, v) :: a_map a) (a_amap a) (a_slots a), s')
    | WAny =>
        do (v, s') <- rec ShAny x s;
        Ok (mkacc (a_map a) ((DStr kb, v) :: a_amap a) (a_slots a), s')
    | WStruct token fs =>
        if token && knum then Err E_DE            (* FieldSeed has no visit_u64 *)
        else
          match find_name fs kb 0 with
          | None => do (_, s') <- rec ShIgn x s; Ok (a, s')     (* next_value::<IgnoredAny>() *)
          | Some (i, f) =>
              match f_mode f with
              | Once =>
                  if slot_full a i then Err E_DUP
                  else do (v, s') <- rec (f_shape f) x s; Ok (slot_set a i v, s')
              | Last => do (v, s') <- rec (f_shape f) x s; Ok (slot_set a i v, s')
              | Collect => do (v, s') <- rec (f_shape f) x s; Ok (slot_push a i v, s')
              end
          end
    | WProp sh =>
        if beqb kb STR_OPERATOR then
          if slot_full a 0 then Err E_DUP
          else do (o, s') <- rec_op x s; Ok (slot_set a 0 (DU o), s')
        else if beqb kb STR_VALUE then
          if slot_full a 1 then Err E_DUP
          else do (v, s') <- rec sh x s; Ok (slot_set a 1 v, s')
        else do (_, s') <- rec ShIgn x s; Ok (a, s')
    end.
End Entry.
Arguments entry {X S} rec rec_op m a kb knum x s.

Definition is_opt (sh : shape) : bool := match sh with ShOpt _ => true | _ => false end.

Fixpoint finish_fields (fs : list field) (sl : list (option dval * list dval)) : outcome (list (bytes * dval)) :=
  match fs, sl with
  | [], _ => Ok []
  | f :: fs', s :: sl' =>
      do v <- match f_mode f, s with
              | Collect, (_, c) => Ok (DSeq (rev c))
              | _, (Some v, _) => Ok v
              | _, (None, _) => if is_opt (f_shape f) then Ok DNone else Err E_MISSING
              end;
      do r <- finish_fields fs' sl';
      Ok ((f_name f, v) :: r)
  | _ :: _, [] => Panic 9001
  end.

Definition finish (m : wmode) (a : acc) : outcome dval :=
  match m with
  | WMap _ => Ok (DMap (rev (a_map a)))
  | WAny => Ok (DAMap (rev (a_amap a)))
  | WStruct _ fs => omap DStruct (finish_fields fs (a_slots a))
  | WProp sh =>
      match a_slots a with
      | [(o, _); (v, _)] =>
          match o with
          | Some (DU op) =>
              match v with
              | Some v => Ok (DProp op v)
              | None => if is_opt sh then Ok (DProp op DNone) else Err E_MISSING
              end
          | _ => Err E_MISSING
          end
      | _ => Panic 9002
      end
  end.

(* which map visitor a shape has (None: its visitor rejects visit_map) *)
Definition wmode_of (sh : shape) : option wmode :=
  match sh with
  | ShMap s => Some (WMap s)
  | ShStruct t fs => Some (WStruct t fs)
  | ShAny => Some WAny
  | ShProp s => Some (WProp s)
  | _ => None
  end.
