(* What the two text serde deserializers (src/text/de.rs) and the specification have in common:

   tprim        the primitive visit a jomini text deserializer issues (visit_bool / visit_i64 / visit_u64 /
               visit_f64 / visit_str|visit_string|visit_borrowed_str / visit_borrowed_bytes / visit_unit;
               the text deserializers never issue i32/u32/f32 visits)
   thint        which `deserialize_*` method the visitor side calls; [thint_of] = what the runtime-shape
               interpreter of the harness (fam_de.rs `Seed::deserialize`) calls for each shape
   tvisit_prim  the VISITOR side for a primitive visit: serde's own visitors for String / bool / uN / iN /
               f32 / f64 / IgnoredAny, jomini's DateVisitor / DateHourVisitor, and the harness's OptV / AnyV
               (trusted library behaviour, exercised by the correspondence runs)
   scalar_prim the typed hints of BOTH text deserializers on a scalar: parse with Scalar.to_bool / to_i64 /
               to_u64 / to_f64 and FALL BACK to deserialize_any (= a str visit of the decoded bytes)
   entry       one (key, value) step of a visit_map loop for the four map visitors that exist: MapV
               (ShMap), StructV (ShStruct), AnyV (ShAny), and the serde-derived visitor of
               jomini::text::Property<T> (ShProp); generic in how the value is deserialized, so that the
               tape twalk, the stream twalk and the specification share it.
   Floats are kept abstract: Scalar::to_f64 ([parse_f64], bits) and the casts of serde's float visitors
   (SerdeShape.fops) are parameters, instantiated in the OCaml glue with ScalarF64.to_f64_bits and
   the machine casts; the theorems hold for every choice.
   Shapes, values, error classes and the primitive visitors are SerdeShape's (shared with the binary
   walks); the T-prefixed names are the text-specific refinements. *)
From JV Require Import Bytes Utf8 Scalar Date TextTok SerdeShape.
Open Scope N_scope.

Inductive tprim :=
| TPBool (b : bool)
| TPI64 (z : Z)
| TPU64 (n : N)
| TPF64 (bits : N)
| TPStr (borrowed : bool) (s : bytes)    (* borrowed = visit_borrowed_str; otherwise visit_str / visit_string *)
| TPBytes (s : bytes)
| TPUnit.

Inductive thint :=
| THAny | THBool | THI64 | THU64 | THF64
| THStr            (* deserialize_str / identifier (tape: also char) *)
| THString
| THBytes          (* bytes / byte_buf *)
| THOption | THUnit (* unit / unit_struct *) | THNewtype
| THSeq            (* seq / tuple / tuple_struct *)
| THMap
| THStruct (prop : bool)   (* deserialize_struct; prop = the name is "_internal_jomini_property" *)
| THEnum | THIgnored.

Definition thint_of (sh : shape) : thint :=
  match sh with
  | ShStr => THString
  | ShBool => THBool
  | ShU _ => THU64
  | ShI _ => THI64
  | ShF32 | ShF64 => THF64
  | ShDate | ShDateHour => THAny
  | ShOpt _ => THOption
  | ShSeq _ | ShTup _ => THSeq
  | ShMap _ => THMap
  | ShStruct _ _ => THStruct false
  | ShProp _ => THStruct true
  | ShEnum _ => THEnum
  | ShAny => THAny
  | ShIgn => THIgnored
  end.

(* the visitor side is the one shared with the binary walks (SerdeShape.visit_prim): the text
   deserializers only issue bool / i64 / u64 / f64 / str / bytes / unit visits; borrowed-ness is
   invisible to every visitor except Operator's *)
Definition sprim (p : tprim) : prim :=
  match p with
  | TPBool b => PBool b
  | TPI64 z => PI64 z
  | TPU64 n => PU n
  | TPF64 b => PF64 b
  | TPStr _ s => PStr s
  | TPBytes s => PBytes s
  | TPUnit => PUnit
  end.

Definition tvisit_prim (F : fops) (sh : shape) (p : tprim) : outcome dval := visit_prim F sh (sprim p).

(* Operator::deserialize's visitor: only visit_borrowed_str of a known symbol *)
Definition op_of_symbol (s : bytes) : option operator :=
  if beqb s [60] then Some LessThan else if beqb s [60; 61] then Some LessThanEqual
  else if beqb s [62] then Some GreaterThan else if beqb s [62; 61] then Some GreaterThanEqual
  else if beqb s [61; 61] then Some Exact else if beqb s [61] then Some Equal
  else if beqb s [33; 61] then Some NotEqual else if beqb s [63; 61] then Some Exists else None.

Definition visit_operator (p : tprim) : outcome N :=
  match p with
  | TPStr true s => match op_of_symbol s with Some o => Ok (op_code o) | None => Err EC_DE end
  | _ => Err EC_DE
  end.

(* VariantSeed.visit_str *)
Definition tvisit_variant (names : list bytes) (p : tprim) : outcome dval := visit_variant names (sprim p).

Section Scalar.
  Variable decode : bytes -> cow.
  Variable parse_f64 : bytes -> outcome N.     (* Scalar::to_f64, as bits *)

  Definition pstr (c : cow) : tprim := TPStr (is_borrowed c) (cow_bytes c).

  (* the typed hints on a scalar (both deserializers; they differ in the borrowed flag only:
     [tape] = the tape path's visit_str! macro, otherwise every str visit is visit_str/visit_string) *)
  Definition scalar_prim (tape : bool) (h : thint) (raw : bytes) : tprim :=
    let c := decode raw in
    let any := TPStr (tape && is_borrowed c) (cow_bytes c) in
    match h with
    | THBool => match to_bool raw with Ok b => TPBool b | _ => any end
    | THI64 => match to_i64 raw with Ok z => TPI64 z | _ => any end
    | THU64 => match to_u64 raw with Ok n => TPU64 n | _ => any end
    | THF64 => match parse_f64 raw with Ok b => TPF64 b | _ => any end
    | THString => TPStr false (cow_bytes c)
    | THBytes => TPBytes raw
    | THUnit | THIgnored => TPUnit
    | _ => any
    end.
End Scalar.

(* ------------------------------------------------------------------ visit_map loops *)
Inductive wmode :=
| WMap (s : shape)                       (* MapV: next_key::<String>, next_value_seed(Seed s) *)
| WStruct (token : bool) (fs : list field)   (* StructV + FieldSeed *)
| WAny                                   (* AnyV.visit_map *)
| WProp (s : shape).                     (* serde-derive's visitor of Property<T>: fields operator, value *)

Record acc := mkacc {
  a_map : list (bytes * dval);                 (* reversed *)
  a_amap : list (dval * dval);                 (* reversed *)
  a_slots : list (option dval * list dval) }.  (* per declared field: the slot, the collected values (reversed) *)

Definition acc0 (m : wmode) : acc :=
  mkacc [] [] (match m with
               | WStruct _ fs => map (fun _ => (None, [])) fs
               | WProp _ => [(None, []); (None, [])]
               | _ => []
               end).

Fixpoint find_name (fs : list field) (s : bytes) (i : nat) : option (nat * field) :=
  match fs with
  | [] => None
  | f :: fs' => if beqb (f_name f) s then Some (i, f) else find_name fs' s (S i)
  end.

Definition slot_full (a : acc) (i : nat) : bool :=
  match nth_error (a_slots a) i with Some (Some _, _) => true | _ => false end.

Fixpoint upd {A} (l : list A) (i : nat) (f : A -> A) : list A :=
  match l, i with
  | [], _ => []
  | x :: l', O => f x :: l'
  | x :: l', S i' => x :: upd l' i' f
  end.

Definition slot_set (a : acc) (i : nat) (v : dval) : acc :=
  mkacc (a_map a) (a_amap a) (upd (a_slots a) i (fun s => (Some v, snd s))).
Definition slot_push (a : acc) (i : nat) (v : dval) : acc :=
  mkacc (a_map a) (a_amap a) (upd (a_slots a) i (fun s => (fst s, v :: snd s))).

Definition STR_OPERATOR : bytes := [111; 112; 101; 114; 97; 116; 111; 114].
Definition STR_VALUE : bytes := [118; 97; 108; 117; 101].
Definition STR_REMAINDER : bytes := [114; 101; 109; 97; 105; 110; 100; 101; 114].

Section Entry.
  Variable X : Type.       (* handle of the pending value *)
  Variable S : Type.       (* deserializer state threaded through (unit on the tape path) *)
  Variable rec : shape -> X -> S -> outcome (dval * S).     (* next_value_seed(Seed sh) *)
  Variable rec_op : X -> S -> outcome (N * S).               (* next_value::<Operator>() *)

  (* kb = the decoded key string that the key visitor receives; knum = a u16 thint would see visit_u64 *)
  Definition entry (m : wmode) (a : acc) (kb : bytes) (knum : bool) (x : X) (s : S) : outcome (acc * S) :=
    match m with
    | WMap sh =>
        do (v, s') <- rec sh x s;
        Ok (mkacc ((kb, v) :: a_map a) (a_amap a) (a_slots a), s')
    | WAny =>
        do (v, s') <- rec ShAny x s;
        Ok (mkacc (a_map a) ((DStr kb, v) :: a_amap a) (a_slots a), s')
    | WStruct token fs =>
        if token && knum then Err EC_DE            (* FieldSeed has no visit_u64 *)
        else
          match find_name fs kb 0 with
          | None => do (_, s') <- rec ShIgn x s; Ok (a, s')     (* next_value::<IgnoredAny>() *)
          | Some (i, f) =>
              match f_mode f with
              | MOnce =>
                  if slot_full a i then Err EC_DUP
                  else do (v, s') <- rec (f_shape f) x s; Ok (slot_set a i v, s')
              | MLast => do (v, s') <- rec (f_shape f) x s; Ok (slot_set a i v, s')
              | MCollect => do (v, s') <- rec (f_shape f) x s; Ok (slot_push a i v, s')
              end
          end
    | WProp sh =>
        if beqb kb STR_OPERATOR then
          if slot_full a 0 then Err EC_DUP
          else do (o, s') <- rec_op x s; Ok (slot_set a 0 (DU o), s')
        else if beqb kb STR_VALUE then
          if slot_full a 1 then Err EC_DUP
          else do (v, s') <- rec sh x s; Ok (slot_set a 1 v, s')
        else do (_, s') <- rec ShIgn x s; Ok (a, s')
    end.
End Entry.
Arguments entry {X S} rec rec_op m a kb knum x s.

Definition is_opt (sh : shape) : bool := match sh with ShOpt _ => true | _ => false end.

Fixpoint finish_fields (fs : list field) (sl : list (option dval * list dval)) : outcome (list (bytes * dval)) :=
  match fs, sl with
  | [], _ => Ok []
  | f :: fs', s :: sl' =>
      do v <- match f_mode f, s with
              | MCollect, (_, c) => Ok (DSeq (rev c))
              | _, (Some v, _) => Ok v
              | _, (None, _) => if is_opt (f_shape f) then Ok DNone else Err EC_MISSING
              end;
      do r <- finish_fields fs' sl';
      Ok ((f_name f, v) :: r)
  | _ :: _, [] => Panic 9001
  end.

Definition finish (m : wmode) (a : acc) : outcome dval :=
  match m with
  | WMap _ => Ok (DMap (rev (a_map a)))
  | WAny => Ok (DAMap (rev (a_amap a)))
  | WStruct _ fs => omap DStruct (finish_fields fs (a_slots a))
  | WProp sh =>
      match a_slots a with
      | [(o, _); (v, _)] =>
          match o with
          | Some (DU op) =>
              match v with
              | Some v => Ok (DProp op v)
              | None => if is_opt sh then Ok (DProp op DNone) else Err EC_MISSING
              end
          | _ => Err EC_MISSING
          end
      | _ => Panic 9002
      end
  end.

(* which map visitor a shape has (None: its visitor rejects visit_map) *)
Definition wmode_of (sh : shape) : option wmode :=
  match sh with
  | ShMap s => Some (WMap s)
  | ShStruct t fs => Some (WStruct t fs)
  | ShAny => Some WAny
  | ShProp s => Some (WProp s)
  | _ => None
  end.

(* default fuel of both walks: every recursive call descends in the tape / token list or in the shape *)
Fixpoint shape_size (sh : shape) : nat :=
  match sh with
  | ShOpt s | ShSeq s | ShMap s | ShProp s => S (shape_size s)
  | ShTup ss => S (fold_right (fun s n => (shape_size s + n)%nat) 0%nat ss)
  | ShStruct _ fs => S (fold_right (fun f n => (shape_size (snd f) + n)%nat) 0%nat fs)
  | _ => 1%nat
  end.

