(* C02 walk theorems, part 2: the specification beyond the core grammar (extends TextDeSpec.spec_value;
   that the two coincide wherever spec_value fits is Props/C02_ext.v C02_spec2_extends_spec_partial).  Definitions only.

   (Where TextDeSpec.spec_value fits, this specification is meant to say the same; it additionally gives
   meaning to `{}` / arrays where a map or struct is asked for, which spec_value calls UNFIT.)
   spec_value2 tp sh d     tp = true : what the TAPE path (from_*_slice / from_*_tape) yields;
                           tp = false: the part of it on which the STREAM path (from_*_reader) agrees;
                           whatever the flag says UNFIT about is outside the respective theorem.
   Beyond TextDeSpec (structural recursion on the document, no tape, no indices):
     * `{}` / an array where a map or struct is asked for: the empty array is the empty object (both
       paths); a non-empty array is an object without fields whose items are delivered under the
       synthetic key "remainder" (tape only);
     * object tails  `{ a = 1 x y }`: after the fields, the bare values are delivered as ONE more
       entry, key "remainder", value = the array of the tail values (tape only; the stream path reads
       them as key-value pairs);
     * headers  `key = rgb { 1 2 3 }`:
         - a seq / tuple shape sees the two-element view [name, container] (tape only: finding H);
         - String, bool, integer, float and enum shapes (possibly under Option / Property) read the
           header NAME like a scalar and drop the container (both paths);
         - ignored (unknown key, IgnoredAny): dropped as a whole (both paths);
         - any / dates / map / struct on a header: not specified (the paths differ: the tape path
           descends into the container, the stream path reads the name);
     * parameters  `[[p] 1 ]`, `[[!p] k = v ]`: a field whose key is the parameter's name, no operator,
       value = the scalar / the object of the block's fields (tape only: the token reader has no
       parameter syntax);
     * arrays that turn into key-value lists `{ a b c = d }`: only specified where they are ignored. *)
From JV Require Import Bytes Utf8 Scalar TextTok TextReader TextDoc SerdeShape TextDeCommon TextDeSpec.
Open Scope nat_scope.

(* an array (given by its element semantics) into a shape, as the value of the "remainder" entry *)
Definition arr_into (si : shape -> outcome (list dval)) (st : list shape -> outcome (list dval)) (sh' : shape) : outcome dval :=
  let (w, c) := unwrap sh' in
  rewrap w None
    (match c with
     | ShIgn => Ok DIgn
     | ShSeq s => omap DSeq (si s)
     | ShTup ss => omap DSeq (st ss)
     | _ => Err EC_UNFIT
     end).

(* the object of a parameter block's fields (given by its field semantics) as a field value, operator `=` *)
Definition obj_into (sf : wmode -> acc -> outcome acc) (sh : shape) : outcome dval :=
  let (w, core) := unwrap sh in
  rewrap w (Some Equal)
    (match core with
     | ShIgn => Ok DIgn
     | _ =>
       match wmode_core core with
       | Some m => do a <- sf m (acc0 m); finish m a
       | None => Err EC_UNFIT
       end
     end).

Definition no_op : unit -> unit -> outcome (N * unit) := fun _ _ => Err EC_UNFIT.

Section Spec2.
  Variable tp : bool.
  Variable decode : bytes -> cow.
  Variable parse_f64 : bytes -> outcome N.
  Variable F : fops.

  (* a header's name where a scalar is asked for *)
  Definition hname_core (c : shape) (name : bytes) : outcome dval :=
    match c with
    | ShIgn => Ok DIgn
    | ShStr | ShBool | ShU _ | ShI _ | ShF32 | ShF64 | ShEnum _ => spec_scalar decode parse_f64 F c name
    | _ => Err EC_UNFIT
    end.
  Definition hname (s : shape) (name : bytes) : outcome dval :=
    let (w, c) := unwrap s in rewrap w None (hname_core c name).

  (* a scalar as a value *)
  Definition spec_sc2 (raw : bytes) (sh : shape) (o : option operator) : outcome dval :=
    let (w, core) := unwrap sh in
    rewrap w o (match core with ShIgn => Ok DIgn | _ => spec_scalar decode parse_f64 F core raw end).

  (* the "remainder" entry *)
  Definition rem_entry (into : shape -> outcome dval) (m : wmode) (a : acc) : outcome acc :=
    do r <- entry (fun sh' (_ _ : unit) => omap (fun d => (d, tt)) (into sh')) no_op m a STR_REMAINDER false tt tt;
    Ok (fst r).

  Fixpoint spec_v2 (v : value) (sh : shape) (o : option operator) {struct v} : outcome dval :=
    let (w, core) := unwrap sh in
    rewrap w o
      (match core with
       | ShIgn => Ok DIgn
       | _ =>
         match v with
         | VScalar _ raw => spec_scalar decode parse_f64 F core raw
         | VArray items =>
             match core with
             | ShSeq s => omap DSeq (spec_items2 items s)
             | ShTup ss => omap DSeq (spec_tuple2 items ss)
             | _ =>
               match wmode_core core with
               | Some m =>
                   match items with
                   | VNil => finish m (acc0 m)
                   | VCons _ _ =>
                       if tp then
                         do a <- rem_entry (arr_into (spec_items2 items) (spec_tuple2 items)) m (acc0 m);
                         finish m a
                       else Err EC_UNFIT
                   end
               | None => Err EC_UNFIT
               end
             end
         | VObject fs tl =>
             match wmode_core core with
             | Some m =>
                 do a <- spec_fields2 fs m (acc0 m);
                 do a' <- match tl with
                          | VNil => Ok a
                          | VCons _ _ =>
                              if tp then rem_entry (arr_into (spec_items2 tl) (spec_tuple2 tl)) m a
                              else Err EC_UNFIT
                          end;
                 finish m a'
             | None => Err EC_UNFIT
             end
         | VHeader name v' =>
             match core with
             | ShSeq s =>
                 if tp then do x <- hname s name; do y <- spec_v2 v' s None; Ok (DSeq [x; y])
                 else Err EC_UNFIT
             | ShTup (s1 :: s2 :: rest) =>
                 if tp then
                   do x <- hname s1 name; do y <- spec_v2 v' s2 None;
                   match rest with [] => Ok (DSeq [x; y]) | _ :: _ => Err EC_DE end
                 else Err EC_UNFIT
             | _ => hname_core core name
             end
         | VArrayKv _ _ => Err EC_UNFIT
         end
       end)
  with spec_items2 (vs : values) (s : shape) {struct vs} : outcome (list dval) :=
    match vs with
    | VNil => Ok []
    | VCons v vs' => do x <- spec_v2 v s None; do r <- spec_items2 vs' s; Ok (x :: r)
    end
  with spec_tuple2 (vs : values) (ss : list shape) {struct vs} : outcome (list dval) :=
    match vs with
    | VNil => match ss with [] => Ok [] | _ :: _ => Err EC_DE end          (* invalid_length *)
    | VCons v vs' =>
        match ss with
        | [] => Err EC_UNFIT
        | s :: ss' => do x <- spec_v2 v s None; do r <- spec_tuple2 vs' ss'; Ok (x :: r)
        end
    end
  with spec_fields2 (fs : fields) (m : wmode) (a : acc) {struct fs} : outcome acc :=
    match fs with
    | FNil => Ok a
    | FCons f fs' =>
        do r <- match f with
                | Field _ key op v =>
                    entry (fun sh' (_ _ : unit) => omap (fun d => (d, tt)) (spec_v2 v sh' (Some (op_or_equal op))))
                          no_op m a (cow_bytes (decode key)) (is_ok (to_u64 key)) tt tt
                | ParamV name _ s =>
                    if tp then
                      entry (fun sh' (_ _ : unit) => omap (fun d => (d, tt)) (spec_sc2 s sh' (Some Equal)))
                            no_op m a (cow_bytes (decode name)) (is_ok (to_u64 name)) tt tt
                    else Err EC_UNFIT
                | ParamO name _ pfs =>
                    if tp then
                      entry (fun sh' (_ _ : unit) => omap (fun d => (d, tt)) (obj_into (spec_fields2 pfs) sh'))
                            no_op m a (cow_bytes (decode name)) (is_ok (to_u64 name)) tt tt
                    else Err EC_UNFIT
                end;
        spec_fields2 fs' m (fst r)
    end.

  Definition spec_value2 (sh : shape) (d : doc) : outcome dval :=
    match wmode_core sh with
    | Some m => do a <- spec_fields2 d m (acc0 m); finish m a
    | None => Err EC_UNFIT
    end.

  Definition fits2 (sh : shape) (d : doc) : Prop := spec_value2 sh d <> Err EC_UNFIT.
End Spec2.

(* ------------------------------------------------------------------ the grammar of the extension theorems *)
(* every construct of TextDoc; headers carry a container and occur as field values only (as in
   TextDoc.wf_value: TextDeMoreTape.wf_ext) *)
Fixpoint ext_value (v : value) : bool :=
  match v with
  | VScalar _ _ => true
  | VObject fs tl => ext_fields fs && ext_items tl
  | VArray items => ext_items items
  | VArrayKv _ _ => true
  | VHeader _ v' => is_container v' && ext_value v'
  end
with ext_field (f : TextDoc.field) : bool :=
  match f with
  | Field _ _ _ v => ext_value v
  | ParamV _ _ _ => true
  | ParamO _ _ fs => ext_fields fs
  end
with ext_fields (fs : fields) : bool :=
  match fs with FNil => true | FCons f fs' => ext_field f && ext_fields fs' end
with ext_items (vs : values) : bool :=
  match vs with VNil => true | VCons v vs' => negb (is_header v) && ext_value v && ext_items vs' end.

(* the part of it the token reader can express: no parameter blocks *)
Fixpoint sx_value (v : value) : bool :=
  match v with
  | VScalar _ _ => true
  | VObject fs tl => sx_fields fs && sx_items tl
  | VArray items => sx_items items
  | VArrayKv items kvs => sx_items items && sx_fields kvs
  | VHeader _ v' => is_container v' && sx_value v'
  end
with sx_field (f : TextDoc.field) : bool :=
  match f with Field _ _ _ v => sx_value v | _ => false end
with sx_fields (fs : fields) : bool :=
  match fs with FNil => true | FCons f fs' => sx_field f && sx_fields fs' end
with sx_items (vs : values) : bool :=
  match vs with VNil => true | VCons v vs' => negb (is_header v) && sx_value v && sx_items vs' end.
