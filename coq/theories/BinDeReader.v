(* src/binary/de.rs: BinaryReaderDeserializer (deserialize_reader / from_reader) over the streaming
   TokenReader (BinReader.v: window + scheduled Read).

   state  = BinReader.rstate        token = the Token just read (payload included)
   BinaryReaderTokenDeserializer::deser        rd_deser
   the typed methods                           rd_dispatch (the token already carries its payload, so
                                               a hint only short-cuts to the same visit; deserialize_u16
                                               on an Id gives the raw id)
   deserialize_ignored_any                     skip_container() when the token is Open, then visit_unit
   BinaryReaderSeq::next_element_seed          rd_next_elem;  `if !seq.hit_end` rd_seq_exit
   BinaryReaderMap::next_key_seed              rd_next_key: Close ends; an Open in key position reads ONE
                                               MORE TOKEN whatever it is (`reader.read()?`); a clean end of
                                               the stream ends the root map (a truncated token does not)
   BinaryReaderMap::next_value_seed            rd_next_value: an optional Equal is stepped over
   No proofs in this file. *)
From JV Require Import Bytes Tables BinPrim BufWin BinLexer BinReader SerdeShape BinDeCommon.
Open Scope N_scope.

Section Reader.
  Variable cfg : bcfg.
  Notation act := (action rstate rgb).

  Definition rd_deser (tok : btoken) (s : rstate) : outcome (act * rstate) :=
    match tok with
    | BU32 x => Ok (APrim (PU x), s)
    | BU64 x => Ok (APrim (PU x), s)
    | BI32 x => Ok (APrim (PI32 x), s)
    | BBool x => Ok (APrim (PBool x), s)
    | BQuoted x | BUnquoted x => do p <- str_prim cfg x; Ok (APrim p, s)
    | BF32 x => Ok (APrim (PF32 (c_f32 cfg x)), s)
    | BF64 x => Ok (APrim (PF64 (c_f64 cfg x)), s)
    | BRgb c => Ok (AColor c, s)
    | BI64 x => Ok (APrim (PI64 x), s)
    | BId x => do p <- id_prim cfg x; Ok (APrim p, s)
    | BClose => Err EC_SYNTAX
    | BEqual => Err EC_SYNTAX
    | BOpen => Ok (ASeq s, s)
    end.

  Definition rd_dispatch (_ : bool) (h : hint) (tok : btoken) (s : rstate) : outcome (act * rstate) :=
    match h, tok with
    | HBool, BBool x => Ok (APrim (PBool x), s)
    | HU16, BId x => Ok (APrim (PU16 x), s)
    | HI32, BI32 x => Ok (APrim (PI32 x), s)
    | HU32, BU32 x => Ok (APrim (PU x), s)
    | HU64, BU64 x => Ok (APrim (PU x), s)
    | HI64, BI64 x => Ok (APrim (PI64 x), s)
    | HF32, BF32 x => Ok (APrim (PF32 (c_f32 cfg x)), s)
    | HF64, BF64 x => Ok (APrim (PF64 (c_f64 cfg x)), s)
    | HString, BQuoted x | HString, BUnquoted x => do p <- str_prim cfg x; Ok (APrim p, s)
    | HSeq, BOpen => Ok (ASeq s, s)
    | HSeq, BRgb c => Ok (AColor c, s)
    | HMap, BOpen => Ok (AMap s, s)
    | HIgnored, BOpen => do (_, s') <- lift (rdr_skip_container s); Ok (APrim PUnit, s')
    | HIgnored, _ => Ok (APrim PUnit, s)
    | _, _ => rd_deser tok s
    end.

  Definition rd_next_elem (s : rstate) : outcome (option btoken * rstate) :=
    do (tok, s') <- lift (rdr_read s);
    match tok with BClose => Ok (None, s') | _ => Ok (Some tok, s') end.

  Definition rd_seq_exit (h : hint) (_ sub : rstate) (drained : bool) : outcome rstate :=
    match h, drained with
    | HSeq, false => do (e, s') <- lift (rdr_read sub);
                     match e with BClose => Ok s' | _ => Err EC_SYNTAX end
    | _, _ => Ok sub
    end.

  Fixpoint rd_key_loop (fuel : nat) (root : bool) (s : rstate) : outcome (option btoken * rstate) :=
    match fuel with
    | O => OutOfFuel
    | S f =>
      do (ot, s1) <- lift (rdr_next s);
      match ot with
      | Some BClose => Ok (None, s1)
      | Some BOpen => do (_, s2) <- lift (rdr_read s1); rd_key_loop f root s2
      | Some tok => Ok (Some tok, s1)
      | None => if root then Ok (None, s1) else Err EC_EOF
      end
    end.
  Definition rd_next_key (root : bool) (s : rstate) : outcome (option btoken * rstate) :=
    rd_key_loop (S (length (rdr_pending s))) root s.

  Definition rd_next_value (s : rstate) : outcome (btoken * rstate) :=
    do (tok, s1) <- lift (rdr_read s);
    match tok with BEqual => lift (rdr_read s1) | _ => Ok (tok, s1) end.

  Definition ops_rd : path_ops rstate btoken rgb :=
    mkops rd_dispatch rd_next_elem rd_seq_exit (fun _ sub => Ok sub) rd_next_key rd_next_value (color_visit cfg).

  (* BinaryDeserializerBuilder::deserialize_reader::<_, T, _>(reader, resolver), buffer length [cap] *)
  Definition deser_reader (cap : nat) (sched : list event) (sh : shape) (d : bytes) : outcome dval :=
    walk_root (c_fops cfg) ops_rd (deser_fuel sh d) sh (rdr_new cap sched d).
End Reader.
