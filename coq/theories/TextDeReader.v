(* src/text/de.rs, STREAM path over the BYTE-LEVEL reader (wave 5, w_tdef).

   TextDeStream.sde / sde_root are written over an abstract token source (rnext, rskip, rexpect).
   TextDeStream.v instantiates it with the reader's token LIST (no Read, no buffer, no faults).
   This file instantiates the same walk with the streaming TokenReader model itself
   (TextReader.v: BufferWindow + scheduled Read with [Data n | Fail] events):

     TokenReader::next                 tr_next    = TextReader.next_opt, classes translated
     TokenReader::skip_container       tr_skip    = TextReader.skip_container
     TokenReader::read_expect_equals   tr_expect  : the window `[b'=', next, ..]` with next != b'='
                                                    is taken without the tokenizer (advance 1,
                                                    Operator::Equal); everything else is read()
     TokenReader::read                 TextDeStream.rread tr_next (a clean end is ErrorKind::Eof)

   so that [deser_text_reader decode pf fo cap sched sh d] is
       TextDeserializer::from_{utf8,windows1252}_reader(TokenReader::builder().buffer_len(cap).build(read))
         .deserialize::<T>()
   with `read` the scripted Read of the schedule.  errors.rs `From<ReaderError> for Error`:
   Read -> Io, BufferFull -> BufferFull, Eof -> Eof ([tec]).

   The per-call fuel of the reader loops does NOT depend on the schedule (every successful fill of a
   loop iteration delivers at least one byte, a failed or empty one ends the call), so that the run
   over a schedule and the run over the schedule with the failures removed use the same fuel.

   [deser_text_reader_st] additionally returns the reader the walk ends with (used to state how many
   read calls a successful run has issued).  No proofs in this file. *)
From JV Require Import Bytes Utf8 Scalar BufWin TextTok TextReader SerdeShape TextDeCommon TextDeStream.
Open Scope nat_scope.

(* ReaderErrorKind -> ErrorKind *)
Definition tec (e : N) : N :=
  if N.eqb e E_Io then EC_IO
  else if N.eqb e E_BufferFull then EC_FULL
  else if N.eqb e E_Eof then EC_EOF
  else e.

Section Ops.
  Variable fuel : nat.      (* of the loops inside ONE reader call *)

  Definition tr_next (r : reader) : outcome (option rtok * reader) :=
    match next_opt fuel r with
    | NTok t r' => Ok (Some t, r')
    | NEnd r' => Ok (None, r')
    | NErr e _ => Err (tec e)
    | NCrash s => Panic s
    end.

  Definition tr_skip (r : reader) : outcome reader :=
    match skip_container fuel r with
    | Ok r' => Ok r'
    | Err e => Err (tec e)
    | Panic s => Panic s
    | OOB s => OOB s
    | OutOfFuel => OutOfFuel
    end.

  Definition tr_read (r : reader) : outcome (rtok * reader) := rread reader tr_next r.

  Definition tr_expect (r : reader) : outcome (rtok * reader) :=
    match win (rbw r) with
    | c :: n :: _ =>
        if b_is c 61 && negb (b_is n 61) then
          match bw_advance (rbw r) 1 with
          | Ok b => Ok (ROp Equal, with_bw r b)
          | _ => OOB 7050%N
          end
        else tr_read r
    | _ => tr_read r
    end.
End Ops.

(* sde_root that also returns the final state of the token source *)
Section RootSt.
  Variable decode : bytes -> cow.
  Variable parse_f64 : bytes -> outcome N.
  Variable fo : fops.
  Variable R : Type.
  Variable rnext : R -> outcome (option rtok * R).
  Variable rskip : R -> outcome R.
  Variable rexpect : R -> outcome (rtok * R).

  Definition sde_root_st (fuel : nat) (sh : shape) (r : R) : outcome (dval * R) :=
    match thint_of sh with
    | THMap | THStruct _ =>
        match wmode_of sh with
        | Some m =>
            do (a, r') <- swalk decode parse_f64 fo R rnext rskip rexpect fuel true m (acc0 m) r;
            do v <- finish m a;
            Ok (v, r')
        | None => Err EC_DE
        end
    | _ => Err EC_DE
    end.
End RootSt.

Definition tr_fuel (d : bytes) : nat := 2 * length d + 8.
Definition tde_fuel (sh : shape) (d : bytes) : nat := 2 * length d + shape_size sh + 8.

Definition deser_text_reader_st (decode : bytes -> cow) (parse_f64 : bytes -> outcome N) (fo : fops)
    (cap : nat) (sch : list event) (sh : shape) (d : bytes) : outcome (dval * reader) :=
  sde_root_st decode parse_f64 fo reader (tr_next (tr_fuel d)) (tr_skip (tr_fuel d)) (tr_expect (tr_fuel d))
              (tde_fuel sh d) sh (reader_new cap d sch).

Definition deser_text_reader (decode : bytes -> cow) (parse_f64 : bytes -> outcome N) (fo : fops)
    (cap : nat) (sch : list event) (sh : shape) (d : bytes) : outcome dval :=
  sde_root decode parse_f64 fo reader (tr_next (tr_fuel d)) (tr_skip (tr_fuel d)) (tr_expect (tr_fuel d))
           (tde_fuel sh d) sh (reader_new cap d sch).

(* number of read calls the Read has seen so far *)
Definition reader_calls (r : reader) : nat := calls (rrd r).
