(* text/reader.rs: the streaming text TokenReader over BufWin, modelled literally:
   next_opt (fast paths on >= 9 buffered bytes), next_opt_fallback, next_opt_refill with the
   real (state, carry_over, offset) triples, read_bytes, skip_container, skip_unquoted_value.
   Pointers are indices into the window; any access outside the window is OOB. *)
From JV Require Import Bytes Tables U64Swar BufWin TextTok.
Open Scope nat_scope.

Inductive rtok := ROpen | RClose | ROp (o : operator) | RUnq (s : bytes) | RQuo (s : bytes).
Inductive pstate := PNone | PQuote | PUnq.

(* Utf8Bom: 0 Unknown, 1 NotPresent, 2 Present *)
Record reader := mkreader { rbw : bufwin; rrd : rd; rbom : N }.

Definition reader_from_slice (d : bytes) : reader := mkreader (bw_from_slice d) (mkrd [] [] 0 0) 0%N.
Definition reader_new (cap : nat) (input : bytes) (sch : list event) : reader :=
  mkreader (bw_new cap) (mkrd input sch 0 0) 0%N.
Definition reader_position (r : reader) : nat := bw_position (rbw r).

Definition b_is (c : N) (x : N) : bool := N.eqb c x.
Definition is_ws (c : N) : bool := b_is c 32 || b_is c 9 || b_is c 10 || b_is c 13 || b_is c 59.

Definition slice (w : bytes) (a b : nat) : bytes := firstn (b - a) (skipn a w).

(* index (relative to k) of the first byte satisfying p *)
Fixpoint find_from (p : N -> bool) (l : bytes) (k : nat) : option nat :=
  match l with
  | [] => None
  | c :: l' => if p c then Some k else find_from p l' (S k)
  end.

(* quote scan: QFound i = closing quote at i; QEnd = ran off the end; QEndEsc = ran off the end
   by stepping over the backslash at i (1 or 2 bytes) *)
Inductive qres := QFound (i : nat) | QEnd | QEndEsc (i : nat).
Fixpoint qscan (l : bytes) (k : nat) : qres :=
  match l with
  | [] => QEnd
  | c :: l' =>
      if b_is c 92 then
        match l' with
        | [] => QEndEsc k
        | _ :: l'' => match l'' with [] => QEndEsc k | _ => qscan l'' (S (S k)) end
        end
      else if b_is c 34 then QFound k
      else qscan l' (S k)
  end.

Inductive act :=
| ARefill (st : pstate) (carry offset : nat)
| ATok (t : rtok) (adv : nat)
| ACrash (site : N).

Definition two_char (l' : bytes) (ptr : nat) (single double : operator) (strict : bool) : act :=
  (* after the first operator byte at ptr; l' = bytes after it *)
  match l' with
  | [] => ARefill PNone 1 0
  | c :: _ =>
      if b_is c 61 then ATok (ROp double) (ptr + 2)
      else ATok (ROp single) (ptr + 1)
  end.

(* next_opt_fallback's scan from index ptr (l = skipn ptr w); returns the action and the BOM state *)
Fixpoint fb (fuel : nat) (pos0 : bool) (w l : bytes) (ptr : nat) (bom : N) : act * N :=
  match fuel with
  | O => (ACrash 7001%N, bom)
  | S f =>
    match l with
    | [] => (ARefill PNone 0 0, bom)
    | c :: l' =>
      if is_ws c then fb f pos0 w l' (S ptr) bom
      else if b_is c 35 then
        match find_from (fun x => b_is x 10) l' 0 with
        | None => (ARefill PNone (length l) 0, bom)
        | Some k => fb f pos0 w (skipn k l') (S ptr + k) bom
        end
      else if b_is c 123 then (ATok ROpen (S ptr), bom)
      else if b_is c 125 then (ATok RClose (S ptr), bom)
      else if b_is c 34 then
        let carry := length l' in
        match qscan l' 0 with
        | QFound i => (ATok (RQuo (firstn i l')) (S ptr + i + 1), bom)
        | QEnd => (ARefill PQuote carry carry, bom)
        | QEndEsc i => (ARefill PQuote carry i, bom)
        end
      else if b_is c 64 then
        match l' with
        | [] => (ARefill PNone 1 0, bom)
        | c2 :: l'' =>
          if b_is c2 91 then
            match find_from (fun x => b_is x 93) l'' 0 with
            | None => (ARefill PNone (length l) 0, bom)
            | Some k => (ATok (RUnq (firstn (k + 3) l)) (ptr + k + 3), bom)
            end
          else
            match find_from is_boundary l' 0 with
            | None => (ARefill PUnq (length l) (length l), bom)
            | Some k => (ATok (RUnq (firstn (S k) l)) (ptr + S k), bom)
            end
        end
      else if b_is c 61 then (two_char l' ptr Equal Exact true, bom)
      else if b_is c 60 then (two_char l' ptr LessThan LessThanEqual true, bom)
      else if b_is c 33 then (two_char l' ptr NotEqual NotEqual false, bom)
      else if b_is c 63 then (two_char l' ptr Exists Exists false, bom)
      else if b_is c 62 then (two_char l' ptr GreaterThan GreaterThanEqual true, bom)
      else if b_is c 239 && N.eqb bom 0 && Nat.eqb ptr 0 && pos0 then
        (* only at stream position 0: self.buf.window().get(..3) *)
        match w with
        | b0 :: b1 :: b2 :: _ =>
            if b_is b0 239 && b_is b1 187 && b_is b2 191
            then fb f pos0 w (skipn 3 l) (ptr + 3) 2%N
            else fb f pos0 w l ptr 1%N
        | _ => (ARefill PNone (length w) 0, bom)
        end
      else
        match find_from is_boundary l' 0 with
        | None => (ARefill PUnq (length l) (length l), bom)
        | Some k => (ATok (RUnq (firstn (S k) l)) (ptr + S k), bom)
        end
    end
  end.

(* result of one next_opt: token / clean end / error class, and the new reader *)
Inductive nres :=
| NTok (t : rtok) (r : reader)
| NEnd (r : reader)
| NErr (e : N) (r : reader)
| NCrash (site : N).

Definition with_bw (r : reader) (b : bufwin) : reader := mkreader b (rrd r) (rbom r).

Definition emit (r : reader) (t : rtok) (adv : nat) : nres :=
  match bw_advance (rbw r) adv with
  | Ok b => NTok t (with_bw r b)
  | _ => NCrash 7002%N
  end.

(* scanning loops inside next_opt_refill (after a successful fill) *)
(* inl i = closing quote at i; inr o = not found, resume at offset o (the window length, or the
   index of a backslash that is the last buffered byte) *)
Fixpoint rq_scan (l : bytes) (k : nat) : nat + nat :=
  match l with
  | [] => inr k
  | c :: l' =>
      if b_is c 92 then
        match l' with
        | [] => inr k
        | _ :: l'' => rq_scan l'' (S (S k))
        end
      else if b_is c 34 then inl k
      else rq_scan l' (S k)
  end.
Definition refill_quote_scan (w : bytes) (offset : nat) : nat + nat := rq_scan (skipn offset w) offset.
Definition refill_unq_scan (w : bytes) (offset : nat) : option nat :=
  find_from is_boundary (skipn offset w) offset.

Fixpoint refill (fuel : nat) (r : reader) (st : pstate) (carry offset : nat) : nres :=
  match fuel with
  | O => NCrash 7003%N
  | S f =>
    let b := rbw r in
    let wl := length (win b) in
    if Nat.ltb wl carry then NCrash 7004%N else
    (* advance_to(end - carry_over) *)
    let b1 := mkbw (cap b) (skipn (wl - carry) (win b)) (consumed b + (wl - carry)) (prior b) in
    match bw_fill_buf b1 (rrd r) with
    | FillOk 0 b2 rd2 =>
        let r2 := mkreader b2 rd2 (rbom r) in
        match st with
        | PNone =>
            let first_is_hash := match win b2 with c :: _ => b_is c 35 | [] => false end in
            if Nat.eqb carry 0 || first_is_hash then
              match bw_advance b2 carry with Ok b3 => NEnd (with_bw r2 b3) | _ => NCrash 7005%N end
            else NErr E_Eof r2
        | PQuote => NErr E_Eof r2
        | PUnq =>
            match bw_advance b2 (length (win b2)) with
            | Ok b3 => NTok (RUnq (firstn carry (win b2))) (with_bw r2 b3)
            | _ => NCrash 7006%N
            end
        end
    | FillOk _ b2 rd2 =>
        let r2 := mkreader b2 rd2 (rbom r) in
        let w := win b2 in
        match st with
        | PNone =>
            match fb (S (S (length w))) (Nat.eqb (bw_position b2) 0) w w 0 (rbom r2) with
            | (ARefill st' c' o', bom') => refill f (mkreader b2 rd2 bom') st' c' o'
            | (ATok t adv, bom') => emit (mkreader b2 rd2 bom') t adv
            | (ACrash s, _) => NCrash s
            end
        | PQuote =>
            if Nat.ltb (length w) offset then NCrash 7007%N else
            match refill_quote_scan w offset with
            | inl i => emit r2 (RQuo (firstn i w)) (S i)
            | inr o => refill f r2 PQuote (length w) o
            end
        | PUnq =>
            if Nat.ltb (length w) offset then NCrash 7008%N else
            match refill_unq_scan w offset with
            | Some i => emit r2 (RUnq (firstn i w)) i
            | None => refill f r2 PUnq (length w) (length w)
            end
        end
    | FillIo b2 rd2 => NErr E_Io (mkreader b2 rd2 (rbom r))
    | FillFull b2 rd2 => NErr E_BufferFull (mkreader b2 rd2 (rbom r))
    end
  end.

Definition fallback (fuel : nat) (r : reader) : nres :=
  let w := win (rbw r) in
  match fb (S (S (length w))) (Nat.eqb (bw_position (rbw r)) 0) w w 0 (rbom r) with
  | (ARefill st c o, bom') => refill fuel (mkreader (rbw r) (rrd r) bom') st c o
  | (ATok t adv, bom') => emit (mkreader (rbw r) (rrd r) bom') t adv
  | (ACrash s, _) => NCrash s
  end.

(* ---- fast paths of next_opt ---- *)
Definition is_alnum_dash (c : N) : bool :=
  ((97 <=? c) && (c <=? 122))%N || ((48 <=? c) && (c <=? 57))%N || ((65 <=? c) && (c <=? 90))%N || b_is c 45.

(* the `for _ in 0..8` body: inl idx = boundary at idx, inr opt' = next position *)
Fixpoint fu_inner (n : nat) (w : bytes) (opt : nat) : option (nat + nat) :=
  match n with
  | O => Some (inr opt)
  | S n' =>
      match nth_error w opt with
      | None => None (* OOB *)
      | Some c => if is_boundary c then Some (inl opt) else fu_inner n' w (S opt)
      end
  end.
Inductive fres := FHit (i : nat) | FMiss | FOob.
Fixpoint fu_outer (fuel : nat) (w : bytes) (opt : nat) : fres :=
  match fuel with
  | O => FMiss
  | S f =>
      if Nat.ltb 8 (length w - opt) then
        match fu_inner 8 w opt with
        | None => FOob
        | Some (inl i) => FHit i
        | Some (inr o') => fu_outer f w o'
        end
      else FMiss
  end.

Definition swar_quote_t2 (data : N) : N :=
  let mask := repeat_byte 127 in
  let lobits := N.land data mask in
  let x0 := wadd (N.lxor lobits (repeat_byte 34)) mask in
  let t0 := N.lor x0 data in
  let t1 := N.land t0 (repeat_byte 128) in
  N.lxor t1 (repeat_byte 128).

Fixpoint fq_outer (fuel : nat) (w : bytes) (opt : nat) (escaped : bool) : fres :=
  match fuel with
  | O => FMiss
  | S f =>
      if Nat.ltb 8 (length w - opt) then
        let data := le_word 8 (skipn opt w) in
        let escaped := escaped || contains_zero_byte (N.lxor data (repeat_byte 92)) in
        let t2 := swar_quote_t2 data in
        if negb (N.eqb t2 0) then
          if negb escaped then FHit (opt + N.to_nat (N.shiftr (trailing_zeros t2) 3)) else FMiss
        else fq_outer f w (opt + 8) escaped
      else FMiss
  end.

Definition next_opt (fuel : nat) (r : reader) : nres :=
  let w := win (rbw r) in
  if Nat.ltb (length w) 9 then fallback fuel r
  else
    let data := le_word 8 w in
    let p := N.to_nat (leading_whitespace data) in
    match nth_error w p with
    | None => NCrash 7010%N
    | Some c =>
      if b_is c 123 then emit r ROpen (S p)
      else if b_is c 125 then emit r RClose (S p)
      else if is_alnum_dash c then
        match fu_outer (S (length w)) w (S p) with
        | FHit i =>
            let adv := match nth_error w i with Some 32%N => S i | _ => i end in
            emit r (RUnq (slice w p i)) adv
        | FMiss => fallback fuel r
        | FOob => NCrash 7011%N
        end
      else if b_is c 34 then
        match fq_outer (S (length w)) w (S p) false with
        | FHit i => emit r (RQuo (slice w (S p) i)) (S i)
        | FMiss => fallback fuel r
        | FOob => NCrash 7012%N
        end
      else fallback fuel r
    end.

(* ---- drivers ---- *)
Inductive rout := OTok (t : rtok) | OEnd | OErr (e : N) | OCrash (s : N).

(* `next` until the end: token list, terminal event, final position *)
Fixpoint run_next (n : nat) (fuel : nat) (r : reader) : list rout * nat :=
  match n with
  | O => ([OCrash 7099%N], reader_position r)
  | S n' =>
      match next_opt fuel r with
      | NTok t r' => let '(l, p) := run_next n' fuel r' in (OTok t :: l, p)
      | NEnd r' => ([OEnd], reader_position r')
      | NErr e r' => ([OErr e], reader_position r')
      | NCrash s => ([OCrash s], 0)
      end
  end.

Definition default_fuel (input : bytes) (sch : list event) : nat := 4 * (length input + length sch) + 64.

Definition run_stream (cap : nat) (sch : list event) (input : bytes) : list rout * nat :=
  run_next (length input + 2) (default_fuel input sch) (reader_new cap input sch).
Definition run_slice (input : bytes) : list rout * nat :=
  run_next (length input + 2) (default_fuel input []) (reader_from_slice input).

(* ---- read_bytes ---- *)
Fixpoint read_bytes (fuel : nat) (r : reader) (n : nat) : outcome (bytes * reader) :=
  match fuel with
  | O => OutOfFuel
  | S f =>
      let b := rbw r in
      if Nat.ltb (length (win b)) n then
        match bw_fill_buf b (rrd r) with
        | FillOk 0 _ _ => Err E_Eof
        | FillOk _ b2 rd2 => read_bytes f (mkreader b2 rd2 (rbom r)) n
        | FillIo _ _ => Err E_Io
        | FillFull _ _ => Err E_BufferFull
        end
      else
        match bw_advance b n with
        | Ok b2 => Ok (firstn n (win b), with_bw r b2)
        | _ => OOB 7020%N
        end
  end.

(* ---- skip_container ---- *)
Inductive skst := SkNone | SkQuote | SkComment.
Inductive skres := SkDone (adv : nat) | SkRefill (ptr : nat) (st : skst) (depth : Z) | SkCrash (s : N).

Definition czb_eq (data : N) (b : N) : bool := contains_zero_byte (N.lxor data (repeat_byte b)).

Fixpoint sk_scan (fuel : nat) (w : bytes) (ptr : nat) (st : skst) (depth : Z) : skres :=
  match fuel with
  | O => SkCrash 7030%N
  | S f =>
    match st with
    | SkNone =>
        let wide :=
          if Nat.ltb 8 (length w - ptr) then
            let data := le_word 8 (skipn ptr w) in
            if czb_eq data 34 || czb_eq data 35 then None
            else
              let closes := if czb_eq data 125 then Z.of_N (count_chunk data 125) else 0%Z in
              let nd := (depth - closes)%Z in
              if (nd <? 1)%Z then None
              else
                let opens := if czb_eq data 123 then Z.of_N (count_chunk data 123) else 0%Z in
                Some (nd + opens)%Z
          else None in
        match wide with
        | Some d' => sk_scan f w (ptr + 8) SkNone d'
        | None =>
            match nth_error w ptr with
            | None => SkRefill ptr SkNone depth
            | Some c =>
                if b_is c 123 then sk_scan f w (S ptr) SkNone (depth + 1)%Z
                else if b_is c 125 then
                  if (depth - 1 =? 0)%Z then SkDone (S ptr) else sk_scan f w (S ptr) SkNone (depth - 1)%Z
                else if b_is c 34 then sk_scan f w (S ptr) SkQuote depth
                else if b_is c 35 then sk_scan f w (S ptr) SkComment depth
                else sk_scan f w (S ptr) SkNone depth
            end
        end
    | SkQuote =>
        match nth_error w ptr with
        | None => SkRefill ptr SkQuote depth
        | Some c =>
            if b_is c 92 then
              if Nat.leb (length w - ptr) 2 then SkRefill ptr SkQuote depth
              else sk_scan f w (ptr + 2) SkQuote depth
            else if b_is c 34 then sk_scan f w (S ptr) SkNone depth
            else sk_scan f w (S ptr) SkQuote depth
        end
    | SkComment =>
        match nth_error w ptr with
        | None => SkRefill ptr SkComment depth
        | Some c =>
            if b_is c 10 then sk_scan f w (S ptr) SkNone depth
            else sk_scan f w (S ptr) SkComment depth
        end
    end
  end.

Fixpoint skip_container_loop (fuel : nat) (r : reader) (ptr : nat) (st : skst) (depth : Z) : outcome reader :=
  match fuel with
  | O => OutOfFuel
  | S f =>
      let w := win (rbw r) in
      match sk_scan (S (S (length w))) w ptr st depth with
      | SkDone adv =>
          match bw_advance (rbw r) adv with Ok b => Ok (with_bw r b) | _ => OOB 7031%N end
      | SkCrash s => Panic s
      | SkRefill p st' d' =>
          match bw_advance (rbw r) p with
          | Ok b =>
              match bw_fill_buf b (rrd r) with
              | FillOk 0 _ _ => Err E_Eof
              | FillOk _ b2 rd2 => skip_container_loop f (mkreader b2 rd2 (rbom r)) 0 st' d'
              | FillIo _ _ => Err E_Io
              | FillFull _ _ => Err E_BufferFull
              end
          | _ => OOB 7032%N
          end
      end
  end.
Definition skip_container (fuel : nat) (r : reader) : outcome reader :=
  skip_container_loop fuel r 0 SkNone 1%Z.

(* ---- skip_unquoted_value ---- *)
(* Some (true, i) = '{' at i ; Some (false, i) = other byte at i ; None = ran off the end (with
   the comment flag to carry across the refill) *)
Fixpoint suv_scan (l : bytes) (ptr : nat) (in_comment : bool) : option (bool * nat) + bool :=
  match l with
  | [] => inr in_comment
  | c :: l' =>
      if in_comment then suv_scan l' (S ptr) (negb (b_is c 10))
      else if b_is c 123 then inl (Some (true, ptr))
      else if is_ws c then suv_scan l' (S ptr) false
      else if b_is c 35 then suv_scan l' (S ptr) true
      else inl (Some (false, ptr))
  end.

Fixpoint skip_unquoted_value_loop (fuel : nat) (r : reader) (in_comment : bool) : outcome reader :=
  match fuel with
  | O => OutOfFuel
  | S f =>
      let w := win (rbw r) in
      let p0 := if negb in_comment && Nat.leb 4 (length w) && N.eqb (le_word 4 w) 151587082 then 4 else 0 in
      match suv_scan (skipn p0 w) p0 in_comment with
      | inl (Some (true, i)) =>
          match bw_advance (rbw r) (S i) with
          | Ok b => skip_container f (with_bw r b)
          | _ => OOB 7040%N
          end
      | inl (Some (false, i)) =>
          match bw_advance (rbw r) i with
          | Ok b => Ok (with_bw r b)
          | _ => OOB 7042%N
          end
      | inl None => Ok r
      | inr ic =>
          match bw_advance (rbw r) (length w) with
          | Ok b =>
              match bw_fill_buf b (rrd r) with
              | FillOk 0 b2 rd2 => Ok (mkreader b2 rd2 (rbom r))
              | FillOk _ b2 rd2 => skip_unquoted_value_loop f (mkreader b2 rd2 (rbom r)) ic
              | FillIo _ _ => Err E_Io
              | FillFull _ _ => Err E_BufferFull
              end
          | _ => OOB 7041%N
          end
      end
  end.
Definition skip_unquoted_value (fuel : nat) (r : reader) : outcome reader := skip_unquoted_value_loop fuel r false.
