(* src/text/de.rs, TAPE path: TextDeserializer::from_*_tape / from_*_slice / ObjectReader::deserialize
   -> root MapAccess over FieldsIter -> ValueDeserializer / SeqAccess / EnumAccess / PropertyMap,
   together with the src/text/dom.rs readers they use (next_idx, next_idx_header, next_idx_values,
   values_len, FieldsIter::next / remainder, ValueReader::read_object / read_array / read_str /
   read_scalar, ValuesIter), modelled over the token list [TextTok.ttape].

   Every `tokens[i]` is a panic site ([tget]); `tokens.get(i)` is [nth_error].  The model is the
   RELEASE build: the `debug_assert!(false)` of FieldsIter::next on a non-scalar key is compiled out
   and the iterator ends (a debug build would panic there).

   deserializer side = [tape_visit]: given the thint (which deserialize_* was called) and the
     ValueKind, which visit_* call is made.  It is NOT recursive: every fallback chain
     (deserialize_map -> deserialize_any -> deserialize_seq -> ...) ends after at most three steps.
   visitor side = [de]: what the visitor of the shape does with that visit (TextDeCommon.tvisit_prim,
     the seq / tuple / map loops), calling back into the deserializer for elements and values.
   Hints that no harness shape issues (bytes, unit, newtype_struct, char) are modelled on the
   deserializer side only.  No proofs here. *)
From JV Require Import Bytes Utf8 Scalar TextTok SerdeShape TextDeCommon.
Open Scope nat_scope.

Definition SITE_TOK : N := 9100%N.       (* tokens[i] out of range *)

Inductive vkind :=
| KOpVal (op : operator) (vi : nat)      (* ValueKind::OperatorValue *)
| KVal (vi : nat)                        (* ValueKind::Value *)
| KScalar (s : bytes)                    (* ValueKind::Scalar (a key) *)
| KStatic (s : bytes)                    (* StaticDeserializer("remainder") *)
| KArr (st en : nat).                    (* ValueKind::Array *)

Inductive tvisit :=
| TVPrim (p : tprim)
| TVSome (k : vkind)
| TVNewtype (k : vkind)
| TVSeq (st en : nat)                    (* visit_seq(SeqAccess over ValuesIter st..en) *)
| TVMap (st en : nat)                    (* visit_map(MapAccess over FieldsIter st..en) *)
| TVPropMap (op : operator) (vi : nat)   (* visit_map(PropertyMap) *)
| TVEnum (variant : nat) (rest : option (nat * nat)).   (* visit_enum(EnumAccess) *)

Section Dom.
  Variable t : ttape.

  Definition tget (i : nat) : outcome ttok :=
    match nth_error t i with Some x => Ok x | None => Panic SITE_TOK end.

  (* next_idx_header / next_idx on l = skipn idx t *)
  Definition next_idx_header_l (l : ttape) (idx : nat) : outcome nat :=
    match l with
    | [] => Panic SITE_TOK
    | TArray e _ :: _ | TObject e _ :: _ => Ok (S e)
    | TOperator _ :: _ | TMixedContainer :: _ => Ok (idx + 2)
    | _ :: _ => Ok (S idx)
    end.
  Fixpoint next_idx_l (l : ttape) (idx : nat) : outcome nat :=
    match l with
    | [] => Panic SITE_TOK
    | TArray e _ :: _ | TObject e _ :: _ => Ok (S e)
    | TOperator _ :: l' => next_idx_l l' (S idx)
    | THeader _ :: l' => next_idx_header_l l' (S idx)
    | _ :: _ => Ok (S idx)
    end.
  Definition next_idx (idx : nat) : outcome nat := next_idx_l (skipn idx t) idx.

  Definition next_idx_values (idx : nat) : outcome nat :=
    do tk <- tget idx;
    match tk with TArray e _ | TObject e _ => Ok (S e) | _ => Ok (S idx) end.

  (* values_len(tokens, ind, end) == 0, i.e. ArrayReader::is_empty: the loop body runs at least once
     iff ind < end; the twalk itself can panic *)
  Fixpoint values_len (fuel : nat) (ind en : nat) : outcome nat :=
    match fuel with
    | O => OutOfFuel
    | S f =>
        if ind <? en then
          do nx <- next_idx_values ind;
          do c <- values_len f nx en;
          Ok (S c)
        else Ok 0
    end.

  (* FieldsIter::next: None = the iterator is exhausted *)
  Definition fields_next (ti en : nat) : outcome (option (bytes * option operator * nat * nat)) :=
    if en <=? ti then Ok None
    else
      do tk <- tget ti;
      match tk with
      | TQuoted s | TUnquoted s | TParameter s | TUndefinedParameter s =>
          do nx <- tget (S ti);
          let '(op, vi) := match nx with TOperator o => (Some o, ti + 2) | _ => (None, S ti) end in
          do ti' <- next_idx vi;
          Ok (Some (s, op, vi, ti'))
      | _ => Ok None       (* MixedContainer, or (release build) any other token *)
      end.

  (* FieldsIter::remainder: the ArrayReader's (start, end) *)
  Definition remainder (ti en : nat) : nat * nat :=
    match nth_error t ti with
    | Some TMixedContainer => (S ti, en)
    | Some (TEnd y) => match nth_error t y with Some (TArray _ _) => (S y, en) | _ => (ti, en) end
    | Some _ => (ti, en)
    | None => (en, en)
    end.

  (* ValueReader::read_object *)
  Definition read_object (vi : nat) (tk : ttok) : option (nat * nat) :=
    match tk with
    | TObject e _ => Some (S vi, e)
    | TArray e _ => Some (e, e)
    | _ => None
    end.

  (* the `while tokens.get(start) != Some(MixedContainer) { start = next_idx(start) }` of read_array *)
  Fixpoint find_mixed (fuel : nat) (start : nat) : outcome nat :=
    match fuel with
    | O => OutOfFuel
    | S f =>
        match nth_error t start with
        | Some TMixedContainer => Ok start
        | _ => do nx <- next_idx start; find_mixed f nx
        end
    end.

  (* ValueReader::read_array *)
  Definition read_array (vi : nat) (tk : ttok) : outcome (option (nat * nat)) :=
    match tk with
    | TObject e true => do st <- find_mixed (S (length t)) (S vi); Ok (Some (S st, e))
    | TArray e _ | TObject e _ => Ok (Some (S vi, e))
    | THeader _ => do en <- next_idx (S vi); Ok (Some (vi, en))
    | _ => Ok None
    end.

  Definition tok_scalar (tk : ttok) : option bytes :=      (* TextToken::as_scalar *)
    match tk with
    | THeader s | TUnquoted s | TQuoted s | TParameter s | TUndefinedParameter s => Some s
    | _ => None
    end.
End Dom.

Section TapeDe.
  Variable decode : bytes -> cow.
  Variable parse_f64 : bytes -> outcome N.
  Variable fo : fops.
  Variable t : ttape.

  (* Reader::read_scalar: None = Err *)
  Definition k_read_scalar (k : vkind) : outcome (option bytes) :=
    match k with
    | KScalar s => Ok (Some s)
    | KOpVal _ vi | KVal vi => do tk <- tget t vi; Ok (tok_scalar tk)
    | _ => Ok None
    end.

  (* Reader::read_str (ValueReader::raw_str): the Cow *)
  Definition k_read_str (k : vkind) : outcome (option cow) :=
    match k with
    | KScalar s => Ok (Some (decode s))
    | KOpVal _ vi | KVal vi =>
        do tk <- tget t vi;
        match tk with
        | TOperator o => Ok (Some (Borrowed (op_symbol o)))
        | _ => Ok (match tok_scalar tk with Some s => Some (decode s) | None => None end)
        end
    | _ => Ok None
    end.

  Definition any_leaf (tk : ttok) : outcome tvisit :=
    match tk with
    | TQuoted s | TUnquoted s => Ok (TVPrim (pstr (decode s)))
    | _ => Err EC_DE
    end.

  (* ValueDeserializer::deserialize_seq with a ValueReader at vi *)
  Definition tv_seq_at (vi : nat) : outcome tvisit :=
    do tk <- tget t vi;
    do ra <- read_array t vi tk;
    match ra with
    | Some (st, en) => Ok (TVSeq st en)
    | None => any_leaf tk                   (* deserialize_any: not Header / Array / Object here *)
    end.

  (* ValueDeserializer::deserialize_map with a ValueReader at vi *)
  Definition tv_any_at (vi : nat) : outcome tvisit :=
    do tk <- tget t vi;
    match tk with
    | THeader _ =>
        (* x.next(): value_ind += 1, then deserialize_map / deserialize_seq on the NEXT token *)
        match nth_error t (S vi) with
        | Some (TObject e _) => Ok (TVMap (S (S vi)) e)
        | _ => tv_seq_at (S vi)
        end
    | TArray _ _ => tv_seq_at vi
    | TObject e _ => Ok (TVMap (S vi) e)
    | _ => any_leaf tk
    end.

  Definition tv_any (k : vkind) : outcome tvisit :=
    match k with
    | KScalar s => Ok (TVPrim (pstr (decode s)))
    | KStatic s => Ok (TVPrim (TPStr true s))
    | KArr st en => Ok (TVSeq st en)
    | KOpVal _ vi | KVal vi => tv_any_at vi
    end.

  Definition tv_map (k : vkind) : outcome tvisit :=
    match k with
    | KOpVal _ vi | KVal vi =>
        do tk <- tget t vi;
        match read_object vi tk with
        | Some (st, en) => Ok (TVMap st en)
        | None => tv_any k
        end
    | _ => tv_any k
    end.

  Definition tv_scalar_hint (h : thint) (k : vkind) : outcome tvisit :=
    do sc <- k_read_scalar k;
    match sc with
    | Some raw =>
        match scalar_prim decode parse_f64 true h raw with
        | TPStr _ _ => tv_any k            (* the conversion failed: self.deserialize_any(visitor) *)
        | p => Ok (TVPrim p)
        end
    | None => tv_any k
    end.

  Definition tape_visit (h : thint) (k : vkind) : outcome tvisit :=
    match k with
    | KStatic s => Ok (TVPrim (TPStr true s))       (* StaticDeserializer forwards everything to deserialize_any *)
    | _ =>
      match h with
      | THAny => tv_any k
      | THStr =>
          do c <- k_read_str k;
          match c with Some c => Ok (TVPrim (pstr c)) | None => tv_any k end
      | THString =>
          do c <- k_read_str k;
          match c with Some c => Ok (TVPrim (TPStr false (cow_bytes c))) | None => tv_any k end
      | THBytes =>
          do sc <- k_read_scalar k;
          match sc with Some raw => Ok (TVPrim (TPBytes raw)) | None => tv_any k end
      | THBool | THI64 | THU64 | THF64 => tv_scalar_hint h k
      | THOption => Ok (TVSome k)
      | THNewtype => Ok (TVNewtype k)
      | THUnit | THIgnored => Ok (TVPrim TPUnit)
      | THSeq =>
          match k with
          | KArr st en => Ok (TVSeq st en)
          | KOpVal _ vi | KVal vi => tv_seq_at vi
          | _ => tv_any k
          end
      | THMap | THStruct false => tv_map k
      | THStruct true =>
          match k with
          | KOpVal op vi => Ok (TVPropMap op vi)
          | _ => tv_map k
          end
      | THEnum =>
          match k with
          | KOpVal _ vi | KVal vi =>
              do tk <- tget t vi;
              do ra <- read_array t vi tk;
              match ra with
              | Some (st, en) =>
                  if st <? en then do nx <- next_idx_values t st; Ok (TVEnum st (Some (nx, en)))
                  else Err EC_DE
              | None => Ok (TVEnum vi None)
              end
          | _ => Err EC_DE
          end
      end
    end.

  (* ---------------------------------------------------------------- the visitor side *)
  (* what a key deserializer (ValueKind::Scalar / StaticDeserializer) shows a key visitor *)
  Definition key_info (k : vkind) : bytes * bool :=
    match k with
    | KScalar s => (cow_bytes (decode s), is_ok (to_u64 s))
    | KStatic s => (s, false)
    | _ => ([], false)
    end.

  Fixpoint de (fuel : nat) (sh : shape) (k : vkind) : outcome dval :=
    match fuel with
    | O => OutOfFuel
    | S f =>
      do v <- tape_visit (thint_of sh) k;
      match v with
      | TVPrim p => tvisit_prim fo sh p
      | TVSome k' => match sh with ShOpt s => omap DSome (de f s k') | _ => Err EC_DE end
      | TVNewtype _ => Err EC_DE
      | TVSeq st en =>
          match sh with
          | ShSeq s => omap DSeq (seq_all f s st en)
          | ShAny => omap DSeq (seq_all f ShAny st en)
          | ShTup ss => omap DSeq (seq_tup f ss st en)
          | ShProp s =>
              (* serde-derive visit_seq: next_element::<Operator>, next_element::<T>, end not probed *)
              if st <? en then
                do n1 <- next_idx_values t st;
                do o <- (do vo <- tape_visit THStr (KVal st);
                         match vo with TVPrim p => visit_operator p | _ => Err EC_DE end);
                if n1 <? en then
                  do _ <- next_idx_values t n1;
                  do x <- de f s (KVal n1);
                  Ok (DProp o x)
                else Err EC_DE
              else Err EC_DE
          | _ => Err EC_DE
          end
      | TVMap st en =>
          match wmode_of sh with
          | Some m => do a <- twalk f m (acc0 m) st en; finish m a
          | None => Err EC_DE
          end
      | TVPropMap op vi =>
          match sh with
          | ShProp s => omap (DProp (op_code op)) (de f s (KVal vi))
          | _ => Err EC_DE
          end
      | TVEnum vi rest =>
          match sh with
          | ShEnum names =>
              do vv <- tape_visit THStr (KVal vi);
              do name <- match vv with TVPrim p => tvisit_variant names p | _ => Err EC_DE end;
              (* unit_variant: with a values iterator, `()` is deserialized from its next value *)
              match rest with
              | None => Ok name
              | Some (st, en) => if st <? en then do _ <- next_idx_values t st; Ok name else Err EC_DE
              end
          | _ => Err EC_DE
          end
      end
    end
  (* SeqV / AnyV.visit_seq over SeqAccess: until next_element_seed returns None *)
  with seq_all (fuel : nat) (s : shape) (ti en : nat) : outcome (list dval) :=
    match fuel with
    | O => OutOfFuel
    | S f =>
        if ti <? en then
          do nx <- next_idx_values t ti;
          do v <- de f s (KVal ti);
          do r <- seq_all f s nx en;
          Ok (v :: r)
        else Ok []
    end
  (* TupV: exactly one element per shape, the end is not probed *)
  with seq_tup (fuel : nat) (ss : list shape) (ti en : nat) : outcome (list dval) :=
    match fuel with
    | O => OutOfFuel
    | S f =>
        match ss with
        | [] => Ok []
        | s :: ss' =>
            if ti <? en then
              do nx <- next_idx_values t ti;
              do v <- de f s (KVal ti);
              do r <- seq_tup f ss' nx en;
              Ok (v :: r)
            else Err EC_DE                 (* invalid_length *)
        end
    end
  (* a visit_map loop over MapAccess { fields: ti..en } *)
  with twalk (fuel : nat) (m : wmode) (a : acc) (ti en : nat) : outcome acc :=
    match fuel with
    | O => OutOfFuel
    | S f =>
        let rec := fun sh k (_ : unit) => omap (fun v => (v, tt)) (de f sh k) in
        let rec_op := fun k (_ : unit) =>
          do vo <- tape_visit THStr k;
          match vo with TVPrim p => omap (fun o => (o, tt)) (visit_operator p) | _ => Err EC_DE end in
        do fn <- fields_next t ti en;
        match fn with
        | Some (key, op, vi, ti') =>
            let '(kb, knum) := key_info (KScalar key) in
            do r <- entry rec rec_op m a kb knum (KOpVal (match op with Some o => o | None => Equal end) vi) tt;
            twalk f m (fst r) ti' en
        | None =>
            (* `else if !self.at_remainder && !self.fields.remainder().is_empty()`; afterwards
               fields.next() is None again and at_remainder is set: the loop ends *)
            let '(rs, re) := remainder t ti en in
            do n <- values_len t (S (length t)) rs re;
            match n with
            | O => Ok a
            | S _ =>
                do r <- entry rec rec_op m a STR_REMAINDER false (KArr rs re) tt;
                Ok (fst r)
            end
        end
    end.

  (* TextDeserializer::deserialize_map / deserialize_struct over ObjectReader { st..en } (root: 0..len);
     every other root thint is refused *)
  Definition de_root (fuel : nat) (sh : shape) (st en : nat) : outcome dval :=
    match thint_of sh with
    | THMap | THStruct _ =>
        match wmode_of sh with
        | Some m => do a <- twalk fuel m (acc0 m) st en; finish m a
        | None => Err EC_DE
        end
    | _ => Err EC_DE
    end.
End TapeDe.

(* the harness path `objreader@k`: root.fields().nth(k), read_object, ObjectReader::deserialize *)
Fixpoint nth_field (t : ttape) (fuel k ti en : nat) : outcome (option nat) :=
  match fuel with
  | O => OutOfFuel
  | S f =>
      do fn <- fields_next t ti en;
      match fn with
      | None => Ok None
      | Some (_, _, vi, ti') => match k with O => Ok (Some vi) | S k' => nth_field t f k' ti' en end
      end
  end.

Definition tape_fuel (sh : shape) (t : ttape) : nat := 2 * length t + 2 * shape_size sh + 8.

Definition deser_tape (decode : bytes -> cow) (parse_f64 : bytes -> outcome N) (fo : fops) (sh : shape) (t : ttape) : outcome dval :=
  de_root decode parse_f64 fo t (tape_fuel sh t) sh 0 (length t).

Definition deser_objreader (decode : bytes -> cow) (parse_f64 : bytes -> outcome N) (fo : fops) (sh : shape) (t : ttape)
    (k : option nat) : outcome dval :=
  match k with
  | None => deser_tape decode parse_f64 fo sh t
  | Some k =>
      do vi <- nth_field t (S (length t)) k 0 (length t);
      match vi with
      | None => Panic 9101%N            (* the harness `expect`s the field *)
      | Some vi =>
          do tk <- tget t vi;
          match read_object vi tk with
          | Some (st, en) => de_root decode parse_f64 fo t (tape_fuel sh t) sh st en
          | None => Err EC_DE
          end
      end
  end.
