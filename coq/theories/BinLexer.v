(* binary/lexer.rs: the Lexer cursor (data, original_length) and its methods, on top of the
   byte-level primitives of BinPrim.v.  Every method returns its result together with the cursor
   it leaves behind (a failing method leaves the cursor where the code leaves it: `?` after a
   successful read_id inside skip_container keeps the two id bytes consumed).
   Loops (skip_container here, the refill loops of BinReader.v) are written as a one-iteration
   [step] function driven by the generic fuelled iterator [run_steps]; the wrappers supply a fuel
   that is proved sufficient in proofs/BinLexProofs.v, so OutOfFuel is never observed.
   No proofs in this file. *)
From JV Require Import Bytes Tables BinPrim.
Open Scope nat_scope.

(* ---------- generic fuelled iteration of a one-iteration step function ---------- *)
Fixpoint run_steps {St Res : Type} (step : St -> St + Res) (fuel : nat) (s : St) : option Res :=
  match fuel with
  | O => None
  | S f => match step s with
           | inl s' => run_steps step f s'
           | inr r => Some r
           end
  end.

(* re-type a non-Ok outcome *)
Definition recast {A B} (o : outcome A) : outcome B :=
  match o with
  | Ok _ => Panic 8000%N   (* never used on Ok *)
  | Err e => Err e
  | Panic s => Panic s
  | OOB s => OOB s
  | OutOfFuel => OutOfFuel
  end.

(* ---------- the cursor ---------- *)
Record lexer := mklx { lx_data : bytes; lx_orig : nat }.

Definition lx_new (d : bytes) : lexer := mklx d (length d).
Definition lx_remainder (l : lexer) : bytes := lx_data l.
Definition lx_position (l : lexer) : nat := lx_orig l - length (lx_data l).

(* let (result, rest) = f(self.data).map_err(..)?; self.data = rest; Ok(result) *)
Definition lx_lift {A} (f : bytes -> outcome (A * bytes)) (l : lexer) : outcome A * lexer :=
  match f (lx_data l) with
  | Ok (a, r) => (Ok a, mklx r (lx_orig l))
  | o => (recast o, l)
  end.

(* match f(self.data) { Ok => Some, Err(Eof) if remainder().is_empty() => None, Err(e) => Err } *)
Definition lx_next_of {A} (f : bytes -> outcome (A * bytes)) (l : lexer) : outcome (option A) * lexer :=
  match f (lx_data l) with
  | Ok (a, r) => (Ok (Some a), mklx r (lx_orig l))
  | Err e => if (e =? E_LexEof)%N && (match lx_data l with [] => true | _ => false end)
             then (Ok None, l) else (Err e, l)
  | o => (recast o, l)
  end.

Definition lx_read_id := lx_lift read_id.
Definition lx_next_id := lx_next_of read_id.
Definition lx_read_token := lx_lift read_token.
Definition lx_next_token := lx_next_of read_token.
Definition lx_read_string := lx_lift read_string.
Definition lx_read_bool := lx_lift read_bool.
Definition lx_read_u32 := lx_lift read_u32.
Definition lx_read_u64 := lx_lift read_u64.
Definition lx_read_i32 := lx_lift read_i32.
Definition lx_read_i64 := lx_lift read_i64.
Definition lx_read_f32 := lx_lift read_f32.
Definition lx_read_f64 := lx_lift read_f64.
Definition lx_read_rgb := lx_lift read_rgb.

(* self.data.get(..2).map(|h| u16::from_le_bytes([h[0], h[1]])) *)
Definition lx_peek_id (l : lexer) : option N :=
  if Nat.leb 2 (length (lx_data l)) then Some (le_word 2 (firstn 2 (lx_data l))) else None.

(* read_token(self.data).ok().map(|(t, _)| t) *)
Definition lx_peek_token (l : lexer) : option btoken :=
  match read_token (lx_data l) with Ok (t, _) => Some t | _ => None end.

Definition read_bytes_prim (n : nat) (d : bytes) : outcome (bytes * bytes) :=
  if Nat.leb n (length d) then Ok (firstn n d, skipn n d) else Err E_LexEof.
Definition lx_read_bytes (n : nat) := lx_lift (read_bytes_prim n).

(* ---------- skip_container: one iteration of `loop { match self.read_id()? {...} }` ----------
   state = (depth, remaining data); result = (outcome, data the cursor is left at) *)
Definition drop_val {A} (o : outcome (A * bytes)) : outcome bytes := omap snd o.

Definition lx_skip_pay (depth : nat) (d1 : bytes) (o : outcome bytes)
  : (nat * bytes) + (outcome unit * bytes) :=
  match o with
  | Ok d2 => inl (depth, d2)
  | o' => inr (recast o', d1)
  end.

Definition lx_skip_step (st : nat * bytes) : (nat * bytes) + (outcome unit * bytes) :=
  let '(depth, d) := st in
  match read_id d with
  | Ok (id, d1) =>
      if ((id =? L_QUOTED) || (id =? L_UNQUOTED))%N then lx_skip_pay depth d1 (drop_val (read_string d1))
      else if (id =? L_U32)%N then lx_skip_pay depth d1 (drop_val (read_u32 d1))
      else if (id =? L_I32)%N then lx_skip_pay depth d1 (drop_val (read_i32 d1))
      else if (id =? L_U64)%N then lx_skip_pay depth d1 (drop_val (read_u64 d1))
      else if (id =? L_I64)%N then lx_skip_pay depth d1 (drop_val (read_i64 d1))
      else if (id =? L_BOOL)%N then lx_skip_pay depth d1 (drop_val (read_bool d1))
      else if (id =? L_F32)%N then lx_skip_pay depth d1 (drop_val (read_f32 d1))
      else if (id =? L_F64)%N then lx_skip_pay depth d1 (drop_val (read_f64 d1))
      else if (id =? L_CLOSE)%N then
        (if Nat.eqb depth 1 then inr (Ok tt, d1) else inl (depth - 1, d1))
      else if (id =? L_OPEN)%N then inl (S depth, d1)
      else inl (depth, d1)
  | o => inr (recast o, d)
  end.

(* every iteration consumes at least the two id bytes *)
Definition lx_skip_fuel (d : bytes) : nat := S (length d).

Definition skip_container_bytes (d : bytes) : outcome unit * bytes :=
  match run_steps lx_skip_step (lx_skip_fuel d) (1, d) with
  | Some r => r
  | None => (OutOfFuel, d)
  end.

Definition lx_skip_container (l : lexer) : outcome unit * lexer :=
  let '(o, d') := skip_container_bytes (lx_data l) in (o, mklx d' (lx_orig l)).

Definition lx_unit {A} (r : outcome A * lexer) : outcome unit * lexer :=
  (omap (fun _ => tt) (fst r), snd r).

(* skip_value(id) *)
Definition lx_skip_value (id : N) (l : lexer) : outcome unit * lexer :=
  if ((id =? L_QUOTED) || (id =? L_UNQUOTED))%N then lx_unit (lx_read_string l)
  else if (id =? L_U32)%N then lx_unit (lx_read_u32 l)
  else if (id =? L_I32)%N then lx_unit (lx_read_i32 l)
  else if (id =? L_U64)%N then lx_unit (lx_read_u64 l)
  else if (id =? L_I64)%N then lx_unit (lx_read_i64 l)
  else if (id =? L_BOOL)%N then lx_unit (lx_read_bool l)
  else if (id =? L_F32)%N then lx_unit (lx_read_f32 l)
  else if (id =? L_F64)%N then lx_unit (lx_read_f64 l)
  else if (id =? L_OPEN)%N then lx_skip_container l
  else if (id =? L_RGB)%N then lx_unit (lx_read_rgb l)
  else (Ok tt, l).

(* ---------- whole-input runs (what the C08 theorems talk about) ----------
   tokens, how the run ended (Ok tt = clean end of data), final position *)
Definition run_res := (list btoken * (outcome unit * nat))%type.

Fixpoint lex_run (fuel : nat) (l : lexer) : run_res :=
  match fuel with
  | O => ([], (OutOfFuel, lx_position l))
  | S f =>
      match lx_next_token l with
      | (Ok (Some t), l') => let '(ts, e) := lex_run f l' in (t :: ts, e)
      | (Ok None, l') => ([], (Ok tt, lx_position l'))
      | (o, l') => ([], (recast o, lx_position l'))
      end
  end.

(* every token consumes at least two bytes *)
Definition run_lexer (d : bytes) : run_res := lex_run (S (length d)) (lx_new d).

(* specification-side helper: the pure token list of a byte string (None if lexing fails) *)
Fixpoint lex_all_fuel (fuel : nat) (d : bytes) : option (list btoken) :=
  match fuel with
  | O => None
  | S f => match d with
           | [] => Some []
           | _ => match read_token d with
                  | Ok (t, r) => match lex_all_fuel f r with Some ts => Some (t :: ts) | None => None end
                  | _ => None
                  end
           end
  end.
Definition lex_all (d : bytes) : option (list btoken) := lex_all_fuel (S (length d)) d.

(* "the buffer can hold what starts here": where the slice lexer answers with a token or
   InvalidRgb, the first [cap] bytes are enough for read_token to give that answer; where the
   slice lexer runs out of data (clean end or truncated token), all the remaining bytes fit in
   the buffer with room to spare (a reader cannot know that the stream has ended while its buffer
   is full: buffer.rs answers BufferFull).  [fits cap d]: this holds at every token start the
   slice lexer visits.  fits cap d = true implies 0 < cap. *)
Definition is_eof {A} (o : outcome A) : bool :=
  match o with Err e => (e =? E_LexEof)%N | _ => false end.
Definition tok_fits (cap : nat) (d : bytes) : bool :=
  if is_eof (read_token d) then Nat.ltb (length d) cap
  else negb (is_eof (read_token (firstn cap d))).
Fixpoint fits_fuel (fuel cap : nat) (d : bytes) : bool :=
  match fuel with
  | O => true
  | S f => tok_fits cap d &&
           match read_token d with
           | Ok (_, r) => fits_fuel f cap r
           | _ => true
           end
  end.
Definition fits (cap : nat) (d : bytes) : bool := fits_fuel (S (length d)) cap d.

(* size of the largest token the slice lexer reads successfully *)
Fixpoint max_token_fuel (fuel : nat) (d : bytes) : nat :=
  match fuel with
  | O => 0
  | S f => match read_token d with
           | Ok (_, r) => Nat.max (length d - length r) (max_token_fuel f r)
           | _ => 0
           end
  end.
Definition max_token (d : bytes) : nat := max_token_fuel (S (length d)) d.

(* ---------- balanced token reading (the reference C09 compares skipping with) ----------
   from a position just after an Open (depth 1): read tokens, count opens and closes, return the
   data that follows the matching close *)
Fixpoint balanced_fuel (fuel depth : nat) (d : bytes) : option bytes :=
  match fuel with
  | O => None
  | S f =>
      match read_token d with
      | Ok (BClose, r) => if Nat.eqb depth 1 then Some r else balanced_fuel f (depth - 1) r
      | Ok (BOpen, r) => balanced_fuel f (S depth) r
      | Ok (_, r) => balanced_fuel f depth r
      | _ => None
      end
  end.
Definition balanced_read (d : bytes) : option bytes := balanced_fuel (S (length d)) 1 d.

(* the value that starts with the given (already consumed) id ends where reading it as a token ends *)
Definition value_read (d : bytes) : option bytes :=
  match read_token d with
  | Ok (BOpen, r) => balanced_read r
  | Ok (_, r) => Some r
  | _ => None
  end.
