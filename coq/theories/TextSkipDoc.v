(* C09 (text half), specification side, part 2.  Definitions only.

   [skp_fields d]: the documents (TextDoc) on which the byte skipper of the text TokenReader can
   be expected to land on the document's own matching close: every unquoted piece of text
   (bare words, interpolated expressions, header names, parameter names and parameter values)
   holds none of the four bytes that mean something to the skipper (open brace, close brace,
   double quote, hash: TextSkipRef.sk_special), and quoted content is TextDoc.wf_quo (every
   double quote escaped, no dangling backslash; braces, hashes, escaped quotes, backslashes, line
   feeds are all allowed).  Nothing else is asked: parameter blocks, interpolated expressions,
   bare words starting with a question mark, operators, mixed containers, headers are all in.
   The complement is the refuted class (C09_text_quote_in_word_refuted,
   C09_text_varexpr_brace_refuted): an unquoted token that holds a quote, a brace or a hash. *)
From JV Require Import Bytes Tables TextTok TextReader TextRef TextSkipRef TextTape TextDoc.
Open Scope nat_scope.

Definition sk_clean (u : bytes) : bool := forallb (fun c => negb (sk_special c)) u.

Definition skp_scalar (k : skind) (s : bytes) : bool :=
  match k with Unq => sk_clean s | Quo => wf_quo s end.

Fixpoint skp_value (v : value) : bool :=
  match v with
  | VScalar k s => skp_scalar k s
  | VObject fs tl => skp_fields fs && skp_values tl
  | VArray items => skp_values items
  | VArrayKv items kvs => skp_values items && skp_fields kvs
  | VHeader name v => sk_clean name && skp_value v
  end
with skp_field (f : field) : bool :=
  match f with
  | Field k key op v => skp_scalar k key && skp_value v
  | ParamV name u s => sk_clean name && sk_clean s
  | ParamO name u fs => sk_clean name && skp_fields fs
  end
with skp_fields (fs : fields) : bool :=
  match fs with FNil => true | FCons f fs' => skp_field f && skp_fields fs' end
with skp_values (vs : values) : bool :=
  match vs with VNil => true | VCons v vs' => skp_value v && skp_values vs' end.

(* a layout whose gaps are whitespace and comments; nothing is asked about separators (the
   skipper does not care whether two bare words run together) nor about the byte order mark *)
Definition gaps_ok (l : layout) : Prop := forall i, gap_ok (gap l i).

(* the unquoted tokens of a well-formed document (TextDoc.wf_doc) that are NOT clean: a bare word
   is wf_word (no boundary byte, hence no brace and no hash) so only a double quote inside it
   matters; an interpolated expression may hold anything but a closing bracket *)
Definition unq_clean_scalar (k : skind) (s : bytes) : bool :=
  match k with Unq => sk_clean s | Quo => true end.
Fixpoint uc_value (v : value) : bool :=
  match v with
  | VScalar k s => unq_clean_scalar k s
  | VObject fs tl => uc_fields fs && uc_values tl
  | VArray items => uc_values items
  | VArrayKv items kvs => uc_values items && uc_fields kvs
  | VHeader name v => sk_clean name && uc_value v
  end
with uc_field (f : field) : bool :=
  match f with
  | Field k key op v => unq_clean_scalar k key && uc_value v
  | ParamV name u s => sk_clean name && sk_clean s
  | ParamO name u fs => sk_clean name && uc_fields fs
  end
with uc_fields (fs : fields) : bool :=
  match fs with FNil => true | FCons f fs' => uc_field f && uc_fields fs' end
with uc_values (vs : values) : bool :=
  match vs with VNil => true | VCons v vs' => uc_value v && uc_values vs' end.
