(* text/tape.rs TextToken and text/operator.rs Operator, shared by the tape, DOM, writer, JSON
   and deserializer models. *)
From JV Require Import Bytes.

Inductive operator := LessThan | LessThanEqual | GreaterThan | GreaterThanEqual | NotEqual | Exact | Equal | Exists.

Definition op_symbol (o : operator) : bytes :=
  match o with
  | LessThan => [60] | LessThanEqual => [60; 61] | GreaterThan => [62] | GreaterThanEqual => [62; 61]
  | NotEqual => [33; 61] | Exact => [61; 61] | Equal => [61] | Exists => [63; 61]
  end%N.

Definition op_code (o : operator) : N :=
  match o with
  | LessThan => 0 | LessThanEqual => 1 | GreaterThan => 2 | GreaterThanEqual => 3
  | NotEqual => 4 | Exact => 5 | Equal => 6 | Exists => 7
  end%N.

Inductive ttok :=
| TArray (e : nat) (mixed : bool)
| TObject (e : nat) (mixed : bool)
| TMixedContainer
| TUnquoted (s : bytes)
| TQuoted (s : bytes)
| TParameter (s : bytes)
| TUndefinedParameter (s : bytes)
| TOperator (o : operator)
| TEnd (i : nat)
| THeader (s : bytes).

Definition ttape := list ttok.
