(* Shared conventions: bytes are [N] (< 256 when well formed), outcomes make every
   Rust panic site / unchecked access / fuel exhaustion explicit. *)
From Coq Require Export List NArith ZArith Bool Lia.
Export ListNotations.
Open Scope N_scope.

Definition byte := N.
Definition bytes := list N.

Definition wf_byte (b : N) : Prop := b < 256.
Definition wf_bytes (d : bytes) : Prop := Forall wf_byte d.
Definition wf_byteb (b : N) : bool := b <? 256.
Definition wf_bytesb (d : bytes) : bool := forallb wf_byteb d.

Inductive outcome (A : Type) : Type :=
| Ok (a : A)
| Err (e : N)          (* the error class the property distinguishes *)
| Panic (site : N)     (* a Rust panic site: indexing, unwrap, unreachable!, debug_assert!, overflow *)
| OOB (site : N)       (* an unchecked access outside its allocation *)
| OutOfFuel.
Arguments Ok {A} a.
Arguments Err {A} e.
Arguments Panic {A} site.
Arguments OOB {A} site.
Arguments OutOfFuel {A}.

Definition obind {A B} (x : outcome A) (f : A -> outcome B) : outcome B :=
  match x with
  | Ok a => f a
  | Err e => Err e
  | Panic s => Panic s
  | OOB s => OOB s
  | OutOfFuel => OutOfFuel
  end.

Definition omap {A B} (f : A -> B) (x : outcome A) : outcome B :=
  obind x (fun a => Ok (f a)).

Definition is_ok {A} (x : outcome A) : bool :=
  match x with Ok _ => true | _ => false end.

Definition is_crash {A} (x : outcome A) : bool :=
  match x with Panic _ | OOB _ | OutOfFuel => true | _ => false end.

Notation "'do' x <- a ; b" := (obind a (fun x => b))
  (at level 200, x pattern, a at level 100, b at level 200).

Definition opt_bind {A B} (x : option A) (f : A -> option B) : option B :=
  match x with Some a => f a | None => None end.
Notation "'dopt' x <- a ; b" := (opt_bind a (fun x => b))
  (at level 200, x pattern, a at level 100, b at level 200).

(* d.get(i) *)
Definition bget (d : bytes) (i : nat) : option N := nth_error d i.

Fixpoint beqb (a b : bytes) : bool :=
  match a, b with
  | [], [] => true
  | x :: a', y :: b' => (x =? y) && beqb a' b'
  | _, _ => false
  end.

Definition is_digit (b : N) : bool := (48 <=? b) && (b <=? 57).

(* little-endian word from the first [n] bytes (missing bytes read as 0) *)
Fixpoint le_word (n : nat) (d : bytes) : N :=
  match n with
  | O => 0
  | S n' => match d with
            | [] => 0
            | b :: r => b + 256 * le_word n' r
            end
  end.

Fixpoint word_bytes (n : nat) (w : N) : bytes :=
  match n with
  | O => []
  | S n' => (w mod 256) :: word_bytes n' (w / 256)
  end.

Definition lenN {A} (l : list A) : N := N.of_nat (length l).
