(* common/date.rs, the entry points Date.v leaves out: RawDate::from_binary, derived PartialEq,
   panicking constructors, FromStr, the serde visitors and Serialize.  No proofs here. *)
From JV Require Import Bytes Tables U64Swar Scalar Date.
Open Scope Z_scope.

(* RawDate::from_binary: ExpandedRawDate::from_binary(s).and_then(Self::from_expanded); the hour stays
   the 0-based binary hour (0 = "no hour") *)
Definition raw_from_binary (s : Z) : outcome (option rawdate) :=
  olift (x_from_binary s) (fun x => Ok (raw_from_expanded x)).

(* #[derive(PartialEq, Eq, Hash)] on RawDate { year, data }: both fields *)
Definition raw_eqb (a b : rawdate) : bool := (ry a =? ry b) && (rdata a =? rdata b).

(* from_ymd / from_ymdh: `from_*_opt(..).unwrap()` *)
Definition unwrap_ctor (o : outcome (option rawdate)) : outcome rawdate :=
  do x <- o; match x with Some r => Ok r | None => Panic 1310 end.
Definition date_from_ymd (y m d : Z) := unwrap_ctor (date_from_ymd_opt y m d).
Definition datehour_from_ymdh (y m d h : Z) := unwrap_ctor (datehour_from_ymdh_opt y m d h).
Definition uniform_from_ymd (y m d : Z) := unwrap_ctor (Ok (uniform_from_ymd_opt y m d)).
Definition raw_from_ymdh (y m d h : Z) := unwrap_ctor (Ok (raw_from_ymdh_opt y m d h)).

(* FromStr: Self::parse(s.as_bytes()) *)
Definition date_from_str := date_parse.
Definition datehour_from_str := datehour_parse.
Definition uniform_from_str := uniform_parse.
Definition raw_from_str := raw_parse.

(* serde: deserialize_any with a visitor that has visit_i32 (not UniformDate), visit_str, visit_string;
   every other visit_* is serde's default = Err(invalid type), shown as None *)
Inductive de_input := DeI32 (v : Z) | DeStr (s : bytes) | DeOther.
Definition date_visit (i : de_input) : outcome (option rawdate) :=
  match i with DeI32 v => date_from_binary v | DeStr s => date_parse s | DeOther => Ok None end.
Definition datehour_visit (i : de_input) : outcome (option rawdate) :=
  match i with DeI32 v => datehour_from_binary v | DeStr s => datehour_parse s | DeOther => Ok None end.
Definition uniform_visit (i : de_input) : outcome (option rawdate) :=
  match i with DeStr s => uniform_parse s | _ => Ok None end.

(* Serialize: serialize_str(iso_8601().to_string()); through serde_json that is the quoted text
   (the rendering has no character that JSON escapes) *)
Definition date_ser_json (r : rawdate) : bytes := [34%N] ++ iso_fmt r ++ [34%N].
