(* C18, third part (model, no proofs): the proc-macro jomini_derive/src/lib.rs itself, parametrised by
   the STRUCTURAL FACTS that tools/derive_facts.py reads off its source text into Tables.v.

   DeriveMacro.spec_of_attrs is a hand-written reading of lib.rs (flattened attribute table, fixed
   precedence rules).  Here the input is what `syn` hands the macro for one field (every
   `#[jomini(..)]` attribute list separately, the arguments with their literal kinds, the segments
   of the type path), and every choice the macro makes is a field of [derive_facts]:

     lib.rs                                                           fact                         model
     ---------------------------------------------------------------- ---------------------------- ---------------
     `.filter(|a| a.path.is_ident("jomini"))` in each walker          df_scan_*   (all / first)    scanned
     alias(): `.filter(alias) .. .next()`, binary_token() likewise    df_pick_alias / df_pick_token pick
     can_default(): `.find(|m| m.path().is_ident("default"))`         df_pick_default              default_arg
     can_default(): attribute first, then the Option test             df_default_before_option     can_default
     can_default(): `for segment in x.path.segments` == "Option"      df_option_test               type_is_option
     builder_fields: `if !is_duplicated(f) { if !is_take_last(f) ..`  df_act_* (decision table)    dup_of_raw
     field_extract: `.filter(|x| !is_duplicated(x))`,                 df_extract_skips_duplicated  field_compiles
                    `match can_default(f) { Yes / Path / No }`        df_extract_*                 miss_of_raw
     field_enum_match: `alias(f).unwrap_or_else(|| name)`             df_str_arm                   key_of_raw
     `impl Visitor for __FieldVisitor { visit_str, visit_u16 }`       df_visitor_methods           field_key
     `_ => Ok(__Field::__ignore)` in both, `_ => next_value::<IgnoredAny>` df_*_fallthrough_ignore, df_unknown_value_consumed
     `if token_count > 0 { deserialize_u16 } else { deserialize_identifier }` df_hint_*            key_hint
     `if token_count > 0 && token_count < len { panic! }`             df_partial_tokens_rejected   macro_accepts_raw

   [code_facts] is the record of the values generated from the CURRENT lib.rs, [expected_facts] the
   values the proofs were written for.  The extracted [visit_raw code_facts] is what the stream
   `code_model` runs against the implementation: when a fact changes in lib.rs, Tables.v changes, the
   extracted model follows the code, and the pinned theorems of Props/C18_code.v stop compiling.

   For fact values other than the expected ones the model is a best-effort reading (e.g. an action
   other than push on a duplicated field would not even compile); the theorems are about the
   instantiated model only.

   Assumption of the syntax: every `#[jomini ..]` attribute of a field is of list form `#[jomini(..)]`
   (a bare `#[jomini]` is dropped by `Meta::List(x) => Some(x), _ => None` in all walkers). *)
From JV Require Import Bytes Tables Derive DeriveMacro.
From Coq Require Import Arith.

(* ------------------------------------------------------------------ what syn delivers for a field *)
Inductive lit := LStr (s : bytes) | LInt (n : N) | LOther.
Inductive arg :=
| AWord (name : bytes)                  (* Meta::Path        `duplicated` *)
| ANameValue (name : bytes) (l : lit)   (* Meta::NameValue   `alias = "core"`, `token = 0x10` *)
| AList (name : bytes)                  (* Meta::List        `default(..)` *)
| ALit.                                 (* NestedMeta::Lit   dropped by every walker *)

Record raw_field (V : Type) := mk_raw {
  r_name : bytes;                 (* the field's identifier *)
  r_attrs : list (list arg);      (* one entry per `#[jomini(..)]` attribute of the field, source order *)
  r_type_path : list bytes;       (* idents of the segments of the (ungrouped) type if it is a Type::Path, [] otherwise *)
  r_type_default : V;             (* <FieldType as Default>::default() *)
  r_fn_value : bytes -> V }.      (* what the function named by `default = "path"` returns *)
Arguments mk_raw {V}.
Arguments r_name {V}.
Arguments r_attrs {V}.
Arguments r_type_path {V}.
Arguments r_type_default {V}.
Arguments r_fn_value {V}.

Definition id_duplicated : bytes := [100; 117; 112; 108; 105; 99; 97; 116; 101; 100].
Definition id_take_last : bytes := [116; 97; 107; 101; 95; 108; 97; 115; 116].
Definition id_default : bytes := [100; 101; 102; 97; 117; 108; 116].
Definition id_alias : bytes := [97; 108; 105; 97; 115].
Definition id_token : bytes := [116; 111; 107; 101; 110].
Definition id_Option : bytes := [79; 112; 116; 105; 111; 110].

Definition arg_name (a : arg) : option bytes :=
  match a with AWord n => Some n | ANameValue n _ => Some n | AList n => Some n | ALit => None end.
Definition named (n : bytes) (a : arg) : bool :=
  match arg_name a with Some m => beqb m n | None => false end.

(* `alias = "str"` arguments / `token = int` arguments that parse as u16, in order *)
Definition alias_strs (l : list arg) : list bytes :=
  flat_map (fun a => match a with ANameValue n (LStr s) => if beqb n id_alias then [s] else [] | _ => [] end) l.
Definition token_ints (l : list arg) : list N :=
  flat_map (fun a => match a with ANameValue n (LInt t) => if beqb n id_token && (t <? 65536) then [t] else [] | _ => [] end) l.

(* ------------------------------------------------------------------ the facts *)
Record derive_facts := mk_facts {
  df_scan_duplicated : dv_scan;
  df_scan_take_last : dv_scan;
  df_scan_default : dv_scan;
  df_scan_deserialize_with : dv_scan;     (* not consumed below: deserialize_with changes the value, not the field semantics *)
  df_scan_alias : dv_scan;
  df_scan_token : dv_scan;
  df_pick_alias : dv_pick;
  df_pick_token : dv_pick;
  df_pick_default : dv_pick;
  df_default_before_option : bool;
  df_option_test : dv_opt_test;
  df_act_duplicated : dv_act;             (* duplicated, not take_last *)
  df_act_take_last : dv_act;              (* take_last, not duplicated *)
  df_act_both : dv_act;                   (* both attributes *)
  df_act_plain : dv_act;                  (* neither *)
  df_unknown_value_consumed : bool;
  df_extract_skips_duplicated : bool;
  df_extract_path : dv_extract;
  df_extract_yes : dv_extract;
  df_extract_no : dv_extract;
  df_visitor_methods : list dv_visit;
  df_str_fallthrough_ignore : bool;
  df_u16_fallthrough_ignore : bool;
  df_str_arm : dv_arm;
  df_hint_with_tokens : dv_hint;
  df_hint_without_tokens : dv_hint;
  df_partial_tokens_rejected : bool }.

(* generated from the current jomini_derive/src/lib.rs *)
Definition code_facts : derive_facts :=
  mk_facts dv_scan_duplicated dv_scan_take_last dv_scan_default dv_scan_deserialize_with dv_scan_alias dv_scan_token
           dv_pick_alias dv_pick_token dv_pick_default dv_default_before_option dv_option_test
           dv_builder_duplicated dv_builder_take_last dv_builder_both dv_builder_plain
           dv_unknown_value_consumed dv_extract_skips_duplicated dv_extract_path dv_extract_yes dv_extract_no
           dv_field_visitor_methods dv_str_fallthrough_ignore dv_u16_fallthrough_ignore dv_str_arm
           dv_hint_with_tokens dv_hint_without_tokens dv_partial_tokens_rejected.

(* what the theorems were proved for (jomini 0.27.2 + fix e93cdf0) *)
Definition expected_facts : derive_facts :=
  mk_facts DvScanAll DvScanAll DvScanAll DvScanAll DvScanAll DvScanAll
           DvPickFirst DvPickFirst DvPickFirst true DvOptAnySegment
           DvPush DvOverwrite DvPush DvDupError
           true true DvUnwrapOrElse DvUnwrapOrDefault DvMissingField
           [DvVisitStr; DvVisitU16] true true DvArmAliasElseName
           DvHintU16 DvHintIdentifier true.

Definition visit_code (m : dv_visit) : N :=
  match m with
  | DvVisitStr => 0 | DvVisitBytes => 1 | DvVisitU8 => 2 | DvVisitU16 => 3 | DvVisitU32 => 4 | DvVisitU64 => 5
  | DvVisitI8 => 6 | DvVisitI16 => 7 | DvVisitI32 => 8 | DvVisitI64 => 9 | DvVisitOther => 10
  end.
Definition visit_eqb (a b : dv_visit) : bool := visit_code a =? visit_code b.

(* the key as the deserializer hands it to __FieldVisitor: which Visitor method is called *)
Inductive wire_key :=
| WStr (s : bytes)        (* visit_str: text keys, string keys and resolved token ids in binary *)
| WU16 (t : N)            (* visit_u16: a token id under the deserialize_u16 hint *)
| WVia (m : dv_visit).    (* any other method: integer key tokens in binary (visit_i32 / visit_u32 / visit_u64 / visit_i64) *)

Definition method_of (k : wire_key) : dv_visit :=
  match k with WStr _ => DvVisitStr | WU16 _ => DvVisitU16 | WVia m => m end.

(* serde's default Visitor methods: Error::invalid_type; class `de` of the harness *)
Definition E_KEY : N := 1.

Inductive fallback := FbPath (fn : bytes) | FbYes | FbNo | FbPanic.

Definition policy_of_act (a : dv_act) : dup_policy :=
  match a with DvPush => Duplicated | DvOverwrite => TakeLast | DvDupError => Once end.

Definition pick {A : Type} (m : dv_pick) (l : list A) : option A :=
  match m with DvPickFirst => hd_error l | DvPickLast => hd_error (rev l) end.

Section Code.
  Variable V : Type.
  Variable F : derive_facts.
  Notation raw := (raw_field V).

  (* ---- the walkers ---- *)
  Definition scanned (m : dv_scan) (r : raw) : list arg :=
    match m with
    | DvScanAll => concat (r_attrs r)
    | DvScanFirst => match r_attrs r with l :: _ => l | [] => [] end
    end.

  Definition is_duplicated (r : raw) : bool := existsb (named id_duplicated) (scanned (df_scan_duplicated F) r).
  Definition is_take_last (r : raw) : bool := existsb (named id_take_last) (scanned (df_scan_take_last F) r).
  Definition alias (r : raw) : option bytes := pick (df_pick_alias F) (alias_strs (scanned (df_scan_alias F) r)).
  Definition binary_token (r : raw) : option N := pick (df_pick_token F) (token_ints (scanned (df_scan_token F) r)).

  Definition default_arg (r : raw) : option arg :=
    pick (df_pick_default F) (filter (named id_default) (scanned (df_scan_default F) r)).

  Definition attr_fallback (a : arg) : fallback :=
    match a with
    | ANameValue _ (LStr fn) => FbPath fn
    | ANameValue _ _ => FbPanic            (* panic!("expected default function to be a string") *)
    | _ => FbYes
    end.

  Definition type_is_option (r : raw) : bool :=
    match df_option_test F with
    | DvOptAnySegment => existsb (beqb id_Option) (r_type_path r)
    | DvOptSingleSegment => match r_type_path r with [s] => beqb id_Option s | _ => false end
    | DvOptLastSegment => match rev (r_type_path r) with s :: _ => beqb id_Option s | [] => false end
    end.

  Definition can_default (r : raw) : fallback :=
    if df_default_before_option F then
      match default_arg r with
      | Some a => attr_fallback a
      | None => if type_is_option r then FbYes else FbNo
      end
    else
      if type_is_option r then FbYes
      else match default_arg r with Some a => attr_fallback a | None => FbNo end.

  (* ---- the generated code, per field ---- *)
  Definition act_of (r : raw) : dv_act :=
    match is_duplicated r, is_take_last r with
    | true, true => df_act_both F
    | true, false => df_act_duplicated F
    | false, true => df_act_take_last F
    | false, false => df_act_plain F
    end.
  Definition dup_of_raw (r : raw) : dup_policy := policy_of_act (act_of r).

  Definition apply_extract (e : dv_extract) (fn : option bytes) (r : raw) : miss_policy V :=
    match e with
    | DvMissingField => Required
    | DvUnwrapOrDefault => DefaultTo (r_type_default r)
    | DvUnwrapOrElse => match fn with Some f => DefaultTo (r_fn_value r f) | None => DefaultTo (r_type_default r) end
    end.

  Definition miss_of_raw (r : raw) : miss_policy V :=
    match can_default r with
    | FbPath fn => apply_extract (df_extract_path F) (Some fn) r
    | FbYes => apply_extract (df_extract_yes F) None r
    | FbNo => apply_extract (df_extract_no F) None r
    | FbPanic => Required
    end.

  Definition key_of_raw (r : raw) : bytes :=
    match df_str_arm F with
    | DvArmAliasElseName => match alias r with Some al => al | None => r_name r end
    | DvArmName => r_name r
    end.

  Definition spec_of_raw (r : raw) : field_spec V :=
    mk_field (key_of_raw r) (binary_token r) (dup_of_raw r) (miss_of_raw r).

  (* ---- the struct ---- *)
  Definition has_token_raw (r : raw) : bool := match binary_token r with Some _ => true | None => false end.
  Definition token_count (tbl : list raw) : nat := length (filter has_token_raw tbl).

  (* the macro does not panic on the field and the code generated for it compiles: a duplicated field has
     no `<name>_opt` binding, so field_extract must leave it out *)
  Definition field_compiles (r : raw) : bool :=
    match can_default r with FbPanic => false | _ => true end
    && (negb (is_duplicated r) || df_extract_skips_duplicated F).

  Definition macro_accepts_raw (tbl : list raw) : bool :=
    forallb field_compiles tbl
    && negb (df_partial_tokens_rejected F && Nat.ltb 0 (token_count tbl) && Nat.ltb (token_count tbl) (length tbl)).

  Definition key_hint (tbl : list raw) : dv_hint :=
    if Nat.ltb 0 (token_count tbl) then df_hint_with_tokens F else df_hint_without_tokens F.

  (* ---- __FieldVisitor and the loop ---- *)
  Definition implements (m : dv_visit) : bool := existsb (visit_eqb m) (df_visitor_methods F).

  (* None: the field visitor (or the protocol of the unknown-field arm) fails on this key *)
  Definition field_key (specs : list (field_spec V)) (k : wire_key) : option key :=
    if negb (implements (method_of k)) then None
    else
      let known k' fall :=
        match match_field V specs k' with
        | Some _ => Some k'
        | None => if fall && df_unknown_value_consumed F then Some k' else None
        end in
      match k with
      | WStr s => known (KStr s) (df_str_fallthrough_ignore F)
      | WU16 t => known (KTok t) (df_u16_fallthrough_ignore F)
      | WVia _ => None
      end.

  Fixpoint deliver (specs : list (field_spec V)) (kvs : list (wire_key * outcome V)) : list (key * outcome V) * bool :=
    match kvs with
    | [] => ([], false)
    | (k, r) :: rest =>
      match field_key specs k with
      | Some k' => let '(l, b) := deliver specs rest in ((k', r) :: l, b)
      | None => ([], true)
      end
    end.

  Definition visit_wire (specs : list (field_spec V)) (kvs : list (wire_key * outcome V)) : outcome (list (out V)) :=
    let '(pre, stopped) := deliver specs kvs in
    if stopped then do _ <- visit_loop V specs (init V specs) pre; Err E_KEY
    else visit V specs pre.

  Definition visit_raw (tbl : list raw) (kvs : list (wire_key * outcome V)) : outcome (list (out V)) :=
    visit_wire (map spec_of_raw tbl) kvs.
End Code.

(* ------------------------------------------------------------------ vocabulary of the statements *)
(* the flattened attribute table of DeriveMacro (what props/C18_table.py computes in Python), from the raw syntax *)
Definition attrs_of_raw (V : Type) (r : raw_field V) : field_attrs V :=
  let l := concat (r_attrs r) in
  mk_attrs (r_name r) (alias_strs l) (token_ints l)
    (existsb (named id_duplicated) l) (existsb (named id_take_last) l)
    (existsb (beqb id_Option) (r_type_path r))
    (match find (named id_default) l with
     | Some (ANameValue _ (LStr _)) => DefPath
     | Some _ => DefWord
     | None => DefAbsent
     end)
    (r_type_default r)
    (match find (named id_default) l with
     | Some (ANameValue _ (LStr fn)) => r_fn_value r fn
     | _ => r_type_default r
     end).

Definition wire_of_key (k : key) : wire_key := match k with KStr s => WStr s | KTok t => WU16 t end.
Definition wire_kvs (V : Type) (kvs : list (key * outcome V)) : list (wire_key * outcome V) :=
  map (fun kv => (wire_of_key (fst kv), snd kv)) kvs.
