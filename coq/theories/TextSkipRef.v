(* C09 (text half), specification side.  Definitions only.

   [sk_scan_bytes]  skip_container's scan of one window with the 8-byte SWAR step removed: the
                    byte loop of text/reader.rs, same states, same refill points.
   [sref]/[skip_ref] the same byte loop WITHOUT windows: a structural scan of the whole remaining
                    input.  States are TextReader.skst: SkNone counts braces and enters SkQuote at
                    a double quote and SkComment at '#'; SkQuote leaves at an unescaped double
                    quote, a backslash steps over the next byte; SkComment leaves after LF.
                    [skip_ref s] = Some n: the '}' that brings the depth from 1 to 0 is byte n-1.
   [skip_need]      the buffer the streaming skipper needs: 3 when it ever stands on a backslash
                    inside a quote (the `end - ptr <= 2` look-ahead of the Quote state keeps the
                    backslash and the two bytes after it in the window), 1 otherwise.
   [tok_count]      the property's own wording: read tokens with the reference tokenizer
                    (TextRef.tk), count Open and Close, stop after the Close that brings the
                    depth to 0; returns the tokens read on the way and the remaining input.
   [uv_ref]         skip_unquoted_value without windows. *)
From JV Require Import Bytes Tables U64Swar BufWin TextTok TextReader TextRef.
Open Scope nat_scope.

(* ---- the window scan without the SWAR step ---- *)
Fixpoint sk_scan_bytes (fuel : nat) (w : bytes) (ptr : nat) (st : skst) (depth : Z) : skres :=
  match fuel with
  | O => SkCrash 7030%N
  | S f =>
    match st with
    | SkNone =>
        match nth_error w ptr with
        | None => SkRefill ptr SkNone depth
        | Some c =>
            if b_is c 123 then sk_scan_bytes f w (S ptr) SkNone (depth + 1)%Z
            else if b_is c 125 then
              if (depth - 1 =? 0)%Z then SkDone (S ptr) else sk_scan_bytes f w (S ptr) SkNone (depth - 1)%Z
            else if b_is c 34 then sk_scan_bytes f w (S ptr) SkQuote depth
            else if b_is c 35 then sk_scan_bytes f w (S ptr) SkComment depth
            else sk_scan_bytes f w (S ptr) SkNone depth
        end
    | SkQuote =>
        match nth_error w ptr with
        | None => SkRefill ptr SkQuote depth
        | Some c =>
            if b_is c 92 then
              if Nat.leb (length w - ptr) 2 then SkRefill ptr SkQuote depth
              else sk_scan_bytes f w (ptr + 2) SkQuote depth
            else if b_is c 34 then sk_scan_bytes f w (S ptr) SkNone depth
            else sk_scan_bytes f w (S ptr) SkQuote depth
        end
    | SkComment =>
        match nth_error w ptr with
        | None => SkRefill ptr SkComment depth
        | Some c =>
            if b_is c 10 then sk_scan_bytes f w (S ptr) SkNone depth
            else sk_scan_bytes f w (S ptr) SkComment depth
        end
    end
  end.

(* ---- the byte-level reference ---- *)
(* [k] = number of bytes already scanned; the result counts from the start of the scan *)
Fixpoint sref (s : bytes) (st : skst) (depth : Z) (k : nat) : option nat :=
  match s with
  | [] => None
  | c :: s' =>
    match st with
    | SkNone =>
        if b_is c 123 then sref s' SkNone (depth + 1)%Z (S k)
        else if b_is c 125 then
          if (depth - 1 =? 0)%Z then Some (S k) else sref s' SkNone (depth - 1)%Z (S k)
        else if b_is c 34 then sref s' SkQuote depth (S k)
        else if b_is c 35 then sref s' SkComment depth (S k)
        else sref s' SkNone depth (S k)
    | SkQuote =>
        if b_is c 92 then
          match s' with
          | [] => None
          | _ :: s'' => sref s'' SkQuote depth (S (S k))
          end
        else if b_is c 34 then sref s' SkNone depth (S k)
        else sref s' SkQuote depth (S k)
    | SkComment =>
        if b_is c 10 then sref s' SkNone depth (S k)
        else sref s' SkComment depth (S k)
    end
  end.

Definition skip_ref (s : bytes) : option nat := sref s SkNone 1%Z 0.

(* does the scan, before it finishes, stand on a backslash inside a quote?  (then the streaming
   skipper needs a window of 3 bytes to step over it) *)
Fixpoint sesc (s : bytes) (st : skst) (depth : Z) : bool :=
  match s with
  | [] => false
  | c :: s' =>
    match st with
    | SkNone =>
        if b_is c 123 then sesc s' SkNone (depth + 1)%Z
        else if b_is c 125 then
          if (depth - 1 =? 0)%Z then false else sesc s' SkNone (depth - 1)%Z
        else if b_is c 34 then sesc s' SkQuote depth
        else if b_is c 35 then sesc s' SkComment depth
        else sesc s' SkNone depth
    | SkQuote =>
        if b_is c 92 then true
        else if b_is c 34 then sesc s' SkNone depth
        else sesc s' SkQuote depth
    | SkComment =>
        if b_is c 10 then sesc s' SkNone depth
        else sesc s' SkComment depth
    end
  end.

Definition skip_need (s : bytes) : nat := if sesc s SkNone 1%Z then 3 else 1.

(* ---- token counting with the reference tokenizer ---- *)
(* after an Open (so never at the start of the stream: start = false); depth >= 1 *)
Fixpoint tok_count (fuel : nat) (depth : nat) (s : bytes) : option (list rtok * bytes) :=
  match fuel with
  | O => None
  | S f =>
    match fst (tk false s) with
    | RTok ROpen s' =>
        match tok_count f (S depth) s' with Some (l, r) => Some (ROpen :: l, r) | None => None end
    | RTok RClose s' =>
        if Nat.leb depth 1 then Some ([RClose], s')
        else match tok_count f (depth - 1) s' with Some (l, r) => Some (RClose :: l, r) | None => None end
    | RTok t s' =>
        match tok_count f depth s' with Some (l, r) => Some (t :: l, r) | None => None end
    | REnd => None
    | REof _ => None
    end
  end.
Definition token_skip (s : bytes) : option (list rtok * bytes) := tok_count (S (length s)) 1 s.

(* bytes that mean something to the byte skipper *)
Definition sk_special (c : N) : bool := b_is c 123 || b_is c 125 || b_is c 34 || b_is c 35.
(* an unquoted token is transparent for the skipper when it holds none of them.  Open, Close,
   operators and quoted scalars always are (the skipper has the tokenizer's notion of a quoted
   scalar). *)
Definition tok_plain (t : rtok) : bool :=
  match t with
  | RUnq u => forallb (fun c => negb (sk_special c)) u
  | _ => true
  end.

(* ---- skip_unquoted_value without windows ---- *)
(* number of leading bytes that are whitespace or comments, and what follows:
   UvOpen n   a '{' at offset n (the container is skipped next)
   UvStop n   another byte at offset n (nothing but whitespace and comments is consumed)
   UvEnd      the input ends in whitespace or inside a comment (everything is consumed) *)
Inductive uvres := UvOpen (n : nat) | UvStop (n : nat) | UvEnd.
Fixpoint uv_scan (s : bytes) (in_comment : bool) (k : nat) : uvres :=
  match s with
  | [] => UvEnd
  | c :: s' =>
      if in_comment then uv_scan s' (negb (b_is c 10)) (S k)
      else if b_is c 123 then UvOpen k
      else if is_ws c then uv_scan s' false (S k)
      else if b_is c 35 then uv_scan s' true (S k)
      else UvStop k
  end.
(* Some n = n bytes consumed; None = Eof inside the container *)
Definition uv_ref (s : bytes) : option nat :=
  match uv_scan s false 0 with
  | UvOpen n => match skip_ref (skipn (S n) s) with Some m => Some (S n + m) | None => None end
  | UvStop n => Some n
  | UvEnd => Some (length s)
  end.

(* ---- documents (TextDoc) ---- *)
From JV Require TextTape TextDoc.

(* counting the Open / Close tokens of a rendering's own token list (TextDoc.toks_fields): the tokens
   that follow the Close matching an Open seen [depth] levels up *)
Definition is_lb (t : TextDoc.rtok) : bool := match fst t with [c] => N.eqb c 123 | _ => false end.
Definition is_rb (t : TextDoc.rtok) : bool := match fst t with [c] => N.eqb c 125 | _ => false end.
Fixpoint match_close (depth : nat) (ts : list TextDoc.rtok) : option (list TextDoc.rtok) :=
  match ts with
  | [] => None
  | t :: ts' =>
      if is_lb t then match_close (S depth) ts'
      else if is_rb t then (if Nat.leb depth 1 then Some ts' else match_close (depth - 1) ts')
      else match_close depth ts'
  end.

(* documents on which byte skipping and token counting provably agree: no parameter blocks, no
   interpolated expressions; bare words are TextDoc.wf_word, hold no double quote (nor brace nor
   hash: these are boundary bytes anyway) and do not start with '?' (the token reader would split
   "?x" into an operator and a word); quoted content is TextDoc.wf_quo *)
Definition simple_word (u : bytes) : bool :=
  TextDoc.wf_word u && forallb (fun c => negb (sk_special c)) u &&
  match u with c :: _ => negb (N.eqb c 63) | [] => false end.
Definition simple_scalar (k : TextDoc.skind) (s : bytes) : bool :=
  match k with TextDoc.Unq => simple_word s | TextDoc.Quo => TextDoc.wf_quo s end.

Fixpoint simple_value (v : TextDoc.value) : bool :=
  match v with
  | TextDoc.VScalar k s => simple_scalar k s
  | TextDoc.VObject fs tl => simple_fields fs && simple_values tl
  | TextDoc.VArray items => simple_values items
  | TextDoc.VArrayKv items kvs => simple_values items && simple_fields kvs
  | TextDoc.VHeader name v => simple_word name && simple_value v
  end
with simple_field (f : TextDoc.field) : bool :=
  match f with
  | TextDoc.Field k key op v => simple_scalar k key && simple_value v
  | _ => false
  end
with simple_fields (fs : TextDoc.fields) : bool :=
  match fs with TextDoc.FNil => true | TextDoc.FCons f fs' => simple_field f && simple_fields fs' end
with simple_values (vs : TextDoc.values) : bool :=
  match vs with TextDoc.VNil => true | TextDoc.VCons v vs' => simple_value v && simple_values vs' end.
