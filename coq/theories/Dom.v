(* text/dom.rs: ObjectReader / ArrayReader / ValueReader / ScalarReader, FieldsIter, ValuesIter,
   FieldGroupsIter, remainder, read_object / read_array / read_scalar / read_str, size hints.
   Readers are index windows over one token list; every `tokens[i]`, `unwrap`, usize underflow and
   `debug_assert!` of the Rust code is an explicit Panic site; `while` loops run on fuel.
   No proofs here (proofs/DomProofs.v). *)
From JV Require Import Bytes TextTok TapeWf.
Open Scope nat_scope.

(* ---------------------------------------------------------------- panic sites *)
Definition P_next_idx_header : N := 1701.   (* tokens[idx] in next_idx_header *)
Definition P_next_idx : N := 1702.          (* tokens[idx] in next_idx *)
Definition P_next_idx_values : N := 1703.   (* tokens[idx] in next_idx_values *)
Definition P_fields_len_key : N := 1704.    (* tokens[key_ind] in fields_len *)
Definition P_fields_len_op : N := 1705.     (* tokens[key_ind + 1] in fields_len *)
Definition P_fields_next_key : N := 1706.   (* self.tokens[key_ind] in FieldsIter::next *)
Definition P_fields_next_op : N := 1707.    (* self.tokens[key_ind + 1] in FieldsIter::next *)
Definition P_fields_debug_assert : N := 1708. (* debug_assert!(false, "All keys should be scalars") *)
Definition P_value_token : N := 1709.       (* self.tokens[self.value_ind] in ValueReader *)
Definition P_tokens_len : N := 1710.        (* usize underflow in tokens_len *)
Definition P_hang : N := 1711.              (* a `while` loop that cannot make progress *)

Definition tok_at (site : N) (t : ttape) (i : nat) : outcome ttok :=
  match tget t i with Some k => Ok k | None => Panic site end.

(* ---------------------------------------------------------------- index arithmetic *)
Definition next_idx_header (t : ttape) (idx : nat) : outcome nat :=
  do k <- tok_at P_next_idx_header t idx;
  match k with
  | TArray e _ | TObject e _ => Ok (S e)
  | TOperator _ | TMixedContainer => Ok (idx + 2)
  | _ => Ok (S idx)
  end.

(* next_idx recurses through operator tokens; structural on the token suffix [skipn idx t] *)
Fixpoint next_idx_suffix (t : ttape) (suffix : list ttok) (idx : nat) : outcome nat :=
  match suffix with
  | [] => Panic P_next_idx
  | k :: rest =>
      match k with
      | TArray e _ | TObject e _ => Ok (S e)
      | TOperator _ => next_idx_suffix t rest (S idx)
      | THeader _ => next_idx_header t (S idx)
      | _ => Ok (S idx)
      end
  end.

Definition next_idx (t : ttape) (idx : nat) : outcome nat :=
  next_idx_suffix t (skipn idx t) idx.

Definition next_idx_values (t : ttape) (idx : nat) : outcome nat :=
  do k <- tok_at P_next_idx_values t idx;
  match k with
  | TArray e _ | TObject e _ => Ok (S e)
  | _ => Ok (S idx)
  end.

(* fn fields_len(tokens, start_ind, end_ind) *)
Fixpoint fields_len_loop (fuel : nat) (t : ttape) (ind end_ind count : nat) : outcome nat :=
  match fuel with
  | O => OutOfFuel
  | S f =>
      if Nat.ltb ind end_ind then
        do k <- tok_at P_fields_len_key t ind;
        match k with
        | TMixedContainer => Ok count
        | _ =>
            do k1 <- tok_at P_fields_len_op t (S ind);
            let value_ind := match k1 with TOperator _ => ind + 2 | _ => ind + 1 end in
            do n <- next_idx t value_ind;
            fields_len_loop f t n end_ind (S count)
        end
      else Ok count
  end.

Definition loop_fuel (t : ttape) : nat := S (S (length t)).

Definition fields_len (t : ttape) (start_ind end_ind : nat) : outcome nat :=
  fields_len_loop (loop_fuel t) t start_ind end_ind 0.

Fixpoint values_len_loop (fuel : nat) (t : ttape) (ind end_ind count : nat) : outcome nat :=
  match fuel with
  | O => OutOfFuel
  | S f =>
      if Nat.ltb ind end_ind then
        do n <- next_idx_values t ind;
        values_len_loop f t n end_ind (S count)
      else Ok count
  end.

Definition values_len (t : ttape) (start_ind end_ind : nat) : outcome nat :=
  values_len_loop (loop_fuel t) t start_ind end_ind 0.

(* ---------------------------------------------------------------- readers *)
Record oreader := mk_oreader { o_start : nat; o_end : nat }.
Record areader := mk_areader { a_start : nat; a_end : nat }.
(* a ValueReader is its value_ind; a ScalarReader is the key token *)
Record field := mk_field { f_key : ttok; f_op : option operator; f_val : nat }.

Definition top_reader (t : ttape) : oreader := mk_oreader 0 (length t).

Definition tok_bytes (k : ttok) : bytes :=
  match k with
  | TUnquoted s | TQuoted s | TParameter s | TUndefinedParameter s | THeader s => s
  | _ => []
  end.

(* FieldsIter::next: [Ok None] = iterator exhausted; the new token_ind is returned with the item.
   [dbg] = built with debug assertions *)
Definition fields_next (dbg : bool) (t : ttape) (token_ind end_ind : nat) : outcome (option (field * nat)) :=
  if Nat.leb end_ind token_ind then Ok None
  else
    do k <- tok_at P_fields_next_key t token_ind;
    match k with
    | TMixedContainer => Ok None
    | TQuoted _ | TUnquoted _ | TParameter _ | TUndefinedParameter _ =>
        do k1 <- tok_at P_fields_next_op t (S token_ind);
        let '(op, value_ind) :=
          match k1 with TOperator o => (Some o, token_ind + 2) | _ => (None, token_ind + 1) end in
        do n <- next_idx t value_ind;
        Ok (Some (mk_field k op value_ind, n))
    | _ => if dbg then Panic P_fields_debug_assert else Ok None
    end.

(* draining the iterator: the items and the final token_ind (which `remainder` looks at) *)
Fixpoint fields_drain (fuel : nat) (dbg : bool) (t : ttape) (token_ind end_ind : nat) : outcome (list field * nat) :=
  match fuel with
  | O => OutOfFuel
  | S f =>
      do r <- fields_next dbg t token_ind end_ind;
      match r with
      | None => Ok ([], token_ind)
      | Some (fd, n) =>
          do (l, last) <- fields_drain f dbg t n end_ind;
          Ok (fd :: l, last)
      end
  end.

Definition fields_all (dbg : bool) (t : ttape) (r : oreader) : outcome (list field * nat) :=
  fields_drain (loop_fuel t) dbg t (o_start r) (o_end r).

(* FieldsIter::size_hint().0 at token_ind *)
Definition fields_size_hint (t : ttape) (token_ind end_ind : nat) : outcome nat :=
  fields_len t token_ind end_ind.

(* FieldsIter::remainder at token_ind *)
Definition remainder (t : ttape) (token_ind end_ind : nat) : areader :=
  let start :=
    match tget t token_ind with
    | Some TMixedContainer => S token_ind
    | Some (TEnd y) =>
        match tget t y with
        | Some (TArray _ _) => S y
        | _ => token_ind
        end
    | Some _ => token_ind
    | None => end_ind
    end in
  mk_areader start end_ind.

(* ValuesIter *)
Fixpoint values_drain (fuel : nat) (t : ttape) (token_ind end_ind : nat) : outcome (list nat) :=
  match fuel with
  | O => OutOfFuel
  | S f =>
      if Nat.ltb token_ind end_ind then
        do n <- next_idx_values t token_ind;
        do l <- values_drain f t n end_ind;
        Ok (token_ind :: l)
      else Ok []
  end.

Definition values_all (t : ttape) (r : areader) : outcome (list nat) :=
  values_drain (loop_fuel t) t (a_start r) (a_end r).

Definition array_len (t : ttape) (r : areader) : outcome nat :=
  values_len t (a_start r) (a_end r).

Definition array_is_empty (t : ttape) (r : areader) : outcome bool :=
  do n <- array_len t r; Ok (Nat.eqb n 0).

(* tokens_len: end_ind - start_ind on usize *)
Definition sub_usize (a b : nat) : outcome nat :=
  if Nat.ltb a b then Panic P_tokens_len else Ok (a - b).

Definition object_tokens_len (r : oreader) : outcome nat := sub_usize (o_end r) (o_start r).
Definition array_tokens_len (r : areader) : outcome nat := sub_usize (a_end r) (a_start r).

(* ---------------------------------------------------------------- ValueReader *)
Definition value_token (t : ttape) (v : nat) : outcome ttok := tok_at P_value_token t v.

Definition value_tokens_len (t : ttape) (v : nat) : outcome nat :=
  do k <- value_token t v;
  match k with
  | TArray e _ | TObject e _ => do d <- sub_usize e v; sub_usize d 1
  | _ => Ok 1
  end.

(* errors of the reader API: 1 = not a scalar, 2 = not a string, 3 = not an object, 4 = not an array *)
Definition E_not_scalar : N := 1.
Definition E_not_string : N := 2.
Definition E_not_object : N := 3.
Definition E_not_array : N := 4.

Definition read_scalar (t : ttape) (v : nat) : outcome bytes :=
  do k <- value_token t v;
  match k with
  | THeader s | TUnquoted s | TQuoted s | TParameter s | TUndefinedParameter s => Ok s
  | _ => Err E_not_scalar
  end.

(* raw_str / read_str / read_string; [dec] is Encoding::decode *)
Definition read_str (dec : bytes -> bytes) (t : ttape) (v : nat) : outcome bytes :=
  do k <- value_token t v;
  match k with
  | THeader s | TUnquoted s | TQuoted s | TParameter s | TUndefinedParameter s => Ok (dec s)
  | TOperator o => Ok (op_symbol o)
  | _ => Err E_not_string
  end.

Definition read_object (t : ttape) (v : nat) : outcome oreader :=
  do k <- value_token t v;
  match k with
  | TObject e _ => Ok (mk_oreader (S v) e)
  | TArray e _ => Ok (mk_oreader e e)
  | _ => Err E_not_object
  end.

(* the `while tokens.get(start_ind) != Some(MixedContainer)` scan of read_array *)
Fixpoint find_mixed (fuel : nat) (t : ttape) (start_ind : nat) : outcome nat :=
  match fuel with
  | O => OutOfFuel
  | S f =>
      match tget t start_ind with
      | Some TMixedContainer => Ok start_ind
      | _ => do n <- next_idx t start_ind; find_mixed f t n
      end
  end.

Definition read_array (t : ttape) (v : nat) : outcome areader :=
  do k <- value_token t v;
  match k with
  | TObject e true =>
      do m <- find_mixed (loop_fuel t) t (S v);
      Ok (mk_areader (S m) e)
  | TArray e _ | TObject e _ => Ok (mk_areader (S v) e)
  | THeader _ => do n <- next_idx t (S v); Ok (mk_areader v n)
  | _ => Err E_not_array
  end.

(* ---------------------------------------------------------------- FieldGroupsIter *)
(* HashMap<&[u8], Vec<(op, value)>> as an association list in first-insertion order (the order
   is not observable in the Rust code: entries are only looked up and removed by key). *)
Definition opval := (option operator * nat)%type.
Definition gmap := list (bytes * list opval).

Fixpoint gmap_push (m : gmap) (key : bytes) (ov : opval) : gmap :=
  match m with
  | [] => [(key, [])]                                  (* Entry::Vacant: insert(Vec::new()) *)
  | (k, vs) :: rest =>
      if beqb k key then (k, vs ++ [ov]) :: rest       (* Entry::Occupied: push *)
      else (k, vs) :: gmap_push rest key ov
  end.

Fixpoint gmap_remove (m : gmap) (key : bytes) : option (list opval * gmap) :=
  match m with
  | [] => None
  | (k, vs) :: rest =>
      if beqb k key then Some (vs, rest)
      else match gmap_remove rest key with
           | Some (r, rest') => Some (r, (k, vs) :: rest')
           | None => None
           end
  end.

Definition gmap_build (fs : list field) : gmap :=
  fold_left (fun m fd => gmap_push m (tok_bytes (f_key fd)) (f_op fd, f_val fd)) fs [].

(* One((op, value)) / Multiple(entries) are both a non-empty list here; [groups_run] also records
   size_hint().0 = key_indices.len() before each call of next *)
Record group := mk_group { g_key : ttok; g_vals : list opval }.

Fixpoint groups_run (fs : list field) (m : gmap) : list group :=
  match fs with
  | [] => []
  | fd :: rest =>
      match gmap_remove m (tok_bytes (f_key fd)) with
      | Some (entries, m') => mk_group (f_key fd) ((f_op fd, f_val fd) :: entries) :: groups_run rest m'
      | None => groups_run rest m
      end
  end.

Definition field_groups (dbg : bool) (t : ttape) (r : oreader) : outcome (list group * nat * nat) :=
  do (fs, _) <- fields_all dbg t r;           (* FieldGroupsIter::new: first pass *)
  let m := gmap_build fs in
  do (fs2, last) <- fields_all dbg t r;       (* the iterator's own FieldsIter *)
  Ok (groups_run fs2 m, length m, last).

(* ---------------------------------------------------------------- everything observable of one node *)
(* the nodes the API hands out for the token at [v] (or the whole tape): used by the
   correspondence stream `dom.node` *)
Record obj_view := mk_obj_view {
  ov_fields_len : nat; ov_hint : nat; ov_fields : list field; ov_last : nat;
  ov_rem : list nat; ov_rem_len : nat; ov_rem_tokens : nat;
  ov_groups : list group; ov_ghint : nat; ov_tokens : nat }.

Definition object_view (dbg : bool) (t : ttape) (r : oreader) : outcome obj_view :=
  do fl <- fields_len t (o_start r) (o_end r);
  do hint <- fields_size_hint t (o_start r) (o_end r);
  do (fs, last) <- fields_all dbg t r;
  let rem := remainder t last (o_end r) in
  do rv <- values_all t rem;
  do rl <- array_len t rem;
  do rt <- array_tokens_len rem;
  do (gs, gh, _) <- field_groups dbg t r;
  do tl <- object_tokens_len r;
  Ok (mk_obj_view fl hint fs last rv rl rt gs gh tl).

Record arr_view := mk_arr_view { av_len : nat; av_values : list nat; av_tokens : nat }.

Definition array_view (t : ttape) (r : areader) : outcome arr_view :=
  do n <- array_len t r;
  do vs <- values_all t r;
  do tl <- array_tokens_len r;
  Ok (mk_arr_view n vs tl).

(* ---------------------------------------------------------------- specification of grouping *)
Definition field_kb (f : field) : bytes := tok_bytes (f_key f).
Definition field_ov (f : field) : opval := (f_op f, f_val f).
Definition mem_key (k : bytes) (seen : list bytes) : bool := existsb (beqb k) seen.

(* the fields whose raw key has not occurred before, in order *)
Fixpoint first_fields (seen : list bytes) (fs : list field) : list field :=
  match fs with
  | [] => []
  | f :: r =>
      if mem_key (field_kb f) seen then first_fields seen r
      else f :: first_fields (field_kb f :: seen) r
  end.

(* all (operator, value) pairs of the fields with raw key [k], in order *)
Definition vals_of (k : bytes) (fs : list field) : list opval :=
  map field_ov (filter (fun f => beqb (field_kb f) k) fs).

Definition groups_spec (fs : list field) : list group :=
  map (fun f => mk_group (f_key f) (vals_of (field_kb f) fs)) (first_fields [] fs).
