(* util.rs: SWAR helpers on u64, bit-exact ([N] modulo 2^64). Constants come from Tables.v. *)
From JV Require Import Bytes Tables.
Open Scope N_scope.

Definition W64 : N := 18446744073709551616. (* 2^64 *)
Definition w64 (x : N) : N := x mod W64.
Definition wadd (a b : N) : N := w64 (a + b).
Definition wsub (a b : N) : N := w64 (a + W64 - w64 b).
Definition wmul (a b : N) : N := w64 (a * b).
Definition wnot (a : N) : N := W64 - 1 - w64 a.
Definition wshl (a : N) (k : N) : N := w64 (N.shiftl a k).
Definition wshr (a : N) (k : N) : N := N.shiftr a k.

(* u64::trailing_zeros *)
Fixpoint tz_fuel (fuel : nat) (x : N) : N :=
  match fuel with
  | O => 0
  | S f => if N.even x then 1 + tz_fuel f (x / 2) else 0
  end.
Definition trailing_zeros (x : N) : N := if x =? 0 then 64 else tz_fuel 64 x.

Definition le_u64 (d : bytes) : N := le_word 8 d.

Definition fast_digit_parse (val : N) : option N :=
  let is_digits :=
    N.lor (N.land val fdp_mask_hi)
          (wshr (N.land (wadd val fdp_add6) fdp_mask_hi) 4) =? fdp_threes in
  if negb is_digits then None
  else
    let v := wshr (wmul (N.land val fdp_mask_lo) fdp_mul1) 8 in
    let v := wshr (wmul (N.land v fdp_mask2) fdp_mul2) 16 in
    let v := wshr (wmul (N.land v fdp_mask3) fdp_mul3) 32 in
    Some v.

Definition repeat_byte (b : N) : N := wmul b (u64_max / 255).

Definition contains_zero_byte (x : N) : bool :=
  negb (N.land (N.land (wsub x czb_lo) (wnot x)) czb_hi =? 0).

Definition bytewise_equal (lhs rhs : N) : N :=
  let lo := u64_max / 255 in
  let hi := wshl lo 7 in
  let x := N.lxor lhs rhs in
  N.land (wnot (wshr (N.lor (wadd (N.land x (wnot hi)) (wnot hi)) x) 7)) lo.

Definition sum_usize (values : N) : N :=
  let eob_lo := u64_max / 65535 in
  let eob := wmul eob_lo 255 in
  let pair_sum := wadd (N.land values eob) (N.land (wshr values 8) eob) in
  wshr (wmul pair_sum eob_lo) 48.

Definition count_chunk (value b : N) : N := sum_usize (bytewise_equal value (repeat_byte b)).

(* high bit of every non-zero lane (no carries between lanes: (x & 0x7f) + 0x7f <= 0xfe) *)
Definition nonzero_lanes (x : N) : N :=
  let lo7 := repeat_byte 127 in
  N.land (N.lor (wadd (N.land x lo7) lo7) x) (repeat_byte 128).

Definition leading_whitespace (value : N) : N :=
  let res1 := N.lxor value (repeat_byte lw_byte1) in
  let res2 := N.lxor value (repeat_byte lw_byte2) in
  N.shiftr (trailing_zeros (N.land (nonzero_lanes res1) (nonzero_lanes res2))) 3.
