(* text/tape.rs: scanners (SSE2 block walk + byte-wise fallbacks) and the five-state tape parser,
   modelled literally.  Every `[]` index, `len() - k` and `insert` is an explicit Panic site. *)
From JV Require Import Bytes Tables TextTok.
Open Scope nat_scope.

Definition E_TextErr : N := 120%N.   (* C01/C06 only distinguish accepted / rejected *)

Definition beq (c : N) (x : N) : bool := N.eqb c x.
Definition is_ws_t (c : N) : bool := beq c 32 || beq c 9 || beq c 10 || beq c 13 || beq c 59.

(* skip_ws_t: Some rest (non-empty, starting at the first significant byte) or None at end of data *)
Fixpoint skip_ws_c (in_comment : bool) (d : bytes) : option bytes :=
  match d with
  | [] => None
  | c :: r =>
      if in_comment then (if beq c 10 then skip_ws_c false r else skip_ws_c true r)
      else if is_ws_t c then skip_ws_c false r
      else if beq c 35 then skip_ws_c true r
      else Some d
  end.
Definition skip_ws_t (d : bytes) : option bytes := skip_ws_c false d.

Fixpoint find_idx (p : N -> bool) (l : bytes) (k : nat) : option nat :=
  match l with
  | [] => None
  | c :: l' => if p c then Some k else find_idx p l' (S k)
  end.

Definition in_set (s : list N) (b : N) : bool := existsb (N.eqb b) s.

(* ---- split_at_scalar ---- *)
(* the SSE2 loop: blocks of 16 at ptr = 0, 16, .. while ptr < len - min(16, len) *)
Fixpoint simd_scan (fuel : nat) (d : bytes) (ptr : nat) : option nat :=
  match fuel with
  | O => None
  | S f =>
      if Nat.ltb ptr (length d - Nat.min 16 (length d)) then
        match find_idx (in_set simd_boundary_bytes) (firstn 16 (skipn ptr d)) ptr with
        | Some i => Some i
        | None => simd_scan f d (ptr + 16)
        end
      else None
  end.

Definition split_at_scalar_fallback_idx (d : bytes) : nat :=
  Nat.max (match find_idx is_boundary d 0 with Some i => i | None => length d end) 1.

Definition split_idx (d : bytes) : nat :=
  match simd_scan (S (length d)) d 0 with
  | Some i => Nat.max i 1
  | None => split_at_scalar_fallback_idx d
  end.

(* d.split_at(ind) panics when ind > len, i.e. exactly when d is empty *)
Definition split_at_scalar (d : bytes) : outcome (bytes * bytes) :=
  match d with
  | [] => Panic 3001%N
  | _ => let i := split_idx d in Ok (firstn i d, skipn i d)
  end.

(* ---- parse_quote_scalar ---- *)
Fixpoint tq_scan (l : bytes) (k : nat) : option nat :=
  match l with
  | [] => None
  | c :: l' =>
      if beq c 92 then match l' with [] => None | _ :: l'' => tq_scan l'' (S (S k)) end
      else if beq c 34 then Some k
      else tq_scan l' (S k)
  end.

(* blocks of 16 over the haystack while ptr < len/16*16: inl i = quote at i, inr tt = use the fallback *)
Fixpoint pq_simd (fuel : nat) (h : bytes) (ptr : nat) : option nat :=
  match fuel with
  | O => None
  | S f =>
      if Nat.ltb ptr (length h / 16 * 16) then
        let blk := firstn 16 (skipn ptr h) in
        if existsb (fun b => beq b 92) blk then None
        else match find_idx (fun b => beq b 34) blk ptr with
             | Some i => Some i
             | None => pq_simd f h (ptr + 16)
             end
      else None
  end.

(* d starts with the opening quote *)
Definition parse_quote_scalar (d : bytes) : outcome (bytes * bytes) :=
  match d with
  | [] => Panic 3002%N
  | _ :: h =>
      match pq_simd (S (length h)) h 0 with
      | Some i => Ok (firstn i h, skipn (S i) h)
      | None =>
          match tq_scan h 0 with
          | Some i => Ok (firstn i h, skipn (S i) h)
          | None => Err E_TextErr
          end
      end
  end.

(* ---- parse_variable: d starts with '@' ---- *)
Definition parse_variable (d : bytes) : outcome (bytes * bytes) :=
  match d with
  | _ :: c1 :: r =>
      if beq c1 91 then
        match find_idx (fun b => beq b 93) r 2 with
        | Some pos => Ok (firstn (S pos) d, skipn (S pos) d)
        | None => Err E_TextErr
        end
      else split_at_scalar d
  | _ => split_at_scalar d
  end.

(* ---- tape helpers ---- *)
Definition tget (t : ttape) (i : nat) : option ttok := nth_error t i.
Fixpoint tset (t : ttape) (i : nat) (x : ttok) : option ttape :=
  match t, i with
  | [], _ => None
  | _ :: r, O => Some (x :: r)
  | a :: r, S i' => match tset r i' x with Some r' => Some (a :: r') | None => None end
  end.
Definition tpush (t : ttape) (x : ttok) : ttape := t ++ [x].
(* Vec::insert(len - 1, x) *)
Definition tinsert_before_last (t : ttape) (x : ttok) : option ttape :=
  match length t with
  | O => None
  | S n => Some (firstn n t ++ x :: skipn n t)
  end.
Definition tlast (t : ttape) : option ttok := nth_error t (length t - 1).

(* the `match token_tape.get(i) { Array{end}/Object{end} => end, _ => 0 }` idiom *)
Definition slot (t : ttape) (i : nat) : nat :=
  match tget t i with
  | Some (TArray e _) => e
  | Some (TObject e _) => e
  | _ => 0
  end.

Inductive pst := SKey | SKvs | SObjVal | SArrVal | SOpen.

Record pstate := mkps { pdata : bytes; pst_ : pst; pmixed : bool; pparent : nat; ptape : ttape }.

(* state / mixed_mode restored from the grand-parent when a container closes *)
Definition restore (t : ttape) (grand : nat) : pst * bool :=
  match tget t grand with
  | Some (TArray _ m) => (SArrVal, m)
  | Some (TObject _ m) => (if m then SArrVal else SKey, m)
  | _ => (SKey, false)
  end.

Definition is_scalar_tok (x : ttok) : bool :=
  match x with
  | THeader _ | TUnquoted _ | TQuoted _ | TParameter _ | TUndefinedParameter _ => true
  | _ => false
  end.

(* operator at the head of data, as the KeyValueSeparator / ArrayValue arms match it *)
Definition op2 (d : bytes) : option (operator * nat) :=
  match d with
  | 60%N :: 61%N :: _ => Some (LessThanEqual, 2)
  | 60%N :: _ => Some (LessThan, 1)
  | 62%N :: 61%N :: _ => Some (GreaterThanEqual, 2)
  | 62%N :: _ => Some (GreaterThan, 1)
  | 33%N :: 61%N :: _ => Some (NotEqual, 2)
  | 61%N :: 61%N :: _ => Some (Exact, 2)
  | 61%N :: _ => Some (Equal, 1)
  | _ => None
  end.

Inductive step_res :=
| Next (s : pstate)
| Done (t : ttape)
| Fail (e : N)
| Crash (site : N).

(* parse_parameter_definition; returns new (data, parent, state, tape) *)
Definition parse_param (d : bytes) (parent : nat) (st : pst) (t : ttape) (initial : bool) : step_res :=
  match nth_error d 1 with
  | Some 91%N =>
    let init :=
      if initial then
        match length t with
        | O => None
        | S ind => match tset t ind (TObject parent false) with Some t' => Some (t', ind) | None => None end
        end
      else Some (t, parent) in
    match init with
    | None => Crash 3010%N
    | Some (t, parent) =>
      let undefined := match nth_error d 2 with Some 33%N => true | _ => false end in
      let off := if undefined then 3 else 2 in
      if Nat.ltb (length d) off then Fail E_TextErr else
      let d := skipn off d in
      match d with
      | [] => Fail E_TextErr
      | _ =>
        match split_at_scalar d with
        | Ok (name, d) =>
          match d with
          | 93%N :: d =>
            let t := tpush t (if undefined then TUndefinedParameter name else TParameter name) in
            match skip_ws_t d with
            | None => Fail E_TextErr
            | Some d =>
              match split_at_scalar d with
              | Ok (kv, d) =>
                match skip_ws_t d with
                | None => Fail E_TextErr
                | Some d =>
                  match d with
                  | 93%N :: d' => Next (mkps d' SKey false parent (tpush t (TUnquoted kv)))
                  | _ =>
                    let np := length t in
                    Next (mkps d SKvs false np (tpush (tpush t (TObject parent false)) (TUnquoted kv)))
                  end
                end
              | _ => Crash 3011%N
              end
            end
          | _ => Fail E_TextErr
          end
        | _ => Crash 3012%N
        end
      end
    end
  | _ => Fail E_TextErr
  end.

(* parse_param does not touch mixed_mode: re-attach the caller's value *)
Definition keep_mixed (m : bool) (r : step_res) : step_res :=
  match r with
  | Next s => Next (mkps (pdata s) (pst_ s) m (pparent s) (ptape s))
  | x => x
  end.

Definition scalar_step (d : bytes) (c : N) : outcome (ttok * bytes) :=
  if beq c 34 then omap (fun p => (TQuoted (fst p), snd p)) (parse_quote_scalar d)
  else if beq c 64 then omap (fun p => (TUnquoted (fst p), snd p)) (parse_variable d)
  else omap (fun p => (TUnquoted (fst p), snd p)) (split_at_scalar d).

(* one iteration of the main loop *)
Definition step (s : pstate) : step_res :=
  let t := ptape s in
  let parent := pparent s in
  let mixed := pmixed s in
  match skip_ws_t (pdata s) with
  | None =>
      match pst_ s with
      | SKey =>
          if Nat.eqb parent 0 then Done t
          else
            if Nat.eqb (slot t parent) 0 then
              let e := length t in
              match tset (tpush t (TEnd parent)) parent (TObject e false) with
              | Some t' => Done t'
              | None => Crash 3020%N
              end
            else Fail E_TextErr
      | _ => Fail E_TextErr
      end
  | Some d =>
    match d with
    | [] => Crash 3021%N
    | c :: d1 =>
      match pst_ s with
      | SKey =>
          if beq c 125 || beq c 93 then
            let grand := slot t parent in
            let '(st', m') := restore t grand in
            if Nat.eqb parent 0 && Nat.eqb grand 0 then Next (mkps d1 st' m' parent t)
            else
              let e := length t in
              match tset (tpush t (TEnd parent)) parent (TObject e mixed) with
              | Some t' => Next (mkps d1 st' m' grand t')
              | None => Crash 3022%N
              end
          else if beq c 123 then
            match skip_ws_t d1 with
            | None => Fail E_TextErr
            | Some d2 =>
              match d2 with
              | 125%N :: d3 => Next (mkps d3 SKey mixed parent t)
              | _ =>
                match tlast t with
                | Some (TUnquoted h) =>
                    match tset t (length t - 1) (THeader h) with
                    | Some t' => Next (mkps d2 SOpen mixed parent (tpush t' (TArray 0 false)))
                    | None => Crash 3023%N
                    end
                | _ => Fail E_TextErr
                end
              end
            end
          else if beq c 91 then keep_mixed mixed (parse_param d parent SKey t false)
          else
            match scalar_step d c with
            | Ok (tok, d') => Next (mkps d' SKvs mixed parent (tpush t tok))
            | Err e => Fail e
            | _ => Crash 3024%N
            end
      | SKvs =>
          match op2 d with
          | Some (Equal, n) =>
              if mixed then Next (mkps (skipn n d) SKvs mixed parent (tpush t (TOperator Equal)))
              else Next (mkps (skipn n d) SObjVal mixed parent t)
          | Some (o, n) => Next (mkps (skipn n d) SObjVal mixed parent (tpush t (TOperator o)))
          | None =>
              if beq c 63 && (match d1 with 61%N :: _ => true | _ => false end) then
                Next (mkps (skipn 2 d) SObjVal mixed parent (tpush t (TOperator Exists)))
              else if beq c 123 then Next (mkps d SObjVal mixed parent t)
              else
                match tinsert_before_last t TMixedContainer with
                | Some t' => Next (mkps d SArrVal true parent t')
                | None => Crash 3025%N
                end
          end
      | SObjVal =>
          if beq c 123 then Next (mkps d1 SOpen mixed parent (tpush t (TArray 0 false)))
          else if beq c 125 then Fail E_TextErr
          else
            match scalar_step d c with
            | Ok (tok, d') => Next (mkps d' SKey mixed parent (tpush t tok))
            | Err e => Fail e
            | _ => Crash 3026%N
            end
      | SOpen =>
          if beq c 125 then
            match length t with
            | O => Crash 3027%N
            | S ind =>
              let '(st', m') := restore t parent in
              match tset t ind (TArray (S ind) false) with
              | Some t' => Next (mkps d1 st' m' parent (tpush t' (TEnd ind)))
              | None => Crash 3028%N
              end
            end
          else if beq c 91 then
            if mixed then Fail E_TextErr
            else keep_mixed mixed (parse_param d parent SOpen t true)
          else if beq c 123 then
            match skip_ws_t d1 with
            | None => Fail E_TextErr
            | Some sc =>
              match sc with
              | 125%N :: d3 => Next (mkps d3 SOpen mixed parent t)
              | _ =>
                match length t with
                | O => Crash 3029%N
                | S ind =>
                  match tset t ind (TArray parent false) with
                  | Some t' => Next (mkps d SArrVal false ind t')
                  | None => Crash 3030%N
                  end
                end
              end
            end
          else
            match scalar_step d c with
            | Ok (tok, d') =>
              let t1 := tpush t tok in
              (* if mixed_mode { parent.mixed = true } *)
              let t2 :=
                if mixed then
                  match tget t1 parent with
                  | Some (TArray e _) => match tset t1 parent (TArray e true) with Some x => x | None => t1 end
                  | Some (TObject e _) => match tset t1 parent (TObject e true) with Some x => x | None => t1 end
                  | _ => t1
                  end
                else t1 in
              match skip_ws_t d' with
              | None => Fail E_TextErr
              | Some d2 =>
                match d2 with
                | [] => Crash 3031%N
                | c2 :: _ =>
                  if Nat.ltb (length t2) 2 then Crash 3032%N else
                  let ind := length t2 - 2 in
                  if beq c2 61 || beq c2 62 || beq c2 60 then
                    match tset t2 ind (TObject parent false) with
                    | Some t3 => Next (mkps d2 SKvs false ind t3)
                    | None => Crash 3033%N
                    end
                  else
                    match tset t2 ind (TArray parent false) with
                    | Some t3 => Next (mkps d2 SArrVal false ind t3)
                    | None => Crash 3034%N
                    end
                end
              end
            | Err e => Fail e
            | _ => Crash 3035%N
            end
      | SArrVal =>
          if beq c 123 then Next (mkps d1 SOpen mixed parent (tpush t (TArray 0 false)))
          else if beq c 125 then
            let '(grand, is_array) :=
              match tget t parent with
              | Some (TArray e _) => (e, true)
              | Some (TObject e _) => (e, false)
              | _ => (0, false)
              end in
            let '(st', m') := restore t grand in
            if Nat.eqb parent 0 && Nat.eqb grand 0 then Fail E_TextErr
            else
              let e := length t in
              match tset t parent (if is_array then TArray e mixed else TObject e mixed) with
              | Some t' => Next (mkps d1 st' m' grand (tpush t' (TEnd parent)))
              | None => Crash 3036%N
              end
          else if beq c 34 || beq c 64 then
            match scalar_step d c with
            | Ok (tok, d') => Next (mkps d' SArrVal mixed parent (tpush t tok))
            | Err e => Fail e
            | _ => Crash 3037%N
            end
          else if beq c 60 || beq c 62 || beq c 33 || beq c 61 then
            let pre :=
              if mixed then Some (t, true)
              else
                match tlast t with
                | Some x =>
                    if is_scalar_tok x then
                      match tinsert_before_last t TMixedContainer with
                      | Some t' => Some (t', true)
                      | None => None
                      end
                    else None
                | None => None
                end in
            match pre with
            | None => Fail E_TextErr
            | Some (t', m') =>
              match op2 d with
              | Some (o, n) => Next (mkps (skipn n d) SArrVal m' parent (tpush t' (TOperator o)))
              | None => Fail E_TextErr
              end
            end
          else
            match scalar_step d c with
            | Ok (tok, d') => Next (mkps d' SArrVal mixed parent (tpush t tok))
            | Err e => Fail e
            | _ => Crash 3038%N
            end
      end
    end
  end.

Fixpoint ploop (fuel : nat) (s : pstate) : outcome ttape :=
  match fuel with
  | O => OutOfFuel
  | S f =>
      match step s with
      | Next s' => ploop f s'
      | Done t => Ok t
      | Fail e => Err e
      | Crash site => Panic site
      end
  end.

(* TextTapeParser::parse_slice: (tokens, utf8_bom) *)
Definition parse (input : bytes) : outcome (ttape * bool) :=
  let bom := match input with 239%N :: 187%N :: 191%N :: _ => true | _ => false end in
  let data := if bom then skipn 3 input else input in
  omap (fun t => (t, bom)) (ploop (2 * length input + 8) (mkps data SKey false 0 [])).
