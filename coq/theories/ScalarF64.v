(* scalar.rs: to_f64 over Flocq's IEEE-754 binary64.  No proofs here; see proofs/ScalarF64Proofs.v.
   - `x as f64` for u64 / i64 is round-to-nearest-even of the integer: binary_normalize mode_NE x 0
     (an i64 0 converts to +0.0);
   - a literal 1e<k> of POWER_OF_TEN is the correctly rounded double of 10^k (rustc), the exponents
     come from the generated table;
   - `/` and `*` are IEEE division / multiplication in round-to-nearest-even. *)
From Flocq Require Import IEEE754.BinarySingleNaN IEEE754.Binary IEEE754.Bits.
From JV Require Import Bytes Tables Scalar.
Open Scope N_scope.

Definition f64_of_Z (z : Z) : binary64 :=
  binary_normalize 53 1024 (@eq_refl _ Lt) (@eq_refl _ Lt) mode_NE z 0 false.

(* the literal 1e<k> *)
Definition pow10_f64 (k : N) : binary64 := f64_of_Z (10 ^ Z.of_N k)%Z.

Definition f64_div (x y : binary64) : binary64 := b64_div mode_NE x y.
Definition f64_mul (x y : binary64) : binary64 := b64_mult mode_NE x y.
Definition f64_bits (x : binary64) : Z := bits_of_b64 x.

Definition F64_GUARD : Z := Z.of_N f64_int_guard.   (* 2^53 - 1 *)

Definition to_f64 (d : bytes) : outcome binary64 :=
  match d with
  | [] => Err E_AllDigits
  | c0 :: data0 =>
    let negative := c0 =? 45 in
    (* if negative { let (&c1, data1) = data.split_first().ok_or(AllDigits)?; ... } *)
    match (if negative then match data0 with [] => None | c1 :: data1 => Some (c1, data1) end
           else Some (c0, data0)) with
    | None => Err E_AllDigits
    | Some (c, data) =>
      do (lead, rest0) <-
         (if is_digit c then to_u64_t2 data (c - 48)
          else if c =? 46 then Ok (0, c :: data)            (* &d[1..] resp. d: the slice starting at '.' *)
          else if c =? 43 then to_u64_t2 data 0
          else Err E_AllDigits);
      match rest0 with
      | [] =>
        if negative then
          (* i64::try_from(lead).map(|x| -x) *)
          if lead <=? I64_MAX then
            let val := (- Z.of_N lead)%Z in
            let result := f64_of_Z val in
            if ((val <? - F64_GUARD) || (F64_GUARD <? val))%Z then Err E_PrecisionLoss else Ok result
          else Err E_Overflow
        else
          let result := f64_of_Z (Z.of_N lead) in
          if (F64_GUARD <? Z.of_N lead)%Z then Err E_PrecisionLoss else Ok result
      | x :: rest1 =>
        if x =? 46 then
          (* exponent = data.len() - (data.len() - left.len()) = left.len() *)
          let exponent := length rest1 in
          do (i, rest2) <- to_u64_t rest1 lead;
          match rest2 with
          | _ :: _ => Err E_AllDigits
          | [] =>
            match nth_error power_of_ten_exps exponent with
            | None => Err E_Overflow
            | Some e =>
              let dv := f64_div (f64_of_Z (Z.of_N i)) (pow10_f64 e) in
              (* -((negative as i64 * 2).wrapping_sub(1)) as f64 *)
              let sign := f64_of_Z (if negative then (-1)%Z else 1%Z) in
              Ok (f64_mul sign dv)
            end
          end
        else Err E_AllDigits
      end
    end
  end.

Definition to_f64_bits (d : bytes) : outcome Z := omap f64_bits (to_f64 d).
