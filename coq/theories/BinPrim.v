(* binary/lexer.rs primitives: read_id / read_string / read_* / read_rgb / read_token and
   Token::write.  Shared by the lexer, reader, tape and deserializer models.
   LexemeId constants come from Tables.v (generated from lexer.rs). *)
From JV Require Import Bytes Tables.
Open Scope N_scope.

Definition E_LexEof : N := 110.
Definition E_InvalidRgb : N := 111.

(* get_split::<n> *)
Definition get_split (n : nat) (d : bytes) : option (bytes * bytes) :=
  if Nat.leb n (length d) then Some (firstn n d, skipn n d) else None.

Definition to_signed (bits : N) (w : N) : Z :=
  if w <? 2 ^ (bits - 1) then Z.of_N w else (Z.of_N w - Z.of_N (2 ^ bits))%Z.
Definition of_signed (bits : N) (z : Z) : N := Z.to_N (z mod Z.of_N (2 ^ bits))%Z.

Definition read_id (d : bytes) : outcome (N * bytes) :=
  match get_split 2 d with Some (h, r) => Ok (le_word 2 h, r) | None => Err E_LexEof end.
Definition read_string (d : bytes) : outcome (bytes * bytes) :=
  match get_split 2 d with
  | Some (h, r) => let n := N.to_nat (le_word 2 h) in
                   if Nat.leb n (length r) then Ok (firstn n r, skipn n r) else Err E_LexEof
  | None => Err E_LexEof end.
Definition read_bool (d : bytes) : outcome (bool * bytes) :=
  match d with b :: r => Ok (negb (b =? 0), r) | [] => Err E_LexEof end.
Definition read_u32 (d : bytes) : outcome (N * bytes) :=
  match get_split 4 d with Some (h, r) => Ok (le_word 4 h, r) | None => Err E_LexEof end.
Definition read_u64 (d : bytes) : outcome (N * bytes) :=
  match get_split 8 d with Some (h, r) => Ok (le_word 8 h, r) | None => Err E_LexEof end.
Definition read_i32 (d : bytes) : outcome (Z * bytes) :=
  match get_split 4 d with Some (h, r) => Ok (to_signed 32 (le_word 4 h), r) | None => Err E_LexEof end.
Definition read_i64 (d : bytes) : outcome (Z * bytes) :=
  match get_split 8 d with Some (h, r) => Ok (to_signed 64 (le_word 8 h), r) | None => Err E_LexEof end.
Definition read_f32 (d : bytes) : outcome (bytes * bytes) :=
  match get_split 4 d with Some p => Ok p | None => Err E_LexEof end.
Definition read_f64 (d : bytes) : outcome (bytes * bytes) :=
  match get_split 8 d with Some p => Ok p | None => Err E_LexEof end.

Record rgb := mkrgb { rgb_r : N; rgb_g : N; rgb_b : N; rgb_a : option N }.

(* read_rgb reads all eight items before looking at any of them *)
Definition read_rgb (d : bytes) : outcome (rgb * bytes) :=
  do (start, d) <- read_id d;
  do (rtok, d) <- read_id d;
  do (r, d) <- read_u32 d;
  do (gtok, d) <- read_id d;
  do (g, d) <- read_u32 d;
  do (btok, d) <- read_id d;
  do (b, d) <- read_u32 d;
  do (next, d) <- read_id d;
  if (start =? L_OPEN) && (rtok =? L_U32) && (gtok =? L_U32) && (btok =? L_U32) then
    if next =? L_CLOSE then Ok (mkrgb r g b None, d)
    else if next =? L_U32 then
      do (a, d) <- read_u32 d;
      do (e, d) <- read_id d;
      if e =? L_CLOSE then Ok (mkrgb r g b (Some a), d) else Err E_InvalidRgb
    else Err E_InvalidRgb
  else Err E_InvalidRgb.

Inductive btoken :=
| BOpen | BClose | BEqual
| BU32 (x : N) | BU64 (x : N) | BI32 (x : Z) | BBool (x : bool)
| BQuoted (s : bytes) | BUnquoted (s : bytes)
| BF32 (x : bytes) | BF64 (x : bytes)
| BRgb (c : rgb) | BI64 (x : Z) | BId (x : N).

Definition is_id (x : N) : bool :=
  negb ((x =? L_OPEN) || (x =? L_CLOSE) || (x =? L_EQUAL) || (x =? L_U32) || (x =? L_U64) || (x =? L_I32)
        || (x =? L_BOOL) || (x =? L_QUOTED) || (x =? L_UNQUOTED) || (x =? L_F32) || (x =? L_F64)
        || (x =? L_RGB) || (x =? L_I64)).

Definition read_token (d : bytes) : outcome (btoken * bytes) :=
  do (id, d) <- read_id d;
  if id =? L_OPEN then Ok (BOpen, d)
  else if id =? L_CLOSE then Ok (BClose, d)
  else if id =? L_EQUAL then Ok (BEqual, d)
  else if id =? L_U32 then omap (fun p => (BU32 (fst p), snd p)) (read_u32 d)
  else if id =? L_U64 then omap (fun p => (BU64 (fst p), snd p)) (read_u64 d)
  else if id =? L_I32 then omap (fun p => (BI32 (fst p), snd p)) (read_i32 d)
  else if id =? L_BOOL then omap (fun p => (BBool (fst p), snd p)) (read_bool d)
  else if id =? L_QUOTED then omap (fun p => (BQuoted (fst p), snd p)) (read_string d)
  else if id =? L_UNQUOTED then omap (fun p => (BUnquoted (fst p), snd p)) (read_string d)
  else if id =? L_F32 then omap (fun p => (BF32 (fst p), snd p)) (read_f32 d)
  else if id =? L_F64 then omap (fun p => (BF64 (fst p), snd p)) (read_f64 d)
  else if id =? L_RGB then omap (fun p => (BRgb (fst p), snd p)) (read_rgb d)
  else if id =? L_I64 then omap (fun p => (BI64 (fst p), snd p)) (read_i64 d)
  else Ok (BId id, d).

(* Token::write; `len as u16` truncates *)
Definition w16 (x : N) : bytes := word_bytes 2 (x mod 65536).
Definition w32 (x : N) : bytes := word_bytes 4 (x mod 4294967296).
Definition w64b (x : N) : bytes := word_bytes 8 (x mod 18446744073709551616).
Definition write_u32 (x : N) : bytes := w16 L_U32 ++ w32 x.
Definition write_token (t : btoken) : bytes :=
  match t with
  | BOpen => w16 L_OPEN | BClose => w16 L_CLOSE | BEqual => w16 L_EQUAL
  | BU32 x => write_u32 x
  | BU64 x => w16 L_U64 ++ w64b x
  | BI32 x => w16 L_I32 ++ w32 (of_signed 32 x)
  | BBool x => w16 L_BOOL ++ [if x then 1 else 0]
  | BQuoted s => w16 L_QUOTED ++ w16 (lenN s) ++ s
  | BUnquoted s => w16 L_UNQUOTED ++ w16 (lenN s) ++ s
  | BF32 x => w16 L_F32 ++ x
  | BF64 x => w16 L_F64 ++ x
  | BRgb c => w16 L_RGB ++ w16 L_OPEN ++ write_u32 (rgb_r c) ++ write_u32 (rgb_g c) ++ write_u32 (rgb_b c)
              ++ (match rgb_a c with Some a => write_u32 a | None => [] end) ++ w16 L_CLOSE
  | BI64 x => w16 L_I64 ++ w64b (of_signed 64 x)
  | BId x => w16 x
  end.
