(* encoding.rs: trim_ascii_end, decode_windows1252 / windows_1252_create,
   decode_utf8 (8-byte chunk scan, remainder loop) / utf8_create.  The result is the Cow the
   Rust code returns (Borrowed | Owned) carrying the UTF-8 bytes of the str/String.
   The two `from_utf8_unchecked` calls are the unchecked sites: if the bytes handed to them are
   not well-formed UTF-8 the model answers [OOB].  No proofs here; see proofs/EncodingProofs.v. *)
From JV Require Import Bytes Tables U64Swar Utf8.
Open Scope N_scope.

(* u8::is_ascii_whitespace: space, \t, \n, form feed, \r  (NOT vertical tab 0x0b) *)
Definition is_ascii_ws (b : N) : bool :=
  (b =? 32) || (b =? 9) || (b =? 10) || (b =? 12) || (b =? 13).

(* while let [rest @ .., last] = bytes { if last.is_ascii_whitespace() { bytes = rest } else break } *)
Fixpoint drop_ws (rev_bytes : bytes) : bytes :=
  match rev_bytes with
  | last :: rest => if is_ascii_ws last then drop_ws rest else rev_bytes
  | [] => []
  end.
Definition trim_ascii_end (d : bytes) : bytes := rev (drop_ws (rev d)).

Definition is_ascii (b : N) : bool := b <? 128.
Definition BACKSLASH : N := 92.

Definition SITE_W1252_UNCHECKED : N := 1.   (* from_utf8_unchecked(bytes) in decode_windows1252 *)
Definition SITE_W1252_HEAD : N := 2.        (* from_utf8_unchecked(upto) in windows_1252_create *)
Definition SITE_SPLIT_AT : N := 3.          (* d.split_at(offset) with offset > len *)
Definition SITE_UTF8_UNCHECKED : N := 4.    (* from_utf8_unchecked(d) in decode_utf8 *)

(* windows_1252_create(d, offset) *)
Definition windows_1252_create (d : bytes) (offset : nat) : outcome bytes :=
  if (length d <? offset)%nat then Panic SITE_SPLIT_AT
  else
    let upto := firstn offset d in
    let rest := skipn offset d in
    if negb (valid_utf8 upto) then OOB SITE_W1252_HEAD
    else Ok (upto ++ flat_map (fun c => encode_utf8 (w1252 c)) (filter (fun x => negb (x =? BACKSLASH)) rest)).

Definition decode_windows1252 (d : bytes) : outcome cow :=
  let bytes := trim_ascii_end d in
  let eject := fold_left (fun e x => e || (negb (is_ascii x) || (x =? BACKSLASH))) bytes false in
  if eject then
    do s <- windows_1252_create bytes 0; Ok (Owned s)
  else if valid_utf8 bytes then Ok (Borrowed bytes) else OOB SITE_W1252_UNCHECKED.

(* utf8_create(d, offset) *)
Definition utf8_create (d : bytes) (offset : nat) : outcome bytes :=
  if (length d <? offset)%nat then Panic SITE_SPLIT_AT
  else
    let result := firstn offset d ++ filter (fun x => negb (x =? BACKSLASH)) (skipn offset d) in
    (* String::from_utf8(result) or, on error, from_utf8_lossy(bytes).into_owned() *)
    if valid_utf8 result then Ok result else Ok (cow_bytes (from_utf8_lossy result)).

Inductive scan : Type := Eject (offset : nat) | Clean (is_ascii : bool).

(* the byte-wise loop over chunk_iter.remainder() *)
Fixpoint utf8_scan_rem (d : bytes) (offset : nat) (ascii : bool) : scan :=
  match d with
  | [] => Clean ascii
  | b :: r =>
    let ascii := ascii && is_ascii b in
    if b =? enc_rem_escape then Eject offset else utf8_scan_rem r (S offset) ascii
  end.

(* the loop over d.chunks_exact(8), falling through to the remainder loop *)
Fixpoint utf8_scan (d : bytes) (offset : nat) (ascii : bool) : scan :=
  match d with
  | b0 :: b1 :: b2 :: b3 :: b4 :: b5 :: b6 :: b7 :: r =>
    let wide := le_u64 [b0; b1; b2; b3; b4; b5; b6; b7] in
    let ascii := ascii && (N.land wide enc_ascii_mask =? 0) in
    if contains_zero_byte (N.lxor wide (repeat_byte enc_chunk_escape)) then Eject offset
    else utf8_scan r (offset + 8) ascii
  | _ => utf8_scan_rem d offset ascii
  end.

Definition decode_utf8 (d0 : bytes) : outcome cow :=
  let d := trim_ascii_end d0 in
  match utf8_scan d 0 true with
  | Eject offset => do s <- utf8_create d offset; Ok (Owned s)
  | Clean ascii =>
    let d := trim_ascii_end d in
    if ascii then
      if valid_utf8 d then Ok (Borrowed d) else OOB SITE_UTF8_UNCHECKED
    else Ok (from_utf8_lossy d)
  end.

(* ---------- reference mapping (the specification the property talks about) ---------- *)
Definition unescape (d : bytes) : bytes := filter (fun x => negb (x =? BACKSLASH)) d.
Definition w1252_reference (d : bytes) : bytes :=
  flat_map (fun c => encode_utf8 (w1252 c)) (unescape (trim_ascii_end d)).
Definition utf8_reference (d : bytes) : bytes := lossy (unescape (trim_ascii_end d)).
