(* src/text/de.rs: maps with TYPED keys and the size hints of the tape path's accesses (wave 5, engineer w_c02).

   (a) typed keys.  `HashMap<K, V>`'s visitor calls next_key_seed(K) / next_value_seed(V).  On the tape path the key
       deserializer is ValueDeserializer { kind: ValueKind::Scalar(key) } (StaticDeserializer("remainder") for the
       synthetic key), on the stream path TextReaderTokenDeserializer::new(key token): the typed hints of K
       (deserialize_u32, deserialize_bool, Date's deserialize_any, deserialize_enum ..) land on them.  Both are already
       part of TextDeTape.de (k = KScalar / KStatic) and TextDeStream.sde; this file adds the VISITOR that issues them:
         kloop   KMapV.visit_map(MapAccess { fields: ti..en })      (harness shape kmap(<key shape>,<value shape>))
         skloop  KMapV.visit_map(TextReaderMap { root })
       same steps as TextDeTape.twalk / TextDeStream.swalk, with `rec key_shape` in place of `String`.
   (b) size hints.  MapAccess::size_hint = FieldsIter::size_hint = fields_len(tokens, token_ind, end);
       SeqAccess::size_hint = ValuesIter::size_hint = values_len(tokens, token_ind, end) (dom.rs).  [fields_len] models the
       former (TextDeTape.values_len is the latter); [seq_hints] / [map_hints] are what a visitor that asks before every
       next_element / next_key sees (harness shapes hseq / hmap).  The stream path's accesses do not implement size_hint
       (serde's default None).
   No proofs here. *)
From JV Require Import Bytes Utf8 Scalar TextTok TextReader SerdeShape TextDeCommon TextDeTape TextDeStream.
Open Scope nat_scope.

Section KeysTape.
  Variable decode : bytes -> cow.
  Variable parse_f64 : bytes -> outcome N.
  Variable fo : fops.
  Variable t : ttape.

  Notation de := (TextDeTape.de decode parse_f64 fo t).

  Fixpoint kloop (fuel : nat) (ksh vsh : shape) (ti en : nat) (acc : list (dval * dval)) : outcome (list (dval * dval)) :=
    match fuel with
    | O => OutOfFuel
    | S f =>
        do fn <- fields_next t ti en;
        match fn with
        | Some (key, op, vi, ti') =>
            do kv <- de f ksh (KScalar key);
            do v <- de f vsh (KOpVal (match op with Some o => o | None => Equal end) vi);
            kloop f ksh vsh ti' en ((kv, v) :: acc)
        | None =>
            let '(rs, re) := remainder t ti en in
            do n <- values_len t (S (length t)) rs re;
            match n with
            | O => Ok (rev acc)
            | S _ =>
                do kv <- de f ksh (KStatic STR_REMAINDER);
                do v <- de f vsh (KArr rs re);
                Ok (rev ((kv, v) :: acc))
            end
        end
    end.

  (* fields_len(tokens, start, end) *)
  Fixpoint fields_len (fuel : nat) (ind en : nat) : outcome nat :=
    match fuel with
    | O => OutOfFuel
    | S f =>
        if ind <? en then
          do tk <- tget t ind;
          match tk with
          | TMixedContainer => Ok 0
          | _ =>
              do nx <- tget t (S ind);
              let vi := match nx with TOperator _ => ind + 2 | _ => S ind end in
              do ind' <- next_idx t vi;
              do c <- fields_len f ind' en;
              Ok (S c)
          end
        else Ok 0
    end.

  (* the size hints a Vec-like visitor sees: before the first next_element and after every element *)
  Fixpoint seq_hints (fuel : nat) (ti en : nat) : outcome (list nat) :=
    match fuel with
    | O => OutOfFuel
    | S f =>
        do h <- values_len t (S (length t)) ti en;
        if ti <? en then
          do nx <- next_idx_values t ti;
          do r <- seq_hints f nx en;
          Ok (h :: r)
        else Ok [h]
    end.

  (* the size hints a HashMap-like visitor sees on MapAccess { fields: ti..en }: before the first next_key and after
     every entry (the synthetic remainder entry included: then fields.next() is None and the hint is computed at the
     same position) *)
  Fixpoint map_hints (fuel : nat) (ti en : nat) : outcome (list nat) :=
    match fuel with
    | O => OutOfFuel
    | S f =>
        do h <- fields_len (S (length t)) ti en;
        do fn <- fields_next t ti en;
        match fn with
        | Some (_, _, _, ti') => do r <- map_hints f ti' en; Ok (h :: r)
        | None =>
            let '(rs, re) := remainder t ti en in
            do n <- values_len t (S (length t)) rs re;
            match n with
            | O => Ok [h]
            | S _ => Ok [h; h]
            end
        end
    end.
End KeysTape.

Definition kmap_fuel (ksh vsh : shape) (t : ttape) : nat := 2 * length t + 2 * (shape_size ksh + shape_size vsh) + 8.

Definition kmap_root_tape (decode : bytes -> cow) (parse_f64 : bytes -> outcome N) (fo : fops) (ksh vsh : shape) (t : ttape)
    : outcome (list (dval * dval)) :=
  kloop decode parse_f64 fo t (kmap_fuel ksh vsh t) ksh vsh 0 (length t) [].

Section KeysStream.
  Variable decode : bytes -> cow.
  Variable parse_f64 : bytes -> outcome N.
  Variable fo : fops.
  Variable R : Type.
  Variable rnext : R -> outcome (option rtok * R).
  Variable rskip : R -> outcome R.
  Variable rexpect : R -> outcome (rtok * R).

  Notation sde := (TextDeStream.sde decode parse_f64 fo R rnext rskip rexpect).

  Fixpoint skloop (fuel : nat) (root : bool) (ksh vsh : shape) (r : R) (acc : list (dval * dval)) : outcome (list (dval * dval) * R) :=
    match fuel with
    | O => OutOfFuel
    | S f =>
        do x <- rnext r;
        match x with
        | (Some RClose, r1) => Ok (rev acc, r1)
        | (Some ROpen, r1) => do r2 <- rskip r1; skloop f root ksh vsh r2 acc
        | (Some tk, r1) =>
            do (kv, r2) <- sde f ksh tk Equal r1;
            do (tk1, r3) <- rexpect r2;
            do (v, r5) <- match tk1 with
                          | ROp o => do (tk2, r4) <- rread R rnext r3; sde f vsh tk2 o r4
                          | _ => sde f vsh tk1 Equal r3
                          end;
            skloop f root ksh vsh r5 ((kv, v) :: acc)
        | (None, r1) => if root then Ok (rev acc, r1) else Err EC_EOF
        end
    end.
End KeysStream.

Definition kmap_root_stream (decode : bytes -> cow) (parse_f64 : bytes -> outcome N) (fo : fops) (ksh vsh : shape) (r : ltoks)
    : outcome (list (dval * dval)) :=
  omap fst (skloop decode parse_f64 fo ltoks l_next l_skip l_read
              (2 * length (fst r) + shape_size ksh + shape_size vsh + 8) true ksh vsh r []).
