(* C06 (text half): what "structurally sound tape" means.  Definitions only; the proofs are in
   proofs/TextTapeWfProofs.v.

   tape_wf t  :=
     (fwd)   every container token  t[i] = Array{end=e} / Object{end=e}  has  i < e < |t|  and
             t[e] = End i;
     (back)  every  t[e] = End j  has  t[j]  a container whose end field is e;
     (nest)  the open/close structure is a Dyck word.  This is defined by the RECURSIVE STACK
             CHECKER [nest_ok]: walk the tape left to right with a stack of the indices of the
             containers that are open; a container pushes its own index, `End j` must find j on
             top of the stack and pops it, everything else is skipped, the stack must be empty at
             the end.  (An inductive grammar, [closed], is given as well; the proofs file shows
             tape_wf t <-> closed 0 t and uses the grammar as the loop invariant's "closed part".)
     (nz)    no container carries end = 0 and no End carries index 0.

   tape_wfb is the boolean checker; TextTapeWfProofs.tape_wfb_spec : tape_wfb t = true <-> tape_wf t. *)
From JV Require Import Bytes Tables TextTok TextTape.
Open Scope nat_scope.

Definition cont_end (x : ttok) : option nat :=
  match x with
  | TArray e _ | TObject e _ => Some e
  | _ => None
  end.

(* neither a container nor an End: scalars, operators, the MixedContainer marker, headers *)
Definition plainb (x : ttok) : bool :=
  match x with
  | TArray _ _ | TObject _ _ | TEnd _ => false
  | _ => true
  end.

(* the recursive stack checker for nesting; [pos] is the absolute index of the head of [l] *)
Fixpoint nest_ok (l : ttape) (pos : nat) (stk : list nat) : bool :=
  match l with
  | [] => match stk with [] => true | _ :: _ => false end
  | x :: r =>
      match x with
      | TArray _ _ | TObject _ _ => nest_ok r (S pos) (pos :: stk)
      | TEnd j =>
          match stk with
          | top :: stk' => Nat.eqb top j && nest_ok r (S pos) stk'
          | [] => false
          end
      | _ => nest_ok r (S pos) stk
      end
  end.

Definition links_fwd (t : ttape) : Prop :=
  forall i x e, nth_error t i = Some x -> cont_end x = Some e ->
    i < e /\ e < length t /\ nth_error t e = Some (TEnd i).

Definition links_back (t : ttape) : Prop :=
  forall e j, nth_error t e = Some (TEnd j) ->
    exists x, nth_error t j = Some x /\ cont_end x = Some e.

Definition no_zero (t : ttape) : Prop :=
  forall i x, nth_error t i = Some x ->
    cont_end x <> Some 0 /\ x <> TEnd 0.

Definition tape_wf (t : ttape) : Prop :=
  links_fwd t /\ links_back t /\ nest_ok t 0 [] = true /\ no_zero t.

(* ---- boolean checker ---- *)
Definition tok_okb (t : ttape) (i : nat) (x : ttok) : bool :=
  match x with
  | TArray e _ | TObject e _ =>
      Nat.ltb i e && Nat.ltb e (length t) && negb (Nat.eqb e 0) &&
      match nth_error t e with Some (TEnd j) => Nat.eqb j i | _ => false end
  | TEnd j =>
      negb (Nat.eqb j 0) &&
      match nth_error t j with
      | Some y => match cont_end y with Some e => Nat.eqb e i | None => false end
      | None => false
      end
  | _ => true
  end.

Fixpoint all_okb (t : ttape) (l : ttape) (i : nat) : bool :=
  match l with
  | [] => true
  | x :: r => tok_okb t i x && all_okb t r (S i)
  end.

Definition tape_wfb (t : ttape) : bool := all_okb t t 0 && nest_ok t 0 [].

(* ---- the inductive grammar: [closed off l] = l, sitting at absolute index off, is a sequence
   of complete values (plain tokens and container .. End groups with matching indices) ---- *)
Inductive closed : nat -> ttape -> Prop :=
| cl_nil : forall off, closed off []
| cl_plain : forall off x l, plainb x = true -> closed (S off) l -> closed off (x :: l)
| cl_cont : forall off c body rest,
    off <> 0 ->
    cont_end c = Some (off + 1 + length body) ->
    closed (S off) body ->
    closed (off + 2 + length body) rest ->
    closed off (c :: body ++ TEnd off :: rest).

(* ---- the loop invariant of TextTape.ploop (DESIGN.md A.1, I1-I4) ----
   [chainrep t p]: t is  V0 ++ [C1] ++ V1 ++ .. ++ [Ck] ++ Vk  with every Vi closed, C1..Ck the
   containers that are open, each Cj's end slot holding the index of C(j-1) (0 for C1), and p the
   index of Ck (0 when k = 0).  No open container sits at index 0. *)
Inductive chainrep : ttape -> nat -> Prop :=
| cr_top : forall V, closed 0 V -> chainrep V 0
| cr_open : forall t0 p0 c V,
    chainrep t0 p0 -> t0 <> [] -> cont_end c = Some p0 ->
    closed (S (length t0)) V ->
    chainrep (t0 ++ c :: V) (length t0).

(* state-dependent part: ParseOpen has the pending placeholder Array{end:0} as last token (I3);
   KeyValueSeparator has a plain token last (I4: insert(len-1, MixedContainer) shifts nothing);
   every state except Key has a non-empty tape.  The invariant does not mention data or
   mixed_mode: tape_wf does not depend on the (lazily written, sometimes stale) mixed flags. *)
Definition inv (st : pst) (p : nat) (t : ttape) : Prop :=
  match st with
  | SKey => chainrep t p
  | SKvs => chainrep t p /\ exists t' x, t = t' ++ [x] /\ plainb x = true
  | SObjVal | SArrVal => chainrep t p /\ t <> []
  | SOpen => exists t', t = t' ++ [TArray 0 false] /\ t' <> [] /\ chainrep t' p
  end.

Definition Inv (s : pstate) : Prop := inv (pst_ s) (pparent s) (ptape s).

(* termination measure: every iteration either consumes a byte or leaves KeyValueSeparator /
   ParseOpen for a state that will *)
Definition mu (s : pstate) : nat :=
  2 * length (pdata s) + match pst_ s with SKvs | SOpen => 1 | _ => 0 end.

(* ---- scalars are slices of the input, in increasing start order (I6) ---- *)
Definition scalar_bytes (x : ttok) : option bytes :=
  match x with
  | TUnquoted s | TQuoted s | TParameter s | TUndefinedParameter s | THeader s => Some s
  | _ => None
  end.

(* s = input[a .. a+|s|) *)
Definition slice_at (input : bytes) (a : nat) (s : bytes) : Prop :=
  a + length s <= length input /\ firstn (length s) (skipn a input) = s.

(* [scalars input lo l hi]: the scalar tokens of l (Unquoted, Quoted, Parameter,
   UndefinedParameter, Header), in tape order, are slices of input at start offsets
   lo <= a1 < a2 < .. < an < hi.  (A quoted scalar's slice is its content, without the quotes; a
   parameter's is its name.) *)
Inductive scalars (input : bytes) : nat -> ttape -> nat -> Prop :=
| sc_nil : forall lo hi, lo <= hi -> scalars input lo [] hi
| sc_scalar : forall lo hi x s a r,
    scalar_bytes x = Some s -> lo <= a -> slice_at input a s ->
    scalars input (S a) r hi -> scalars input lo (x :: r) hi
| sc_other : forall lo hi x r,
    scalar_bytes x = None -> scalars input lo r hi -> scalars input lo (x :: r) hi.

Definition scalars_in_input (input : bytes) (t : ttape) : Prop :=
  exists hi, scalars input 0 t hi.

(* loop invariant for I6: data is a suffix of the input and every scalar starts before it *)
Definition Inv2 (input : bytes) (d : bytes) (t : ttape) : Prop :=
  exists pre, input = pre ++ d /\ scalars input 0 t (length pre).
