(* buffer.rs at STORAGE level (wave 5, engineer w_buf).

   BufWin.v keeps the window of a BufferWindow as a list of bytes; this file models what the code
   really has: the fixed buffer [buf : Box<[u8]>] whose bytes survive from one fill to the next
   (and from one reader to the next: a recycled / dirty buffer), and the raw pointers [start] /
   [end], here offsets from [start_buf] (= buf.as_ptr() for a built window, data.as_ptr() for the
   from_slice window).  Every operation of src/buffer.rs is an executable function; every place
   where the Rust code computes a pointer or an index without a check that the compiler enforces
   (the `unsafe` blocks, the debug_assert!s in front of them, copy_within, the slice index in
   fill_buf) returns an explicit crash outcome when the offset would leave its range.

   No proofs here; see proofs/BufStoreProofs.v (invariant, refinement of BufWin.v, stream law). *)
From JV Require Import Bytes BufWin.
Open Scope nat_scope.

(* [s_buf]: the bytes the offsets range over -- the whole boxed buffer (stale bytes included) of a
   built window, the borrowed data of the from_slice window ([s_owned = false]: there `self.buf`
   is the empty box, so buf.len() = 0 although the pointers range over the data). *)
Record store := mkst { s_buf : bytes; s_owned : bool; s_start : nat; s_end : nat; s_prior : nat }.

(* self.buf.len() *)
Definition bs_buf_len (st : store) : nat := if s_owned st then length (s_buf st) else 0.

(* BufferWindowBuilder::buffer(val).build(): ANY contents (a recycled buffer is not cleared) *)
Definition bs_build (buf : bytes) : store := mkst buf true 0 0 0.
(* BufferWindowBuilder::buffer_len(n).build(): vec![0; n] *)
Definition bs_new (n : nat) : store := bs_build (repeat 0%N n).
(* BufferWindow::from_slice *)
Definition bs_from_slice (d : bytes) : store := mkst d false 0 (length d) 0.

(* crash sites (the model's OOB / Panic outcomes):
   8600 advance_to: debug_assert!((start..=end).contains(&ptr))
   8601 advance:    debug_assert!((start..=end).contains(&start.add(amt)))      (same site as BufWin.bw_advance)
   8602 window_len: end.offset_from(start) negative, cast to usize
   8603 window / get: from_raw_parts reaching behind the allocation
   8606 get: debug_assert!(range.end <= self.end)
   8607 get: range.end.offset_from(range.start) negative, cast to usize
   8608 fill_buf: buf.copy_within(consumed.., 0) with consumed > buf.len() (a real panic site)
   8610 fill_buf: end.add(r) behind the allocation (a Read that reports more than it was given)
   (get's debug_assert!(range.start >= start_buf) and consumed_data's offset_from cannot fail with
   offsets in nat: an offset below start_buf is not expressible.) *)

Definition bs_window_len (st : store) : outcome nat :=
  if Nat.ltb (s_end st) (s_start st) then OOB 8602%N else Ok (s_end st - s_start st).

Definition bs_window (st : store) : outcome bytes :=
  do n <- bs_window_len st;
  if Nat.ltb (length (s_buf st)) (s_start st + n) then OOB 8603%N
  else Ok (firstn n (skipn (s_start st) (s_buf st))).

Definition bs_consumed_data (st : store) : nat := s_start st.
Definition bs_position (st : store) : nat := s_prior st + bs_consumed_data st.

Definition bs_advance_to (st : store) (p : nat) : outcome store :=
  if Nat.leb (s_start st) p && Nat.leb p (s_end st)
  then Ok (mkst (s_buf st) (s_owned st) p (s_end st) (s_prior st))
  else OOB 8600%N.

Definition bs_advance (st : store) (amt : nat) : outcome store :=
  let p := s_start st + amt in
  if Nat.leb p (s_end st)
  then Ok (mkst (s_buf st) (s_owned st) p (s_end st) (s_prior st))
  else OOB 8601%N.

(* get(range): offsets i .. j from start_buf; may reach behind the window start (consumed bytes) *)
Definition bs_get (st : store) (i j : nat) : outcome bytes :=
  if Nat.ltb (s_end st) j then OOB 8606%N
  else if Nat.ltb j i then OOB 8607%N
  else if Nat.ltb (length (s_buf st)) j then OOB 8603%N
  else Ok (firstn (j - i) (skipn i (s_buf st))).

(* buf.copy_within(from.., 0): the WHOLE tail moves, stale bytes behind the window included *)
Definition copy_within_tail (c : bytes) (from : nat) : bytes :=
  skipn from c ++ skipn (length c - from) c.

(* the Read writes [bs] at offset [at] *)
Definition write_at (c : bytes) (at_ : nat) (bs : bytes) : bytes :=
  firstn at_ c ++ bs ++ skipn (at_ + length bs) c.

(* a Read may also dirty the part of the slice it was given but does not report as read
   (std::io::Read only promises n <= buf.len()): [Some j] overwrites everything from [from] on with j *)
Definition scribble (c : bytes) (from : nat) (scr : option N) : bytes :=
  match scr with
  | None => c
  | Some j => firstn from c ++ repeat j (length c - from)
  end.

Inductive sfill_res :=
| SFillOk (n : nat) (st : store) (r : rd)
| SFillIo (st : store) (r : rd)
| SFillFull (st : store) (r : rd)
| SFillCrash (site : N).

(* fill_buf over any Read: [read free] is what reader.read(&mut buf[carry_over..]) answers when handed
   [free] bytes ([Ok (bs, r')]: wrote and reported bs; anything else: an io::Error, the Read is then
   [rfail]); [r0] is the Read when it is not called at all (early returns) *)
Definition bs_fill_core (st : store) (read : nat -> outcome (bytes * rd)) (rfail r0 : rd) (scr : option N) : sfill_res :=
  match bs_window_len st with
  | Ok carry =>
      let len := bs_buf_len st in
      if Nat.leb len carry then (if Nat.eqb len 0 then SFillOk 0 st r0 else SFillFull st r0)
      else
        let consumed := bs_consumed_data st in
        if negb (Nat.eqb carry 0) && Nat.ltb (length (s_buf st)) consumed then SFillCrash 8608%N
        else
          let c1 := if Nat.eqb carry 0 then s_buf st else copy_within_tail (s_buf st) consumed in
          let prior1 := s_prior st + consumed in
          (* start = buf.as_ptr(); end = buf.as_ptr().add(carry_over); reader.read(&mut buf[carry_over..]) *)
          match read (len - carry) with
          | Ok (bs, r') =>
              let k := length bs in
              if Nat.ltb len (carry + k) then SFillCrash 8610%N
              else SFillOk k (mkst (scribble (write_at c1 carry bs) (carry + k) scr) true 0 (carry + k) prior1) r'
          | _ => SFillIo (mkst (scribble c1 carry scr) true 0 carry prior1) rfail
          end
  | _ => SFillCrash 8602%N
  end.

(* the scripted Read of BufWin.v *)
Definition bs_fill_buf (st : store) (r : rd) (scr : option N) : sfill_res :=
  bs_fill_core st (rd_read r) (rd_after_fail r) r scr.

(* a Read that answers Ok(0) although data is left and room is free (std::io::Read allows it; the
   schedule language of BufWin.rd_read cannot say it): nothing delivered, the schedule not consumed *)
Definition bs_fill_zero (st : store) (r : rd) (scr : option N) : sfill_res :=
  bs_fill_core st (fun _ => Ok ([], r)) r r scr.

(* ------------------------------------------------------------------------------------------
   Op sequences on one window: what the correspondence harness (kind bs.ops) runs on the real
   BufferWindow.  Relative ops are resolved against the current window so that they are always
   inside the preconditions; raw ops are passed through unresolved (debug profile: the
   debug_assert!s of the code must fire exactly where the model says OOB). *)
Inductive op :=
| OFill (scr : option N)       (* fill_buf(scripted Read) *)
| OFillZ (scr : option N)      (* fill_buf(a Read answering Ok(0)) *)
| OAdv (k : nat)               (* advance(k mod (window_len + 1)) *)
| OAdvTo (k : nat)             (* advance_to(start + k mod (window_len + 1)) *)
| OGet (i j : nat)             (* get(a..b), a = i mod (end + 1), b = a + j mod (end - a + 1) *)
| ORawAdv (k : nat)            (* advance(k) *)
| ORawAdvTo (p : nat)          (* advance_to(start_buf + p) *)
| ORawGet (i j : nat).         (* get(start_buf + i .. start_buf + j) *)

Inductive bev :=
| EFill (n : nat) | EIo | EFull
| EAdv (amt : nat)
| EGet (bs : bytes)
| ECrash (site : N).

(* after every op: the event, window(), position(), consumed_data() *)
Record obs := mkobs { o_ev : bev; o_win : bytes; o_pos : nat; o_consumed : nat }.

Definition crash_obs (site : N) : obs := mkobs (ECrash site) [] 0 0.
Definition crash_site {A} (o : outcome A) : N :=
  match o with Panic s | OOB s => s | _ => 0%N end.

Definition bs_observe (ev : bev) (st : store) : obs :=
  match bs_window st with
  | Ok w => mkobs ev w (bs_position st) (bs_consumed_data st)
  | o => crash_obs (crash_site o)
  end.

Definition is_crash_obs (o : obs) : bool := match o_ev o with ECrash _ => true | _ => false end.

(* one op: the observation, the new window, the new Read *)
Definition bs_step (st : store) (r : rd) (o : op) : obs * store * rd :=
  match o with
  | OFill scr =>
      match bs_fill_buf st r scr with
      | SFillOk n st' r' => (bs_observe (EFill n) st', st', r')
      | SFillIo st' r' => (bs_observe EIo st', st', r')
      | SFillFull st' r' => (bs_observe EFull st', st', r')
      | SFillCrash s => (crash_obs s, st, r)
      end
  | OFillZ scr =>
      match bs_fill_zero st r scr with
      | SFillOk n st' r' => (bs_observe (EFill n) st', st', r')
      | SFillIo st' r' => (bs_observe EIo st', st', r')
      | SFillFull st' r' => (bs_observe EFull st', st', r')
      | SFillCrash s => (crash_obs s, st, r)
      end
  | OAdv k | OAdvTo k =>
      match bs_window_len st with
      | Ok wl =>
          let amt := Nat.modulo k (wl + 1) in
          match (match o with OAdv _ => bs_advance st amt | _ => bs_advance_to st (s_start st + amt) end) with
          | Ok st' => (bs_observe (EAdv amt) st', st', r)
          | e => (crash_obs (crash_site e), st, r)
          end
      | e => (crash_obs (crash_site e), st, r)
      end
  | OGet i j =>
      let a := Nat.modulo i (s_end st + 1) in
      let b := a + Nat.modulo j (s_end st - a + 1) in
      match bs_get st a b with
      | Ok bs => (bs_observe (EGet bs) st, st, r)
      | e => (crash_obs (crash_site e), st, r)
      end
  | ORawAdv k =>
      match bs_advance st k with
      | Ok st' => (bs_observe (EAdv k) st', st', r)
      | e => (crash_obs (crash_site e), st, r)
      end
  | ORawAdvTo p =>
      match bs_advance_to st p with
      | Ok st' => (bs_observe (EAdv (p - s_start st)) st', st', r)
      | e => (crash_obs (crash_site e), st, r)
      end
  | ORawGet i j =>
      match bs_get st i j with
      | Ok bs => (bs_observe (EGet bs) st, st, r)
      | e => (crash_obs (crash_site e), st, r)
      end
  end.

(* a list of ops; stops behind the first crash *)
Fixpoint bs_run (st : store) (r : rd) (ops : list op) : list obs :=
  match ops with
  | [] => []
  | o :: more =>
      let '(ob, st', r') := bs_step st r o in
      if is_crash_obs ob then [ob] else ob :: bs_run st' r' more
  end.

(* the window after the run (the buffer a reader hands back with into_parts is [s_buf] of it) *)
Fixpoint bs_final (st : store) (r : rd) (ops : list op) : store :=
  match ops with
  | [] => st
  | o :: more =>
      let '(ob, st', r') := bs_step st r o in
      if is_crash_obs ob then st else bs_final st' r' more
  end.

(* ------------------------------------------------------------------------------------------
   The same op language on the window-level model of BufWin.v.  The only thing BufWin.v does
   not keep is what `get` can still reach behind the window start: the bytes consumed since the
   last repositioning ([a_behind] -- buffer.rs never overwrites them before the next fill_buf). *)
Record absst := mkabs { a_win : bufwin; a_behind : bytes }.

Definition abs_build (cap : nat) : absst := mkabs (bw_new cap) [].
Definition abs_from_slice (d : bytes) : absst := mkabs (bw_from_slice d) [].

Definition abs_observe (ev : bev) (a : absst) : obs :=
  mkobs ev (win (a_win a)) (bw_position (a_win a)) (consumed (a_win a)).

Definition abs_advance (a : absst) (amt : nat) : outcome absst :=
  match bw_advance (a_win a) amt with
  | Ok b' => Ok (mkabs b' (a_behind a ++ firstn amt (win (a_win a))))
  | Err e => Err e | Panic s => Panic s | OOB s => OOB s | OutOfFuel => OutOfFuel
  end.

Definition abs_end (a : absst) : nat := length (a_behind a) + length (win (a_win a)).

Definition abs_get (a : absst) (i j : nat) : outcome bytes :=
  if Nat.ltb (abs_end a) j then OOB 8606%N
  else if Nat.ltb j i then OOB 8607%N
  else Ok (firstn (j - i) (skipn i (a_behind a ++ win (a_win a)))).

Definition abs_step (a : absst) (r : rd) (o : op) : obs * absst * rd :=
  match o with
  | OFill _ =>
      let early := Nat.leb (cap (a_win a)) (length (win (a_win a))) in
      let beh := if early then a_behind a else [] in
      match bw_fill_buf (a_win a) r with
      | FillOk n b' r' => let a' := mkabs b' beh in (abs_observe (EFill n) a', a', r')
      | FillIo b' r' => let a' := mkabs b' beh in (abs_observe EIo a', a', r')
      | FillFull b' r' => let a' := mkabs b' beh in (abs_observe EFull a', a', r')
      end
  | OFillZ _ =>
      let b := a_win a in
      if Nat.leb (cap b) (length (win b))
      then (abs_observe (if Nat.eqb (cap b) 0 then EFill 0 else EFull) a, a, r)
      else let a' := mkabs (mkbw (cap b) (win b) 0 (prior b + consumed b)) [] in (abs_observe (EFill 0) a', a', r)
  | OAdv k | OAdvTo k =>
      let amt := Nat.modulo k (length (win (a_win a)) + 1) in
      match abs_advance a amt with
      | Ok a' => (abs_observe (EAdv amt) a', a', r)
      | e => (crash_obs (crash_site e), a, r)
      end
  | OGet i j =>
      let a0 := Nat.modulo i (abs_end a + 1) in
      let b0 := a0 + Nat.modulo j (abs_end a - a0 + 1) in
      match abs_get a a0 b0 with
      | Ok bs => (abs_observe (EGet bs) a, a, r)
      | e => (crash_obs (crash_site e), a, r)
      end
  | ORawAdv k =>
      match abs_advance a k with
      | Ok a' => (abs_observe (EAdv k) a', a', r)
      | e => (crash_obs (crash_site e), a, r)
      end
  | ORawAdvTo p =>
      if Nat.ltb p (consumed (a_win a)) then (crash_obs 8600%N, a, r)
      else
        match abs_advance a (p - consumed (a_win a)) with
        | Ok a' => (abs_observe (EAdv (p - consumed (a_win a))) a', a', r)
        | _ => (crash_obs 8600%N, a, r)
        end
  | ORawGet i j =>
      match abs_get a i j with
      | Ok bs => (abs_observe (EGet bs) a, a, r)
      | e => (crash_obs (crash_site e), a, r)
      end
  end.

Fixpoint abs_run (a : absst) (r : rd) (ops : list op) : list obs :=
  match ops with
  | [] => []
  | o :: more =>
      let '(ob, a', r') := abs_step a r o in
      if is_crash_obs ob then [ob] else ob :: abs_run a' r' more
  end.

(* ------------------------------------------------------------------------------------------
   Any client of the window (both TokenReaders are such clients): it chooses the next operation
   from what it has observed so far.  [fuel] bounds the number of operations. *)
Definition client := list obs -> option op.

Fixpoint bs_drive (fuel : nat) (c : client) (st : store) (r : rd) (seen : list obs) : list obs :=
  match fuel with
  | O => seen
  | S f =>
      match c seen with
      | None => seen
      | Some o =>
          let '(ob, st', r') := bs_step st r o in
          if is_crash_obs ob then seen ++ [ob] else bs_drive f c st' r' (seen ++ [ob])
      end
  end.

Fixpoint abs_drive (fuel : nat) (c : client) (a : absst) (r : rd) (seen : list obs) : list obs :=
  match fuel with
  | O => seen
  | S f =>
      match c seen with
      | None => seen
      | Some o =>
          let '(ob, a', r') := abs_step a r o in
          if is_crash_obs ob then seen ++ [ob] else abs_drive f c a' r' (seen ++ [ob])
      end
  end.
