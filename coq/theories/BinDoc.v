(* Abstract binary documents, their encoding, and the SPECIFICATION of binary deserialization.

   A document is a logical tree together with its encoding choices (the [e] of `enc d e` is folded
   into the tree: which of token-id / quoted / unquoted / i32 a key uses, which integer or float
   token a number uses):
     bscalar   one scalar token
     bval      scalar | rgb block | array of values | object = fields (key = value), each possibly
               preceded by a ghost `{ }`, plus a possible ghost before the closing brace
   toks_val / toks_fields  the token sequence;  enc_val / enc_doc  its bytes (BinPrim.write_token).

   spec_value = SerdeShape.walk over the document itself ([ops_doc]): a value IS its own token, a
   cursor is the list of items still to come.  It answers Err EC_UNFIT where the target shape does
   not fit the document -- exactly the (hint, value) combinations on which the three deserializers
   are NOT required to agree (and in fact differ):
     * a map/struct target on a non-empty array or on rgb, a seq/tuple/any/scalar target on an object
     * a tuple target shorter than the array (the tape path stops silently, the other two demand Close)
     * deserialize_u16 on a token id in VALUE position (tape resolves the id, the others hand out the id)
   Ghost objects do not appear in cursors at all: skipping them is what the paths must do.
   No proofs in this file. *)
From JV Require Import Bytes Tables BinPrim SerdeShape BinDeCommon.
Open Scope N_scope.

Inductive bscalar :=
| SId (id : N)
| SQuoted (s : bytes) | SUnquoted (s : bytes)
| SI32 (z : Z) | SU32 (n : N) | SU64 (n : N) | SI64 (z : Z)
| SBool (b : bool) | SF32 (x : bytes) | SF64 (x : bytes).

Inductive bval :=
| VScalar (s : bscalar)
| VRgb (c : rgb)
| VArr (vs : list bval)
| VObj (fs : list (bool * bscalar * bval)) (gend : bool).   (* field = (ghost before, key, value) *)

Definition bfield := (bool * bscalar * bval)%type.
Definition bf_ghost (f : bfield) : bool := fst (fst f).
Definition bf_key (f : bfield) : bscalar := snd (fst f).
Definition bf_val (f : bfield) : bval := snd f.

(* ------------------------------------------------------------------ encoding *)
Definition tok_of (s : bscalar) : btoken :=
  match s with
  | SId id => BId id
  | SQuoted x => BQuoted x | SUnquoted x => BUnquoted x
  | SI32 z => BI32 z | SU32 n => BU32 n | SU64 n => BU64 n | SI64 z => BI64 z
  | SBool b => BBool b | SF32 x => BF32 x | SF64 x => BF64 x
  end.

Definition ghost_toks (g : bool) : list btoken := if g then [BOpen; BClose] else [].

Fixpoint toks_val (v : bval) : list btoken :=
  match v with
  | VScalar s => [tok_of s]
  | VRgb c => [BRgb c]
  | VArr vs => BOpen :: flat_map toks_val vs ++ [BClose]
  | VObj fs g =>
    BOpen :: flat_map (fun f : bfield => ghost_toks (bf_ghost f) ++ tok_of (bf_key f) :: BEqual :: toks_val (bf_val f)) fs
          ++ ghost_toks g ++ [BClose]
  end.

Definition toks_field (f : bfield) : list btoken :=
  ghost_toks (bf_ghost f) ++ tok_of (bf_key f) :: BEqual :: toks_val (bf_val f).
Definition toks_fields (fs : list bfield) : list btoken := flat_map toks_field fs.

Definition wbytes (ts : list btoken) : bytes := concat (map write_token ts).
Definition enc_val (v : bval) : bytes := wbytes (toks_val v).
(* a document = the fields of the root object, not wrapped in braces *)
Definition enc_doc (fs : list bfield) (gend : bool) : bytes := wbytes (toks_fields fs ++ ghost_toks gend).

(* ------------------------------------------------------------------ the specification walk *)
Inductive dcur :=
| CSeq (vs : list bval)
| CMap (fs : list bfield) (gend : bool) (pending : option bval)
| CDone.

Section Spec.
  Variable cfg : bcfg.
  Notation act := (action dcur rgb).

  Definition scalar_prim (s : bscalar) : outcome prim :=
    match s with
    | SId id => id_prim cfg id
    | SQuoted x | SUnquoted x => str_prim cfg x
    | SI32 z => Ok (PI32 z) | SI64 z => Ok (PI64 z)
    | SU32 n | SU64 n => Ok (PU n)
    | SBool b => Ok (PBool b)
    | SF32 x => Ok (PF32 (c_f32 cfg x))
    | SF64 x => Ok (PF64 (c_f64 cfg x))
    end.

  Definition doc_dispatch (iskey : bool) (h : hint) (v : bval) (st : dcur) : outcome (act * dcur) :=
    match v with
    | VScalar s =>
      match h, s with
      | HIgnored, _ => if iskey then Err EC_UNFIT else Ok (APrim PUnit, st)
      | HU16, SId id => if iskey then Ok (APrim (PU16 id), st) else Err EC_UNFIT
      | _, _ => do p <- scalar_prim s; Ok (APrim p, st)
      end
    | VRgb c =>
      if iskey then Err EC_UNFIT else
      match h with
      | HIgnored => Ok (APrim PUnit, st)
      | HMap => Err EC_UNFIT
      | _ => Ok (AColor c, st)
      end
    | VArr vs =>
      if iskey then Err EC_UNFIT else
      match h with
      | HIgnored => Ok (APrim PUnit, st)
      | HMap => match vs with [] => Ok (AMap (CMap [] false None), st) | _ => Err EC_UNFIT end
      | _ => Ok (ASeq (CSeq vs), st)
      end
    | VObj fs g =>
      if iskey then Err EC_UNFIT else
      match h with
      | HIgnored => Ok (APrim PUnit, st)
      | HMap => Ok (AMap (CMap fs g None), st)
      | _ => Err EC_UNFIT
      end
    end.

  Definition doc_next_elem (st : dcur) : outcome (option bval * dcur) :=
    match st with
    | CSeq (v :: vs) => Ok (Some v, CSeq vs)
    | CSeq [] => Ok (None, CDone)
    | _ => Err EC_UNFIT
    end.

  Definition doc_seq_exit (h : hint) (outer sub : dcur) (drained : bool) : outcome dcur :=
    match h, drained, sub with
    | HSeq, false, CSeq [] => Ok outer
    | HSeq, false, _ => Err EC_UNFIT      (* a tuple shorter than the array *)
    | _, _, _ => Ok outer
    end.

  Definition doc_next_key (_ : bool) (st : dcur) : outcome (option bval * dcur) :=
    match st with
    | CMap (f :: fs) g None => Ok (Some (VScalar (bf_key f)), CMap fs g (Some (bf_val f)))
    | CMap [] _ None => Ok (None, CDone)
    | _ => Err EC_UNFIT
    end.

  Definition doc_next_value (st : dcur) : outcome (bval * dcur) :=
    match st with
    | CMap fs g (Some v) => Ok (v, CMap fs g None)
    | _ => Err EC_UNFIT
    end.

  Definition ops_doc : path_ops dcur bval rgb :=
    mkops doc_dispatch doc_next_elem doc_seq_exit (fun outer _ => Ok outer) doc_next_key doc_next_value (color_visit cfg).

  Definition spec_value (fuel : nat) (sh : shape) (fs : list bfield) (gend : bool) : outcome dval :=
    walk_root (c_fops cfg) ops_doc fuel sh (CMap fs gend None).

  (* the shape fits the document: the specification has an answer (a value or a genuine error) *)
  Definition fits_doc (fuel : nat) (sh : shape) (fs : list bfield) (gend : bool) : Prop :=
    spec_value fuel sh fs gend <> Err EC_UNFIT.
End Spec.

(* ------------------------------------------------------------------ well-formed documents *)
Definition key_kind (s : bscalar) : bool :=
  match s with SId _ | SQuoted _ | SUnquoted _ | SI32 _ => true | _ => false end.

Definition wf_scalar (s : bscalar) : bool :=
  match s with
  | SId id => is_id id && (id <? 65536)
  | SQuoted x | SUnquoted x => lenN x <? 65536
  | SI32 z => ((-2147483648 <=? z) && (z <? 2147483648))%Z
  | SI64 z => ((-9223372036854775808 <=? z) && (z <? 9223372036854775808))%Z
  | SU32 n => n <? 4294967296
  | SU64 n => n <? 18446744073709551616
  | SBool _ => true
  | SF32 x => Nat.eqb (length x) 4
  | SF64 x => Nat.eqb (length x) 8
  end.

Definition wf_rgbb (c : rgb) : bool :=
  (rgb_r c <? 4294967296) && (rgb_g c <? 4294967296) && (rgb_b c <? 4294967296) &&
  match rgb_a c with Some a => a <? 4294967296 | None => true end.

Definition first_no_ghost (fs : list bfield) : bool :=
  match fs with [] => true | f :: _ => negb (bf_ghost f) end.

(* objects are non-empty (an empty `{ }` is the empty ARRAY: same bytes), a ghost is never the first
   entry of an object, keys are id / quoted / unquoted / i32 *)
Fixpoint wf_val (v : bval) : bool :=
  match v with
  | VScalar s => wf_scalar s
  | VRgb c => wf_rgbb c
  | VArr vs => forallb wf_val vs
  | VObj fs g =>
    match fs with [] => false | _ => true end && first_no_ghost fs &&
    forallb (fun f : bfield => key_kind (bf_key f) && wf_scalar (bf_key f) && wf_val (bf_val f)) fs
  end.

Definition wf_field (f : bfield) : bool := key_kind (bf_key f) && wf_scalar (bf_key f) && wf_val (bf_val f).
(* root: may be empty; a ghost at the very start is rejected by the tape parser *)
Definition wf_doc (fs : list bfield) (gend : bool) : bool :=
  first_no_ghost fs && forallb wf_field fs && (match fs with [] => negb gend | _ => true end).

(* ------------------------------------------------------------------ the expected tape
   flat_val base v = the BinaryTape tokens of v when its first token sits at index [base]
   (containers carry absolute indices).  Equal signs and ghost objects leave no trace. *)
From JV Require Import BinTape.

Definition ttok (s : bscalar) : tok :=
  match s with
  | SId id => TToken id
  | SQuoted x => TQuoted x | SUnquoted x => TUnquoted x
  | SI32 z => TI32 z | SU32 n => TU32 n | SU64 n => TU64 n | SI64 z => TI64 z
  | SBool b => TBool b | SF32 x => TF32 x | SF64 x => TF64 x
  end.

Fixpoint flat_val (base : nat) (v : bval) {struct v} : tape :=
  match v with
  | VScalar s => [ttok s]
  | VRgb c => [TRgb c]
  | VArr vs =>
    let inner := (fix go (b : nat) (l : list bval) {struct l} : tape :=
                    match l with
                    | [] => []
                    | x :: r => let t := flat_val b x in t ++ go (b + length t)%nat r
                    end) (S base) vs in
    TArray (S base + length inner) :: inner ++ [TEnd base]
  | VObj fs _ =>
    let inner := (fix go (b : nat) (l : list bfield) {struct l} : tape :=
                    match l with
                    | [] => []
                    | f :: r => let t := flat_val (S b) (bf_val f) in ttok (bf_key f) :: t ++ go (S b + length t)%nat r
                    end) (S base) fs in
    TObject (S base + length inner) :: inner ++ [TEnd base]
  end.

Fixpoint flat_vals (b : nat) (l : list bval) : tape :=
  match l with
  | [] => []
  | x :: r => flat_val b x ++ flat_vals (b + length (flat_val b x)) r
  end.
Fixpoint flat_fields (b : nat) (l : list bfield) : tape :=
  match l with
  | [] => []
  | f :: r => ttok (bf_key f) :: flat_val (S b) (bf_val f) ++ flat_fields (S b + length (flat_val (S b) (bf_val f))) r
  end.
Definition flat_doc (fs : list bfield) : tape := flat_fields 0 fs.

(* what the TAPE parser additionally needs: an rgb block is only recognised in object-value position
   (binary/tape.rs: `LexemeId::RGB if state == ObjectValue`); as an array element its id is an ordinary
   token followed by an array *)
Fixpoint tape_ok (v : bval) : bool :=
  match v with
  | VScalar _ | VRgb _ => true
  | VArr vs => forallb (fun x => match x with VRgb _ => false | _ => tape_ok x end) vs
  | VObj fs _ => forallb (fun f : bfield => tape_ok (bf_val f)) fs
  end.
Definition tape_ok_doc (fs : list bfield) : bool := forallb (fun f : bfield => tape_ok (bf_val f)) fs.

(* ------------------------------------------------------------------ the statement-level names *)
(* the specification at the fuel the entry points use *)
Definition spec_of (cfg : bcfg) (sh : shape) (fs : list bfield) (g : bool) : outcome dval :=
  spec_value cfg (deser_fuel sh (enc_doc fs g)) sh fs g.
Definition fits_shape (cfg : bcfg) (sh : shape) (fs : list bfield) (g : bool) : Prop :=
  spec_of cfg sh fs g <> Err EC_UNFIT.

(* a document without its ghost objects *)
Fixpoint erase_val (v : bval) : bval :=
  match v with
  | VArr vs => VArr (map erase_val vs)
  | VObj fs _ => VObj (map (fun f : bfield => (false, bf_key f, erase_val (bf_val f))) fs) false
  | _ => v
  end.
Definition erase_field (f : bfield) : bfield := (false, bf_key f, erase_val (bf_val f)).
Definition erase_fields (fs : list bfield) : list bfield := map erase_field fs.

(* ------------------------------------------------------------------ encoding choices (C10, binary half)
   Two documents are the same LOGICAL document under different encoding choices when they differ only
   in: which token carries an integer (I32 / U32 / U64 / I64), how a string is written (quoted,
   unquoted, or a token id that the resolver/strategy turns into the same string), and ghosts. *)
Definition scalar_int (s : bscalar) : option Z :=
  match s with
  | SI32 z | SI64 z => Some z
  | SU32 n | SU64 n => Some (Z.of_N n)
  | _ => None
  end.
Definition string_like (s : bscalar) : bool :=
  match s with SId _ | SQuoted _ | SUnquoted _ => true | _ => false end.

Section Shared.
  Variable cfg : bcfg.

  Definition leq_scalar (s1 s2 : bscalar) : Prop :=
    scalar_prim cfg s1 = scalar_prim cfg s2 \/ (exists z, scalar_int s1 = Some z /\ scalar_int s2 = Some z).

  Fixpoint leq_val (v1 v2 : bval) {struct v1} : Prop :=
    match v1, v2 with
    | VScalar s1, VScalar s2 => leq_scalar s1 s2
    | VRgb c1, VRgb c2 => c1 = c2
    | VArr l1, VArr l2 =>
      (fix go (l1 l2 : list bval) {struct l1} : Prop :=
         match l1, l2 with
         | [], [] => True
         | x :: r, y :: r' => leq_val x y /\ go r r'
         | _, _ => False
         end) l1 l2
    | VObj f1 _, VObj f2 _ =>
      (fix go (l1 l2 : list bfield) {struct l1} : Prop :=
         match l1, l2 with
         | [], [] => True
         | x :: r, y :: r' => (leq_scalar (bf_key x) (bf_key y) /\ leq_val (bf_val x) (bf_val y)) /\ go r r'
         | _, _ => False
         end) f1 f2
    | _, _ => False
    end.
  Fixpoint leq_vals (l1 l2 : list bval) : Prop :=
    match l1, l2 with
    | [], [] => True
    | x :: r, y :: r' => leq_val x y /\ leq_vals r r'
    | _, _ => False
    end.
  Fixpoint leq_fields (l1 l2 : list bfield) : Prop :=
    match l1, l2 with
    | [], [] => True
    | x :: r, y :: r' => (leq_scalar (bf_key x) (bf_key y) /\ leq_val (bf_val x) (bf_val y)) /\ leq_fields r r'
    | _, _ => False
    end.

  (* the specification restricted to targets for which the encoding choice cannot matter: no
     dynamically typed (`any`, date) target on an integer, no u16 (token) target on a string-like scalar *)
  Definition shared_dispatch (iskey : bool) (h : hint) (v : bval) (st : dcur) : outcome (action dcur rgb * dcur) :=
    match v, h with
    | VScalar s, HAny => match scalar_int s with Some _ => Err EC_UNFIT | None => doc_dispatch cfg iskey h v st end
    | VScalar s, HU16 => if string_like s then Err EC_UNFIT else doc_dispatch cfg iskey h v st
    | _, _ => doc_dispatch cfg iskey h v st
    end.
  Definition ops_shared : path_ops dcur bval rgb :=
    mkops shared_dispatch doc_next_elem doc_seq_exit (fun outer _ => Ok outer) doc_next_key doc_next_value (color_visit cfg).
  Definition spec_shared (fuel : nat) (sh : shape) (fs : list bfield) (gend : bool) : outcome dval :=
    walk_root (c_fops cfg) ops_shared fuel sh (CMap fs gend None).
End Shared.
