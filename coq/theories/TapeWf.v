(* Well-formedness of a parsed text tape (DESIGN Appendix A.1, exit condition of I1-I6):
   what every tape produced by TextTape::parse satisfies and what the DOM / JSON layers rely on.
   Given BOTH as Props (used by the theorems of C16/C17) and as boolean checkers (run on every
   real tape by the correspondence oracle `dom.wf`; soundness checker -> Prop is proved in
   proofs/DomProofs.v).  No proofs here. *)
From JV Require Import Bytes TextTok.
Open Scope nat_scope.

Definition tget (t : ttape) (i : nat) : option ttok := nth_error t i.

Definition container_end (k : ttok) : option nat :=
  match k with TArray e _ | TObject e _ => Some e | _ => None end.

Definition is_container (k : ttok) : bool :=
  match k with TArray _ _ | TObject _ _ => true | _ => false end.

(* tokens FieldsIter accepts as a key: Quoted | Unquoted | Parameter | UndefinedParameter *)
Definition is_key (k : ttok) : bool :=
  match k with TUnquoted _ | TQuoted _ | TParameter _ | TUndefinedParameter _ => true | _ => false end.

Definition is_operator (k : ttok) : bool :=
  match k with TOperator _ => true | _ => false end.

(* a token that stands for itself inside a value sequence (everything but containers, End, Header) *)
Definition is_leaf (k : ttok) : bool :=
  match k with
  | TUnquoted _ | TQuoted _ | TParameter _ | TUndefinedParameter _ | TOperator _ | TMixedContainer => true
  | _ => false
  end.

Definition is_end_of (k : option ttok) (i : nat) : bool :=
  match k with Some (TEnd j) => Nat.eqb j i | _ => false end.

(* ---------------------------------------------------------------- Dyck nesting of a range *)
(* [dyck t i e]: the tokens in [i, e) are a concatenation of complete values: leaves,
   `Header container` (both inside the range), or `container ... End`, each container's [end] pointing at its own End
   token which points back. *)
Inductive dyck (t : ttape) : nat -> nat -> Prop :=
| dyck_nil : forall i, dyck t i i
| dyck_leaf : forall i e k,
    tget t i = Some k -> is_leaf k = true -> dyck t (S i) e -> dyck t i e
| dyck_header : forall i e s k,
    tget t i = Some (THeader s) -> tget t (S i) = Some k -> is_container k = true -> S i < e ->
    dyck t (S i) e -> dyck t i e
| dyck_cont : forall i e k e',
    tget t i = Some k -> container_end k = Some e' -> i < e' -> e' < e ->
    is_end_of (tget t e') i = true ->
    dyck t (S i) e' -> dyck t (S e') e -> dyck t i e.

Fixpoint dyckb (fuel : nat) (t : ttape) (i e : nat) : bool :=
  match fuel with
  | O => false
  | S f =>
      if Nat.eqb i e then true
      else
        match tget t i with
        | None => false
        | Some k =>
            match k with
            | TArray e' _ | TObject e' _ =>
                Nat.ltb i e' && Nat.ltb e' e && is_end_of (tget t e') i
                && dyckb f t (S i) e' && dyckb f t (S e') e
            | TEnd _ => false
            | THeader _ =>
                match tget t (S i) with
                | Some k' => is_container k' && Nat.ltb (S i) e && dyckb f t (S i) e
                | None => false
                end
            | _ => dyckb f t (S i) e
            end
        end
  end.

(* ---------------------------------------------------------------- object grammar *)
(* where the value that starts at [v] ends (one past its last token):
   scalar-like | container | Header container *)
Definition value_end (t : ttape) (v : nat) : option nat :=
  match tget t v with
  | Some (TArray e _) | Some (TObject e _) => Some (S e)
  | Some (THeader _) =>
      match tget t (S v) with
      | Some (TArray e _) | Some (TObject e _) => Some (S e)
      | _ => None
      end
  | Some k => if is_key k then Some (S v) else None
  | None => None
  end.

(* index of the value of the field whose key is at [i]: an operator token may sit in between *)
Definition value_ind_of (t : ttape) (i : nat) : nat :=
  match tget t (S i) with
  | Some (TOperator _) => S (S i)
  | _ => S i
  end.

(* [fields_end t i e r]: [i, r) is `(key [op] value)*`, and either r = e or t[r] is the
   MixedContainer marker (r < e), after which the array part of a mixed container follows. *)
Inductive fields_end (t : ttape) : nat -> nat -> nat -> Prop :=
| fe_done : forall e, fields_end t e e e
| fe_mixed : forall i e, tget t i = Some TMixedContainer -> i < e -> fields_end t i e i
| fe_field : forall i e r k n,
    tget t i = Some k -> is_key k = true ->
    value_end t (value_ind_of t i) = Some n -> n <= e ->
    fields_end t n e r -> fields_end t i e r.

Fixpoint fields_endb (fuel : nat) (t : ttape) (i e : nat) : option nat :=
  match fuel with
  | O => None
  | S f =>
      if Nat.eqb i e then Some e
      else
        match tget t i with
        | Some TMixedContainer => if Nat.ltb i e then Some i else None
        | Some k =>
            if is_key k then
              match value_end t (value_ind_of t i) with
              | Some n => if Nat.leb n e then fields_endb f t n e else None
              | None => None
              end
            else None
        | None => None
        end
  end.

(* ---------------------------------------------------------------- the predicate *)
(* per container token *)
Definition cont_ok (t : ttape) (i : nat) : Prop :=
  match tget t i with
  | Some (TArray e _) =>
      i < e /\ e < length t /\ is_end_of (tget t e) i = true /\ dyck t (S i) e
  | Some (TObject e m) =>
      i < e /\ e < length t /\ is_end_of (tget t e) i = true /\ dyck t (S i) e /\
      exists r, fields_end t (S i) e r /\ (m = true -> r < e)
  | Some (THeader _) =>
      match tget t (S i) with Some k => is_container k = true | None => False end
  | _ => True
  end.

Definition tape_wf (t : ttape) : Prop :=
  dyck t 0 (length t) /\
  (exists r, fields_end t 0 (length t) r) /\
  (forall i, i < length t -> cont_ok t i) /\
  (match tget t 0 with Some k => is_container k = false | None => True end).

Definition cont_okb (t : ttape) (i : nat) : bool :=
  let fuel := S (length t) in
  match tget t i with
  | Some (TArray e _) =>
      Nat.ltb i e && Nat.ltb e (length t) && is_end_of (tget t e) i && dyckb fuel t (S i) e
  | Some (TObject e m) =>
      Nat.ltb i e && Nat.ltb e (length t) && is_end_of (tget t e) i && dyckb fuel t (S i) e &&
      match fields_endb fuel t (S i) e with
      | Some r => if m then Nat.ltb r e else true
      | None => false
      end
  | Some (THeader _) =>
      match tget t (S i) with Some k => is_container k | None => false end
  | _ => true
  end.

Definition tape_wfb (t : ttape) : bool :=
  let fuel := S (length t) in
  dyckb fuel t 0 (length t) &&
  (match fields_endb fuel t 0 (length t) with Some _ => true | None => false end) &&
  forallb (cont_okb t) (seq 0 (length t)) &&
  (match tget t 0 with Some k => negb (is_container k) | None => true end).

(* a finer verdict for the oracle: which clause fails first (0 = well formed) *)
Definition tape_wf_code (t : ttape) : nat :=
  let fuel := S (length t) in
  if negb (dyckb fuel t 0 (length t)) then 1
  else if match fields_endb fuel t 0 (length t) with Some _ => false | None => true end then 2
  else if negb (forallb (cont_okb t) (seq 0 (length t))) then 3
  else if match tget t 0 with Some k => is_container k | None => false end then 4
  else 0.
