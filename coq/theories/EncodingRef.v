(* C12, wave 4: (1) the Windows-1252 code page written out literally (independent of data.rs, which
   Tables.w1252 is generated from): the 0x80..0x9f block of the Unicode mapping file
   MAPPINGS/VENDORS/MICSFT/WINDOWS/CP1252.TXT, with the five positions that file leaves undefined
   (0x81 0x8d 0x8f 0x90 0x9d) mapped to the C1 controls of the same value ("best fit" / WHATWG
   windows-1252 index), identity on 0x00..0x7f and 0xa0..0xff;
   (2) the other crate-internal caller of decode_windows1252: Scalar's Display (src/scalar.rs:158-165).
   No proofs here; see proofs/EncodingMoreProofs.v. *)
From JV Require Import Bytes Tables Utf8 Encoding.
Open Scope N_scope.

Definition cp1252_block : list N :=
  [ 8364 (* 80 EURO SIGN *);            129 (* 81 undefined -> C1 *);      8218 (* 82 SINGLE LOW-9 QUOTATION MARK *);
    402 (* 83 LATIN SMALL F WITH HOOK *); 8222 (* 84 DOUBLE LOW-9 QUOTE *);   8230 (* 85 HORIZONTAL ELLIPSIS *);
    8224 (* 86 DAGGER *);               8225 (* 87 DOUBLE DAGGER *);        710 (* 88 MODIFIER CIRCUMFLEX *);
    8240 (* 89 PER MILLE SIGN *);       352 (* 8a S WITH CARON *);          8249 (* 8b SINGLE LEFT ANGLE QUOTE *);
    338 (* 8c LIGATURE OE *);           141 (* 8d undefined -> C1 *);       381 (* 8e Z WITH CARON *);
    143 (* 8f undefined -> C1 *);       144 (* 90 undefined -> C1 *);       8216 (* 91 LEFT SINGLE QUOTE *);
    8217 (* 92 RIGHT SINGLE QUOTE *);   8220 (* 93 LEFT DOUBLE QUOTE *);    8221 (* 94 RIGHT DOUBLE QUOTE *);
    8226 (* 95 BULLET *);               8211 (* 96 EN DASH *);              8212 (* 97 EM DASH *);
    732 (* 98 SMALL TILDE *);           8482 (* 99 TRADE MARK SIGN *);      353 (* 9a s WITH CARON *);
    8250 (* 9b SINGLE RIGHT ANGLE QUOTE *); 339 (* 9c LIGATURE oe *);       157 (* 9d undefined -> C1 *);
    382 (* 9e z WITH CARON *);          376 (* 9f Y WITH DIAERESIS *) ].

Definition cp1252 (b : N) : N :=
  if (128 <=? b) && (b <? 160) then nth (N.to_nat (b - 128)) cp1252_block 0 else b.

(* the reference mapping of the property, over the literal code page *)
Definition cp1252_reference (d : bytes) : bytes :=
  flat_map (fun c => encode_utf8 (cp1252 c)) (unescape (trim_ascii_end d)).

(* impl fmt::Display for Scalar: if self.is_ascii() { write!(f, "{}", decode_windows1252(self.data)) }
   else { write!(f, "non-ascii string of {} length", self.data.len()) }.
   Some s = the decoded text, None = the message (the glue prints the length). *)
Definition scalar_display (d : bytes) : outcome (option bytes) :=
  if forallb is_ascii d then do c <- decode_windows1252 d; Ok (Some (cow_bytes c))
  else Ok None.
