(* C11 (wave 4): the SPECIFICATION of the scalar conversions as total functions of the byte string, written
   from the grammar (optional sign, maximal digit run, optional '.', maximal digit run) and the decimal value,
   not from the state machine of scalar.rs.  Definitions only; proofs/ScalarSpecProofs.v proves
       to_u64 d = u64_spec d,  to_i64 d = i64_spec d,  to_bool d = bool_spec d,  to_f64 d = f64_spec d
   for EVERY byte string d (value, refusal, and refusal class).  The spec functions are also run against the
   real code (kinds scalar.spec / f64.full), f64_spec_x carries the payload of ScalarError::PrecisionLoss
   that the model ScalarF64.to_f64 drops.

   Also: the remaining public surface of `Scalar` (as_bytes, is_ascii, Display, Debug, PartialEq). *)
From Flocq Require Import IEEE754.BinarySingleNaN IEEE754.Binary IEEE754.Bits.
From JV Require Import Bytes Tables Utf8 Encoding Scalar ScalarF64 Date.
Open Scope N_scope.

(* maximal run of ASCII digits at the front, and what follows it *)
Fixpoint digit_span (d : bytes) : bytes * bytes :=
  match d with
  | x :: r => if is_digit x then let (ds, rest) := digit_span r in (x :: ds, rest) else ([], d)
  | [] => ([], [])
  end.

(* decimal value of a digit string, on top of the value `acc` of the digits before it *)
Definition dec_on (acc : N) (ds : bytes) : N := fold_left (fun a x => a * 10 + (x - 48)) ds acc.
Definition dec_value (ds : bytes) : N := dec_on 0 ds.

Definition is_nil {A} (l : list A) : bool := match l with [] => true | _ => false end.

(* ------------------------------------------------------------------ to_u64:  ['+'] digit*  /  digit+
   refusal classes: AllDigits = shape, Overflow = the digit run (even when followed by garbage) is >= 2^64 *)
Definition u64_spec (d : bytes) : outcome N :=
  match d with
  | [] => Err E_AllDigits
  | c :: r =>
    let plus := c =? 43 in
    let (ds, rest) := digit_span (if plus then r else d) in
    if negb plus && is_nil ds then Err E_AllDigits
    else if U64_LIM <=? dec_value ds then Err E_Overflow
    else if is_nil rest then Ok (dec_value ds) else Err E_AllDigits
  end.

(* ------------------------------------------------------------------ to_i64:  ['+'|'-'] digit*  /  digit+ *)
Definition i64_spec (d : bytes) : outcome Z :=
  match d with
  | [] => Err E_AllDigits
  | c :: r =>
    let neg := c =? 45 in
    let signed := neg || (c =? 43) in
    let (ds, rest) := digit_span (if signed then r else d) in
    if negb signed && is_nil ds then Err E_AllDigits
    else if I64_MAX <? dec_value ds then Err E_Overflow
    else if is_nil rest then Ok (if neg then - Z.of_N (dec_value ds) else Z.of_N (dec_value ds))%Z
    else Err E_AllDigits
  end.

(* ------------------------------------------------------------------ the prefix parsers behind them (pub(crate), used by
   the date parser): value of the leading run and the unread rest *)
Definition i64t_spec (d : bytes) : outcome (Z * bytes) :=
  match d with
  | [] => Err E_AllDigits
  | c :: r =>
    let neg := c =? 45 in
    let signed := neg || (c =? 43) in
    let (ds, rest) := digit_span (if signed then r else d) in
    if negb signed && is_nil ds then Err E_AllDigits
    else if I64_MAX <? dec_value ds then Err E_Overflow
    else Ok ((if neg then - Z.of_N (dec_value ds) else Z.of_N (dec_value ds))%Z, rest)
  end.

(* to_u64_t(d, start): at least one digit must be read *)
Definition u64t_spec (d : bytes) (start : N) : outcome (N * bytes) :=
  let (ds, rest) := digit_span d in
  if U64_LIM <=? dec_on start ds then Err E_Overflow
  else if is_nil ds then Err E_Overflow
  else Ok (dec_on start ds, rest).

(* ------------------------------------------------------------------ to_bool *)
Definition bool_spec (d : bytes) : outcome bool :=
  if beqb d [121; 101; 115] then Ok true else if beqb d [110; 111] then Ok false else Err E_InvalidBool.

(* ------------------------------------------------------------------ to_f64
   ['-'] ( ['+'] digit* | digit+ ) [ '.' digit+ ]   |   ['-'] '.' digit+
   result with the payload of PrecisionLoss *)
Inductive f64res : Type :=
| FOk (b : binary64)
| FLoss (b : binary64)        (* Err(PrecisionLoss(b)) *)
| FErr (e : N).

(* sign * (i as f64 / 1e<k>) *)
Definition f64_scaled (neg : bool) (i k : N) : binary64 :=
  f64_mul (f64_of_Z (if neg then (-1)%Z else 1%Z)) (f64_div (f64_of_Z (Z.of_N i)) (pow10_f64 k)).

(* no '.': the integer v with its sign *)
Definition f64_int_spec (neg : bool) (v : N) : f64res :=
  if neg && (I64_MAX <? v) then FErr E_Overflow
  else
    let z := (if neg then - Z.of_N v else Z.of_N v)%Z in
    if f64_int_guard <? v then FLoss (f64_of_Z z) else FOk (f64_of_Z z).

(* after the '.': at least one digit, nothing else, at most 22 digits, all digits together < 2^64 *)
Definition f64_frac_spec (neg : bool) (lead : N) (after_dot : bytes) : f64res :=
  let (fs, rest) := digit_span after_dot in
  let i := dec_on lead fs in
  if U64_LIM <=? i then FErr E_Overflow
  else if is_nil fs then FErr E_Overflow
  else if negb (is_nil rest) then FErr E_AllDigits
  else if (22 <? length fs)%nat then FErr E_Overflow
  else FOk (f64_scaled neg i (N.of_nat (length fs))).

(* the string after the optional '-' *)
Definition f64_body_spec (neg : bool) (body : bytes) : f64res :=
  match body with
  | [] => FErr E_AllDigits
  | c :: r =>
    if c =? 46 then f64_frac_spec neg 0 r
    else
      let plus := c =? 43 in
      let (ds, rest) := digit_span (if plus then r else body) in
      if negb plus && is_nil ds then FErr E_AllDigits
      else if U64_LIM <=? dec_value ds then FErr E_Overflow
      else match rest with
           | [] => f64_int_spec neg (dec_value ds)
           | x :: fr => if x =? 46 then f64_frac_spec neg (dec_value ds) fr else FErr E_AllDigits
           end
  end.

Definition f64_spec_x (d : bytes) : f64res :=
  match d with
  | [] => FErr E_AllDigits
  | c :: r => if c =? 45 then f64_body_spec true r else f64_body_spec false d
  end.

Definition f64_forget (r : f64res) : outcome binary64 :=
  match r with FOk b => Ok b | FLoss _ => Err E_PrecisionLoss | FErr e => Err e end.

Definition f64_spec (d : bytes) : outcome binary64 := f64_forget (f64_spec_x d).

(* printable form for the correspondence: (0, bits) = Ok, (4, bits of the payload) = PrecisionLoss, (class, 0) *)
Definition f64_spec_show (d : bytes) : N * Z :=
  match f64_spec_x d with
  | FOk b => (0, f64_bits b)
  | FLoss b => (E_PrecisionLoss, f64_bits b)
  | FErr e => (e, 0%Z)
  end.

(* ------------------------------------------------------------------ the rest of the public surface of Scalar *)
Definition scalar_is_ascii (d : bytes) : bool := forallb is_ascii d.

(* "non-ascii string of {} length" *)
Definition NON_ASCII_PRE : bytes := [110;111;110;45;97;115;99;105;105;32;115;116;114;105;110;103;32;111;102;32].
Definition NON_ASCII_POST : bytes := [32;108;101;110;103;116;104].

(* impl Display: decode_windows1252 of an all-ASCII scalar (trailing blanks trimmed, backslashes dropped) *)
Definition scalar_display (d : bytes) : outcome bytes :=
  if scalar_is_ascii d then omap cow_bytes (decode_windows1252 d)
  else Ok (NON_ASCII_PRE ++ dec_N (lenN d) ++ NON_ASCII_POST).

(* impl Debug: "Scalar { <display> }" *)
Definition scalar_debug (d : bytes) : outcome bytes :=
  do s <- scalar_display d; Ok ([83;99;97;108;97;114;32;123;32] ++ s ++ [32;125]).

(* derive(PartialEq) on the slice *)
Definition scalar_eq (a b : bytes) : bool := beqb a b.
