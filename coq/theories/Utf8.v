(* UTF-8: encoding of a scalar value (char::encode_utf8 / String::push), well-formedness
   (Unicode Table 3-7, what core::str::from_utf8 accepts) and the model of
   String::from_utf8_lossy (core::str::lossy::Utf8Chunks: one U+FFFD per maximal invalid
   subpart).  No proofs here; see proofs/Utf8Proofs.v. *)
From JV Require Import Bytes.
Open Scope N_scope.

(* ---------- scalar values and their encoding ---------- *)
Definition is_scalar_value (c : N) : bool := (c <? 55296) || ((57344 <=? c) && (c <? 1114112)).

(* char::encode_utf8 *)
Definition encode_utf8 (c : N) : bytes :=
  if c <? 128 then [c]
  else if c <? 2048 then [192 + c / 64; 128 + c mod 64]
  else if c <? 65536 then [224 + c / 4096; 128 + (c / 64) mod 64; 128 + c mod 64]
  else [240 + c / 262144; 128 + (c / 4096) mod 64; 128 + (c / 64) mod 64; 128 + c mod 64].

Definition encode_all (cs : list N) : bytes := flat_map encode_utf8 cs.

(* ---------- byte classes used by the std decoder ---------- *)
Definition is_cont (b : N) : bool := N.land b 192 =? 128.        (* b & 0xC0 == 0x80 *)
Definition in_range (lo hi b : N) : bool := (lo <=? b) && (b <=? hi).

(* core::str::validations::utf8_char_width (UTF8_CHAR_WIDTH table) *)
Definition utf8_char_width (b : N) : N :=
  if b <? 128 then 1
  else if b <? 194 then 0
  else if b <? 224 then 2
  else if b <? 240 then 3
  else if b <? 245 then 4
  else 0.

(* second byte admissible after a 3-byte lead *)
Definition second3 (b c : N) : bool :=
  ((b =? 224) && in_range 160 191 c)
  || (in_range 225 236 b && in_range 128 191 c)
  || ((b =? 237) && in_range 128 159 c)
  || (in_range 238 239 b && in_range 128 191 c).

(* second byte admissible after a 4-byte lead *)
Definition second4 (b c : N) : bool :=
  ((b =? 240) && in_range 144 191 c)
  || (in_range 241 243 b && in_range 128 191 c)
  || ((b =? 244) && in_range 128 143 c).

(* ---------- decoding to scalar values: Some cs iff the bytes are well-formed UTF-8 ---------- *)
Fixpoint utf8_decode (d : bytes) : option (list N) :=
  match d with
  | [] => Some []
  | b :: r =>
    if b <? 128 then option_map (cons b) (utf8_decode r)
    else if utf8_char_width b =? 2 then
      match r with
      | c1 :: r1 =>
        if is_cont c1 then option_map (cons ((b - 192) * 64 + (c1 - 128))) (utf8_decode r1) else None
      | _ => None
      end
    else if utf8_char_width b =? 3 then
      match r with
      | c1 :: c2 :: r2 =>
        if second3 b c1 && is_cont c2
        then option_map (cons ((b - 224) * 4096 + (c1 - 128) * 64 + (c2 - 128))) (utf8_decode r2)
        else None
      | _ => None
      end
    else if utf8_char_width b =? 4 then
      match r with
      | c1 :: c2 :: c3 :: r3 =>
        if second4 b c1 && is_cont c2 && is_cont c3
        then option_map (cons ((b - 240) * 262144 + (c1 - 128) * 4096 + (c2 - 128) * 64 + (c3 - 128))) (utf8_decode r3)
        else None
      | _ => None
      end
    else None
  end.

Definition valid_utf8 (d : bytes) : bool :=
  match utf8_decode d with Some _ => true | None => false end.

(* ---------- String::from_utf8_lossy ---------- *)
Definition REPLACEMENT : bytes := [239; 191; 189].   (* U+FFFD *)

(* Utf8Chunks::next, unrolled over the input: a valid sequence is copied, an invalid chunk
   (the lead byte plus the continuation bytes accepted so far, the offending byte excluded)
   becomes one U+FFFD and decoding resumes at the offending byte.  safe_get past the end
   reads 0, which is never an admissible continuation. *)
Fixpoint lossy (d : bytes) : bytes :=
  match d with
  | [] => []
  | b :: r =>
    if b <? 128 then b :: lossy r
    else if utf8_char_width b =? 2 then
      match r with
      | c1 :: r1 => if is_cont c1 then b :: c1 :: lossy r1 else REPLACEMENT ++ lossy r
      | [] => REPLACEMENT
      end
    else if utf8_char_width b =? 3 then
      match r with
      | c1 :: r1 =>
        if second3 b c1 then
          match r1 with
          | c2 :: r2 => if is_cont c2 then b :: c1 :: c2 :: lossy r2 else REPLACEMENT ++ lossy r1
          | [] => REPLACEMENT
          end
        else REPLACEMENT ++ lossy r
      | [] => REPLACEMENT
      end
    else if utf8_char_width b =? 4 then
      match r with
      | c1 :: r1 =>
        if second4 b c1 then
          match r1 with
          | c2 :: r2 =>
            if is_cont c2 then
              match r2 with
              | c3 :: r3 => if is_cont c3 then b :: c1 :: c2 :: c3 :: lossy r3 else REPLACEMENT ++ lossy r2
              | [] => REPLACEMENT
              end
            else REPLACEMENT ++ lossy r1
          | [] => REPLACEMENT
          end
        else REPLACEMENT ++ lossy r
      | [] => REPLACEMENT
      end
    else REPLACEMENT ++ lossy r
  end.

(* Cow returned by String::from_utf8_lossy / the decoders *)
Inductive cow : Type := Borrowed (s : bytes) | Owned (s : bytes).
Definition cow_bytes (c : cow) : bytes := match c with Borrowed s | Owned s => s end.
Definition is_borrowed (c : cow) : bool := match c with Borrowed _ => true | Owned _ => false end.

(* from_utf8_lossy: the first chunk covers everything iff the input is valid -> Borrowed *)
Definition from_utf8_lossy (d : bytes) : cow :=
  if valid_utf8 d then Borrowed d else Owned (lossy d).
