(* C16/C17 bridge: the loop invariant of TextTape.ploop that carries the OBJECT GRAMMAR
   (DESIGN.md A.1, I5 and the "object grammar proved in the same induction" remark).
   Definitions only; the proofs are in proofs/TextTapeGrammarProofs.v and the statements in
   Props/C17_parser.v and Props/C16_parser.v.

   Everything is stated on token LISTS sitting at an absolute offset (as TextTapeWf.closed), not
   on indices of a finished tape, because the parser grows the tape at its right end:

   gvals off l      l (at absolute index off) is a sequence of complete values: leaves, `Header`
                    immediately followed by a container, `container body End` with matching
                    indices; every Object's body satisfies the object grammar [objg].
   gfields off F    F is `(key [op] value)*` (built from the right: the parser appends).
   phM / phK / phKO the body so far of an object that is still open: `fields M anything`,
                    `fields key`, `fields key [op]`.
   glevel t p k off V   t = (suspended outer levels) ++ V, V the tokens of the innermost open
                    container (kind k, its token at index p, V starting at off), every suspended
                    level waiting for the value that the next inner container will be.
   ginv             what holds of (state, mixed_mode, parent, tape) before each iteration. *)
From JV Require Import Bytes TextTok TextTape TapeWf.
Open Scope nat_scope.

Definition is_ops (ops : ttape) : Prop := ops = [] \/ exists o, ops = [TOperator o].
Definition is_hdr (h : ttape) : Prop := h = [] \/ exists s, h = [THeader s].

(* a complete value starting at absolute index off *)
Inductive gvalue : nat -> ttape -> Prop :=
| gval_scalar : forall off x, is_key x = true -> gvalue off [x]
| gval_cont : forall off c body,
    container_end c = Some (off + 1 + length body) -> gvalue off (c :: body ++ [TEnd off])
| gval_header : forall off s c body,
    container_end c = Some (off + 2 + length body) ->
    gvalue off (THeader s :: c :: body ++ [TEnd (S off)]).

Inductive gfields : nat -> ttape -> Prop :=
| gf_nil : forall off, gfields off []
| gf_snoc : forall off F k ops v,
    gfields off F -> is_key k = true -> is_ops ops ->
    gvalue (off + length F + 1 + length ops) v ->
    gfields off (F ++ k :: ops ++ v).

Definition phM (off : nat) (V : ttape) : Prop :=
  exists F R, V = F ++ TMixedContainer :: R /\ gfields off F.
Definition phKO (off : nat) (V : ttape) : Prop :=
  exists F k ops, V = F ++ k :: ops /\ gfields off F /\ is_key k = true /\ is_ops ops.
Definition phK (off : nat) (V : ttape) : Prop :=
  exists F k, V = F ++ [k] /\ gfields off F /\ is_key k = true.
(* waiting for a container: `fields M ..` or `fields key [op] [Header]` *)
Definition awaitc (off : nat) (V : ttape) : Prop :=
  phM off V \/ exists V' h, V = V' ++ h /\ is_hdr h /\ phKO off V'.

(* the body of a closed Object{mixed = m} *)
Definition objg (off : nat) (V : ttape) (m : bool) : Prop :=
  phM off V \/ (m = false /\ gfields off V).

Definition body_ok (c : ttok) (off : nat) (V : ttape) : Prop :=
  match c with TObject _ m => objg off V m | _ => True end.

Inductive gvals : nat -> ttape -> Prop :=
| gv_nil : forall off, gvals off []
| gv_leaf : forall off x l, is_leaf x = true -> gvals (S off) l -> gvals off (x :: l)
| gv_header : forall off s c l,
    is_container c = true -> gvals (S off) (c :: l) -> gvals off (THeader s :: c :: l)
| gv_cont : forall off c body rest,
    off <> 0 -> container_end c = Some (off + 1 + length body) ->
    gvals (S off) body -> body_ok c (S off) body ->
    gvals (off + 2 + length body) rest ->
    gvals off (c :: body ++ TEnd off :: rest).

(* complete values, possibly followed by a Header whose container is the pending placeholder *)
Definition hvals (off : nat) (V : ttape) : Prop :=
  exists V' h, V = V' ++ h /\ is_hdr h /\ gvals off V'.

Inductive lkind := KTop | KArr (m : bool) | KObj (m : bool).

Definition kind_of (c : ttok) : lkind :=
  match c with TObject _ m => KObj m | TArray _ m => KArr m | _ => KTop end.

Definition objlike (k : lkind) : Prop := match k with KArr _ => False | _ => True end.

(* what a level that is suspended (an inner container is open) must look like, by the state that
   [restore] will re-establish when the inner container closes *)
Definition susp_ok (k : lkind) (off : nat) (V : ttape) : Prop :=
  match k with
  | KArr _ => True
  | KObj true => phM off V
  | _ => awaitc off V
  end.

Inductive glevel : ttape -> nat -> lkind -> nat -> ttape -> Prop :=
| gl_top : forall V, glevel V 0 KTop 0 V
| gl_open : forall t0 p0 k0 off0 V0 c V,
    glevel t0 p0 k0 off0 V0 -> t0 <> [] -> container_end c = Some p0 ->
    hvals off0 V0 -> susp_ok k0 off0 V0 ->
    glevel (t0 ++ c :: V) (length t0) (kind_of c) (S (length t0)) V.

(* the innermost level, by parser state (I5: the key states never run in mixed mode; a written
   mixed flag or mixed mode means the marker is there) *)
Definition level_ok (st : pst) (m : bool) (k : lkind) (off : nat) (V : ttape) : Prop :=
  (k = KObj true -> phM off V) /\
  (m = true -> objlike k -> phM off V) /\
  match st with
  | SKey => m = false /\ (phM off V \/ gfields off V)
  | SKvs => m = false /\ (phM off V \/ phK off V) /\ exists V1 x, V = V1 ++ [x] /\ is_leaf x = true
  | SObjVal => m = false /\ (phM off V \/ phKO off V)
  | SArrVal => objlike k -> phM off V
  | SOpen => objlike k -> awaitc off V
  end.

Definition ginv (st : pst) (m : bool) (p : nat) (t : ttape) : Prop :=
  match st with
  | SOpen => exists t', t = t' ++ [TArray 0 false] /\ t' <> [] /\
             exists k off V, glevel t' p k off V /\ hvals off V /\ level_ok SOpen m k off V
  | _ => exists k off V, glevel t p k off V /\ gvals off V /\ level_ok st m k off V
  end.

Definition GInv (s : pstate) : Prop := ginv (pst_ s) (pmixed s) (pparent s) (ptape s).

(* exit condition: the whole tape is a top-level object body *)
Definition gfinal (t : ttape) : Prop := gvals 0 t /\ (phM 0 t \/ gfields 0 t).

Definition gpost (r : step_res) : Prop :=
  match r with
  | Next s' => GInv s'
  | Done t => gfinal t
  | _ => True
  end.
