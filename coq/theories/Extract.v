(* The only file with extraction directives.  ExtrOcamlBasic only: bool/option/unit/list/
   prod/sumbool/sumor map to OCaml's own; positive/N/Z/nat stay Coq's datatypes. *)
From JV Require Import Bytes Tables U64Swar Scalar Date.
Require Import ExtrOcamlBasic.
Cd "../ocaml/extracted".
Separate Extraction
  Bytes.le_word Bytes.word_bytes
  U64Swar.fast_digit_parse U64Swar.contains_zero_byte U64Swar.count_chunk U64Swar.leading_whitespace
  U64Swar.repeat_byte
  Tables.boundary_class Tables.w1252
  Scalar.to_u64 Scalar.to_i64 Scalar.to_bool Scalar.to_u64_t Scalar.to_i64_t
  Date.date_parse Date.datehour_parse Date.uniform_parse Date.raw_parse
  Date.date_from_binary Date.date_from_binary_heuristic Date.datehour_from_binary
  Date.datehour_from_binary_heuristic Date.date_to_binary Date.datehour_to_binary
  Date.game_fmt Date.iso_fmt Date.add_days Date.days_until Date.raw_cmp
  Date.date_from_ymd_opt Date.datehour_from_ymdh_opt Date.uniform_from_ymd_opt
  Date.raw_from_ymdh_opt Date.raw_month Date.raw_day Date.raw_hour Date.x_parse.
Cd "../../coq".
