(* binary serde deserializer walks (C04 / C10): the three extracted models run from the BYTES.
   de.model.bin <path> <strategy> <resolver> <flavor> <shape> <hex>       (arguments of de.bin)
     path     = tape | slice | fslice | reader:<cap>:<sched> | btape | bslice | breader:<cap>:<sched>   (sched without faults: "-" | n,n,..[*])
     strategy = error | stringify | ignore
     resolver = map:<id>=<hexname>,... | lines:<id>=<hexname>,...   ("-" = empty)
     flavor   = eu4 (windows-1252, fixed point floats) | raw (utf-8, IEEE floats)
   output = the value as an s-expression (harness show_value) or ERR:<class>.
   The flavor's float decoders and serde's `as` casts are parameters of the model ([bcfg], [fops]);
   they are implemented here natively (exactly: integer -> float rounding is done on Zarith integers). *)
open Glue

module St = Stdlib.String
module Li = Stdlib.List

(* ---------------------------------------------------------------- floats *)
let zt_of_bytes_le (b : BinNums.coq_N list) : Z.t =
  Li.fold_right (fun x acc -> Z.add (zt_of_n x) (Z.shift_left acc 8)) b Z.zero

let signed bits (z : Z.t) : Z.t =
  if Z.geq z (Z.shift_left Z.one (bits - 1)) then Z.sub z (Z.shift_left Z.one bits) else z

(* nearest-even rounding of an integer to a float with [mant] significant bits; the result is an
   integer that the float format represents exactly (or overflows, never here: |z| < 2^64) *)
let round_int mant (z : Z.t) : Z.t =
  let a = Z.abs z in
  let n = Z.numbits a in
  if n <= mant then z
  else begin
    let sh = n - mant in
    let q = Z.shift_right a sh in
    let r = Z.sub a (Z.shift_left q sh) in
    let half = Z.shift_left Z.one (sh - 1) in
    let c = Z.compare r half in
    let q' = if c > 0 || (c = 0 && Z.testbit q 0) then Z.succ q else q in
    let v = Z.shift_left q' sh in
    if Z.sign z < 0 then Z.neg v else v
  end

let bits32_of_float (f : float) : BinNums.coq_N =
  n_of_zt (Z.logand (Z.of_int32 (Int32.bits_of_float f)) (Z.of_string "0xffffffff"))
let bits64_of_float (f : float) : BinNums.coq_N =
  n_of_zt (Z.logand (Z.of_int64 (Int64.bits_of_float f)) (Z.of_string "0xffffffffffffffff"))
let float_of_bits32 (n : BinNums.coq_N) : float =
  Int32.float_of_bits (Z.to_int32 (signed 32 (zt_of_n n)))
let float_of_bits64 (n : BinNums.coq_N) : float =
  Int64.float_of_bits (Z.to_int64 (signed 64 (zt_of_n n)))
let to_f32 (f : float) : float = Int32.float_of_bits (Int32.bits_of_float f)

let fops : SerdeShape.fops = {
  SerdeShape.f32_of_f64 = (fun b -> bits32_of_float (float_of_bits64 b));
  SerdeShape.f64_of_f32 = (fun b -> bits64_of_float (float_of_bits32 b));
  SerdeShape.f32_of_int = (fun z -> bits32_of_float (Z.to_float (round_int 24 (zt_of_z z))));
  SerdeShape.f64_of_int = (fun z -> bits64_of_float (Z.to_float (round_int 53 (zt_of_z z))));
}

(* fam_de.rs `impl BinaryFlavor for Fl` *)
let eu4_f32 (b : BinNums.coq_N list) : BinNums.coq_N =
  let i = signed 32 (zt_of_bytes_le b) in
  let f = Z.to_float (round_int 24 i) in                  (* i32 as f32 *)
  bits32_of_float (to_f32 (f /. 1000.0))                  (* f32 division: double then single is exact rounding *)
let eu4_f64 (b : BinNums.coq_N list) : BinNums.coq_N =
  let i = signed 64 (zt_of_bytes_le b) in
  let v = Z.to_float (round_int 53 i) /. 32768.0 in
  bits64_of_float (Float.round (v *. 100000.0) /. 100000.0)
let raw_bits (b : BinNums.coq_N list) : BinNums.coq_N = n_of_zt (zt_of_bytes_le b)

(* ---------------------------------------------------------------- shapes *)
exception Shape_syntax of string

let parse_shape (s : string) : SerdeShape.shape =
  let i = ref 0 in
  let n = St.length s in
  let peek () = if !i < n then s.[!i] else '\000' in
  let eat c = if peek () <> c then raise (Shape_syntax (Printf.sprintf "expected %c at %d" c !i)) else incr i in
  let word () =
    let st = !i in
    while !i < n && (match s.[!i] with 'a' .. 'z' | 'A' .. 'Z' | '0' .. '9' | '-' -> true | _ -> false) do incr i done;
    St.sub s st (!i - st) in
  let hexname () = bytes_of_hex (word ()) in
  let rec shape () : SerdeShape.shape =
    let w = word () in
    match w with
    | "str" -> SerdeShape.ShStr | "bool" -> SerdeShape.ShBool
    | "u8" -> SerdeShape.ShU (n_of_int 8) | "u16" -> SerdeShape.ShU (n_of_int 16)
    | "u32" -> SerdeShape.ShU (n_of_int 32) | "u64" -> SerdeShape.ShU (n_of_int 64)
    | "i8" -> SerdeShape.ShI (n_of_int 8) | "i16" -> SerdeShape.ShI (n_of_int 16)
    | "i32" -> SerdeShape.ShI (n_of_int 32) | "i64" -> SerdeShape.ShI (n_of_int 64)
    | "f32" -> SerdeShape.ShF32 | "f64" -> SerdeShape.ShF64
    | "date" -> SerdeShape.ShDate | "dh" -> SerdeShape.ShDateHour
    | "any" -> SerdeShape.ShAny | "ign" -> SerdeShape.ShIgn
    | "opt" | "seq" | "map" | "prop" ->
      eat '(';
      let x = shape () in
      eat ')';
      (match w with
       | "opt" -> SerdeShape.ShOpt x | "seq" -> SerdeShape.ShSeq x
       | "map" -> SerdeShape.ShMap x | _ -> SerdeShape.ShProp x)
    | "tup" ->
      eat '(';
      let v = ref [] in
      while peek () <> ')' do
        v := shape () :: !v;
        if peek () = ',' then incr i
      done;
      eat ')';
      SerdeShape.ShTup (Li.rev !v)
    | "enum" ->
      eat '(';
      let v = ref [] in
      while peek () <> ')' do
        v := hexname () :: !v;
        if peek () = ',' then incr i
      done;
      eat ')';
      SerdeShape.ShEnum (Li.rev !v)
    | "struct" | "tstruct" ->
      eat '(';
      let v = ref [] in
      while peek () <> ')' do
        let name = hexname () in
        let token = if peek () = '#' then (incr i; Some (n_of_int (int_of_string ("0x" ^ word ())))) else None in
        let mode = match peek () with
          | '*' -> incr i; SerdeShape.MCollect
          | '!' -> incr i; SerdeShape.MLast
          | _ -> SerdeShape.MOnce in
        eat ':';
        let sh = shape () in
        v := (((name, token), mode), sh) :: !v;
        if peek () = ',' then incr i
      done;
      eat ')';
      SerdeShape.ShStruct (w = "tstruct", Li.rev !v)
    | _ -> raise (Shape_syntax ("unknown word " ^ w)) in
  let r = shape () in
  if !i <> n then raise (Shape_syntax "trailing input");
  r

(* ---------------------------------------------------------------- values *)
let rec show_dval (b : Stdlib.Buffer.t) (v : SerdeShape.dval) : unit =
  let add = Stdlib.Buffer.add_string b in
  let pair_list tag pr l =
    add ("(" ^ tag);
    Li.iter (fun x -> add " ("; pr x; add ")") l;
    add ")" in
  match v with
  | SerdeShape.DStr s -> add ("(str " ^ hex_of_bytes s ^ ")")
  | SerdeShape.DBytes s -> add ("(bytes " ^ hex_of_bytes s ^ ")")
  | SerdeShape.DBool x -> add (if x then "(bool 1)" else "(bool 0)")
  | SerdeShape.DU n -> add ("(u " ^ string_of_n n ^ ")")
  | SerdeShape.DI z -> add ("(i " ^ string_of_z z ^ ")")
  | SerdeShape.DF32 x -> add (Printf.sprintf "(f32 %s)" (Z.format "%08x" (zt_of_n x)))
  | SerdeShape.DF64 x -> add (Printf.sprintf "(f64 %s)" (Z.format "%016x" (zt_of_n x)))
  | SerdeShape.DDate (y, m, d, h) ->
    add (Printf.sprintf "(date %s %s %s %s)" (string_of_z y) (string_of_z m) (string_of_z d) (string_of_z h))
  | SerdeShape.DNone -> add "(none)"
  | SerdeShape.DSome x -> add "(some "; show_dval b x; add ")"
  | SerdeShape.DUnit -> add "(unit)"
  | SerdeShape.DIgn -> add "(ign)"
  | SerdeShape.DSeq xs -> add "(seq"; Li.iter (fun x -> add " "; show_dval b x) xs; add ")"
  | SerdeShape.DMap kvs -> pair_list "map" (fun (k, x) -> add (hex_of_bytes k ^ " "); show_dval b x) kvs
  | SerdeShape.DAMap kvs -> pair_list "amap" (fun (k, x) -> show_dval b k; add " "; show_dval b x) kvs
  | SerdeShape.DStruct kvs -> pair_list "struct" (fun (k, x) -> add (hex_of_bytes k ^ " "); show_dval b x) kvs
  | SerdeShape.DProp (op, x) -> add ("(prop " ^ string_of_n op ^ " "); show_dval b x; add ")"
  | SerdeShape.DEnum s -> add ("(enum " ^ hex_of_bytes s ^ ")")

let class_name (e : BinNums.coq_N) : string =
  match int_of_n e with
  | 1 -> "de" | 2 -> "unktoken" | 3 -> "io" | 4 -> "eof" | 5 -> "syntax" | 6 -> "full"
  | 101 -> "dup" | 102 -> "missing" | 900 -> "unfit"
  | _ -> "other"

let show_result (o : SerdeShape.dval Bytes.outcome) : string =
  match o with
  | Bytes.Ok v -> let b = Stdlib.Buffer.create 256 in show_dval b v; Stdlib.Buffer.contents b
  | Bytes.Err e -> "ERR:" ^ class_name e
  | _ -> crash_tag ^ ":" ^ show_crash o

(* ---------------------------------------------------------------- configuration *)
let parse_resolver (spec : string) : (BinNums.coq_N * BinNums.coq_N list) list =
  let i = St.index spec ':' in
  let kind = St.sub spec 0 i and rest = St.sub spec (i + 1) (St.length spec - i - 1) in
  if kind <> "map" && kind <> "lines" then failwith "resolver kind";
  if rest = "-" || rest = "" then []
  else
    (* later inserts win in a HashMap: search the reversed list *)
    Li.rev (Li.map (fun kv ->
        let j = St.index kv '=' in
        (n_of_int (int_of_string ("0x" ^ St.sub kv 0 j)), bytes_of_hex (St.sub kv (j + 1) (St.length kv - j - 1))))
        (St.split_on_char ',' rest))

let make_cfg strat res fl : BinDeCommon.bcfg =
  let strategy = match strat with
    | "error" -> BinDeCommon.SError | "stringify" -> BinDeCommon.SStringify | "ignore" -> BinDeCommon.SIgnore
    | _ -> failwith "strategy" in
  let table = parse_resolver res in
  let cow o = Bytes.omap Utf8.cow_bytes o in
  let decode, f32, f64 = match fl with
    | "eu4" -> (fun d -> cow (Encoding.decode_windows1252 d)), eu4_f32, eu4_f64
    | "raw" -> (fun d -> cow (Encoding.decode_utf8 d)), raw_bits, raw_bits
    | _ -> failwith "flavor" in
  { BinDeCommon.c_resolve = BinDeCommon.assoc_resolve table;
    c_strategy = strategy; c_decode = decode; c_f32 = f32; c_f64 = f64; c_fops = fops }

(* harness sched syntax without fault injection: "-" | n,n,..[*]; a cycle is unrolled far enough *)
let parse_sched (s : string) (len : int) : BufWin.event list =
  if St.contains s '@' || St.contains s 'F' || St.contains s 'P' then failwith "faulty schedule";
  let cyc = St.length s > 0 && s.[St.length s - 1] = '*' in
  let b = if cyc then St.sub s 0 (St.length s - 1) else s in
  if b = "-" || b = "" then []
  else begin
    let evs = Li.map (fun x -> BufWin.Data (n_of_int (max 1 (int_of_string x)))) (St.split_on_char ',' b) in
    if not cyc then evs
    else begin
      let out = ref [] in
      let k = ref 0 in
      while !k < len + 4 do
        out := Li.rev_append evs !out;
        k := !k + Li.length evs
      done;
      Li.rev !out
    end
  end

let run_model path strat res fl shape hexdata : string =
  let cfg = make_cfg strat res fl in
  let sh = parse_shape shape in
  let d = bytes_of_hex hexdata in
  let r =
    (* [a_c10] btape / bslice / breader:<cap>:<sched> = the same three walks (harness: the deserializer-returning builder methods) *)
    let path = if path = "btape" then "tape" else if path = "bslice" then "slice"
      else if St.length path > 8 && St.sub path 0 8 = "breader:" then St.sub path 1 (St.length path - 1) else path in
    if path = "tape" then BinDeTape.deser_tape cfg sh d
    else if path = "slice" || path = "fslice" then BinDeOndemand.deser_ondemand cfg sh d
    else if St.length path > 7 && St.sub path 0 7 = "reader:" then begin
      match St.split_on_char ':' path with
      | [_; cap; sched] ->
        BinDeReader.deser_reader cfg (nat_of_int (int_of_string cap)) (parse_sched sched (Li.length d)) sh d
      | _ -> failwith "reader path"
    end
    else failwith "path" in
  show_result r

let () =
  register "de.model.bin" (function
      | [path; strat; res; fl; shape; h] -> run_model path strat res fl shape h
      | _ -> "BADCASE")
