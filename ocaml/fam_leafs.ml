(* family leafs (C11, C12): to_f64, UTF-8 foundations, encoding.rs decoders *)
open Glue

let show_cow (c : Utf8.cow) : string =
  (if Utf8.is_borrowed c then "B:" else "O:") ^ hex_of_bytes (Utf8.cow_bytes c)

let hex16_of_z (z : BinNums.coq_Z) : string = Z.format "%016x" (zt_of_z z)

let () =
  register "f64.parse" (function [h] -> show_outcome hex16_of_z (ScalarF64.to_f64_bits (bytes_of_hex h)) | _ -> "BADCASE");
  register "enc.w1252" (function [h] -> show_outcome show_cow (Encoding.decode_windows1252 (bytes_of_hex h)) | _ -> "BADCASE");
  register "enc.utf8" (function [h] -> show_outcome show_cow (Encoding.decode_utf8 (bytes_of_hex h)) | _ -> "BADCASE");
  register "utf8.lossy" (function [h] -> show_cow (Utf8.from_utf8_lossy (bytes_of_hex h)) | _ -> "BADCASE");
  register "utf8.valid" (function [h] -> string_of_bool (Utf8.valid_utf8 (bytes_of_hex h)) | _ -> "BADCASE");
  register "utf8.encode" (function [c] ->
      let n = n_of_string c in
      if Utf8.is_scalar_value n then hex_of_bytes (Utf8.encode_utf8 n) else "none" | _ -> "BADCASE")
