(* [w_fwd, wave 5] method tables of the serde Deserializer impls: the extracted DeMethods.predict over the generated
   Tables.de_tables.
     de.meth.bin  <path> <strategy> <resolver> <flavor> <pos> <hint> <tok> <hex>
     de.meth.text <path> <enc> <hint> <tok> <hex>
   path -> deserializer: tape = ValueDeserializer (pos value) / KeyDeserializer (pos key), slice = OndemandTokenDeserializer,
   reader:.. = BinaryReaderTokenDeserializer; text slice / tape / objreader = ValueDeserializer, reader:.. / freader:.. =
   TextReaderTokenDeserializer.  <tok> names the token kind of <hex> (the model works on token kinds, not bytes).
   output = <head>[><head>..] ok|err   (same as harness/src/fam_dmeth.rs; `?` for a cell the model does not cover) *)
open Glue

module St = Stdlib.String
module Li = Stdlib.List

let methods = ["any"; "bool"; "i8"; "i16"; "i32"; "i64"; "i128"; "u8"; "u16"; "u32"; "u64"; "u128"; "f32"; "f64"; "char"; "str"; "string";
               "bytes"; "byte_buf"; "option"; "unit"; "unit_struct"; "newtype_struct"; "seq"; "tuple"; "tuple_struct"; "map"; "struct"; "enum";
               "identifier"; "ignored_any"]
let heads = [| "bool"; "int"; "u16"; "float"; "char"; "str"; "bytes"; "none"; "some"; "unit"; "newtype"; "seq"; "map"; "enum" |]
let toks = ["idk", 0; "idu", 1; "quoted", 2; "unquoted", 3; "i32", 4; "u32", 5; "u64", 6; "i64", 7; "bool", 8; "f32", 9; "f64", 10; "rgb", 11;
            "arr", 12; "empty", 13; "obj", 14; "tint", 20; "tneg", 21; "tbool", 22; "tfloat", 23; "tword", 24; "tarr", 25; "tobj", 26]

let index x l =
  let rec go i = function [] -> failwith ("unknown " ^ x) | y :: r -> if y = x then i else go (i + 1) r in
  go 0 l

let starts p s = St.length s >= St.length p && St.sub s 0 (St.length p) = p

let show (o : BinNums.coq_N list * BinNums.coq_N) : string =
  let hs, st = o in
  let h = if hs = [] then "-" else St.concat ">" (Li.map (fun x -> heads.(int_of_n x)) hs) in
  match int_of_n st with
  | 0 -> h ^ " ok"
  | 1 -> h ^ " err"
  | _ -> "?"

let () =
  register "de.meth.bin" (function
    | [path; strat; _res; _fl; pos; hint; tok; _hex] ->
      let d =
        if path = "tape" then (if pos = "key" then 5 else 6)
        else if path = "slice" then 3
        else if starts "reader:" path then 1
        else failwith "path" in
      let s = match strat with "error" -> 0 | "stringify" -> 1 | "ignore" -> 2 | _ -> failwith "strategy" in
      show (DeMethods.predict (n_of_int d) (n_of_int (index hint methods)) (n_of_int (Li.assoc tok toks)) (n_of_int s))
    | _ -> "BADCASE");
  register "de.meth.text" (function
    | [path; _enc; hint; tok; _hex] ->
      let d = if starts "reader:" path || starts "freader:" path then 11 else 13 in
      show (DeMethods.predict (n_of_int d) (n_of_int (index hint methods)) (n_of_int (Li.assoc tok toks)) (n_of_int 2))
    | _ -> "BADCASE")
