(* text writer family (C14, C15): call lists and tapes for the extracted Writer model.
   Formats: see harness/src/fam_writer.rs. *)
open Glue

exception Bad

let split c s = Stdlib.String.split_on_char c s
let n_of_hexs (s : string) : BinNums.coq_N = n_of_zt (Z.of_string_base 16 s)

let cfg_of (s : string) : Writer.cfg =
  match split ',' s with
  | [c; f; p] ->
    (* `d` = the builder's setter is not called: TextWriterBuilder::default() = space / 2 *)
    let ci = if c = "d" then 32 else int_of_string c and fi = if f = "d" then 2 else int_of_string f in
    if ci < 0 || ci > 255 || fi < 0 || fi > 255 then raise Bad;
    { Writer.indent_char = n_of_int ci; Writer.indent_factor = n_of_int fi; Writer.dbg = (p = "d") }
  | _ -> raise Bad

let in_range lo hi (s : string) = let z = Z.of_string s in if Z.lt z (Z.of_string lo) || Z.gt z (Z.of_string hi) then raise Bad
let u32 s = in_range "0" "4294967295" s; n_of_string s
let u64 s = in_range "0" "18446744073709551615" s; n_of_string s
let i32 s = in_range "-2147483648" "2147483647" s; z_of_string s
let i64 s = in_range "-9223372036854775808" "9223372036854775807" s; z_of_string s
let alpha = function [] -> None | [a] -> Some (u32 a) | _ -> raise Bad

(* the float oracle of one case: (is64, bits, precision) -> text, collected while decoding the calls *)
let ftab : ((bool * string * string), BinNums.coq_N list) Hashtbl.t = Hashtbl.create 16
let zstr n = Z.to_string (zt_of_n n)
let fdisp (is64 : bool) (bits : BinNums.coq_N) (prec : BinNums.coq_N option) : BinNums.coq_N list =
  let p = match prec with None -> "" | Some p -> zstr p in
  match Hashtbl.find_opt ftab (is64, zstr bits, p) with Some t -> t | None -> raise Bad
let reg_f is64 bits prec text =
  let b = n_of_hexs bits in
  Hashtbl.replace ftab (is64, zstr b, prec) (bytes_of_hex text); b

let date_of which y m d h : Date.rawdate =
  let zy, zm, zd, zh = z_of_string y, z_of_string m, z_of_string d, z_of_string h in
  let r = match which with
    | "d" -> Date.date_from_ymd_opt zy zm zd
    | "h" -> Date.datehour_from_ymdh_opt zy zm zd zh
    | "u" -> Bytes.Ok (Date.uniform_from_ymd_opt zy zm zd)
    | _ -> raise Bad in
  match r with Bytes.Ok (Some r) -> r | _ -> raise Bad

let btok_of (p : string list) : Writer.btok =
  match p with
  | "A" :: _ -> Writer.BArray BinNums.N0
  | "O" :: _ -> Writer.BObject BinNums.N0
  | ["M"] -> Writer.BMixed
  | ["EQ"] -> Writer.BEqual
  | "E" :: _ -> Writer.BEnd BinNums.N0
  | ["B"; b] -> Writer.BBool (b = "1")
  | ["U32"; n] -> Writer.BU32 (u32 n)
  | ["U64"; n] -> Writer.BU64 (u64 n)
  | ["I64"; z] -> Writer.BI64 (i64 z)
  | ["I32"; z] -> Writer.BI32 (i32 z)
  | ["Q"; h] -> Writer.BQuoted (bytes_of_hex h)
  | ["U"; h] -> Writer.BUnquoted (bytes_of_hex h)
  | ["F32"; bits; text] -> Writer.BF32 (reg_f false bits "" text)
  | ["F64"; bits; text] -> Writer.BF64 (reg_f true bits "" text)
  | ["T"; id] -> in_range "0" "65535" id; Writer.BToken (n_of_string id)
  | "RGB" :: r :: g :: b :: a -> Writer.BRgb (u32 r, u32 g, u32 b, alpha a)
  | _ -> raise Bad

let call_of (s : string) : Writer.call =
  match split ':' s with
  | ["u"; h] -> Writer.CUnquoted (bytes_of_hex h)
  | ["q"; h] -> Writer.CQuoted (bytes_of_hex h)
  | ["op"; c] -> let c = int_of_string c in if c < 0 || c > 7 then raise Bad; Writer.COperator (Ttglue.op_of_code c)
  | ["h"; h] -> Writer.CHeader (bytes_of_hex h)
  | ["s"] -> Writer.CStart
  | ["os"] -> Writer.CObjectStart
  | ["as"] -> Writer.CArrayStart
  | ["e"] -> Writer.CEnd
  | ["b"; b] -> Writer.CBool (b = "1")
  | ["i32"; z] -> Writer.CI32 (i32 z)
  | ["u32"; n] -> Writer.CU32 (u32 n)
  | ["u64"; n] -> Writer.CU64 (u64 n)
  | ["i64"; z] -> Writer.CI64 (i64 z)
  | ["f32"; bits; text] -> Writer.CF32 (reg_f false bits "" text)
  | ["f64"; bits; text] -> Writer.CF64 (reg_f true bits "" text)
  | ["f32p"; bits; prec; text] -> Writer.CF32p (reg_f false bits prec text, n_of_string prec)
  | ["f64p"; bits; prec; text] -> Writer.CF64p (reg_f true bits prec text, n_of_string prec)
  | ["date"; which; y; m; d; h] -> Writer.CDate ((which = "u"), date_of which y m d h)
  (* write_date(x.iso_8601()) = write!(self, "{}", formatter): preamble, the formatted text, epilogue *)
  | ["dateiso"; which; y; m; d; h] -> Writer.CFmt (Date.iso_fmt (date_of which y m d h))
  | "rgb" :: r :: g :: b :: a -> Writer.CRgb (u32 r, u32 g, u32 b, alpha a)
  | ["m"] -> Writer.CMixed
  | ["fmt"; h] -> Writer.CFmt (bytes_of_hex h)
  | "bin" :: rest -> Writer.CBinary (btok_of rest)
  | _ -> raise Bad

let calls_of (s : string) : Writer.call list =
  Hashtbl.reset ftab;
  if s = "-" || s = "" then [] else Stdlib.List.map call_of (split ';' s)

let calls_of_keep (s : string) : Writer.call list =      (* no reset of the float table: sessions *)
  if s = "-" || s = "" then [] else Stdlib.List.map call_of (split ';' s)

let queries (w : Writer.wr) : string =
  let b x = if x then 1 else 0 in
  Printf.sprintf "%s.%d" (string_of_n (Writer.q_depth w))
    (b (Writer.q_expecting_key w) + 2 * b (Writer.q_at_unknown_start w) + 4 * b (Writer.q_at_array_value w))

let guard f = try f () with Bad | Failure _ | Invalid_argument _ | Not_found -> "BADCASE"

let () =
  register "writer.calls" (function [cfg; calls] -> guard (fun () ->
      let c = cfg_of cfg in
      let cs = calls_of calls in
      show_outcome (fun (out, log) ->
          let l = Stdlib.List.map (fun (e, w) -> (if e then "E" else "") ^ queries w) log in
          hex_of_bytes out ^ " " ^ (if l = [] then "-" else Stdlib.String.concat "," l))
        (Writer.run fdisp c cs)) | _ -> "BADCASE");
  register "writer.tape" (function [cfg; _input; tape] -> guard (fun () ->
      let c = cfg_of cfg in
      let t = Ttglue.tape_of_string tape in
      match Writer.write_tape (Writer.tape_fuel t) c t with
      | Writer.WOk (w, out) -> "ok " ^ hex_of_bytes out ^ " " ^ queries w
      | Writer.WErr (w, out, _) -> "ERR " ^ hex_of_bytes out ^ " " ^ queries w
      | Writer.WCrash (_, _) -> crash_tag) | _ -> "BADCASE");
  (* wave 4: one writer state threaded through calls, write_tape traversals and raw inner() writes *)
  register "writer.session" (function cfg :: segs -> guard (fun () ->
      let c = cfg_of cfg in
      Hashtbl.reset ftab;
      let cut s ch = match Stdlib.String.index_opt s ch with
        | Some i -> (Stdlib.String.sub s 0 i, Stdlib.String.sub s (i + 1) (Stdlib.String.length s - i - 1))
        | None -> raise Bad in
      let buf = Stdlib.Buffer.create 256 in
      let log = ref [] in
      let w = ref Writer.wr_init in
      let crashed = ref false in
      Stdlib.List.iter (fun seg ->
          if not !crashed then begin
            let (k, body) = cut seg '=' in
            match k with
            | "c" ->
              let cs = calls_of_keep body in
              (match Writer.run_from fdisp c !w cs with
               | Bytes.Ok (out, l) ->
                 Stdlib.Buffer.add_string buf (let h = hex_of_bytes out in if h = "-" then "" else h);
                 Stdlib.List.iter (fun (_, w') -> w := w') l;
                 let ls = Stdlib.List.map (fun (e, w') -> (if e then "E" else "") ^ queries w') l in
                 log := (if ls = [] then "-" else Stdlib.String.concat "," ls) :: !log
               | _ -> crashed := true)
            | "t" ->
              let (_, tape) = cut body '|' in
              let t = Ttglue.tape_of_string tape in
              (match Writer.wt (Writer.tape_fuel t) c t (Writer.JCore (nat_of_int 0, nat_of_int (Stdlib.List.length t))) !w with
               | Writer.WOk (w', out) ->
                 Stdlib.Buffer.add_string buf (let h = hex_of_bytes out in if h = "-" then "" else h);
                 w := w'; log := ("T" ^ queries w') :: !log
               | Writer.WErr (w', out, _) ->
                 Stdlib.Buffer.add_string buf (let h = hex_of_bytes out in if h = "-" then "" else h);
                 w := w'; log := ("TE" ^ queries w') :: !log
               | Writer.WCrash (_, _) -> crashed := true)
            | "i" -> Stdlib.Buffer.add_string buf (if body = "-" then "" else body); log := "I" :: !log
            | _ -> raise Bad
          end) segs;
      if !crashed then crash_tag
      else
        let h = Stdlib.Buffer.contents buf in
        (if h = "" then "-" else h) ^ " " ^ (if !log = [] then "-" else Stdlib.String.concat "/" (Stdlib.List.rev !log))) | _ -> "BADCASE");
  register "writer.escape" (function [h] -> hex_of_bytes (Writer.escape (bytes_of_hex h)) | _ -> "BADCASE");
  (* buffer reuse is unobservable in the model: the scratch Vec is cleared before use *)
  register "writer.escape_reuse" (function [_; h] -> hex_of_bytes (Writer.escape (bytes_of_hex h)) | _ -> "BADCASE")

(* ---------------------------------------------------------------- wave 5 (w_wr) *)
(* documents in the prefix encoding of props/textdoc.py ser (same decoder as ocaml/fam_spec.ml) *)
let parse_doc_w (s : string) : TextDoc.fields =
  let a = Array.of_list (Stdlib.String.split_on_char ' ' s) in
  let i = ref 0 in
  let next () = if !i >= Array.length a then raise Bad else (let x = a.(!i) in incr i; x) in
  let op_of s = if s = "-" then None else (let c = int_of_string s in if c < 0 || c > 7 then raise Bad; Some (Ttglue.op_of_code c)) in
  let kind s = if s = "Q" then TextDoc.Quo else TextDoc.Unq in
  let rec value () : TextDoc.value =
    match next () with
    | "S" -> let k = kind (next ()) in let b = bytes_of_hex (next ()) in TextDoc.VScalar (k, b)
    | "O" -> let n = int_of_string (next ()) in let fs = fields n in
      let m = int_of_string (next ()) in let tl = values m in TextDoc.VObject (fs, tl)
    | "A" -> let n = int_of_string (next ()) in TextDoc.VArray (values n)
    | "K" -> let n = int_of_string (next ()) in let items = values n in
      let m = int_of_string (next ()) in let kv = fields m in TextDoc.VArrayKv (items, kv)
    | "H" -> let name = bytes_of_hex (next ()) in let v = value () in TextDoc.VHeader (name, v)
    | _ -> raise Bad
  and field () : TextDoc.field =
    match next () with
    | "F" -> let k = kind (next ()) in let key = bytes_of_hex (next ()) in let op = op_of (next ()) in
      let v = value () in TextDoc.Field (k, key, op, v)
    | "PV" -> let name = bytes_of_hex (next ()) in let u = next () = "1" in let s = bytes_of_hex (next ()) in TextDoc.ParamV (name, u, s)
    | "PO" -> let name = bytes_of_hex (next ()) in let u = next () = "1" in let n = int_of_string (next ()) in
      TextDoc.ParamO (name, u, fields n)
    | _ -> raise Bad
  and fields n : TextDoc.fields = if n <= 0 then TextDoc.FNil else let f = field () in TextDoc.FCons (f, fields (n - 1))
  and values n : TextDoc.values = if n <= 0 then TextDoc.VNil else let v = value () in TextDoc.VCons (v, values (n - 1)) in
  let n = int_of_string (next ()) in
  fields n

let () =
  (* writer.kclass <doc> : the class K of Props/C14_mixcont.v / C15_mixcont.v (model only: a classifier for the oracles) *)
  register "writer.kclass" (function [d] -> guard (fun () ->
      let doc = parse_doc_w d in
      Printf.sprintf "k14=%s k15=%s wx=%d k14p=%s" (string_of_n (WriterMix.k14_class doc)) (string_of_n (WriterMix.k15_class doc))
        (if WriterMix.wx_fields doc then 1 else 0) (string_of_n (WriterMix.k14p_class doc))) | _ -> "BADCASE");
  (* writer.wfword <hex> : TextDoc.wf_word, the contract assumed of every text the writer prints as a bare word *)
  register "writer.wfword" (function [h] -> guard (fun () ->
      if WriterMix.wf_word_text (bytes_of_hex h) then "1" else "0") | _ -> "BADCASE")
