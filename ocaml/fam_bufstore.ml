(* buffer.rs at storage level (wave 5, w_buf): op sequences on one BufferWindow.
   bs.ops / bs.rec run the storage model BufStore.bs_run, bs.abs the window-level runner
   BufStore.abs_run (proved equal in Props/C07_store.v); all three print the same line. *)
open Glue

let parse_sched (s : string) : BufWin.event list =
  if s = "-" || s = "" then []
  else Stdlib.List.map (fun x -> if x = "F" then BufWin.Fail else BufWin.Data (n_of_string x)) (Stdlib.String.split_on_char ',' s)

let nat s = nat_of_int (int_of_string s)
let two s = match Stdlib.String.split_on_char '.' s with [a; b] -> (nat a, nat b) | _ -> failwith "bad pair"
let rest_of s = Stdlib.String.sub s 1 (Stdlib.String.length s - 1)

let parse_op (s : string) : BufStore.op =
  match s.[0] with
  | 'f' -> if Stdlib.String.length s = 1 then BufStore.OFill None
           else BufStore.OFill (Some (n_of_int (int_of_string ("0x" ^ rest_of s))))
  | 'z' -> if Stdlib.String.length s = 1 then BufStore.OFillZ None
           else BufStore.OFillZ (Some (n_of_int (int_of_string ("0x" ^ rest_of s))))
  | 'a' -> BufStore.OAdv (nat (rest_of s))
  | 't' -> BufStore.OAdvTo (nat (rest_of s))
  | 'g' -> let (i, j) = two (rest_of s) in BufStore.OGet (i, j)
  | 'A' -> BufStore.ORawAdv (nat (rest_of s))
  | 'T' -> BufStore.ORawAdvTo (nat (rest_of s))
  | 'G' -> let (i, j) = two (rest_of s) in BufStore.ORawGet (i, j)
  | _ -> failwith "bad op"

let parse_ops (s : string) : BufStore.op list =
  if s = "-" || s = "" then [] else Stdlib.List.map parse_op (Stdlib.String.split_on_char ',' s)

let show_ev (e : BufStore.bev) : string =
  match e with
  | BufStore.EFill n -> "F" ^ string_of_int (int_of_nat n)
  | BufStore.EIo -> "IO"
  | BufStore.EFull -> "FULL"
  | BufStore.EAdv n -> "A" ^ string_of_int (int_of_nat n)
  | BufStore.EGet b -> "G" ^ hex_of_bytes b
  | BufStore.ECrash _ -> crash_tag

let show_obs (l : BufStore.obs list) : string =
  let items = Stdlib.List.map (fun (o : BufStore.obs) ->
      match o.BufStore.o_ev with
      | BufStore.ECrash _ -> crash_tag
      | e -> Printf.sprintf "%s:%s@%d/%d" (show_ev e) (hex_of_bytes o.BufStore.o_win)
               (int_of_nat o.BufStore.o_pos) (int_of_nat o.BufStore.o_consumed)) l in
  if Stdlib.List.mem crash_tag items then crash_tag
  else if items = [] then "-" else Stdlib.String.concat " " items

let mk_rd data sched : BufWin.rd =
  { BufWin.rest = data; BufWin.sched = parse_sched sched; BufWin.calls = Datatypes.O; BufWin.delivered = Datatypes.O }

let mk_store mode spec data : BufStore.store =
  match mode with
  | "buf" -> BufStore.bs_build (bytes_of_hex spec)
  | "len" -> BufStore.bs_new (nat spec)
  | "slice" -> BufStore.bs_from_slice data
  | _ -> failwith "bad mode"

let mk_abs mode spec data : BufStore.absst =
  match mode with
  | "buf" -> BufStore.abs_build (nat_of_int (Stdlib.List.length (bytes_of_hex spec)))
  | "len" -> BufStore.abs_build (nat spec)
  | "slice" -> BufStore.abs_from_slice data
  | _ -> failwith "bad mode"

let () =
  register "bs.ops" (function
      | [mode; spec; h; sched; ops] ->
        let data = bytes_of_hex h in
        show_obs (BufStore.bs_run (mk_store mode spec data) (mk_rd data sched) (parse_ops ops))
      | _ -> "BADCASE");
  register "bs.abs" (function
      | [mode; spec; h; sched; ops] ->
        let data = bytes_of_hex h in
        show_obs (BufStore.abs_run (mk_abs mode spec data) (mk_rd data sched) (parse_ops ops))
      | _ -> "BADCASE");
  (* a buffer recycled from a previous window: first life (spec, h1, sched1, ops1), then the buffer is taken out
     (into_parts) and a second window is built from it *)
  register "bs.rec" (function
      | [spec; h1; sched1; ops1; h2; sched2; ops2] ->
        let d1 = bytes_of_hex h1 in
        let st1 = BufStore.bs_final (BufStore.bs_build (bytes_of_hex spec)) (mk_rd d1 sched1) (parse_ops ops1) in
        let d2 = bytes_of_hex h2 in
        show_obs (BufStore.bs_run (BufStore.bs_build st1.BufStore.s_buf) (mk_rd d2 sched2) (parse_ops ops2))
      | _ -> "BADCASE")
